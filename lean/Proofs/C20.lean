/-
  C20 — permutation and subset-sum helpers enumerate exactly and answer correctly.
  ONLY property theorems (and their non-vacuity examples) live here; helper lemmas are in Proofs/Lemmas/.

  Model.Perms / Model.Knapsack mirror the code after the `fix:` commits (nextperm with repeats / [], combink under
  Python 3 without the function attribute and with p = 0, exactsum returning the list without the shared default
  accumulator, dynprog without the TypeError).  Generators are the list of their yields, the in-place list is
  returned as explicit state.
-/
import Mathlib.Data.List.Permutation
import Mathlib.Data.List.Sublists
import Model.Perms
import Model.Knapsack
import Spec.Perms
import Spec.Knapsack
import Proofs.Lemmas.PermutkL
import Proofs.Lemmas.PermsSpecL
import Proofs.Lemmas.CombinkL
import Proofs.Lemmas.CombsSpecL
import Proofs.Lemmas.KnapsackL
import Proofs.Lemmas.DynprogL
import Proofs.Lemmas.NextpermOrderL
import Proofs.Lemmas.NextpermL
import Proofs.Lemmas.NextArrL
namespace Proofs.C20
open Model Model.Perms Model.Knapsack

variable {α : Type}

/-! ## permutk -/

/-- **permutk, exact order**: for every list and every depth k ≤ |l| the generator yields, in this order, the fixed head
    `l[:k]` followed by each arrangement of the tail `l[k:]` in selection order (the order of itertools.permutations) -/
theorem permutk_yields (l : List α) (k : Nat) (hk : k ≤ l.length) :
    (permutk l k).1 = (Spec.Perms.perms (l.drop k)).map (l.take k ++ ·) := by
  rw [Proofs.Lemmas.PermutkL.permutk_eq l k hk]

/-- **permutk_restores**: the list is left as it was found -/
theorem permutk_restores (l : List α) (k : Nat) (hk : k ≤ l.length) : (permutk l k).2 = l := by
  rw [Proofs.Lemmas.PermutkL.permutk_eq l k hk]

/-- **permutk_perm**: as a multiset the yields are exactly `{l[:k] ++ p : p ∈ permutations (l[k:])}` (Mathlib's
    `List.permutations`: every arrangement of the tail, each exactly as often as it arises by position — once when the
    elements are distinct) -/
theorem permutk_perm (l : List α) (k : Nat) (hk : k ≤ l.length) :
    ((permutk l k).1).Perm ((l.drop k).permutations.map (l.take k ++ ·)) := by
  rw [permutk_yields l k hk]
  exact (Proofs.Lemmas.PermsSpecL.perms_perm_permutations _).map _

/-- n! arrangements from depth 0, (n−k)! from depth k -/
theorem permutk_count (l : List α) (k : Nat) (hk : k ≤ l.length) :
    (permutk l k).1.length = (l.length - k).factorial := by
  rw [permutk_yields l k hk, List.length_map, Proofs.Lemmas.PermsSpecL.length_perms, List.length_drop]

/-- with distinct elements no arrangement is yielded twice, and a list is yielded iff it is `l[:k]` followed by a
    permutation of `l[k:]` -/
theorem permutk_nodup_mem (l : List α) (k : Nat) (hk : k ≤ l.length) :
    (l.Nodup → (permutk l k).1.Nodup)
    ∧ ∀ y, y ∈ (permutk l k).1 ↔ ∃ p, p.Perm (l.drop k) ∧ y = l.take k ++ p := by
  rw [permutk_yields l k hk]
  refine ⟨?_, ?_⟩
  · intro hnd
    have hd : (l.drop k).Nodup := hnd.sublist (List.drop_sublist k l)
    exact (Proofs.Lemmas.PermsSpecL.nodup_perms _ _ rfl hd).map (fun a b h => List.append_cancel_left h)
  · intro y
    rw [List.mem_map]
    constructor
    · rintro ⟨p, hp, rfl⟩
      exact ⟨p, (Proofs.Lemmas.PermsSpecL.mem_perms _ _ rfl p).1 hp, rfl⟩
    · rintro ⟨p, hp, rfl⟩
      exact ⟨p, (Proofs.Lemmas.PermsSpecL.mem_perms _ _ rfl p).2 hp, rfl⟩

/-! ## nextperm -/

/-- **nextperm_succ**: for every list of ints (repeated elements and the empty list included) `nextperm` succeeds, the
    result is a rearrangement of the input, and with the lexicographic order `<` on lists:
    if some arrangement of l is greater than l, the result is the least such arrangement (the lexicographic successor);
    otherwise (l is the last arrangement) the result is the ascending one (the first arrangement: wrap-around) -/
theorem nextperm_succ (l : List Int) :
    ∃ r, nextperm l = .ok r ∧ r.Perm l
      ∧ ((∃ p : List Int, p.Perm l ∧ l < p) → l < r ∧ ∀ p : List Int, p.Perm l → l < p → ¬ p < r)
      ∧ ((¬ ∃ p : List Int, p.Perm l ∧ l < p) → r.Pairwise (· ≤ ·)) := by
  rcases Proofs.Lemmas.NextpermL.nextperm_cases l with ⟨hd, hr⟩ | ⟨pre, suf, rest, a, b, hl, hsuf, hrest, hab, hb, hbmin, hperm, hr⟩
  · refine ⟨l.reverse, hr, List.reverse_perm l, ?_, ?_⟩
    · intro h
      exact absurd h (Proofs.Lemmas.NextpermOrderL.desc_no_succ l hd)
    · intro _
      rw [List.pairwise_reverse]
      exact hd
  · have hpermr : (pre ++ b :: rest).Perm l := by
      rw [hl]; exact List.Perm.append_left pre hperm
    have hlt : l < pre ++ b :: rest := by
      rw [hl]; exact Proofs.Lemmas.NextpermOrderL.pivot_lt a b suf rest pre hab
    refine ⟨pre ++ b :: rest, hr, hpermr, ?_, ?_⟩
    · intro _
      refine ⟨hlt, ?_⟩
      intro p hp hlp
      rw [hl] at hp hlp
      exact List.not_lt.2 (Proofs.Lemmas.NextpermOrderL.pivot_least a b suf rest hsuf hrest hbmin hperm pre p hp hlp)
    · intro h
      exact absurd ⟨_, hpermr, hlt⟩ h

/-- the successor is unique: any r' that is a least greater arrangement equals the result (so `nextperm` IS the
    successor function, not merely one of several admissible answers) -/
theorem nextperm_unique (l r r' : List Int) (h : nextperm l = .ok r)
    (h1 : r'.Perm l) (h2 : l < r') (h3 : ∀ p : List Int, p.Perm l → l < p → ¬ p < r') : r' = r := by
  obtain ⟨r0, hr0, hp0, hs0, _⟩ := nextperm_succ l
  rw [h] at hr0
  cases hr0
  obtain ⟨hlt, hmin⟩ := hs0 ⟨r', h1, h2⟩
  exact List.le_antisymm (List.not_lt.1 (h3 r hp0 hlt)) (List.not_lt.1 (hmin r' h1 h2))

/-- **nextperm_eq_nextArr**: the brute-force successor of the executable specification (`Spec.Perms.nextArr`: the least
    arrangement of l above l among ALL arrangements `Spec.Perms.perms l`, the least arrangement of all when there is none
    above) is what `nextperm` returns, for every list — so the `spec` column the driver echoes for `nextperm` lines IS the
    successor characterised by `nextperm_succ` / `nextperm_unique`, not merely a function validated by the stream -/
theorem nextperm_eq_nextArr (l : List Int) : nextperm l = .ok (Spec.Perms.nextArr l) := by
  obtain ⟨r, hr, hperm, hsucc, hlast⟩ := nextperm_succ l
  have hmem : ∀ p : List Int, p ∈ Spec.Perms.perms l ↔ p.Perm l := Proofs.Lemmas.PermsSpecL.mem_perms _ l rfl
  rw [hr]
  congr 1
  unfold Spec.Perms.nextArr
  cases hf : (Spec.Perms.perms l).filter (fun p => l < p) with
  | cons c cs =>
    -- some arrangement is above l: the least of them is the unique successor
    simp only
    have hin : ∀ p : List Int, p ∈ c :: cs ↔ p.Perm l ∧ l < p := by
      intro p
      rw [← hf, List.mem_filter, hmem, decide_eq_true_eq]
    obtain ⟨hm, hle⟩ := Proofs.Lemmas.NextArrL.lexMin_spec cs c
    have hm' := (hin _).1 hm
    exact (nextperm_unique l r _ hr hm'.1 hm'.2
      (fun p hp hlp => List.not_lt.2 (hle p ((hin p).2 ⟨hp, hlp⟩)))).symm
  | nil =>
    -- l is the last arrangement: the result is the ascending one, which is the least arrangement of all
    simp only
    have hnone : ¬ ∃ p : List Int, p.Perm l ∧ l < p := by
      rintro ⟨p, hp, hlp⟩
      have : p ∈ (Spec.Perms.perms l).filter (fun p => l < p) := by
        rw [List.mem_filter, hmem, decide_eq_true_eq]; exact ⟨hp, hlp⟩
      rw [hf] at this
      exact absurd this List.not_mem_nil
    have hasc := hlast hnone
    cases hp : Spec.Perms.perms l with
    | nil =>
      have : l ∈ Spec.Perms.perms l := (hmem l).2 (List.Perm.refl l)
      rw [hp] at this
      exact absurd this List.not_mem_nil
    | cons c cs =>
      simp only
      have hin : ∀ p : List Int, p ∈ c :: cs ↔ p.Perm l := by
        intro p; rw [← hp, hmem]
      obtain ⟨hm, hle⟩ := Proofs.Lemmas.NextArrL.lexMin_spec cs c
      have hmp : (Spec.Perms.lexMin c cs).Perm r := ((hin _).1 hm).trans hperm.symm
      exact List.le_antisymm (Proofs.Lemmas.NextpermOrderL.asc_least r hasc _ hmp) (hle r ((hin r).2 hperm))

/-! ## combink -/

/-- **combink_spec**: for every list and every 0 ≤ p ≤ |l|, `combink(l,p,0)` yields, in this order, the sub-lists of
    length p in lexicographic index order (the order of itertools.combinations) -/
theorem combink_spec (l : List α) (p : Nat) (hp : p ≤ l.length) : combink l p 0 = .ok (Spec.Perms.combs p l) :=
  Proofs.Lemmas.CombinkL.combink_eq l p hp

/-- the enumeration is, as a multiset, Mathlib's `sublistsLen p l`: every p-subset (by position) exactly once;
    its members are exactly the sub-lists of length p, there are choose(n,p) of them, and none repeats when the
    elements are distinct -/
theorem combs_exact (l : List α) (p : Nat) :
    (Spec.Perms.combs p l).Perm (List.sublistsLen p l)
    ∧ (∀ c, c ∈ Spec.Perms.combs p l ↔ c.Sublist l ∧ c.length = p)
    ∧ (Spec.Perms.combs p l).length = l.length.choose p
    ∧ (l.Nodup → (Spec.Perms.combs p l).Nodup) :=
  ⟨Proofs.Lemmas.CombsSpecL.combs_perm_sublistsLen l p, Proofs.Lemmas.CombsSpecL.mem_combs l p,
   Proofs.Lemmas.CombsSpecL.length_combs l p, Proofs.Lemmas.CombsSpecL.nodup_combs l p⟩

/-! ## exactsum -/

/-- `exactsum` is the depth-first reference search (result in reverse item order) — for all weights -/
theorem exactsum_refines (l : List Item) (s : Int) :
    exactsum l s = (Spec.Knapsack.firstSolution l s).map List.reverse :=
  Proofs.Lemmas.KnapsackL.exactsum_eq l s

/-- **exactsum_sound**: a returned list is, up to order, a sub-list of the given items and its weights sum to s -/
theorem exactsum_sound (l : List Item) (s : Int) (c : List Item) (h : exactsum l s = some c) :
    c.reverse.Sublist l ∧ wsum c = s := by
  rw [exactsum_refines] at h
  cases hf : Spec.Knapsack.firstSolution l s with
  | none => rw [hf] at h; cases h
  | some c' =>
    rw [hf] at h
    simp only [Option.map_some, Option.some.injEq] at h
    subst h
    obtain ⟨h1, h2⟩ := Proofs.Lemmas.KnapsackL.firstSolution_sound l s c' hf
    refine ⟨by simpa using h1, ?_⟩
    have : wsum c'.reverse = Spec.Knapsack.wsum c' := by
      simp only [wsum, Spec.Knapsack.wsum, List.map_reverse, List.sum_reverse]
      rfl
    rw [this, h2]

/-- **exactsum_complete**: with positive weights, failure (False) is reported exactly when no sub-collection sums to s -/
theorem exactsum_complete (l : List Item) (hpos : ∀ it ∈ l, 0 < weight it) (s : Int) :
    exactsum l s = none ↔ ¬ ∃ c : List Item, c.Sublist l ∧ wsum c = s := by
  rw [exactsum_refines]
  constructor
  · intro h ⟨c, hc, hs⟩
    have := Proofs.Lemmas.KnapsackL.firstSolution_complete l hpos s c hc hs
    cases hf : Spec.Knapsack.firstSolution l s with
    | none => rw [hf] at this; cases this
    | some c' => rw [hf] at h; cases h
  · intro h
    cases hf : Spec.Knapsack.firstSolution l s with
    | none => rfl
    | some c' =>
      exfalso
      obtain ⟨h1, h2⟩ := Proofs.Lemmas.KnapsackL.firstSolution_sound l s c' hf
      exact h ⟨c', h1, h2⟩

/-! ## dynprog -/

/-- KNOWN FINDING (C20-dynprog-reuse), kernel-checked witness: the result of `dynprog` on l = [(a,2)], s = 4 uses the only
    item twice, so no reordering of it is a sub-list of l: "sub-collection of the given items" is false for dynprog -/
theorem dynprog_not_sub :
    dynprog [(7, 2)] 4 = some [(7, 2), (7, 2)]
      ∧ ¬ ∃ c : List Item, c.Perm [(7, 2), (7, 2)] ∧ c.Sublist [(7, 2)] := by
  refine ⟨by decide +kernel, ?_⟩
  intro ⟨c, hp, hs⟩
  have h1 := hp.length_eq
  have h2 := hs.length_le
  simp at h1 h2
  omega

/-
  FULL STATEMENT (not provable: false for the code, see dynprog_not_sub — recorded as known finding C20-dynprog-reuse):
    theorem dynprog_spec (l) (hpos : ∀ it ∈ l, 0 < weight it) (s : Int) :
      (∀ c, dynprog l s = some c → (∃ c', c'.Perm c ∧ c'.Sublist l) ∧ wsum c = s
              ∧ ∀ d, d.Sublist l → wsum d = s → c.length ≤ d.length)
      ∧ (dynprog l s = none ↔ ¬ ∃ c, c.Sublist l ∧ wsum c = s)
  PROVED instead (`_partial`): the same with "collection of items of l, repetition allowed" in place of
  "sub-collection": every element of the result is an item of l, the weights sum to s, no collection with repetition
  has fewer elements, and None is returned exactly when s is not reachable even with repetition.
-/
theorem dynprog_partial (l : List Item) (hpos : ∀ it ∈ l, 0 < weight it) (s : Int) :
    (∀ c, dynprog l s = some c →
        (∀ it ∈ c, it ∈ l) ∧ wsum c = s ∧ ∀ d : List Item, (∀ it ∈ d, it ∈ l) → wsum d = s → c.length ≤ d.length)
    ∧ (dynprog l s = none ↔ ¬ ∃ d : List Item, (∀ it ∈ d, it ∈ l) ∧ wsum d = s) := by
  unfold dynprog
  by_cases hs : s < 0
  · simp only [hs, if_true]
    refine ⟨(by intro c h; cases h), ?_⟩
    simp only [true_iff]
    rintro ⟨d, hd, hsum⟩
    have := Proofs.Lemmas.DynprogL.wsum_nonneg l d hpos hd
    omega
  · simp only [hs, if_false]
    obtain ⟨e, he, hg⟩ := Proofs.Lemmas.DynprogL.dpTable_good l hpos s.toNat s.toNat (Nat.le_refl _)
    have hcast : ((s.toNat : Nat) : Int) = s := by omega
    rw [he]
    cases e with
    | none =>
      simp only [Option.join]
      refine ⟨(by intro c h; cases h), ?_⟩
      refine ⟨fun _ => ?_, fun _ => rfl⟩
      rintro ⟨d, hd, hsum⟩
      exact hg d ⟨hd, by rw [hcast]; exact hsum⟩
    | some e =>
      obtain ⟨hlen, hrep, hmin⟩ := hg
      simp only [Option.join]
      refine ⟨?_, ?_⟩
      · intro c hc
        have hc' : e.2 = c := by simpa using hc
        subst hc'
        refine ⟨hrep.1, by rw [← hcast]; exact hrep.2, ?_⟩
        intro d hd hsum
        have := hmin d ⟨hd, by rw [hcast]; exact hsum⟩
        show e.2.length ≤ d.length
        omega
      · constructor
        · intro h; cases h
        · intro h
          exact absurd ⟨e.2, hrep.1, by rw [← hcast]; exact hrep.2⟩ h

/-! ## non-vacuity -/

example : (permutk [1, 2, 3] 1).1 = [[1, 2, 3], [1, 3, 2]] ∧ (permutk [1, 2, 3] 1).2 = [1, 2, 3] := by decide
example : (nextperm [1, 2, 1]).toOption = some [2, 1, 1] ∧ (nextperm [3, 2, 1]).toOption = some [1, 2, 3] := by decide +kernel
example : Spec.Perms.nextArr [1, 2, 1] = [2, 1, 1] ∧ Spec.Perms.nextArr [3, 2, 1] = [1, 2, 3] ∧ Spec.Perms.nextArr [] = [] := by decide +kernel
example : (combink [1, 2, 3, 4] 2 0).toOption = some [[1, 2], [1, 3], [1, 4], [2, 3], [2, 4], [3, 4]] := by decide +kernel
example : ∀ it ∈ ([(1, 3), (2, 5), (3, 2), (4, 7)] : List Item), 0 < weight it := by decide
example : exactsum [(1, 3), (2, 5), (3, 2), (4, 7)] 12 = some [(4, 7), (3, 2), (1, 3)] := by decide +kernel
example : exactsum [(1, 3), (2, 5), (3, 2), (4, 7)] 4 = none := by decide +kernel
example : dynprog [(1, 3), (2, 5), (3, 2), (4, 7)] 8 = some [(2, 5), (1, 3)] := by decide +kernel

end Proofs.C20
