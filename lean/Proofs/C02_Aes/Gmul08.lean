import Proofs.C02_Aes.GmulDef
namespace Proofs.C02_Aes.Gmul08
open Proofs.C02_Aes.Gmul
/-- gmul a b = a·b in GF(2^8) for 128 ≤ a < 144, every b < 256 (4096 pairs, evaluated by the kernel) -/
theorem rows : chkRows 128 16 = true := by decide +kernel
end Proofs.C02_Aes.Gmul08
