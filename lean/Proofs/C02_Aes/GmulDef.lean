/-
  Boolean checker for the GF(2^8) product table: the exposed `gmul` of the model (Exp/Log look-ups on the tables
  regenerated from the source) against polynomial multiplication modulo m(x); split over 16 modules `GmulXX`.
-/
import Model.Aes
import Spec.Aes
namespace Proofs.C02_Aes.Gmul

def chk (a b : Nat) : Bool :=
  match Model.Aes.gmul a b with
  | .ok v => v == Spec.Aes.gfmul a b
  | .error _ => false

/-- all pairs (a,b) with lo ≤ a < lo+n, b < 256 -/
def chkRows (lo n : Nat) : Bool := (List.range' lo n).all fun a => (List.range 256).all fun b => chk a b

theorem chk_of_rows {lo n : Nat} (h : chkRows lo n = true) {a b : Nat} (ha : lo ≤ a ∧ a < lo + n) (hb : b < 256) :
    Model.Aes.gmul a b = .ok (Spec.Aes.gfmul a b) := by
  unfold chkRows at h
  rw [List.all_eq_true] at h
  have h1 := h a (by rw [List.mem_range']; exact ⟨a - lo, by omega, by omega⟩)
  rw [List.all_eq_true] at h1
  have h2 := h1 b (List.mem_range.mpr hb)
  unfold chk at h2
  split at h2
  · next v hv => rw [hv]; congr 1; exact beq_iff_eq.mp h2
  · exact absurd h2 (by decide)

end Proofs.C02_Aes.Gmul
