import Proofs.C02_Aes.GmulDef
namespace Proofs.C02_Aes.Gmul03
open Proofs.C02_Aes.Gmul
/-- gmul a b = a·b in GF(2^8) for 48 ≤ a < 64, every b < 256 (4096 pairs, evaluated by the kernel) -/
theorem rows : chkRows 48 16 = true := by decide +kernel
end Proofs.C02_Aes.Gmul03
