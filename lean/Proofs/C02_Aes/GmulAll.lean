/- the 16 blocks assembled: the complete 65 536-entry product table -/
import Proofs.C02_Aes.Gmul00
import Proofs.C02_Aes.Gmul01
import Proofs.C02_Aes.Gmul02
import Proofs.C02_Aes.Gmul03
import Proofs.C02_Aes.Gmul04
import Proofs.C02_Aes.Gmul05
import Proofs.C02_Aes.Gmul06
import Proofs.C02_Aes.Gmul07
import Proofs.C02_Aes.Gmul08
import Proofs.C02_Aes.Gmul09
import Proofs.C02_Aes.Gmul10
import Proofs.C02_Aes.Gmul11
import Proofs.C02_Aes.Gmul12
import Proofs.C02_Aes.Gmul13
import Proofs.C02_Aes.Gmul14
import Proofs.C02_Aes.Gmul15
namespace Proofs.C02_Aes.Gmul

theorem gmul_table {a b : Nat} (ha : a < 256) (hb : b < 256) :
    Model.Aes.gmul a b = .ok (Spec.Aes.gfmul a b) := by
  have hq : a / 16 < 16 := by omega
  have hr : 16 * (a / 16) ≤ a ∧ a < 16 * (a / 16) + 16 := by omega
  generalize a / 16 = q at hq hr
  match q, hq with
  | 0, _ => exact chk_of_rows Gmul00.rows hr hb
  | 1, _ => exact chk_of_rows Gmul01.rows hr hb
  | 2, _ => exact chk_of_rows Gmul02.rows hr hb
  | 3, _ => exact chk_of_rows Gmul03.rows hr hb
  | 4, _ => exact chk_of_rows Gmul04.rows hr hb
  | 5, _ => exact chk_of_rows Gmul05.rows hr hb
  | 6, _ => exact chk_of_rows Gmul06.rows hr hb
  | 7, _ => exact chk_of_rows Gmul07.rows hr hb
  | 8, _ => exact chk_of_rows Gmul08.rows hr hb
  | 9, _ => exact chk_of_rows Gmul09.rows hr hb
  | 10, _ => exact chk_of_rows Gmul10.rows hr hb
  | 11, _ => exact chk_of_rows Gmul11.rows hr hb
  | 12, _ => exact chk_of_rows Gmul12.rows hr hb
  | 13, _ => exact chk_of_rows Gmul13.rows hr hb
  | 14, _ => exact chk_of_rows Gmul14.rows hr hb
  | 15, _ => exact chk_of_rows Gmul15.rows hr hb
  | n + 16, h => exact absurd h (by omega)

end Proofs.C02_Aes.Gmul
