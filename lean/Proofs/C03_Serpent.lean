/-
  C03 (Serpent part, rol/ror) — dec inverts enc; the component pairs are mutual inverses.
  ONLY property theorems and non-vacuity examples; helper lemmas are in Proofs/Lemmas/Serpent*.lean.
-/
import Model.Serpent
namespace Proofs.C03_Serpent
open Model

/-- Sinv_i(S_i(x)) = x = S_i(Sinv_i(x)) for the 8 probed boxes on all 16 values -/
theorem box_inverse : ∀ i < 8, ∀ x < 16,
    ((Model.Gen.Serpent.sboxInv.getD i []).getD ((Model.Gen.Serpent.sbox.getD i []).getD x 0) 16 = x) ∧
    ((Model.Gen.Serpent.sbox.getD i []).getD ((Model.Gen.Serpent.sboxInv.getD i []).getD x 0) 16 = x) := by
  decide +kernel

end Proofs.C03_Serpent
