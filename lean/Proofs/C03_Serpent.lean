/-
  C03 (Serpent part, rol/ror) — Serpent.dec inverts Serpent.enc (both ways) and keeps the block length; the exposed
  component pairs _S/_Sinv (8 boxes), _IP/_FP, _L/_Linv are mutual inverses on every 128-bit block; rol/ror of
  crysp/utils/operators.py are mutual inverses for every width and every amount.
  ONLY property theorems and non-vacuity examples; helper lemmas are in Proofs/Lemmas/Serpent*.lean.
  Blocks/values are well-formed `Bits` (ival < 2^size), the only values the library hands out.
-/
import Proofs.Lemmas.SerpentBytes
namespace Proofs.C03_Serpent
open Model Model.Bits Spec.Serpent
open Proofs.Lemmas.SerpentBits Proofs.Lemmas.SerpentComp Proofs.Lemmas.SerpentSpec Proofs.Lemmas.SerpentKS
open Proofs.Lemmas.SerpentEnc Proofs.Lemmas.SerpentBytes

/-! ### the probed tables -/

/-- Sinv_i(S_i(x)) = x = S_i(Sinv_i(x)) for the 8 probed boxes on all 16 values -/
theorem box_inverse : ∀ i < 8, ∀ x < 16,
    ((Model.Gen.Serpent.sboxInv.getD i []).getD ((Model.Gen.Serpent.sbox.getD i []).getD x 0) 16 = x) ∧
    ((Model.Gen.Serpent.sbox.getD i []).getD ((Model.Gen.Serpent.sboxInv.getD i []).getD x 0) 16 = x) := by
  decide +kernel

/-- the probed `_IP` and `_FP` index tables are inverse permutations of 0..127 -/
theorem ip_fp_inverse : ∀ j < 128,
    Model.Gen.Serpent.fpTable.getD j 0 < 128 ∧ Model.Gen.Serpent.ipTable.getD j 0 < 128 ∧
    Model.Gen.Serpent.ipTable.getD (Model.Gen.Serpent.fpTable.getD j 0) 0 = j ∧
    Model.Gen.Serpent.fpTable.getD (Model.Gen.Serpent.ipTable.getD j 0) 0 = j := by decide +kernel

/-! ### component pairs on every 128-bit block -/

/-- `_FP(_IP(X)) == X` for every block (index-permutation argument over all 128 positions) -/
theorem FP_IP (X : Bits) (hs : X.size = 128) (hwf : X.WF) :
    (Model.Serpent.IP X >>= Model.Serpent.FP) = .ok X := by
  have h1 := IP_eq X hs
  have h2 := FP_eq (gather Model.Gen.Serpent.ipTable X) ipTable_length
  rw [h1]
  simp only [bind, Except.bind]
  rw [h2]
  refine congrArg Except.ok ?_
  apply bits_ext _ _ (by rw [hs]; exact fpTable_length) (gather_wf _ _) hwf
  intro j hj
  have hj : j < 128 := by rw [← fpTable_length]; exact hj
  obtain ⟨h1, _, h3, _⟩ := ip_fp_inverse j hj
  rw [testBit_gather', testBit_gather', fpTable_length, ipTable_length, h3]
  simp only [hj, h1, decide_true, Bool.true_and]

/-- `_IP(_FP(X)) == X` for every block -/
theorem IP_FP (X : Bits) (hs : X.size = 128) (hwf : X.WF) :
    (Model.Serpent.FP X >>= Model.Serpent.IP) = .ok X := by
  have h1 := FP_eq X hs
  have h2 := IP_eq (gather Model.Gen.Serpent.fpTable X) fpTable_length
  rw [h1]
  simp only [bind, Except.bind]
  rw [h2]
  refine congrArg Except.ok ?_
  apply bits_ext _ _ (by rw [hs]; exact ipTable_length) (gather_wf _ _) hwf
  intro j hj
  have hj : j < 128 := by rw [← ipTable_length]; exact hj
  obtain ⟨_, h2, _, h4⟩ := ip_fp_inverse j hj
  rw [testBit_gather', testBit_gather', fpTable_length, ipTable_length, h4]
  simp only [hj, h2, decide_true, Bool.true_and]

/-- `_Sinv(i,_S(i,X)) == X` for the 8 boxes and every block (every bit position, lifted from the 16 enumerated values) -/
theorem Sinv_S (i : Nat) (X : Bits) (hi : i < 8) (hs : X.size = 128) (hwf : X.WF) :
    (Model.Serpent.S i X >>= Model.Serpent.Sinv i) = .ok X := by
  rw [S_eq i X hi hs]
  show Model.Serpent.Sinv i (B _) = _
  rw [Sinv_B i _ hi (applyBox_ws _ _), applyBox_sboxInv_sbox i hi _ (stateOfNat_ws _), B_stateOfNat X hs hwf]

/-- `_S(i,_Sinv(i,X)) == X` -/
theorem S_Sinv (i : Nat) (X : Bits) (hi : i < 8) (hs : X.size = 128) (hwf : X.WF) :
    (Model.Serpent.Sinv i X >>= Model.Serpent.S i) = .ok X := by
  rw [Sinv_eq i X hi hs]
  show Model.Serpent.S i (B _) = _
  rw [S_B i _ hi (applyBox_ws _ _), applyBox_sbox_sboxInv i hi _ (stateOfNat_ws _), B_stateOfNat X hs hwf]

/-- `_Linv(_L(X)) == X` for every block (xor cancellation and ror∘rol = id) -/
theorem Linv_L (X : Bits) (hs : X.size = 128) (hwf : X.WF) :
    (Model.Serpent.L X >>= Model.Serpent.Linv) = .ok X := by
  rw [L_eq X hs]
  show Model.Serpent.Linv (B _) = _
  rw [Linv_B _ (lt_ws _), ltInv_lt _ (stateOfNat_ws _), B_stateOfNat X hs hwf]

/-- `_L(_Linv(X)) == X` -/
theorem L_Linv (X : Bits) (hs : X.size = 128) (hwf : X.WF) :
    (Model.Serpent.Linv X >>= Model.Serpent.L) = .ok X := by
  rw [Linv_eq X hs]
  show Model.Serpent.L (B _) = _
  rw [L_B _ (ltInv_ws _ (stateOfNat_ws _)), lt_ltInv _ (stateOfNat_ws _), B_stateOfNat X hs hwf]

/-! ### rol / ror of crysp/utils/operators.py: every width, every amount -/

/-- `ror(rol(x,n),n) == x` for every width `x.size`, every amount `0 ≤ n ≤ x.size` -/
theorem ror_rol (x : Bits) (n : Nat) (hwf : x.WF) (hn : n ≤ x.size) :
    (x.rol n >>= fun y => y.ror n) = .ok x := by
  rw [rol_eq x n hn]
  show (x.rol! n).ror n = _
  rw [ror_eq _ n (by rw [rol!_size]; exact hn), ror!_rol! x n hn hwf]

/-- `rol(ror(x,n),n) == x` -/
theorem rol_ror (x : Bits) (n : Nat) (hwf : x.WF) (hn : n ≤ x.size) :
    (x.ror n >>= fun y => y.rol n) = .ok x := by
  rw [ror_eq x n hn]
  show (x.ror! n).rol n = _
  rw [rol_eq _ n (by rw [ror!_size]; exact hn), rol!_ror! x n hn hwf]

/-- an amount beyond the width is an error (negative shift count), never a silent result -/
theorem rot_out_of_range (x : Bits) (n : Nat) (h : x.size < n) :
    (∃ e, x.rol n = .error e) ∧ (∃ e, x.ror n = .error e) := ⟨rol_err x n h, ror_err x n h⟩

/-- `rol` is the rotation of the bit sequence: bit j moves to (j+n) mod width -/
theorem rol_refines (x : Bits) (n : Nat) (hwf : x.WF) (hn : n ≤ x.size) :
    x.rol n = .ok ⟨rolBits x.size x.ival n, x.size⟩ := by
  rw [rol_eq x n hn]
  congr 1
  apply bits_ext (x.rol! n) ⟨rolBits x.size x.ival n, x.size⟩ (rol!_size x n) (rol!_wf x n) (ofBitFn_lt _ _)
  intro j hj
  rw [rol!_size] at hj
  rw [testBit_rol! x n j hn hwf]
  simp only [rolBits, testBit_ofBitFn, hj, decide_true, Bool.true_and]
  by_cases hns : n = x.size
  · subst hns
    simp only [hj, if_true, Nat.mod_self, Nat.sub_zero, Nat.add_mod_right, Nat.mod_eq_of_lt hj]
    congr 1; omega
  · have hlt : n < x.size := by omega
    rw [Nat.mod_eq_of_lt hlt]
    by_cases hjn : j < n
    · simp only [hjn, if_true]
      rw [Nat.mod_eq_of_lt (by omega)]; congr 1; omega
    · simp only [hjn, if_false]
      have : j + (x.size - n) = (j - n) + x.size := by omega
      rw [this, Nat.add_mod_right, Nat.mod_eq_of_lt (by omega)]

/-- `ror` is the rotation the other way: bit (j+n) mod width moves to j -/
theorem ror_refines (x : Bits) (n : Nat) (hwf : x.WF) (hn : n ≤ x.size) :
    x.ror n = .ok ⟨rorBits x.size x.ival n, x.size⟩ := by
  rw [ror_eq x n hn]
  congr 1
  apply bits_ext (x.ror! n) ⟨rorBits x.size x.ival n, x.size⟩ (ror!_size x n) (ror!_wf x n) (ofBitFn_lt _ _)
  intro j hj
  rw [ror!_size] at hj
  rw [testBit_ror! x n j hn hwf]
  simp only [rorBits, testBit_ofBitFn, hj, decide_true, Bool.true_and]
  by_cases hjn : j + n < x.size
  · simp only [hjn, if_true, Nat.mod_eq_of_lt hjn]
  · simp only [hjn, if_false]
    have : j + n = (j + n - x.size) + x.size := by omega
    conv => rhs; rw [this, Nat.add_mod_right, Nat.mod_eq_of_lt (by omega)]

/-! ### the cipher: dec inverts enc, enc inverts dec, the length is kept — every key up to 256 bits, every block -/

/-- `S.dec(S.enc(M)) == M` on the 128-bit values (before `pack`): for every key of at most 256 bits and every block -/
theorem dec_enc (K M : Bits) (hK : K.WF) (hKs : K.size ≤ 256) (hM : M.WF) (hMs : M.size = 128) :
    ∃ c C, Model.Serpent.init K = .ok c ∧ Model.Serpent.encBits c M = .ok C ∧ C.size = 128 ∧ C.WF ∧
      Model.Serpent.decBits c C = .ok M := by
  refine ⟨⟨(roundKeys K.size K.ival).map B⟩, B (encState (roundKeys K.size K.ival) (stateOfNat M.ival)), init_eq K hKs hK, ?_, B_size _,
    B_wf _ (encState_ws _ (roundKeys_ws _ _) _), ?_⟩
  · have h := encBits_eq (roundKeys K.size K.ival) (roundKeys_ws _ _) (roundKeys_length _ _) (stateOfNat M.ival) (stateOfNat_ws _)
    rw [B_stateOfNat M hMs hM] at h
    exact h
  · rw [decBits_eq _ (roundKeys_ws _ _) (roundKeys_length _ _) _ (encState_ws _ (roundKeys_ws _ _) _),
      decState_encState _ (roundKeys_ws _ _) _ (stateOfNat_ws _), B_stateOfNat M hMs hM]

/-- `S.enc(S.dec(C)) == C` -/
theorem enc_dec (K C : Bits) (hK : K.WF) (hKs : K.size ≤ 256) (hC : C.WF) (hCs : C.size = 128) :
    ∃ c M, Model.Serpent.init K = .ok c ∧ Model.Serpent.decBits c C = .ok M ∧ M.size = 128 ∧ M.WF ∧
      Model.Serpent.encBits c M = .ok C := by
  refine ⟨⟨(roundKeys K.size K.ival).map B⟩, B (decState (roundKeys K.size K.ival) (stateOfNat C.ival)), init_eq K hKs hK, ?_, B_size _,
    B_wf _ (decState_ws _ (roundKeys_ws _ _) _), ?_⟩
  · have h := decBits_eq (roundKeys K.size K.ival) (roundKeys_ws _ _) (roundKeys_length _ _) (stateOfNat C.ival) (stateOfNat_ws _)
    rw [B_stateOfNat C hCs hC] at h
    exact h
  · rw [encBits_eq _ (roundKeys_ws _ _) (roundKeys_length _ _) _ (decState_ws _ (roundKeys_ws _ _) _),
      encState_decState _ (roundKeys_ws _ _) _ (stateOfNat_ws _), B_stateOfNat C hCs hC]

/-- byte strings, as the user calls it: `Serpent(key).dec(Serpent(key).enc(block)) == block`, and the ciphertext has
    16 bytes, for every key of 0..32 bytes and every 16-byte block -/
theorem dec_enc_bytes (key block : List Nat) (hk : IsBytes key) (hb : IsBytes block)
    (hkl : key.length ≤ 32) (hbl : block.length = 16) :
    ∃ c, Model.Serpent.encBytes key block = .ok c ∧ c.length = block.length ∧ IsBytes c ∧
      Model.Serpent.decBytes key c = .ok block := by
  have hKwf : (⟨leNat key, 8 * key.length⟩ : Bits).WF := leNat_lt key
  have hKs : (⟨leNat key, 8 * key.length⟩ : Bits).size ≤ 256 := by show 8 * key.length ≤ 256; omega
  have hMwf : (⟨leNat block, 8 * block.length⟩ : Bits).WF := leNat_lt block
  have hMs : (⟨leNat block, 8 * block.length⟩ : Bits).size = 128 := by show 8 * block.length = 128; omega
  refine ⟨leBytes 16 (encNat (8 * key.length) (leNat key) (leNat block)), ?_, ?_, leBytes_isBytes _ _, ?_⟩
  · unfold Model.Serpent.encBytes
    rw [ofBytes_le key hk, ofBytes_le block hb]
    exact enc_eq _ _ hKwf hKs hMwf hMs
  · rw [leBytes_length, hbl]
  · unfold Model.Serpent.decBytes
    rw [ofBytes_le key hk, ofBytes_le _ (leBytes_isBytes _ _), leBytes_length]
    have hlt : encNat (8 * key.length) (leNat key) (leNat block) < 2 ^ 128 :=
      natOfState_lt _ (encState_ws _ (roundKeys_ws _ _) _)
    have hCwf : (⟨leNat (leBytes 16 (encNat (8 * key.length) (leNat key) (leNat block))), 8 * 16⟩ : Bits).WF := by
      show _ < 2 ^ (8 * 16); rw [leNat_leBytes 16 _ hlt]; exact hlt
    show Model.Serpent.dec _ _ = _
    rw [dec_eq _ _ hKwf hKs hCwf rfl]
    show Except.ok (leBytes 16 (decNat (8 * key.length) (leNat key) (leNat (leBytes 16 _)))) = _
    rw [leNat_leBytes 16 _ hlt]
    unfold decNat encNat
    rw [stateOfNat_natOfState _ (encState_ws _ (roundKeys_ws _ _) _),
      decState_encState _ (roundKeys_ws _ _) _ (stateOfNat_ws _),
      natOfState_stateOfNat _ (by have := leNat_lt block; rw [hbl] at this; exact this)]
    have := leBytes_leNat block hb
    rw [hbl] at this
    rw [this]

/-- `Serpent(key).enc(Serpent(key).dec(block)) == block` -/
theorem enc_dec_bytes (key block : List Nat) (hk : IsBytes key) (hb : IsBytes block)
    (hkl : key.length ≤ 32) (hbl : block.length = 16) :
    ∃ m, Model.Serpent.decBytes key block = .ok m ∧ m.length = block.length ∧ IsBytes m ∧
      Model.Serpent.encBytes key m = .ok block := by
  have hKwf : (⟨leNat key, 8 * key.length⟩ : Bits).WF := leNat_lt key
  have hKs : (⟨leNat key, 8 * key.length⟩ : Bits).size ≤ 256 := by show 8 * key.length ≤ 256; omega
  have hMwf : (⟨leNat block, 8 * block.length⟩ : Bits).WF := leNat_lt block
  have hMs : (⟨leNat block, 8 * block.length⟩ : Bits).size = 128 := by show 8 * block.length = 128; omega
  refine ⟨leBytes 16 (decNat (8 * key.length) (leNat key) (leNat block)), ?_, ?_, leBytes_isBytes _ _, ?_⟩
  · unfold Model.Serpent.decBytes
    rw [ofBytes_le key hk, ofBytes_le block hb]
    exact dec_eq _ _ hKwf hKs hMwf hMs
  · rw [leBytes_length, hbl]
  · unfold Model.Serpent.encBytes
    rw [ofBytes_le key hk, ofBytes_le _ (leBytes_isBytes _ _), leBytes_length]
    have hlt : decNat (8 * key.length) (leNat key) (leNat block) < 2 ^ 128 :=
      natOfState_lt _ (decState_ws _ (roundKeys_ws _ _) _)
    have hCwf : (⟨leNat (leBytes 16 (decNat (8 * key.length) (leNat key) (leNat block))), 8 * 16⟩ : Bits).WF := by
      show _ < 2 ^ (8 * 16); rw [leNat_leBytes 16 _ hlt]; exact hlt
    show Model.Serpent.enc _ _ = _
    rw [enc_eq _ _ hKwf hKs hCwf rfl]
    show Except.ok (leBytes 16 (encNat (8 * key.length) (leNat key) (leNat (leBytes 16 _)))) = _
    rw [leNat_leBytes 16 _ hlt]
    unfold decNat encNat
    rw [stateOfNat_natOfState _ (decState_ws _ (roundKeys_ws _ _) _),
      encState_decState _ (roundKeys_ws _ _) _ (stateOfNat_ws _),
      natOfState_stateOfNat _ (by have := leNat_lt block; rw [hbl] at this; exact this)]
    have := leBytes_leNat block hb
    rw [hbl] at this
    rw [this]

/-- `|enc_K(B)| == |B|`: the result of enc (and dec) on any admissible input has 16 bytes -/
theorem enc_length (K M : Bits) (hK : K.WF) (hKs : K.size ≤ 256) (hM : M.WF) (hMs : M.size = 128) :
    (∃ c, Model.Serpent.enc K M = .ok c ∧ c.length = 16) ∧ (∃ m, Model.Serpent.dec K M = .ok m ∧ m.length = 16) :=
  ⟨⟨_, enc_eq K M hK hKs hM hMs, leBytes_length _ _⟩, ⟨_, dec_eq K M hK hKs hM hMs, leBytes_length _ _⟩⟩

/-- the same for the submission's cipher itself (Spec): decryption inverts encryption and vice versa, every key length, key, block -/
theorem spec_dec_enc (klen K P : Nat) (hP : P < 2 ^ 128) :
    decNat klen K (encNat klen K P) = P ∧ encNat klen K (decNat klen K P) = P ∧
    encNat klen K P < 2 ^ 128 ∧ decNat klen K P < 2 ^ 128 := by
  unfold decNat encNat
  refine ⟨?_, ?_, natOfState_lt _ (encState_ws _ (roundKeys_ws _ _) _), natOfState_lt _ (decState_ws _ (roundKeys_ws _ _) _)⟩
  · rw [stateOfNat_natOfState _ (encState_ws _ (roundKeys_ws _ _) _),
      decState_encState _ (roundKeys_ws _ _) _ (stateOfNat_ws _), natOfState_stateOfNat _ hP]
  · rw [stateOfNat_natOfState _ (decState_ws _ (roundKeys_ws _ _) _),
      encState_decState _ (roundKeys_ws _ _) _ (stateOfNat_ws _), natOfState_stateOfNat _ hP]

/-! ### non-vacuity -/
example : (⟨0x1234, 13⟩ : Bits).WF ∧ 5 ≤ (⟨0x1234, 13⟩ : Bits).size := by decide
example : (⟨0, 0⟩ : Bits).WF ∧ 0 ≤ (⟨0, 0⟩ : Bits).size := by decide
example : IsBytes [0xde, 0xad] ∧ [0xde, 0xad].length ≤ 32 ∧ (List.replicate 16 0xff).length = 16 ∧ IsBytes (List.replicate 16 0xff) := by
  decide
example : (⟨2 ^ 127 + 1, 128⟩ : Bits).WF := by decide

end Proofs.C03_Serpent
