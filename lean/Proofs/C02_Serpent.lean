/-
  C02 (Serpent part) — Serpent encrypts/decrypts exactly as the AES submission defines, for every key of up to
  256 bits and every block; over-long keys and blocks that are not 128 bits are rejected.
  ONLY property theorems and non-vacuity examples; helper lemmas are in Proofs/Lemmas/Serpent*.lean.

  Model.Serpent mirrors crysp/serpent.py over Model.Bits (tables/constants regenerated from the source into
  Model.Gen.Serpent); Spec.Serpent is the bitslice definition of the submission.  A 128-bit `Bits` X corresponds
  to the state `stateOfNat X.ival` (words X0..X3); `natOfState` is the inverse.
-/
import Proofs.Lemmas.SerpentBytes
namespace Proofs.C02_Serpent
open Model Model.Bits Spec.Serpent
open Proofs.Lemmas.SerpentBits Proofs.Lemmas.SerpentComp Proofs.Lemmas.SerpentSpec Proofs.Lemmas.SerpentKS
open Proofs.Lemmas.SerpentEnc Proofs.Lemmas.SerpentBytes

/-! ### tables and constants regenerated from the source = the submission's -/

/-- the 8 S-boxes probed from the current source (complete behaviour on all 16 values) are the submission's -/
theorem sbox_eq_spec : Model.Gen.Serpent.sbox = Spec.Serpent.sboxTable := by decide +kernel

/-- the 8 probed inverse boxes are the inverses (by position search) of the submission's S-boxes, all 16 values -/
theorem sboxInv_eq_spec : ∀ i < 8, ∀ y < 16,
    (Model.Gen.Serpent.sboxInv.getD i []).getD y 0 = Spec.Serpent.sboxInv i y := by decide +kernel

/-- `_IP` (128 probed entries) is the submission's rule 32·j mod 127, i.e. the 4×32 bit transpose -/
theorem ip_eq_spec : ∀ j < 128, Model.Gen.Serpent.ipTable.getD j 0 = Spec.Serpent.ipSrc j ∧
    Spec.Serpent.ipSrc j = 32 * (j % 4) + j / 4 := by decide +kernel

/-- `_FP` (128 probed entries) is the rule 4·j mod 127, the 32×4 transpose -/
theorem fp_eq_spec : ∀ j < 128, Model.Gen.Serpent.fpTable.getD j 0 = Spec.Serpent.fpSrc j ∧
    Spec.Serpent.fpSrc j = 4 * (j % 32) + j / 32 := by decide +kernel

theorem ip_fp_lengths : Model.Gen.Serpent.ipTable.length = 128 ∧ Model.Gen.Serpent.fpTable.length = 128 := by
  decide +kernel

/-- the literal rotation/shift amounts of `_L`/`_Linv` and the words they act on, in order of appearance -/
theorem lt_constants :
    Model.Gen.Serpent.lRot = [13, 3, 1, 7, 5, 22] ∧ Model.Gen.Serpent.lRotIdx = [0, 2, 1, 3, 0, 2] ∧
    Model.Gen.Serpent.lShift = [3, 7] ∧ Model.Gen.Serpent.lShiftIdx = [0, 1] ∧
    Model.Gen.Serpent.linvRot = [22, 5, 7, 1, 3, 13] ∧ Model.Gen.Serpent.linvRotIdx = [2, 0, 3, 1, 2, 0] ∧
    Model.Gen.Serpent.linvShift = [7, 3] ∧ Model.Gen.Serpent.linvShiftIdx = [1, 0] := by decide

/-- phi, the prekey recurrence offsets, the rotation by 11, the loop bounds and the block size -/
theorem keyschedule_constants :
    Model.Gen.Serpent.phi = Spec.Serpent.phi ∧ Model.Gen.Serpent.phiSize = 32 ∧
    Model.Gen.Serpent.prekeyOffsets = [-8, -5, -3, -1] ∧ Model.Gen.Serpent.prekeyRot = 11 ∧
    Model.Gen.Serpent.keyWordsRange = [0, 256, 32] ∧ Model.Gen.Serpent.prekeyRange = [132] ∧
    Model.Gen.Serpent.keyschedRange = [35, 2, -1] ∧ Model.Gen.Serpent.blocksize = 128 := by decide

/-! ### component refinements, every 128-bit block -/

/-- `_IP` is the submission's initial permutation on every block -/
theorem IP_refines (X : Bits) (hs : X.size = 128) :
    Model.Serpent.IP X = .ok ⟨Spec.Serpent.IP X.ival, 128⟩ := by
  rw [IP_eq X hs]
  congr 1
  apply bits_ext _ _ ipTable_length (gather_wf _ _) (ofBitFn_lt _ _)
  intro j hj
  have hj : j < 128 := by rw [← ipTable_length]; exact hj
  simp only [Spec.Serpent.IP]
  rw [testBit_gather', testBit_ofBitFn, ipTable_length, (ip_eq_spec j hj).1]

/-- `_FP` is the submission's final permutation on every block -/
theorem FP_refines (X : Bits) (hs : X.size = 128) :
    Model.Serpent.FP X = .ok ⟨Spec.Serpent.FP X.ival, 128⟩ := by
  rw [FP_eq X hs]
  congr 1
  apply bits_ext _ _ fpTable_length (gather_wf _ _) (ofBitFn_lt _ _)
  intro j hj
  have hj : j < 128 := by rw [← fpTable_length]; exact hj
  simp only [Spec.Serpent.FP]
  rw [testBit_gather', testBit_ofBitFn, fpTable_length, (fp_eq_spec j hj).1]

/-- `_S(i,·)` (IP, 32 table lookups, FP) is the bitslice application of S_i to all 32 columns -/
theorem S_refines (i : Nat) (X : Bits) (hi : i < 8) (hs : X.size = 128) :
    Model.Serpent.S i X = .ok ⟨natOfState (applyBox (sbox i) (stateOfNat X.ival)), 128⟩ := S_eq i X hi hs

/-- `_Sinv(i,·)` is the bitslice application of S_i^{-1} -/
theorem Sinv_refines (i : Nat) (X : Bits) (hi : i < 8) (hs : X.size = 128) :
    Model.Serpent.Sinv i X = .ok ⟨natOfState (applyBox (sboxInv i) (stateOfNat X.ival)), 128⟩ := Sinv_eq i X hi hs

/-- `_L` is the linear transformation -/
theorem L_refines (X : Bits) (hs : X.size = 128) :
    Model.Serpent.L X = .ok ⟨natOfState (lt (stateOfNat X.ival)), 128⟩ := L_eq X hs

/-- `_Linv` is the inverse linear transformation -/
theorem Linv_refines (X : Bits) (hs : X.size = 128) :
    Model.Serpent.Linv X = .ok ⟨natOfState (ltInv (stateOfNat X.ival)), 128⟩ := Linv_eq X hs

/-- the constructor: short-key padding (1 then zeros), the prekey recurrence with phi and `rol 11`, and the 33 round
    keys through the S-boxes, for every key of at most 256 bits -/
theorem keyschedule_refines (K : Bits) (hwf : K.WF) (hs : K.size ≤ 256) :
    Model.Serpent.init K = .ok ⟨(roundKeys K.size K.ival).map fun s => ⟨natOfState s, 128⟩⟩ := init_eq K hs hwf

/-- the padded key alone -/
theorem padKey_refines (K : Bits) (hwf : K.WF) (hs : K.size ≤ 256) :
    Model.Serpent.padKey K = .ok ⟨Spec.Serpent.padKey K.size K.ival, 256⟩ := padKey_eq K hs hwf

/-! ### end to end -/

/-- `Serpent(K).enc(M)` is the submission's ciphertext for every key of at most 256 bits and every block
    (operands as `Bits(·,bitorder=1)` hands them over) -/
theorem enc_refines (K M : Bits) (hK : K.WF) (hKs : K.size ≤ 256) (hM : M.WF) (hMs : M.size = 128) :
    Model.Serpent.enc K M = .ok (leBytes 16 (encNat K.size K.ival M.ival)) := enc_eq K M hK hKs hM hMs

theorem dec_refines (K C : Bits) (hK : K.WF) (hKs : K.size ≤ 256) (hC : C.WF) (hCs : C.size = 128) :
    Model.Serpent.dec K C = .ok (leBytes 16 (decNat K.size K.ival C.ival)) := dec_eq K C hK hKs hC hCs

/-- byte-string interface: every key of 0..32 bytes, every 16-byte block -/
theorem enc_refines_bytes (key block : List Nat) (hk : IsBytes key) (hb : IsBytes block)
    (hkl : key.length ≤ 32) (hbl : block.length = 16) :
    (Model.Serpent.encBytes key block).toOption = Spec.Serpent.enc key block ∧
    (Spec.Serpent.enc key block).isSome := by
  unfold Model.Serpent.encBytes Spec.Serpent.enc
  rw [ofBytes_le key hk, ofBytes_le block hb]
  simp only [bind, Except.bind]
  rw [enc_eq ⟨leNat key, 8 * key.length⟩ ⟨leNat block, 8 * block.length⟩ (leNat_lt key) (by show 8 * key.length ≤ 256; omega)
    (leNat_lt block) (by show 8 * block.length = 128; omega)]
  simp [hkl, hbl, Except.toOption]

theorem dec_refines_bytes (key block : List Nat) (hk : IsBytes key) (hb : IsBytes block)
    (hkl : key.length ≤ 32) (hbl : block.length = 16) :
    (Model.Serpent.decBytes key block).toOption = Spec.Serpent.dec key block ∧
    (Spec.Serpent.dec key block).isSome := by
  unfold Model.Serpent.decBytes Spec.Serpent.dec
  rw [ofBytes_le key hk, ofBytes_le block hb]
  simp only [bind, Except.bind]
  rw [dec_eq ⟨leNat key, 8 * key.length⟩ ⟨leNat block, 8 * block.length⟩ (leNat_lt key) (by show 8 * key.length ≤ 256; omega)
    (leNat_lt block) (by show 8 * block.length = 128; omega)]
  simp [hkl, hbl, Except.toOption]

/-! ### undefined sizes are rejected -/

/-- a key longer than 256 bits is refused by the constructor (after the `fix:`; it was truncated silently) -/
theorem size_rejected_key (K : Bits) (h : 256 < K.size) : ∃ e, Model.Serpent.init K = .error e := by
  unfold Model.Serpent.init Model.Serpent.padKey
  simp [h, bind, Except.bind]

theorem size_rejected_key_enc (K M : Bits) (h : 256 < K.size) :
    (∃ e, Model.Serpent.enc K M = .error e) ∧ (∃ e, Model.Serpent.dec K M = .error e) := by
  obtain ⟨e, he⟩ := size_rejected_key K h
  unfold Model.Serpent.enc Model.Serpent.dec
  rw [he]
  exact ⟨⟨e, rfl⟩, ⟨e, rfl⟩⟩

/-- a block that is not 128 bits is refused by enc and dec, whatever the key -/
theorem size_rejected_block (K M : Bits) (h : M.size ≠ 128) :
    (∃ e, Model.Serpent.enc K M = .error e) ∧ (∃ e, Model.Serpent.dec K M = .error e) := by
  unfold Model.Serpent.enc Model.Serpent.dec
  cases hi : Model.Serpent.init K with
  | error e => exact ⟨⟨e, rfl⟩, ⟨e, rfl⟩⟩
  | ok c =>
    simp only [bind, Except.bind, Model.Serpent.encBits, Model.Serpent.decBits, chk_err M h]
    exact ⟨⟨_, rfl⟩, ⟨_, rfl⟩⟩

/-- byte strings: more than 32 key bytes or not exactly 16 block bytes ⇒ error, and the Spec is undefined there -/
theorem size_rejected_bytes (key block : List Nat) (hk : IsBytes key) (hb : IsBytes block)
    (h : 32 < key.length ∨ block.length ≠ 16) :
    (∃ e, Model.Serpent.encBytes key block = .error e) ∧ (∃ e, Model.Serpent.decBytes key block = .error e) ∧
    Spec.Serpent.enc key block = none ∧ Spec.Serpent.dec key block = none := by
  unfold Model.Serpent.encBytes Model.Serpent.decBytes
  rw [ofBytes_le key hk, ofBytes_le block hb]
  simp only [bind, Except.bind]
  refine ⟨?_, ?_, ?_, ?_⟩
  · rcases h with h | h
    · exact (size_rejected_key_enc _ _ (by simp only []; omega)).1
    · exact (size_rejected_block _ _ (by simp only []; omega)).1
  · rcases h with h | h
    · exact (size_rejected_key_enc _ _ (by simp only []; omega)).2
    · exact (size_rejected_block _ _ (by simp only []; omega)).2
  · unfold Spec.Serpent.enc
    have : ¬ (key.length ≤ 32 ∧ block.length = 16) := by omega
    simp [this]
  · unfold Spec.Serpent.dec
    have : ¬ (key.length ≤ 32 ∧ block.length = 16) := by omega
    simp [this]

/-- the component functions refuse states that are not 128 bits and box numbers outside 0..7 -/
theorem size_rejected_components (X : Bits) (h : X.size ≠ 128) (i : Nat) :
    (∃ e, Model.Serpent.IP X = .error e) ∧ (∃ e, Model.Serpent.FP X = .error e) ∧
    (∃ e, Model.Serpent.L X = .error e) ∧ (∃ e, Model.Serpent.Linv X = .error e) ∧
    (∃ e, Model.Serpent.S i X = .error e) ∧ (∃ e, Model.Serpent.Sinv i X = .error e) := by
  unfold Model.Serpent.IP Model.Serpent.FP Model.Serpent.L Model.Serpent.Linv Model.Serpent.S Model.Serpent.Sinv
    Model.Serpent.subst
  simp only [chk_err X h, bind, Except.bind]
  refine ⟨⟨_, rfl⟩, ⟨_, rfl⟩, ⟨_, rfl⟩, ⟨_, rfl⟩, ?_, ?_⟩ <;>
  · by_cases hi : i < 8
    · simp [hi]
    · simp [hi, throw, throwThe, MonadExceptOf.throw]

/-! ### non-vacuity: the hypotheses are inhabited by non-trivial instances (the NESSIE vector of tests/test_serpent.py,
    a 5-byte key, an over-long key) -/
example : Spec.Serpent.enc [0x80, 0, 0, 0, 0, 0, 0, 0, 0, 0, 0, 0, 0, 0, 0, 0, 0, 0, 0, 0, 0, 0, 0, 0, 0, 0, 0, 0, 0, 0, 0, 0]
      [0, 0, 0, 0, 0, 0, 0, 0, 0, 0, 0, 0, 0, 0, 0, 0]
    = some [0xA2, 0x23, 0xAA, 0x12, 0x88, 0x46, 0x3C, 0x0E, 0x2B, 0xE3, 0x8E, 0xBD, 0x82, 0x56, 0x16, 0xC0] := by
  decide +kernel
/-- NESSIE Serpent-128 set 1 vector 0: a 16-byte key goes through the 1-then-zeros padding -/
example : Spec.Serpent.enc [0x80, 0, 0, 0, 0, 0, 0, 0, 0, 0, 0, 0, 0, 0, 0, 0] [0, 0, 0, 0, 0, 0, 0, 0, 0, 0, 0, 0, 0, 0, 0, 0]
    = some [0x26, 0x4E, 0x54, 0x81, 0xEF, 0xF4, 0x2A, 0x46, 0x06, 0xAB, 0xDA, 0x06, 0xC0, 0xBF, 0xDA, 0x3D] := by
  decide +kernel
example : IsBytes [1, 2, 3, 4, 5] ∧ [1, 2, 3, 4, 5].length ≤ 32 ∧ (⟨0x0504030201, 40⟩ : Bits).WF := by decide
example : ∃ e, Model.Serpent.init ⟨1, 257⟩ = .error e := size_rejected_key _ (by decide)

end Proofs.C02_Serpent
