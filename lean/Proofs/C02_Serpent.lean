/-
  C02 (Serpent part) — Serpent encrypts/decrypts as the AES submission defines.
  ONLY property theorems and non-vacuity examples; helper lemmas are in Proofs/Lemmas/Serpent*.lean.
-/
import Model.Serpent
import Spec.Serpent
namespace Proofs.C02_Serpent
open Model

/-- the 8 S-boxes probed from the current source (complete behaviour on all 16 values) are the submission's -/
theorem sbox_eq_spec : Model.Gen.Serpent.sbox = Spec.Serpent.sboxTable := by decide +kernel

end Proofs.C02_Serpent
