/-
  C17 — MD6 digests equal the specification for every digest size, mode parameter L, key, round count and
  message bit length.  ONLY property theorems (and non-vacuity examples) live here; helper lemmas are in
  Proofs/Lemmas/Md6*.lean.
-/
import Model.Md6
import Spec.Md6
namespace Proofs.C17
open Model Model.Md6

/-- the 15 words of Q the code reads are the report's -/
theorem Q_eq : Gen.Md6.Q = Spec.Md6.Q.map (·.toNat) := by decide +kernel

/-- … and the report's Q is what it claims to be: the first 960 bits of the fractional part of √6 -/
theorem Q_is_sqrt6 : Spec.Md6.QisSqrt6 := by
  unfold Spec.Md6.QisSqrt6; decide +kernel

end Proofs.C17
