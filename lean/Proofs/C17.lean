/-
  C17 — MD6 digests equal the specification for every digest size, mode parameter L, key, round count and
  message bit length.  ONLY property theorems (and non-vacuity examples) live here; helper lemmas are in
  Proofs/Lemmas/Md6*.lean.
-/
import Model.Md6
import Spec.Md6
import Proofs.Lemmas.Md6F
import Proofs.Lemmas.Md6V
import Proofs.Lemmas.Md6Mode
namespace Proofs.C17
open Model Model.Md6 Proofs.Lemmas

/-! ### the constants the code reads (regenerated from the current source) are the report's -/

/-- the 15 words of Q -/
theorem Q_eq : Gen.Md6.Q = Spec.Md6.Q.map (·.toNat) := by decide +kernel

/-- … and the report's Q is what it claims to be: the first 960 bits of the fractional part of √6 -/
theorem Q_is_sqrt6 : Spec.Md6.QisSqrt6 := by
  unfold Spec.Md6.QisSqrt6; decide +kernel

/-- both shift tables -/
theorem shift_tables_eq : Gen.Md6.rin = Spec.Md6.rshift ∧ Gen.Md6.lin = Spec.Md6.lshift := by decide

/-- tap positions, as a tuple and as the five names the loop uses -/
theorem taps_eq : Gen.Md6.taps = [Spec.Md6.t0, Spec.Md6.t1, Spec.Md6.t2, Spec.Md6.t3, Spec.Md6.t4]
    ∧ Gen.Md6.t0 = Spec.Md6.t0 ∧ Gen.Md6.t1 = Spec.Md6.t1 ∧ Gen.Md6.t2 = Spec.Md6.t2
    ∧ Gen.Md6.t3 = Spec.Md6.t3 ∧ Gen.Md6.t4 = Spec.Md6.t4 := by decide

/-- S₀, the mask S* and the rotation of the round-constant recurrence; 16 steps per round, 16 output words -/
theorem S_constants_eq : Gen.Md6.S0 = Spec.Md6.S0.toNat ∧ Gen.Md6.Smask = Spec.Md6.Sstar.toNat ∧ Gen.Md6.Srot = 1
    ∧ Gen.Md6.stepsPerRound = 16 ∧ Gen.Md6.jWrap = 16 ∧ Gen.Md6.cWords = Spec.Md6.c := by decide

/-- the constructor's default round count, probed for EVERY d ≤ 512 without and with a key, is the report's
    r = 40 + ⌊d/4⌋ (at least 80 with a key) -/
theorem default_rounds_eq : ∀ d ≤ 512,
    Gen.Md6.defaultRounds.getD d 0 = Spec.Md6.defaultRounds d 0 ∧
    Gen.Md6.defaultRoundsKeyed.getD d 0 = Spec.Md6.defaultRounds d 1 := by
  decide +kernel

/-- … and the model's rule is the report's for every d and key -/
theorem default_rounds_refines (d : Nat) (key : List Nat) (L : Nat) :
    (Md6.new d key L).rounds = Spec.Md6.defaultRounds d key.length := by
  simp only [Md6.new, Md6.defaultRounds, Spec.Md6.defaultRounds, Option.getD_none]
  by_cases h : key.length = 0 <;> simp [h]

/-! ### the compression function -/

/-- MD6.f equals the report's compression function f_r for EVERY round count r ≥ 1 and every 89-word input
    (r = 0 is outside the report and is an artefact in the code: `Poly(0,64,dim=0)` has one coefficient) -/
theorem f_refines (r : Nat) (hr : 1 ≤ r) (N : List Nat) (hN : N.length = 89) :
    Md6.f r N = (Spec.Md6.compress r (N.map (BitVec.ofNat 64))).map (·.toNat) :=
  Md6F.f_refines' r hr N hN

/-- the loop's running round constant is the report's S'_{⌊s/16⌋} -/
theorem round_constant_is_Sr (N : List Spec.Md6.Word) (s : Nat) :
    ((List.range s).foldl Spec.Md6.step (N.toArray, Spec.Md6.S0)).2 = Spec.Md6.Sr (s / 16) := by
  induction s with
  | zero => rfl
  | succ s ih =>
    rw [List.range_succ, List.foldl_append]
    simp only [List.foldl_cons, List.foldl_nil, Spec.Md6.step, ih]
    by_cases h : s % 16 = 15
    · rw [if_pos h, show (s + 1) / 16 = s / 16 + 1 by omega]; rfl
    · rw [if_neg h, show (s + 1) / 16 = s / 16 by omega]

/-! ### control word and node id -/

/-- the control word the code assembles by `Bits` concatenation and slice assignment (`V[20:36] = p`, PAR) is the
    report's V = 0⁴‖r¹²‖L⁸‖z⁴‖p¹⁶‖keylen⁸‖d¹², for every field value that fits its field -/
theorem V_layout (d keylen z L r p : Nat) (hr : r < 2^12) (hL : L < 2^8) (hz : z < 2^4) (hp : p < 2^16)
    (hk : keylen < 2^8) (hd : d < 2^12) :
    Md6.setP (Md6.V0 d keylen z L r) p = .ok ⟨(Spec.Md6.V r L z p keylen d).toNat, 64⟩ :=
  Md6V.setP_V0 d keylen z L r p hr hL hz hp hk hd

/-- … and in SEQ, where the last block gets `V[20:36] = p; V[36:40] = Bits(1,4)` on a word built with z = 0 -/
theorem V_layout_seq (d keylen L r p : Nat) (hr : r < 2^12) (hL : L < 2^8) (hp : p < 2^16)
    (hk : keylen < 2^8) (hd : d < 2^12) :
    (Md6.setP (Md6.V0 d keylen 0 L r) p >>= Md6.setZ1) = .ok ⟨(Spec.Md6.V r L 1 p keylen d).toNat, 64⟩
    ∧ Md6.V0 d keylen 0 L r = ⟨(Spec.Md6.V r L 0 0 keylen d).toNat, 64⟩ :=
  ⟨Md6V.setZ1_setP_V0 d keylen L r p hr hL hp hk hd, Md6V.V0_eq d keylen 0 L r hr hL (by omega) hk hd⟩

/-- the node id `(level<<56)+index` stored into `W[23]` is the report's U = ℓ⁸‖i⁵⁶ -/
theorem U_layout (level index : Nat) (hl : level < 2^8) (hi : index < 2^56) :
    ((level <<< 56) + index) % 2 ^ 64 = (Spec.Md6.U level index).toNat :=
  Md6V.U_eq level index hl hi

/-! ### mode of operation

  Hypotheses used below, all part of the property's own quantifier (and of the report's parameter space):
  d ≤ 512, L ≤ 64, 1 ≤ r < 4096 (a 12-bit field), key of at most 64 bytes, bytes are < 256, the message is shorter
  than 2^64 bits (the report's bound; it keeps the node index inside its 56-bit field), and an explicit bit length
  does not exceed the message. `m` = the bit length actually hashed = `bitlen` if given, else 8|M|. -/

/-- one call of MD6.PAR at any level 1..255 is the report's PAR: j = max(1,⌈m/4096⌉) compressions of
    Q‖K‖U(ℓ,i)‖V(r,L,z,p,keylen,d)‖B_i with z = [j = 1] and p = the padding bits of the last block -/
theorem par_level_refines (d L r : Nat) (key M : List Nat) (level : Nat) (bitlen : Option Nat)
    (hd : d ≤ 512) (hL : L ≤ 64) (hr1 : 1 ≤ r) (hr : r < 4096) (hkey : key.length ≤ 64)
    (hkb : ∀ x ∈ key, x < 256) (hM : ∀ x ∈ M, x < 256) (hlevel : level < 256)
    (hbl : bitlen.getD (8 * M.length) ≤ 8 * M.length) (hlen : 8 * M.length < 2 ^ 64) :
    Md6.PAR (Md6.new d key L (some r)) level M bitlen =
      .ok (Spec.Md6.ofWords (Spec.Md6.par ⟨d, key, L, r⟩ level M (bitlen.getD (8 * M.length)))) :=
  Md6Mode.par_refines (Md6Mode.dom_of hd hL hr1 hr hkey hkb) level hlevel M hM bitlen hbl hlen

/-- MD6.SEQ is the report's SEQ (chained compressions with the 16-word chaining prefix, z = 1 and p on the last
    block only, node ids (L+1, i)) followed by the final chop to d bits -/
theorem seq_refines (d L r : Nat) (key M : List Nat) (bitlen : Option Nat)
    (hd : d ≤ 512) (hL : L ≤ 64) (hr1 : 1 ≤ r) (hr : r < 4096) (hkey : key.length ≤ 64)
    (hkb : ∀ x ∈ key, x < 256) (hM : ∀ x ∈ M, x < 256)
    (hbl : bitlen.getD (8 * M.length) ≤ 8 * M.length) (hlen : 8 * M.length < 2 ^ 64) :
    Md6.SEQ (Md6.new d key L (some r)) M bitlen =
      .ok (Spec.Md6.chop d (Spec.Md6.seq ⟨d, key, L, r⟩ M (bitlen.getD (8 * M.length)))) :=
  Md6Mode.seq_refines (Md6Mode.dom_of hd hL hr1 hr hkey hkb) (by omega) M hM bitlen hbl hlen

/-- END-TO-END: for every digest size d ≤ 512, every mode parameter L ≤ 64 (sequential, hybrid, hierarchical),
    every key of at most 64 bytes, every round count 1 ≤ r < 4096 assigned to `.rounds`, every message and every
    bit length m ≤ 8|M| (given explicitly or not), `MD6(d,key,L)(M,bitlen)` returns the digest the report defines
    (in particular it returns, it never raises and the level loop terminates) -/
theorem md6_refines (d L r : Nat) (key M : List Nat) (bitlen : Option Nat)
    (hd : d ≤ 512) (hL : L ≤ 64) (hr1 : 1 ≤ r) (hr : r < 4096) (hkey : key.length ≤ 64)
    (hkb : ∀ x ∈ key, x < 256) (hM : ∀ x ∈ M, x < 256)
    (hbl : bitlen.getD (8 * M.length) ≤ 8 * M.length) (hlen : 8 * M.length < 2 ^ 64) :
    Md6.call (Md6.new d key L (some r)) M bitlen =
      .ok (Spec.Md6.md6 ⟨d, key, L, r⟩ M (bitlen.getD (8 * M.length))) := by
  unfold Md6.call Spec.Md6.md6
  exact Md6Mode.loop_refines (Md6Mode.dom_of hd hL hr1 hr hkey hkb) (by omega) M.length 0 M bitlen (Nat.zero_le _) hM hbl hlen
    (by omega)

/-- … and with the constructor's default round count, which is the report's r = 40 + ⌊d/4⌋ (≥ 80 with a key) -/
theorem md6_refines_default_rounds (d L : Nat) (key M : List Nat) (bitlen : Option Nat)
    (hd : d ≤ 512) (hL : L ≤ 64) (hkey : key.length ≤ 64)
    (hkb : ∀ x ∈ key, x < 256) (hM : ∀ x ∈ M, x < 256)
    (hbl : bitlen.getD (8 * M.length) ≤ 8 * M.length) (hlen : 8 * M.length < 2 ^ 64) :
    Md6.call (Md6.new d key L) M bitlen =
      .ok (Spec.Md6.md6 ⟨d, key, L, Spec.Md6.defaultRounds d key.length⟩ M (bitlen.getD (8 * M.length))) := by
  have h : Md6.new d key L = Md6.new d key L (some (Spec.Md6.defaultRounds d key.length)) := by
    simp only [Md6.new, Option.getD_none, Option.getD_some, Md6.defaultRounds, Spec.Md6.defaultRounds]
    by_cases hk : key.length = 0 <;> simp [hk]
  rw [h]
  apply md6_refines d L _ key M bitlen hd hL _ _ hkey hkb hM hbl hlen
  · unfold Spec.Md6.defaultRounds; split <;> omega
  · unfold Spec.Md6.defaultRounds; split <;> omega

/-- the digest has exactly ⌈d/8⌉ bytes, and when d is not a multiple of 8 the unused low bits of the last byte are
    zero (the d bits are left-aligned) -/
theorem digest_length (d L r : Nat) (key M : List Nat) (bitlen : Option Nat)
    (hd : d ≤ 512) (hL : L ≤ 64) (hr1 : 1 ≤ r) (hr : r < 4096) (hkey : key.length ≤ 64)
    (hkb : ∀ x ∈ key, x < 256) (hM : ∀ x ∈ M, x < 256)
    (hbl : bitlen.getD (8 * M.length) ≤ 8 * M.length) (hlen : 8 * M.length < 2 ^ 64) :
    ∃ out, Md6.call (Md6.new d key L (some r)) M bitlen = .ok out ∧ out.length = (d + 7) / 8 ∧
      (d % 8 ≠ 0 → out.getD (d / 8) 0 % 2 ^ (8 - d % 8) = 0) := by
  refine ⟨_, md6_refines d L r key M bitlen hd hL hr1 hr hkey hkb hM hbl hlen, Md6Mode.chop_length _ _, ?_⟩
  intro h8
  exact Md6Mode.chop_low_bits d h8 _

/-- the specification's own level loop is total: its iteration bound is never exhausted (the documented default `[]`
    is not produced) — the root is exactly one 16-word chaining value, for EVERY message, bit length, L and r ≥ 1 -/
theorem spec_root_is_one_chaining_value (P : Spec.Md6.Params) (hr : 1 ≤ P.r) (M : List Nat) (m : Nat)
    (hm : m ≤ 8 * M.length) : (Spec.Md6.levels P (M.length + 1) 1 M m).length = Spec.Md6.c :=
  Md6Mode.levels_length P hr M.length 1 M m (by omega)

/-- an explicit bit length larger than the message is refused in every mode -/
theorem bitlen_beyond_message_refused (d L : Nat) (r : Option Nat) (key M : List Nat) (b : Nat)
    (hb : 8 * M.length < b) : ∃ e, Md6.call (Md6.new d key L r) M (some b) = .error e := by
  unfold Md6.call Md6.levelLoop
  simp only [Nat.zero_add]
  split
  · obtain ⟨e, he⟩ := Md6Mode.nullBlocks_too_long 3072 M b hb
    exact ⟨e, by simp [Md6.SEQ, he, bind, Except.bind]⟩
  · obtain ⟨e, he⟩ := Md6Mode.nullBlocks_too_long 4096 M b hb
    exact ⟨e, by simp [Md6.PAR, he, bind, Except.bind]⟩

/-! ### non-vacuity: the hypothesis sets are inhabited by non-trivial instances, and the theorems say something -/

example : Md6.call (Md6.new 250 [1, 2, 3] 1 (some 2)) (List.replicate 600 7) (some 4797) =
    .ok (Spec.Md6.md6 ⟨250, [1, 2, 3], 1, 2⟩ (List.replicate 600 7) 4797) :=
  md6_refines 250 1 2 [1, 2, 3] (List.replicate 600 7) (some 4797) (by omega) (by omega) (by omega) (by omega)
    (by decide) (by decide) (fun x hx => by simp only [List.mem_replicate] at hx; omega)
    (by simp only [Option.getD_some, List.length_replicate]; omega)
    (by simp only [List.length_replicate]; omega)

example : Md6.f 1 (List.replicate 89 0) ≠ List.replicate 16 0 := by decide +kernel

end Proofs.C17
