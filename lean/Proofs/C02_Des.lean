/-
  C02 (DES / TDEA part) — property theorems only.
-/
import Model.Des
import Spec.Des
namespace Proofs.C02_Des
open Model

/-- the probed permutation tables are the standard's tables, 0-based -/
theorem ip_eq : Gen.Des.ip = Spec.Des.IP.map (· - 1) := by decide +kernel

end Proofs.C02_Des
