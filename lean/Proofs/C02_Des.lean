/-
  C02 (DES / TDEA part) — DES and triple-DES encrypt and decrypt exactly as FIPS 46-3 / SP 800-67 say.
  ONLY property theorems (and non-vacuity examples); helper lemmas are in
  Proofs/Lemmas/{BitsBools,DesTables,DesLemmas,DesRefine,TdeaRefine}.

  `Model.Des` mirrors crysp/des.py on `Model.Bits` with all tables regenerated from the current source
  (`Model.Gen.Des`); `Spec.Des` is the standard on bit strings with 1-based tables typed from the standard.
  `res x` is the model's result with every exception read as "not defined" (`none`); `IsBytes` = every element < 256
  (what a Python `bytes` object is).
-/
import Proofs.Lemmas.TdeaRefine
namespace Proofs.C02_Des
open Model Model.Bits Model.Des

/-! ### the regenerated tables are the standard's tables (complete enumeration in the kernel) -/

theorem ip_eq : Gen.Des.ip = Spec.Des.IP.map (· - 1) := DesTables.ip_eq
theorem ipinv_eq : Gen.Des.ipinv = Spec.Des.IPinv.map (· - 1) := DesTables.ipinv_eq
theorem pc1_eq : Gen.Des.pc1 = Spec.Des.PC1.map (· - 1) := DesTables.pc1_eq
theorem pc2_eq : Gen.Des.pc2 = Spec.Des.PC2.map (· - 1) := DesTables.pc2_eq
theorem e_eq : Gen.Des.e = Spec.Des.E.map (· - 1) := DesTables.e_eq
theorem p_eq : Gen.Des.p = Spec.Des.P.map (· - 1) := DesTables.p_eq

/-- all 8×64 S-box entries -/
theorem sbox_eq (n x : Nat) (hn : n < 8) (hx : x < 64) :
    (Gen.Des.sbox.getD n []).getD x 0 = ((Spec.Des.Sboxes.getD n []).getD (x / 16) []).getD (x % 16) 0 :=
  DesTables.sbox_eq n x hn hx

/-- the rotation schedule … -/
theorem shifts_eq : Gen.Des.shifts = Spec.Des.shifts := DesTables.shifts_eq

/-- … and what the code makes of it: the bit selection of `subkey(·,r)` probed from the source (all 16 rounds × 48 bits)
    is PC2 after rotating both 28-bit halves by the cumulative shift `sum(shifts[:r+1])` -/
theorem subkey_selection (r : Nat) (hr : r < 16) :
    Gen.Des.subkeySel.getD r [] =
      Gen.Des.pc2.map fun j => if j < 28 then (j + Des.cumShift r) % 28 else 28 + (j - 28 + Des.cumShift r) % 28 := by
  have h := DesTables.subkeySel_true
  simp only [DesTables.subkeySelChk, List.all_eq_true, List.mem_range, beq_iff_eq] at h
  exact h r hr

/-! ### component refinements -/

/-- every table-driven permutation/selection of the code is the standard's `permute` with the standard's table -/
theorem permutations_refine (b : Bits) (hb : b.WF) :
    bools (b.pick Gen.Des.ip) = Spec.Des.permute Spec.Des.IP (bools b)
    ∧ bools (b.pick Gen.Des.ipinv) = Spec.Des.permute Spec.Des.IPinv (bools b)
    ∧ bools (b.pick Gen.Des.pc1) = Spec.Des.permute Spec.Des.PC1 (bools b)
    ∧ bools (b.pick Gen.Des.pc2) = Spec.Des.permute Spec.Des.PC2 (bools b)
    ∧ bools (b.pick Gen.Des.e) = Spec.Des.permute Spec.Des.E (bools b)
    ∧ bools (b.pick Gen.Des.p) = Spec.Des.permute Spec.Des.P (bools b) :=
  ⟨bools_pick_spec b hb _ _ ip_eq, bools_pick_spec b hb _ _ ipinv_eq, bools_pick_spec b hb _ _ pc1_eq,
   bools_pick_spec b hb _ _ pc2_eq, bools_pick_spec b hb _ _ e_eq, bools_pick_spec b hb _ _ p_eq⟩

/-- the S-box step of `F` (index arithmetic `x[(5,0)]`, `x[(4,3,2,1)]`, table lookup, `[::-1]`) is `S_{n+1}` of the
    standard on every 6-bit input, for all 8 boxes (8×64 cases enumerated) -/
theorem sbox_step_refines (n c : Nat) (hn : n < 8) (hc : c < 64) :
    ((List.range 4).map fun i => (sOut n c).testBit i) = Spec.Des.sbox n ((List.range 6).map fun i => c.testBit i) :=
  sOut_spec n c hn hc

/-- `subkey(PC1-output, r)` is `K_{r+1}` of the standard's iterative key schedule, r = 0..15 -/
theorem subkey_refines (k : Bits) (hk : k.size = 56) (r : Nat) (hr : r < 16) :
    Des.subkey k r = .ok (subkeyP k r) ∧
    (Spec.Des.ksFrom Spec.Des.shifts ((bools k).take 28) ((bools k).drop 28))[r]? = some (bools (subkeyP k r)) := by
  refine ⟨subkey_eq k (by omega) r, ?_⟩
  rw [← subkeys_eq k hk]
  simp [hr]

/-- `F(R,k,r)` is the cipher function `f(R, K_{r+1})` -/
theorem F_refines (R k : Bits) (r : Nat) (hR : R.WF) (hRs : R.size = 32) (hk : k.size = 56) :
    Des.F R k r = .ok (FP R k r) ∧ bools (FP R k r) = Spec.Des.f (bools R) (bools (subkeyP k r)) :=
  ⟨F_eq R k r hRs (by omega), bools_FP R k r hR hRs⟩

/-- one pass of the Feistel loop is the standard's round `(L,R) ↦ (R, L ⊕ f(R,K))` -/
theorem round_refines (k : Bits) (hk : k.size = 56) (r : Nat) (L R : Bits) (hL : Half L) (hR : Half R) :
    ∃ L' R', Des.rounds k [r] L R = .ok (L', R') ∧
      (bools L', bools R') = Spec.Des.round (bools L, bools R) (bools (subkeyP k r)) := by
  obtain ⟨L', R', h1, _, _, h4⟩ := bools_rounds k hk [r] L R hL hR
  exact ⟨L', R', h1, h4⟩

/-! ### end to end: DES -/

/-- for EVERY key string and EVERY block (any lengths; weak keys, any parity bits included):
    `DES(K).enc(M)` is the FIPS 46-3 ciphertext when both are 8 bytes and an exception otherwise -/
theorem enc_refines (K M : List Nat) (hK : IsBytes K) (hM : IsBytes M) : res (Des.enc K M) = Spec.Des.enc K M :=
  Des.enc_refines K M hK hM

/-- `DES(K).dec(C)` is the FIPS 46-3 deciphering (K16 first) when both are 8 bytes and an exception otherwise -/
theorem dec_refines (K C : List Nat) (hK : IsBytes K) (hC : IsBytes C) : res (Des.dec K C) = Spec.Des.dec K C :=
  Des.dec_refines K C hK hC

/-- sizes the algorithm does not define are rejected, never processed -/
theorem size_rejected (K M : List Nat) (h : K.length ≠ 8 ∨ M.length ≠ 8) :
    (∃ e, Des.enc K M = .error e) ∧ (∃ e, Des.dec K M = .error e) := by
  by_cases hK : K.length = 8
  · have hM : M.length ≠ 8 := by rcases h with h | h; exact absurd hK h; exact h
    obtain ⟨d, hd, _⟩ := DES_new_ok K hK
    exact ⟨⟨assertErr, by simp [Des.enc, hd, DES.enc, crypt_badlen d _ M hM, bind, Except.bind]⟩,
           ⟨assertErr, by simp [Des.dec, hd, DES.dec, crypt_badlen d _ M hM, bind, Except.bind]⟩⟩
  · exact ⟨⟨assertErr, by simp [Des.enc, DES_new_badlen K hK, bind, Except.bind]⟩,
           ⟨assertErr, by simp [Des.dec, DES_new_badlen K hK, bind, Except.bind]⟩⟩

/-! ### end to end: TDEA, every keying option and every accepted way of passing the keys -/

/-- `TDEA(K)` with ONE string: 8 bytes = keying option 3 (K1=K2=K3), 16 bytes = option 2 (K1‖K2, K3=K1),
    24 bytes = option 1 (K1‖K2‖K3); every other length is rejected.  enc and dec. -/
theorem tdea_string_refines (K M : List Nat) (hK : IsBytes K) (hM : IsBytes M) :
    res (tdeaEnc K none none M) = (Spec.Des.keyingOfString K).bind (fun ko => Spec.Des.tdeaEnc ko M)
    ∧ res (tdeaDec K none none M) = (Spec.Des.keyingOfString K).bind (fun ko => Spec.Des.tdeaDec ko M) :=
  Des.tdea_string_refines K M hK hM

/-- `TDEA(K1,K2)`: keying option 2 -/
theorem tdea_two_args_refines (K1 K2 M : List Nat) (h1 : IsBytes K1) (h2 : IsBytes K2) (hM : IsBytes M) :
    res (tdeaEnc K1 (some K2) none M) = Spec.Des.tdeaEnc (.opt2 K1 K2) M
    ∧ res (tdeaDec K1 (some K2) none M) = Spec.Des.tdeaDec (.opt2 K1 K2) M :=
  Des.tdea_two_args_refines K1 K2 M h1 h2 hM

/-- `TDEA(K1,K2,K3)`: keying option 1 (and option 3 when the three are equal, option 2 when K3 = K1) -/
theorem tdea_three_args_refines (K1 K2 K3 M : List Nat) (h1 : IsBytes K1) (h2 : IsBytes K2) (h3 : IsBytes K3) (hM : IsBytes M) :
    res (tdeaEnc K1 (some K2) (some K3) M) = Spec.Des.tdeaEnc (.opt1 K1 K2 K3) M
    ∧ res (tdeaDec K1 (some K2) (some K3) M) = Spec.Des.tdeaDec (.opt1 K1 K2 K3) M :=
  Des.tdea_three_args_refines K1 K2 K3 M h1 h2 h3 hM

/-- `TDEA(K1,None,K3)` is not a calling form: rejected -/
theorem tdea_K2None_rejected (K1 K3 M : List Nat) :
    res (tdeaEnc K1 none (some K3) M) = none ∧ res (tdeaDec K1 none (some K3) M) = none := by
  simp [tdeaEnc, tdeaDec, new_K2None, bind, Except.bind, res, Except.toOption]

/-- keying option 3 is single DES: `TDEA(K,K,K)` = `DES(K)` in the standard (and hence in the code) -/
theorem tdea_kkk_is_des (K M : List Nat) (hK : IsBytes K) (hM : IsBytes M) :
    res (tdeaEnc K (some K) (some K) M) = res (Des.enc K M) := by
  rw [(tdea_three_args_refines K K K M hK hK hK hM).1, Des.enc_refines K M hK hM]
  by_cases h : K.length = 8 ∧ M.length = 8
  · obtain ⟨C, c1, c2, c3, c4⟩ := crypt_inverse ⟨ofByteStr K⟩ encOrder M h.2 hM
    have e1 : Des.enc K M = .ok C := by simp [Des.enc, DES_new_bytes K h.1 hK, DES.enc, c1, bind, Except.bind]
    have e2 : Des.dec K C = .ok M := by
      simp [Des.dec, DES_new_bytes K h.1 hK, DES.dec, ← encOrder_reverse, c4, bind, Except.bind]
    have s1 : Spec.Des.enc K M = some C := by rw [← Des.enc_refines K M hK hM, e1]; rfl
    have s2 : Spec.Des.dec K C = some M := by rw [← Des.dec_refines K C hK c3, e2]; rfl
    simp [Spec.Des.tdeaEnc, Spec.Des.Keying.bundle, s1, s2]
  · simp only [Spec.Des.tdeaEnc, Spec.Des.Keying.bundle, Spec.Des.enc, h, if_false, Option.bind_none]

/-- non-vacuity: FIPS/SP 800-67 published vectors are instances (key 133457799BBCDFF1, block 0123456789ABCDEF →
    85E813540F0AB405; SP 800-67 B.1 bundle as ONE 24-byte string → A826FD8CE53B855F) -/
example : Spec.Des.enc [0x13,0x34,0x57,0x79,0x9B,0xBC,0xDF,0xF1] [0x01,0x23,0x45,0x67,0x89,0xAB,0xCD,0xEF]
    = some [0x85,0xE8,0x13,0x54,0x0F,0x0A,0xB4,0x05] := by decide +kernel

example : res (tdeaEnc [0x01,0x23,0x45,0x67,0x89,0xAB,0xCD,0xEF,0x23,0x45,0x67,0x89,0xAB,0xCD,0xEF,0x01,
                        0x45,0x67,0x89,0xAB,0xCD,0xEF,0x01,0x23] none none [0x54,0x68,0x65,0x20,0x71,0x75,0x66,0x63])
    = some [0xA8,0x26,0xFD,0x8C,0xE5,0x3B,0x85,0x5F] := by decide +kernel

end Proofs.C02_Des
