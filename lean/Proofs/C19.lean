/-
  C19 — TLSH/Nilsimsa: well-formed reproducible digests, distances behave as distances.
  ONLY property theorems (and their non-vacuity examples) live here; helper lemmas are in Proofs/Lemmas/Tlsh.lean,
  Proofs/Lemmas/Nilsimsa.lean.

  Conventions: `lcap : Nat → Nat` is libm-based `l_capturing` (an uninterpreted parameter: every theorem holds for
  all of them); `.ok none` is the Python `None`; `.error _` an exception.  "Distances are non-negative" needs no
  theorem: `distance` returns a `Nat` by typing.  `ObjWF c o` (Proofs/Lemmas/Tlsh.lean) says that `o` is a valid
  digest object of configuration `c` (field lengths and ranges) — what `final` and `from_hash` hand out.
-/
import Model.Tlsh
import Model.Nilsimsa
import Spec.Tlsh
import Spec.Nilsimsa
import Proofs.Lemmas.Tlsh
import Proofs.Lemmas.TlshRef
import Proofs.Lemmas.TlshFinal
import Proofs.Lemmas.Nilsimsa
import Model.Objects
import Proofs.Lemmas.ObjectsSound
import Proofs.Lemmas.TlshCall
namespace Proofs.C19
open Model Model.Tlsh Proofs.Lemmas.Tlsh

/-! ## Tables: regenerated data = reference data -/

/-- the Pearson table read from the current source is the reference table -/
theorem pearson_gen_eq_spec : Model.Gen.Lsh.pearsonT = Spec.Tlsh.vTable := by decide +kernel

/-- … and a permutation of 0..255 -/
theorem pearson_perm : List.Perm Model.Gen.Lsh.pearsonT (List.range 256) := by decide +kernel

/-- the complete behaviour of the code's `triplet` generator (probed) is the reference list of 21 triplets
    (lags 1-based from the end of the window, the current byte first) -/
theorem triplets_gen_eq_spec :
    Model.Gen.Lsh.triplets = Spec.Tlsh.refTriplets.map (fun t => [t.1, 1, t.2.1 + 1, t.2.2 + 1]) := by decide +kernel

/-- number of triplets the generator yields for window sizes 4..8 = the reference's `#if SLIDING_WND_SIZE>=k` selection -/
theorem triplet_counts_gen_eq_spec :
    Model.Gen.Lsh.tripletCounts = [4, 5, 6, 7, 8].map (fun w => (Spec.Tlsh.triplets w).length) := by decide +kernel

/-- the body scoring probed from `distance` is the bit-pair difference rule (|a-b|, 3 counts 6) -/
theorem pairDiff_gen_eq_spec : ∀ a < 4, ∀ b < 4, pairDiff a b = Spec.Tlsh.pairDiff a b := by decide +kernel

/-- the minimum lengths read from the live object -/
theorem minlen_gen : Model.Gen.Lsh.minLen = 50 ∧ Model.Gen.Lsh.minLenNoForce = 256 := by decide

/-! ## TLSH: digest length, None conditions, never an exception -/

/-- a digest has exactly `chklen + 2 + buckets/4` bytes, each < 256 -/
theorem digest_length (lcap : Nat → Nat) (c : Cfg) (data : List Nat) (force : Bool) (d : List Nat)
    (h : tlsh lcap c data force = .ok (some d)) : d.length = c.chklen + 2 + c.buckets / 4 ∧ ∀ x ∈ d, x < 256 := by
  unfold tlsh at h
  split at h
  · cases h
  · rw [final_eq] at h
    repeat' split at h
    all_goals first | (cases h; done) | skip
    simp only [Except.map, Option.map] at h
    cases h
    have wf := mkObj_wf lcap c data
    exact ⟨by rw [Lemmas.Tlsh.digest_length, wf.cklen, wf.codelen]; rfl, digest_lt wf⟩

/-- for a valid configuration `TLSH(cfg)(data,force)` never raises -/
theorem tlsh_never_errors (lcap : Nat → Nat) (c : Cfg) (hc : c.valid = true) (data : List Nat) (force : Bool) :
    ∃ r, tlsh lcap c data force = .ok r := by
  unfold tlsh
  simp only [hc, Bool.true_eq_false, ↓reduceIte]
  rw [final_eq]
  repeat' split
  all_goals first | exact ⟨_, rfl⟩ | skip
  rename_i hg h0
  exact absurd h0 (gate_q3_pos hc (update_wf c data).bklen (by simpa using hg))

/-- the result is None exactly when the input is shorter than 50 bytes, or shorter than 256 without the force flag,
    or populates too few of the first `buckets` buckets (48 buckets: fewer than 18; otherwise: at most half) -/
theorem tlsh_none_iff (lcap : Nat → Nat) (c : Cfg) (hc : c.valid = true) (data : List Nat) (force : Bool) :
    tlsh lcap c data force = .ok none ↔
      (data.length < 50 ∨ (force = false ∧ data.length < 256)
        ∨ tooFew c.buckets (nonzero c (update c data).bucket) = true) := by
  unfold tlsh
  simp only [hc, Bool.true_eq_false, ↓reduceIte]
  rw [final_eq]
  by_cases h1 : data.length < 50 ∨ (force = false ∧ data.length < 256)
  · simp only [h1, ↓reduceIte, Except.map, Option.map, true_iff]
    rcases h1 with h | h
    · exact Or.inl h
    · exact Or.inr (Or.inl h)
  · simp only [h1, ↓reduceIte]
    by_cases h2 : tooFew c.buckets (nonzero c (update c data).bucket) = true
    · simp [h2, Except.map]
    · have h2' : tooFew c.buckets (nonzero c (update c data).bucket) = false := by simpa using h2
      have h3 := gate_q3_pos hc (update_wf c data).bklen h2'
      rw [h2']
      simp only [h3, ↓reduceIte, Except.map, Option.map, Bool.false_eq_true]
      constructor
      · intro h; cases h
      · rintro (h | h | h)
        · exact absurd (Or.inl h) h1
        · exact absurd (Or.inr h) h1
        · cases h

/-- an invalid configuration is refused by the constructor -/
theorem tlsh_invalid_cfg (lcap : Nat → Nat) (c : Cfg) (hc : c.valid = false) (data : List Nat) (force : Bool) :
    ∃ e, tlsh lcap c data force = .error e := by
  unfold tlsh; simp [hc]

/-! ## TLSH: the digest is the reference algorithm's -/

/-- `TLSH(cfg)(data,force)` equals the reference algorithm (TLSH paper / Trend Micro reference as rendered in
    Spec.Tlsh: positional triplet histogram, order-statistic quartiles, header, body) on every input, for every
    valid configuration, force flag and every `l_capturing` function: same digest bytes, and None exactly when the
    reference has no hash -/
theorem tlsh_refines (lcap : Nat → Nat) (c : Cfg) (hc : c.valid = true) (data : List Nat) (force : Bool) :
    tlsh lcap c data force = .ok (Spec.Tlsh.tlsh lcap c.buckets c.window c.chklen data force) :=
  tlsh_eq_spec lcap c hc data force

/-- component: the bucket array after `update` is the histogram of all reference triplet hashes -/
theorem tlsh_buckets_refine (c : Cfg) (hc : c.valid = true) (data : List Nat) :
    (update c data).bucket = Spec.Tlsh.buckets c.window data.toArray :=
  update_bucket c (valid_cases hc).2.1.1 (valid_cases hc).2.1.2 data

/-- component: the checksum bytes -/
theorem tlsh_checksum_refines (c : Cfg) (hc : c.valid = true) (data : List Nat) :
    (update c data).checksum = Spec.Tlsh.checksum c.window c.chklen data.toArray :=
  update_checksum c (valid_cases hc).2.1.1 (valid_cases hc).2.2 data

/-- component: `sorted(buckets)[k]` is the k-th order statistic -/
theorem tlsh_quartile_is_order_statistic (l : List Nat) (k : Nat) (hk : k < l.length) :
    (isort l).getD k 0 = Spec.Tlsh.kth l k := isort_getD_eq_kth l k hk

/-! ## TLSH: the finalisation phase on an explicit bucket array

`finalOf` is `final(b'',force)` on an object whose `a_bucket`, `checksum`, `data_len` were set directly (op `tlsh.final`):
the quartiles, the two Q ratios, Lvalue and the body code as a function of the bucket array alone, for EVERY array — not
only those some hashed input produces. -/

/-- hashing is bucket filling followed by `finalOf` of the state that `update` leaves behind -/
theorem final_is_finalOf (lcap : Nat → Nat) (c : Cfg) (hc : c.valid = true) (data : List Nat) (force : Bool) :
    final lcap c data force = finalOf lcap c (update c data) data.length force :=
  final_eq_finalOf lcap c hc data force

/-- the same split on the reference side: the reference digest is the reference encoding of the input's histogram -/
theorem spec_tlsh_is_encode (lcap : Nat → Nat) (eff w chklen : Nat) (data : List Nat) (force : Bool) :
    Spec.Tlsh.tlsh lcap eff w chklen data force
      = Spec.Tlsh.encode lcap eff (Spec.Tlsh.buckets w data.toArray) (Spec.Tlsh.checksum w chklen data.toArray)
          data.length force := rfl

/-- on EVERY 256-entry bucket array, all checksum bytes, every data length and force flag the finalisation yields the
    reference encoding (order-statistic quartiles, Q ratios by exact integer floor division, body), and None exactly
    when the reference has no hash; never an exception -/
theorem finalOf_refines (lcap : Nat → Nat) (c : Cfg) (hc : c.valid = true) (bucket ck : List Nat)
    (hb : bucket.length = 256) (hck : ∀ x ∈ ck, x < 256) (n : Nat) (force : Bool) :
    (finalOf lcap c ⟨ck, bucket⟩ n force).map (·.map digest) = .ok (Spec.Tlsh.encode lcap c.buckets bucket ck n force) :=
  finalOf_eq_encode lcap c hc ⟨ck, bucket⟩ hb hck n force

/-- the two Q nibbles are ⌊100·q1/q3⌋ mod 16 and ⌊100·q2/q3⌋ mod 16 of the RATIONAL quotients of the quartiles
    (k = ⌊x/y⌋ stated without division: k·y ≤ x < (k+1)·y), and q3 > 0 whenever a digest is produced -/
theorem finalOf_q_ratios (lcap : Nat → Nat) (c : Cfg) (hc : c.valid = true) (st : St) (hb : st.bucket.length = 256)
    (n : Nat) (force : Bool) (o : TObj) (h : finalOf lcap c st n force = .ok (some o)) :
    0 < (quartiles c st.bucket).2.2 ∧ ∃ k1 k2, o.q1 = k1 % 16 ∧ o.q2 = k2 % 16
      ∧ k1 * (quartiles c st.bucket).2.2 ≤ 100 * (quartiles c st.bucket).1
      ∧ 100 * (quartiles c st.bucket).1 < (k1 + 1) * (quartiles c st.bucket).2.2
      ∧ k2 * (quartiles c st.bucket).2.2 ≤ 100 * (quartiles c st.bucket).2.1
      ∧ 100 * (quartiles c st.bucket).2.1 < (k2 + 1) * (quartiles c st.bucket).2.2 := by
  obtain ⟨rfl, h0⟩ := finalOf_some lcap c hc st hb n force o h
  have hpos : 0 < (quartiles c st.bucket).2.2 := Nat.pos_of_ne_zero h0
  refine ⟨hpos, (quartiles c st.bucket).1 * 100 / (quartiles c st.bucket).2.2,
    (quartiles c st.bucket).2.1 * 100 / (quartiles c st.bucket).2.2, rfl, rfl, ?_, ?_, ?_, ?_⟩
  · rw [Nat.mul_comm 100]; exact Nat.div_mul_le_self _ _
  · rw [Nat.mul_comm 100, Nat.mul_comm _ (quartiles c st.bucket).2.2]; exact Nat.lt_mul_div_succ _ hpos
  · rw [Nat.mul_comm 100]; exact Nat.div_mul_le_self _ _
  · rw [Nat.mul_comm 100, Nat.mul_comm _ (quartiles c st.bucket).2.2]; exact Nat.lt_mul_div_succ _ hpos

/-! ## Re-loading a digest -/

/-- what `TLSH(cfg)(data,force)` returns re-loads (`from_hash`) into the object that `final` built — same checksum,
    Lvalue, q ratios and code — and serialises back to the identical bytes -/
theorem tlsh_reload (lcap : Nat → Nat) (c : Cfg) (data : List Nat) (force : Bool) (d : List Nat)
    (h : tlsh lcap c data force = .ok (some d)) :
    ∃ o, final lcap c data force = .ok (some o) ∧ ObjWF c o ∧ fromHash c d = .ok o ∧ digest o = d := by
  unfold tlsh at h
  split at h
  · cases h
  · cases hf : final lcap c data force with
    | error e => rw [hf] at h; cases h
    | ok r =>
      rw [hf] at h
      cases r with
      | none => cases h
      | some o =>
        simp only [Except.map, Option.map] at h
        cases h
        have wf : ObjWF c o := by
          rw [final_eq] at hf
          repeat' split at hf
          all_goals first | (cases hf; done) | skip
          cases hf
          exact mkObj_wf lcap c data
        exact ⟨o, rfl, wf, fromHash_digest wf, rfl⟩

/-- `from_hash` accepts EVERY byte string of the configuration's digest length (its closing assertion never fires),
    yields a valid object, and `digest()` gives the identical bytes back -/
theorem fromHash_serialises_back (c : Cfg) (d : List Nat) (hlen : d.length = c.chklen + 2 + c.buckets / 4)
    (hd : ∀ x ∈ d, x < 256) : ∃ o, fromHash c d = .ok o ∧ digest o = d ∧ ObjWF c o :=
  digest_fromHash c d hlen hd

/-- conversely every valid object is recovered from its digest -/
theorem fromHash_of_digest (c : Cfg) (o : TObj) (h : ObjWF c o) : fromHash c (digest o) = .ok o := fromHash_digest h

/-- a byte string of any other length is refused -/
theorem fromHash_bad_length (c : Cfg) (d : List Nat) (hlen : d.length ≠ c.chklen + 2 + c.buckets / 4) :
    ∃ e, fromHash c d = .error e := by
  unfold fromHash
  split
  · rename_i lv qb body hdr
    have : (d.drop c.chklen).length = body.length + 2 := by rw [hdr]; rfl
    have hb : body.length ≠ c.codesize := by
      unfold Cfg.codesize; simp at this; omega
    simp [hb]
  · exact ⟨_, rfl⟩

/-! ## Distances -/

/-- `d(x,y) == d(y,x)` for all operands (objects, raw bytes, mixed, malformed): the observable results agree
    (`toOption` forgets only which exception was raised; `some none` is the Python `None`) -/
theorem dist_symm (x y : Operand) (lv : Bool) : (distance x y lv).toOption = (distance y x lv).toOption :=
  distance_symm x y lv

/-- `d(x,x) == 0` for every operand that denotes a digest (a valid object, or bytes that `from_hash` accepts) -/
theorem dist_self (x : Operand) (t : TObj) (hx : resolve x = .ok (some t)) (lv : Bool) :
    distance x x lv = .ok (some 0) := distance_self x t hx lv

/-- objects and their raw digest bytes are interchangeable in both argument positions (object/object =
    object/bytes = bytes/object = bytes/bytes) -/
theorem dist_obj_eq_bytes (c : Cfg) (hc : c.valid = true) (o : TObj) (ho : ObjWF c o) (y : Operand) (lv : Bool) :
    distance (.raw (digest o)) y lv = distance (.obj o) y lv
    ∧ distance y (.raw (digest o)) lv = distance y (.obj o) lv := by
  have h := resolve_raw_digest hc ho
  constructor <;> (unfold distance; rw [h]; rfl)

/-- in particular for the digests produced by hashing: all four forms agree, and two valid digests of one
    configuration always have a distance (no exception, not None) -/
theorem dist_forms_agree (c : Cfg) (hc : c.valid = true) (o1 o2 : TObj) (h1 : ObjWF c o1) (h2 : ObjWF c o2) (lv : Bool) :
    ∃ n, distance (.obj o1) (.obj o2) lv = .ok (some n) ∧ distance (.obj o1) (.raw (digest o2)) lv = .ok (some n)
      ∧ distance (.raw (digest o1)) (.obj o2) lv = .ok (some n)
      ∧ distance (.raw (digest o1)) (.raw (digest o2)) lv = .ok (some n) := by
  have e1 := resolve_raw_digest hc h1
  have e2 := resolve_raw_digest hc h2
  have e1' : resolve (.obj o1) = .ok (some o1) := rfl
  have e2' : resolve (.obj o2) = .ok (some o2) := rfl
  refine ⟨headerDiff o1 o2 lv + bodyDiff o2.code o1.code, ?_, ?_, ?_, ?_⟩ <;>
    (unfold distance; simp only [e1, e2, e1', e2', bind, Except.bind, pure, Except.pure, h1.chk, h2.chk, ne_eq,
      not_true_eq_false, ↓reduceIte])

/-- the distance of two valid digests of one configuration is the reference scoring (`totalDiff`: mod-differences of
    Lvalue and the q ratios, checksum mismatch, bit-pair table over the body) of their bytes -/
theorem dist_refines (c : Cfg) (hc : c.valid = true) (o1 o2 : TObj) (h1 : ObjWF c o1) (h2 : ObjWF c o2) (lv : Bool) :
    distance (.raw (digest o1)) (.raw (digest o2)) lv
      = .ok (some (Spec.Tlsh.distance c.chklen (digest o1) (digest o2) lv)) := by
  have e1 := resolve_raw_digest hc h1
  have e2 := resolve_raw_digest hc h2
  rw [spec_distance_eq h1 h2]
  unfold distance
  simp only [e1, e2, bind, Except.bind, pure, Except.pure, h1.chk, h2.chk, ne_eq, not_true_eq_false, ↓reduceIte]

/-! ## Nilsimsa -/

/-- the table the live object uses for the default target 53 is what the generating rule gives -/
theorem tran53_rule : Nilsimsa.maketran 53 = Model.Gen.Lsh.tran53 := by decide +kernel

/-- … and a permutation of 0..255 -/
theorem tran53_perm : List.Perm Model.Gen.Lsh.tran53 (List.range 256) := by decide +kernel

/-- the model's table rule is nilsimsa 0.2.4's `filltran` for every multiplier -/
theorem maketran_eq_filltran (t : Nat) : Nilsimsa.maketran t = Spec.Nilsimsa.filltran t := Lemmas.Nilsimsa.maketran_eq t

/-- a Nilsimsa digest always has 32 bytes (each < 256), for every target, input and history of updates -/
theorem nilsimsa_length (s : Nilsimsa.St) : (Nilsimsa.digest s).length = 32 ∧ ∀ x ∈ Nilsimsa.digest s, x < 256 :=
  ⟨Lemmas.Nilsimsa.digest_length s, Lemmas.Nilsimsa.digest_lt s⟩

theorem nilsimsa_call_length (t : Nat) (d : List Nat) : (Nilsimsa.nilsimsa t d).length = 32 :=
  Lemmas.Nilsimsa.digest_length _

/-- `Nilsimsa(t)(data)` is the nilsimsa 0.2.4 digest, for every target and every input -/
theorem nilsimsa_refines (t : Nat) (d : List Nat) : Nilsimsa.nilsimsa t d = Spec.Nilsimsa.nilsimsa t d :=
  Lemmas.Nilsimsa.nilsimsa_eq t d

/-- `distance(h1,h2) = Bits(h1).hd(h2)` is the Hamming distance (number of differing bits) of two equally long byte
    strings — in particular of two 32-byte digests -/
theorem nilsimsa_distance_hamming (a b : List Nat) (hl : a.length = b.length) (ha : ∀ x ∈ a, x < 256)
    (hb : ∀ x ∈ b, x < 256) : Nilsimsa.distance a b = .ok (Spec.Nilsimsa.hamming a b) :=
  Lemmas.Nilsimsa.distance_eq_hamming a b hl ha hb

/-- operands of different lengths are refused -/
theorem nilsimsa_distance_length_mismatch (a b : List Nat) (hl : a.length ≠ b.length) :
    ∃ e, Nilsimsa.distance a b = .error e := Lemmas.Nilsimsa.distance_length_mismatch a b hl

/-- symmetric -/
theorem nilsimsa_distance_symm (a b : List Nat) (hl : a.length = b.length) (ha : ∀ x ∈ a, x < 256)
    (hb : ∀ x ∈ b, x < 256) : Nilsimsa.distance a b = Nilsimsa.distance b a := by
  rw [nilsimsa_distance_hamming a b hl ha hb, nilsimsa_distance_hamming b a hl.symm hb ha, Lemmas.Nilsimsa.hamming_comm]

/-- zero iff the digests are equal -/
theorem nilsimsa_distance_zero_iff (a b : List Nat) (hl : a.length = b.length) (ha : ∀ x ∈ a, x < 256)
    (hb : ∀ x ∈ b, x < 256) : Nilsimsa.distance a b = .ok 0 ↔ a = b := by
  rw [nilsimsa_distance_hamming a b hl ha hb, ← Lemmas.Nilsimsa.hamming_eq_zero a b hl ha hb]
  constructor
  · intro h; exact Except.ok.inj h
  · intro h; rw [h]

/-! ## ONE object, many calls: a call's digest is a function of its own arguments

  `Model.Objects.TlshO` is the TLSH object as a state machine (every attribute `reset()` assigns, `update` / `final` / `digest` /
  `from_hash` / `__call__` as steps).  `__call__` starts with `self.reset()`, and `reset()` assigns EVERY attribute the methods
  read, so whatever the object went through — a call that returned None and left `data_len` / `checksum` behind, a forced call,
  an `update` without digest, a reloaded digest, a `final` without `digest`, a call that stopped half way — cannot show.  The
  `tlsh.calls` / `nilsimsa.calls` lines of the correspondence stream drive ONE real object (and the module singleton `tlsh`)
  through such histories and compare every call with the one-shot function of that call's arguments. -/

open Model.Objects in
/-- the digest (or None, or the exception) returned by `obj(data,force)` and the state the object is left in do not depend on
    the object's prior state: for ANY state `s` they are those of the first call on a new object of the same configuration -/
theorem tlsh_call_ignores_state (lcap : Nat → Nat) (s : TlshO.State) (data : List Nat) (force : Bool) :
    TlshO.step lcap s (.call data force) = TlshO.step lcap (TlshO.init s.cfg) (.call data force) := by
  have h : TlshO.reset s = TlshO.reset (TlshO.init s.cfg) := Lemmas.ObjectsSound.tlsh_reset_eq s (TlshO.init s.cfg) rfl
  unfold TlshO.step
  simp only [h]

open Model.Objects in
/-- … in particular after ANY history of public calls (`update`, `final`, `digest`, `from_hash`, `reset`, other calls) from
    ANY starting state -/
theorem tlsh_call_ignores_history (lcap : Nat → Nat) (s : TlshO.State) (hist : List TlshO.Op) (data : List Nat) (force : Bool) :
    (TlshO.step lcap (hist.foldl (fun st op => (TlshO.step lcap st op).1) s) (.call data force)).2
      = (TlshO.step lcap (TlshO.init s.cfg) (.call data force)).2 := by
  have hc : ∀ (hist : List TlshO.Op) (s : TlshO.State), (hist.foldl (fun st op => (TlshO.step lcap st op).1) s).cfg = s.cfg := by
    intro hist
    induction hist with
    | nil => intro s; rfl
    | cons op ops ih => intro s; rw [List.foldl_cons, ih, Lemmas.ObjectsSound.tlsh_cfg]
  rw [tlsh_call_ignores_state, hc]

open Model.Objects in
/-- … and that result is the ONE-SHOT function `Model.Tlsh.tlsh` of the configuration and the call's own arguments (the function
    the `tlsh` / `tlsh.calls` lines compare with the real code, which `tlsh_refines` equates with Spec.Tlsh): the digest bytes,
    None, or the exception — for every valid configuration, every state of the object, every input and force flag.
    (`Proofs.Lemmas.TlshCall.resOf` maps `.ok (some d)` / `.ok none` / `.error e` to bytes / None / the exception.) -/
theorem tlsh_call_is_oneshot (lcap : Nat → Nat) (s : TlshO.State) (hc : s.cfg.valid = true) (data : List Nat) (force : Bool) :
    (TlshO.step lcap s (.call data force)).2 = Lemmas.TlshCall.resOf (tlsh lcap s.cfg data force) :=
  Lemmas.TlshCall.call_eq_tlsh lcap s hc data force

/-- Nilsimsa: `obj(data)` on an object in ANY state (a dangling `update`, an `update` that stopped half way) returns the
    one-shot digest of `data` and leaves a new object -/
theorem nilsimsa_call_ignores_history (target : Nat) (s : Nilsimsa.St) (data : List Nat) :
    Nilsimsa.stepOp (Nilsimsa.maketran target) s (.c data) = (Nilsimsa.St.init, some (Nilsimsa.nilsimsa target data)) := rfl

/-- (non-vacuity, computed in the kernel: Proofs/C19/Calls.lean — a call that returned None leaves `data_len = 60` and a
    non-zero checksum behind, the next call on that object returns the digest a new object returns) -/
example (lcap : Nat → Nat) (c : Cfg) (d : List Nat) (f : Bool) := tlsh_call_ignores_state lcap (Model.Objects.TlshO.init c) d f

/-! ## Non-vacuity: the hypothesis sets are inhabited by non-trivial instances -/

example : (⟨128, 5, 1⟩ : Cfg).valid = true := by decide
example : (⟨48, 8, 3⟩ : Cfg).valid = true := by decide
/-- a valid digest object of configuration (48,5,1) with non-trivial fields -/
example : ObjWF ⟨48, 5, 1⟩ ⟨1, [0xa7], 0x0e, 8, 12, [0, 56, 255, 56, 232, 64, 60, 34, 160, 34, 136, 1]⟩ :=
  ⟨rfl, rfl, by decide, by decide, by decide, by decide, rfl, by decide⟩
/-- a byte string of the right length for (48,5,1) -/
example : ([0xa7, 0xe0, 0x08, 0xcf, 0, 0x38, 0xff, 0x38, 0xe8, 0x40, 0x3c, 0x22, 0xa0, 0x22, 0x88] : List Nat).length
    = (⟨48, 5, 1⟩ : Cfg).chklen + 2 + (⟨48, 5, 1⟩ : Cfg).buckets / 4 := rfl
/-- `resolve` succeeds on raw digest bytes -/
example : ∃ t, resolve (.raw [0xa7, 0xe0, 0x08, 0xcf, 0, 0x38, 0xff, 0x38, 0xe8, 0x40, 0x3c, 0x22, 0xa0, 0x22, 0x88]) = .ok (some t) :=
  ⟨_, rfl⟩
/-- two different equally long byte strings with a non-zero Hamming distance -/
example : Nilsimsa.distance [0x80, 0x01] [0x01, 0x01] = .ok 2 := by
  rw [nilsimsa_distance_hamming [0x80, 0x01] [0x01, 0x01] rfl (by decide) (by decide)]; rfl

/-- an explicit bucket array with quartiles (29,39,50) — the pair 29/50 where `q/q3*100` evaluated in floating point is
    57.99999999999999 — passes both gates, and the model's Q nibbles are ⌊58⌋ mod 16 = 10 and ⌊78⌋ mod 16 = 14 -/
example : (finalOf (fun _ => 0) ⟨128, 5, 1⟩
    ⟨[0], List.replicate 32 29 ++ List.replicate 32 39 ++ List.replicate 32 50 ++ List.replicate 32 51 ++ List.replicate 128 0⟩
    300 false).toOption.map (·.map fun o => (o.q1, o.q2)) = some (some (10, 14)) := by decide +kernel

end Proofs.C19
