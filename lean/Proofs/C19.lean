/-
  C19 — TLSH/Nilsimsa: well-formed reproducible digests, distances behave as distances.
  ONLY property theorems (and their non-vacuity examples) live here; helper lemmas are in Proofs/Lemmas.
-/
import Model.Tlsh
import Model.Nilsimsa
import Spec.Tlsh
import Spec.Nilsimsa
namespace Proofs.C19
open Model

/-- the Pearson table read from the current source is the reference table -/
theorem pearson_gen_eq_spec : Model.Gen.Lsh.pearsonT = Spec.Tlsh.vTable := by decide +kernel

end Proofs.C19
