/-
  C01 (constants) — the literal tables of lean/Spec/Sha2Consts.lean satisfy the rule by which FIPS 180-4 DEFINES them
  (§4.2.2, §4.2.3, §5.3.2–§5.3.5): fractional parts of the cube / square roots of the first primes.  With this file the
  64 + 80 + 4·8 literals of Spec.Sha2Consts are no longer trusted as typed: a wrong digit in any of them makes a theorem
  below fail.  Also SHA-1's four round constants (Spec.Sha1.K) as ⌊2^30·√2⌋, ⌊2^30·√3⌋, ⌊2^30·√5⌋, ⌊2^30·√10⌋.

  Everything is integer arithmetic decided by the kernel (no reals, no floating point):
    K = ⌊2^w · frac(p^(1/3))⌋  ⟺  K < 2^w ∧ ∃ n, (n·2^w + K)^3 ≤ p·2^(3w) < (n·2^w + K + 1)^3      (`FracCbrt w p K`)
    K = ⌊2^w · frac(p^(1/2))⌋  ⟺  K < 2^w ∧ ∃ n, (n·2^w + K)^2 ≤ p·2^(2w) < (n·2^w + K + 1)^2      (`FracSqrt w p K`)
  (n is the integer part of the root; `FracCbrt_unique` / `FracSqrt_unique`: the rule determines K).
  `primes` is computed by trial division; `primes_are_the_first_80`: it has 80 entries, entry i is prime and the primes
  below it are exactly the entries before it (none skipped).

  Not done: MD5's T[i] = ⌊2^32·|sin i|⌋ (would need a trusted sine).  MD4's two constants are SHA-1's first two.
-/
import Spec.Sha2Consts
import Spec.Sha1
namespace Proofs.C01_Consts

/-! ## 1. the first 80 primes -/

/-- p is a prime number: at least 2, divisible only by 1 and by itself -/
def IsPrime (p : Nat) : Prop := 2 ≤ p ∧ ∀ d, d ∣ p → d = 1 ∨ d = p

/-- trial division by every d in 2..n-1 -/
def isPrime (n : Nat) : Bool :=
  decide (2 ≤ n) && (List.range n).all fun d => decide (d < 2) || decide (n % d ≠ 0)

theorem isPrime_iff (n : Nat) : isPrime n = true ↔ IsPrime n := by
  simp only [isPrime, IsPrime, Bool.and_eq_true, decide_eq_true_eq, List.all_eq_true, List.mem_range,
    Bool.or_eq_true]
  constructor
  · rintro ⟨h2, h⟩
    refine ⟨h2, fun d hd => ?_⟩
    have hdle : d ≤ n := Nat.le_of_dvd (by omega) hd
    by_cases hdn : d = n
    · exact Or.inr hdn
    · left
      rcases h d (by omega) with h | h
      · have : d ≠ 0 := by
          rintro rfl
          have := Nat.eq_zero_of_zero_dvd hd
          omega
        omega
      · exact absurd (Nat.mod_eq_zero_of_dvd hd) h
  · rintro ⟨h2, h⟩
    refine ⟨h2, fun d hd => ?_⟩
    by_cases hd2 : d < 2
    · exact Or.inl hd2
    · right
      intro hmod
      have := h d (Nat.dvd_of_mod_eq_zero hmod)
      omega

/-- the primes below 410 in increasing order, by trial division -/
def primes : List Nat := (List.range 410).filter isPrime

/-- the same list written out (for the reader, and so that the kernel runs the trial division only once) -/
def primesLit : List Nat :=
    [2, 3, 5, 7, 11, 13, 17, 19, 23, 29, 31, 37, 41, 43, 47, 53, 59, 61, 67, 71,
     73, 79, 83, 89, 97, 101, 103, 107, 109, 113, 127, 131, 137, 139, 149, 151, 157, 163, 167, 173,
     179, 181, 191, 193, 197, 199, 211, 223, 227, 229, 233, 239, 241, 251, 257, 263, 269, 271, 277, 281,
     283, 293, 307, 311, 313, 317, 331, 337, 347, 349, 353, 359, 367, 373, 379, 383, 389, 397, 401, 409]

theorem primes_literal : primes = primesLit := by decide +kernel

theorem primes_length : primes.length = 80 := by rw [primes_literal]; decide

theorem mem_primes (p : Nat) : p ∈ primes ↔ IsPrime p ∧ p < 410 := by
  simp only [primes, List.mem_filter, List.mem_range, isPrime_iff]
  exact And.comm

theorem primes_sorted : primes.Pairwise (· < ·) :=
  List.Pairwise.filter _ List.pairwise_lt_range

/-- **`primes` is the list of the first 80 primes**: 80 entries; entry i is prime, and the primes below it are exactly
    the i entries before it (so entry i is the (i+1)-th prime, none skipped, none repeated). -/
theorem primes_are_the_first_80 :
    primes.length = 80 ∧
    ∀ i, i < 80 → IsPrime (primes.getD i 0) ∧
      ∀ q, IsPrime q → (q < primes.getD i 0 ↔ ∃ j, j < i ∧ q = primes.getD j 0) := by
  refine ⟨primes_length, fun i hi => ?_⟩
  have hlen := primes_length
  have hsorted := List.pairwise_iff_getElem.mp primes_sorted
  have hgetD : ∀ k, (hk : k < primes.length) → primes.getD k 0 = primes[k] := fun k hk => by
    simp [List.getD_eq_getElem?_getD, List.getElem?_eq_getElem hk]
  have hi' : i < primes.length := by omega
  have hmem := (mem_primes primes[i]).mp (List.getElem_mem hi')
  rw [hgetD i hi']
  refine ⟨hmem.1, fun q hq => ⟨fun hlt => ?_, ?_⟩⟩
  · have hqm : q ∈ primes := (mem_primes q).mpr ⟨hq, by omega⟩
    obtain ⟨j, hj, hjq⟩ := List.getElem_of_mem hqm
    refine ⟨j, ?_, by rw [hgetD j hj, hjq]⟩
    apply Nat.lt_of_not_le
    intro hij
    rcases Nat.lt_or_eq_of_le hij with h | h
    · have := hsorted i j hi' hj h
      omega
    · subst h
      omega
  · rintro ⟨j, hji, rfl⟩
    have hj : j < primes.length := by omega
    rw [hgetD j hj]
    exact hsorted j i hj hi' hji

/-! ## 2. the rules -/

/-- K is the first w bits of the fractional part of the cube root of p (n = the integer part of the root) -/
def FracCbrt (w p K : Nat) : Prop :=
  K < 2 ^ w ∧ ∃ n, (n * 2 ^ w + K) ^ 3 ≤ p * 2 ^ (3 * w) ∧ p * 2 ^ (3 * w) < (n * 2 ^ w + K + 1) ^ 3

/-- K is the first w bits of the fractional part of the square root of p -/
def FracSqrt (w p K : Nat) : Prop :=
  K < 2 ^ w ∧ ∃ n, (n * 2 ^ w + K) ^ 2 ≤ p * 2 ^ (2 * w) ∧ p * 2 ^ (2 * w) < (n * 2 ^ w + K + 1) ^ 2

/-- a^e ≤ X < (a+1)^e determines a -/
theorem floor_root_unique {e a b X : Nat} (_he : e ≠ 0)
    (ha : a ^ e ≤ X ∧ X < (a + 1) ^ e) (hb : b ^ e ≤ X ∧ X < (b + 1) ^ e) : a = b := by
  have h1 : a < b + 1 := by
    apply Nat.lt_of_not_le
    intro h
    have := Nat.pow_le_pow_left h e
    omega
  have h2 : b < a + 1 := by
    apply Nat.lt_of_not_le
    intro h
    have := Nat.pow_le_pow_left h e
    omega
  omega

theorem split_unique {w n K n' K' : Nat} (hK : K < 2 ^ w) (hK' : K' < 2 ^ w)
    (h : n * 2 ^ w + K = n' * 2 ^ w + K') : K = K' := by
  have h1 : (n * 2 ^ w + K) % 2 ^ w = K := by
    rw [Nat.mul_comm, Nat.mul_add_mod]; exact Nat.mod_eq_of_lt hK
  have h2 : (n' * 2 ^ w + K') % 2 ^ w = K' := by
    rw [Nat.mul_comm, Nat.mul_add_mod]; exact Nat.mod_eq_of_lt hK'
  rw [← h1, ← h2, h]

/-- the rules are definitions: at most one K satisfies them -/
theorem FracCbrt_unique {w p K K' : Nat} (h : FracCbrt w p K) (h' : FracCbrt w p K') : K = K' := by
  obtain ⟨hK, n, hn⟩ := h
  obtain ⟨hK', n', hn'⟩ := h'
  exact split_unique hK hK' (floor_root_unique (by decide) hn hn')

theorem FracSqrt_unique {w p K K' : Nat} (h : FracSqrt w p K) (h' : FracSqrt w p K') : K = K' := by
  obtain ⟨hK, n, hn⟩ := h
  obtain ⟨hK', n', hn'⟩ := h'
  exact split_unique hK hK' (floor_root_unique (by decide) hn hn')

/-- Bool checkers: the integer part of a root of a prime below 410 is below 21 -/
def chkCbrt (w p K : Nat) : Bool :=
  decide (K < 2 ^ w) && (List.range 21).any fun n =>
    decide ((n * 2 ^ w + K) ^ 3 ≤ p * 2 ^ (3 * w)) && decide (p * 2 ^ (3 * w) < (n * 2 ^ w + K + 1) ^ 3)

def chkSqrt (w p K : Nat) : Bool :=
  decide (K < 2 ^ w) && (List.range 21).any fun n =>
    decide ((n * 2 ^ w + K) ^ 2 ≤ p * 2 ^ (2 * w)) && decide (p * 2 ^ (2 * w) < (n * 2 ^ w + K + 1) ^ 2)

theorem chkCbrt_sound {w p K : Nat} (h : chkCbrt w p K = true) : FracCbrt w p K := by
  simp only [chkCbrt, Bool.and_eq_true, decide_eq_true_eq, List.any_eq_true, List.mem_range] at h
  exact ⟨h.1, let ⟨n, _, hn⟩ := h.2; ⟨n, hn⟩⟩

theorem chkSqrt_sound {w p K : Nat} (h : chkSqrt w p K = true) : FracSqrt w p K := by
  simp only [chkSqrt, Bool.and_eq_true, decide_eq_true_eq, List.any_eq_true, List.mem_range] at h
  exact ⟨h.1, let ⟨n, _, hn⟩ := h.2; ⟨n, hn⟩⟩

theorem all_range {n : Nat} {f : Nat → Bool} (h : (List.range n).all f = true) : ∀ i, i < n → f i = true :=
  fun i hi => List.all_eq_true.mp h i (List.mem_range.mpr hi)

/-! ## 3. the tables of Spec.Sha2Consts -/
open Spec.Sha2

/-- FIPS 180-4 §4.2.2: SHA-224/256 K_i = the first 32 bits of the fractional part of the cube root of the (i+1)-th prime -/
theorem sha256_K_is_cuberoot_rule :
    K256.length = 64 ∧ ∀ i, i < 64 → FracCbrt 32 (primes.getD i 0) (K256.getD i 0).toNat := by
  have h : (List.range 64).all (fun i => chkCbrt 32 (primesLit.getD i 0) (K256.getD i 0).toNat) = true := by decide +kernel
  refine ⟨by decide, fun i hi => ?_⟩
  rw [primes_literal]
  exact chkCbrt_sound (all_range h i hi)

/-- FIPS 180-4 §4.2.3: SHA-384/512 K_i = the first 64 bits of the fractional part of the cube root of the (i+1)-th prime -/
theorem sha512_K_is_cuberoot_rule :
    K512.length = 80 ∧ ∀ i, i < 80 → FracCbrt 64 (primes.getD i 0) (K512.getD i 0).toNat := by
  have h : (List.range 80).all (fun i => chkCbrt 64 (primesLit.getD i 0) (K512.getD i 0).toNat) = true := by decide +kernel
  refine ⟨by decide, fun i hi => ?_⟩
  rw [primes_literal]
  exact chkCbrt_sound (all_range h i hi)

/-- §5.3.3: SHA-256 H_i^(0) = the first 32 bits of the fractional part of the square root of the (i+1)-th prime, i < 8 -/
theorem sha256_iv_rule :
    iv256.length = 8 ∧ ∀ i, i < 8 → FracSqrt 32 (primes.getD i 0) (iv256.getD i 0).toNat := by
  have h : (List.range 8).all (fun i => chkSqrt 32 (primesLit.getD i 0) (iv256.getD i 0).toNat) = true := by decide +kernel
  refine ⟨by decide, fun i hi => ?_⟩
  rw [primes_literal]
  exact chkSqrt_sound (all_range h i hi)

/-- §5.3.5: SHA-512 H_i^(0) = the first 64 bits of the fractional part of the square root of the (i+1)-th prime, i < 8 -/
theorem sha512_iv_rule :
    iv512.length = 8 ∧ ∀ i, i < 8 → FracSqrt 64 (primes.getD i 0) (iv512.getD i 0).toNat := by
  have h : (List.range 8).all (fun i => chkSqrt 64 (primesLit.getD i 0) (iv512.getD i 0).toNat) = true := by decide +kernel
  refine ⟨by decide, fun i hi => ?_⟩
  rw [primes_literal]
  exact chkSqrt_sound (all_range h i hi)

/-- §5.3.4: SHA-384 H_i^(0) = the first 64 bits of the fractional part of the square root of the 9th..16th prime -/
theorem sha384_iv_rule :
    iv384.length = 8 ∧ ∀ i, i < 8 → FracSqrt 64 (primes.getD (8 + i) 0) (iv384.getD i 0).toNat := by
  have h : (List.range 8).all (fun i => chkSqrt 64 (primesLit.getD (8 + i) 0) (iv384.getD i 0).toNat) = true := by decide +kernel
  refine ⟨by decide, fun i hi => ?_⟩
  rw [primes_literal]
  exact chkSqrt_sound (all_range h i hi)

/-- §5.3.2: SHA-224 H_i^(0) = the SECOND 32 bits of the fractional part of the square root of the 9th..16th prime:
    the low half of the first 64 bits -/
theorem sha224_iv_rule :
    iv224.length = 8 ∧ ∀ i, i < 8 → ∃ F, FracSqrt 64 (primes.getD (8 + i) 0) F ∧ (iv224.getD i 0).toNat = F % 2 ^ 32 := by
  refine ⟨by decide, fun i hi => ⟨(iv384.getD i 0).toNat, sha384_iv_rule.2 i hi, ?_⟩⟩
  have h : (List.range 8).all (fun i => decide ((iv224.getD i 0).toNat = (iv384.getD i 0).toNat % 2 ^ 32)) = true := by
    decide +kernel
  exact of_decide_eq_true (all_range h i hi)

/-! ## 4. SHA-1 (and SHA-0, MD4): K_t = ⌊2^30 · √c⌋ for c = 2, 3, 5, 10 by twenties (the origin of the constants of
    FIPS 180-4 §4.2.1; RFC 1320 §3.4 says so for MD4's 5A827999 = √2 and 6ED9EBA1 = √3) -/

/-- K = ⌊2^s · √c⌋ -/
def FloorSqrtScaled (s c K : Nat) : Prop := K ^ 2 ≤ c * 2 ^ (2 * s) ∧ c * 2 ^ (2 * s) < (K + 1) ^ 2

theorem FloorSqrtScaled_unique {s c K K' : Nat} (h : FloorSqrtScaled s c K) (h' : FloorSqrtScaled s c K') : K = K' :=
  floor_root_unique (by decide) h h'

theorem sha1_K_is_sqrt_rule : ∀ t, t < 80 → FloorSqrtScaled 30 ([2, 3, 5, 10].getD (t / 20) 0) (Spec.Sha1.K t).toNat := by
  intro t ht
  have h : (List.range 80).all (fun t =>
      decide ((Spec.Sha1.K t).toNat ^ 2 ≤ [2, 3, 5, 10].getD (t / 20) 0 * 2 ^ (2 * 30)) &&
      decide ([2, 3, 5, 10].getD (t / 20) 0 * 2 ^ (2 * 30) < ((Spec.Sha1.K t).toNat + 1) ^ 2)) = true := by
    decide +kernel
  have := all_range h t ht
  simp only [Bool.and_eq_true, decide_eq_true_eq] at this
  exact this

/-! ## non-vacuity: the rules reject a table with one wrong bit, and a wrong prime -/
example : chkCbrt 32 2 0x428a2f98 = true ∧ chkCbrt 32 2 0x428a2f99 = false ∧ chkCbrt 32 3 0x428a2f98 = false := by
  decide +kernel
example : ¬ IsPrime 407 := fun h => by have := h.2 11 ⟨37, rfl⟩; omega

end Proofs.C01_Consts
