/-
  C16 — Poly: element-wise ring arithmetic, sequence indexing, consistent re-chunking.
-/
import Model.Poly
namespace Proofs.C16
open Model Model.Poly

theorem zeros_dim (k d : Nat) : (zeros k d).dim = d := by simp [zeros, dim]

end Proofs.C16
