/-
  C16 — Poly: element-wise ring arithmetic, sequence indexing, consistent re-chunking.
  ONLY property theorems (and their non-vacuity examples) live here; helper lemmas are in Proofs/Lemmas/PolyL*.lean.

  Conventions: `a.e i` is coefficient i of `a` (0 beyond the dimension, exactly like `SubPoly.e`), `a.size = k` is the ring
  Z/2^k (k = 0: the integers), `WF a` says every stored coefficient lies in [0,2^k) when k > 0.  Every constructor and
  every operation preserves WF (section "invariant"), so WF is a fact about every Poly the library hands out.
-/
import Proofs.Lemmas.PolyL
import Proofs.Lemmas.PolyZ
namespace Proofs.C16
open Model Model.Poly Model.Py Proofs.PolyL Proofs.PolyZ

/-! ## binary operators + − ^ & | -/

/-- an operator is defined exactly on operands over the same ring (`assert self.size==rvalue.size`) -/
theorem binop_defined (op : BinOp) (a b : Poly) : (∃ r, binop op a b = .ok r) ↔ a.size = b.size := by
  constructor
  · rintro ⟨r, h⟩; exact (binop_inv h).1
  · intro h; exact ⟨_, binop_ok h⟩

/-- the result lives in the same ring and has the longer dimension -/
theorem binop_dim {op : BinOp} {a b r : Poly} (h : binop op a b = .ok r) :
    r.size = a.size ∧ r.dim = max a.dim b.dim :=
  ⟨(binop_inv h).2.1, (binop_inv h).2.2.1⟩

/-- `+` over Z/2^k, k > 0: coefficient by coefficient modulo 2^k; a missing coefficient of the shorter operand is 0
    (`e` is 0 beyond the dimension), for every index i (in particular i < max(dim a, dim b)) -/
theorem add_coeff {a b r : Poly} (hk : 0 < a.size) (h : binop .add a b = .ok r) (i : Nat) :
    r.e i = (a.e i + b.e i) % (2:Int)^a.size := by
  rw [binop_e h]
  split
  · simp [coeffOp, red_pos hk]
  · rename_i hi
    rw [e_ge a (by omega), e_ge b (by omega)]; simp

/-- `−` over Z/2^k, k > 0 -/
theorem sub_coeff {a b r : Poly} (hk : 0 < a.size) (h : binop .sub a b = .ok r) (i : Nat) :
    r.e i = (a.e i - b.e i) % (2:Int)^a.size := by
  rw [binop_e h]
  split
  · simp [coeffOp, red_pos hk]
  · rename_i hi
    rw [e_ge a (by omega), e_ge b (by omega)]; simp

/-- `+` over the integers (k = 0) -/
theorem add_coeff_Z {a b r : Poly} (hk : a.size = 0) (h : binop .add a b = .ok r) (i : Nat) :
    r.e i = a.e i + b.e i := by
  rw [binop_e h]
  split
  · simp [coeffOp, hk, red_zero]
  · rename_i hi
    rw [e_ge a (by omega), e_ge b (by omega)]; simp

/-- `−` over the integers (k = 0) -/
theorem sub_coeff_Z {a b r : Poly} (hk : a.size = 0) (h : binop .sub a b = .ok r) (i : Nat) :
    r.e i = a.e i - b.e i := by
  rw [binop_e h]
  split
  · simp [coeffOp, hk, red_zero]
  · rename_i hi
    rw [e_ge a (by omega), e_ge b (by omega)]; simp

/-- `+` on the natural-number values of the coefficients (k > 0) -/
theorem add_coeff_nat {a b r : Poly} (hk : 0 < a.size) (ha : a.WF) (hb : b.WF)
    (h : binop .add a b = .ok r) (i : Nat) :
    (r.e i).toNat = ((a.e i).toNat + (b.e i).toNat) % 2^a.size := by
  have hs := (binop_inv h).1
  have h1 := (WF_e ha hk i).1
  have h2 := (WF_e hb (hs ▸ hk) i).1
  rw [add_coeff hk h, toNat_emod_pow _ _ (by omega), Int.toNat_add h1 h2]

/-- `−` on the natural-number values (k > 0): x − y mod 2^k = (x + (2^k − y)) mod 2^k -/
theorem sub_coeff_nat {a b r : Poly} (hk : 0 < a.size) (ha : a.WF) (hb : b.WF)
    (h : binop .sub a b = .ok r) (i : Nat) :
    (r.e i).toNat = ((a.e i).toNat + (2^a.size - (b.e i).toNat)) % 2^a.size := by
  have hs := (binop_inv h).1
  have h1 := (WF_e ha hk i).1
  have h2 := WF_e hb (hs ▸ hk) i
  rw [← hs] at h2
  have hlt := toNat_lt_pow h2.1 h2.2
  rw [sub_coeff hk h]
  have e1 : (a.e i - b.e i) % (2:Int)^a.size = (a.e i + ((2:Int)^a.size - b.e i)) % (2:Int)^a.size := by
    have : a.e i + ((2:Int)^a.size - b.e i) = (a.e i - b.e i) + (2:Int)^a.size := by omega
    rw [this, Int.add_emod_right]
  rw [e1, toNat_emod_pow _ _ (by omega), Int.toNat_add h1 (by omega)]
  congr 2
  have : ((2:Int)^a.size) = ((2^a.size : Nat) : Int) := by simp
  rw [this]
  omega

/-- `&` on the natural-number values (k > 0) -/
theorem and_coeff_nat {a b r : Poly} (hk : 0 < a.size) (ha : a.WF)
    (h : binop .and a b = .ok r) (i : Nat) :
    (r.e i).toNat = ((a.e i).toNat &&& (b.e i).toNat) % 2^a.size := by
  have hs := (binop_inv h).1
  have h1 := WF_e ha hk i
  rw [bit_coeff (f := (· &&& ·)) (by intro x y; simp [coeffOp, Nat.ne_of_gt hk]) (by simp) h, Int.toNat_natCast]
  exact (Nat.mod_eq_of_lt (Nat.lt_of_le_of_lt Nat.and_le_left (toNat_lt_pow h1.1 h1.2))).symm

/-- `|` on the natural-number values (k > 0) -/
theorem or_coeff_nat {a b r : Poly} (hk : 0 < a.size) (ha : a.WF) (hb : b.WF)
    (h : binop .or a b = .ok r) (i : Nat) :
    (r.e i).toNat = ((a.e i).toNat ||| (b.e i).toNat) % 2^a.size := by
  have hs := (binop_inv h).1
  have h1 := WF_e ha hk i
  have h2 := WF_e hb (hs ▸ hk) i
  rw [← hs] at h2
  rw [bit_coeff (f := (· ||| ·)) (by intro x y; simp [coeffOp, Nat.ne_of_gt hk]) (by simp) h, Int.toNat_natCast]
  exact (Nat.mod_eq_of_lt (Nat.or_lt_two_pow (toNat_lt_pow h1.1 h1.2) (toNat_lt_pow h2.1 h2.2))).symm

/-- `^` on the natural-number values (k > 0) -/
theorem xor_coeff_nat {a b r : Poly} (hk : 0 < a.size) (ha : a.WF) (hb : b.WF)
    (h : binop .xor a b = .ok r) (i : Nat) :
    (r.e i).toNat = ((a.e i).toNat ^^^ (b.e i).toNat) % 2^a.size := by
  have hs := (binop_inv h).1
  have h1 := WF_e ha hk i
  have h2 := WF_e hb (hs ▸ hk) i
  rw [← hs] at h2
  rw [bit_coeff (f := (· ^^^ ·)) (by intro x y; simp [coeffOp, Nat.ne_of_gt hk]) (by simp) h, Int.toNat_natCast]
  exact (Nat.mod_eq_of_lt (Nat.xor_lt_two_pow (toNat_lt_pow h1.1 h1.2) (toNat_lt_pow h2.1 h2.2))).symm


/-! ## commutativity, invariant, empty vectors -/

/-- the commutative operators give the same result (or the same refusal) in either operand order — all rings, all dimensions -/
theorem binop_comm {op : BinOp} (hop : op ≠ .sub) (a b : Poly) : binop op a b = binop op b a := by
  by_cases h : a.size = b.size
  · rw [binop_ok h, binop_ok h.symm, Nat.max_comm b.dim, ← h]
    congr 2
    apply List.map_congr_left
    intro j _
    exact coeffOp_comm hop _ _ _
  · rw [binop_err h, binop_err (Ne.symm h)]

/-- invariant: the result of an operator on reduced operands is reduced -/
theorem binop_WF {op : BinOp} {a b r : Poly} (ha : a.WF) (hb : b.WF) (h : binop op a b = .ok r) : r.WF := by
  obtain ⟨hs, hrs, hd, hc⟩ := binop_inv h
  by_cases hk : a.size = 0
  · exact Or.inl (hrs.trans hk)
  · have hk' : 0 < a.size := Nat.pos_of_ne_zero hk
    apply WF_of_e
    intro i hi
    rw [hc i (hd ▸ hi), hrs]
    have hb' := WF_e hb (hs ▸ hk') i
    rw [← hs] at hb'
    exact coeffOp_range hk' (WF_e ha hk' i) hb'

/-- the empty vector stays empty under every operator -/
theorem binop_empty (op : BinOp) (k : Nat) : binop op ⟨[], k⟩ ⟨[], k⟩ = .ok ⟨[], k⟩ := by
  simp [binop, dim]

/-! ## unary minus -/

/-- unary minus stays in the ring (every coefficient of −a is reduced), same ring, same dimension -/
theorem neg_WF (a : Poly) : (neg a).WF := WF_map_red a.ival a.size (fun x => -x)

theorem neg_size (a : Poly) : (neg a).size = a.size := rfl

theorem neg_dim (a : Poly) : (neg a).dim = a.dim := by simp [neg, dim]

/-- −a coefficient by coefficient: (−a[i]) mod 2^k (`red k` is the identity for k = 0) -/
theorem neg_coeff (a : Poly) (i : Nat) : (neg a).e i = red a.size (-(a.e i)) := by
  have := e_map a.ival a.size (fun x => red a.size (-x)) (by simp [red]) i
  simpa [neg] using this

/-- a + (−a) is the zero vector of dim a, in every ring -/
theorem add_neg (a : Poly) : binop .add a (neg a) = .ok (zeros a.size a.dim) := by
  rw [binop_ok (neg_size a).symm]
  congr 1
  refine ext_e (by simp [zeros]) (by simp [dim, zeros, neg]) ?_
  · intro i hi
    have hi' : i < max a.dim (neg a).dim := by simpa [dim] using hi
    simp only [e]
    rw [getD_map_range _ _ _ hi']
    show coeffOp .add a.size (a.e i) ((neg a).e i) = (zeros a.size a.dim).e i
    rw [neg_coeff]
    have hz : (zeros a.size a.dim).e i = 0 := by
      simp only [zeros, e, List.getD_eq_getElem?_getD, List.getElem?_replicate]
      split <;> rfl
    rw [hz]
    simp only [coeffOp, red]
    split
    · omega
    · rw [Int.add_emod_emod]
      rw [Int.add_right_neg]; exact Int.zero_emod _

/-! ## shifts (per coefficient) -/

/-- shifts keep dimension and ring and produce reduced coefficients -/
theorem shl_dim (a : Poly) (n : Nat) : (a.shl n).dim = a.dim ∧ (a.shl n).size = a.size := by simp [shl, dim]

theorem shr_dim (a : Poly) (n : Nat) : (a.shr n).dim = a.dim ∧ (a.shr n).size = a.size := by simp [shr, dim]

theorem shl_WF (a : Poly) (n : Nat) : (a.shl n).WF := WF_map_red a.ival a.size (fun x => x * (2:Int)^n)

theorem shr_WF (a : Poly) (n : Nat) : (a.shr n).WF := WF_map_red a.ival a.size (fun x => Int.shiftRight x n)

/-- a << n coefficient by coefficient: (a[i]·2^n) mod 2^k — every ring, every index -/
theorem shl_coeff (a : Poly) (n i : Nat) : (a.shl n).e i = red a.size (a.e i * (2:Int)^n) := by
  have := e_map a.ival a.size (fun x => red a.size (x * (2:Int)^n)) (by simp [red]) i
  simpa [shl] using this

/-- a >> n coefficient by coefficient: ⌊a[i] / 2^n⌋ (reduced) — every ring, every index -/
theorem shr_coeff (a : Poly) (n i : Nat) : (a.shr n).e i = red a.size (a.e i / (2:Int)^n) := by
  have := e_map a.ival a.size (fun x => red a.size (Int.shiftRight x n)) (by simp [red, ← Int.shiftRight_eq]) i
  simp only [← Int.shiftRight_eq, Int.shiftRight_eq_div_pow] at this
  simpa [shr, ← Int.shiftRight_eq, Int.shiftRight_eq_div_pow] using this

/-- a << n on the natural-number values (k > 0) -/
theorem shl_coeff_nat {a : Poly} (hk : 0 < a.size) (ha : a.WF) (n i : Nat) :
    ((a.shl n).e i).toNat = ((a.e i).toNat <<< n) % 2^a.size := by
  have h1 := (WF_e ha hk i).1
  obtain ⟨x, hx⟩ := Int.eq_ofNat_of_zero_le h1
  rw [shl_coeff, red_pos hk, hx]
  have : (x:Int) * (2:Int)^n = ((x * 2^n : Nat) : Int) := by simp
  rw [this, toNat_emod_pow _ _ (Int.natCast_nonneg _), Int.toNat_natCast, Int.toNat_natCast, Nat.shiftLeft_eq]

/-- a >> n on the natural-number values (k > 0) -/
theorem shr_coeff_nat {a : Poly} (hk : 0 < a.size) (ha : a.WF) (n i : Nat) :
    ((a.shr n).e i).toNat = (a.e i).toNat >>> n := by
  have h1 := WF_e ha hk i
  have hlt := toNat_lt_pow h1.1 h1.2
  rw [shr_coeff, red_pos hk]
  generalize a.e i = y at *
  obtain ⟨x, rfl⟩ := Int.eq_ofNat_of_zero_le h1.1
  have : (x:Int) / (2:Int)^n = ((x / 2^n : Nat) : Int) := by simp
  rw [this, toNat_emod_pow _ _ (Int.natCast_nonneg _), Int.toNat_natCast, Int.toNat_natCast, Nat.shiftRight_eq_div_pow]
  rw [Int.toNat_natCast] at hlt
  exact Nat.mod_eq_of_lt (Nat.lt_of_le_of_lt (Nat.div_le_self _ _) hlt)


/-! ## selecting: a[i], a[list], a[start:stop:step] -/

/-- a[i] for a Python int −dim ≤ i < dim is the one-coefficient vector holding coefficient `pos i` (negative indices count from the end) -/
theorem getInt_spec {a : Poly} (ha : a.WF) {i : Int} (h : -(a.dim:Int) ≤ i ∧ i < a.dim) :
    a.getInt i = .ok ⟨[a.e (Spec.Poly.pos a.dim i)], a.size⟩ := by
  simp only [getInt, pyGet_ok a h, bind, Except.bind, pure, Except.pure]
  congr 1
  apply ofList_WF_eq
  by_cases hk : a.size = 0
  · exact Or.inl hk
  · right; intro x hx; simp at hx; subst hx; exact WF_e ha (Nat.pos_of_ne_zero hk) _

/-- an int index outside [−dim, dim) is refused -/
theorem getInt_err (a : Poly) {i : Int} (h : i < -(a.dim:Int) ∨ (a.dim:Int) ≤ i) :
    a.getInt i = .error "IndexError" := by
  simp [getInt, pyGet_err a h, bind, Except.bind]

/-- a[list] returns exactly the listed coefficients in the requested order (repeats allowed), as a vector of dimension len(list) -/
theorem getList_spec {a : Poly} (ha : a.WF) {idx : List Int} (h : ∀ i ∈ idx, -(a.dim:Int) ≤ i ∧ i < a.dim) :
    a.getList idx = .ok ⟨idx.map (fun i => a.e (Spec.Poly.pos a.dim i)), a.size⟩ := by
  simp only [getList]
  rw [mapM_ok (pyGet a.ival) (fun i => a.e (Spec.Poly.pos a.dim i)) idx (fun i hi => pyGet_ok a (h i hi))]
  simp only [bind, Except.bind, pure, Except.pure]
  congr 1
  exact ofList_WF_eq (WF_map_e ha idx _)

/-- an index list containing an out-of-range index is refused -/
theorem getList_err (a : Poly) {idx : List Int} (h : ∃ i ∈ idx, i < -(a.dim:Int) ∨ (a.dim:Int) ≤ i) :
    ∃ m, a.getList idx = .error m := by
  obtain ⟨i, hi, hr⟩ := h
  obtain ⟨m, hm⟩ := mapM_err (pyGet a.ival) idx ⟨i, hi, _, pyGet_err a hr⟩
  exact ⟨m, by simp [getList, hm, bind, Except.bind]⟩

/-- the index sequence of a forward slice: CPython's slice.indices for start/step, and an explicit stop beyond the end is kept (Py.range over Py.sliceIndices) -/
theorem indices_spec {a : Poly} {start stop step : Option Int} {s e st : Int}
    (h : sliceIndices start stop step a.dim = .ok (s, e, st)) (hst : 0 ≤ st) :
    a.indices start stop step = .ok (Py.range s (Spec.Poly.sliceStop stop e) st) := by
  obtain ⟨_, _, _, he, _⟩ := sliceIndices_bounds h hst
  simp only [dim] at h
  simp only [indices, h, bind, Except.bind, pure, Except.pure]
  rw [if_neg (by omega)]
  congr 2
  cases stop with
  | none => rfl
  | some x =>
    simp only [Spec.Poly.sliceStop]
    split
    · rename_i hx; omega
    · rename_i hx; omega

/-- slices with a negative step are refused (`if step<0: raise ValueError`) -/
theorem indices_neg_step {a : Poly} {start stop step : Option Int} {s e st : Int}
    (h : sliceIndices start stop step a.dim = .ok (s, e, st)) (hst : st < 0) :
    a.indices start stop step = .error "ValueError" := by
  simp only [dim] at h
  simp [indices, h, bind, Except.bind, hst]

/-- step 0 is refused -/
theorem indices_zero_step (a : Poly) (start stop : Option Int) :
    ∃ m, a.indices start stop (some 0) = .error m := by
  simp [indices, sliceIndices, bind, Except.bind]

/-- every index of a slice is a natural number -/
theorem indices_nonneg {a : Poly} {start stop step : Option Int} {r : List Int}
    (h : a.indices start stop step = .ok r) : ∀ i ∈ r, 0 ≤ i := by
  cases hsl : sliceIndices start stop step a.dim with
  | error m =>
    simp only [dim] at hsl
    simp [indices, hsl, bind, Except.bind] at h
  | ok t =>
    obtain ⟨s, e, st⟩ := t
    by_cases hst : 0 ≤ st
    · rw [indices_spec hsl hst] at h
      cases h
      exact range_nonneg (sliceIndices_bounds hsl hst).2.1 hst
    · rw [indices_neg_step hsl (by omega)] at h; cases h

/-- a[start:stop:step] returns exactly the coefficients at the index sequence of the slice, in order (missing ones read 0) -/
theorem getSlice_spec {a : Poly} (ha : a.WF) {start stop step : Option Int} {r : List Int}
    (h : a.indices start stop step = .ok r) :
    a.getSlice start stop step = .ok ⟨r.map (fun i => a.e i.toNat), a.size⟩ := by
  simp only [getSlice, h, bind, Except.bind, pure, Except.pure]
  congr 1
  exact ofList_WF_eq (WF_map_e ha r _)

/-- a refused slice is refused by the selection as well -/
theorem getSlice_err {a : Poly} {start stop step : Option Int} {m : Err}
    (h : a.indices start stop step = .error m) : a.getSlice start stop step = .error m := by
  simp [getSlice, h, bind, Except.bind]


/-! ## assigning: a[i] = v, a[list] = v, a[start:stop:step] = v  (frame theorems) -/

/-- assignment to an int index outside [−dim, dim) is refused -/
theorem setInt_err (a : Poly) {i : Int} (h : i < -(a.dim:Int) ∨ (a.dim:Int) ≤ i) (v : Int) :
    a.setInt i v = .error "IndexError" := by
  simp only [dim] at h
  simp [setInt, normIndex_none h]

/-- `a[i] = v` for an int index in range: coefficient `pos i` becomes v (reduced into the ring), every other coefficient,
    the dimension and the ring are unchanged -/
theorem setInt_frame (a : Poly) {i : Int} (h : -(a.dim:Int) ≤ i ∧ i < a.dim) (v : Int) :
    ∃ r, a.setInt i v = .ok r ∧ r.size = a.size ∧ r.dim = a.dim ∧
      r.e (Spec.Poly.pos a.dim i) = red a.size v ∧ ∀ m, m ≠ Spec.Poly.pos a.dim i → r.e m = a.e m := by
  refine ⟨_, setInt_ok a h v, rfl, by simp [dim], ?_, ?_⟩
  · have := e_set a.ival a.size (Spec.Poly.pos a.dim i) (red a.size v) (pos_lt h) (Spec.Poly.pos a.dim i)
    simpa using this
  · intro m hm
    have := e_set a.ival a.size (Spec.Poly.pos a.dim i) (red a.size v) (pos_lt h) m
    simpa [hm] using this

/-- invariant under a[i] = v -/
theorem setInt_WF {a r : Poly} (ha : a.WF) {i v : Int} (h : a.setInt i v = .ok r) : r.WF := by
  unfold setInt at h
  split at h
  · cases h
    apply WF_of_forall
    intro x hx
    by_cases hk : a.size = 0
    · exact Or.inl hk
    · right
      rcases List.mem_or_eq_of_mem_set hx with hx | rfl
      · rcases ha with ha | ha
        · exact absurd ha hk
        · exact ha x hx
      · exact red_range (Nat.pos_of_ne_zero hk) _
  · cases h

/-- `for j,b in zip(r,v): self[j] = b` with every visited index in range: the dimension and the ring are unchanged,
    a position no visited index denotes keeps its coefficient (frame), and a visited position holds the value assigned
    to it last (so for distinct indices: its own value; with repeats: the last one wins) -/
theorem setMany_frame : ∀ (idx vals : List Int) (a : Poly),
    (∀ p ∈ idx.zip vals, -(a.dim:Int) ≤ p.1 ∧ p.1 < a.dim) →
    ∃ r, a.setMany idx vals = .ok r ∧ r.size = a.size ∧ r.dim = a.dim ∧
      (∀ m, (∀ p ∈ idx.zip vals, Spec.Poly.pos a.dim p.1 ≠ m) → r.e m = a.e m) ∧
      (∀ t (ht : t < (idx.zip vals).length),
        (∀ t' (ht' : t' < (idx.zip vals).length), t < t' → Spec.Poly.pos a.dim (idx.zip vals)[t'].1 ≠ Spec.Poly.pos a.dim (idx.zip vals)[t].1) →
        r.e (Spec.Poly.pos a.dim (idx.zip vals)[t].1) = red a.size (idx.zip vals)[t].2)
  | [], vals, a, _ => ⟨a, setMany_nil_left a vals, rfl, rfl, fun _ _ => rfl, fun t ht => by simp at ht⟩
  | j :: js, [], a, _ => ⟨a, setMany_nil_right a _, rfl, rfl, fun _ _ => rfl, fun t ht => by simp at ht⟩
  | j :: js, v :: vs, a, hin => by
    have hj := hin (j, v) (by simp)
    obtain ⟨a', ha', hs', hd', hsel', hfr'⟩ := setInt_frame a hj v
    have hin' : ∀ p ∈ js.zip vs, -(a'.dim:Int) ≤ p.1 ∧ p.1 < a'.dim := by
      intro p hp; rw [hd']; exact hin p (by simp [hp])
    obtain ⟨r, hr, hs, hd, hfr, hsel⟩ := setMany_frame js vs a' hin'
    refine ⟨r, ?_, hs.trans hs', hd.trans hd', ?_, ?_⟩
    · rw [setMany_cons, ha']; exact hr
    · intro m hm
      rw [hfr m (fun p hp => by rw [hd']; exact hm p (by simp [hp]))]
      exact hfr' m (Ne.symm (hm (j, v) (by simp)))
    · intro t ht hlast
      cases t with
      | zero =>
        simp only [List.zip_cons_cons, List.getElem_cons_zero]
        rw [hfr _ ?_, hsel']
        intro p hp
        obtain ⟨t', ht', rfl⟩ := List.getElem_of_mem hp
        have := hlast (t'+1) (by simpa using ht') (by omega)
        simpa [hd'] using this
      | succ t =>
        simp only [List.zip_cons_cons, List.getElem_cons_succ]
        have ht2 : t < (js.zip vs).length := by simpa using ht
        have := hsel t ht2 (fun t' ht' htt' => by
          have := hlast (t'+1) (by simpa using ht') (by omega)
          simpa [hd'] using this)
        rw [hd', hs'] at this
        exact this

/-- invariant under pairwise assignment -/
theorem setMany_WF : ∀ (idx vals : List Int) {a r : Poly}, a.WF → a.setMany idx vals = .ok r → r.WF
  | [], vals, a, r, ha, h => by rw [setMany_nil_left] at h; cases h; exact ha
  | j :: js, [], a, r, ha, h => by rw [setMany_nil_right] at h; cases h; exact ha
  | j :: js, v :: vs, a, r, ha, h => by
    rw [setMany_cons] at h
    cases h1 : a.setInt j v with
    | error m => rw [h1] at h; cases h
    | ok a' =>
      rw [h1] at h
      exact setMany_WF js vs (setInt_WF ha h1) h

/-- an index out of range among the visited ones is refused (IndexError) -/
theorem setMany_err : ∀ (idx vals : List Int) (a : Poly),
    (∃ p ∈ idx.zip vals, p.1 < -(a.dim:Int) ∨ (a.dim:Int) ≤ p.1) → ∃ m, a.setMany idx vals = .error m
  | [], vals, a, h => by obtain ⟨p, hp, _⟩ := h; simp at hp
  | j :: js, [], a, h => by obtain ⟨p, hp, _⟩ := h; simp at hp
  | j :: js, v :: vs, a, h => by
    rw [setMany_cons]
    by_cases hj : -(a.dim:Int) ≤ j ∧ j < a.dim
    · obtain ⟨a', ha', _, hd', _, _⟩ := setInt_frame a hj v
      rw [ha']
      apply setMany_err js vs a'
      obtain ⟨p, hp, hr⟩ := h
      simp only [List.zip_cons_cons, List.mem_cons] at hp
      rcases hp with rfl | hp
      · omega
      · exact ⟨p, hp, by rw [hd']; exact hr⟩
    · rw [setInt_err a (by omega) v]; exact ⟨_, rfl⟩

/-! ## constructors and the dim setter -/

/-- `Poly(list,size,dim)`: ring = size -/
theorem ofList_size (l : List Int) (k d : Nat) : (ofList l k d).size = k := by
  unfold ofList; simp only; split <;> rfl

/-- `Poly(list,size,dim)`: the coefficients are the list reduced into the ring, forced to dimension dim when dim > 0 -/
theorem ofList_ival (l : List Int) (k d : Nat) :
    (ofList l k d).ival = Spec.Poly.fit d (Spec.Poly.norm k l) := by
  unfold ofList Spec.Poly.fit Spec.Poly.norm
  have hm : l.map (red k) = l.map (Spec.Poly.norm1 k) := List.map_congr_left (fun x _ => rfl)
  by_cases hd : d = 0
  · simp only [hd, if_true]; exact hm
  · simp only [hd, if_false]
    rw [hm]; exact take_pad _ d

/-- `a[idx] = v` for a list value of the same length assigns pairwise -/
theorem setIdx_list_eq (a : Poly) {idx l : List Int} (h : idx.length = l.length) :
    a.setIdx idx (.list l) = a.setMany idx l := by
  simp [setIdx, h]

/-- a list value of another length is first forced to the length of the index sequence (truncated / zero-extended) -/
theorem setIdx_list_ne (a : Poly) {idx l : List Int} (h : idx.length ≠ l.length) :
    a.setIdx idx (.list l) = a.setMany idx (Spec.Poly.fit idx.length (Spec.Poly.norm a.size l)) := by
  simp [setIdx, h, ofList_ival]

/-- a scalar value x is the vector (x,0,0,…) of the length of the index sequence -/
theorem setIdx_int (a : Poly) (idx : List Int) (x : Int) :
    a.setIdx idx (.int x) = a.setMany idx (Spec.Poly.fit idx.length [Spec.Poly.norm1 a.size x]) := by
  simp [setIdx, ofList_ival, Spec.Poly.norm]

/-- invariant under a[list] = v -/
theorem setIdx_WF {a r : Poly} (ha : a.WF) {idx : List Int} {v : RVal} (h : a.setIdx idx v = .ok r) : r.WF := by
  unfold setIdx at h
  split at h
  · split at h <;> exact setMany_WF _ _ ha h
  · exact setMany_WF _ _ ha h

/-- `a[start:stop:step] = v` assigns through the index sequence of the slice -/
theorem setSlice_spec {a : Poly} {start stop step : Option Int} {r : List Int}
    (h : a.indices start stop step = .ok r) (v : RVal) :
    a.setSlice start stop step v = a.setIdx r v := by
  simp [setSlice, h, bind, Except.bind]

/-- assignment through a refused slice is refused -/
theorem setSlice_err {a : Poly} {start stop step : Option Int} {m : Err}
    (h : a.indices start stop step = .error m) (v : RVal) : a.setSlice start stop step v = .error m := by
  simp [setSlice, h, bind, Except.bind]

/-- invariant under a[start:stop:step] = v -/
theorem setSlice_WF {a r : Poly} (ha : a.WF) {start stop step : Option Int} {v : RVal}
    (h : a.setSlice start stop step v = .ok r) : r.WF := by
  unfold setSlice at h
  cases hi : a.indices start stop step with
  | error m => rw [hi] at h; cases h
  | ok idx => rw [hi] at h; exact setIdx_WF ha h

/-- invariant: every constructed vector is reduced -/
theorem ofList_WF (l : List Int) (k d : Nat) : (ofList l k d).WF := by
  have h1 := ofList_ival l k d
  have h2 := ofList_size l k d
  have : ofList l k d = ⟨Spec.Poly.fit d (Spec.Poly.norm k l), k⟩ := by
    cases h : ofList l k d with | mk i s => simp_all
  rw [this]
  apply fit_WF
  exact WF_map_red l k id

/-- `Poly(int,size,dim)` -/
theorem ofInt_spec (v : Int) (k d : Nat) :
    (ofInt v k d).ival = Spec.Poly.fit d [Spec.Poly.norm1 k v] ∧ (ofInt v k d).size = k ∧ (ofInt v k d).WF :=
  ⟨by simp [ofInt, ofList_ival, Spec.Poly.norm], ofList_size _ _ _, ofList_WF _ _ _⟩

/-- `Poly(bytes)`: ring Z/2^8, one coefficient per byte -/
theorem ofBytes_spec (s : List Nat) (d : Nat) (hs : ∀ b ∈ s, b < 256) :
    (ofBytes s d).ival = Spec.Poly.fit d (s.map Int.ofNat) ∧ (ofBytes s d).size = 8 ∧ (ofBytes s d).WF := by
  refine ⟨?_, ofList_size _ _ _, ofList_WF _ _ _⟩
  simp only [ofBytes, ofList_ival, Spec.Poly.norm, List.map_map]
  congr 1
  apply List.map_congr_left
  intro b hb
  have := hs b hb
  simp only [Function.comp, Spec.Poly.norm1]
  rw [if_neg (by decide)]
  have h8 : ((2:Int)^8) = 256 := by decide
  rw [h8]
  show (b:Int) % 256 = (b:Int)
  omega

/-- the dim setter truncates / zero-extends to d > 0 -/
theorem setDim_spec (a : Poly) {d : Nat} (hd : 0 < d) :
    a.setDim d = .ok ⟨Spec.Poly.fit d a.ival, a.size⟩ := by
  simp only [setDim, Nat.ne_of_gt hd, if_false, Spec.Poly.fit, take_pad]

/-- dim = 0 is refused (`assert dim>0`) -/
theorem setDim_err (a : Poly) : a.setDim 0 = .error "AssertionError" := by simp [setDim]

/-- invariant under the dim setter -/
theorem setDim_WF {a r : Poly} (ha : a.WF) {d : Nat} (h : a.setDim d = .ok r) : r.WF := by
  by_cases hd : d = 0
  · subst hd; rw [setDim_err] at h; cases h
  · rw [setDim_spec a (Nat.pos_of_ne_zero hd)] at h; cases h; exact fit_WF ha d


/-! ## split (re-chunking), pack, concatenation -/

/-- refinement: splitting to element size k' (any k' > 0, k' ≠ k; ragged last piece when k' ∤ k) is the re-chunking of the
    coefficient sequence of Spec.Poly -/
theorem split_spec {a : Poly} (hk : 0 < a.size) (ha : a.WF) {k' : Nat} (hk' : 0 < k') (hne : k' ≠ a.size) (be : Bool) :
    a.split k' be = .ok ⟨(Spec.Poly.rechunk a.size k' be (a.ival.map Int.toNat)).map Int.ofNat, k'⟩ :=
  split_spec' hk ha hk' hne be

/-- splitting to the element size it already has returns the vector itself -/
theorem split_same (a : Poly) (be : Bool) : a.split a.size be = .ok a := split_same' a be

/-- positional value of the re-chunked sequence: element j is digit (j mod q) of coefficient (j div q), little-endian;
    digit (q−1−(j mod q)) for big-endian -/
theorem rechunk_getD (k k' : Nat) (be : Bool) (l : List Nat) (j : Nat)
    (hq : 0 < Spec.Poly.pieces k k') (hj : j < l.length * Spec.Poly.pieces k k') :
    (Spec.Poly.rechunk k k' be l).getD j 0 =
      l.getD (j / Spec.Poly.pieces k k') 0 /
        2 ^ (k' * (if be then Spec.Poly.pieces k k' - 1 - j % Spec.Poly.pieces k k' else j % Spec.Poly.pieces k k')) % 2 ^ k' := by
  have hdiv : j / Spec.Poly.pieces k k' < l.length := by
    apply Nat.div_lt_of_lt_mul; rw [Nat.mul_comm]; exact hj
  have hmod : j % Spec.Poly.pieces k k' < Spec.Poly.pieces k k' := Nat.mod_lt _ hq
  rw [List.getD_eq_getElem?_getD, List.getD_eq_getElem?_getD, Spec.Poly.rechunk,
    flatMap_getElem?_const _ hq (by intro x; cases be <;> simp [digits_length])]
  rw [List.getElem?_eq_getElem hdiv]
  simp only [Option.bind_some]
  cases be
  · simp [Spec.Poly.digits, hmod]
  · simp only [if_true, Spec.Poly.digits]
    rw [List.getElem?_reverse (by simpa using hmod)]
    simp only [List.length_map, List.length_range]
    rw [List.getElem?_map, List.getElem?_range (by omega)]
    simp

/-- `a.split(k')` re-chunks every coefficient: the result has element size k', dimension dim(a)·q with
    q = ⌈k/k'⌉ pieces per coefficient (q = k/k' when k' ∣ k), and coefficient j is
    (a[j div q] >> (k'·(j mod q))) mod 2^k'   (little-endian), with j mod q replaced by q−1−(j mod q) for big-endian -/
theorem split_coeff {a r : Poly} (hk : 0 < a.size) (ha : a.WF) {k' : Nat} (hk' : 0 < k') (hne : k' ≠ a.size) {be : Bool}
    (h : a.split k' be = .ok r) :
    r.size = k' ∧ r.dim = a.dim * Spec.Poly.pieces a.size k' ∧
    ∀ j, j < a.dim * Spec.Poly.pieces a.size k' →
      (r.e j).toNat = ((a.e (j / Spec.Poly.pieces a.size k')).toNat >>>
        (k' * (if be then Spec.Poly.pieces a.size k' - 1 - j % Spec.Poly.pieces a.size k' else j % Spec.Poly.pieces a.size k'))) % 2 ^ k' := by
  rw [split_spec hk ha hk' hne be] at h
  cases h
  refine ⟨rfl, by simp [dim, rechunk_length], ?_⟩
  intro j hj
  rw [e_map_ofNat, rechunk_getD _ _ _ _ _ (pieces_pos hk hk') (by simpa [dim] using hj), Nat.shiftRight_eq_div_pow]
  congr 2
  simp only [e, List.getD_eq_getElem?_getD, List.getElem?_map]
  cases a.ival[j / Spec.Poly.pieces a.size k']? <;> simp

/-- `pack(a)`: the little-endian bytes (⌈k/8⌉ of them) of every coefficient, concatenated; the whole string reversed for '>L' -/
theorem pack_spec {a : Poly} (hk : 0 < a.size) (ha : a.WF) (be : Bool) :
    a.pack be = .ok (let s := a.ival.flatMap fun x => Py.leBytes ((a.size + 7) / 8) x.toNat
                     if be then s.reverse else s) := by
  obtain ⟨p, hp, hval⟩ := split8_ival hk ha
  simp only [pack, hp, bind, Except.bind, pure, Except.pure, hval, Spec.Poly.rechunk, List.flatMap_map]
  have : (a.ival.flatMap fun x => if false = true then (Spec.Poly.digits a.size 8 x.toNat).reverse
        else Spec.Poly.digits a.size 8 x.toNat) = a.ival.flatMap fun x => Py.leBytes ((a.size + 7) / 8) x.toNat := by
    apply flatMap_congr'; intro x _; simp [digits_eq_leBytes]
  rw [this]

/-- little-endian re-chunking to a divisor k' of k: q = k/k' pieces per coefficient,
    result[j] = (a[j / q] >> (k'·(j mod q))) mod 2^k' -/
theorem split_spec_le {a r : Poly} (hk : 0 < a.size) (ha : a.WF) {k' : Nat} (hk' : 0 < k') (hd : k' ∣ a.size)
    (h : a.split k' false = .ok r) :
    r.size = k' ∧ r.dim = a.dim * (a.size / k') ∧
    ∀ j, j < a.dim * (a.size / k') →
      (r.e j).toNat = ((a.e (j / (a.size / k'))).toNat >>> (k' * (j % (a.size / k')))) % 2 ^ k' := by
  by_cases hne : k' = a.size
  · subst hne
    rw [split_same] at h; cases h
    rw [Nat.div_self hk]
    refine ⟨rfl, by simp, ?_⟩
    intro j _
    have := WF_e ha hk j
    simp only [Nat.div_one, Nat.mod_one, Nat.mul_zero, Nat.shiftRight_zero]
    exact (Nat.mod_eq_of_lt (toNat_lt_pow this.1 this.2)).symm
  · have := split_coeff hk ha hk' hne h
    rw [pieces_dvd hk' hd] at this
    simpa using this

/-- big-endian re-chunking to a divisor k' of k: the pieces of every coefficient come most significant first -/
theorem split_spec_be {a r : Poly} (hk : 0 < a.size) (ha : a.WF) {k' : Nat} (hk' : 0 < k') (hd : k' ∣ a.size)
    (hne : k' ≠ a.size) (h : a.split k' true = .ok r) :
    r.size = k' ∧ r.dim = a.dim * (a.size / k') ∧
    ∀ j, j < a.dim * (a.size / k') →
      (r.e j).toNat = ((a.e (j / (a.size / k'))).toNat >>> (k' * (a.size / k' - 1 - j % (a.size / k')))) % 2 ^ k' := by
  have := split_coeff hk ha hk' hne h
  rw [pieces_dvd hk' hd] at this
  simpa using this

/-- invariant under split -/
theorem split_WF {a r : Poly} (ha : a.WF) {k' : Nat} {be : Bool} (h : a.split k' be = .ok r) : r.WF := by
  unfold split at h
  split at h
  · cases h; exact ha
  · simp only [bind, Except.bind, pure, Except.pure] at h
    split at h
    · cases h
    · cases h
      exact WF_map_red' _ k' (fun b : Bits => Int.ofNat b.ival)

/-- over Z the coefficients are Python ints and cannot be split: only the empty vector gets through -/
theorem split_Z {a : Poly} (hk : a.size = 0) {k' : Nat} (hne : k' ≠ 0) (be : Bool) :
    (a.ival = [] → a.split k' be = .ok ⟨[], k'⟩) ∧ (a.ival ≠ [] → ∃ m, a.split k' be = .error m) := by
  constructor
  · intro he
    simp [split, hk, hne, he, bind, Except.bind, pure, Except.pure]
  · intro he
    cases hl : a.ival with
    | nil => exact absurd hl he
    | cons x xs => exact ⟨"AttributeError:int has no split", by simp [split, hk, hne, hl, bind, Except.bind]⟩

/-- `a // b` appends: dimension = sum, coefficient i is a's for i < dim a and b's after -/
theorem concat_spec (a b : Poly) :
    (a.concat b).ival = a.ival ++ b.ival ∧ (a.concat b).size = a.size ∧ (a.concat b).dim = a.dim + b.dim ∧
    ∀ i, (a.concat b).e i = if i < a.dim then a.e i else b.e (i - a.dim) := by
  refine ⟨rfl, rfl, by simp [concat, dim], ?_⟩
  intro i
  simp only [concat, e, dim, List.getD_eq_getElem?_getD]
  split
  · rename_i h; rw [List.getElem?_append_left h]
  · rename_i h; rw [List.getElem?_append_right (Nat.le_of_not_lt h)]

/-- invariant under concatenation of vectors over the same ring -/
theorem concat_WF {a b : Poly} (ha : a.WF) (hb : b.WF) (hs : a.size = b.size) : (a.concat b).WF := by
  apply WF_of_forall
  intro x hx
  by_cases hk : a.size = 0
  · exact Or.inl hk
  · right
    rcases List.mem_append.mp hx with hx | hx
    · rcases ha with ha | ha
      · exact absurd ha hk
      · exact ha x hx
    · rcases hb with hb | hb
      · exact absurd (hs.trans hb) hk
      · rw [hs]; exact hb x hx


/-! ## structure theorem for every ring, refinement of Spec.Poly -/

/-- structure of every binary operator over every ring (Z included): coefficient i of the result is the scalar operation
    applied to coefficient i of the operands, a missing coefficient being 0; nothing else enters -/
theorem binop_coeff {op : BinOp} {a b r : Poly} (h : binop op a b = .ok r) (i : Nat) :
    r.e i = coeffOp op a.size (a.e i) (b.e i) := by
  rw [binop_e h]
  split
  · rfl
  · rename_i hi
    rw [e_ge a (by omega), e_ge b (by omega), coeffOp_zero]

/-- `+` refines the specification on plain coefficient lists, for every ring -/
theorem add_spec {a b : Poly} (h : a.size = b.size) :
    binop .add a b = .ok ⟨Spec.Poly.add a.size a.ival b.ival, a.size⟩ := by
  rw [binop_eq_pointwise h]; rfl

/-- `−` refines the specification, for every ring -/
theorem sub_spec {a b : Poly} (h : a.size = b.size) :
    binop .sub a b = .ok ⟨Spec.Poly.sub a.size a.ival b.ival, a.size⟩ := by
  rw [binop_eq_pointwise h]; rfl

/-- `&`, `|`, `^` over Z/2^k (k > 0) refine the specification (two's-complement operations of Spec.Poly on the
    non-negative representatives) -/
theorem bitops_spec {a b : Poly} (hk : 0 < a.size) (ha : a.WF) (hb : b.WF) (h : a.size = b.size) :
    binop .and a b = .ok ⟨Spec.Poly.band a.ival b.ival, a.size⟩ ∧
    binop .or a b = .ok ⟨Spec.Poly.bor a.ival b.ival, a.size⟩ ∧
    binop .xor a b = .ok ⟨Spec.Poly.bxor a.ival b.ival, a.size⟩ := by
  have hx : ∀ i, 0 ≤ Spec.Poly.coeff a.ival i := fun i => (WF_e ha hk i).1
  have hy : ∀ i, 0 ≤ Spec.Poly.coeff b.ival i := fun i => (WF_e hb (h ▸ hk) i).1
  refine ⟨?_, ?_, ?_⟩ <;> rw [binop_eq_pointwise h] <;> congr 2 <;> apply pointwise_congr <;> intro i
  · rw [land_ofNat (hx i) (hy i)]; simp [coeffOp, Nat.ne_of_gt hk]
  · rw [lor_ofNat (hx i) (hy i)]; simp [coeffOp, Nat.ne_of_gt hk]
  · rw [lxor_ofNat (hx i) (hy i)]; simp [coeffOp, Nat.ne_of_gt hk]

/-- `&`, `|`, `^` over the integers (k = 0) act coefficient by coefficient as the bitwise operations on infinite
    two's-complement expansions (Spec.Poly.land/lor/lxor, Python's int semantics); a missing coefficient is 0 -/
theorem bitops_coeff_Z {a b r : Poly} (hk : a.size = 0) (i : Nat) :
    (binop .and a b = .ok r → r.e i = Spec.Poly.land (a.e i) (b.e i)) ∧
    (binop .or a b = .ok r → r.e i = Spec.Poly.lor (a.e i) (b.e i)) ∧
    (binop .xor a b = .ok r → r.e i = Spec.Poly.lxor (a.e i) (b.e i)) := by
  refine ⟨fun h => ?_, fun h => ?_, fun h => ?_⟩ <;> rw [binop_coeff h] <;> simp only [coeffOp, hk, if_true]
  · exact intBitOp_and _ _
  · exact intBitOp_or _ _
  · exact intBitOp_xor _ _

/-- `&`, `|`, `^` over the integers refine the specification -/
theorem bitops_spec_Z {a b : Poly} (hk : a.size = 0) (h : a.size = b.size) :
    binop .and a b = .ok ⟨Spec.Poly.band a.ival b.ival, a.size⟩ ∧
    binop .or a b = .ok ⟨Spec.Poly.bor a.ival b.ival, a.size⟩ ∧
    binop .xor a b = .ok ⟨Spec.Poly.bxor a.ival b.ival, a.size⟩ := by
  refine ⟨?_, ?_, ?_⟩ <;> rw [binop_eq_pointwise h] <;> congr 2 <;> apply pointwise_congr <;> intro i <;>
    simp only [coeffOp, hk, if_true]
  · exact intBitOp_and _ _
  · exact intBitOp_or _ _
  · exact intBitOp_xor _ _

/-- unary minus and the shifts refine the specification, for every ring -/
theorem neg_spec (a : Poly) : neg a = ⟨Spec.Poly.neg a.size a.ival, a.size⟩ := rfl
theorem shl_spec (a : Poly) (n : Nat) : a.shl n = ⟨Spec.Poly.shl a.size a.ival n, a.size⟩ := rfl
theorem shr_spec {a : Poly} (ha : a.WF) (n : Nat) : a.shr n = ⟨Spec.Poly.shr a.ival n, a.size⟩ := by
  simp only [shr, Spec.Poly.shr]
  congr 1
  apply List.map_congr_left
  intro x hx
  rw [← Int.shiftRight_eq, Int.shiftRight_eq_div_pow]
  apply red_of_range
  by_cases hk : a.size = 0
  · exact Or.inl hk
  · right
    rcases ha with ha | ha
    · exact absurd ha hk
    · have := ha x hx
      have hp : (0:Int) < (2:Int)^n := Int.pow_pos (by decide)
      refine ⟨Int.ediv_nonneg this.1 (Int.le_of_lt hp), ?_⟩
      exact Int.lt_of_le_of_lt (Int.ediv_le_self _ this.1) this.2

/-- shifting by a Python int: a negative count is refused as soon as there is a coefficient to shift -/
theorem shlI_spec (a : Poly) (n : Int) :
    (0 ≤ n → a.shlI n = .ok (a.shl n.toNat)) ∧ (n < 0 → a.ival ≠ [] → ∃ m, a.shlI n = .error m) ∧
    (0 ≤ n → a.shrI n = .ok (a.shr n.toNat)) ∧ (n < 0 → a.ival ≠ [] → ∃ m, a.shrI n = .error m) := by
  refine ⟨?_, ?_, ?_, ?_⟩
  · intro h; simp [shlI, Int.not_lt.mpr h]
  · intro h he; exact ⟨"ValueError:negative shift count", by simp [shlI, h, he]⟩
  · intro h; simp [shrI, Int.not_lt.mpr h]
  · intro h he; exact ⟨"ValueError:negative shift count", by simp [shrI, h, he]⟩

/-! ## remaining invariant facts -/

/-- `_zeros(d)`: d zero coefficients (empty for d = 0), reduced -/
theorem zeros_spec (k d : Nat) : (zeros k d).dim = d ∧ (zeros k d).size = k ∧ (zeros k d).WF ∧ ∀ i, (zeros k d).e i = 0 := by
  refine ⟨by simp [zeros, dim], rfl, ?_, ?_⟩
  · apply WF_of_forall
    intro x hx
    simp only [List.mem_replicate] at hx
    by_cases hk : k = 0
    · exact Or.inl hk
    · obtain ⟨_, rfl⟩ := hx
      exact Or.inr ⟨Int.le_refl 0, Int.pow_pos (by decide)⟩
  · intro i
    simp only [zeros, e, List.getD_eq_getElem?_getD, List.getElem?_replicate]
    split <;> rfl

/-- invariant: every selection result is reduced -/
theorem get_WF {a r : Poly} :
    (∀ i, a.getInt i = .ok r → r.WF) ∧ (∀ s e st, a.getSlice s e st = .ok r → r.WF) ∧ (∀ idx, a.getList idx = .ok r → r.WF) := by
  refine ⟨?_, ?_, ?_⟩
  · intro i h
    simp only [getInt, bind, Except.bind, pure, Except.pure] at h
    split at h
    · cases h
    · cases h; exact ofList_WF _ _ _
  · intro s e st h
    simp only [getSlice, bind, Except.bind, pure, Except.pure] at h
    split at h
    · cases h
    · cases h; exact ofList_WF _ _ _
  · intro idx h
    simp only [getList, bind, Except.bind, pure, Except.pure] at h
    split at h
    · cases h
    · cases h; exact ofList_WF _ _ _

/-! ## user-facing corollaries -/

/-- `a[idx] = [v₀,…]` (as many values as indices, all indices in range), the user-facing frame theorem: the dimension and
    the ring are unchanged, every position not denoted by an index keeps its coefficient, and the position denoted by
    idx[t] holds vals[t] reduced into the ring whenever no later index denotes the same position (always, for distinct indices) -/
theorem setIdx_frame {a : Poly} {idx vals : List Int} (hl : idx.length = vals.length)
    (hin : ∀ i ∈ idx, -(a.dim:Int) ≤ i ∧ i < a.dim) :
    ∃ r, a.setIdx idx (.list vals) = .ok r ∧ r.size = a.size ∧ r.dim = a.dim ∧
      (∀ m, (∀ i ∈ idx, Spec.Poly.pos a.dim i ≠ m) → r.e m = a.e m) ∧
      (∀ t (h1 : t < idx.length) (h2 : t < vals.length),
        (∀ t' (h' : t' < idx.length), t < t' → Spec.Poly.pos a.dim idx[t'] ≠ Spec.Poly.pos a.dim idx[t]) →
        r.e (Spec.Poly.pos a.dim idx[t]) = red a.size vals[t]) := by
  rw [setIdx_list_eq a hl]
  have hin' : ∀ p ∈ idx.zip vals, -(a.dim:Int) ≤ p.1 ∧ p.1 < a.dim := fun p hp => hin p.1 (List.of_mem_zip hp).1
  obtain ⟨r, hr, hs, hd, hfr, hsel⟩ := setMany_frame idx vals a hin'
  refine ⟨r, hr, hs, hd, ?_, ?_⟩
  · intro m hm
    exact hfr m (fun p hp => hm p.1 (List.of_mem_zip hp).1)
  · intro t h1 h2 hlast
    have hz : t < (idx.zip vals).length := by simp only [List.length_zip]; omega
    have := hsel t hz (fun t' ht' htt' => by
      have h' : t' < idx.length := by simp only [List.length_zip] at ht'; omega
      simpa using hlast t' h' htt')
    simpa using this

/-- over Z nothing can be packed except the empty vector -/
theorem pack_Z {a : Poly} (hk : a.size = 0) (be : Bool) :
    (a.ival = [] → a.pack be = .ok []) ∧ (a.ival ≠ [] → ∃ m, a.pack be = .error m) := by
  have h := split_Z hk (k' := 8) (by decide) false
  constructor
  · intro he
    simp only [pack, h.1 he, bind, Except.bind, pure, Except.pure]
    cases be <;> rfl
  · intro he
    obtain ⟨m, hm⟩ := h.2 he
    exact ⟨m, by simp [pack, hm, bind, Except.bind]⟩

/-! ## equality test, invariant over mutation histories -/

/-- `is_zero` -/
theorem isZero_iff (a : Poly) : a.isZero = true ↔ ∀ i, a.e i = 0 := by
  simp only [isZero, List.all_eq_true, beq_iff_eq]
  constructor
  · intro h i
    by_cases hi : i < a.ival.length
    · rw [e_lt a hi]; exact h _ (List.getElem_mem hi)
    · exact e_ge a (by simpa [dim] using hi)
  · intro h x hx
    obtain ⟨i, hi, rfl⟩ := List.getElem_of_mem hx
    rw [← e_lt a hi]; exact h i

/-- `a == b` for reduced vectors over the same ring: true exactly when all coefficients agree (a missing one counts as 0) -/
theorem eq_spec {a b : Poly} (ha : a.WF) (hb : b.WF) (hs : a.size = b.size) :
    ∃ r, a.eq b = .ok r ∧ (r = true ↔ ∀ i, a.e i = b.e i) := by
  have hra : ∀ i, a.size = 0 ∨ (0 ≤ a.e i ∧ a.e i < (2:Int)^a.size) := fun i => by
    by_cases hk : a.size = 0
    · exact Or.inl hk
    · exact Or.inr (WF_e ha (Nat.pos_of_ne_zero hk) i)
  have hrb : ∀ i, a.size = 0 ∨ (0 ≤ b.e i ∧ b.e i < (2:Int)^a.size) := fun i => by
    by_cases hk : a.size = 0
    · exact Or.inl hk
    · right; have := WF_e hb (hs ▸ Nat.pos_of_ne_zero hk) i; rwa [← hs] at this
  unfold Poly.eq
  split
  · rename_i hd
    refine ⟨_, rfl, ?_⟩
    simp only [List.all_eq_true, beq_iff_eq]
    constructor
    · intro h i
      by_cases hi : i < a.ival.length
      · have hi' : i < b.ival.length := by simp only [dim] at hd; omega
        have := h (a.ival[i], b.ival[i]) (by
          rw [List.mem_iff_getElem]
          exact ⟨i, by simp only [List.length_zip]; omega, by simp⟩)
        rw [e_lt a hi, e_lt b hi']
        simp only at this; omega
      · rw [e_ge a (by simpa [dim] using hi), e_ge b (by simp only [dim] at *; omega)]
    · intro h p hp
      obtain ⟨i, hi, rfl⟩ := List.getElem_of_mem hp
      simp only [List.length_zip] at hi
      have h1 : i < a.ival.length := by omega
      have h2 : i < b.ival.length := by omega
      have := h i
      rw [e_lt a h1, e_lt b h2] at this
      simp [this]
  · obtain ⟨d, hdok⟩ := (binop_defined .sub a b).mpr hs
    refine ⟨d.isZero, by simp [hdok, bind, Except.bind, pure, Except.pure], ?_⟩
    rw [isZero_iff]
    constructor
    · intro h i
      have := h i
      rw [binop_coeff hdok] at this
      exact (sub_eq_zero_iff (hra i) (hrb i)).mp this
    · intro h i
      rw [binop_coeff hdok]
      exact (sub_eq_zero_iff (hra i) (hrb i)).mpr (h i)

/-- assignments never change the ring or the dimension -/
theorem setIdx_size {a r : Poly} {idx : List Int} {v : RVal} (h : a.setIdx idx v = .ok r) : r.size = a.size ∧ r.dim = a.dim := by
  unfold setIdx at h
  split at h
  · split at h <;> exact setMany_size _ _ h
  · exact setMany_size _ _ h

/-- invariant over histories: any sequence of assignments and dimension changes applied to a reduced vector leaves a
    reduced vector over the same ring -/
theorem applyOps_WF : ∀ (ops : List MutOp) {a r : Poly}, a.WF → a.applyOps ops = .ok r → r.WF ∧ r.size = a.size
  | [], a, r, ha, h => by cases h; exact ⟨ha, rfl⟩
  | o :: os, a, r, ha, h => by
    simp only [applyOps, bind, Except.bind] at h
    cases h1 : a.applyOp o with
    | error m => rw [h1] at h; cases h
    | ok a' =>
      rw [h1] at h
      have hw : a'.WF ∧ a'.size = a.size := by
        cases o with
        | setInt i v =>
          refine ⟨setInt_WF ha h1, ?_⟩
          simp only [applyOp, setInt] at h1
          split at h1
          · cases h1; rfl
          · cases h1
        | setIdx idx v => exact ⟨setIdx_WF ha h1, (setIdx_size h1).1⟩
        | setSlice s e st v =>
          refine ⟨setSlice_WF ha h1, ?_⟩
          simp only [applyOp, setSlice, bind, Except.bind] at h1
          split at h1
          · cases h1
          · exact (setIdx_size h1).1
        | setDim d =>
          refine ⟨setDim_WF ha h1, ?_⟩
          simp only [applyOp, setDim] at h1
          split at h1
          · cases h1
          · cases h1; rfl
      obtain ⟨hr, hsz⟩ := applyOps_WF os hw.1 h
      exact ⟨hr, hsz.trans hw.2⟩

/-! ## non-vacuity: the hypothesis sets are inhabited by non-trivial instances (and the operations compute) -/

example : (ofList [200, 7, 300, -1] 8).WF ∧ (ofList [200, 7, 300, -1] 8).ival = [200, 7, 44, 255] :=
  ⟨ofList_WF _ _ _, by decide⟩
-- unequal dimensions, both orders (the witness of the repaired operand-order defect), a wrap-around, the ring Z
example : binop .xor ⟨[1], 8⟩ ⟨[1, 2, 3], 8⟩ = .ok ⟨[0, 2, 3], 8⟩ ∧ binop .xor ⟨[1, 2, 3], 8⟩ ⟨[1], 8⟩ = .ok ⟨[0, 2, 3], 8⟩ := by decide
example : binop .add ⟨[200, 7], 8⟩ ⟨[100], 8⟩ = .ok ⟨[44, 7], 8⟩ ∧ binop .sub ⟨[1], 8⟩ ⟨[2, 1], 8⟩ = .ok ⟨[255, 255], 8⟩ := by decide
example : binop .add ⟨[-3, 5], 0⟩ ⟨[10], 0⟩ = .ok ⟨[7, 5], 0⟩ ∧ binop .sub ⟨[-3], 0⟩ ⟨[10, 1], 0⟩ = .ok ⟨[-13, -1], 0⟩ := by decide
example : binop .add ⟨[200, 7], 8⟩ (neg ⟨[200, 7], 8⟩) = .ok ⟨[0, 0], 8⟩ ∧ neg ⟨[200, 7], 8⟩ = ⟨[56, 249], 8⟩ := by decide
example : (⟨[129, 7], 8⟩ : Poly).shl 1 = ⟨[2, 14], 8⟩ ∧ (⟨[129, 7], 8⟩ : Poly).shr 1 = ⟨[64, 3], 8⟩ ∧ (⟨[-7], 0⟩ : Poly).shr 1 = ⟨[-4], 0⟩ := by decide
-- index expressions: negative int, slice beyond the end (zero extension), index list with a repeat
example : (⟨[1, 2, 3], 8⟩ : Poly).getInt (-1) = .ok ⟨[3], 8⟩ ∧
    (⟨[1, 2, 3], 8⟩ : Poly).getSlice (some 1) (some 5) none = .ok ⟨[2, 3, 0, 0], 8⟩ ∧
    (⟨[1, 2, 3], 8⟩ : Poly).getSlice none none (some 2) = .ok ⟨[1, 3], 8⟩ ∧
    (⟨[1, 2, 3], 8⟩ : Poly).getList [2, -3, 2] = .ok ⟨[3, 1, 3], 8⟩ := by decide
-- assignments: int, repeated index (the last value wins), scalar and short values are zero-extended to the index sequence
example : (⟨[1, 2, 3], 8⟩ : Poly).setInt (-2) 300 = .ok ⟨[1, 44, 3], 8⟩ ∧
    (⟨[1, 2, 3], 8⟩ : Poly).setIdx [0, 0, 2] (.list [5, 6, 7]) = .ok ⟨[6, 2, 7], 8⟩ ∧
    (⟨[1, 2, 3], 8⟩ : Poly).setSlice (some 0) (some 2) none (.int 9) = .ok ⟨[9, 0, 3], 8⟩ ∧
    (⟨[1, 2, 3], 8⟩ : Poly).setSlice none none none (.list [4]) = .ok ⟨[4, 0, 0], 8⟩ := by decide
example : (∀ p ∈ [(0:Int), 0, 2].zip [(5:Int), 6, 7], -(((⟨[1, 2, 3], 8⟩ : Poly).dim : Nat) : Int) ≤ p.1 ∧ p.1 < (⟨[1, 2, 3], 8⟩ : Poly).dim) := by decide
-- re-chunking and packing
example : (⟨[0x1234, 0xabcd], 16⟩ : Poly).split 8 false = .ok ⟨[0x34, 0x12, 0xcd, 0xab], 8⟩ ∧
    (⟨[0x1234, 0xabcd], 16⟩ : Poly).split 8 true = .ok ⟨[0x12, 0x34, 0xab, 0xcd], 8⟩ ∧
    (⟨[0x1234], 16⟩ : Poly).split 4 false = .ok ⟨[4, 3, 2, 1], 4⟩ ∧
    (⟨[0x123], 12⟩ : Poly).split 8 false = .ok ⟨[0x23, 0x1], 8⟩ := by decide
example : (⟨[0x1234, 0xabcd], 16⟩ : Poly).pack false = .ok [0x34, 0x12, 0xcd, 0xab] ∧
    (⟨[0x1234, 0xabcd], 16⟩ : Poly).pack true = .ok [0xab, 0xcd, 0x12, 0x34] := by decide
example : (⟨[1, 2], 8⟩ : Poly).concat ⟨[3], 8⟩ = ⟨[1, 2, 3], 8⟩ := by decide
example : (8 : Nat) ∣ 16 ∧ (0:Nat) < 8 ∧ (8:Nat) ≠ (⟨[0x1234], 16⟩ : Poly).size ∧ (⟨[0x1234], 16⟩ : Poly).WF :=
  ⟨by decide, by decide, by decide, Or.inr (by decide)⟩

end Proofs.C16
