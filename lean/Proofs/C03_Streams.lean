/-
  C03 (part) — the Salsa20 / ChaCha index maps and their inverses are mutual inverses on their whole domain:
  as index functions on 0..15 (kernel enumeration of the lists regenerated from the source) and as the gathers
  `y[map][inv]`, `y[inv][map]` the round functions perform on every 16-vector Poly of ring 2^32.
-/
import Proofs.Lemmas.SalsaRounds
namespace Proofs.C03_Streams
open Model Model.Gen.Streams Proofs.Lemmas.StreamPoly Proofs.Lemmas.SalsaRounds

/-- `inv[map[i]] = i` and `map[inv[i]] = i` for all 16 positions, both lists of length 16 with entries < 16 -/
def mutualInv (f g : List Nat) : Bool :=
  f.length == 16 && g.length == 16 && f.all (· < 16) && g.all (· < 16) &&
  (List.range 16).all fun i => g.getD (f.getD i 16) 16 == i && f.getD (g.getD i 16) 16 == i

theorem salsa_rM_rMinv : mutualInv salsaRM salsaRMinv = true := by decide +kernel
theorem salsa_cM_cMinv : mutualInv salsaCM salsaCMinv = true := by decide +kernel
theorem chacha_rM_rMinv : mutualInv chachaRM chachaRMinv = true := by decide +kernel
theorem chacha_cM_cMinv : mutualInv chachaCM chachaCMinv = true := by decide +kernel

/-- gathering a 16-vector by a map and then by its inverse (either order) gives the vector back -/
def GatherInverse (f g : List Nat) : Prop :=
  ∀ ws : List (BitVec 32), ws.length = 16 →
    ((ofBV ws).getList (Salsa.ints f) >>= fun y => y.getList (Salsa.ints g)) = .ok (ofBV ws) ∧
    ((ofBV ws).getList (Salsa.ints g) >>= fun y => y.getList (Salsa.ints f)) = .ok (ofBV ws)

theorem gather_of_lists (f g : List Nat) (hf : f.length = 16 ∧ ∀ i ∈ f, i < 16) (hg : g.length = 16 ∧ ∀ i ∈ g, i < 16)
    (h1 : ∀ ws : List (BitVec 32), ws.length = 16 → (g.map fun i => (f.map fun j => ws.getD j 0).getD i 0) = ws)
    (h2 : ∀ ws : List (BitVec 32), ws.length = 16 → (f.map fun i => (g.map fun j => ws.getD j 0).getD i 0) = ws) :
    GatherInverse f g := by
  intro ws h
  constructor
  · rw [getList_ofBV ws f (by rw [h]; exact hf.2), bind_ok,
      getList_ofBV _ g (by simp only [List.length_map, hf.1]; exact hg.2), h1 ws h]
  · rw [getList_ofBV ws g (by rw [h]; exact hg.2), bind_ok,
      getList_ofBV _ f (by simp only [List.length_map, hg.1]; exact hf.2), h2 ws h]

theorem salsa_row_gather : GatherInverse salsaRM salsaRMinv :=
  gather_of_lists _ _ (by decide) (by decide)
    (by intro ws h; obtain ⟨y0, y1, y2, y3, y4, y5, y6, y7, y8, y9, y10, y11, y12, y13, y14, y15, rfl⟩ := exists16 ws h; rfl)
    (by intro ws h; obtain ⟨y0, y1, y2, y3, y4, y5, y6, y7, y8, y9, y10, y11, y12, y13, y14, y15, rfl⟩ := exists16 ws h; rfl)

theorem salsa_column_gather : GatherInverse salsaCM salsaCMinv :=
  gather_of_lists _ _ (by decide) (by decide)
    (by intro ws h; obtain ⟨y0, y1, y2, y3, y4, y5, y6, y7, y8, y9, y10, y11, y12, y13, y14, y15, rfl⟩ := exists16 ws h; rfl)
    (by intro ws h; obtain ⟨y0, y1, y2, y3, y4, y5, y6, y7, y8, y9, y10, y11, y12, y13, y14, y15, rfl⟩ := exists16 ws h; rfl)

theorem chacha_row_gather : GatherInverse chachaRM chachaRMinv :=
  gather_of_lists _ _ (by decide) (by decide)
    (by intro ws h; obtain ⟨y0, y1, y2, y3, y4, y5, y6, y7, y8, y9, y10, y11, y12, y13, y14, y15, rfl⟩ := exists16 ws h; rfl)
    (by intro ws h; obtain ⟨y0, y1, y2, y3, y4, y5, y6, y7, y8, y9, y10, y11, y12, y13, y14, y15, rfl⟩ := exists16 ws h; rfl)

theorem chacha_column_gather : GatherInverse chachaCM chachaCMinv :=
  gather_of_lists _ _ (by decide) (by decide)
    (by intro ws h; obtain ⟨y0, y1, y2, y3, y4, y5, y6, y7, y8, y9, y10, y11, y12, y13, y14, y15, rfl⟩ := exists16 ws h; rfl)
    (by intro ws h; obtain ⟨y0, y1, y2, y3, y4, y5, y6, y7, y8, y9, y10, y11, y12, y13, y14, y15, rfl⟩ := exists16 ws h; rfl)

/-- non-vacuity: a 16-vector with pairwise different entries -/
example : ∃ ws : List (BitVec 32), ws.length = 16 ∧ ws.Nodup := ⟨(List.range 16).map (BitVec.ofNat 32), by decide⟩

end Proofs.C03_Streams
