/-
  C03 (part) — the Salsa20 / ChaCha index maps and their inverses are mutual inverses on their whole domain.
-/
import Model.Salsa
import Model.Chacha
namespace Proofs.C03_Streams
open Model Model.Gen.Streams

/-- `inv[map[i]] = i` and `map[inv[i]] = i` for all 16 positions, both lists of length 16 with entries < 16 -/
def mutualInv (f g : List Nat) : Bool :=
  f.length == 16 && g.length == 16 && f.all (· < 16) && g.all (· < 16) &&
  (List.range 16).all fun i => g.getD (f.getD i 16) 16 == i && f.getD (g.getD i 16) 16 == i

theorem salsa_rM_rMinv : mutualInv salsaRM salsaRMinv = true := by decide +kernel
theorem salsa_cM_cMinv : mutualInv salsaCM salsaCMinv = true := by decide +kernel
theorem chacha_rM_rMinv : mutualInv chachaRM chachaRMinv = true := by decide +kernel
theorem chacha_cM_cMinv : mutualInv chachaCM chachaCMinv = true := by decide +kernel

end Proofs.C03_Streams
