/-
  Spec.Aes — FIPS 197 (Advanced Encryption Standard), written from the standard, independent of crysp.

  Bytes are natural numbers < 256 read as polynomials over GF(2) (bit i = coefficient of x^i, §3.2/§4);
  the state is the 16-byte list `s` with `s[r + 4c] = s_{r,c}` (§3.4: in/out bytes fill the state column by column);
  words are 4-byte lists (§3.5).  Nothing here is a table: the S-box is affine ∘ inverse (§5.1.1), Rcon is x^(i-1)
  (§5.2), products in GF(2^8) are polynomial products reduced modulo m(x) = x^8+x^4+x^3+x+1 (§4.2).
  Every function used in kernel enumerations is written by structural recursion.
-/
namespace Spec.Aes

/-! ### GF(2^8) (§4) -/

/-- m(x) = x^8 + x^4 + x^3 + x + 1 -/
def mPoly : Nat := 0x11b

/-- coefficient of x^i in the polynomial p (0 or 1) -/
def coef (p i : Nat) : Nat := (p >>> i) % 2

/-- polynomial product over GF(2) of `a` with the low `n` coefficients of `b`: Σ_{i<n} b_i · a · x^i (carry-less) -/
def clmul (a b : Nat) : Nat → Nat
  | 0 => 0
  | i + 1 => clmul a b i ^^^ (coef b i * (a <<< i))

/-- remainder modulo m(x) of a polynomial of degree < 8+n: cancel the coefficients of x^(8+n-1) … x^8 in turn
    by adding that coefficient times m(x)·x^i -/
def reduce (x : Nat) : Nat → Nat
  | 0 => x
  | i + 1 => reduce (x ^^^ (coef x (8 + i) * (mPoly <<< i))) i

/-- multiplication in GF(2^8): the product of the two polynomials modulo m(x) (§4.2) -/
def gfmul (a b : Nat) : Nat := reduce (clmul a b 8) 7

/-- multiplication by x (§4.2.1): shift left, and subtract m(x) when the result has degree 8 -/
def xtime (b : Nat) : Nat := (b <<< 1) ^^^ (coef b 7 * mPoly)

/-- b^(2^k) by k squarings -/
def gfsq (b : Nat) : Nat := gfmul b b

/-- multiplicative inverse in GF(2^8), 0 ↦ 0 (§5.1.1): b^254 = b^2·b^4·b^8·b^16·b^32·b^64·b^128
    (that this is the inverse, `gfmul b (gfinv b) = 1` for every b ≠ 0, is theorem `Proofs.C02_Aes.gfinv_is_inverse`) -/
def gfinv (b : Nat) : Nat :=
  let b2 := gfsq b; let b4 := gfsq b2; let b8 := gfsq b4; let b16 := gfsq b8
  let b32 := gfsq b16; let b64 := gfsq b32; let b128 := gfsq b64
  gfmul b2 (gfmul b4 (gfmul b8 (gfmul b16 (gfmul b32 (gfmul b64 b128)))))

/-! ### S-box (§5.1.1) and inverse S-box (§5.3.2) -/

def bit (x i : Nat) : Nat := coef x i

/-- assemble a byte from its bits -/
def ofBits (f : Nat → Nat) : Nat → Nat
  | 0 => 0
  | i + 1 => ofBits f i ||| (f i <<< i)

/-- b'_i = b_i ⊕ b_(i+4) ⊕ b_(i+5) ⊕ b_(i+6) ⊕ b_(i+7) ⊕ c_i, indices mod 8, c = {63}  (eq. 5.1) -/
def affine (b : Nat) : Nat :=
  ofBits (fun i => bit b i ^^^ bit b ((i + 4) % 8) ^^^ bit b ((i + 5) % 8) ^^^ bit b ((i + 6) % 8)
                   ^^^ bit b ((i + 7) % 8) ^^^ bit 0x63 i) 8

/-- the inverse affine map: b_i = b'_(i+2) ⊕ b'_(i+5) ⊕ b'_(i+7) ⊕ d_i, d = {05} -/
def invAffine (b : Nat) : Nat :=
  ofBits (fun i => bit b ((i + 2) % 8) ^^^ bit b ((i + 5) % 8) ^^^ bit b ((i + 7) % 8) ^^^ bit 0x05 i) 8

def sbox (b : Nat) : Nat := affine (gfinv b)
def invSbox (b : Nat) : Nat := gfinv (invAffine b)

/-! ### the four transformations on the state -/

def subBytes (s : List Nat) : List Nat := s.map sbox
def invSubBytes (s : List Nat) : List Nat := s.map invSbox

/-- s'_{r,c} = s_{r,(c + r) mod 4}  (eq. 5.3, shift(r,4) = r) -/
def shiftRows (s : List Nat) : List Nat :=
  (List.range 16).map fun i => let r := i % 4; let c := i / 4; s.getD (r + 4 * ((c + r) % 4)) 0

/-- s'_{r,(c + r) mod 4} = s_{r,c}, i.e. s'_{r,c} = s_{r,(c - r) mod 4}  (eq. 5.8) -/
def invShiftRows (s : List Nat) : List Nat :=
  (List.range 16).map fun i => let r := i % 4; let c := i / 4; s.getD (r + 4 * ((c + 4 - r) % 4)) 0

/-- one column times a(x) = {03}x^3+{01}x^2+{01}x+{02} modulo x^4+1 (eq. 5.6) -/
def mixColumn : List Nat → List Nat
  | [s0, s1, s2, s3] =>
    [gfmul 2 s0 ^^^ gfmul 3 s1 ^^^ s2 ^^^ s3,
     s0 ^^^ gfmul 2 s1 ^^^ gfmul 3 s2 ^^^ s3,
     s0 ^^^ s1 ^^^ gfmul 2 s2 ^^^ gfmul 3 s3,
     gfmul 3 s0 ^^^ s1 ^^^ s2 ^^^ gfmul 2 s3]
  | w => w

/-- one column times a^-1(x) = {0b}x^3+{0d}x^2+{09}x+{0e} (eq. 5.10) -/
def invMixColumn : List Nat → List Nat
  | [s0, s1, s2, s3] =>
    [gfmul 0x0e s0 ^^^ gfmul 0x0b s1 ^^^ gfmul 0x0d s2 ^^^ gfmul 0x09 s3,
     gfmul 0x09 s0 ^^^ gfmul 0x0e s1 ^^^ gfmul 0x0b s2 ^^^ gfmul 0x0d s3,
     gfmul 0x0d s0 ^^^ gfmul 0x09 s1 ^^^ gfmul 0x0e s2 ^^^ gfmul 0x0b s3,
     gfmul 0x0b s0 ^^^ gfmul 0x0d s1 ^^^ gfmul 0x09 s2 ^^^ gfmul 0x0e s3]
  | w => w

/-- column c of the state: bytes 4c … 4c+3 -/
def column (s : List Nat) (c : Nat) : List Nat := (s.drop (4 * c)).take 4

def mixColumns (s : List Nat) : List Nat :=
  ((List.range 4).map fun c => mixColumn (column s c)).flatten
def invMixColumns (s : List Nat) : List Nat :=
  ((List.range 4).map fun c => invMixColumn (column s c)).flatten

def xorBytes (a b : List Nat) : List Nat := List.zipWith (· ^^^ ·) a b

/-- [s'_{0,c},…,s'_{3,c}] = [s_{0,c},…,s_{3,c}] ⊕ w_{round·Nb + c}  (eq. 5.7): the round key is the concatenation
    of the four words -/
def addRoundKey (s : List Nat) (w : List (List Nat)) (round : Nat) : List Nat :=
  xorBytes s ((w.drop (4 * round)).take 4).flatten

/-! ### key expansion (§5.2, Fig. 11) -/

/-- x^n in GF(2^8) -/
def xpow : Nat → Nat
  | 0 => 1
  | n + 1 => xtime (xpow n)

/-- Rcon[i] = [x^(i-1), {00}, {00}, {00}], i ≥ 1 -/
def rcon (i : Nat) : List Nat := [xpow (i - 1), 0, 0, 0]

def subWord (w : List Nat) : List Nat := w.map sbox

def rotWord : List Nat → List Nat
  | [a0, a1, a2, a3] => [a1, a2, a3, a0]
  | w => w

/-- w[i] from w[0..i-1] -/
def nextWord (Nk : Nat) (w : List (List Nat)) (i : Nat) : List Nat :=
  let temp := w.getD (i - 1) []
  let temp :=
    if i % Nk = 0 then xorBytes (subWord (rotWord temp)) (rcon (i / Nk))
    else if Nk > 6 ∧ i % Nk = 4 then subWord temp
    else temp
  xorBytes (w.getD (i - Nk) []) temp

/-- w[0..n-1] given the first `start` words: append w[start], w[start+1], … -/
def expandFrom (Nk : Nat) (w : List (List Nat)) (start : Nat) : Nat → List (List Nat)
  | 0 => w
  | n + 1 => expandFrom Nk (w ++ [nextWord Nk w start]) (start + 1) n

/-- KeyExpansion: Nb(Nr+1) words; the first Nk are the key itself, w[i] = key[4i..4i+3] -/
def keyExpansion (key : List Nat) : List (List Nat) :=
  let Nk := key.length / 4
  let Nr := Nk + 6
  let w0 := (List.range Nk).map fun i => (key.drop (4 * i)).take 4
  expandFrom Nk w0 Nk (4 * (Nr + 1) - Nk)

/-! ### Cipher (Fig. 5) and InvCipher (Fig. 12); Nk = |key|/4 ∈ {4,6,8}, Nr = Nk + 6 -/

def round (w : List (List Nat)) (s : List Nat) (r : Nat) : List Nat :=
  addRoundKey (mixColumns (shiftRows (subBytes s))) w r

def invRound (w : List (List Nat)) (s : List Nat) (r : Nat) : List Nat :=
  invMixColumns (addRoundKey (invSubBytes (invShiftRows s)) w r)

/-- rounds 1 … n applied in this order -/
def rounds (w : List (List Nat)) (s : List Nat) : Nat → List Nat
  | 0 => s
  | n + 1 => round w (rounds w s n) (n + 1)

/-- inverse rounds n, n-1, … 1 applied in this order -/
def invRounds (w : List (List Nat)) (s : List Nat) : Nat → List Nat
  | 0 => s
  | n + 1 => invRounds w (invRound w s (n + 1)) n

/-- Cipher with the key schedule `w` and `Nr` rounds (Fig. 5) -/
def cipherW (w : List (List Nat)) (Nr : Nat) (inp : List Nat) : List Nat :=
  let s := addRoundKey inp w 0
  let s := rounds w s (Nr - 1)
  addRoundKey (shiftRows (subBytes s)) w Nr

/-- InvCipher with the key schedule `w` and `Nr` rounds (Fig. 12) -/
def invCipherW (w : List (List Nat)) (Nr : Nat) (inp : List Nat) : List Nat :=
  let s := addRoundKey inp w Nr
  let s := invRounds w s (Nr - 1)
  addRoundKey (invSubBytes (invShiftRows s)) w 0

def cipher (key inp : List Nat) : List Nat := cipherW (keyExpansion key) (key.length / 4 + 6) inp

def invCipher (key inp : List Nat) : List Nat := invCipherW (keyExpansion key) (key.length / 4 + 6) inp

end Spec.Aes
