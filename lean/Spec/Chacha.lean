/-
  Spec.Chacha — D. J. Bernstein, "ChaCha, a variant of Salsa20" (the original: 64-bit block counter ‖ 64-bit nonce).
  State matrix (words):  c0 c1 c2 c3 / k0 k1 k2 k3 / k4 k5 k6 k7 / ctr0 ctr1 n0 n1 ; a double round is the four
  column quarterrounds followed by the four diagonal quarterrounds; the output block is input + rounds(input),
  words serialised little-endian.  ChaCha/r uses r/2 double rounds.  16-byte keys: the key is repeated and the
  constant is "expand 16-byte k".
-/
import Spec.Salsa20
namespace Spec
namespace Chacha
open Spec.Salsa20 (Word Byte iterate words unwords sigma tau le64 xorBytes)

/-- a += b; d ^= a; d <<<= 16;  c += d; b ^= c; b <<<= 12;  a += b; d ^= a; d <<<= 8;  c += d; b ^= c; b <<<= 7 -/
def quarterround (a b c d : Word) : Word × Word × Word × Word :=
  let a := a + b; let d := (d ^^^ a).rotateLeft 16
  let c := c + d; let b := (b ^^^ c).rotateLeft 12
  let a := a + b; let d := (d ^^^ a).rotateLeft 8
  let c := c + d; let b := (b ^^^ c).rotateLeft 7
  (a, b, c, d)

/-- QR(0,4,8,12) QR(1,5,9,13) QR(2,6,10,14) QR(3,7,11,15) -/
def columnround : List Word → List Word
  | [x0, x1, x2, x3, x4, x5, x6, x7, x8, x9, x10, x11, x12, x13, x14, x15] =>
    let (y0, y4, y8, y12) := quarterround x0 x4 x8 x12
    let (y1, y5, y9, y13) := quarterround x1 x5 x9 x13
    let (y2, y6, y10, y14) := quarterround x2 x6 x10 x14
    let (y3, y7, y11, y15) := quarterround x3 x7 x11 x15
    [y0, y1, y2, y3, y4, y5, y6, y7, y8, y9, y10, y11, y12, y13, y14, y15]
  | _ => []

/-- QR(0,5,10,15) QR(1,6,11,12) QR(2,7,8,13) QR(3,4,9,14) -/
def diagonalround : List Word → List Word
  | [x0, x1, x2, x3, x4, x5, x6, x7, x8, x9, x10, x11, x12, x13, x14, x15] =>
    let (y0, y5, y10, y15) := quarterround x0 x5 x10 x15
    let (y1, y6, y11, y12) := quarterround x1 x6 x11 x12
    let (y2, y7, y8, y13) := quarterround x2 x7 x8 x13
    let (y3, y4, y9, y14) := quarterround x3 x4 x9 x14
    [y0, y1, y2, y3, y4, y5, y6, y7, y8, y9, y10, y11, y12, y13, y14, y15]
  | _ => []

/-- the diagonal round as an index pattern: group r, element c reads x[4c + (r+c) mod 4] -/
def diagIndex : List Nat := (List.range 16).map fun p => 4 * (p % 4) + (p / 4 + p % 4) % 4

def doubleround (x : List Word) : List Word := diagonalround (columnround x)

def coreWords (dr : Nat) (x : List Word) : List Word :=
  List.zipWith (· + ·) x (iterate doubleround dr x)

/-- the 64-byte input block: constants, key (repeated when 16 bytes), counter i as 8 little-endian bytes, nonce v -/
def input (k v : List Byte) (i : Nat) : Option (List Byte) :=
  if k.length = 32 then some (sigma ++ k ++ le64 i ++ v)
  else if k.length = 16 then some (tau ++ k ++ k ++ le64 i ++ v)
  else none

def block (dr : Nat) (k v : List Byte) (i : Nat) : Option (List Byte) :=
  (input k v i).map fun x => unwords (coreWords dr (words x))

def keystream (dr : Nat) (k v : List Byte) (b0 : Nat) : Nat → Option (List Byte)
  | 0 => some []
  | n + 1 => do
    let b ← block dr k v b0
    let r ← keystream dr k v (b0 + 1) n
    pure (b ++ r)

def encFrom (dr : Nat) (k v : List Byte) (b0 : Nat) (m : List Byte) : Option (List Byte) :=
  let n := (m.length + 63) / 64
  if v.length ≠ 8 ∨ b0 + n > 2 ^ 64 then none else
  (keystream dr k v b0 n).map (xorBytes m)

def enc (dr : Nat) (k v m : List Byte) : Option (List Byte) := encFrom dr k v 0 m

end Chacha
end Spec
