/-
  Spec.Sha2 — FIPS 180-4 SHA-224, SHA-256 (§6.2, §6.3), SHA-384, SHA-512 (§6.4, §6.5), SHA-512/224, SHA-512/256 (§6.6,
  §6.7, initial values by the generation function of §5.3.6).  The 32-bit and the 64-bit family share the text of the
  standard up to the word size, the rotation amounts, the constants and the number of rounds, so they are written
  once over `BitVec w`.
-/
import Spec.MerkleDamgard
import Spec.Sha2Consts
namespace Spec.Sha2

abbrev State (w : Nat) := BitVec w × BitVec w × BitVec w × BitVec w × BitVec w × BitVec w × BitVec w × BitVec w

section
variable {w : Nat}

/-- §4.1.2 / §4.1.3 -/
def Ch (x y z : BitVec w) : BitVec w := (x &&& y) ^^^ (~~~x &&& z)
def Maj (x y z : BitVec w) : BitVec w := (x &&& y) ^^^ (x &&& z) ^^^ (y &&& z)

/-- Σ(x) = ROTR^a(x) ⊕ ROTR^b(x) ⊕ ROTR^c(x) -/
def bigSigma (a b c : Nat) (x : BitVec w) : BitVec w := x.rotateRight a ^^^ x.rotateRight b ^^^ x.rotateRight c
/-- σ(x) = ROTR^a(x) ⊕ ROTR^b(x) ⊕ SHR^c(x) -/
def smallSigma (a b c : Nat) (x : BitVec w) : BitVec w := x.rotateRight a ^^^ x.rotateRight b ^^^ (x >>> c)

/-- what distinguishes the two families -/
structure Family (w : Nat) where
  Sigma0 : BitVec w → BitVec w
  Sigma1 : BitVec w → BitVec w
  sigma0 : BitVec w → BitVec w
  sigma1 : BitVec w → BitVec w
  K : List (BitVec w)
  rounds : Nat

/-- W_t = σ1(W_{t-2}) + W_{t-7} + σ0(W_{t-15}) + W_{t-16} for 16 ≤ t < rounds -/
def schedule (F : Family w) (M : List (BitVec w)) : List (BitVec w) :=
  (List.range' 16 (F.rounds - 16)).foldl (fun W t =>
    W ++ [F.sigma1 (W.getD (t - 2) 0) + W.getD (t - 7) 0 + F.sigma0 (W.getD (t - 15) 0) + W.getD (t - 16) 0]) M

/-- step 3 of §6.2.2 / §6.4.2 -/
def round (F : Family w) (W : List (BitVec w)) (s : State w) (t : Nat) : State w :=
  let (a, b, c, d, e, f, g, h) := s
  let T1 := h + F.Sigma1 e + Ch e f g + F.K.getD t 0 + W.getD t 0
  let T2 := F.Sigma0 a + Maj a b c
  (T1 + T2, a, b, c, d + T1, e, f, g)

/-- sixteen big-endian w-bit words of a block -/
def parse (w : Nat) (block : List Byte) : List (BitVec w) := wordsBE w block

/-- steps 1–4 of §6.2.2 / §6.4.2 for one block given as its sixteen words M -/
def compressWords (F : Family w) (H : State w) (M : List (BitVec w)) : State w :=
  let W := schedule F M
  let (a, b, c, d, e, f, g, h) := (List.range F.rounds).foldl (round F W) H
  let (h0, h1, h2, h3, h4, h5, h6, h7) := H
  (a + h0, b + h1, c + h2, d + h3, e + h4, f + h5, g + h6, h + h7)

def compress (F : Family w) (H : State w) (block : List Byte) : State w := compressWords F H (parse w block)

/-- the chaining value as bytes, truncated to the leftmost `n` bytes -/
def out (n : Nat) (H : State w) : List Byte :=
  let (h0, h1, h2, h3, h4, h5, h6, h7) := H
  ([h0, h1, h2, h3, h4, h5, h6, h7].flatMap fun h => beBytes (w / 8) h.toNat).take n

def stateOf (l : List (BitVec w)) : State w :=
  (l.getD 0 0, l.getD 1 0, l.getD 2 0, l.getD 3 0, l.getD 4 0, l.getD 5 0, l.getD 6 0, l.getD 7 0)

end

/-- §4.1.2 (4.4)–(4.7), §4.2.2 -/
def fam256 : Family 32 where
  Sigma0 := bigSigma 2 13 22
  Sigma1 := bigSigma 6 11 25
  sigma0 := smallSigma 7 18 3
  sigma1 := smallSigma 17 19 10
  K := K256
  rounds := 64

/-- §4.1.3 (4.10)–(4.13), §4.2.3 -/
def fam512 : Family 64 where
  Sigma0 := bigSigma 28 34 39
  Sigma1 := bigSigma 14 18 41
  sigma0 := smallSigma 1 8 7
  sigma1 := smallSigma 19 61 6
  K := K512
  rounds := 80

def md256 (iv : State 32) (outBytes : Nat) : MDHash (State 32) where
  blockLen := 64
  lenLen := 8
  encLen := beBytes 8
  init := iv
  compress := compress fam256
  out := out outBytes

def md512 (iv : State 64) (outBytes : Nat) : MDHash (State 64) where
  blockLen := 128
  lenLen := 16
  encLen := beBytes 16
  init := iv
  compress := compress fam512
  out := out outBytes

def sha224 (bits : List Bool) : List Byte := (md256 (stateOf iv224) 28).hash bits
def sha256 (bits : List Bool) : List Byte := (md256 (stateOf iv256) 32).hash bits
def sha384 (bits : List Bool) : List Byte := (md512 (stateOf iv384) 48).hash bits
def sha512 (bits : List Bool) : List Byte := (md512 (stateOf iv512) 64).hash bits

/-! §5.3.6: SHA-512/t IV generation function -/

/-- decimal digits of `t` without leading zeros, as ASCII (t < 1000 suffices: t < 512) -/
def asciiDec (t : Nat) : List Byte :=
  let ds := [t / 100 % 10, t / 10 % 10, t % 10]
  let ds := if t ≥ 100 then ds else if t ≥ 10 then ds.drop 1 else ds.drop 2
  ds.map fun d => BitVec.ofNat 8 (48 + d)

/-- the ASCII string "SHA-512/" -/
def prefixAscii : List Byte := [0x53#8, 0x48#8, 0x41#8, 0x2d#8, 0x35#8, 0x31#8, 0x32#8, 0x2f#8]

/-- H(0)″ = H(0) of SHA-512 with every word xored with a5a5a5a5a5a5a5a5; H(0) of SHA-512/t = SHA-512 started from
    H(0)″ applied to the string "SHA-512/t" -/
def ivT (t : Nat) : State 64 :=
  let h0 := stateOf (iv512.map (· ^^^ 0xa5a5a5a5a5a5a5a5#64))
  let m := md512 h0 64
  m.absorb h0 (groups 128 (m.padFrom 0 (bytesToBits (prefixAscii ++ asciiDec t))))

/-- SHA-512/t for t a multiple of 8 -/
def sha512t (t : Nat) (bits : List Bool) : List Byte := (md512 (ivT t) (t / 8)).hash bits

end Spec.Sha2
