/-
  Spec.Knapsack — subset sum.  A solution for (l, s) is a sub-collection of the items of l (each item used at most as
  often as it occurs: a sub-list up to order) whose weights sum to s.
  `firstSolution` is the reference depth-first search ("take the item if the rest can be completed, else skip it").
-/
namespace Spec.Knapsack

abbrev Item := Int × Int
def wsum (c : List Item) : Int := (c.map (·.2)).sum

/-- c (in the order of l) is a solution -/
def IsSolution (l : List Item) (s : Int) (c : List Item) : Prop := c.Sublist l ∧ wsum c = s

/-- first solution in depth-first order, items in the order of l -/
def firstSolution : List Item → Int → Option (List Item)
  | [], s => if s = 0 then some [] else none
  | it :: rest, s =>
    if s = 0 then some []
    else if s < 0 then none
    else match firstSolution rest (s - it.2) with
      | some c => some (it :: c)
      | none => firstSolution rest s

end Spec.Knapsack
