/-
  Spec.Hash — the ten standard hash functions C01 names, as functions from bit strings to byte strings.
-/
import Spec.Md4
import Spec.Md5
import Spec.Sha1
import Spec.Sha2
namespace Spec

inductive Alg
  | md4 | md5 | sha0 | sha1 | sha224 | sha256 | sha384 | sha512 | sha512_224 | sha512_256
deriving Repr, DecidableEq, Inhabited

def hash : Alg → List Bool → List Byte
  | .md4 => Md4.md4
  | .md5 => Md5.md5
  | .sha0 => Sha1.sha0
  | .sha1 => Sha1.sha1
  | .sha224 => Sha2.sha224
  | .sha256 => Sha2.sha256
  | .sha384 => Sha2.sha384
  | .sha512 => Sha2.sha512
  | .sha512_224 => Sha2.sha512t 224
  | .sha512_256 => Sha2.sha512t 256

end Spec
