/-
  Spec.ModePad — the byte-oriented padding methods admissible for the block modes, on byte lists
  (l = block length in bytes, 0 < l < 256 for PKCS#7 and X9.23).

    PKCS#7 (RFC 5652 6.3):    append q bytes of value q,           q = l − (|M| mod l)  ∈ 1..l
    ANSI X9.23:               append q−1 zero bytes and the byte q
    bit padding (ISO/IEC 9797-1 method 2, RFC 1321 3.1 on bytes): append 0x80 and q−1 zero bytes
  `un…` are the inverse maps: `none` when the input is not a padded string.
-/
namespace Spec.ModePad

def padLen (l : Nat) (M : List Nat) : Nat := l - M.length % l

def pkcs7 (l : Nat) (M : List Nat) : List Nat := M ++ List.replicate (padLen l M) (padLen l M)
def x923 (l : Nat) (M : List Nat) : List Nat := M ++ List.replicate (padLen l M - 1) 0 ++ [padLen l M]
def bitpad (l : Nat) (M : List Nat) : List Nat := M ++ 0x80 :: List.replicate (padLen l M - 1) 0

def unpkcs7 (l : Nat) (X : List Nat) : Option (List Nat) :=
  match X.getLast? with
  | none => none
  | some q =>
    if 1 ≤ q ∧ q ≤ l ∧ q ≤ X.length ∧ X.drop (X.length - q) = List.replicate q q then some (X.take (X.length - q))
    else none

def unx923 (l : Nat) (X : List Nat) : Option (List Nat) :=
  match X.getLast? with
  | none => none
  | some q =>
    if 1 ≤ q ∧ q ≤ l ∧ q ≤ X.length ∧ (X.drop (X.length - q)).take (q - 1) = List.replicate (q - 1) 0 then
      some (X.take (X.length - q))
    else none

/-- strip the trailing zero bytes (at most l−1 of them) and the 0x80 marker -/
def unbitpad (l : Nat) (X : List Nat) : Option (List Nat) :=
  let z := (X.reverse.takeWhile (· = 0)).length
  if z < l ∧ z < X.length ∧ (X.reverse.drop z).head? = some 0x80 then some (X.take (X.length - z - 1)) else none

inductive Scheme | none | pkcs7 | x923 | bit
deriving DecidableEq, Repr

/-- message ↦ padded message; `none` (no padding) is defined on block multiples only -/
def pad (s : Scheme) (l : Nat) (M : List Nat) : List Nat :=
  match s with
  | .none => M
  | .pkcs7 => pkcs7 l M
  | .x923 => x923 l M
  | .bit => bitpad l M

def unpad (s : Scheme) (l : Nat) (X : List Nat) : Option (List Nat) :=
  match s with
  | .none => some X
  | .pkcs7 => unpkcs7 l X
  | .x923 => unx923 l X
  | .bit => unbitpad l X

end Spec.ModePad
