/-
  Spec.Mode — NIST SP 800-38A (ECB 6.1, CBC 6.2, CTR 6.5 + Appendix B.1 counter blocks) and the ciphertext-stealing
  variants (SP 800-38A Addendum: CBC-CS1/CS2/CS3; ECB ciphertext stealing after Meyer–Matyas/Schneier) over an
  arbitrary forward/inverse cipher function pair on byte blocks.  Nothing of crysp's plumbing appears here.
-/
import Spec.ModePad
namespace Spec.Mode

abbrev Block := List Nat

/-- CIPH_K and CIPH⁻¹_K for a fixed key, on blocks of `len` bytes -/
structure Cipher where
  len : Nat
  E : Block → Block
  D : Block → Block

/-- bitwise exclusive-or of two strings; on strings of different length: of the leading bits (MSB_u) -/
def xor (a b : Block) : Block := List.zipWith (· ^^^ ·) a b

/-- X = X_1 ‖ X_2 ‖ … ‖ X_n in blocks of l bytes; the last one may be partial (CTR, stealing) -/
def blocks (l : Nat) (X : List Nat) : List Block :=
  (List.range ((X.length + l - 1) / l)).map fun i => (X.drop (i * l)).take l

def concat (L : List Block) : List Nat := L.flatten

/-! #### 6.1 ECB:  C_j = CIPH_K(P_j),  P_j = CIPH⁻¹_K(C_j) -/
def ecbEncrypt (k : Cipher) (P : List Block) : List Block := P.map k.E
def ecbDecrypt (k : Cipher) (C : List Block) : List Block := C.map k.D

/-! #### 6.2 CBC:  C_1 = CIPH_K(P_1 ⊕ IV), C_j = CIPH_K(P_j ⊕ C_{j-1});  P_j = CIPH⁻¹_K(C_j) ⊕ C_{j-1} -/
def cbcEncrypt (k : Cipher) : Block → List Block → List Block
  | _, [] => []
  | prev, p :: ps => k.E (xor p prev) :: cbcEncrypt k (k.E (xor p prev)) ps
def cbcDecrypt (k : Cipher) : Block → List Block → List Block
  | _, [] => []
  | prev, c :: cs => xor (k.D c) prev :: cbcDecrypt k c cs

/-! #### 6.5 CTR:  O_j = CIPH_K(T_j), C_j = P_j ⊕ O_j, C*_n = P*_n ⊕ MSB_u(O_n); decryption is the same map -/
def ctrFrom (k : Cipher) (T : Nat → Block) : Nat → List Block → List Block
  | _, [] => []
  | j, p :: ps => xor p (k.E (T j)) :: ctrFrom k T (j + 1) ps
def ctrEncrypt (k : Cipher) (T : Nat → Block) (P : List Block) : List Block := ctrFrom k T 0 P

/-- big-endian encoding of n on w bytes -/
def beBytes : Nat → Nat → List Nat
  | 0, _ => []
  | w+1, n => beBytes w (n / 256) ++ [n % 256]
/-- big-endian value of a byte string -/
def beVal (bs : List Nat) : Nat := bs.foldl (fun a b => 256 * a + b) 0

/-- Appendix B.1, second approach as crysp's default counter does it: the counter block of `len` bytes is a fixed
    nonce (first ⌊len/2⌋ bytes) followed by a standard incrementing function on the remaining m = 8·(len − ⌊len/2⌋)
    bits: T_j = nonce ‖ [(c0 + j) mod 2^m]_m -/
def counterBlock (len : Nat) (iv : Block) (j : Nat) : Block :=
  let h := len / 2
  let w := len - h
  iv.take h ++ beBytes w ((beVal (iv.drop h) + j) % 2 ^ (8 * w))

/-! #### complete operations on messages -/
def ecb (k : Cipher) (s : ModePad.Scheme) (M : List Nat) : List Nat :=
  concat (ecbEncrypt k (blocks k.len (ModePad.pad s k.len M)))
def ecbInv (k : Cipher) (s : ModePad.Scheme) (C : List Nat) : Option (List Nat) :=
  ModePad.unpad s k.len (concat (ecbDecrypt k (blocks k.len C)))

/-- the IV is transmitted in front of the ciphertext -/
def cbc (k : Cipher) (iv : Block) (s : ModePad.Scheme) (M : List Nat) : List Nat :=
  iv ++ concat (cbcEncrypt k iv (blocks k.len (ModePad.pad s k.len M)))
/-- inverse: the first block of the input is the IV -/
def cbcInv (k : Cipher) (s : ModePad.Scheme) (C : List Nat) : Option (List Nat) :=
  match blocks k.len C with
  | [] => none
  | iv :: cs => ModePad.unpad s k.len (concat (cbcDecrypt k iv cs))

def ctr (k : Cipher) (iv : Block) (M : List Nat) : List Nat :=
  concat (ctrEncrypt k (counterBlock k.len iv) (blocks k.len M))

/-- Appendix B.1 with the two parts of the initial counter block given separately (a nonce of any length, the standard
    incrementing function on the m = 8·|count| remaining bits): T_j = nonce ‖ [(c0 + j) mod 2^m]_m -/
def counterBlockOf (nonce count : Block) (j : Nat) : Block :=
  nonce ++ beBytes count.length ((beVal count + j) % 2 ^ (8 * count.length))

/-- CTR with the initial counter block nonce ‖ count -/
def ctrOf (k : Cipher) (nonce count : Block) (M : List Nat) : List Nat :=
  concat (ctrEncrypt k (counterBlockOf nonce count) (blocks k.len M))

/-! #### ciphertext stealing.  M = P_1 ‖ … ‖ P_{n-1} ‖ P*_n with |P*_n| = d, 1 ≤ d ≤ len, n ≥ 2 -/

/-- ECB-CTS on the blocks P_1 … P_{n-1} P*_n (|P*_n| = d ≤ len): when P*_n is partial,
    E_{n-1} = CIPH(P_{n-1}) = C*_n ‖ tail with |C*_n| = d, C_{n-1} = CIPH(P*_n ‖ tail), output … C_{n-1} C*_n;
    a message of whole blocks is plain ECB. -/
def ecbCtsBlocks (k : Cipher) : List Block → List Block
  | [] => []
  | [p] => [k.E p]
  | [p, q] =>
    if q.length = k.len then [k.E p, k.E q]
    else [k.E (q ++ (k.E p).drop q.length), (k.E p).take q.length]
  | p :: q :: r :: rest => k.E p :: ecbCtsBlocks k (q :: r :: rest)

def ecbCts (k : Cipher) (M : List Nat) : List Nat := concat (ecbCtsBlocks k (blocks k.len M))

/-- Addendum, CBC-CS1 output from the CBC ciphertext blocks C_1 … C_n of P_1 … P_{n-1} (P*_n ‖ 0…0):
    C_1 … C_{n-2} MSB_d(C_{n-1}) C_n -/
def cs1Assemble (d : Nat) : List Block → List Block
  | [] => []
  | [c] => [c]
  | [a, b] => [a.take d, b]
  | a :: b :: c :: rest => a :: cs1Assemble d (b :: c :: rest)

/-- CBC-CS2: as CS1 when d = len, otherwise the last two swapped: C_1 … C_{n-2} C_n MSB_d(C_{n-1}) -/
def cs2Assemble (len d : Nat) : List Block → List Block
  | [] => []
  | [c] => [c]
  | [a, b] => if d = len then [a, b] else [b, a.take d]
  | a :: b :: c :: rest => a :: cs2Assemble len d (b :: c :: rest)

/-- d = length of the last block (len for a block multiple) and the zero-extended message -/
def lastLen (l : Nat) (M : List Nat) : Nat := if M.length % l = 0 then l else M.length % l
def zeroExtend (l : Nat) (M : List Nat) : List Nat := M ++ List.replicate (l - lastLen l M) 0

def cbcCS1 (k : Cipher) (iv : Block) (M : List Nat) : List Block :=
  cs1Assemble (lastLen k.len M) (cbcEncrypt k iv (blocks k.len (zeroExtend k.len M)))
def cbcCS2 (k : Cipher) (iv : Block) (M : List Nat) : List Block :=
  cs2Assemble k.len (lastLen k.len M) (cbcEncrypt k iv (blocks k.len (zeroExtend k.len M)))

/-- what CTS_CBC transmits: IV ‖ CBC-CS2 -/
def cbcCts (k : Cipher) (iv : Block) (M : List Nat) : List Nat := iv ++ concat (cbcCS2 k iv M)

/-! #### decryption of the ciphertext-stealing variants -/

/-- ECB-CTS decryption is the same construction with CIPH⁻¹: D_{n-1} = CIPH⁻¹(C_{n-1}) = P*_n ‖ tail,
    P_{n-1} = CIPH⁻¹(C*_n ‖ tail) -/
def ecbCtsInv (k : Cipher) (C : List Nat) : List Nat := concat (ecbCtsBlocks ⟨k.len, k.D, k.E⟩ (blocks k.len C))

/-- Addendum, CBC-CS1-Decrypt on C_1 … C_{n-2}, C*_{n-1} (d bytes), C_n:
    Z = CIPH⁻¹(C_n); C_{n-1} = C*_{n-1} ‖ LSB_{b-d}(Z); P_1 … P_{n-1} = CBC-Decrypt(C_1 … C_{n-1});
    P*_n = C*_{n-1} ⊕ MSB_d(Z) -/
def cbcCS1Decrypt (k : Cipher) (iv : Block) (head : List Block) (cstar cn : Block) : List Block :=
  let z := k.D cn
  let d := cstar.length
  cbcDecrypt k iv (head ++ [cstar ++ z.drop d]) ++ [xor cstar (z.take d)]

/-- CBC-CS2-Decrypt of a byte string: a block multiple is plain CBC; otherwise the string is
    C_1 … C_{n-2} C_n C*_{n-1} (last two swapped back, then CS1) -/
def cbcCS2Inv (k : Cipher) (iv : Block) (C : List Nat) : List Nat :=
  if C.length % k.len = 0 then concat (cbcDecrypt k iv (blocks k.len C))
  else
    match (blocks k.len C).reverse with
    | cstar :: cn :: revhead => concat (cbcCS1Decrypt k iv revhead.reverse cstar cn)
    | _ => []        -- fewer than two blocks: not a ciphertext of this mode

/-- inverse of `cbcCts`: the first block of the input is the IV -/
def cbcCtsInv (k : Cipher) (C : List Nat) : List Nat := cbcCS2Inv k (C.take k.len) (C.drop k.len)

end Spec.Mode
