/-
  Spec.Bytes — bit strings, bytes and words as the hash standards talk about them (RFC 1320/1321 §2, FIPS 180-4 §3):
  a message is a bit string; a byte is eight bits, most significant first; words are big-endian (SHA) or
  little-endian (MD4/MD5) groups of bytes.
-/
namespace Spec

abbrev Byte := BitVec 8

/-- the eight bits of a byte, most significant first -/
def byteBits (b : Byte) : List Bool := (List.range 8).map fun j => b.getLsbD (7 - j)

/-- a byte string as a bit string -/
def bytesToBits (m : List Byte) : List Bool := m.flatMap byteBits

/-- "the first L bits of M" -/
def takeBits (L : Nat) (m : List Byte) : List Bool := (bytesToBits m).take L

/-- value of a bit string read as a binary numeral, first bit most significant -/
def bitsVal (bs : List Bool) : Nat := bs.foldl (fun acc b => 2 * acc + b.toNat) 0

/-- consecutive groups of `n` elements (used on lists whose length is a multiple of `n`) -/
def groups {α} (n : Nat) (l : List α) : List (List α) :=
  (List.range (l.length / n)).map fun i => (l.drop (i * n)).take n

/-- a bit string whose length is a multiple of 8, as bytes -/
def bitsToBytes (bs : List Bool) : List Byte := (groups 8 bs).map fun g => BitVec.ofNat 8 (bitsVal g)

/-- big-endian value of a byte string -/
def beVal (bs : List Byte) : Nat := bs.foldl (fun acc b => 256 * acc + b.toNat) 0

/-- little-endian value of a byte string -/
def leVal : List Byte → Nat
  | [] => 0
  | b :: bs => b.toNat + 256 * leVal bs

/-- the `n`-byte big-endian representation of `x` (mod 2^(8n)) -/
def beBytes (n x : Nat) : List Byte := (List.range n).map fun i => BitVec.ofNat 8 (x >>> (8 * (n - 1 - i)))

/-- the `n`-byte little-endian representation of `x` (mod 2^(8n)) -/
def leBytes (n x : Nat) : List Byte := (List.range n).map fun i => BitVec.ofNat 8 (x >>> (8 * i))

/-- a byte string (a multiple of w/8 bytes) as big-endian w-bit words -/
def wordsBE (w : Nat) (bytes : List Byte) : List (BitVec w) :=
  (groups (w / 8) bytes).map fun g => BitVec.ofNat w (beVal g)

/-- a byte string (a multiple of w/8 bytes) as little-endian w-bit words -/
def wordsLE (w : Nat) (bytes : List Byte) : List (BitVec w) :=
  (groups (w / 8) bytes).map fun g => BitVec.ofNat w (leVal g)

end Spec
