/-
  Spec.Poly — what property C16 says, on plain coefficient lists (no Poly object, no Bits plumbing).
  A vector over Z/2^k is a `List Int` of representatives in [0,2^k) (k = 0: the integers, any `Int`).
  Missing coefficients are zero.  Imports core Lean only.
-/
namespace Spec.Poly

/-- canonical representative of x in Z/2^k (k = 0: Z itself) -/
def norm1 (k : Nat) (x : Int) : Int := if k = 0 then x else x % (2 : Int) ^ k
def norm (k : Nat) (l : List Int) : List Int := l.map (norm1 k)

/-- coefficient i, zero beyond the dimension -/
def coeff (l : List Int) (i : Nat) : Int := l.getD i 0

/-- the position a Python index i denotes in a sequence of length n (for −n ≤ i < n): negative indices count from the end -/
def pos (n : Nat) (i : Int) : Nat := if i < 0 then (i + n).toNat else i.toNat

/-- the stop bound of a forward slice on a Poly: an explicit stop beyond the (clipped) end is honoured, the coefficients
    read there are the missing ones, i.e. zero -/
def sliceStop (stop : Option Int) (clipped : Int) : Int :=
  match stop with
  | some x => max x clipped
  | none => clipped

/-- a vector forced to dimension d > 0 (truncate / pad with zeros); d = 0: unchanged -/
def fit (d : Nat) (l : List Int) : List Int := if d = 0 then l else (List.range d).map (coeff l)

/-- coefficient by coefficient, the result has the longer dimension -/
def pointwise (f : Int → Int → Int) (a b : List Int) : List Int :=
  (List.range (max a.length b.length)).map fun i => f (coeff a i) (coeff b i)

def add (k : Nat) (a b : List Int) : List Int := pointwise (fun x y => norm1 k (x + y)) a b
def sub (k : Nat) (a b : List Int) : List Int := pointwise (fun x y => norm1 k (x - y)) a b
def neg (k : Nat) (a : List Int) : List Int := a.map fun x => norm1 k (-x)

/-- bitwise operations on integers: infinite two's complement (−n−1 is the complement of n) -/
def ldiff (m n : Nat) : Nat := Nat.bitwise (fun a b => a && !b) m n
def land : Int → Int → Int
  | .ofNat m, .ofNat n => .ofNat (m &&& n)
  | .ofNat m, .negSucc n => .ofNat (ldiff m n)
  | .negSucc m, .ofNat n => .ofNat (ldiff n m)
  | .negSucc m, .negSucc n => .negSucc (m ||| n)
def lor : Int → Int → Int
  | .ofNat m, .ofNat n => .ofNat (m ||| n)
  | .ofNat m, .negSucc n => .negSucc (ldiff n m)
  | .negSucc m, .ofNat n => .negSucc (ldiff m n)
  | .negSucc m, .negSucc n => .negSucc (m &&& n)
def lxor : Int → Int → Int
  | .ofNat m, .ofNat n => .ofNat (m ^^^ n)
  | .ofNat m, .negSucc n => .negSucc (m ^^^ n)
  | .negSucc m, .ofNat n => .negSucc (m ^^^ n)
  | .negSucc m, .negSucc n => .ofNat (m ^^^ n)

def band (a b : List Int) : List Int := pointwise land a b
def bor (a b : List Int) : List Int := pointwise lor a b
def bxor (a b : List Int) : List Int := pointwise lxor a b

/-- shifts per coefficient: left = multiply by 2^n in the ring, right = floor division by 2^n -/
def shl (k : Nat) (a : List Int) (n : Nat) : List Int := a.map fun x => norm1 k (x * (2 : Int) ^ n)
def shr (a : List Int) (n : Nat) : List Int := a.map fun x => x / (2 : Int) ^ n

/-- number of k'-bit pieces of a k-bit element -/
def pieces (k k' : Nat) : Nat := (k + k' - 1) / k'

/-- the k'-bit digits of one k-bit coefficient, least significant first (little-endian layout) -/
def digits (k k' : Nat) (x : Nat) : List Nat := (List.range (pieces k k')).map fun j => x / 2 ^ (k' * j) % 2 ^ k'

/-- re-chunking to element size k': every coefficient is replaced by its digits, little-endian or big-endian -/
def rechunk (k k' : Nat) (bigend : Bool) (l : List Nat) : List Nat :=
  l.flatMap fun x => if bigend then (digits k k' x).reverse else digits k k' x

/-- packing: the little-endian bytes of every coefficient, concatenated (the whole string reversed for '>L') -/
def packBytes (k : Nat) (bigend : Bool) (l : List Nat) : List Nat :=
  let s := l.flatMap (digits k 8)
  if bigend then s.reverse else s

end Spec.Poly
