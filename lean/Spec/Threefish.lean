/-
  Spec.Threefish — the Threefish block cipher of "The Skein Hash Function Family", version 1.3 (1 Oct 2010),
  section 3.3, written on `BitVec 64` words, independently of the code's Bits plumbing.

  3.3     Nw = 4, 8, 16 words for Threefish-256/512/1024; Nr = 72, 72, 80 rounds.
          v_{0,i} = p_i;  e_{d,i} = v_{d,i} + k_{d/4,i} (mod 2^64) if d mod 4 = 0, else v_{d,i};
          (f_{d,2j}, f_{d,2j+1}) = MIX_{d,j}(e_{d,2j}, e_{d,2j+1})  for j = 0 .. Nw/2-1;
          v_{d+1,i} = f_{d,π(i)};   c_i = v_{Nr,i} + k_{Nr/4,i}.
  3.3.1   MIX_{d,j}(x0,x1):  y0 = x0 + x1 mod 2^64,  y1 = (x1 <<< R_{d mod 8, j}) xor y0.   Table 3 = π, Table 4 = R.
  3.3.2   k_{Nw} = C240 xor k_0 xor … xor k_{Nw-1},  t_2 = t_0 xor t_1,
          k_{s,i} = k_{(s+i) mod (Nw+1)}                        i = 0 .. Nw-4
                  = k_{(s+i) mod (Nw+1)} + t_{s mod 3}           i = Nw-3
                  = k_{(s+i) mod (Nw+1)} + t_{(s+1) mod 3}       i = Nw-2
                  = k_{(s+i) mod (Nw+1)} + s                     i = Nw-1
  3.1     byte strings <-> words: ToInt / ToBytes are little-endian, BytesToWords takes 8 bytes per word.

  Decryption is "the obvious inverse": the inverse of every step in the reverse order; that `dec` really is the inverse
  map of `enc` for every key and tweak is proved in Proofs/C03_Threefish.lean (so `dec` is determined by the standard's
  `enc`, not an independent definition that could drift).

  The tables are typed from the specification text (Tables 3 and 4), not copied from the code.
-/
namespace Spec.Threefish

abbrev W := BitVec 64

/-- admissible numbers of words -/
def validNw (nw : Nat) : Bool := nw = 4 || nw = 8 || nw = 16

/-- number of rounds (Table 2) -/
def Nr (nw : Nat) : Nat := if nw = 16 then 80 else 72

/-- Table 3: the word permutation π -/
def pi (nw : Nat) : List Nat :=
  match nw with
  | 4 => [0, 3, 2, 1]
  | 8 => [2, 1, 4, 7, 6, 5, 0, 3]
  | 16 => [0, 9, 2, 13, 6, 11, 4, 15, 10, 7, 12, 3, 14, 5, 8, 1]
  | _ => []

/-- the inverse permutation by its defining rule: piInv(v) = the i with π(i) = v -/
def piInv (nw : Nat) : List Nat :=
  (List.range nw).map fun v => (pi nw).idxOf v

/-- Table 4: the rotation constants R_{d,j}, rows d = 0..7, columns j = 0..Nw/2-1 -/
def R (nw : Nat) : List (List Nat) :=
  match nw with
  | 4 => [[14, 16],
          [52, 57],
          [23, 40],
          [ 5, 37],
          [25, 33],
          [46, 12],
          [58, 22],
          [32, 32]]
  | 8 => [[46, 36, 19, 37],
          [33, 27, 14, 42],
          [17, 49, 36, 39],
          [44,  9, 54, 56],
          [39, 30, 34, 24],
          [13, 50, 10, 17],
          [25, 29, 39, 43],
          [ 8, 35, 56, 22]]
  | 16 => [[24, 13,  8, 47,  8, 17, 22, 37],
           [38, 19, 10, 55, 49, 18, 23, 52],
           [33,  4, 51, 13, 34, 41, 59, 17],
           [ 5, 20, 48, 41, 47, 28, 16, 25],
           [41,  9, 37, 31, 12, 47, 44, 30],
           [16, 34, 56, 51,  4, 53, 42, 41],
           [31, 44, 47, 46, 19, 42, 44, 25],
           [ 9, 48, 35, 52, 23, 31, 37, 20]]
  | _ => []

/-- R_{d mod 8, j} -/
def rot (nw d j : Nat) : Nat := ((R nw).getD (d % 8) []).getD j 0

/-- the key-schedule parity constant C240 -/
def C240 : W := 0x1BD11BDAA9FC1A22#64

/-- k_0 … k_{Nw-1}, k_{Nw} -/
def keyExt (K : List W) : List W := K ++ [K.foldl (· ^^^ ·) C240]

/-- t_0, t_1, t_2 -/
def tweakExt (T : List W) : List W := [T.getD 0 0, T.getD 1 0, T.getD 0 0 ^^^ T.getD 1 0]

/-- subkey word k_{s,i} from the extended key `k` and extended tweak `t` -/
def subkey (nw : Nat) (k t : List W) (s i : Nat) : W :=
  let b := k.getD ((s + i) % (nw + 1)) 0
  if i + 3 = nw then b + t.getD (s % 3) 0
  else if i + 2 = nw then b + t.getD ((s + 1) % 3) 0
  else if i + 1 = nw then b + BitVec.ofNat 64 s
  else b

/-- the subkey k_s = (k_{s,0}, …, k_{s,Nw-1}) -/
def subkeys (nw : Nat) (k t : List W) (s : Nat) : List W := (List.range nw).map (subkey nw k t s)

/-- MIX with rotation amount r -/
def mix (r : Nat) (x0 x1 : W) : List W :=
  let y0 := x0 + x1
  [y0, x1.rotateLeft r ^^^ y0]

/-- the inverse of MIX -/
def mixInv (r : Nat) (y0 y1 : W) : List W :=
  let x1 := (y0 ^^^ y1).rotateRight r
  [y0 - x1, x1]

def addWords (nw : Nat) (v k : List W) : List W := (List.range nw).map fun i => v.getD i 0 + k.getD i 0
def subWords (nw : Nat) (v k : List W) : List W := (List.range nw).map fun i => v.getD i 0 - k.getD i 0

/-- f_d from e_d -/
def mixLayer (nw d : Nat) (e : List W) : List W :=
  (List.range (nw / 2)).flatMap fun j => mix (rot nw d j) (e.getD (2 * j) 0) (e.getD (2 * j + 1) 0)
def mixInvLayer (nw d : Nat) (f : List W) : List W :=
  (List.range (nw / 2)).flatMap fun j => mixInv (rot nw d j) (f.getD (2 * j) 0) (f.getD (2 * j + 1) 0)

/-- v_{d+1,i} = f_{d,π(i)} -/
def permute (p : List Nat) (nw : Nat) (f : List W) : List W := (List.range nw).map fun i => f.getD (p.getD i 0) 0

/-- v_{d+1} from v_d -/
def round (nw : Nat) (k t : List W) (v : List W) (d : Nat) : List W :=
  let e := if d % 4 = 0 then addWords nw v (subkeys nw k t (d / 4)) else v
  permute (pi nw) nw (mixLayer nw d e)

/-- v_d from v_{d+1} -/
def roundInv (nw : Nat) (k t : List W) (v : List W) (d : Nat) : List W :=
  let e := mixInvLayer nw d (permute (piInv nw) nw v)
  if d % 4 = 0 then subWords nw e (subkeys nw k t (d / 4)) else e

/-- v_d for d = 0 .. Nr -/
def state (nw : Nat) (k t : List W) (p : List W) : Nat → List W
  | 0 => p
  | d + 1 => round nw k t (state nw k t p d) d

/-- Threefish encryption on words: K has Nw words, T two words, P Nw words -/
def encWords (nw : Nat) (K T P : List W) : List W :=
  let k := keyExt K
  let t := tweakExt T
  addWords nw (state nw k t P (Nr nw)) (subkeys nw k t (Nr nw / 4))

/-- undo rounds n-1, n-2, …, 0 -/
def unstate (nw : Nat) (k t : List W) : Nat → List W → List W
  | 0, v => v
  | d + 1, v => unstate nw k t d (roundInv nw k t v d)

/-- Threefish decryption on words -/
def decWords (nw : Nat) (K T C : List W) : List W :=
  let k := keyExt K
  let t := tweakExt T
  unstate nw k t (Nr nw) (subWords nw C (subkeys nw k t (Nr nw / 4)))

/-! ### byte strings (section 3.1) -/

/-- ToInt: little-endian integer of a byte string -/
def toInt : List Nat → Nat
  | [] => 0
  | b :: bs => b + 256 * toInt bs

/-- ToBytes(v,n): n little-endian bytes -/
def toBytes : Nat → Nat → List Nat
  | 0, _ => []
  | n + 1, v => (v % 256) :: toBytes n (v / 256)

/-- BytesToWords: 8 bytes per 64-bit word (the byte string has 8·n bytes) -/
def bytesToWords (s : List Nat) : List W :=
  (List.range (s.length / 8)).map fun i => BitVec.ofNat 64 (toInt ((s.drop (8 * i)).take 8))

/-- WordsToBytes -/
def wordsToBytes (ws : List W) : List Nat := ws.flatMap fun w => toBytes 8 w.toNat

/-- the sizes Threefish is defined for: key of 32/64/128 bytes, tweak of 16 bytes, block as long as the key -/
def sizesOk (key tweak block : List Nat) : Bool :=
  (key.length = 32 || key.length = 64 || key.length = 128) && tweak.length = 16 && block.length = key.length

/-- Threefish-Nb encryption of a block of bytes; `none` = the sizes are not defined by the standard -/
def enc (key tweak block : List Nat) : Option (List Nat) :=
  if sizesOk key tweak block then
    some (wordsToBytes (encWords (key.length / 8) (bytesToWords key) (bytesToWords tweak) (bytesToWords block)))
  else none

def dec (key tweak block : List Nat) : Option (List Nat) :=
  if sizesOk key tweak block then
    some (wordsToBytes (decWords (key.length / 8) (bytesToWords key) (bytesToWords tweak) (bytesToWords block)))
  else none

end Spec.Threefish
