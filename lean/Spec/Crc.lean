/-
  Spec.Crc — the CRC definition: bit-serial division by a reflected polynomial.

  A reflected CRC of width w with (reflected) polynomial P keeps a w-bit register r.  Message bits enter
  least-significant bit of each byte first; for every message bit m
      fb := (r & 1) xor m ;  r := r >> 1 ;  if fb then r := r xor P
  (the register shifts right, the feedback taps are the bits of P).  The register starts at `init` (reduced to w
  bits) and the result is the final register xor `final`.
  CRC-32 (ISO-HDLC, zlib, PNG, Ethernet): w = 32, P = 0xEDB88320, init = final = 0xFFFFFFFF.
  Nothing here refers to tables, bytes-at-a-time processing or the code's Bits class.
-/
namespace Spec.Crc

/-- one message bit -/
def bitIn (P : Nat) (r : Nat) (m : Bool) : Nat :=
  let fb := r.testBit 0 != m
  if fb then (r >>> 1) ^^^ P else r >>> 1

/-- bits of one byte, least significant first -/
def byteBits (b : Nat) : List Bool := (List.range 8).map b.testBit

/-- the message as a bit sequence -/
def msgBits (data : List Nat) : List Bool := data.flatMap byteBits

/-- register after the whole message -/
def register (P : Nat) (r0 : Nat) (data : List Nat) : Nat := (msgBits data).foldl (bitIn P) r0

/-- bitwise CRC of width `w`, reflected polynomial `P`, initial register `init`, final xor `final` -/
def crc (P w init final : Nat) (data : List Nat) : Nat := register P (init % 2 ^ w) data ^^^ final

/-- CRC-32 -/
def crc32 (data : List Nat) : Nat := crc 0xEDB88320 32 0xFFFFFFFF 0xFFFFFFFF data

end Spec.Crc
