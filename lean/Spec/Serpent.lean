/-
  Spec.Serpent — the Serpent block cipher as defined in the AES submission
  (Anderson, Biham, Knudsen: "Serpent: A Proposal for the Advanced Encryption Standard"), bitslice formulation
  (section 3 "the cipher", bitslice description of section 2/"An efficient implementation"):

    * the block is four 32-bit words X0..X3; column k (bits k of X0,X1,X2,X3, X0 least significant) is the
      4-bit input of an S-box; round i uses S_{i mod 8} on all 32 columns
    * B_{i+1} = L(S_i(B_i xor K_i)) for i = 0..30,   B_32 = S_7(B_31 xor K_31) xor K_32
    * linear transformation L:  X0 <<<= 13; X2 <<<= 3; X1 ^= X0^X2; X3 ^= X2^(X0<<3); X1 <<<= 1; X3 <<<= 7;
      X0 ^= X1^X3; X2 ^= X3^(X1<<7); X0 <<<= 5; X2 <<<= 22
    * key schedule: the user key (any length up to 256 bits) is padded to 256 bits by appending one "1" bit and then
      "0" bits; written as eight words w_{-8}..w_{-1}; w_i = (w_{i-8}^w_{i-5}^w_{i-3}^w_{i-1}^phi^i) <<< 11,
      phi = 0x9e3779b9, i = 0..131; round key K_i = S_{(3-i) mod 8}(w_{4i},..,w_{4i+3})  (S3,S2,S1,S0,S7,...)
    * in the bitslice formulation the initial and final permutations IP/FP of the standard formulation are omitted
      (they only convert between the two representations); they are given here by their generating rule because
      the library exposes them:  output bit j of IP is input bit 32·j mod 127 (bit 127 fixed), FP is its inverse
      (output bit j = input bit 4·j mod 127).
  Numbers: a block / the key is the little-endian number of its bytes (the convention of the NESSIE vectors and of
  crysp; the submission's own vector files print the same numbers most significant byte first).
  Only core Lean.  Words are `Nat` < 2^32.  The S-boxes are typed from the submission (appendix A.5), not from the code.
-/
namespace Spec.Serpent

/-- the number whose bit `k` (k < n) is `f k` -/
def ofBitFn : Nat → (Nat → Bool) → Nat
  | 0, _ => 0
  | n + 1, f => ofBitFn n f ||| (if f n then 2 ^ n else 0)

def rotl (x n : Nat) : Nat := ((x <<< n) ||| (x >>> (32 - n))) % 2 ^ 32
def rotr (x n : Nat) : Nat := ((x >>> n) ||| (x <<< (32 - n))) % 2 ^ 32
def shl (x n : Nat) : Nat := (x <<< n) % 2 ^ 32

/-- S-boxes S0..S7 of the submission -/
def sboxTable : List (List Nat) :=
  [[ 3,  8, 15,  1, 10,  6,  5, 11, 14, 13,  4,  2,  7,  0,  9, 12],
   [15, 12,  2,  7,  9,  0,  5, 10,  1, 11, 14,  8,  6, 13,  3,  4],
   [ 8,  6,  7,  9,  3, 12, 10, 15, 13,  1, 14,  4,  0, 11,  5,  2],
   [ 0, 15, 11,  8, 12,  9,  6,  3, 13,  1,  2,  4, 10,  7,  5, 14],
   [ 1, 15,  8,  3, 12,  0, 11,  6,  2,  5,  4, 10,  9, 14,  7, 13],
   [15,  5,  2, 11,  4, 10,  9, 12,  0,  3, 14,  8, 13,  6,  7,  1],
   [ 7,  2, 12,  5,  8,  4,  6, 11, 14,  9,  1, 15, 13,  3, 10,  0],
   [ 1, 13, 15,  0, 14,  8,  2, 11,  7,  4, 12, 10,  9,  3,  5,  6]]

/-- S_i(x) -/
def sbox (i x : Nat) : Nat := (sboxTable.getD i []).getD x 0
/-- S_i^{-1}(y): by rule, the position of y in S_i -/
def sboxInv (i y : Nat) : Nat := (sboxTable.getD i []).idxOf y

structure State where
  x0 : Nat
  x1 : Nat
  x2 : Nat
  x3 : Nat
deriving DecidableEq, Repr, Inhabited

def State.xor (a b : State) : State := ⟨a.x0 ^^^ b.x0, a.x1 ^^^ b.x1, a.x2 ^^^ b.x2, a.x3 ^^^ b.x3⟩

/-- the 4-bit column k of a bitslice state (X0 gives the least significant bit) -/
def column (s : State) (k : Nat) : Nat :=
  (s.x0.testBit k).toNat + 2 * (s.x1.testBit k).toNat + 4 * (s.x2.testBit k).toNat + 8 * (s.x3.testBit k).toNat

/-- apply a 4-bit function to all 32 columns -/
def applyBox (f : Nat → Nat) (s : State) : State :=
  ⟨ofBitFn 32 fun k => (f (column s k)).testBit 0,
   ofBitFn 32 fun k => (f (column s k)).testBit 1,
   ofBitFn 32 fun k => (f (column s k)).testBit 2,
   ofBitFn 32 fun k => (f (column s k)).testBit 3⟩

/-- the linear transformation -/
def lt (s : State) : State :=
  let x0 := rotl s.x0 13
  let x2 := rotl s.x2 3
  let x1 := s.x1 ^^^ x0 ^^^ x2
  let x3 := s.x3 ^^^ x2 ^^^ shl x0 3
  let x1 := rotl x1 1
  let x3 := rotl x3 7
  let x0 := x0 ^^^ x1 ^^^ x3
  let x2 := x2 ^^^ x3 ^^^ shl x1 7
  let x0 := rotl x0 5
  let x2 := rotl x2 22
  ⟨x0, x1, x2, x3⟩

/-- the inverse linear transformation (used by decryption) -/
def ltInv (s : State) : State :=
  let x2 := rotr s.x2 22
  let x0 := rotr s.x0 5
  let x2 := x2 ^^^ s.x3 ^^^ shl s.x1 7
  let x0 := x0 ^^^ s.x1 ^^^ s.x3
  let x3 := rotr s.x3 7
  let x1 := rotr s.x1 1
  let x3 := x3 ^^^ x2 ^^^ shl x0 3
  let x1 := x1 ^^^ x0 ^^^ x2
  let x2 := rotr x2 3
  let x0 := rotr x0 13
  ⟨x0, x1, x2, x3⟩

def phi : Nat := 0x9e3779b9

/-- pad a user key of `klen ≤ 256` bits (bit j of `K` = key bit j) to 256 bits: append a 1 bit, then zeros -/
def padKey (klen K : Nat) : Nat :=
  if klen < 256 then K % 2 ^ klen + 2 ^ klen else K % 2 ^ 256

/-- next prekey from the list `w = [w_{-8}, …, w_{i-1}]` -/
def prekeyNext (w : List Nat) (i : Nat) : Nat :=
  let n := w.length
  rotl (w.getD (n - 8) 0 ^^^ w.getD (n - 5) 0 ^^^ w.getD (n - 3) 0 ^^^ w.getD (n - 1) 0 ^^^ phi ^^^ i) 11

/-- `[w_{-8}, …, w_{131}]` (list index = i + 8) from the padded key -/
def prekeys (K256 : Nat) : List Nat :=
  (List.range 132).foldl (fun w i => w ++ [prekeyNext w i])
    ((List.range 8).map fun j => (K256 >>> (32 * j)) % 2 ^ 32)

/-- K_i = S_{(3-i) mod 8}(w_{4i}, w_{4i+1}, w_{4i+2}, w_{4i+3}) -/
def roundKey (w : List Nat) (i : Nat) : State :=
  applyBox (sbox ((3 + 40 - i) % 8)) ⟨w.getD (4 * i + 8) 0, w.getD (4 * i + 9) 0, w.getD (4 * i + 10) 0, w.getD (4 * i + 11) 0⟩

def roundKeys (klen K : Nat) : List State :=
  let w := prekeys (padKey klen K)
  (List.range 33).map (roundKey w)

def rk (ks : List State) (i : Nat) : State := ks.getD i ⟨0, 0, 0, 0⟩

/-- R_i -/
def round (ks : List State) (b : State) (i : Nat) : State :=
  lt (applyBox (sbox (i % 8)) (b.xor (rk ks i)))

def roundInv (ks : List State) (b : State) (i : Nat) : State :=
  (applyBox (sboxInv (i % 8)) (ltInv b)).xor (rk ks i)

def encState (ks : List State) (p : State) : State :=
  let b := (List.range 31).foldl (round ks) p
  (applyBox (sbox 7) (b.xor (rk ks 31))).xor (rk ks 32)

def decState (ks : List State) (c : State) : State :=
  let b := (applyBox (sboxInv 7) (c.xor (rk ks 32))).xor (rk ks 31)
  (List.range 31).reverse.foldl (roundInv ks) b

/-- the four words of a 128-bit number -/
def stateOfNat (x : Nat) : State :=
  ⟨x % 2 ^ 32, (x >>> 32) % 2 ^ 32, (x >>> 64) % 2 ^ 32, (x >>> 96) % 2 ^ 32⟩
def natOfState (s : State) : Nat := s.x0 ||| (s.x1 <<< 32) ||| (s.x2 <<< 64) ||| (s.x3 <<< 96)

/-- encryption of the 128-bit number `P` under the `klen`-bit key `K` -/
def encNat (klen K P : Nat) : Nat := natOfState (encState (roundKeys klen K) (stateOfNat P))
def decNat (klen K C : Nat) : Nat := natOfState (decState (roundKeys klen K) (stateOfNat C))

def leNat : List Nat → Nat
  | [] => 0
  | b :: bs => b % 256 + 256 * leNat bs
def leBytes : Nat → Nat → List Nat
  | 0, _ => []
  | k + 1, n => n % 256 :: leBytes k (n / 256)

/-- byte-string interface: key of 0..32 bytes, block of exactly 16 bytes; anything else is undefined (`none`) -/
def enc (key block : List Nat) : Option (List Nat) :=
  if key.length ≤ 32 ∧ block.length = 16 then some (leBytes 16 (encNat (8 * key.length) (leNat key) (leNat block)))
  else none
def dec (key block : List Nat) : Option (List Nat) :=
  if key.length ≤ 32 ∧ block.length = 16 then some (leBytes 16 (decNat (8 * key.length) (leNat key) (leNat block)))
  else none

/-! ### IP / FP of the standard formulation, by their generating rule -/
def ipSrc (j : Nat) : Nat := if j = 127 then 127 else (32 * j) % 127
def fpSrc (j : Nat) : Nat := if j = 127 then 127 else (4 * j) % 127
def IP (x : Nat) : Nat := ofBitFn 128 fun j => x.testBit (ipSrc j)
def FP (x : Nat) : Nat := ofBitFn 128 fun j => x.testBit (fpSrc j)

/-! ### rotation of a w-bit sequence (what `rol`/`ror` of crysp/utils/operators.py are meant to be) -/
/-- rotate left by n ≤ w: the bit at position j moves to position (j+n) mod w -/
def rolBits (w x n : Nat) : Nat := ofBitFn w fun j => x.testBit ((j + (w - n % w)) % w)
/-- rotate right by n ≤ w: the bit at position j+n (mod w) moves to position j -/
def rorBits (w x n : Nat) : Nat := ofBitFn w fun j => x.testBit ((j + n) % w)

end Spec.Serpent
