/-
  Spec.Fips202Eval — an EVALUATOR for Spec.Fips202 (not part of the transcription, nothing is trusted here).

  The step mappings of Spec.Fips202 are closures; composing 24 rounds of them re-reads every bit exponentially
  often.  Here the state array is written down after every round (its 25w bits packed into one natural number, bit
  w(5y+x)+z = A[x,y,z]) and read back from there, so that one round costs 25w evaluations of the literal `Rnd`.
  `Proofs.C04_Fips202.KECCAK_p_eval_eq` proves `KECCAK_p_eval b nr = KECCAK_p b nr` for every width; the known-answer
  examples and the driver evaluate Spec.Fips202 through this file.
-/
import Spec.Fips202
namespace Spec.Fips202.Eval
open Spec.Fips202

/-- the number whose bit i is X[i] -/
def natOfStr : Str → Nat
  | [] => 0
  | b :: bs => b.toNat + 2 * natOfStr bs

/-- the state array written down: bit w(5y+x)+z of the number is A[x,y,z] -/
def pack (w : Nat) (A : StateArray) : Nat := natOfStr (toStr w A)

/-- … and read back -/
def unpack (w : Nat) (n : Nat) : StateArray := fun x y z => n.testBit (w * (5 * y + x) + z)

/-- one round on the written-down state: the literal Rnd, evaluated at its 25w triples -/
def rndEval (w : Nat) (n : Nat) (ir : Int) : Nat := pack w (Rnd w (unpack w n) ir)

/-- Algorithm 7 with the state written down after every round -/
def KECCAK_p_eval (b nr : Nat) (S : Str) : Str :=
  let w := b / 25
  let l := Nat.log2 (b / 25)
  let n := pack w (toStateArray w S)
  let n := (List.range nr).foldl (fun (n : Nat) (k : Nat) => rndEval w n ((12 : Int) + 2 * l - nr + k)) n
  toStr w (unpack w n)

def KECCAK_eval (c : Nat) (N : Str) (d : Nat) : Str := SPONGE 1600 (KECCAK_p_eval 1600 24) pad10s1 (1600 - c) N d

/-- SHA3-n(M) = KECCAK[2n](M ‖ 01, n) -/
def SHA3_eval (n : Nat) (M : Str) : Str := KECCAK_eval (2 * n) (M ++ [false, true]) n

/-- SHAKEn(M, d) = KECCAK[2n](M ‖ 1111, d) -/
def SHAKE_eval (n : Nat) (M : Str) (d : Nat) : Str := KECCAK_eval (2 * n) (M ++ [true, true, true, true]) d

end Spec.Fips202.Eval
