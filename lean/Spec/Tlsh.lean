/-
  Spec.Tlsh — TLSH (J. Oliver, C. Cheng, Y. Chen, "TLSH - A Locality Sensitive Hash", 2013/14, and the Trend Micro
  reference implementation of that time), written on byte lists by POSITION, with none of the code's plumbing:
  no running object state, no window buffers; the bucket array is the histogram of all triplet hashes.

  * v_table: Pearson's permutation (CACM 33(6), 1990) as used by the reference.  There is no generating rule; the
    literal below is a snapshot (no independent copy exists in this offline image — said in LEVEL_NOTE), pinned
    here so that any later edit of the code's table is detected by `Proofs.C19.pearson_gen_eq_spec`.
  * b_mapping(salt,i,j,k) = v[v[v[v[0^salt]^i]^j]^k].
  * For every position e ≥ W-1 (W = sliding window size 4..8) with c_k = data[e-k]:
      checksum[0] = b_mapping(0, c_0, c_1, checksum[0]);  checksum[t] = b_mapping(checksum[t-1], c_0, c_1, checksum[t])
      for every reference triplet (salt, a, b) with b < W: bucket[b_mapping(salt, c_0, c_a, c_b)]++
  * No hash when len < 50, or len < 256 without the force option, or when too few of the first EFF_BUCKETS buckets
    are populated (48 buckets: fewer than 18; otherwise: at most half).
  * q1,q2,q3 = the order statistics number EFF/4, EFF/2, 3·EFF/4 (1-based) of the first EFF buckets.
  * header: checksum bytes, L = l_capturing(len) mod 256, Q = (q1·100/q3 mod 16, q2·100/q3 mod 16); body: 2 bits per
    bucket (3 if > q3, 2 if > q2, 1 if > q1, else 0), bucket 4i+j in bits 2j,2j+1 of byte i.
  * digest string: checksum bytes and L with nibbles swapped, then the byte q1·16+q2, then the body bytes in reverse
    order.
  `l_capturing` uses libm `log`; it is the parameter `lcap` here (see TRUSTED in tools/props/C19.py).  The quotients
  are integer floor divisions (the reference computes them in floating point; see Model/Tlsh.lean for exactness).
  Later reference versions (3.x/4.x) changed the 48-bucket mapping (v_table48); that variant is not formalised.
-/
namespace Spec.Tlsh

def vTable : List Nat :=
  [1, 87, 49, 12, 176, 178, 102, 166, 121, 193, 6, 84, 249, 230, 44, 163,
   14, 197, 213, 181, 161, 85, 218, 80, 64, 239, 24, 226, 236, 142, 38, 200,
   110, 177, 104, 103, 141, 253, 255, 50, 77, 101, 81, 18, 45, 96, 31, 222,
   25, 107, 190, 70, 86, 237, 240, 34, 72, 242, 20, 214, 244, 227, 149, 235,
   97, 234, 57, 22, 60, 250, 82, 175, 208, 5, 127, 199, 111, 62, 135, 248,
   174, 169, 211, 58, 66, 154, 106, 195, 245, 171, 17, 187, 182, 179, 0, 243,
   132, 56, 148, 75, 128, 133, 158, 100, 130, 126, 91, 13, 153, 246, 216, 219,
   119, 68, 223, 78, 83, 88, 201, 99, 122, 11, 92, 32, 136, 114, 52, 10,
   138, 30, 48, 183, 156, 35, 61, 26, 143, 74, 251, 94, 129, 162, 63, 152,
   170, 7, 115, 167, 241, 206, 3, 150, 55, 59, 151, 220, 90, 53, 23, 131,
   125, 173, 15, 238, 79, 95, 89, 16, 105, 137, 225, 224, 217, 160, 37, 123,
   118, 73, 2, 157, 46, 116, 9, 145, 134, 228, 207, 212, 202, 215, 69, 229,
   27, 188, 67, 124, 168, 252, 42, 4, 29, 108, 21, 247, 19, 205, 39, 203,
   233, 40, 186, 147, 198, 192, 155, 33, 164, 191, 98, 204, 165, 180, 117, 76,
   140, 36, 210, 172, 41, 54, 159, 8, 185, 232, 113, 196, 231, 47, 146, 120,
   51, 65, 28, 144, 254, 221, 93, 189, 194, 139, 112, 43, 71, 109, 184, 209]

def v (x : Nat) : Nat := vTable.getD x 0

def bMapping (salt i j k : Nat) : Nat := v (v (v (v (0 ^^^ salt) ^^^ i) ^^^ j) ^^^ k)

/-- (salt, a, b): the triplet (c_0, c_a, c_b) of the window ending at the current byte; compiled in for W > b -/
def refTriplets : List (Nat × Nat × Nat) :=
  [(2, 1, 2), (3, 1, 3), (5, 2, 3),
   (7, 2, 4), (11, 1, 4), (13, 3, 4),
   (17, 1, 5), (19, 2, 5), (23, 3, 5), (29, 4, 5),
   (31, 1, 6), (37, 2, 6), (41, 3, 6), (43, 4, 6), (47, 5, 6),
   (53, 1, 7), (59, 2, 7), (61, 3, 7), (67, 4, 7), (71, 5, 7), (73, 6, 7)]

def triplets (w : Nat) : List (Nat × Nat × Nat) := refTriplets.filter fun t => t.2.2 < w

/-- byte at position p (the byte string is held as an array only to make this access O(1) in the compiled driver) -/
def at' (data : Array Nat) (p : Nat) : Nat := data.getD p 0

/-- positions of the last byte of every full window -/
def ends (w : Nat) (data : Array Nat) : List Nat := (List.range data.size).filter fun e => w ≤ e + 1

/-- all triplet hashes of the input -/
def hashes (w : Nat) (data : Array Nat) : List Nat :=
  (ends w data).flatMap fun e =>
    (triplets w).map fun t => bMapping t.1 (at' data e) (at' data (e - t.2.1)) (at' data (e - t.2.2))

/-- the bucket array: bucket v = number of triplets hashing to v -/
def buckets (w : Nat) (data : Array Nat) : List Nat :=
  let hs := hashes w data
  (List.range 256).map fun b => hs.count b

/-- new value of checksum byte t -/
def ckNew (c0 c1 : Nat) (old : List Nat) : Nat → Nat
  | 0 => bMapping 0 c0 c1 (old.getD 0 0)
  | t + 1 => bMapping (ckNew c0 c1 old t) c0 c1 (old.getD (t + 1) 0)

def checksum (w chklen : Nat) (data : Array Nat) : List Nat :=
  (ends w data).foldl (fun ck e => (List.range chklen).map (ckNew (at' data e) (at' data (e - 1)) ck))
    (List.replicate chklen 0)

/-- k-th order statistic (0-based): the least element v with more than k elements ≤ v -/
def kth (l : List Nat) (k : Nat) : Nat :=
  ((l.filter fun x => k < (l.filter (· ≤ x)).length).min?).getD 0

def swapNibbles (b : Nat) : Nat := (b % 16) * 16 + b / 16 % 16

def tooFew (eff populated : Nat) : Bool := if eff = 48 then populated < 18 else populated ≤ eff / 2

def code (q1 q2 q3 x : Nat) : Nat := if x > q3 then 3 else if x > q2 then 2 else if x > q1 then 1 else 0

/-- the digest of `data` for EFF buckets, window W, checksum length; `none` = no hash -/
def tlsh (lcap : Nat → Nat) (eff w chklen : Nat) (data : List Nat) (force : Bool) : Option (List Nat) :=
  let n := data.length
  if n < 50 ∨ (force = false ∧ n < 256) then none else
  let bk := (buckets w data.toArray).take eff
  let populated := (bk.filter (0 < ·)).length
  if tooFew eff populated then none else
  let q1 := kth bk (eff / 4 - 1)
  let q2 := kth bk (eff / 2 - 1)
  let q3 := kth bk (3 * (eff / 4) - 1)
  let body := (List.range (eff / 4)).map fun m =>
    let i := eff / 4 - 1 - m
    code q1 q2 q3 (bk.getD (4 * i) 0) + 4 * code q1 q2 q3 (bk.getD (4 * i + 1) 0)
      + 16 * code q1 q2 q3 (bk.getD (4 * i + 2) 0) + 64 * code q1 q2 q3 (bk.getD (4 * i + 3) 0)
  some ((checksum w chklen data.toArray).map swapNibbles
        ++ [swapNibbles (lcap n % 256), (q1 * 100 / q3 % 16) * 16 + q2 * 100 / q3 % 16]
        ++ body)

/-- the digest as a function of the histogram alone: `bucket` = the 256 bucket counts, `ck` = the checksum bytes,
    `n` = the input length.  `tlsh` is `encode` of the input's histogram and checksum (`Proofs.C19.spec_tlsh_is_encode`);
    stated separately so that the header/body encoding — in particular the two quotients q·100/q3, exact integer
    floor divisions — can be compared with the code on bucket arrays that no hashed input is known to produce. -/
def encode (lcap : Nat → Nat) (eff : Nat) (bucket ck : List Nat) (n : Nat) (force : Bool) : Option (List Nat) :=
  if n < 50 ∨ (force = false ∧ n < 256) then none else
  let bk := bucket.take eff
  let populated := (bk.filter (0 < ·)).length
  if tooFew eff populated then none else
  let q1 := kth bk (eff / 4 - 1)
  let q2 := kth bk (eff / 2 - 1)
  let q3 := kth bk (3 * (eff / 4) - 1)
  let body := (List.range (eff / 4)).map fun m =>
    let i := eff / 4 - 1 - m
    code q1 q2 q3 (bk.getD (4 * i) 0) + 4 * code q1 q2 q3 (bk.getD (4 * i + 1) 0)
      + 16 * code q1 q2 q3 (bk.getD (4 * i + 2) 0) + 64 * code q1 q2 q3 (bk.getD (4 * i + 3) 0)
  some (ck.map swapNibbles
        ++ [swapNibbles (lcap n % 256), (q1 * 100 / q3 % 16) * 16 + q2 * 100 / q3 % 16]
        ++ body)

/-! ### distance between two digest strings of the same configuration (reference `totalDiff`) -/

def modDiff (x y r : Nat) : Nat :=
  let d := if x ≤ y then y - x else x - y
  min d (r - d)

/-- bit_pairs_diff_table, by its generating rule -/
def pairDiff (a b : Nat) : Nat :=
  let d := if a ≤ b then b - a else a - b
  if d = 3 then 6 else d

def byteDiff (x y : Nat) : Nat :=
  (List.range 4).foldl (fun s t => s + pairDiff (x / 4 ^ t % 4) (y / 4 ^ t % 4)) 0

def distance (chklen : Nat) (x y : List Nat) (lenDiff : Bool) : Nat :=
  let ck (d : List Nat) := d.take chklen
  let lv (d : List Nat) := swapNibbles (d.getD chklen 0)
  let qq (d : List Nat) := d.getD (chklen + 1) 0
  let body (d : List Nat) := d.drop (chklen + 2)
  let ld := modDiff (lv x) (lv y) 256
  let q1d := modDiff (qq x / 16) (qq y / 16) 16
  let q2d := modDiff (qq x % 16) (qq y % 16) 16
  (if lenDiff then (if ld ≤ 1 then ld else ld * 12) else 0)
  + (if q1d ≤ 1 then q1d else (q1d - 1) * 12)
  + (if q2d ≤ 1 then q2d else (q2d - 1) * 12)
  + (if ck x = ck y then 0 else 1)
  + (List.zipWith byteDiff (body x) (body y)).sum

end Spec.Tlsh
