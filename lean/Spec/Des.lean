/-
  Spec.Des — the Data Encryption Standard (FIPS PUB 46-3) and the Triple Data Encryption Algorithm with its three
  keying options (FIPS 46-3 / NIST SP 800-67), written on bit strings exactly as the standard numbers them:
  a block is b1 b2 … b64, b1 the leftmost bit = the most significant bit of the first byte; every table is the
  standard's 1-based table, typed from the standard.  Nothing here depends on the code under verification.
-/
namespace Spec.Des

/-- a bit string; index 0 is the standard's bit 1 -/
abbrev Bitstr := List Bool

/-- "the permuted input has bit `tbl[1]` of the input as its first bit, bit `tbl[2]` as its second bit, …" -/
def permute (tbl : List Nat) (x : Bitstr) : Bitstr := tbl.map fun i => x.getD (i - 1) false

/-- bit-by-bit addition modulo 2 -/
def xor (a b : Bitstr) : Bitstr := List.zipWith Bool.xor a b

/-- left rotation by n places -/
def rotl (n : Nat) (x : Bitstr) : Bitstr := x.drop n ++ x.take n

/-- the number a bit string denotes in base 2, leftmost bit most significant -/
def natOfBits (l : Bitstr) : Nat := l.foldl (fun a b => 2 * a + b.toNat) 0

/-- the w-bit base-2 representation of n, most significant bit first -/
def bitsOfNat (w n : Nat) : Bitstr := (List.range w).map fun i => n.testBit (w - 1 - i)

/-! ### Tables (FIPS 46-3) -/

def IP : List Nat :=
  [58, 50, 42, 34, 26, 18, 10, 2,
   60, 52, 44, 36, 28, 20, 12, 4,
   62, 54, 46, 38, 30, 22, 14, 6,
   64, 56, 48, 40, 32, 24, 16, 8,
   57, 49, 41, 33, 25, 17,  9, 1,
   59, 51, 43, 35, 27, 19, 11, 3,
   61, 53, 45, 37, 29, 21, 13, 5,
   63, 55, 47, 39, 31, 23, 15, 7]

def IPinv : List Nat :=
  [40, 8, 48, 16, 56, 24, 64, 32,
   39, 7, 47, 15, 55, 23, 63, 31,
   38, 6, 46, 14, 54, 22, 62, 30,
   37, 5, 45, 13, 53, 21, 61, 29,
   36, 4, 44, 12, 52, 20, 60, 28,
   35, 3, 43, 11, 51, 19, 59, 27,
   34, 2, 42, 10, 50, 18, 58, 26,
   33, 1, 41,  9, 49, 17, 57, 25]

/-- E bit-selection table -/
def E : List Nat :=
  [32,  1,  2,  3,  4,  5,
    4,  5,  6,  7,  8,  9,
    8,  9, 10, 11, 12, 13,
   12, 13, 14, 15, 16, 17,
   16, 17, 18, 19, 20, 21,
   20, 21, 22, 23, 24, 25,
   24, 25, 26, 27, 28, 29,
   28, 29, 30, 31, 32,  1]

def P : List Nat :=
  [16,  7, 20, 21,
   29, 12, 28, 17,
    1, 15, 23, 26,
    5, 18, 31, 10,
    2,  8, 24, 14,
   32, 27,  3,  9,
   19, 13, 30,  6,
   22, 11,  4, 25]

/-- permuted choice 1 -/
def PC1 : List Nat :=
  [57, 49, 41, 33, 25, 17,  9,
    1, 58, 50, 42, 34, 26, 18,
   10,  2, 59, 51, 43, 35, 27,
   19, 11,  3, 60, 52, 44, 36,
   63, 55, 47, 39, 31, 23, 15,
    7, 62, 54, 46, 38, 30, 22,
   14,  6, 61, 53, 45, 37, 29,
   21, 13,  5, 28, 20, 12,  4]

/-- permuted choice 2 -/
def PC2 : List Nat :=
  [14, 17, 11, 24,  1,  5,
    3, 28, 15,  6, 21, 10,
   23, 19, 12,  4, 26,  8,
   16,  7, 27, 20, 13,  2,
   41, 52, 31, 37, 47, 55,
   30, 40, 51, 45, 33, 48,
   44, 49, 39, 56, 34, 53,
   46, 42, 50, 36, 29, 32]

/-- number of left shifts in iteration 1..16 of the key schedule -/
def shifts : List Nat := [1, 1, 2, 2, 2, 2, 2, 2, 1, 2, 2, 2, 2, 2, 2, 1]

/-- the primitive functions S1 … S8: four rows (0..3) of sixteen columns (0..15) each -/
def Sboxes : List (List (List Nat)) :=
  [ -- S1
    [[14,  4, 13,  1,  2, 15, 11,  8,  3, 10,  6, 12,  5,  9,  0,  7],
     [ 0, 15,  7,  4, 14,  2, 13,  1, 10,  6, 12, 11,  9,  5,  3,  8],
     [ 4,  1, 14,  8, 13,  6,  2, 11, 15, 12,  9,  7,  3, 10,  5,  0],
     [15, 12,  8,  2,  4,  9,  1,  7,  5, 11,  3, 14, 10,  0,  6, 13]],
    -- S2
    [[15,  1,  8, 14,  6, 11,  3,  4,  9,  7,  2, 13, 12,  0,  5, 10],
     [ 3, 13,  4,  7, 15,  2,  8, 14, 12,  0,  1, 10,  6,  9, 11,  5],
     [ 0, 14,  7, 11, 10,  4, 13,  1,  5,  8, 12,  6,  9,  3,  2, 15],
     [13,  8, 10,  1,  3, 15,  4,  2, 11,  6,  7, 12,  0,  5, 14,  9]],
    -- S3
    [[10,  0,  9, 14,  6,  3, 15,  5,  1, 13, 12,  7, 11,  4,  2,  8],
     [13,  7,  0,  9,  3,  4,  6, 10,  2,  8,  5, 14, 12, 11, 15,  1],
     [13,  6,  4,  9,  8, 15,  3,  0, 11,  1,  2, 12,  5, 10, 14,  7],
     [ 1, 10, 13,  0,  6,  9,  8,  7,  4, 15, 14,  3, 11,  5,  2, 12]],
    -- S4
    [[ 7, 13, 14,  3,  0,  6,  9, 10,  1,  2,  8,  5, 11, 12,  4, 15],
     [13,  8, 11,  5,  6, 15,  0,  3,  4,  7,  2, 12,  1, 10, 14,  9],
     [10,  6,  9,  0, 12, 11,  7, 13, 15,  1,  3, 14,  5,  2,  8,  4],
     [ 3, 15,  0,  6, 10,  1, 13,  8,  9,  4,  5, 11, 12,  7,  2, 14]],
    -- S5
    [[ 2, 12,  4,  1,  7, 10, 11,  6,  8,  5,  3, 15, 13,  0, 14,  9],
     [14, 11,  2, 12,  4,  7, 13,  1,  5,  0, 15, 10,  3,  9,  8,  6],
     [ 4,  2,  1, 11, 10, 13,  7,  8, 15,  9, 12,  5,  6,  3,  0, 14],
     [11,  8, 12,  7,  1, 14,  2, 13,  6, 15,  0,  9, 10,  4,  5,  3]],
    -- S6
    [[12,  1, 10, 15,  9,  2,  6,  8,  0, 13,  3,  4, 14,  7,  5, 11],
     [10, 15,  4,  2,  7, 12,  9,  5,  6,  1, 13, 14,  0, 11,  3,  8],
     [ 9, 14, 15,  5,  2,  8, 12,  3,  7,  0,  4, 10,  1, 13, 11,  6],
     [ 4,  3,  2, 12,  9,  5, 15, 10, 11, 14,  1,  7,  6,  0,  8, 13]],
    -- S7
    [[ 4, 11,  2, 14, 15,  0,  8, 13,  3, 12,  9,  7,  5, 10,  6,  1],
     [13,  0, 11,  7,  4,  9,  1, 10, 14,  3,  5, 12,  2, 15,  8,  6],
     [ 1,  4, 11, 13, 12,  3,  7, 14, 10, 15,  6,  8,  0,  5,  9,  2],
     [ 6, 11, 13,  8,  1,  4, 10,  7,  9,  5,  0, 15, 14,  2,  3, 12]],
    -- S8
    [[13,  2,  8,  4,  6, 15, 11,  1, 10,  9,  3, 14,  5,  0, 12,  7],
     [ 1, 15, 13,  8, 10,  3,  7,  4, 12,  5,  6, 11,  0, 14,  9,  2],
     [ 7, 11,  4,  1,  9, 12, 14,  2,  0,  6, 10, 13, 15,  3,  5,  8],
     [ 2,  1, 14,  7,  4, 10,  8, 13, 15, 12,  9,  0,  3,  5,  6, 11]] ]

/-! ### The cipher function f -/

/-- `S_{n+1}(B)` for a 6-bit block B = b1…b6: row = b1 b6, column = b2 b3 b4 b5 (base 2), output 4 bits -/
def sbox (n : Nat) (b : Bitstr) : Bitstr :=
  let row := natOfBits [b.getD 0 false, b.getD 5 false]
  let col := natOfBits [b.getD 1 false, b.getD 2 false, b.getD 3 false, b.getD 4 false]
  bitsOfNat 4 (((Sboxes.getD n []).getD row []).getD col 0)

/-- `f(R,K) = P(S1(B1) S2(B2) … S8(B8))` where `B1…B8 = K ⊕ E(R)` -/
def f (R K : Bitstr) : Bitstr :=
  let B := xor K (permute E R)
  permute P ((List.range 8).flatMap fun n => sbox n ((B.drop (6 * n)).take 6))

/-! ### Key schedule: `C0 D0 = PC1(KEY)`, `Cn, Dn` = left shifts of `C(n-1), D(n-1)`, `Kn = PC2(Cn Dn)` -/

def ksFrom : List Nat → Bitstr → Bitstr → List Bitstr
  | [], _, _ => []
  | s :: ss, C, D =>
    let C' := rotl s C
    let D' := rotl s D
    permute PC2 (C' ++ D') :: ksFrom ss C' D'

/-- `[K1, …, K16]` -/
def keySchedule (key : Bitstr) : List Bitstr :=
  let cd := permute PC1 key
  ksFrom shifts (cd.take 28) (cd.drop 28)

/-! ### Enciphering / deciphering of one 64-bit block -/

/-- `L' = R, R' = L ⊕ f(R,K)` -/
def round (LR : Bitstr × Bitstr) (K : Bitstr) : Bitstr × Bitstr := (LR.2, xor LR.1 (f LR.2 K))

/-- IP, the 16 iterations with the given key order, the pre-output block `R16 L16`, IP⁻¹ -/
def cryptBits (ks : List Bitstr) (blk : Bitstr) : Bitstr :=
  let x := permute IP blk
  let LR := ks.foldl round (x.take 32, x.drop 32)
  permute IPinv (LR.2 ++ LR.1)

def encryptBits (key blk : Bitstr) : Bitstr := cryptBits (keySchedule key) blk
/-- deciphering: the same algorithm with K16 used first and K1 last -/
def decryptBits (key blk : Bitstr) : Bitstr := cryptBits (keySchedule key).reverse blk

/-! ### Bytes -/

def bytesToBits (bs : List Nat) : Bitstr := bs.flatMap (bitsOfNat 8)
def bitsToBytes (l : Bitstr) : List Nat :=
  (List.range (l.length / 8)).map fun i => natOfBits ((l.drop (8 * i)).take 8)

/-- DES is defined for 64-bit keys and 64-bit blocks only (`none` = not defined) -/
def enc (key blk : List Nat) : Option (List Nat) :=
  if key.length = 8 ∧ blk.length = 8 then some (bitsToBytes (encryptBits (bytesToBits key) (bytesToBits blk))) else none
def dec (key blk : List Nat) : Option (List Nat) :=
  if key.length = 8 ∧ blk.length = 8 then some (bitsToBytes (decryptBits (bytesToBits key) (bytesToBits blk))) else none

/-! ### TDEA (SP 800-67): key bundle (K1,K2,K3); `C = E_K3(D_K2(E_K1(P)))`, `P = D_K1(E_K2(D_K3(C)))` -/

/-- the three keying options -/
inductive Keying where
  | opt1 (k1 k2 k3 : List Nat)   -- three independent keys
  | opt2 (k1 k2 : List Nat)      -- K3 = K1
  | opt3 (k : List Nat)          -- K1 = K2 = K3

def Keying.bundle : Keying → List Nat × List Nat × List Nat
  | .opt1 k1 k2 k3 => (k1, k2, k3)
  | .opt2 k1 k2 => (k1, k2, k1)
  | .opt3 k => (k, k, k)

def tdeaEnc (ko : Keying) (blk : List Nat) : Option (List Nat) :=
  let (k1, k2, k3) := ko.bundle
  (enc k1 blk).bind fun a => (dec k2 a).bind fun b => enc k3 b

def tdeaDec (ko : Keying) (blk : List Nat) : Option (List Nat) :=
  let (k1, k2, k3) := ko.bundle
  (dec k3 blk).bind fun a => (enc k2 a).bind fun b => dec k1 b

/-- a TDEA key given as one string: 8 bytes = keying option 3, 16 bytes = option 2 (K1‖K2), 24 bytes = option 1
    (K1‖K2‖K3); no other length is a key bundle -/
def keyingOfString (k : List Nat) : Option Keying :=
  if k.length = 8 then some (.opt3 k)
  else if k.length = 16 then some (.opt2 (k.take 8) (k.drop 8))
  else if k.length = 24 then some (.opt1 (k.take 8) ((k.drop 8).take 8) (k.drop 16))
  else none

end Spec.Des
