/-
  Spec.Md6 — the MD6 hash function as defined in
     R. L. Rivest et al., "The MD6 hash function — a proposal to NIST for SHA-3" (2008), chapter 2.
  Written on `BitVec 64` words and byte lists; nothing here comes from crysp or from Model/Gen: the tables are
  typed from the report (Tables 2.1–2.3, §2.4–2.5).

  Parameters of the report fixed here: w = 64, n = 89, c = 16, b = 64, q = 15, k = 8, u = v = 1.
  A message of m bits is given as a byte string (first bit = most significant bit of the first byte, as in the
  reference implementation's `md6_update(…, databitlen)`) together with m.

  VALIDATION of this file (supporting evidence only): the three known answers of /repo/tests/test_md.py — which
  are the report's own examples — and the report's "abc", d = 256 digest; there is no independent executable
  MD6 in the image.
-/
namespace Spec.Md6

abbrev Word := BitVec 64

def n : Nat := 89      -- words of compression input
def c : Nat := 16      -- words of chaining value / compression output
def b : Nat := 64      -- data words per compression

/-- Q: the first 960 bits of the fractional part of √6 (report, Table 2.2 / appendix) -/
def Q : List Word :=
  [0x7311c2812425cfa0#64, 0x6432286434aac8e7#64, 0xb60450e9ef68b7c1#64,
   0xe8fb23908d9f06f1#64, 0xdd2e76cba691e5bf#64, 0x0cd0d63b2c30bc41#64,
   0x1f8ccf6823058f8a#64, 0x54e5ed5b88e3775d#64, 0x4ad12aae0a6d6031#64,
   0x3e7f16bb88222e0d#64, 0x8af8671d3fb50c2c#64, 0x995ad1178bd25c31#64,
   0xc878c1dd04c4b633#64, 0x3b72066c7a1552ac#64, 0x0d6f3522631effcb#64]

/-- the generating rule of Q: the 960-bit integer Q₀‖…‖Q₁₄ is ⌊frac(√6)·2^960⌋, i.e. with X = 2·2^960 + Q
    (√6 = 2.449…):  X² ≤ 6·2^1920 < (X+1)².  Checked in `Proofs.C17.Q_is_sqrt6`. -/
def Qint : Nat := Q.foldl (fun acc x => acc * 2 ^ 64 + x.toNat) 0
def QisSqrt6 : Prop :=
  let X := 2 * 2 ^ 960 + Qint
  X * X ≤ 6 * 2 ^ 1920 ∧ 6 * 2 ^ 1920 < (X + 1) * (X + 1)

/-- tap positions (report, Table 2.1 for n = 89) -/
def t0 : Nat := 17
def t1 : Nat := 18
def t2 : Nat := 21
def t3 : Nat := 31
def t4 : Nat := 67

/-- right and left shift amounts r_{i-n}, ℓ_{i-n} for (i-n) mod 16 = 0..15 (report, Table 2.3) -/
def rshift : List Nat := [10, 5, 13, 10, 11, 12, 2, 7, 14, 15, 7, 13, 11, 7, 6, 12]
def lshift : List Nat := [11, 24, 9, 16, 15, 9, 27, 15, 6, 2, 29, 8, 15, 5, 31, 9]

/-- round constants: S'₀ = 0x0123456789abcdef, S'_{j+1} = (S'_j <<< 1) ⊕ (S'_j ∧ S*), S* = 0x7311c2812425cfa0 -/
def S0 : Word := 0x0123456789abcdef#64
def Sstar : Word := 0x7311c2812425cfa0#64
def nextS (s : Word) : Word := s.rotateLeft 1 ^^^ (s &&& Sstar)
def Sr : Nat → Word
  | 0 => S0
  | j + 1 => nextS (Sr j)

/-- the value A[i] computed by loop step `s = i - n` (0 ≤ s mod 16 < 16 selects the shifts), i = A.size -/
def stepVal (S : Word) (s : Nat) (A : Array Word) : Word :=
  let i := A.size
  let x := S ^^^ A.getD (i - n) 0 ^^^ A.getD (i - t0) 0
  let x := x ^^^ (A.getD (i - t1) 0 &&& A.getD (i - t2) 0) ^^^ (A.getD (i - t3) 0 &&& A.getD (i - t4) 0)
  let x := x ^^^ (x >>> rshift.getD (s % 16) 0)
  x ^^^ (x <<< lshift.getD (s % 16) 0)

/-- one step of the loop `for i = n to n+t-1` (s = i - n): state = (A[0..i-1], S_{i-n}); the round constant changes
    after every 16th step -/
def step (st : Array Word × Word) (s : Nat) : Array Word × Word :=
  (st.1.push (stepVal st.2 s st.1), if s % 16 = 15 then nextS st.2 else st.2)

/-- the compression function f_r : W^89 → W^16 — r rounds of 16 steps; the last 16 words of A -/
def compress (r : Nat) (N : List Word) : List Word :=
  let A := ((List.range (16 * r)).foldl step (N.toArray, S0)).1
  A.toList.drop (A.size - c)

/-- the control word V = 0⁴ ‖ r¹² ‖ L⁸ ‖ z⁴ ‖ p¹⁶ ‖ keylen⁸ ‖ d¹² (most significant field first) -/
def V (r L z p keylen d : Nat) : Word :=
  (0#4 ++ BitVec.ofNat 12 r ++ BitVec.ofNat 8 L ++ BitVec.ofNat 4 z ++ BitVec.ofNat 16 p
    ++ BitVec.ofNat 8 keylen ++ BitVec.ofNat 12 d : BitVec 64)

/-- the unique node id U = ℓ⁸ ‖ i⁵⁶ (level, index within the level) -/
def U (level index : Nat) : Word := (BitVec.ofNat 8 level ++ BitVec.ofNat 56 index : BitVec 64)

/-! ### bytes ↔ words -/

def beWord (bs : List Nat) : Word := BitVec.ofNat 64 (bs.foldl (fun acc x => acc * 256 + x) 0)

/-- 8 bytes per word, big-endian (the byte count is a multiple of 8 wherever this is used) -/
def toWords : List Nat → List Word
  | b0 :: b1 :: b2 :: b3 :: b4 :: b5 :: b6 :: b7 :: rest => beWord [b0, b1, b2, b3, b4, b5, b6, b7] :: toWords rest
  | _ => []

def wordBytes (x : Word) : List Nat := (List.range 8).map fun i => (x.toNat / 256 ^ (7 - i)) % 256
def ofWords (ws : List Word) : List Nat := ws.flatMap wordBytes

/-- the first m bits of a byte string, as ⌈m/8⌉ bytes with the unused low bits of the last byte cleared -/
def takeBits (m : Nat) (bs : List Nat) : List Nat :=
  if m % 8 = 0 then bs.take (m / 8)
  else bs.take (m / 8) ++ [bs.getD (m / 8) 0 / 2 ^ (8 - m % 8) * 2 ^ (8 - m % 8)]

def zeroPad (len : Nat) (bs : List Nat) : List Nat := bs ++ List.replicate (len - bs.length) 0

/-- the key: keylen ≤ 64 bytes, zero-padded to k = 8 words -/
def keyWords (key : List Nat) : List Word := toWords (zeroPad 64 key)

/-- default number of rounds: r = 40 + ⌊d/4⌋, and at least 80 when a key is used -/
def defaultRounds (d keylen : Nat) : Nat := if keylen = 0 then 40 + d / 4 else max 80 (40 + d / 4)

/-- the parameters of one hash computation -/
structure Params where
  d : Nat
  key : List Nat
  L : Nat
  r : Nat

/-- number of blocks of `blockBits` bits for an m-bit input: j = max(1, ⌈m / blockBits⌉) -/
def numBlocks (blockBits m : Nat) : Nat := max 1 ((m + blockBits - 1) / blockBits)

/-- block i (of `blockBits/8` bytes) of the m-bit message zero-padded to j blocks -/
def block (blockBits : Nat) (M : List Nat) (m : Nat) (i : Nat) : List Nat :=
  let j := numBlocks blockBits m
  ((zeroPad (j * (blockBits / 8)) (takeBits m M)).drop (i * (blockBits / 8))).take (blockBits / 8)

/-- PAR at level ℓ: j = max(1,⌈m/4096⌉) independent compressions of Q ‖ K ‖ U ‖ V ‖ B_i; z = 1 iff j = 1;
    p = number of padding bits of B_i (non-zero for the last block only). Result: j·16 words. -/
def par (P : Params) (level : Nat) (M : List Nat) (m : Nat) : List Word :=
  let j := numBlocks 4096 m
  let z := if j = 1 then 1 else 0
  (List.range j).flatMap fun i =>
    let p := if i = j - 1 then j * 4096 - m else 0
    compress P.r (Q ++ keyWords P.key ++ [U level i] ++ [V P.r P.L z p P.key.length P.d]
                    ++ toWords (block 4096 M m i))

/-- SEQ (level L+1): j = max(1,⌈m/3072⌉) chained compressions of Q ‖ K ‖ U ‖ V ‖ C_{i-1} ‖ B_i with C_{-1} = 0;
    z = 1 and p = padding bits for the last block only. Result: C_{j-1}. -/
def seq (P : Params) (M : List Nat) (m : Nat) : List Word :=
  let j := numBlocks 3072 m
  (List.range j).foldl (fun C i =>
    let last := i = j - 1
    let p := if last then j * 3072 - m else 0
    let z := if last then 1 else 0
    compress P.r (Q ++ keyWords P.key ++ [U (P.L + 1) i] ++ [V P.r P.L z p P.key.length P.d]
                    ++ C ++ toWords (block 3072 M m i))) (List.replicate c (0 : Word))

/-- the last d bits of the final 1024-bit chaining value, as ⌈d/8⌉ bytes, left-aligned (unused low bits of the
    last byte zero) -/
def chop (d : Nat) (C : List Word) : List Nat :=
  let h := (ofWords C).foldl (fun acc x => acc * 256 + x) 0        -- the chaining value as a 1024-bit integer
  let nb := (d + 7) / 8
  let v := (h % 2 ^ d) * 2 ^ (8 * nb - d)
  (List.range nb).map fun i => (v / 256 ^ (nb - 1 - i)) % 256

/-- the level loop: ℓ = 1, 2, …: if ℓ = L+1, finish with SEQ; else M_ℓ = PAR(M_{ℓ-1}); stop when one chaining
    value (1024 bits) is left.  Every PAR level shrinks a message of more than one block, so the number of
    iterations is bounded by the byte length; `fuel` = that bound (the default `[]` is never produced:
    `Proofs.C17.spec_root_is_one_chaining_value`). -/
def levels (P : Params) : Nat → Nat → List Nat → Nat → List Word
  | 0, _, _, _ => []
  | fuel + 1, level, M, m =>
    if level = P.L + 1 then seq P M m
    else
      let C := par P level M m
      if C.length = c then C else levels P fuel (level + 1) (ofWords C) (64 * C.length)

/-- MD6 of the first m bits of M -/
def md6 (P : Params) (M : List Nat) (m : Nat) : List Nat :=
  chop P.d (levels P (M.length + 1) 1 M m)

end Spec.Md6
