/-
  Spec.Padding — the padding rules of the standards, on plain bit lists (`List Bool`, first bit first) and byte
  lists (`List Nat`, each < 256; a byte's most significant bit is its first bit on the wire).  Nothing of the
  code's plumbing (no `Bits` objects, no iterator, no counters) is used here.

    zero      ISO/IEC 9797-1 padding method 1: the fewest 0 bits such that the length becomes a *positive*
              multiple of the block size B
    bit       ISO/IEC 9797-1 method 2 = ISO/IEC 7816-4: a 1 bit, then the fewest 0 bits to a multiple of B
              (a whole extra block when the data is already aligned)
    pkcs7     RFC 5652 §6.3: q bytes of value q, q = k − (|M| mod k), k = B/8 < 256
    x923      ANSI X9.23: q−1 zero bytes then one byte of value q, same q
    md        RFC 1320/1321 §3.1–3.2: a 1 bit, the fewest 0 bits to a length ≡ B − 2w (mod B), then the 2w-bit
              length of the message, least significant byte first (only its low 2w bits are used)
    sha       FIPS 180-4 §5.1: the same with the length most significant bit first
    blake     BLAKE submission §2.1.3/§2.2.3: a 1 bit, the fewest 0 bits to ≡ B − 2w − 1, then a 1 bit for
              BLAKE-256/512 and a 0 bit for BLAKE-224/384, then the 2w-bit big-endian length
-/
namespace Spec.Padding

def zeros (n : Nat) : List Bool := List.replicate n false

/-- the fewest z ≥ 0 with `B ∣ len + z` -/
def fill (B len : Nat) : Nat := (B - len % B) % B

/-- bits of a byte, most significant first -/
def byteBits (b : Nat) : List Bool := (List.range 8).map fun j => b.testBit (7 - j)

def bytesToBits (m : List Nat) : List Bool := m.flatMap byteBits

/-- value of at most 8 bits read most significant first, missing low bits are 0 -/
def byteOfBits (bs : List Bool) : Nat :=
  (List.range 8).foldl (fun acc j => 2 * acc + (bs.getD j false).toNat) 0

/-- bit string to bytes: consecutive groups of 8 bits, the last byte zero-filled -/
def bitsToBytes (bs : List Bool) : List Nat :=
  (List.range ((bs.length + 7) / 8)).map fun k => byteOfBits ((bs.drop (8 * k)).take 8)

/-- n-bit big-endian representation of `v mod 2^n` (most significant bit first) -/
def lenBE (n v : Nat) : List Bool := (List.range n).map fun i => v.testBit (n - 1 - i)

/-- n-bit representation of `v mod 2^n`, least significant *byte* first, each byte most significant bit first
    (n a multiple of 8) -/
def lenLE (n v : Nat) : List Bool := (List.range n).map fun i => v.testBit (8 * (i / 8) + (7 - i % 8))

def zeroPad (B : Nat) (bits : List Bool) : List Bool :=
  bits ++ zeros (if bits.length = 0 then B else fill B bits.length)

def bitPad (B : Nat) (bits : List Bool) : List Bool :=
  bits ++ [true] ++ zeros (fill B (bits.length + 1))

def mdPad (B w : Nat) (bits : List Bool) : List Bool :=
  bits ++ [true] ++ zeros (fill B (bits.length + 1 + 2 * w)) ++ lenLE (2 * w) bits.length

def shaPad (B w : Nat) (bits : List Bool) : List Bool :=
  bits ++ [true] ++ zeros (fill B (bits.length + 1 + 2 * w)) ++ lenBE (2 * w) bits.length

/-- word size and block size of BLAKE-h -/
def blakeW (h : Nat) : Nat := if h > 256 then 64 else 32
def blakeB (h : Nat) : Nat := if h > 256 then 1024 else 512

def blakePad (h : Nat) (bits : List Bool) : List Bool :=
  bits ++ [true] ++ zeros (fill (blakeB h) (bits.length + 2 + 2 * blakeW h))
    ++ [decide (h = 256 ∨ h = 512)] ++ lenBE (2 * blakeW h) bits.length

/-- number of pad bytes of PKCS#7 / X9.23 for a message of `n` bytes and blocks of `k` bytes: 1 ≤ q ≤ k -/
def padLen (k n : Nat) : Nat := k - n % k

def pkcs7Pad (k : Nat) (m : List Nat) : List Nat := m ++ List.replicate (padLen k m.length) (padLen k m.length)

def x923Pad (k : Nat) (m : List Nat) : List Nat :=
  m ++ List.replicate (padLen k m.length - 1) 0 ++ [padLen k m.length]

/-- a byte string ends in a PKCS#7 pad for blocks of k bytes -/
def pkcs7WellPadded (k : Nat) (c : List Nat) : Prop :=
  ∃ q, c.getLast? = some q ∧ 1 ≤ q ∧ q ≤ k ∧ q ≤ c.length ∧ c.drop (c.length - q) = List.replicate q q

/-- a byte string ends in an X9.23 pad for blocks of k bytes -/
def x923WellPadded (k : Nat) (c : List Nat) : Prop :=
  ∃ q, c.getLast? = some q ∧ 1 ≤ q ∧ q ≤ k ∧ q ≤ c.length ∧
    c.drop (c.length - q) = List.replicate (q - 1) 0 ++ [q]

/-- removing the pad: the string without its last q bytes, q its last byte; `none` when it is not well padded -/
def pkcs7Unpad (k : Nat) (c : List Nat) : Option (List Nat) :=
  match c.getLast? with
  | none => none
  | some q =>
    if 1 ≤ q ∧ q ≤ k ∧ q ≤ c.length ∧ c.drop (c.length - q) = List.replicate q q
    then some (c.take (c.length - q)) else none

def x923Unpad (k : Nat) (c : List Nat) : Option (List Nat) :=
  match c.getLast? with
  | none => none
  | some q =>
    if 1 ≤ q ∧ q ≤ k ∧ q ≤ c.length ∧ c.drop (c.length - q) = List.replicate (q - 1) 0 ++ [q]
    then some (c.take (c.length - q)) else none

/-- the schemes of the property -/
inductive Scheme
  | no | zero | bit | pkcs7 | x923
  | md (w : Nat) | sha (w : Nat) | blake (h : Nat)
deriving Repr, DecidableEq

/-- block size in bits the scheme works with (BLAKE fixes its own) -/
def Scheme.blockBits (s : Scheme) (B : Nat) : Nat :=
  match s with
  | .blake h => blakeB h
  | _ => B

/-- the padded bit string of the first `bits` of a message, block size B bits -/
def pad (s : Scheme) (B : Nat) (bits : List Bool) : List Bool :=
  match s with
  | .no => bits
  | .zero => zeroPad B bits
  | .bit => bitPad B bits
  | .pkcs7 => bytesToBits (pkcs7Pad (B / 8) (bitsToBytes bits))
  | .x923 => bytesToBits (x923Pad (B / 8) (bitsToBytes bits))
  | .md w => mdPad B w bits
  | .sha w => shaPad B w bits
  | .blake h => blakePad h bits

/-- the first L bits of a byte string -/
def takeBits (L : Nat) (m : List Nat) : List Bool := (bytesToBits m).take L

/-- what the property expects as the concatenation of the emitted blocks -/
def padBytes (s : Scheme) (B : Nat) (m : List Nat) (L : Nat) : List Nat :=
  bitsToBytes (pad s B (takeBits L m))

/-- the original message as bytes: first L bits, last partial byte zero-filled -/
def msgBytes (m : List Nat) (L : Nat) : List Nat := bitsToBytes (takeBits L m)

end Spec.Padding
