/-
  Spec.Keccak — FIPS 202 (SHA-3 standard) and the Keccak reference ("The Keccak reference" v3.0,
  "Cryptographic sponge functions" v0.1), written on bit strings (`List Bool`, index 0 first) and on 25 lanes of
  w bits (`BitVec w`, bit z of lane (x,y) = A[x,y,z]; lane index x+5y), independently of crysp's plumbing.

  * rc(t): the LFSR of FIPS 202 Algorithm 5; RC[ir] by Algorithm 6 step 2-3 (bit 2^j−1 := rc(j+7·ir)).
  * ρ offsets: the walk of Algorithm 2, (t+1)(t+2)/2 at the t-th point of (x,y) ← (y,(2x+3y) mod 5) from (1,0).
  * θ ρ π χ ι at lane level (the Keccak team's pseudo-code form of FIPS 202 §3.2: a shift of the z coordinate by k
    is a rotation of the lane by k; the bit-level ⇔ lane-level equivalence is the cited, standard reading).
  * Keccak-p[25w, nr], Keccak-f[25w] = Keccak-p[25w, 12+2ℓ]; strings ⇔ state arrays (§3.1.2, §3.1.3).
  * pad10*1 (Algorithm 9), SPONGE[f,pad,r](N,d) (Algorithm 8), the duplex construction (CSF Algorithm 4),
    KECCAK[c], SHA3-n(M) = KECCAK[2n](M‖01, n), SHAKEn(M,d) = KECCAK[2n](M‖1111, d) (§6), bytes ⇔ bits (B.1).
  Imports nothing outside core Lean.
-/
namespace Spec.Keccak

/-- n-fold application -/
def iter {α} (g : α → α) : Nat → α → α
  | 0, a => a
  | n + 1, a => iter g n (g a)

/-! ### round constants (Algorithms 5 and 6) -/

def xorAt (R : List Bool) (i : Nat) (v : Bool) : List Bool := R.set i (R.getD i false != v)

/-- Algorithm 5 step 3: R = 0‖R; R[0]⊕=R[8]; R[4]⊕=R[8]; R[5]⊕=R[8]; R[6]⊕=R[8]; R = Trunc8[R] -/
def lfsrStep (R : List Bool) : List Bool :=
  let R := false :: R
  let r8 := R.getD 8 false
  (xorAt (xorAt (xorAt (xorAt R 0 r8) 4 r8) 5 r8) 6 r8).take 8

/-- Algorithm 5: rc(t) -/
def rc (t : Nat) : Bool :=
  if t % 255 = 0 then true
  else (iter lfsrStep (t % 255) [true, false, false, false, false, false, false, false]).getD 0 false

/-- rc(0), …, rc(254) computed once (rc has period 255); only an evaluation cache for `RC` -/
def rcCache : Array Bool := Array.ofFn (n := 255) fun t => rc t.val

/-- Algorithm 6 steps 2–3: RC = 0^w; for j from 0 to ℓ: RC[2^j − 1] = rc(j + 7·ir)   (w = 2^ℓ) -/
def RC (w ir : Nat) : BitVec w :=
  (List.range (Nat.log2 w + 1)).foldl
    (fun acc j => if rcCache.getD ((j + 7 * ir) % 255) false then acc ||| BitVec.twoPow w (2 ^ j - 1) else acc) 0

/-! ### ρ offsets (Algorithm 2) -/

/-- offsets by the walk: (x,y) = (1,0); for t = 0..23: off[x,y] = (t+1)(t+2)/2; (x,y) = (y,(2x+3y) mod 5).
    Index x+5y; the lane (0,0) keeps offset 0. -/
def rhoTable : List Nat :=
  ((List.range 24).foldl
    (fun (st : (Nat × Nat) × List Nat) t =>
      let x := st.1.1
      let y := st.1.2
      ((y, (2 * x + 3 * y) % 5), st.2.set (x + 5 * y) ((t + 1) * (t + 2) / 2)))
    ((1, 0), List.replicate 25 0)).2

def rhoOffset (x y : Nat) : Nat := rhoTable.getD (x % 5 + 5 * (y % 5)) 0

/-! ### the state array and the step mappings -/

abbrev State (w : Nat) := Vector (BitVec w) 25

def lane {w} (A : State w) (x y : Nat) : BitVec w := A[x % 5 + 5 * (y % 5)]'(by omega)

/-- the state array with lane (x,y) = g x y -/
def mkState {w} (g : Nat → Nat → BitVec w) : State w := Vector.ofFn fun i => g (i.val % 5) (i.val / 5)

/-- θ: C[x] = ⊕_y A[x,y]; D[x] = C[x−1] ⊕ ROT(C[x+1],1); A′[x,y] = A[x,y] ⊕ D[x] -/
def theta {w} (A : State w) : State w :=
  let C := fun x => lane A x 0 ^^^ lane A x 1 ^^^ lane A x 2 ^^^ lane A x 3 ^^^ lane A x 4
  let D := fun x => C ((x + 4) % 5) ^^^ (C ((x + 1) % 5)).rotateLeft 1
  mkState fun x y => lane A x y ^^^ D x

/-- ρ: A′[x,y,z] = A[x,y,(z − off(x,y)) mod w] -/
def rho {w} (A : State w) : State w := mkState fun x y => (lane A x y).rotateLeft (rhoOffset x y)

/-- π: A′[x,y] = A[(x+3y) mod 5, x] -/
def pi {w} (A : State w) : State w := mkState fun x y => lane A ((x + 3 * y) % 5) x

/-- χ: A′[x,y] = A[x,y] ⊕ ((A[x+1,y] ⊕ 1) · A[x+2,y]) -/
def chi {w} (A : State w) : State w :=
  mkState fun x y => lane A x y ^^^ (~~~ lane A (x + 1) y &&& lane A (x + 2) y)

/-- ι: A′[0,0] = A[0,0] ⊕ RC[ir] -/
def iota {w} (A : State w) (ir : Nat) : State w :=
  mkState fun x y => if x = 0 ∧ y = 0 then lane A 0 0 ^^^ RC w ir else lane A x y

/-- Rnd(A,ir) = ι(χ(π(ρ(θ(A)))),ir) -/
def rnd {w} (A : State w) (ir : Nat) : State w := iota (chi (pi (rho (theta A)))) ir

/-- Keccak-p[25w,nr] on the state array: rounds ir = 12+2ℓ−nr … 12+2ℓ−1 -/
def keccakP (w nr : Nat) (A : State w) : State w :=
  (List.range nr).foldl (fun A i => rnd A (12 + 2 * Nat.log2 w - nr + i)) A

def nRounds (w : Nat) : Nat := 12 + 2 * Nat.log2 w

/-- Keccak-f[25w] = Keccak-p[25w, 12+2ℓ] -/
def keccakF (w : Nat) (A : State w) : State w := keccakP w (nRounds w) A

/-! ### strings ⇔ state arrays (§3.1.2, §3.1.3): A[x,y,z] = S[w(5y+x)+z] -/

def bitsToNat : List Bool → Nat
  | [] => 0
  | b :: bs => b.toNat + 2 * bitsToNat bs

def stateOfString (w : Nat) (S : List Bool) : State w :=
  Vector.ofFn fun i => BitVec.ofNat w (bitsToNat ((S.drop (w * i.val)).take w))

def stringOfState {w} (A : State w) : List Bool :=
  A.toList.flatMap fun l => (List.range w).map l.getLsbD

/-- Keccak-f[25w] on strings of length b = 25w -/
def fString (w : Nat) (S : List Bool) : List Bool := stringOfState (keccakF w (stateOfString w S))

/-! ### pad10*1, sponge, duplex -/

/-- Algorithm 9: j = (−m−2) mod x; P = 1‖0^j‖1 -/
def pad101 (x m : Nat) : List Bool := true :: (List.replicate ((x - (m + 2) % x) % x) false ++ [true])

/-- consecutive r-bit pieces of a string whose length is a multiple of r (r ≥ 1) -/
def chunksOf {α} (r : Nat) (l : List α) : List (List α) := go l.length l
where
  go : Nat → List α → List (List α)
    | 0, _ => []
    | n + 1, l => if l.isEmpty then [] else l.take r :: go n (l.drop r)

def xorString (S P : List Bool) : List Bool := List.zipWith (fun a b => a != b) S P

/-- Algorithm 8 step 6: S = f(S ⊕ (P_i‖0^c)) -/
def absorbBlock (f : List Bool → List Bool) (b r : Nat) (S P : List Bool) : List Bool :=
  f (xorString S (P ++ List.replicate (b - r) false))

/-- Algorithm 8 steps 7–10: Z = Trunc_r(S) ‖ Trunc_r(f(S)) ‖ … (k pieces) -/
def squeezeBlocks (f : List Bool → List Bool) (r : Nat) : Nat → List Bool → List Bool
  | 0, _ => []
  | 1, S => S.take r
  | k + 2, S => S.take r ++ squeezeBlocks f r (k + 1) (f S)

/-- Algorithm 8: SPONGE[f,pad10*1,r](N,d) for a permutation f on strings of length b -/
def sponge (f : List Bool → List Bool) (b r : Nat) (N : List Bool) (d : Nat) : List Bool :=
  let P := N ++ pad101 r N.length
  let S := (chunksOf r P).foldl (absorbBlock f b r) (List.replicate b false)
  (squeezeBlocks f r ((d + r - 1) / r) S).take d

/-- the Keccak sponge with width b = 25w and rate r -/
def keccak (w r : Nat) (N : List Bool) (d : Nat) : List Bool := sponge (fString w) (25 * w) r N d

/-- DUPLEX[f,pad10*1,r] (CSF Algorithm 4): one duplexing call on state s; defined for |σ| ≤ r−2 and ℓ ≤ r.
    Returns the new state and the ℓ output bits. -/
def duplexing (f : List Bool → List Bool) (b r : Nat) (s σ : List Bool) (l : Nat) : Option (List Bool × List Bool) :=
  if σ.length + 2 ≤ r ∧ l ≤ r then
    let s' := absorbBlock f b r s (σ ++ pad101 r σ.length)
    some (s', s'.take l)
  else none

/-- a sequence of duplexing calls from the all-zero state; a call outside the domain leaves the state unchanged -/
def duplexSeq (f : List Bool → List Bool) (b r : Nat) (s : List Bool) : List (List Bool × Nat) → List (Option (List Bool))
  | [] => []
  | (σ, l) :: rest =>
    match duplexing f b r s σ l with
    | some (s', z) => some z :: duplexSeq f b r s' rest
    | none => none :: duplexSeq f b r s rest

/-! ### bytes ⇔ bits (FIPS 202 B.1) and the SHA-3 functions (§6) -/

/-- h2b: every byte contributes its bits least significant first -/
def bitsOfBytes (M : List Nat) : List Bool := M.flatMap fun b => (List.range 8).map b.testBit

/-- b2h: 8 bits per byte, least significant first; a final partial byte is completed with zeros -/
def bytesOfBits (Z : List Bool) : List Nat := (chunksOf 8 Z).map bitsToNat

/-- message bits, native (Keccak, LSB-first) convention: the first L bits of h2b(M) -/
def msgBitsLSB (M : List Nat) (L : Nat) : List Bool := (bitsOfBytes M).take L

/-- message bits, NIST (SHA-3 competition) convention, Keccak submission §6.1: full bytes as above; the k = L mod 8
    bits of a final partial byte sit in its k most significant positions and are the number `byte >> (8−k)` read
    least significant bit first -/
def msgBitsNIST (M : List Nat) (L : Nat) : List Bool :=
  bitsOfBytes (M.take (L / 8)) ++ (List.range (L % 8)).map fun j => (M.getD (L / 8) 0 >>> (8 - L % 8)).testBit j

/-- KECCAK[c](N,d) = SPONGE[Keccak-p[1600,24],pad10*1,1600−c](N,d) -/
def keccakC (c : Nat) (N : List Bool) (d : Nat) : List Bool := keccak 64 (1600 - c) N d

/-- SHA3-n(M) = KECCAK[2n](M‖01, n) -/
def sha3 (n : Nat) (M : List Nat) : List Nat := bytesOfBits (keccakC (2 * n) (bitsOfBytes M ++ [false, true]) n)

/-- SHAKEn(M,d) = KECCAK[2n](M‖1111, d) -/
def shake (n : Nat) (M : List Nat) (d : Nat) : List Nat :=
  bytesOfBits (keccakC (2 * n) (bitsOfBytes M ++ [true, true, true, true]) d)

end Spec.Keccak
