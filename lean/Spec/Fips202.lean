/-
  Spec.Fips202 — FIPS PUB 202 (SHA-3 Standard: Permutation-Based Hash and Extendable-Output Functions, August 2015)
  transcribed LITERALLY, at the level the standard itself is written: bit strings and the state array of bits
  A[x,y,z] ∈ {0,1}, 0 ≤ x,y < 5, 0 ≤ z < w.  Nothing here is shared with Spec.Keccak (the lane-level rendering),
  with the models or with anything regenerated from the library; only core Lean is imported.

  Conventions of the transcription
  * a bit string is a `List Bool` (index 0 first);  X[i] = `X.getD i false`;  X ‖ Y = `X ++ Y`;  0^s = `zeros s`;
    Trunc_s(X) = `Trunc s X`;  X ⊕ Y (equal lengths) = `xorStr X Y`;  len(X) = `X.length`            (§2.3)
  * a state array is a function `Nat → Nat → Nat → Bool` (x, y, z ↦ A[x,y,z]); only its values at 0 ≤ x,y < 5,
    0 ≤ z < w are ever read                                                                        (§3.1)
  * "x mod a" is `mod x a` on an INTEGER x (so that (x−1) mod 5, (z−1) mod w, (−m−2) mod x mean what the
    standard means); a natural number written where an integer is expected is coerced by Lean     (§2.3)
  * "For all triples (x,y,z) … let A′[x,y,z] = e" is `fun x y z => e`;  "for i from a to b" is a left fold over
    the indices a, a+1, …, b in that order
  * the round index ir is an integer (Algorithm 7 lets it start at 12+2ℓ−nr, negative when nr > 12+2ℓ)
  * ℓ = log2(b/25) = log2 w (Table 1)
  Every function is total; what the standard leaves undefined (an index beyond a string, the squeezing loop for
  r = 0) gets an arbitrary value that no theorem relies on.

  Step mappings written as closures are not meant to be run through 24 rounds (every A′[x,y,z] re-reads its
  arguments); Spec/Fips202Eval.lean gives an evaluator proved equal to `KECCAK_p` (Proofs.C04_Fips202).
-/
namespace Spec.Fips202

/-! ## §2.3 Basic operations and functions -/

abbrev Str := List Bool

/-- 0^s : the string of s consecutive 0s -/
def zeros (s : Nat) : Str := List.replicate s false

/-- Trunc_s(X) : the string comprised of X[0] through X[s−1] -/
def Trunc (s : Nat) (X : Str) : Str := X.take s

/-- X ⊕ Y for strings of equal length: the bitwise exclusive-or -/
def xorStr (X Y : Str) : Str := List.zipWith (fun a b => a ^^ b) X Y

/-- x mod a : for an integer x and a positive integer a, the integer y, 0 ≤ y < a, such that x − y is a multiple of a -/
def mod (x : Int) (a : Nat) : Nat := (x % (a : Int)).toNat

/-! ## §3.1 State; §3.1.2 strings → state arrays; §3.1.3 state arrays → strings -/

abbrev StateArray := Nat → Nat → Nat → Bool

/-- §3.1.2: for all triples (x,y,z) such that 0 ≤ x < 5, 0 ≤ y < 5, 0 ≤ z < w:  A[x,y,z] = S[w(5y+x)+z] -/
def toStateArray (w : Nat) (S : Str) : StateArray := fun x y z => S.getD (w * (5 * y + x) + z) false

/-- §3.1.3: Lane(i,j) = A[i,j,0] ‖ A[i,j,1] ‖ … ‖ A[i,j,w−1] -/
def Lane (w : Nat) (A : StateArray) (i j : Nat) : Str := (List.range w).map fun z => A i j z

/-- §3.1.3: Plane(j) = Lane(0,j) ‖ Lane(1,j) ‖ Lane(2,j) ‖ Lane(3,j) ‖ Lane(4,j) -/
def Plane (w : Nat) (A : StateArray) (j : Nat) : Str :=
  Lane w A 0 j ++ Lane w A 1 j ++ Lane w A 2 j ++ Lane w A 3 j ++ Lane w A 4 j

/-- §3.1.3: S = Plane(0) ‖ Plane(1) ‖ Plane(2) ‖ Plane(3) ‖ Plane(4) -/
def toStr (w : Nat) (A : StateArray) : Str :=
  Plane w A 0 ++ Plane w A 1 ++ Plane w A 2 ++ Plane w A 3 ++ Plane w A 4

/-! ## §3.2 Step mappings -/

/-- Algorithm 1: θ(A)
    1. For all pairs (x,z) such that 0 ≤ x < 5 and 0 ≤ z < w, let
         C[x,z] = A[x,0,z] ⊕ A[x,1,z] ⊕ A[x,2,z] ⊕ A[x,3,z] ⊕ A[x,4,z].
    2. For all pairs (x,z) such that 0 ≤ x < 5 and 0 ≤ z < w, let
         D[x,z] = C[(x−1) mod 5, z] ⊕ C[(x+1) mod 5, (z−1) mod w].
    3. For all triples (x,y,z) such that 0 ≤ x < 5, 0 ≤ y < 5 and 0 ≤ z < w, let A′[x,y,z] = A[x,y,z] ⊕ D[x,z]. -/
def theta (w : Nat) (A : StateArray) : StateArray :=
  let C := fun (x z : Nat) => A x 0 z ^^ A x 1 z ^^ A x 2 z ^^ A x 3 z ^^ A x 4 z
  let D := fun (x z : Nat) => C (mod (x - 1) 5) z ^^ C (mod (x + 1) 5) (mod (z - 1) w)
  fun x y z => A x y z ^^ D x z

/-- Algorithm 2: ρ(A)
    1. For all z such that 0 ≤ z < w, let A′[0,0,z] = A[0,0,z].
    2. Let (x,y) = (1,0).
    3. For t from 0 to 23:
         a. for all z such that 0 ≤ z < w, let A′[x,y,z] = A[x,y,(z − (t+1)(t+2)/2) mod w];
         b. let (x,y) = (y, (2x+3y) mod 5).
    4. Return A′.
    (an entry of A′ not yet assigned reads 0; the walk assigns all 24 lanes other than (0,0)) -/
def rho (w : Nat) (A : StateArray) : StateArray :=
  let A' : StateArray := fun x y z => if x = 0 ∧ y = 0 then A 0 0 z else false
  let xy : Nat × Nat := (1, 0)
  let loop := (List.range 24).foldl
    (fun (st : (Nat × Nat) × StateArray) (t : Nat) =>
      let x := st.1.1
      let y := st.1.2
      let A' := st.2
      let A'' : StateArray := fun x' y' z =>
        if x' = x ∧ y' = y then A x y (mod (z - (t + 1) * (t + 2) / 2) w) else A' x' y' z
      ((y, mod (2 * x + 3 * y) 5), A''))
    (xy, A')
  loop.2

/-- Algorithm 3: π(A)
    1. For all triples (x,y,z) such that 0 ≤ x < 5, 0 ≤ y < 5 and 0 ≤ z < w, let A′[x,y,z] = A[(x+3y) mod 5, x, z]. -/
def pi (A : StateArray) : StateArray := fun x y z => A (mod (x + 3 * y) 5) x z

/-- Algorithm 4: χ(A)
    1. For all triples (x,y,z) such that 0 ≤ x < 5, 0 ≤ y < 5 and 0 ≤ z < w, let
         A′[x,y,z] = A[x,y,z] ⊕ ((A[(x+1) mod 5, y, z] ⊕ 1) ⋅ A[(x+2) mod 5, y, z]). -/
def chi (A : StateArray) : StateArray :=
  fun x y z => A x y z ^^ ((A (mod (x + 1) 5) y z ^^ true) && A (mod (x + 2) 5) y z)

/-- Algorithm 5: rc(t)
    1. If t mod 255 = 0, return 1.
    2. Let R = 10000000.
    3. For i from 1 to t mod 255, let:
         a. R = 0 ‖ R;
         b. R[0] = R[0] ⊕ R[8];
         c. R[4] = R[4] ⊕ R[8];
         d. R[5] = R[5] ⊕ R[8];
         e. R[6] = R[6] ⊕ R[8];
         f. R = Trunc8[R].
    4. Return R[0]. -/
def rc (t : Int) : Bool :=
  if mod t 255 = 0 then true else
  let R : Str := [true, false, false, false, false, false, false, false]
  let R := (List.range (mod t 255)).foldl
    (fun (R : Str) (_ : Nat) =>
      let R := [false] ++ R
      let R := R.set 0 (R.getD 0 false ^^ R.getD 8 false)
      let R := R.set 4 (R.getD 4 false ^^ R.getD 8 false)
      let R := R.set 5 (R.getD 5 false ^^ R.getD 8 false)
      let R := R.set 6 (R.getD 6 false ^^ R.getD 8 false)
      Trunc 8 R)
    R
  R.getD 0 false

/-- Algorithm 6, steps 2–3:  RC = 0^w;  for j from 0 to ℓ, let RC[2^j − 1] = rc(j + 7·ir)      (ℓ = log2 w) -/
def RC (w : Nat) (ir : Int) : Str :=
  (List.range (Nat.log2 w + 1)).foldl (fun (RC : Str) (j : Nat) => RC.set (2 ^ j - 1) (rc (j + 7 * ir))) (zeros w)

/-- Algorithm 6: ι(A, ir)
    1. For all triples (x,y,z) such that 0 ≤ x < 5, 0 ≤ y < 5 and 0 ≤ z < w, let A′[x,y,z] = A[x,y,z].
    2. Let RC = 0^w.
    3. For j from 0 to ℓ, let RC[2^j − 1] = rc(j + 7·ir).
    4. For all z such that 0 ≤ z < w, let A′[0,0,z] = A′[0,0,z] ⊕ RC[z].
    5. Return A′. -/
def iota (w : Nat) (A : StateArray) (ir : Int) : StateArray :=
  let A' : StateArray := fun x y z => A x y z
  let RC := RC w ir
  fun x y z => if x = 0 ∧ y = 0 then A' 0 0 z ^^ RC.getD z false else A' x y z

/-! ## §3.3 KECCAK-p[b, nr] -/

/-- Rnd(A, ir) = ι(χ(π(ρ(θ(A)))), ir) -/
def Rnd (w : Nat) (A : StateArray) (ir : Int) : StateArray := iota w (chi (pi (rho w (theta w A)))) ir

/-- Algorithm 7: KECCAK-p[b, nr](S)          (w = b/25, ℓ = log2(b/25))
    1. Convert S into a state array, A, as described in Sec. 3.1.2.
    2. For ir from 12 + 2ℓ − nr to 12 + 2ℓ − 1, let A = Rnd(A, ir).
    3. Convert A into a string S′ of length b, as described in Sec. 3.1.3.
    4. Return S′. -/
def KECCAK_p (b nr : Nat) (S : Str) : Str :=
  let w := b / 25
  let l := Nat.log2 (b / 25)
  let A := toStateArray w S
  let A := (List.range nr).foldl (fun (A : StateArray) (k : Nat) => Rnd w A ((12 : Int) + 2 * l - nr + k)) A
  toStr w A

/-- §3.4: KECCAK-f[b] = KECCAK-p[b, 12 + 2ℓ] -/
def KECCAK_f (b : Nat) (S : Str) : Str := KECCAK_p b (12 + 2 * Nat.log2 (b / 25)) S

/-! ## §4 Sponge construction -/

/-- Algorithm 8, steps 7–10 (the squeezing loop; `fuel` bounds the number of passes, d + 1 suffice when r ≥ 1):
    7. Let Z be the empty string.
    8. Let Z = Z ‖ Trunc_r(S).
    9. If d ≤ |Z|, then return Trunc_d(Z); else continue.
    10. Let S = f(S), and continue with Step 8. -/
def squeeze (f : Str → Str) (r d : Nat) : Nat → Str → Str → Str
  | 0, _, Z => Trunc d Z
  | fuel + 1, S, Z =>
    let Z := Z ++ Trunc r S
    if d ≤ Z.length then Trunc d Z
    else squeeze f r d fuel (f S) Z

/-- Algorithm 8: SPONGE[f, pad, r](N, d)      (f on strings of length b)
    1. Let P = N ‖ pad(r, len(N)).
    2. Let n = len(P)/r.
    3. Let c = b − r.
    4. Let P0, …, Pn−1 be the unique sequence of strings of length r such that P = P0 ‖ … ‖ Pn−1.
    5. Let S = 0^b.
    6. For i from 0 to n−1, let S = f(S ⊕ (Pi ‖ 0^c)).
    7.–10. the squeezing loop above. -/
def SPONGE (b : Nat) (f : Str → Str) (pad : Nat → Nat → Str) (r : Nat) (N : Str) (d : Nat) : Str :=
  let P := N ++ pad r N.length
  let n := P.length / r
  let c := b - r
  let Pi := fun (i : Nat) => Trunc r (P.drop (r * i))
  let S := zeros b
  let S := (List.range n).foldl (fun (S : Str) (i : Nat) => f (xorStr S (Pi i ++ zeros c))) S
  squeeze f r d (d + 1) S []

/-! ## §5 KECCAK -/

/-- Algorithm 9: pad10*1(x, m)
    1. Let j = (− m − 2) mod x.
    2. Return P = 1 ‖ 0^j ‖ 1. -/
def pad10s1 (x m : Nat) : Str :=
  let j := mod (-(m : Int) - 2) x
  [true] ++ zeros j ++ [true]

/-- §5.2: KECCAK[c](N, d) = SPONGE[KECCAK-p[1600, 24], pad10*1, 1600 − c](N, d) -/
def KECCAK (c : Nat) (N : Str) (d : Nat) : Str := SPONGE 1600 (KECCAK_p 1600 24) pad10s1 (1600 - c) N d

/-! ## §6 SHA-3 function specifications -/

/-- §6.1 -/
def SHA3_224 (M : Str) : Str := KECCAK 448 (M ++ [false, true]) 224
def SHA3_256 (M : Str) : Str := KECCAK 512 (M ++ [false, true]) 256
def SHA3_384 (M : Str) : Str := KECCAK 768 (M ++ [false, true]) 384
def SHA3_512 (M : Str) : Str := KECCAK 1024 (M ++ [false, true]) 512

/-- §6.2 -/
def SHAKE128 (M : Str) (d : Nat) : Str := KECCAK 256 (M ++ [true, true, true, true]) d
def SHAKE256 (M : Str) (d : Nat) : Str := KECCAK 512 (M ++ [true, true, true, true]) d

/-- §6.3: RawSHAKE128(J, d) = KECCAK[256](J ‖ 11, d), RawSHAKE256(J, d) = KECCAK[512](J ‖ 11, d)
    (SHAKE128(M, d) = RawSHAKE128(M ‖ 11, d), SHAKE256(M, d) = RawSHAKE256(M ‖ 11, d)) -/
def RawSHAKE128 (J : Str) (d : Nat) : Str := KECCAK 256 (J ++ [true, true]) d
def RawSHAKE256 (J : Str) (d : Nat) : Str := KECCAK 512 (J ++ [true, true]) d

/-- the four hash functions by digest length (anything else: no such function, the empty string) -/
def SHA3 (n : Nat) (M : Str) : Str :=
  if n = 224 then SHA3_224 M else if n = 256 then SHA3_256 M else if n = 384 then SHA3_384 M
  else if n = 512 then SHA3_512 M else []

/-- the two XOFs by security strength -/
def SHAKE (n : Nat) (M : Str) (d : Nat) : Str :=
  if n = 128 then SHAKE128 M d else if n = 256 then SHAKE256 M d else []

/-! ## Appendix B.1 Conversion functions (hexadecimal strings ⇔ bit strings)

A hexadecimal string is a list of hexadecimal digits (numbers 0 … 15), H = H0 H1 … H(2m−1). -/

/-- Algorithm 10: h2b(H, n)      (H of 2m digits, n ≤ 8m)
    1. For each integer i such that 0 ≤ i < 2m−1, let Hi be the i-th hexadecimal digit in H.
    2. For each integer i such that 0 ≤ i < m:
         a. Let hi = 16 ⋅ H(2i) + H(2i+1).
         b. Let b(i,0) b(i,1) … b(i,7) be the unique sequence of bits such that
              hi = b(i,7)⋅2^7 + b(i,6)⋅2^6 + … + b(i,0)⋅2^0.
    3. For each pair of integers (i,j) such that 0 ≤ i < m and 0 ≤ j < 8, let T[8i+j] = b(i,j).
    4. Return S = Trunc_n(T). -/
def h2b (H : List Nat) (n : Nat) : Str :=
  let m := H.length / 2
  let h := fun (i : Nat) => 16 * H.getD (2 * i) 0 + H.getD (2 * i + 1) 0
  let b := fun (i j : Nat) => (h i).testBit j
  let T : Str := (List.range m).flatMap fun i => (List.range 8).map fun j => b i j
  Trunc n T

/-- Algorithm 11: b2h(S)
    1. Let n = len(S).
    2. Let T = S ‖ 0^(−n mod 8) and m = ⌈n/8⌉.
    3. For each pair of integers (i,j) such that 0 ≤ i < m and 0 ≤ j < 8, let b(i,j) = T[8i+j].
    4. For each integer i such that 0 ≤ i < m, let hi = b(i,7)⋅2^7 + b(i,6)⋅2^6 + … + b(i,0)⋅2^0.
    5. For each integer i such that 0 ≤ i < m, let H(2i) and H(2i+1) be the hexadecimal digits such that
         hi = 16 ⋅ H(2i) + H(2i+1).
    6. Return H = H0 H1 H2 … H(2m−1). -/
def b2h (S : Str) : List Nat :=
  let n := S.length
  let T := S ++ zeros (mod (-(n : Int)) 8)
  let m := (n + 7) / 8
  let b := fun (i j : Nat) => (T.getD (8 * i + j) false).toNat
  let h := fun (i : Nat) =>
    b i 7 * 2 ^ 7 + b i 6 * 2 ^ 6 + b i 5 * 2 ^ 5 + b i 4 * 2 ^ 4 + b i 3 * 2 ^ 3 + b i 2 * 2 ^ 2 + b i 1 * 2 ^ 1
      + b i 0 * 2 ^ 0
  (List.range m).flatMap fun i => [h i / 16, h i % 16]

/-- a byte string written as a hexadecimal string: two digits per byte, the most significant one first -/
def hexOfBytes (M : List Nat) : List Nat := M.flatMap fun byte => [byte / 16, byte % 16]

/-- the byte string a hexadecimal string of an even number of digits writes -/
def bytesOfHex : List Nat → List Nat
  | hi :: lo :: rest => (16 * hi + lo) :: bytesOfHex rest
  | _ => []

end Spec.Fips202
