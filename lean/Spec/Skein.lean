/-
  Spec.Skein — "The Skein Hash Function Family", version 1.3 (1 Oct 2010): UBI (3.4), the configuration string (3.5.2),
  the output function (3.5.3), full Skein with the optional key / personalisation / public key / key-derivation identifier /
  nonce (3.5.4, stages in increasing order of their type value: key, cfg, prs, PK, kdf, non, msg, out) and tree hashing
  (3.5.6).  Written on byte lists and natural-number tweaks, independently of the code's Bits/Tweak plumbing; the block
  cipher is Spec.Threefish.

  Tweak (3.4, Table 5), a 128-bit integer:  bits 0-95 Position, 96-111 reserved (0), 112-118 TreeLevel, 119 BitPad,
  120-125 Type, 126 First, 127 Final.  Type values (Table 6): key 0, cfg 4, prs 8, PK 12, kdf 16, non 20, msg 48, out 63.

  A message is a bit string, given as (byte string M, bit length L ≤ 8·|M|), the first bit being the most significant bit
  of the first byte (3.1, 3.4).
-/
import Spec.Threefish
namespace Spec.Skein
open Spec.Threefish (toInt toBytes)

def Tkey : Nat := 0
def Tcfg : Nat := 4
def Tprs : Nat := 8
def TPK : Nat := 12
def Tkdf : Nat := 16
def Tnon : Nat := 20
def Tmsg : Nat := 48
def Tout : Nat := 63

/-- the tweak integer with the given field values (Table 5) -/
def tweak (position treeLevel bitPad type first final : Nat) : Nat :=
  position + treeLevel * 2 ^ 112 + bitPad * 2 ^ 119 + type * 2 ^ 120 + first * 2 ^ 126 + final * 2 ^ 127

/-- the block cipher call E(K,T,P) (sizes are always admissible inside UBI over a state of 32/64/128 bytes) -/
def E (K T P : List Nat) : List Nat := (Spec.Threefish.enc K T P).getD []

def xorBytes (a b : List Nat) : List Nat := List.zipWith (· ^^^ ·) a b

/-- 3.4: bit padding of the message.  L a multiple of 8: M' = the L/8 message bytes, B = 0.  Otherwise the most significant
    unused bit of the last byte is set to 1, the remaining unused bits to 0, and B = 1. -/
def bitPad (M : List Nat) (L : Nat) : List Nat × Nat :=
  if L % 8 = 0 then (M.take (L / 8), 0)
  else
    let r := L % 8                                   -- used (most significant) bits of the last byte
    let last := M.getD (L / 8) 0
    (M.take (L / 8) ++ [last / 2 ^ (8 - r) * 2 ^ (8 - r) + 2 ^ (7 - r)], 1)

/-- 3.4: UBI(G, M, Ts).  NM = |M'|; p zero bytes are appended (p = Nb for the empty string, else up to the next multiple
    of Nb); H_{i+1} = E(H_i, ToBytes(Ts + min(NM,(i+1)Nb) + a_i 2^126 + b_i (B 2^119 + 2^127), 16), M_i) xor M_i
    with a_0 = 1 and b_{k-1} = 1 (all others 0). -/
def ubi (G : List Nat) (M : List Nat) (L : Nat) (Ts : Nat) : List Nat :=
  let Nb := G.length
  let (M', B) := bitPad M L
  let NM := M'.length
  let p := if NM = 0 then Nb else if NM % Nb = 0 then 0 else Nb - NM % Nb
  let M'' := M' ++ List.replicate p 0
  let k := M''.length / Nb
  (List.range k).foldl (fun H i =>
    let Mi := (M''.drop (i * Nb)).take Nb
    let a := if i = 0 then 1 else 0
    let b := if i + 1 = k then 1 else 0
    let T := Ts + min NM ((i + 1) * Nb) + a * 2 ^ 126 + b * (B * 2 ^ 119 + 2 ^ 127)
    xorBytes (E H (toBytes 16 T) Mi) Mi) G

/-- UBI of a whole byte string -/
def ubiBytes (G M : List Nat) (Ts : Nat) : List Nat := ubi G M (8 * M.length) Ts

/-- the preconditions 3.4 puts on the starting tweak: flags clear, and the position cannot overflow its 96-bit field -/
def ubiPre (M : List Nat) (Ts : Nat) : Bool :=
  Ts < 2 ^ 128 && (Ts / 2 ^ 119) % 2 = 0 && (Ts / 2 ^ 126) % 2 = 0 && (Ts / 2 ^ 127) % 2 = 0
    && Ts % 2 ^ 96 + M.length < 2 ^ 96

/-- 3.5.2: the 32-byte configuration string C -/
def cfgString (No Yl Yf Ym : Nat) : List Nat :=
  toBytes 4 0x33414853 ++ toBytes 2 1 ++ toBytes 2 0 ++ toBytes 8 No ++ [Yl, Yf, Ym] ++ List.replicate 13 0

/-- 3.5.3: Output(G,No) = the first ⌈No/8⌉ bytes of UBI(G,ToBytes(0,8),Tout 2^120) ‖ UBI(G,ToBytes(1,8),Tout 2^120) ‖ … -/
def output (G : List Nat) (No : Nat) : List Nat :=
  let n := (No + 7) / 8
  let k := if G.length = 0 then 0 else (n + G.length - 1) / G.length
  ((List.range k).flatMap fun i => ubiBytes G (toBytes 8 i) (Tout * 2 ^ 120)).take n

/-- one level of the tree: the blocks of `size` bytes of `M` (bit length L; at least one block, the last possibly shorter
    or empty), each hashed with its byte offset in the position field; only the last block can end inside a byte -/
def treeLevel (G : List Nat) (size : Nat) (M : List Nat) (L : Nat) (level : Nat) : List Nat :=
  let Mb := M.take ((L + 7) / 8)
  let k := if Mb.length = 0 then 1 else (Mb.length + size - 1) / size
  (List.range k).flatMap fun i =>
    let blk := (Mb.drop (i * size)).take size
    let bl := if i + 1 = k then L - 8 * (i * size) else 8 * blk.length
    ubi G blk bl (tweak (i * size) level 0 Tmsg 0 0)

/-- 3.5.6, the rules for level l ≥ 1 (`fuel` only makes the recursion structural; Ym - 1 steps are enough) -/
def treeUp (G : List Nat) (Nn Ym : Nat) : Nat → Nat → List Nat → List Nat
  | 0, _, Ml => Ml
  | fuel + 1, l, Ml =>
    if Ml.length ≤ G.length then Ml                                                     -- rule 1
    else if l + 1 = Ym then ubiBytes G Ml (tweak 0 Ym 0 Tmsg 0 0)                       -- rule 2
    else treeUp G Nn Ym fuel (l + 1) (treeLevel G Nn Ml (8 * Ml.length) (l + 1))         -- rule 3

/-- 3.5.6: tree hashing of the message with leaf size Nb·2^Yl, node size Nb·2^Yf, maximum height Ym -/
def tree (G : List Nat) (M : List Nat) (L : Nat) (Yl Yf Ym : Nat) : List Nat :=
  let Nb := G.length
  let M1 := treeLevel G (Nb * 2 ^ Yl) M L 1
  treeUp G (Nb * 2 ^ Yf) Ym Ym 1 M1

def optStage (G : List Nat) (s : List Nat) (ty : Nat) : List Nat :=
  if s = [] then G else ubiBytes G s (ty * 2 ^ 120)

/-- parameters the specification defines: state size, tree parameters all zero or Yl,Yf ≥ 1, Ym ≥ 2, each in a byte -/
def paramsOk (NbBits Yl Yf Ym : Nat) : Bool :=
  (NbBits = 256 || NbBits = 512 || NbBits = 1024) &&
  ((Yl = 0 && Yf = 0 && Ym = 0) || (1 ≤ Yl && 1 ≤ Yf && 2 ≤ Ym && Yl ≤ 255 && Yf ≤ 255 && Ym ≤ 255))

/-- 3.5.4: full Skein.  An absent optional input is the empty string.  `none` = parameters outside the specification. -/
def skein (NbBits No : Nat) (key prs pk kdf nonce : List Nat) (Yl Yf Ym : Nat) (M : List Nat) (L : Nat) :
    Option (List Nat) :=
  if ¬ paramsOk NbBits Yl Yf Ym then none else
  let Nb := NbBits / 8
  let K' := if key = [] then List.replicate Nb 0 else ubiBytes (List.replicate Nb 0) key (Tkey * 2 ^ 120)
  let G := ubiBytes K' (cfgString No Yl Yf Ym) (Tcfg * 2 ^ 120)
  let G := optStage G prs Tprs
  let G := optStage G pk TPK
  let G := optStage G kdf Tkdf
  let G := optStage G nonce Tnon
  let G := if Yl = 0 ∧ Yf = 0 ∧ Ym = 0 then ubi G M L (Tmsg * 2 ^ 120) else tree G M L Yl Yf Ym
  some (output G No)

end Spec.Skein
