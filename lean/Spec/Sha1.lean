/-
  Spec.Sha1 — FIPS 180-4 SHA-1 (§4.1.1, §4.2.1, §5.1.1, §5.3.1, §6.1) on 32-bit words, and SHA-0 (FIPS 180, 1993),
  which is the same algorithm without the one-bit rotation in the message schedule.
-/
import Spec.MerkleDamgard
namespace Spec.Sha1

abbrev Word := BitVec 32
abbrev State := Word × Word × Word × Word × Word

def Ch (x y z : Word) : Word := (x &&& y) ^^^ (~~~x &&& z)
def Parity (x y z : Word) : Word := x ^^^ y ^^^ z
def Maj (x y z : Word) : Word := (x &&& y) ^^^ (x &&& z) ^^^ (y &&& z)

/-- §4.1.1 -/
def f (t : Nat) : Word → Word → Word → Word :=
  if t < 20 then Ch else if t < 40 then Parity else if t < 60 then Maj else Parity

/-- §4.2.1 -/
def K (t : Nat) : Word :=
  if t < 20 then 0x5a827999#32 else if t < 40 then 0x6ed9eba1#32 else if t < 60 then 0x8f1bbcdc#32 else 0xca62c1d6#32

/-- §5.3.1 -/
def iv : State := (0x67452301#32, 0xefcdab89#32, 0x98badcfe#32, 0x10325476#32, 0xc3d2e1f0#32)

/-- §5.2.1: sixteen big-endian 32-bit words of a 64-byte block -/
def parse (block : List Byte) : List Word := wordsBE 32 block

/-- §6.1.2 step 1: W_t = ROTL^rot(W_{t-3} ⊕ W_{t-8} ⊕ W_{t-14} ⊕ W_{t-16}) for 16 ≤ t ≤ 79 (rot = 1; 0 for SHA-0) -/
def schedule (rot : Nat) (M : List Word) : List Word :=
  (List.range' 16 64).foldl (fun W t =>
    W ++ [(W.getD (t - 3) 0 ^^^ W.getD (t - 8) 0 ^^^ W.getD (t - 14) 0 ^^^ W.getD (t - 16) 0).rotateLeft rot]) M

/-- §6.1.2 step 3 -/
def round (W : List Word) (s : State) (t : Nat) : State :=
  let (a, b, c, d, e) := s
  let T := a.rotateLeft 5 + f t b c d + e + K t + W.getD t 0
  (T, a, b.rotateLeft 30, c, d)

/-- §6.1.2 steps 1–4 for one block given as its sixteen words M -/
def compressWords (rot : Nat) (H : State) (M : List Word) : State :=
  let W := schedule rot M
  let (a, b, c, d, e) := (List.range 80).foldl (round W) H
  let (h0, h1, h2, h3, h4) := H
  (a + h0, b + h1, c + h2, d + h3, e + h4)

def compress (rot : Nat) (H : State) (block : List Byte) : State := compressWords rot H (parse block)

def out (H : State) : List Byte :=
  let (h0, h1, h2, h3, h4) := H
  [h0, h1, h2, h3, h4].flatMap fun h => beBytes 4 h.toNat

def md (rot : Nat) : MDHash State where
  blockLen := 64
  lenLen := 8
  encLen := beBytes 8
  init := iv
  compress := compress rot
  out := out

def sha1 (bits : List Bool) : List Byte := (md 1).hash bits
def sha0 (bits : List Bool) : List Byte := (md 0).hash bits

end Spec.Sha1
