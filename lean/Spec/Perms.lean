/-
  Spec.Perms — what the permutation / combination helpers are supposed to enumerate, written as plain list
  recursions (no indices, no mutation).

  * `perms t`     every arrangement of t, by position: choose the first element (each position in turn), then arrange
                  the rest — the order of itertools.permutations.  With repeated elements an arrangement occurs once
                  per way of producing it ((n)! entries in all).
  * `combs p t`   the sub-lists of length p in lexicographic index order — the order of itertools.combinations.
  * `nextArr l`   the lexicographic successor of l among its arrangements, the least arrangement if l is the last one;
                  computed by brute force over `perms l`  (`Proofs.C20.nextperm_eq_nextArr`: = the model's result for
                  every l, which `nextperm_succ` / `nextperm_unique` characterise as THE successor).
-/
namespace Spec.Perms

variable {α : Type}

/-- arrangements of `t` (fuel = length) -/
def permsAux : Nat → List α → List (List α)
  | 0, _ => [[]]
  | n+1, t => (List.range t.length).flatMap fun i =>
      match t[i]? with
      | some x => (permsAux n (t.eraseIdx i)).map (x :: ·)
      | none => []

def perms (t : List α) : List (List α) := permsAux t.length t

/-- sub-lists of length p, lexicographic in the indices -/
def combs : Nat → List α → List (List α)
  | 0, _ => [[]]
  | _+1, [] => []
  | p+1, x :: xs => (combs p xs).map (x :: ·) ++ combs (p+1) xs

/-- least element of a non-empty list of int lists under the lexicographic order -/
def lexMin (c : List Int) (cs : List (List Int)) : List Int := cs.foldl (fun m p => if p < m then p else m) c

/-- lexicographic successor with wrap-around, by brute force -/
def nextArr (l : List Int) : List Int :=
  match (perms l).filter (fun p => l < p) with
  | c :: cs => lexMin c cs
  | [] => match perms l with
    | c :: cs => lexMin c cs
    | [] => l

end Spec.Perms
