/-
  Spec.Md5 — RFC 1321.  Conventions as RFC 1320 (§2).  §3.4: four rounds of sixteen operations [abcd k s i] meaning
  a = b + ((a + F(b,c,d) + X[k] + T[i]) <<< s), the registers taking the roles ABCD, DABC, CDAB, BCDA in turn;
  T[i] = floor(4294967296 · |sin(i)|) — the literal table below was recomputed from that rule
  (tools/specgen/hash_consts.py), not taken from crysp; Lean has no trusted sine to compute it in the kernel.
-/
import Spec.MerkleDamgard
namespace Spec.Md5

abbrev Word := BitVec 32
abbrev State := Word × Word × Word × Word

def F (x y z : Word) : Word := (x &&& y) ||| (~~~x &&& z)
def G (x y z : Word) : Word := (x &&& z) ||| (y &&& ~~~z)
def H (x y z : Word) : Word := x ^^^ y ^^^ z
def I (x y z : Word) : Word := y ^^^ (x ||| ~~~z)

def iv : State := (0x67452301#32, 0xefcdab89#32, 0x98badcfe#32, 0x10325476#32)

/-- T[1..64] (index 0 here is T[1]) -/
def T : List (BitVec 32) :=
  [0xd76aa478#32, 0xe8c7b756#32, 0x242070db#32, 0xc1bdceee#32,
   0xf57c0faf#32, 0x4787c62a#32, 0xa8304613#32, 0xfd469501#32,
   0x698098d8#32, 0x8b44f7af#32, 0xffff5bb1#32, 0x895cd7be#32,
   0x6b901122#32, 0xfd987193#32, 0xa679438e#32, 0x49b40821#32,
   0xf61e2562#32, 0xc040b340#32, 0x265e5a51#32, 0xe9b6c7aa#32,
   0xd62f105d#32, 0x02441453#32, 0xd8a1e681#32, 0xe7d3fbc8#32,
   0x21e1cde6#32, 0xc33707d6#32, 0xf4d50d87#32, 0x455a14ed#32,
   0xa9e3e905#32, 0xfcefa3f8#32, 0x676f02d9#32, 0x8d2a4c8a#32,
   0xfffa3942#32, 0x8771f681#32, 0x6d9d6122#32, 0xfde5380c#32,
   0xa4beea44#32, 0x4bdecfa9#32, 0xf6bb4b60#32, 0xbebfbc70#32,
   0x289b7ec6#32, 0xeaa127fa#32, 0xd4ef3085#32, 0x04881d05#32,
   0xd9d4d039#32, 0xe6db99e5#32, 0x1fa27cf8#32, 0xc4ac5665#32,
   0xf4292244#32, 0x432aff97#32, 0xab9423a7#32, 0xfc93a039#32,
   0x655b59c3#32, 0x8f0ccc92#32, 0xffeff47d#32, 0x85845dd1#32,
   0x6fa87e4f#32, 0xfe2ce6e0#32, 0xa3014314#32, 0x4e0811a1#32,
   0xf7537e82#32, 0xbd3af235#32, 0x2ad7d2bb#32, 0xeb86d391#32]
/-- k of the 64 operations, as listed in §3.4 -/
def kTable : List Nat :=
  [0, 1, 2, 3, 4, 5, 6, 7, 8, 9, 10, 11, 12, 13, 14, 15,
   1, 6, 11, 0, 5, 10, 15, 4, 9, 14, 3, 8, 13, 2, 7, 12,
   5, 8, 11, 14, 1, 4, 7, 10, 13, 0, 3, 6, 9, 12, 15, 2,
   0, 7, 14, 5, 12, 3, 10, 1, 8, 15, 6, 13, 4, 11, 2, 9]

/-- s of the 64 operations, as listed in §3.4 -/
def sTable : List Nat :=
  [7, 12, 17, 22, 7, 12, 17, 22, 7, 12, 17, 22, 7, 12, 17, 22,
   5, 9, 14, 20, 5, 9, 14, 20, 5, 9, 14, 20, 5, 9, 14, 20,
   4, 11, 16, 23, 4, 11, 16, 23, 4, 11, 16, 23, 4, 11, 16, 23,
   6, 10, 15, 21, 6, 10, 15, 21, 6, 10, 15, 21, 6, 10, 15, 21]

def roundFn (i : Nat) : Word → Word → Word → Word :=
  if i < 16 then F else if i < 32 then G else if i < 48 then H else I

/-- the value assigned by operation i (0-based) to its first register -/
def op (X : List Word) (i : Nat) (a b c d : Word) : Word :=
  b + (a + roundFn i b c d + X.getD (kTable.getD i 0) 0 + T.getD i 0).rotateLeft (sTable.getD i 0)

def step (X : List Word) (s : State) (i : Nat) : State :=
  let (A, B, C, D) := s
  match i % 4 with
  | 0 => (op X i A B C D, B, C, D)
  | 1 => (A, B, C, op X i D A B C)
  | 2 => (A, B, op X i C D A B, D)
  | _ => (A, op X i B C D A, C, D)

def parse (block : List Byte) : List Word := wordsLE 32 block

/-- §3.4 for one block given as its sixteen words X -/
def compressWords (s : State) (X : List Word) : State :=
  let (A, B, C, D) := (List.range 64).foldl (step X) s
  let (AA, BB, CC, DD) := s
  (A + AA, B + BB, C + CC, D + DD)

def compress (s : State) (block : List Byte) : State := compressWords s (parse block)

def out (s : State) : List Byte :=
  let (A, B, C, D) := s
  [A, B, C, D].flatMap fun h => leBytes 4 h.toNat

def md : MDHash State where
  blockLen := 64
  lenLen := 8
  encLen := leBytes 8
  init := iv
  compress := compress
  out := out

def md5 (bits : List Bool) : List Byte := md.hash bits

end Spec.Md5
