/-
  Spec.SerpentStd — the Serpent block cipher in the STANDARD (non-bitslice) formulation of the AES submission
  (Anderson, Biham, Knudsen: "Serpent: A Proposal for the Advanced Encryption Standard", section 2 "The cipher",
  section 4 "The key schedule", appendix A "Specification of the permutations, linear transformation and S-boxes"),
  written literally:

    * the block is a 128-bit vector, bits numbered 0..127, bit 0 = least significant bit of word 0 (the submission's
      little-endian convention); here: bit j of the block is `Nat.testBit · j` of a number < 2^128
    * B̂_0 = IP(P);  B̂_{i+1} = R_i(B̂_i);  C = FP(B̂_32)
        R_i(X) = L(Ŝ_i(X ⊕ K̂_i))            i = 0..30
        R_i(X) = Ŝ_i(X ⊕ K̂_i) ⊕ K̂_32        i = 31
    * Ŝ_i = 32 copies of S_{i mod 8} in parallel: copy k takes bits 4k..4k+3 of its input (bit 4k least significant)
      and returns bits 4k..4k+3 of the intermediate vector
    * IP, FP: the appendix tables ("value v at position p: output bit p comes from input bit v")
    * L: the appendix table ("for each output bit the list of the input bits whose parity becomes the output bit");
      the inverse linear transformation (decryption) likewise
    * key schedule (section 4; it is DEFINED by the submission in bitslice terms): pad the user key to 256 bits (append a
      "1" bit, then "0" bits), prekeys w_i = (w_{i-8} ⊕ w_{i-5} ⊕ w_{i-3} ⊕ w_{i-1} ⊕ φ ⊕ i) <<< 11, the words
      {k_{4i}..k_{4i+3}} = S_{(3-i) mod 8}(w_{4i}..w_{4i+3}) with the S-box applied in bitslice mode, K_i = the 128-bit
      value {k_{4i},k_{4i+1},k_{4i+2},k_{4i+3}}, and for the standard formulation  K̂_i = IP(K_i).
      This part is shared with Spec.Serpent (`Spec.Serpent.roundKeys`): the submission gives one definition only.
    * decryption: inverse S-boxes, inverse linear transformation, subkeys in reverse order.

  What is shared with Spec.Serpent (the bitslice rendering) and what is not:
    shared      — the eight S-box tables (`Spec.Serpent.sboxTable`, typed from appendix A.5; the same tables serve both
                  formulations), `sboxInv` (by rule: position of y in S_i), `ofBitFn`, the key schedule up to K_i, the byte
                  interface (`leNat`, `leBytes`).
    NOT shared  — IP/FP (literal tables here, the rule 32·j mod 127 / 4·j mod 127 there), the S-box layer (nibbles of
                  consecutive bits here, columns of four words there), the linear transformation (bit-level parity table
                  here, rotations/shifts of words there), the round structure.

  PROVENANCE OF THE TABLES (read this before trusting them):
    * `ipTable`, `fpTable` are the two tables of appendix A.1/A.2 (0 32 64 96 1 33 65 97 … / 0 4 8 12 … 124 1 5 9 …).
    * `ltTable`, `ltInvTable` have the FORMAT of appendix A.3/A.4 but were NOT typed from the document (it is not available
      offline and 128 parity sets cannot be typed reliably from memory): they were produced mechanically from the bitslice
      word operations (X0 <<<= 13; X2 <<<= 3; …) conjugated by IP/FP, which is how the submission itself relates the two
      forms, and then compared with what the author remembers of the appendix — the first four rows of the linear
      transformation ({16 52 56 70 83 94 105} {72 114 125} {2 9 15 30 76 84 126} {36 90 103} / {20 56 60 74 87 98 109}
      {1 76 118} {2 6 13 19 34 80 88} {40 94 107} / …) and the first row of the inverse ({53 55 72} {1 5 20 90} {15 102}
      {3 31 90}) agree.  So L here is NOT an independent rendering: Proofs.C02_SerpentStd.L_table_is_conjugate proves
      (for all 2^128 inputs) that the table is exactly IP ∘ (bitslice linear transformation) ∘ FP; what the table adds is an
      artifact that can be compared by eye with appendix A.3/A.4.
  Only core Lean.
-/
import Spec.Serpent
namespace Spec.SerpentStd
open Spec.Serpent (ofBitFn sbox sboxInv)

/-- appendix A.1, initial permutation: output bit p comes from input bit `ipTable[p]` -/
def ipTable : List Nat :=
  [  0,  32,  64,  96,   1,  33,  65,  97,   2,  34,  66,  98,   3,  35,  67,  99,
     4,  36,  68, 100,   5,  37,  69, 101,   6,  38,  70, 102,   7,  39,  71, 103,
     8,  40,  72, 104,   9,  41,  73, 105,  10,  42,  74, 106,  11,  43,  75, 107,
    12,  44,  76, 108,  13,  45,  77, 109,  14,  46,  78, 110,  15,  47,  79, 111,
    16,  48,  80, 112,  17,  49,  81, 113,  18,  50,  82, 114,  19,  51,  83, 115,
    20,  52,  84, 116,  21,  53,  85, 117,  22,  54,  86, 118,  23,  55,  87, 119,
    24,  56,  88, 120,  25,  57,  89, 121,  26,  58,  90, 122,  27,  59,  91, 123,
    28,  60,  92, 124,  29,  61,  93, 125,  30,  62,  94, 126,  31,  63,  95, 127]

/-- appendix A.2, final permutation: output bit p comes from input bit `fpTable[p]` -/
def fpTable : List Nat :=
  [  0,   4,   8,  12,  16,  20,  24,  28,  32,  36,  40,  44,  48,  52,  56,  60,
    64,  68,  72,  76,  80,  84,  88,  92,  96, 100, 104, 108, 112, 116, 120, 124,
     1,   5,   9,  13,  17,  21,  25,  29,  33,  37,  41,  45,  49,  53,  57,  61,
    65,  69,  73,  77,  81,  85,  89,  93,  97, 101, 105, 109, 113, 117, 121, 125,
     2,   6,  10,  14,  18,  22,  26,  30,  34,  38,  42,  46,  50,  54,  58,  62,
    66,  70,  74,  78,  82,  86,  90,  94,  98, 102, 106, 110, 114, 118, 122, 126,
     3,   7,  11,  15,  19,  23,  27,  31,  35,  39,  43,  47,  51,  55,  59,  63,
    67,  71,  75,  79,  83,  87,  91,  95,  99, 103, 107, 111, 115, 119, 123, 127]

/-- apply a bit permutation table to a 128-bit vector -/
def permute (tbl : List Nat) (x : Nat) : Nat := ofBitFn 128 fun p => x.testBit (tbl.getD p 0)

def IP (x : Nat) : Nat := permute ipTable x
def FP (x : Nat) : Nat := permute fpTable x

/-- bits 4k..4k+3 of x as a number 0..15 (bit 4k least significant) -/
def nibble (x k : Nat) : Nat := (x >>> (4 * k)) % 16

/-- 32 copies of the 4-bit function `f` in parallel: output bits 4k..4k+3 = f(input bits 4k..4k+3) -/
def sHat (f : Nat → Nat) (x : Nat) : Nat := ofBitFn 128 fun j => (f (nibble x (j / 4))).testBit (j % 4)

/-- parity of the bits of x at the listed positions -/
def parity (x : Nat) : List Nat → Bool
  | [] => false
  | b :: bs => x.testBit b != parity x bs

/-- a linear map given by its parity table: output bit p = parity of the input bits `tbl[p]` -/
def linear (tbl : List (List Nat)) (x : Nat) : Nat := ofBitFn 128 fun p => parity x (tbl.getD p [])

/-- linear transformation, format of appendix A.3 (four output bits per line); see PROVENANCE above -/
def ltTable : List (List Nat) :=
  [[16, 52, 56, 70, 83, 94, 105], [72, 114, 125], [2, 9, 15, 30, 76, 84, 126], [36, 90, 103],
   [20, 56, 60, 74, 87, 98, 109], [1, 76, 118], [2, 6, 13, 19, 34, 80, 88], [40, 94, 107],
   [24, 60, 64, 78, 91, 102, 113], [5, 80, 122], [6, 10, 17, 23, 38, 84, 92], [44, 98, 111],
   [28, 64, 68, 82, 95, 106, 117], [9, 84, 126], [10, 14, 21, 27, 42, 88, 96], [48, 102, 115],
   [32, 68, 72, 86, 99, 110, 121], [2, 13, 88], [14, 18, 25, 31, 46, 92, 100], [52, 106, 119],
   [36, 72, 76, 90, 103, 114, 125], [6, 17, 92], [18, 22, 29, 35, 50, 96, 104], [56, 110, 123],
   [1, 40, 76, 80, 94, 107, 118], [10, 21, 96], [22, 26, 33, 39, 54, 100, 108], [60, 114, 127],
   [5, 44, 80, 84, 98, 111, 122], [14, 25, 100], [26, 30, 37, 43, 58, 104, 112], [3, 118],
   [9, 48, 84, 88, 102, 115, 126], [18, 29, 104], [30, 34, 41, 47, 62, 108, 116], [7, 122],
   [2, 13, 52, 88, 92, 106, 119], [22, 33, 108], [34, 38, 45, 51, 66, 112, 120], [11, 126],
   [6, 17, 56, 92, 96, 110, 123], [26, 37, 112], [38, 42, 49, 55, 70, 116, 124], [2, 15, 76],
   [10, 21, 60, 96, 100, 114, 127], [30, 41, 116], [0, 42, 46, 53, 59, 74, 120], [6, 19, 80],
   [3, 14, 25, 100, 104, 118], [34, 45, 120], [4, 46, 50, 57, 63, 78, 124], [10, 23, 84],
   [7, 18, 29, 104, 108, 122], [38, 49, 124], [0, 8, 50, 54, 61, 67, 82], [14, 27, 88],
   [11, 22, 33, 108, 112, 126], [0, 42, 53], [4, 12, 54, 58, 65, 71, 86], [18, 31, 92],
   [2, 15, 26, 37, 76, 112, 116], [4, 46, 57], [8, 16, 58, 62, 69, 75, 90], [22, 35, 96],
   [6, 19, 30, 41, 80, 116, 120], [8, 50, 61], [12, 20, 62, 66, 73, 79, 94], [26, 39, 100],
   [10, 23, 34, 45, 84, 120, 124], [12, 54, 65], [16, 24, 66, 70, 77, 83, 98], [30, 43, 104],
   [0, 14, 27, 38, 49, 88, 124], [16, 58, 69], [20, 28, 70, 74, 81, 87, 102], [34, 47, 108],
   [0, 4, 18, 31, 42, 53, 92], [20, 62, 73], [24, 32, 74, 78, 85, 91, 106], [38, 51, 112],
   [4, 8, 22, 35, 46, 57, 96], [24, 66, 77], [28, 36, 78, 82, 89, 95, 110], [42, 55, 116],
   [8, 12, 26, 39, 50, 61, 100], [28, 70, 81], [32, 40, 82, 86, 93, 99, 114], [46, 59, 120],
   [12, 16, 30, 43, 54, 65, 104], [32, 74, 85], [36, 90, 103, 118], [50, 63, 124],
   [16, 20, 34, 47, 58, 69, 108], [36, 78, 89], [40, 94, 107, 122], [0, 54, 67],
   [20, 24, 38, 51, 62, 73, 112], [40, 82, 93], [44, 98, 111, 126], [4, 58, 71],
   [24, 28, 42, 55, 66, 77, 116], [44, 86, 97], [2, 48, 102, 115], [8, 62, 75],
   [28, 32, 46, 59, 70, 81, 120], [48, 90, 101], [6, 52, 106, 119], [12, 66, 79],
   [32, 36, 50, 63, 74, 85, 124], [52, 94, 105], [10, 56, 110, 123], [16, 70, 83],
   [0, 36, 40, 54, 67, 78, 89], [56, 98, 109], [14, 60, 114, 127], [20, 74, 87],
   [4, 40, 44, 58, 71, 82, 93], [60, 102, 113], [3, 18, 72, 114, 118, 125], [24, 78, 91],
   [8, 44, 48, 62, 75, 86, 97], [64, 106, 117], [1, 7, 22, 76, 118, 122], [28, 82, 95],
   [12, 48, 52, 66, 79, 90, 101], [68, 110, 121], [5, 11, 26, 80, 122, 126], [32, 86, 99]]

/-- inverse linear transformation, format of appendix A.4; see PROVENANCE above -/
def ltInvTable : List (List Nat) :=
  [[53, 55, 72], [1, 5, 20, 90], [15, 102], [3, 31, 90],
   [57, 59, 76], [5, 9, 24, 94], [19, 106], [7, 35, 94],
   [61, 63, 80], [9, 13, 28, 98], [23, 110], [11, 39, 98],
   [65, 67, 84], [13, 17, 32, 102], [27, 114], [1, 3, 15, 20, 43, 102],
   [69, 71, 88], [17, 21, 36, 106], [1, 31, 118], [5, 7, 19, 24, 47, 106],
   [73, 75, 92], [21, 25, 40, 110], [5, 35, 122], [9, 11, 23, 28, 51, 110],
   [77, 79, 96], [25, 29, 44, 114], [9, 39, 126], [13, 15, 27, 32, 55, 114],
   [81, 83, 100], [1, 29, 33, 48, 118], [2, 13, 43], [1, 17, 19, 31, 36, 59, 118],
   [85, 87, 104], [5, 33, 37, 52, 122], [6, 17, 47], [5, 21, 23, 35, 40, 63, 122],
   [89, 91, 108], [9, 37, 41, 56, 126], [10, 21, 51], [9, 25, 27, 39, 44, 67, 126],
   [93, 95, 112], [2, 13, 41, 45, 60], [14, 25, 55], [2, 13, 29, 31, 43, 48, 71],
   [97, 99, 116], [6, 17, 45, 49, 64], [18, 29, 59], [6, 17, 33, 35, 47, 52, 75],
   [101, 103, 120], [10, 21, 49, 53, 68], [22, 33, 63], [10, 21, 37, 39, 51, 56, 79],
   [105, 107, 124], [14, 25, 53, 57, 72], [26, 37, 67], [14, 25, 41, 43, 55, 60, 83],
   [0, 109, 111], [18, 29, 57, 61, 76], [30, 41, 71], [18, 29, 45, 47, 59, 64, 87],
   [4, 113, 115], [22, 33, 61, 65, 80], [34, 45, 75], [22, 33, 49, 51, 63, 68, 91],
   [8, 117, 119], [26, 37, 65, 69, 84], [38, 49, 79], [26, 37, 53, 55, 67, 72, 95],
   [12, 121, 123], [30, 41, 69, 73, 88], [42, 53, 83], [30, 41, 57, 59, 71, 76, 99],
   [16, 125, 127], [34, 45, 73, 77, 92], [46, 57, 87], [34, 45, 61, 63, 75, 80, 103],
   [1, 3, 20], [38, 49, 77, 81, 96], [50, 61, 91], [38, 49, 65, 67, 79, 84, 107],
   [5, 7, 24], [42, 53, 81, 85, 100], [54, 65, 95], [42, 53, 69, 71, 83, 88, 111],
   [9, 11, 28], [46, 57, 85, 89, 104], [58, 69, 99], [46, 57, 73, 75, 87, 92, 115],
   [13, 15, 32], [50, 61, 89, 93, 108], [62, 73, 103], [50, 61, 77, 79, 91, 96, 119],
   [17, 19, 36], [54, 65, 93, 97, 112], [66, 77, 107], [54, 65, 81, 83, 95, 100, 123],
   [21, 23, 40], [58, 69, 97, 101, 116], [70, 81, 111], [58, 69, 85, 87, 99, 104, 127],
   [25, 27, 44], [62, 73, 101, 105, 120], [74, 85, 115], [3, 62, 73, 89, 91, 103, 108],
   [29, 31, 48], [66, 77, 105, 109, 124], [78, 89, 119], [7, 66, 77, 93, 95, 107, 112],
   [33, 35, 52], [0, 70, 81, 109, 113], [82, 93, 123], [11, 70, 81, 97, 99, 111, 116],
   [37, 39, 56], [4, 74, 85, 113, 117], [86, 97, 127], [15, 74, 85, 101, 103, 115, 120],
   [41, 43, 60], [8, 78, 89, 117, 121], [3, 90], [19, 78, 89, 105, 107, 119, 124],
   [45, 47, 64], [12, 82, 93, 121, 125], [7, 94], [0, 23, 82, 93, 109, 111, 123],
   [49, 51, 68], [1, 16, 86, 97, 125], [11, 98], [4, 27, 86, 97, 113, 115, 127]]

def L (x : Nat) : Nat := linear ltTable x
def LInv (x : Nat) : Nat := linear ltInvTable x

/-- the 33 subkeys of the standard formulation: K̂_i = IP(K_i), K_i = {k_{4i},k_{4i+1},k_{4i+2},k_{4i+3}} (k_{4i} the least
    significant word) from the submission's (bitslice) key schedule -/
def roundKeysHat (klen K : Nat) : List Nat :=
  (Spec.Serpent.roundKeys klen K).map fun k => IP (Spec.Serpent.natOfState k)

def kHat (ks : List Nat) (i : Nat) : Nat := ks.getD i 0

/-- R_i, i = 0..30 -/
def round (ks : List Nat) (b : Nat) (i : Nat) : Nat := L (sHat (sbox (i % 8)) (b ^^^ kHat ks i))

/-- the last round R_31: the linear transformation is replaced by the key mixing with K̂_32 -/
def lastRound (ks : List Nat) (b : Nat) : Nat := sHat (sbox (31 % 8)) (b ^^^ kHat ks 31) ^^^ kHat ks 32

/-- C = FP(R_31(R_30(… R_0(IP(P))))) -/
def encBlock (ks : List Nat) (P : Nat) : Nat :=
  FP (lastRound ks ((List.range 31).foldl (round ks) (IP P)))

/-- R_i^{-1}, i = 0..30 -/
def roundInv (ks : List Nat) (b : Nat) (i : Nat) : Nat := sHat (sboxInv (i % 8)) (LInv b) ^^^ kHat ks i

def lastRoundInv (ks : List Nat) (b : Nat) : Nat := sHat (sboxInv (31 % 8)) (b ^^^ kHat ks 32) ^^^ kHat ks 31

def decBlock (ks : List Nat) (C : Nat) : Nat :=
  FP ((List.range 31).reverse.foldl (roundInv ks) (lastRoundInv ks (IP C)))

/-- encryption of the 128-bit block `P` (bit j = `P.testBit j`) under the `klen`-bit user key `K` -/
def encNat (klen K P : Nat) : Nat := encBlock (roundKeysHat klen K) P
def decNat (klen K C : Nat) : Nat := decBlock (roundKeysHat klen K) C

/-- byte-string interface, same conventions as `Spec.Serpent.enc`: key of 0..32 bytes, block of exactly 16 bytes, a byte
    string is the little-endian number of its bytes; anything else is undefined (`none`) -/
def enc (key block : List Nat) : Option (List Nat) :=
  if key.length ≤ 32 ∧ block.length = 16 then
    some (Spec.Serpent.leBytes 16 (encNat (8 * key.length) (Spec.Serpent.leNat key) (Spec.Serpent.leNat block)))
  else none
def dec (key block : List Nat) : Option (List Nat) :=
  if key.length ≤ 32 ∧ block.length = 16 then
    some (Spec.Serpent.leBytes 16 (decNat (8 * key.length) (Spec.Serpent.leNat key) (Spec.Serpent.leNat block)))
  else none

end Spec.SerpentStd
