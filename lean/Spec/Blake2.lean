/-
  Spec.Blake2 — BLAKE2b and BLAKE2s as defined in RFC 7693 (unkeyed hashing; the library has no keyed mode), with the
  full parameter block of the BLAKE2 specification (Aumasson, Neves, Wilcox-O'Hearn, Winnerlein: "BLAKE2", 2013,
  section 2.5-2.8 / tables 2 and 3; RFC 7693 section 2.5 gives the sequential-mode instance 0x0101kknn).
  Written on `BitVec w` words and byte lists.  IV = the SHA-512 / SHA-256 initial values; SIGMA is literal.
-/
namespace Spec.Blake2

/-- RFC 7693 section 2.7 (rows 10 and 11 repeat rows 0 and 1: the round function uses SIGMA[i mod 10]) -/
def sigma : List (List Nat) :=
  [[ 0, 1, 2, 3, 4, 5, 6, 7, 8, 9,10,11,12,13,14,15],
   [14,10, 4, 8, 9,15,13, 6, 1,12, 0, 2,11, 7, 5, 3],
   [11, 8,12, 0, 5, 2,15,13,10,14, 3, 6, 7, 1, 9, 4],
   [ 7, 9, 3, 1,13,12,11,14, 2, 6, 5,10, 4, 0,15, 8],
   [ 9, 0, 5, 7, 2, 4,10,15,14, 1,11,12, 6, 8, 3,13],
   [ 2,12, 6,10, 0,11, 8, 3, 4,13, 7, 5,15,14, 1, 9],
   [12, 5, 1,15,14,13, 4,10, 0, 7, 6, 3, 9, 2, 8,11],
   [13,11, 7,14,12, 1, 3, 9, 5, 0,15, 4, 8, 6, 2,10],
   [ 6,15,14, 9,11, 3, 0, 8,12, 2,13, 7, 1, 4,10, 5],
   [10, 2, 8, 4, 7, 6, 1, 5,15,11, 9,14, 3,12,13, 0]]

/-- RFC 7693 section 2.6 -/
def ivB : List (BitVec 64) :=
  [0x6A09E667F3BCC908#64, 0xBB67AE8584CAA73B#64, 0x3C6EF372FE94F82B#64, 0xA54FF53A5F1D36F1#64,
   0x510E527FADE682D1#64, 0x9B05688C2B3E6C1F#64, 0x1F83D9ABFB41BD6B#64, 0x5BE0CD19137E2179#64]
def ivS : List (BitVec 32) :=
  [0x6A09E667#32, 0xBB67AE85#32, 0x3C6EF372#32, 0xA54FF53A#32, 0x510E527F#32, 0x9B05688C#32, 0x1F83D9AB#32, 0x5BE0CD19#32]

/-- RFC 7693 section 2.1: word size, rounds, block bytes, rotation constants -/
structure Variant where
  w : Nat
  rounds : Nat
  R1 : Nat
  R2 : Nat
  R3 : Nat
  R4 : Nat
  iv : List (BitVec w)

def blake2b : Variant := { w := 64, rounds := 12, R1 := 32, R2 := 24, R3 := 16, R4 := 63, iv := ivB }
def blake2s : Variant := { w := 32, rounds := 10, R1 := 16, R2 := 12, R3 := 8, R4 := 7, iv := ivS }

/-- bb: block bytes (16 words) -/
def Variant.bb (V : Variant) : Nat := 16 * (V.w / 8)
/-- maximal digest length nn -/
def Variant.maxOut (V : Variant) : Nat := 8 * (V.w / 8)

variable (V : Variant)

/-- the mixing function G (RFC 7693 section 3.1) on the four selected words, with message words x and y -/
def G (x y a b c d : BitVec V.w) : BitVec V.w × BitVec V.w × BitVec V.w × BitVec V.w :=
  let a := a + b + x
  let d := (d ^^^ a).rotateRight V.R1
  let c := c + d
  let b := (b ^^^ c).rotateRight V.R2
  let a := a + b + y
  let d := (d ^^^ a).rotateRight V.R3
  let c := c + d
  let b := (b ^^^ c).rotateRight V.R4
  (a, b, c, d)

def at' (l : List (BitVec V.w)) (i : Nat) : BitVec V.w := l.getD i 0

/-- the i-th of the eight G calls of a round: columns for i < 4, diagonals for 4 ≤ i < 8 -/
def positions (i : Nat) : Nat × Nat × Nat × Nat :=
  if i < 4 then (i, 4 + i, 8 + i, 12 + i)
  else (i - 4, 4 + (i - 3) % 4, 8 + (i - 2) % 4, 12 + (i - 1) % 4)

def Gi (m : List (BitVec V.w)) (r : Nat) (v : List (BitVec V.w)) (i : Nat) : List (BitVec V.w) :=
  let s := sigma.getD (r % 10) []
  let (ja, jb, jc, jd) := positions i
  let (a, b, c, d) := G V (at' V m (s.getD (2 * i) 0)) (at' V m (s.getD (2 * i + 1) 0))
    (at' V v ja) (at' V v jb) (at' V v jc) (at' V v jd)
  (((v.set ja a).set jb b).set jc c).set jd d

def round (m : List (BitVec V.w)) (v : List (BitVec V.w)) (r : Nat) : List (BitVec V.w) :=
  (List.range 8).foldl (Gi V m r) v

/-- compression function F (RFC 7693 section 3.2): h chain value, m block (16 words), t byte offset counter
    (2w bits), f final-block flag -/
def F (h m : List (BitVec V.w)) (t : Nat) (f : Bool) : List (BitVec V.w) :=
  let v0 := h ++ V.iv
  let v1 := v0.set 12 (at' V v0 12 ^^^ BitVec.ofNat V.w t)
  let v2 := v1.set 13 (at' V v1 13 ^^^ BitVec.ofNat V.w (t / 2 ^ V.w))
  let v3 := if f then v2.set 14 (at' V v2 14 ^^^ BitVec.allOnes V.w) else v2
  let v := (List.range V.rounds).foldl (round V m) v3
  (List.range 8).map fun i => at' V h i ^^^ at' V v i ^^^ at' V v (i + 8)

/-! ### parameter block -/

/-- little-endian bytes -/
def leBytes : Nat → Nat → List Nat
  | 0, _ => []
  | k + 1, n => n % 256 :: leBytes k (n / 256)

def leVal : List Nat → Nat
  | [] => 0
  | b :: bs => b + 256 * leVal bs

/-- the general parameters of the BLAKE2 specification (key length is 0: unkeyed) -/
structure Params where
  digestLength : Nat
  fanout : Nat := 1
  depth : Nat := 1
  leafLength : Nat := 0
  nodeOffset : Nat := 0
  nodeDepth : Nat := 0
  innerLength : Nat := 0
  /-- 16 (2b) / 8 (2s) bytes, all zero by default -/
  salt : List Nat
  personal : List Nat

/-- in range: what the specification allows -/
def Params.valid (p : Params) : Prop :=
  1 ≤ p.digestLength ∧ p.digestLength ≤ V.maxOut ∧ p.fanout < 256 ∧ p.depth < 256 ∧ p.leafLength < 2 ^ 32 ∧
  p.nodeOffset < 2 ^ (if V.w = 64 then 64 else 48) ∧ p.nodeDepth < 256 ∧ p.innerLength ≤ V.maxOut ∧
  p.salt.length = V.w / 4 ∧ p.personal.length = V.w / 4

/-- parameter block layout.  BLAKE2b (64 bytes): digest length, key length, fanout, depth (1 byte each), leaf length
    (4), node offset (8), node depth (1), inner length (1), reserved (14), salt (16), personalization (16).
    BLAKE2s (32 bytes): the same with node offset on 6 bytes, no reserved bytes, salt and personalization 8 bytes. -/
def paramBlock (p : Params) : List Nat :=
  [p.digestLength, 0, p.fanout, p.depth] ++ leBytes 4 p.leafLength
    ++ (if V.w = 64 then leBytes 8 p.nodeOffset else leBytes 6 p.nodeOffset)
    ++ [p.nodeDepth, p.innerLength]
    ++ (if V.w = 64 then List.replicate 14 0 else [])
    ++ p.salt ++ p.personal

def chunk {α} (n : Nat) (l : List α) : List (List α) :=
  go n l l.length
where
  go (n : Nat) (l : List α) : Nat → List (List α)
    | 0 => []
    | fuel + 1 => if l.isEmpty then [] else l.take n :: go n (l.drop n) fuel

/-- bytes as little-endian words -/
def words (bs : List Nat) : List (BitVec V.w) := (chunk (V.w / 8) bs).map fun g => BitVec.ofNat V.w (leVal g)

/-- h := IV xor parameter block -/
def init (p : Params) : List (BitVec V.w) := List.zipWith (· ^^^ ·) V.iv (words V (paramBlock V p))

/-- a (possibly short) last block padded with zero bytes -/
def padBlock (d : List Nat) : List Nat := d ++ List.replicate (V.bb - d.length) 0

/-- RFC 7693 section 3.3 for kk = 0, continuing after `t` bytes: every block but the last is compressed with the
    byte count so far and f = false, the last one (padded with zeros; the empty message is one zero block) with the
    total length and f = true -/
def absorb (h : List (BitVec V.w)) (t : Nat) (d : List Nat) : Nat → List (BitVec V.w)
  | 0 => h
  | fuel + 1 =>
    if d.length ≤ V.bb then F V h (words V (padBlock V d)) (t + d.length) true
    else absorb (F V h (words V (d.take V.bb)) (t + V.bb) false) (t + V.bb) (d.drop V.bb) fuel

def wordBytes (x : BitVec V.w) : List Nat := leBytes (V.w / 8) x.toNat

/-- first nn bytes of the little-endian state -/
def output (nn : Nat) (h : List (BitVec V.w)) : List Nat := (h.flatMap (wordBytes V)).take nn

def hash (p : Params) (M : List Nat) : List Nat :=
  output V p.digestLength (absorb V (init V p) 0 M (M.length + 1))

/-- continuing from the initial chain value as if `done` bytes (a multiple of bb) had been hashed -/
def hashFrom (p : Params) (done : Nat) (M : List Nat) : List Nat :=
  output V p.digestLength (absorb V (init V p) done M (M.length + 1))

/-- (byte counter, final flag) of every compression of a message of ll bytes -/
def counters (done ll : Nat) : List (Nat × Bool) :=
  let dd := if ll = 0 then 1 else (ll + V.bb - 1) / V.bb
  (List.range dd).map fun i => (done + min ll ((i + 1) * V.bb), i + 1 == dd)

end Spec.Blake2
