/-
  Spec.Md4 — RFC 1320.  Bytes are groups of eight bits, high-order bit first; words are groups of four bytes,
  low-order byte first (§2); the length is appended low-order word first, i.e. as eight little-endian bytes (§3.2).
  §3.4: three rounds of sixteen operations [abcd k s] meaning  a = (a + F(b,c,d) + X[k] (+ constant)) <<< s,
  the registers taking the roles ABCD, DABC, CDAB, BCDA in turn.
-/
import Spec.MerkleDamgard
namespace Spec.Md4

abbrev Word := BitVec 32
abbrev State := Word × Word × Word × Word

def F (x y z : Word) : Word := (x &&& y) ||| (~~~x &&& z)
def G (x y z : Word) : Word := (x &&& y) ||| (x &&& z) ||| (y &&& z)
def H (x y z : Word) : Word := x ^^^ y ^^^ z

/-- §3.3 -/
def iv : State := (0x67452301#32, 0xefcdab89#32, 0x98badcfe#32, 0x10325476#32)

/-- k of the 48 operations, as listed in §3.4 -/
def kTable : List Nat :=
  [0, 1, 2, 3, 4, 5, 6, 7, 8, 9, 10, 11, 12, 13, 14, 15,
   0, 4, 8, 12, 1, 5, 9, 13, 2, 6, 10, 14, 3, 7, 11, 15,
   0, 8, 4, 12, 2, 10, 6, 14, 1, 9, 5, 13, 3, 11, 7, 15]

/-- s of the 48 operations, as listed in §3.4 -/
def sTable : List Nat :=
  [3, 7, 11, 19, 3, 7, 11, 19, 3, 7, 11, 19, 3, 7, 11, 19,
   3, 5, 9, 13, 3, 5, 9, 13, 3, 5, 9, 13, 3, 5, 9, 13,
   3, 9, 11, 15, 3, 9, 11, 15, 3, 9, 11, 15, 3, 9, 11, 15]

/-- the value assigned by operation i to its first register, the registers being read in the order given -/
def op (X : List Word) (i : Nat) (a b c d : Word) : Word :=
  let x := X.getD (kTable.getD i 0) 0
  let s := sTable.getD i 0
  if i < 16 then (a + F b c d + x).rotateLeft s
  else if i < 32 then (a + G b c d + x + 0x5A827999#32).rotateLeft s
  else (a + H b c d + x + 0x6ED9EBA1#32).rotateLeft s

/-- operation i: roles ABCD, DABC, CDAB, BCDA in turn -/
def step (X : List Word) (s : State) (i : Nat) : State :=
  let (A, B, C, D) := s
  match i % 4 with
  | 0 => (op X i A B C D, B, C, D)
  | 1 => (A, B, C, op X i D A B C)
  | 2 => (A, B, op X i C D A B, D)
  | _ => (A, op X i B C D A, C, D)

/-- sixteen little-endian words of a 64-byte block -/
def parse (block : List Byte) : List Word := wordsLE 32 block

/-- §3.4 for one block given as its sixteen words X -/
def compressWords (s : State) (X : List Word) : State :=
  let (A, B, C, D) := (List.range 48).foldl (step X) s
  let (AA, BB, CC, DD) := s
  (A + AA, B + BB, C + CC, D + DD)

def compress (s : State) (block : List Byte) : State := compressWords s (parse block)

/-- §3.5: A, B, C, D, each low-order byte first -/
def out (s : State) : List Byte :=
  let (A, B, C, D) := s
  [A, B, C, D].flatMap fun h => leBytes 4 h.toNat

def md : MDHash State where
  blockLen := 64
  lenLen := 8
  encLen := leBytes 8
  init := iv
  compress := compress
  out := out

def md4 (bits : List Bool) : List Byte := md.hash bits

end Spec.Md4
