/-
  Spec.Blake — the BLAKE hash family as defined in the SHA-3 submission
  (Aumasson, Henzen, Meier, Phan: "SHA-3 proposal BLAKE", version 1.3, sections 2.1 (BLAKE-256), 2.2 (BLAKE-512),
  2.3 (BLAKE-224), 2.4 (BLAKE-384)).  Written on `BitVec w` words and bit lists, independently of crysp's plumbing.
  Constants, IVs and the permutations σ are typed from the document (they are arbitrary tables: digits of π, the
  SHA-2 initial values, ten fixed permutations).
-/
namespace Spec.Blake

/-- the ten permutations σ_0..σ_9 of {0..15} (submission, table 2.1) -/
def sigma : List (List Nat) :=
  [[ 0, 1, 2, 3, 4, 5, 6, 7, 8, 9,10,11,12,13,14,15],
   [14,10, 4, 8, 9,15,13, 6, 1,12, 0, 2,11, 7, 5, 3],
   [11, 8,12, 0, 5, 2,15,13,10,14, 3, 6, 7, 1, 9, 4],
   [ 7, 9, 3, 1,13,12,11,14, 2, 6, 5,10, 4, 0,15, 8],
   [ 9, 0, 5, 7, 2, 4,10,15,14, 1,11,12, 6, 8, 3,13],
   [ 2,12, 6,10, 0,11, 8, 3, 4,13, 7, 5,15,14, 1, 9],
   [12, 5, 1,15,14,13, 4,10, 0, 7, 6, 3, 9, 2, 8,11],
   [13,11, 7,14,12, 1, 3, 9, 5, 0,15, 4, 8, 6, 2,10],
   [ 6,15,14, 9,11, 3, 0, 8,12, 2,13, 7, 1, 4,10, 5],
   [10, 2, 8, 4, 7, 6, 1, 5,15,11, 9,14, 3,12,13, 0]]

/-- BLAKE-256 constants c_0..c_15: the first 512 bits of the fractional part of π -/
def c32 : List (BitVec 32) :=
  [0x243F6A88#32, 0x85A308D3#32, 0x13198A2E#32, 0x03707344#32,
   0xA4093822#32, 0x299F31D0#32, 0x082EFA98#32, 0xEC4E6C89#32,
   0x452821E6#32, 0x38D01377#32, 0xBE5466CF#32, 0x34E90C6C#32,
   0xC0AC29B7#32, 0xC97C50DD#32, 0x3F84D5B5#32, 0xB5470917#32]

/-- BLAKE-512 constants c_0..c_15: the first 1024 bits of the fractional part of π -/
def c64 : List (BitVec 64) :=
  [0x243F6A8885A308D3#64, 0x13198A2E03707344#64, 0xA4093822299F31D0#64, 0x082EFA98EC4E6C89#64,
   0x452821E638D01377#64, 0xBE5466CF34E90C6C#64, 0xC0AC29B7C97C50DD#64, 0x3F84D5B5B5470917#64,
   0x9216D5D98979FB1B#64, 0xD1310BA698DFB5AC#64, 0x2FFD72DBD01ADFB7#64, 0xB8E1AFED6A267E96#64,
   0xBA7C9045F12C7F99#64, 0x24A19947B3916CF7#64, 0x0801F2E2858EFC16#64, 0x636920D871574E69#64]

/-- initial values (those of SHA-256 / SHA-224 / SHA-512 / SHA-384) -/
def iv256 : List (BitVec 32) :=
  [0x6A09E667#32, 0xBB67AE85#32, 0x3C6EF372#32, 0xA54FF53A#32, 0x510E527F#32, 0x9B05688C#32, 0x1F83D9AB#32, 0x5BE0CD19#32]
def iv224 : List (BitVec 32) :=
  [0xC1059ED8#32, 0x367CD507#32, 0x3070DD17#32, 0xF70E5939#32, 0xFFC00B31#32, 0x68581511#32, 0x64F98FA7#32, 0xBEFA4FA4#32]
def iv512 : List (BitVec 64) :=
  [0x6A09E667F3BCC908#64, 0xBB67AE8584CAA73B#64, 0x3C6EF372FE94F82B#64, 0xA54FF53A5F1D36F1#64,
   0x510E527FADE682D1#64, 0x9B05688C2B3E6C1F#64, 0x1F83D9ABFB41BD6B#64, 0x5BE0CD19137E2179#64]
def iv384 : List (BitVec 64) :=
  [0xCBBB9D5DC1059ED8#64, 0x629A292A367CD507#64, 0x9159015A3070DD17#64, 0x152FECD8F70E5939#64,
   0x67332667FFC00B31#64, 0x8EB44A8768581511#64, 0xDB0C2E0D64F98FA7#64, 0x47B5481DBEFA4FA4#64]

/-- one member of the family -/
structure Variant where
  w : Nat
  rounds : Nat
  r0 : Nat
  r1 : Nat
  r2 : Nat
  r3 : Nat
  c : List (BitVec w)
  iv : List (BitVec w)
  /-- the bit written just before the length field: 1 for BLAKE-256/512, 0 for BLAKE-224/384 -/
  marker : Bool
  /-- digest length in bytes -/
  out : Nat

def blake256 : Variant := { w := 32, rounds := 14, r0 := 16, r1 := 12, r2 := 8, r3 := 7, c := c32, iv := iv256, marker := true, out := 32 }
def blake224 : Variant := { blake256 with iv := iv224, marker := false, out := 28 }
def blake512 : Variant := { w := 64, rounds := 16, r0 := 32, r1 := 25, r2 := 16, r3 := 11, c := c64, iv := iv512, marker := true, out := 64 }
def blake384 : Variant := { blake512 with iv := iv384, marker := false, out := 48 }

def variant? (n : Nat) : Option Variant :=
  if n = 224 then some blake224 else if n = 256 then some blake256
  else if n = 384 then some blake384 else if n = 512 then some blake512 else none

/-- block size in bits: 16 words -/
def Variant.block (V : Variant) : Nat := 16 * V.w

variable (V : Variant)

/-- the core of G_i: `mi = m_{σr(2i)}`, `mj = m_{σr(2i+1)}`, `ci = c_{σr(2i)}`, `cj = c_{σr(2i+1)}` -/
def G (mi mj ci cj a b c d : BitVec V.w) : BitVec V.w × BitVec V.w × BitVec V.w × BitVec V.w :=
  let a := a + b + (mi ^^^ cj)
  let d := (d ^^^ a).rotateRight V.r0
  let c := c + d
  let b := (b ^^^ c).rotateRight V.r1
  let a := a + b + (mj ^^^ ci)
  let d := (d ^^^ a).rotateRight V.r2
  let c := c + d
  let b := (b ^^^ c).rotateRight V.r3
  (a, b, c, d)

/-- the four state positions G_i works on: columns for i < 4, diagonals for 4 ≤ i < 8 -/
def positions (i : Nat) : Nat × Nat × Nat × Nat :=
  if i < 4 then (i, 4 + i, 8 + i, 12 + i)
  else (i - 4, 4 + (i - 3) % 4, 8 + (i - 2) % 4, 12 + (i - 1) % 4)

def at' (l : List (BitVec V.w)) (i : Nat) : BitVec V.w := l.getD i 0

/-- G_i applied to the state in round r -/
def Gi (m : List (BitVec V.w)) (r : Nat) (v : List (BitVec V.w)) (i : Nat) : List (BitVec V.w) :=
  let s := sigma.getD (r % 10) []
  let p := s.getD (2 * i) 0
  let q := s.getD (2 * i + 1) 0
  let (ja, jb, jc, jd) := positions i
  let (a, b, c, d) := G V (at' V m p) (at' V m q) (at' V V.c p) (at' V V.c q) (at' V v ja) (at' V v jb) (at' V v jc) (at' V v jd)
  (((v.set ja a).set jb b).set jc c).set jd d

/-- a round: G_0..G_3 (columns) then G_4..G_7 (diagonals) -/
def round (m : List (BitVec V.w)) (v : List (BitVec V.w)) (r : Nat) : List (BitVec V.w) :=
  (List.range 8).foldl (Gi V m r) v

/-- the compression function: chain value h (8 words), message block m (16 words), salt s (4 words), counter t
    (t0 = low word, t1 = high word) -/
def compress (h m s : List (BitVec V.w)) (t : Nat) : List (BitVec V.w) :=
  let t0 : BitVec V.w := BitVec.ofNat V.w t
  let t1 : BitVec V.w := BitVec.ofNat V.w (t / 2 ^ V.w)
  let v0 := h ++ (List.range 4).map (fun i => at' V s i ^^^ at' V V.c i)
      ++ [t0 ^^^ at' V V.c 4, t0 ^^^ at' V V.c 5, t1 ^^^ at' V V.c 6, t1 ^^^ at' V V.c 7]
  let v := (List.range V.rounds).foldl (round V m) v0
  (List.range 8).map fun i => at' V h i ^^^ at' V s (i % 4) ^^^ at' V v i ^^^ at' V v (i + 8)

/-! ### messages as bit strings -/

/-- bits of a byte, most significant first -/
def byteBits (b : Nat) : List Bool := (List.range 8).map fun i => b.testBit (7 - i)

/-- the first L bits of a byte string -/
def msgBits (M : List Nat) (L : Nat) : List Bool := (M.flatMap byteBits).take L

/-- k-bit big-endian representation of n -/
def natBits (k n : Nat) : List Bool := (List.range k).map fun i => n.testBit (k - 1 - i)

/-- value of a big-endian bit list -/
def bitsVal (bs : List Bool) : Nat := bs.foldl (fun acc b => 2 * acc + b.toNat) 0

/-- the padding appended to a message of `total` bits: 1, zeros, marker bit, 2w-bit length -/
def padding (total : Nat) : List Bool :=
  let B := V.block
  let k := (B - (total + 2 + 2 * V.w) % B) % B
  [true] ++ List.replicate k false ++ [V.marker] ++ natBits (2 * V.w) total

def chunk {α} (n : Nat) (l : List α) : List (List α) :=
  go n l l.length
where
  go (n : Nat) (l : List α) : Nat → List (List α)
    | 0 => []
    | fuel + 1 => if l.isEmpty then [] else l.take n :: go n (l.drop n) fuel

/-- a block of 16·w bits as 16 big-endian words -/
def blockWords (blk : List Bool) : List (BitVec V.w) := (chunk V.w blk).map fun b => BitVec.ofNat V.w (bitsVal b)

/-- the counter of the i-th block of the tail: message bits hashed so far including this block, 0 when the block
    holds no message bit (`done` bits were hashed before the tail, `L` = bits in the tail) -/
def counter (done L i : Nat) : Nat :=
  if i * V.block < L then done + min L ((i + 1) * V.block) else 0

/-- finish hashing: `h` is the chain value after `done` message bits (a multiple of the block size), `bits` the rest -/
def finish (h s : List (BitVec V.w)) (done : Nat) (bits : List Bool) : List (BitVec V.w) :=
  let L := bits.length
  let blocks := chunk V.block (bits ++ padding V (done + L))
  (blocks.zipIdx).foldl (fun h (bi : List Bool × Nat) => compress V h (blockWords V bi.1) s (counter V done L bi.2)) h

/-- the salt as four words, most significant first -/
def saltWords (salt : Nat) : List (BitVec V.w) := (List.range 4).map fun i => BitVec.ofNat V.w (salt / 2 ^ (V.w * (3 - i)))

def wordBytes (x : BitVec V.w) : List Nat := (List.range (V.w / 8)).map fun i => (x.toNat / 2 ^ (8 * (V.w / 8 - 1 - i))) % 256

def output (h : List (BitVec V.w)) : List Nat := (h.flatMap (wordBytes V)).take V.out

/-- BLAKE-n of the first L bits of M with the given salt -/
def hash (M : List Nat) (L : Nat) (salt : Nat := 0) : List Nat :=
  output V (finish V V.iv (saltWords V salt) 0 (msgBits M L))

/-- the same, continuing from the initial chain value as if `done` bits had been hashed (used to reach counters near 2^w) -/
def hashFrom (done : Nat) (M : List Nat) (L : Nat) (salt : Nat := 0) : List Nat :=
  output V (finish V V.iv (saltWords V salt) done (msgBits M L))

/-- the per-block counters of the one-shot hash -/
def counters (done L : Nat) : List Nat :=
  let n := (L + (padding V (done + L)).length) / V.block
  (List.range n).map (counter V done L)

end Spec.Blake
