/-
  Spec.ModeCiphers — the forward/inverse cipher functions CIPH_K / CIPH⁻¹_K that SP 800-38A is instantiated with:
  the block ciphers of the standards, with the key fixed, as `Spec.Mode.Cipher`s.

    fips197 K        AES (FIPS 197 Cipher / InvCipher), K of 16/24/32 bytes, 16-byte blocks
    fips46 K         DES (FIPS 46-3), K of 8 bytes, 8-byte blocks
    sp80067 ko       TDEA (SP 800-67 / FIPS 46-3 TDEA) with the key bundle `ko` (keying option 1, 2 or 3), 8-byte blocks
    serpent K        Serpent (AES submission), K of 0..32 bytes, 16-byte blocks
    threefish K T    Threefish-256/512/1024 (Skein 1.3, section 3.3), K of 32/64/128 bytes, tweak T of 16 bytes, |K|-byte blocks
  Where the standard does not define the cipher (wrong key or block length) the function value is the empty string;
  the mode theorems never evaluate them there.
-/
import Spec.Mode
import Spec.Aes
import Spec.Des
import Spec.Serpent
import Spec.Threefish
namespace Spec.ModeCiphers
open Spec.Mode

def fips197 (K : List Nat) : Cipher := ⟨16, Spec.Aes.cipher K, Spec.Aes.invCipher K⟩

def fips46 (K : List Nat) : Cipher :=
  ⟨8, fun b => (Spec.Des.enc K b).getD [], fun b => (Spec.Des.dec K b).getD []⟩

def sp80067 (ko : Spec.Des.Keying) : Cipher :=
  ⟨8, fun b => (Spec.Des.tdeaEnc ko b).getD [], fun b => (Spec.Des.tdeaDec ko b).getD []⟩

def serpent (K : List Nat) : Cipher :=
  ⟨16, fun b => (Spec.Serpent.enc K b).getD [], fun b => (Spec.Serpent.dec K b).getD []⟩

/-- `serpent K` with the 33 round keys computed once instead of once per block (the same functions: see
    `Proofs.Lemmas.ModeInst.serpentShared_eq`; used by the driver, where the key schedule is half of the work) -/
def serpentShared (K : List Nat) : Cipher :=
  let rk := Spec.Serpent.roundKeys (8 * K.length) (Spec.Serpent.leNat K)
  let f (g : List Spec.Serpent.State → Spec.Serpent.State → Spec.Serpent.State) (b : List Nat) : List Nat :=
    if K.length ≤ 32 ∧ b.length = 16 then
      Spec.Serpent.leBytes 16 (Spec.Serpent.natOfState (g rk (Spec.Serpent.stateOfNat (Spec.Serpent.leNat b))))
    else []
  ⟨16, f Spec.Serpent.encState, f Spec.Serpent.decState⟩

/-- Threefish with the block length of the key (32/64/128 bytes) and a 16-byte tweak -/
def threefish (K T : List Nat) : Cipher :=
  ⟨K.length, fun b => (Spec.Threefish.enc K T b).getD [], fun b => (Spec.Threefish.dec K T b).getD []⟩

/-- the key bundle denoted by the arguments of a `TDEA(K1,K2,K3)` call (SP 800-67 keying options):
    one string of 8/16/24 bytes, two 8-byte strings (option 2), three 8-byte strings (option 1) -/
def keyingOfCall (K1 : List Nat) (K2 K3 : Option (List Nat)) : Option Spec.Des.Keying :=
  match K2, K3 with
  | none, none => Spec.Des.keyingOfString K1
  | some k2, none => some (.opt2 K1 k2)
  | some k2, some k3 => some (.opt1 K1 k2 k3)
  | none, some _ => none

end Spec.ModeCiphers
