/-
  Spec.Hmac — RFC 2104 §2 / FIPS 198-1 §4 over bytes given as naturals below 256:
    K0 = K if |K| = B;  K zero-padded to B bytes if |K| < B;  H(K) zero-padded to B bytes if |K| > B
    HMAC(K,text) = H((K0 ⊕ opad) ‖ H((K0 ⊕ ipad) ‖ text)),  ipad = 0x36 repeated B times, opad = 0x5c repeated B times.
-/
namespace Spec

def hmacKey (H : List Nat → List Nat) (B : Nat) (K : List Nat) : List Nat :=
  let K1 := if K.length > B then H K else K
  K1 ++ List.replicate (B - K1.length) 0

def rfc2104 (H : List Nat → List Nat) (B : Nat) (K text : List Nat) : List Nat :=
  let K0 := hmacKey H B K
  H (K0.map (· ^^^ 0x5c) ++ H (K0.map (· ^^^ 0x36) ++ text))

end Spec
