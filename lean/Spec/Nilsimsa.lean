/-
  Spec.Nilsimsa — nilsimsa 0.2.4 (nilsimsa.c: `filltran`, `tran3`, `accbuf`, `makecode`, `bitcount`) written on
  byte lists by POSITION: the accumulator is the histogram of all trigram hashes, there is no running window state.

  * tran = filltran(): the table IS defined by this loop in the C source (target 53 there; the code generalises the
    multiplier), so the Spec is its transliteration:
        for (i=j=0;i<256;i++) { j=(j*53+1)&255; j+=j; if (j>255) j-=255;
                                for (k=0;k<i;k++) if (j==tran[k]) { j=(j+1)&255; k=0; }
                                tran[i]=j; }
    (after a hit the `for` increment makes the scan resume at k = 1).
  * tran3(a,b,c,n) = ((tran[(a+n)&255] ^ tran[b]*(n+n+1)) + tran[c^tran[n]]) & 255
  * for every position i with ch = d[i] and the four previous bytes l0 = d[i-1] … l3 = d[i-4]:
        i ≥ 2: acc[tran3(ch,l0,l1,0)]++
        i ≥ 3: acc[tran3(ch,l0,l2,1)]++, acc[tran3(ch,l1,l2,2)]++
        i ≥ 4: acc[tran3(ch,l0,l3,3)]++, acc[tran3(ch,l1,l3,4)]++, acc[tran3(ch,l2,l3,5)]++,
               acc[tran3(l3,l0,ch,6)]++, acc[tran3(l3,l2,ch,7)]++
  * total = 0,0,0,1,4 for 0..4 bytes, 8n-28 for n > 4; threshold = total/256; bit i of the code is set iff
    acc[i] > threshold; the digest is code[31] … code[0] (bit i lives in code[i>>3], bit i&7).
  * distance of two digests = number of differing bits.
  No executable nilsimsa exists in this image; the Spec is validated against the known answers of
  /repo/tests/test_nilsimsa.py only.
-/
namespace Spec.Nilsimsa

/-- the collision scan `for (k=…;k<i;k++) if (j==tran[k]) {j=(j+1)&255; k=0;}`: `todo` = tran[k..i);
    after a hit the scan resumes at k = 1; `fuel` bounds the number of loop iterations -/
def scan (tran : List Nat) : Nat → Nat → List Nat → Nat
  | 0, j, _ => j
  | _ + 1, j, [] => j
  | fuel + 1, j, t :: todo => if j = t then scan tran fuel ((j + 1) % 256) tran.tail else scan tran fuel j todo

def filltranAux (mult : Nat) : Nat → Nat → List Nat → List Nat
  | 0, _, tran => tran
  | n + 1, j, tran =>
    let j := (j * mult + 1) % 256
    let j := j + j
    let j := if j > 255 then j - 255 else j
    let j := scan tran (256 * 257) j tran
    filltranAux mult n j (tran ++ [j])

def filltran (mult : Nat) : List Nat := filltranAux mult 256 0 []

def tran3 (tran : List Nat) (a b c n : Nat) : Nat :=
  ((tran.getD ((a + n) % 256) 0 ^^^ (tran.getD b 0 * (n + n + 1))) + tran.getD (c ^^^ tran.getD n 0) 0) % 256

/-- the trigram hashes contributed by position i (the byte string is an array only for O(1) access) -/
def eventsAt (tran : List Nat) (d : Array Nat) (i : Nat) : List Nat :=
  let c (k : Nat) := d.getD (i - k) 0
  (if 2 ≤ i then [tran3 tran (c 0) (c 1) (c 2) 0] else [])
  ++ (if 3 ≤ i then [tran3 tran (c 0) (c 1) (c 3) 1, tran3 tran (c 0) (c 2) (c 3) 2] else [])
  ++ (if 4 ≤ i then [tran3 tran (c 0) (c 1) (c 4) 3, tran3 tran (c 0) (c 2) (c 4) 4, tran3 tran (c 0) (c 3) (c 4) 5,
                     tran3 tran (c 4) (c 1) (c 0) 6, tran3 tran (c 4) (c 3) (c 0) 7] else [])

def events (tran : List Nat) (d : Array Nat) : List Nat := (List.range d.size).flatMap (eventsAt tran d)

def total (n : Nat) : Nat := if n < 3 then 0 else if n = 3 then 1 else if n = 4 then 4 else 8 * n - 28

/-- bit i of the code -/
def codeBit (tran : List Nat) (d : Array Nat) (i : Nat) : Bool := (events tran d).count i > total d.size / 256

/-- the 32-byte digest, most significant code byte first -/
def nilsimsa (mult : Nat) (d : List Nat) : List Nat :=
  let tran := filltran mult
  let ev := events tran d.toArray
  let thr := total d.length / 256
  (List.range 32).map fun m =>
    ((List.range 8).map fun b => if ev.count (8 * (31 - m) + b) > thr then 2 ^ b else 0).sum

/-- number of one bits of a byte -/
def popcount8 (x : Nat) : Nat := ((List.range 8).map fun b => x / 2 ^ b % 2).sum

/-- Hamming distance of two equally long byte strings -/
def hamming (a b : List Nat) : Nat := (List.zipWith (fun x y => popcount8 (x ^^^ y)) a b).sum

end Spec.Nilsimsa
