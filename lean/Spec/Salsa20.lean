/-
  Spec.Salsa20 — D. J. Bernstein, "Salsa20 specification" (sections 2–10), written on 32-bit words (`BitVec 32`)
  and bytes (`BitVec 8`).  Nothing here comes from the code under verification: sigma/tau are the ASCII strings of
  the specification, the rounds are written out with the specification's index patterns.
  Salsa20/r (r even) uses r/2 doublerounds in the hash function.
-/
namespace Spec
namespace Salsa20

abbrev Word := BitVec 32
abbrev Byte := BitVec 8

/-- section 3: z1 = y1 ⊕ ((y0+y3) <<< 7), z2 = y2 ⊕ ((z1+y0) <<< 9), z3 = y3 ⊕ ((z2+z1) <<< 13), z0 = y0 ⊕ ((z3+z2) <<< 18) -/
def quarterround (y0 y1 y2 y3 : Word) : Word × Word × Word × Word :=
  let z1 := y1 ^^^ (y0 + y3).rotateLeft 7
  let z2 := y2 ^^^ (z1 + y0).rotateLeft 9
  let z3 := y3 ^^^ (z2 + z1).rotateLeft 13
  let z0 := y0 ^^^ (z3 + z2).rotateLeft 18
  (z0, z1, z2, z3)

/-- section 4 -/
def rowround : List Word → List Word
  | [y0, y1, y2, y3, y4, y5, y6, y7, y8, y9, y10, y11, y12, y13, y14, y15] =>
    let (z0, z1, z2, z3) := quarterround y0 y1 y2 y3
    let (z5, z6, z7, z4) := quarterround y5 y6 y7 y4
    let (z10, z11, z8, z9) := quarterround y10 y11 y8 y9
    let (z15, z12, z13, z14) := quarterround y15 y12 y13 y14
    [z0, z1, z2, z3, z4, z5, z6, z7, z8, z9, z10, z11, z12, z13, z14, z15]
  | _ => []

/-- section 5 -/
def columnround : List Word → List Word
  | [x0, x1, x2, x3, x4, x5, x6, x7, x8, x9, x10, x11, x12, x13, x14, x15] =>
    let (y0, y4, y8, y12) := quarterround x0 x4 x8 x12
    let (y5, y9, y13, y1) := quarterround x5 x9 x13 x1
    let (y10, y14, y2, y6) := quarterround x10 x14 x2 x6
    let (y15, y3, y7, y11) := quarterround x15 x3 x7 x11
    [y0, y1, y2, y3, y4, y5, y6, y7, y8, y9, y10, y11, y12, y13, y14, y15]
  | _ => []

/-- section 6 -/
def doubleround (x : List Word) : List Word := rowround (columnround x)

/-- section 4 as an index pattern: the quarterround of row r starts at its diagonal element, so position 4r+c of the
    regrouped vector reads y[4r + (r+c) mod 4] -/
def rowIndex : List Nat := (List.range 16).map fun p => 4 * (p / 4) + (p / 4 + p % 4) % 4
/-- section 5: columnround is rowround on the transposed matrix -/
def transposeIndex : List Nat := (List.range 16).map fun p => 4 * (p % 4) + p / 4
/-- inverse of a permutation of 0..n-1 given as a list -/
def inverseIndex (l : List Nat) : List Nat := (List.range l.length).map fun x => l.idxOf x

def iterate {α} (f : α → α) : Nat → α → α
  | 0, x => x
  | n + 1, x => iterate f n (f x)

/-- section 7: littleendian(b) = b0 + 2^8 b1 + 2^16 b2 + 2^24 b3 -/
def littleendian (b0 b1 b2 b3 : Byte) : Word :=
  BitVec.ofNat 32 (b0.toNat + 2 ^ 8 * b1.toNat + 2 ^ 16 * b2.toNat + 2 ^ 24 * b3.toNat)

/-- littleendian⁻¹ -/
def littleendianInv (w : Word) : List Byte :=
  [BitVec.ofNat 8 w.toNat, BitVec.ofNat 8 (w.toNat / 2 ^ 8), BitVec.ofNat 8 (w.toNat / 2 ^ 16), BitVec.ofNat 8 (w.toNat / 2 ^ 24)]

/-- a byte sequence read as little-endian words, four bytes at a time (a trailing group of fewer than 4 is dropped) -/
def words : List Byte → List Word
  | b0 :: b1 :: b2 :: b3 :: rest => littleendian b0 b1 b2 b3 :: words rest
  | _ => []

def unwords (ws : List Word) : List Byte := ws.flatMap littleendianInv

/-- section 8 on words, with `dr` doublerounds: z = doubleround^dr(x), output x_i + z_i -/
def coreWords (dr : Nat) (x : List Word) : List Word :=
  List.zipWith (· + ·) x (iterate doubleround dr x)

/-- section 8: the Salsa20 hash function on a 64-byte sequence (`dr` = 10 is Salsa20 = Salsa20/20) -/
def hashR (dr : Nat) (x : List Byte) : List Byte := unwords (coreWords dr (words x))

def hash (x : List Byte) : List Byte := hashR 10 x

def ascii (s : String) : List Byte := s.toList.map fun c => BitVec.ofNat 8 c.toNat

/-- section 9: σ = "expand 32-byte k", τ = "expand 16-byte k" -/
def sigma : List Byte := ascii "expand 32-byte k"
def tau : List Byte := ascii "expand 16-byte k"

/-- section 9: Salsa20_k(n) input block for a 32-byte key (σ0,k0,σ1,n,σ2,k1,σ3) or a 16-byte key (τ0,k,τ1,n,τ2,k,τ3);
    n has 16 bytes -/
def expand (k n : List Byte) : Option (List Byte) :=
  if k.length = 32 then
    some (sigma.take 4 ++ k.take 16 ++ (sigma.drop 4).take 4 ++ n ++ (sigma.drop 8).take 4 ++ k.drop 16 ++ sigma.drop 12)
  else if k.length = 16 then
    some (tau.take 4 ++ k ++ (tau.drop 4).take 4 ++ n ++ (tau.drop 8).take 4 ++ k ++ tau.drop 12)
  else none

/-- the unique 8-byte sequence i_ with i = i_0 + 2^8 i_1 + … + 2^56 i_7 (i < 2^64) -/
def le64 (i : Nat) : List Byte := (List.range 8).map fun j => BitVec.ofNat 8 (i / 2 ^ (8 * j))

/-- section 10: the i-th 64-byte keystream block Salsa20_k(v, i_) of Salsa20/(2·dr) -/
def block (dr : Nat) (k v : List Byte) (i : Nat) : Option (List Byte) :=
  (expand k (v ++ le64 i)).map (hashR dr)

/-- blocks b0, b0+1, …, b0+n-1 concatenated -/
def keystream (dr : Nat) (k v : List Byte) (b0 : Nat) : Nat → Option (List Byte)
  | 0 => some []
  | n + 1 => do
    let b ← block dr k v b0
    let r ← keystream dr k v (b0 + 1) n
    pure (b ++ r)

def xorBytes (m ks : List Byte) : List Byte := List.zipWith (· ^^^ ·) m ks

/-- section 10: the encryption of an l-byte message m is m ⊕ the first l bytes of the stream, the stream
    starting with block `b0` (0 for the cipher itself).  Defined for 8-byte v, 16/32-byte k, and while the block
    numbers stay below 2^64. -/
def encFrom (dr : Nat) (k v : List Byte) (b0 : Nat) (m : List Byte) : Option (List Byte) :=
  let n := (m.length + 63) / 64
  if v.length ≠ 8 ∨ b0 + n > 2 ^ 64 then none else
  (keystream dr k v b0 n).map (xorBytes m)

def enc (dr : Nat) (k v m : List Byte) : Option (List Byte) := encFrom dr k v 0 m

end Salsa20
end Spec
