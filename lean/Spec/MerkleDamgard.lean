/-
  Spec.MerkleDamgard — the common frame of RFC 1320 §3, RFC 1321 §3 and FIPS 180-4 §5–6:

    1. append a single 1 bit, then the least number k ≥ 0 of 0 bits such that the length becomes congruent to
       (block − length field) modulo the block size, then the message length ℓ (in bits) in the length field;
    2. cut the result into blocks;
    3. H(0) = IV,  H(i) = compress(H(i−1), M(i));
    4. the digest is the serialisation of the last chaining value.

  `hashFrom` is the same computation started from an arbitrary chaining value that has already absorbed
  `done` bits (a multiple of the block size): it is what the standards' iteration does after the first
  `done/blocksize` blocks, and `hash = hashFrom IV 0`.
-/
import Spec.Bytes
namespace Spec

structure MDHash (σ : Type) where
  /-- block size in bytes -/
  blockLen : Nat
  /-- size of the length field in bytes -/
  lenLen : Nat
  /-- encoding of the message bit length in the length field -/
  encLen : Nat → List Byte
  init : σ
  compress : σ → List Byte → σ
  out : σ → List Byte

namespace MDHash
variable {σ : Type} (h : MDHash σ)

/-- the least k ≥ 0 with ℓ + 1 + k + 8·lenLen ≡ 0 (mod 8·blockLen) -/
def zeros (l : Nat) : Nat := (8 * h.blockLen - (l + 1 + 8 * h.lenLen) % (8 * h.blockLen)) % (8 * h.blockLen)

/-- the padded tail of a message of `done + |bits|` bits of which `done` bits (whole blocks) are already absorbed -/
def padFrom (done : Nat) (bits : List Bool) : List Byte :=
  let l := done + bits.length
  bitsToBytes (bits ++ [true] ++ List.replicate (h.zeros l) false) ++ h.encLen l

def absorb (s : σ) (blocks : List (List Byte)) : σ := blocks.foldl h.compress s

def hashFrom (s : σ) (done : Nat) (bits : List Bool) : List Byte :=
  h.out (h.absorb s (groups h.blockLen (h.padFrom done bits)))

/-- the digest of a bit string -/
def hash (bits : List Bool) : List Byte := h.hashFrom h.init 0 bits

end MDHash
end Spec
