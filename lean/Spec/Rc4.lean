/-
  Spec.Rc4 — RC4 as published (KSA, PRGA) on a 256-entry byte array; indices and entries are bytes (`BitVec 8`),
  so every "mod 256" of the description is the arithmetic of the type.
-/
namespace Spec
namespace Rc4

abbrev Byte := BitVec 8

/-- S[i] -/
def at' (S : List Byte) (i : Byte) : Byte := S.getD i.toNat 0

/-- swap values of S[i] and S[j] -/
def swap (S : List Byte) (i j : Byte) : List Byte :=
  (S.set i.toNat (at' S j)).set j.toNat (at' S i)

def identity : List Byte := (List.range 256).map (BitVec.ofNat 8)

/-- for i from 0 to 255: j := (j + S[i] + key[i mod keylength]) mod 256; swap S[i], S[j] -/
def ksaStep (key : List Byte) (st : List Byte × Byte) (i : Nat) : List Byte × Byte :=
  let (S, j) := st
  let j := j + S.getD i 0 + key.getD (i % key.length) 0
  (swap S (BitVec.ofNat 8 i) j, j)

def ksa (key : List Byte) : List Byte := ((List.range 256).foldl (ksaStep key) (identity, 0)).1

structure St where
  S : List Byte
  i : Byte
  j : Byte
deriving Repr, DecidableEq

def start (key : List Byte) : St := ⟨ksa key, 0, 0⟩

/-- i := i+1; j := j+S[i]; swap S[i],S[j]; output S[S[i]+S[j]] -/
def prgaStep (st : St) : Byte × St :=
  let i := st.i + 1
  let j := st.j + at' st.S i
  let S := swap st.S i j
  (at' S (at' S i + at' S j), ⟨S, i, j⟩)

def prga : Nat → St → List Byte × St
  | 0, st => ([], st)
  | n + 1, st =>
    let (k, st) := prgaStep st
    let (ks, st) := prga n st
    (k :: ks, st)

/-- ciphertext = message ⊕ the next |message| keystream bytes; the generator state carries on -/
def enc (st : St) (m : List Byte) : List Byte × St :=
  let (ks, st) := prga m.length st
  (List.zipWith (· ^^^ ·) m ks, st)

/-- one-shot encryption under a key -/
def encrypt (key m : List Byte) : List Byte := (enc (start key) m).1

end Rc4
end Spec
