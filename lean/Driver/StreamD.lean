/-
  Driver.StreamD — line-protocol handlers for Salsa20 / ChaCha / RC4 (C06) and the Salsa/ChaCha index maps (C03 part).

    salsa.enc|dec  <key|None> <nonce> <rounds> <block0> <msg>      -> ciphertext            (model, spec)
    salsa.state    <key|None> <nonce> <rounds> <block0> <msg>      -> ciphertext;p words    (model)
    salsa.rt       <key> <nonce> <rounds> <block0> <msg>           -> dec(enc(msg)) on one object
    salsa.prefix   <key> <nonce> <rounds> <block0> <msg> <n>       -> enc(msg[:n])|enc(msg)
    salsa.ks       <key> <nonce> <rounds> <block0> <n>             -> n keystream blocks
    salsa.hash     <bytes>                                          -> Salsa20().hash
    salsa.qr|row|col|dbl  l<words>                                  -> component on a Poly of ring 2^32
    chacha.*       the same for class Chacha
    rc4.seq <key> | e <piece> | d <piece> | k <n> | s <text> …      -> outputs ; final i,j,S   (s: a str message, refused)
    idx.map <salsa|chacha> <rM|rMinv|cM|cMinv>                      -> the index map
    idx.inv <salsa|chacha> <r|c> <i>                                -> inv[map[i]],map[inv[i]]
    idx.gather <salsa|chacha> <r|c> l<words>                        -> y[map][inv]|y[inv][map]
-/
import Driver.Wire
import Model.Salsa
import Model.Chacha
import Model.Rc4
import Spec.Salsa20
import Spec.Chacha
import Spec.Rc4
namespace Driver.StreamD
open Model Driver

def toB (l : List Nat) : List (BitVec 8) := l.map (BitVec.ofNat 8)
def ofB (l : List (BitVec 8)) : List Nat := l.map (·.toNat)
def toW (l : List Nat) : List (BitVec 32) := l.map (BitVec.ofNat 32)
def ofW (l : List (BitVec 32)) : List Nat := l.map (·.toNat)

def splitBar (toks : List String) : List (List String) :=
  let rec go : List String → List String → List (List String) → List (List String)
    | [], cur, acc => (cur.reverse :: acc).reverse
    | "|" :: ts, cur, acc => go ts [] (cur.reverse :: acc)
    | t :: ts, cur, acc => go ts (t :: cur) acc
  go toks [] []

inductive Cipher | salsa | chacha
deriving DecidableEq

def Cipher.variant : Cipher → Salsa.Variant
  | .salsa => Salsa.salsa
  | .chacha => Chacha.chacha

def Cipher.init : Cipher → Option Bits → Int → Except Err Salsa.State
  | .salsa => Salsa.init
  | .chacha => Chacha.init

def parseKey? (s : String) : Option (Option (List Nat)) :=
  if s = "None" then some none else (parseBytes? s).map some

def mkState (c : Cipher) (key : Option (List Nat)) (rounds : Int) : Except Err Salsa.State := do
  let K ← (match key with
    | none => pure none
    | some k => do let b ← Bits.ofBytes k none 1; pure (some b) : Except Err (Option Bits))
  c.init K rounds

def fmtPolyNat (p : Poly) : String := fmtIntList p.ival

/-- the Spec's number of doublerounds: defined for positive even round counts -/
def specDr (rounds : Int) : Option Nat := if rounds > 0 ∧ rounds % 2 = 0 then some (rounds / 2).toNat else none

def specEnc (c : Cipher) (key : Option (List Nat)) (nonce : List Nat) (rounds : Int) (b0 : Nat) (m : List Nat) :
    Option (List Nat) := do
  let k ← key
  let dr ← specDr rounds
  let r ← (match c with
    | .salsa => Spec.Salsa20.encFrom dr (toB k) (toB nonce) b0 (toB m)
    | .chacha => Spec.Chacha.encFrom dr (toB k) (toB nonce) b0 (toB m))
  pure (ofB r)

def specBlock (c : Cipher) (key : List Nat) (nonce : List Nat) (rounds : Int) (i : Nat) : Option (List Nat) := do
  let dr ← specDr rounds
  if nonce.length ≠ 8 ∨ i ≥ 2 ^ 64 then none
  let r ← (match c with
    | .salsa => Spec.Salsa20.block dr (toB key) (toB nonce) i
    | .chacha => Spec.Chacha.block dr (toB key) (toB nonce) i)
  pure (ofB r)

def fmtO (f : α → String) : Option α → String
  | some a => f a
  | none => "-"

/-- `next()` n times on the generator `keystream(v)` -/
def ksBlocks (V : Salsa.Variant) (s : Salsa.State) : Nat → Nat → Except Err (List Poly)
  | _, 0 => .ok []
  | i, n + 1 =>
    if i < 2 ^ 64 then do
      let (ks, s) ← Salsa.block V s i
      let x ← ks.split 8
      let rest ← ksBlocks V s (i + 1) n
      pure (x :: rest)
    else .error "StopIteration"

def polyBytes (p : Poly) : List Nat := p.ival.map Int.toNat

def cipherOps (c : Cipher) (op : String) (args : List String) : Option (String × String) :=
  let V := c.variant
  match op, args with
  | "enc", [k, v, r, b0, m] | "dec", [k, v, r, b0, m] => do
      let k ← parseKey? k; let v ← parseBytes? v; let r ← parseInt? r; let b0 ← parseNat? b0; let m ← parseBytes? m
      let res : Except Err (List Nat) := do
        let st ← mkState c k r
        let nv ← Bits.ofBytes v none 1
        let (out, _) ← Salsa.encFrom V st nv b0 m
        pure out
      pure (fmtE fmtBytes res, fmtO fmtBytes (specEnc c k v r b0 m))
  | "state", [k, v, r, b0, m] => do
      let k ← parseKey? k; let v ← parseBytes? v; let r ← parseInt? r; let b0 ← parseNat? b0; let m ← parseBytes? m
      let res : Except Err (List Nat × Salsa.State) := do
        let st ← mkState c k r
        let nv ← Bits.ofBytes v none 1
        Salsa.encFrom V st nv b0 m
      pure (fmtE (fun (o, st) => fmtBytes o ++ ";" ++ fmtPolyNat st.p ++ ";" ++ toString st.dround) res, "-")
  | "rt", [k, v, r, b0, m] => do
      let k ← parseKey? k; let v ← parseBytes? v; let r ← parseInt? r; let b0 ← parseNat? b0; let m ← parseBytes? m
      let res : Except Err (List Nat) := do
        let st ← mkState c k r
        let nv ← Bits.ofBytes v none 1
        let (ct, st) ← Salsa.encFrom V st nv b0 m
        let (pt, _) ← Salsa.encFrom V st nv b0 ct
        pure pt
      let sp : Option (List Nat) := do
        let ct ← specEnc c k v r b0 m
        specEnc c k v r b0 ct
      pure (fmtE fmtBytes res, fmtO fmtBytes sp)
  | "prefix", [k, v, r, b0, m, n] => do
      let k ← parseKey? k; let v ← parseBytes? v; let r ← parseInt? r; let b0 ← parseNat? b0; let m ← parseBytes? m
      let n ← parseNat? n
      let res : Except Err (List Nat × List Nat) := do
        let st ← mkState c k r
        let nv ← Bits.ofBytes v none 1
        let (a, st) ← Salsa.encFrom V st nv b0 (m.take n)
        let (b, _) ← Salsa.encFrom V st nv b0 m
        pure (a, b)
      let sp : Option (List Nat × List Nat) := do
        let a ← specEnc c k v r b0 (m.take n)
        let b ← specEnc c k v r b0 m
        pure (a, b)
      let f := fun (ab : List Nat × List Nat) => fmtBytes ab.1 ++ "|" ++ fmtBytes ab.2
      pure (fmtE f res, fmtO f sp)
  | "ks", [k, v, r, b0, n] => do
      let k ← parseKey? k; let v ← parseBytes? v; let r ← parseInt? r; let b0 ← parseNat? b0; let n ← parseNat? n
      let res : Except Err (List Poly) := do
        let st ← mkState c k r
        let nv ← Bits.ofBytes v none 1
        let st ← Salsa.setNonce V st nv
        ksBlocks V st b0 n
      let sp : Option (List (List Nat)) := do
        let k ← k
        (List.range n).mapM fun i => specBlock c k v r (b0 + i)
      let f := fun (l : List (List Nat)) => ";".intercalate (l.map fmtBytes)
      pure (fmtE (fun l => f (l.map polyBytes)) res, fmtO f sp)
  | "hash", [m] => do
      let m ← parseBytes? m
      let sp : Option (List Nat) :=
        if m.length = 64 then
          match c with
          | .salsa => some (ofB (Spec.Salsa20.hash (toB m)))
          | .chacha => some (ofB (Spec.Salsa20.unwords (Spec.Chacha.coreWords 10 (Spec.Salsa20.words (toB m)))))
        else none
      pure (fmtE fmtBytes (Salsa.hash V m), fmtO fmtBytes sp)
  | "qr", [l] => do
      let l ← parseNatList? l
      let sp : Option (List Nat) :=
        match toW l, c with
        | [a, b, c', d], .salsa => let (w, x, y, z) := Spec.Salsa20.quarterround a b c' d; some (ofW [w, x, y, z])
        | [a, b, c', d], .chacha => let (w, x, y, z) := Spec.Chacha.quarterround a b c' d; some (ofW [w, x, y, z])
        | _, _ => none
      pure (fmtE fmtPolyNat (V.qr (Poly.ofList (l.map Int.ofNat) 32)), fmtO fmtNatList sp)
  | "row", [l] | "col", [l] | "dbl", [l] => do
      let l ← parseNatList? l
      let x := Poly.ofList (l.map Int.ofNat) 32
      let m := match op with
        | "row" => Salsa.rowround V x
        | "col" => Salsa.columnround V x
        | _ => Salsa.doubleround V x
      let sp : Option (List Nat) :=
        if l.length ≠ 16 then none else
        let w := toW l
        some (ofW (match op, c with
          | "row", .salsa => Spec.Salsa20.rowround w
          | "col", .salsa => Spec.Salsa20.columnround w
          | _, .salsa => Spec.Salsa20.doubleround w
          | "row", .chacha => Spec.Chacha.diagonalround w
          | "col", .chacha => Spec.Chacha.columnround w
          | _, .chacha => Spec.Chacha.doubleround w))
      pure (fmtE fmtPolyNat m, fmtO fmtNatList sp)
  | _, _ => none

-- ---------------------------------------------------------------------------------------------
-- RC4
def fmtRc4State (S : List Int) (i j : Int) : String := s!"{i},{j}," ++ fmtBytes (S.map Int.toNat)

def rc4Model (st : Rc4.State) : List (List String) → List String → Option (List String)
  | [], acc => some (fmtRc4State st.S.ival st.i st.j :: acc).reverse
  | step :: rest, acc =>
    let r : Option (Except Err (String × Rc4.State)) :=
      match step with
      | ["e", m] => do
          let m ← parseBytes? m
          pure (do let (c, st) ← Rc4.enc st m; pure (fmtBytes c, st))
      | ["d", m] => do
          let m ← parseBytes? m
          pure (do let (c, st) ← Rc4.dec st m; pure (fmtBytes c, st))
      | ["k", n] => do
          let n ← parseNat? n
          pure (do let (ks, st) ← Rc4.keystream st n; pure (fmtIntList ks.ival, st))
      | ["s", m] => do          -- a text (str) message: outside the byte-string domain, refused; the stream does not move
          let _ ← parseBytes? m
          pure (.ok ("REFUSED", st))
      | _ => none
    match r with
    | none => none
    | some (.error _) => some ("ERR" :: acc).reverse
    | some (.ok (s, st)) => rc4Model st rest (s :: acc)

def rc4Spec (st : Spec.Rc4.St) : List (List String) → List String → Option (List String)
  | [], acc => some (fmtRc4State (st.S.map fun b => Int.ofNat b.toNat) st.i.toNat st.j.toNat :: acc).reverse
  | step :: rest, acc =>
    match step with
    | ["e", m] | ["d", m] =>
      match parseBytes? m with
      | none => none
      | some m => let (c, st) := Spec.Rc4.enc st (toB m); rc4Spec st rest (fmtBytes (ofB c) :: acc)
    | ["k", n] =>
      match parseNat? n with
      | none => none
      | some n => let (ks, st) := Spec.Rc4.prga n st; rc4Spec st rest (fmtNatList (ofB ks) :: acc)
    | ["s", m] =>
      match parseBytes? m with
      | none => none
      | some _ => rc4Spec st rest ("REFUSED" :: acc)
    | _ => none

def rc4Ops (op : String) (args : List String) : Option (String × String) :=
  match op, args with
  | "seq", k :: "|" :: rest => do
      let k ← parseBytes? k
      let steps := splitBar rest
      let steps := if rest.isEmpty then [] else steps
      let m ← (match Rc4.init k with
        | .error _ => some "ERR"
        | .ok st => (rc4Model st steps []).map (";".intercalate ·))
      let s ← (if k.length = 0 ∨ k.length > 256 then some "-"
        else (rc4Spec (Spec.Rc4.start (toB k)) steps []).map (";".intercalate ·))
      pure (m, s)
  | "seq", [k] => do
      let k ← parseBytes? k
      let m ← (match Rc4.init k with
        | .error _ => some "ERR"
        | .ok st => (rc4Model st [] []).map (";".intercalate ·))
      let s ← (if k.length = 0 ∨ k.length > 256 then some "-"
        else (rc4Spec (Spec.Rc4.start (toB k)) [] []).map (";".intercalate ·))
      pure (m, s)
  | _, _ => none

-- ---------------------------------------------------------------------------------------------
-- index maps: model = what the code holds (Gen), spec = the position rule of the specifications
namespace Idx
def salsaRow : List Nat := Spec.Salsa20.rowIndex
def transpose : List Nat := Spec.Salsa20.transposeIndex
def chachaDiag : List Nat := Spec.Chacha.diagIndex
def inverse (l : List Nat) : List Nat := Spec.Salsa20.inverseIndex l
end Idx

def genMap (c : Cipher) (n : String) : Option (List Nat) :=
  match c, n with
  | .salsa, "rM" => some Gen.Streams.salsaRM
  | .salsa, "rMinv" => some Gen.Streams.salsaRMinv
  | .salsa, "cM" => some Gen.Streams.salsaCM
  | .salsa, "cMinv" => some Gen.Streams.salsaCMinv
  | .chacha, "rM" => some Gen.Streams.chachaRM
  | .chacha, "rMinv" => some Gen.Streams.chachaRMinv
  | .chacha, "cM" => some Gen.Streams.chachaCM
  | .chacha, "cMinv" => some Gen.Streams.chachaCMinv
  | _, _ => none

/-- the four gathers `x[cM][rM]`-style compositions the two specifications prescribe: a quarterround group g of the
    row (resp. column) round reads these four positions of the state -/
def specMap (c : Cipher) (n : String) : Option (List Nat) :=
  match c, n with
  | .salsa, "rM" => some Idx.salsaRow
  | .salsa, "rMinv" => some (Idx.inverse Idx.salsaRow)
  | .salsa, "cM" => some Idx.transpose
  | .salsa, "cMinv" => some (Idx.inverse Idx.transpose)
  | .chacha, "rM" => some Idx.chachaDiag
  | .chacha, "rMinv" => some (Idx.inverse Idx.chachaDiag)
  | .chacha, "cM" => some (Idx.inverse Idx.salsaRow)
  | .chacha, "cMinv" => some Idx.salsaRow
  | _, _ => none

def parseCipher? (s : String) : Option Cipher :=
  if s = "salsa" then some .salsa else if s = "chacha" then some .chacha else none

def idxOps (op : String) (args : List String) : Option (String × String) :=
  match op, args with
  | "map", [c, n] => do
      let c ← parseCipher? c
      let g ← genMap c n; let s ← specMap c n
      pure (fmtNatList g, fmtNatList s)
  | "inv", [c, w, i] => do
      let c ← parseCipher? c; let i ← parseInt? i
      let (f, g) ← (if w = "r" then do pure (← genMap c "rM", ← genMap c "rMinv")
                    else if w = "c" then do pure (← genMap c "cM", ← genMap c "cMinv") else none)
      let res : Except Err (Int × Int) := do
        let a ← Poly.pyGet (Salsa.ints f) i
        let b ← Poly.pyGet (Salsa.ints g) a
        let a' ← Poly.pyGet (Salsa.ints g) i
        let b' ← Poly.pyGet (Salsa.ints f) a'
        pure (b, b')
      let sp := if 0 ≤ i ∧ i < 16 then s!"{i},{i}" else "-"
      pure (fmtE (fun (a, b) => s!"{a},{b}") res, sp)
  | "gather", [c, w, l] => do
      let c ← parseCipher? c; let l ← parseNatList? l
      let (f, g) ← (if w = "r" then do pure (← genMap c "rM", ← genMap c "rMinv")
                    else if w = "c" then do pure (← genMap c "cM", ← genMap c "cMinv") else none)
      let y := Poly.ofList (l.map Int.ofNat) 32
      let res : Except Err (Poly × Poly) := do
        let a ← (← y.getList (Salsa.ints f)).getList (Salsa.ints g)
        let b ← (← y.getList (Salsa.ints g)).getList (Salsa.ints f)
        pure (a, b)
      let sp := if l.length = 16 ∧ l.all (· < 2 ^ 32) then fmtNatList l ++ "|" ++ fmtNatList l else "-"
      pure (fmtE (fun (a, b) => fmtPolyNat a ++ "|" ++ fmtPolyNat b) res, sp)
  | _, _ => none

def handle : Handler := fun op args =>
  match op.splitOn "." with
  | ["salsa", o] => cipherOps .salsa o args
  | ["chacha", o] => cipherOps .chacha o args
  | ["rc4", o] => rc4Ops o args
  | ["idx", o] => idxOps o args
  | _ => none

end Driver.StreamD
