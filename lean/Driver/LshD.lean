/-
  Driver.LshD — line-protocol handlers for Model.Tlsh / Model.Nilsimsa (C19, Nilsimsa part of C14).

    tlsh <buckets> <window> <chklen> <force T/F> <data>          digest | none | ERR            (model, spec)
    tlsh.rt <buckets> <window> <chklen> <force T/F> <data>       TLSH(cfg).from_hash(digest).digest().lsh_code | none | ERR
    tlsh.final <buckets> <window> <chklen> <force> <l-list of bucket counts> <data_len> <checksum bytes>
                                                                  final(b'',force).digest() on an object whose a_bucket / data_len /
                                                                  checksum were set directly: digest | none | ERR   (model, spec)
    tlsh.qscan <buckets> <window> <chklen> <q3> <mode d|t>        the Q byte (2 hex digits; `--` = None, `EE` = exception) of the state
                                                                  `scanBuckets` for q1=q2=0..q3 (d) / all 0≤q1≤q2≤q3 (t)  (model, spec)
    tlsh.qexact <lo> <hi>                                         `n=<number of pairs 0≤q≤q3, lo≤q3<hi>;bad=`: the model's claim that the
                                                                  float Q-ratio expressions of the source equal q*100/q3 % 16 on all of them
    tlsh.lcap <len>                                               l_capturing for data_len=len   (Float.log instance)
    tlsh.lcaprange <lo> <hi>                                      `len:value` at lo and at every change in [lo,hi)
    tlsh.fromhash <buckets> <window> <chklen> <digest>            re-serialised digest and fields | ERR
    tlsh.dist <buckets> <window> <chklen> <d1> <d2> <form> <lv>   form oo|ob|bo|bb|all; `dxy;dyx;dxx` per form
    tlsh.ddist <buckets> <window> <chklen> <force> <m1> <m2> <lv> hash both, `oo;ob;bo;bb;oo(y,x);oo(x,x)`
    nilsimsa <target> <data>                                      32-byte digest                 (model, spec)
    nilsimsa.tran <target>                                        the 256-entry table            (model, spec)
    nilsimsa.seq <target> | <a> | <b> …                           update(a).update(b)….digest()  (model, spec of a‖b‖…)
    nilsimsa.seqs <t0>,<t1>,… | <k> new | <k> u <hex> | <k> d | <k> r | <k> c <hex> | …
                                                                  SEVERAL objects (targets t_k), each used for several messages:
                                                                  new = Nilsimsa(t_k), u = update, d = digest(), r = reset(), c = __call__;
                                                                  per step `-` (new, r), `n<count>` (u), the digest (d, c);
                                                                  spec: every digest from the bytes fed to THAT object since its last
                                                                  new / d / r / c
    nilsimsa.dist <d1> <d2>                                       Bits(d1).hd(d2) | ERR          (model, spec)

  `lcap` is instantiated with Lean's `Float.log` (IEEE double, libm) — the only place floats occur.
-/
import Driver.Wire
import Model.Tlsh
import Model.Nilsimsa
import Spec.Tlsh
import Spec.Nilsimsa
import Model.Multi
namespace Driver.LshD
open Model Driver

/-- `l_capturing` with `data_len = l` (l ≥ 1): `floor(log(l,base) [- c])`, `math.log(x,b) = log(x)/log(b)` -/
def lcapF (l : Nat) : Nat :=
  let x := l.toFloat
  let i :=
    if l ≤ 656 then Float.floor (Float.log x / Float.log 1.5)
    else if l ≤ 3199 then Float.floor (Float.log x / Float.log 1.3 - 8.72777)
    else Float.floor (Float.log x / Float.log 1.1 - 62.5472)
  i.toUInt64.toNat

def splitBar (toks : List String) : List (List String) :=
  let rec go : List String → List String → List (List String) → List (List String)
    | [], cur, acc => (cur.reverse :: acc).reverse
    | "|" :: ts, cur, acc => go ts [] (cur.reverse :: acc)
    | t :: ts, cur, acc => go ts (t :: cur) acc
  go toks [] []

def fmtOptBytes : Except Err (Option (List Nat)) → String
  | .ok (some d) => fmtBytes d
  | .ok none => "none"
  | .error _ => "ERR"

def fmtOptNat : Except Err (Option Nat) → String
  | .ok (some d) => toString d
  | .ok none => "none"
  | .error _ => "ERR"

def parseCfg? (b w c : String) : Option Tlsh.Cfg := do
  let b ← parseNat? b; let w ← parseNat? w; let c ← parseNat? c
  pure ⟨b, w, c⟩

def lcapRange (lo hi : Nat) : String :=
  let rec go (n l : Nat) (prev : Option Nat) (acc : List String) : List String :=
    match n with
    | 0 => acc.reverse
    | n + 1 =>
      let v := lcapF l % 256
      if prev = some v then go n (l + 1) prev acc else go n (l + 1) (some v) (s!"{l}:{v}" :: acc)
  ",".intercalate (go (hi - lo) lo none [])

/-- operand of `distance` in form 'o' (object made by `TLSH(cfg).from_hash(d)`) or 'b' (raw bytes) -/
def mkOperand (c : Tlsh.Cfg) (form : Char) (d : List Nat) : Except Err Tlsh.Operand :=
  if form = 'o' then
    if c.valid = false then .error "AssertionError" else (Tlsh.fromHash c d).map .obj
  else .ok (.raw d)

def dist1 (x y : Except Err Tlsh.Operand) (lv : Bool) : String :=
  fmtOptNat (do let a ← x; let b ← y; Tlsh.distance a b lv)

def distForm (c : Tlsh.Cfg) (f1 f2 : Char) (d1 d2 : List Nat) (lv : Bool) : String :=
  let x1 := mkOperand c f1 d1
  let y2 := mkOperand c f2 d2
  let x2 := mkOperand c f2 d1
  ";".intercalate [dist1 x1 y2 lv, dist1 y2 x1 lv, dist1 x1 x2 lv]

def specDistForm (c : Tlsh.Cfg) (d1 d2 : List Nat) (lv : Bool) : String :=
  ";".intercalate [toString (Spec.Tlsh.distance c.chklen d1 d2 lv), toString (Spec.Tlsh.distance c.chklen d2 d1 lv),
                   toString (Spec.Tlsh.distance c.chklen d1 d1 lv)]

def forms : List (String × Char × Char) := [("oo", 'o', 'o'), ("ob", 'o', 'b'), ("bo", 'b', 'o'), ("bb", 'b', 'b')]

/-- the bucket array of `tlsh.qscan`: a quarter of the first `b` buckets at each of q1, q2, q3, q3+1 (so the order
    statistics are exactly q1 ≤ q2 ≤ q3), the buckets beyond `b` (ignored by 48/128-bucket configurations) at q3+7 -/
def scanBuckets (b q1 q2 q3 : Nat) : List Nat :=
  let l := b / 4
  List.replicate l q1 ++ List.replicate l q2 ++ List.replicate l q3 ++ List.replicate l (q3 + 1)
    ++ List.replicate (256 - 4 * l) (q3 + 7)

def scanPairs (q3 : Nat) (mode : String) : List (Nat × Nat) :=
  if mode = "d" then (List.range (q3 + 1)).map fun q => (q, q)
  else (List.range (q3 + 1)).flatMap fun q1 => (List.range (q3 + 1 - q1)).map fun k => (q1, q1 + k)

def hex2 (b : Nat) : String := String.ofList [hexDigit ((b / 16) % 16), hexDigit (b % 16)]

def scanModel (cfg : Tlsh.Cfg) (q3 : Nat) (mode : String) : String :=
  String.join ((scanPairs q3 mode).map fun (q1, q2) =>
    match Tlsh.finalOf lcapF cfg ⟨List.replicate cfg.chklen 0, scanBuckets cfg.buckets q1 q2 q3⟩ 256 false with
    | .ok (some o) => hex2 ((o.q1 <<< 4) ||| o.q2)
    | .ok none => "--"
    | .error _ => "EE")

def scanSpec (cfg : Tlsh.Cfg) (q3 : Nat) (mode : String) : String :=
  String.join ((scanPairs q3 mode).map fun (q1, q2) =>
    match Spec.Tlsh.encode lcapF cfg.buckets (scanBuckets cfg.buckets q1 q2 q3) (List.replicate cfg.chklen 0) 256 false with
    | some d => hex2 (d.getD (cfg.chklen + 1) 0)
    | none => "--")

/-! several Nilsimsa objects, several messages each (`nilsimsa.seqs`) -/

def parseNOp? : List String → Option Nilsimsa.Op
  | ["new"] => some .new
  | ["u", x] => (parseBytes? x).map .u
  | ["d"] => some .d
  | ["r"] => some .r
  | ["c", x] => (parseBytes? x).map .c
  | _ => none

def parseNStep? (nobj : Nat) : List String → Option (Nat × Nilsimsa.Op)
  | k :: rest => do
      let k ← parseNat? k; let o ← parseNOp? rest
      if k < nobj then pure (k, o) else none
  | _ => none

/-- slot k: `none` before `<k> new` (a step on it is not a line of the protocol) -/
def nStep (trans : List (List Nat)) (k : Nat) (o : Option Nilsimsa.St) (op : Nilsimsa.Op) : Option Nilsimsa.St × String :=
  match op, o with
  | .new, _ => (some Nilsimsa.St.init, "-")
  | _, none => (none, "?")
  | op, some s =>
    let (s', r) := Nilsimsa.stepOp (trans.getD k []) s op
    (some s', match op, r with
      | .u _, _ => s!"n{s'.count}"
      | _, some d => fmtBytes d
      | _, none => "-")

/-- the specification knows byte strings only: the bytes fed to the object since its last new / digest / reset / call -/
def nSpec (targets : List Nat) (k : Nat) (o : Option (List Nat)) (op : Nilsimsa.Op) : Option (List Nat) × String :=
  let t := targets.getD k 53
  match op, o with
  | .new, _ => (some [], "-")
  | _, none => (none, "?")
  | .u data, some m => (some (m ++ data), s!"n{(m ++ data).length}")
  | .d, some m => (some [], fmtBytes (Spec.Nilsimsa.nilsimsa t m))
  | .r, some _ => (some [], "-")
  | .c data, some _ => (some [], fmtBytes (Spec.Nilsimsa.nilsimsa t data))

def handle : Handler := fun op args =>
  match op, args with
  | "tlsh.final", [b, w, c, f, bk, n, ck] => do
      let cfg ← parseCfg? b w c; let f ← parseBool? f; let bk ← parseNatList? bk; let n ← parseNat? n
      let ck ← parseBytes? ck
      let m := if cfg.valid = false then "ERR" else
        fmtOptBytes ((Tlsh.finalOf lcapF cfg ⟨ck, bk⟩ n f).map (·.map Tlsh.digest))
      let s := if cfg.valid && bk.length == 256 && ck.length == cfg.chklen then
                 (match Spec.Tlsh.encode lcapF cfg.buckets bk ck n f with
                  | some d => fmtBytes d | none => "none")
               else "-"
      pure (m, s)
  | "tlsh.qexact", [lo, hi] => do
      let lo ← parseNat? lo; let hi ← parseNat? hi
      let n := (List.range (hi - lo)).foldl (fun s k => s + (lo + k + 1)) 0
      pure (s!"n={n};bad=", "-")
  | "tlsh.qscan", [b, w, c, q3, mode] => do
      let cfg ← parseCfg? b w c; let q3 ← parseNat? q3
      if mode ≠ "d" ∧ mode ≠ "t" then none else
      if cfg.valid = false then pure ("ERR", "ERR") else
      pure (scanModel cfg q3 mode, scanSpec cfg q3 mode)
  | "tlsh", [b, w, c, f, x] => do
      let cfg ← parseCfg? b w c; let f ← parseBool? f; let x ← parseBytes? x
      let m := fmtOptBytes (Tlsh.tlsh lcapF cfg x f)
      let s := if cfg.valid then
                 (match Spec.Tlsh.tlsh lcapF cfg.buckets cfg.window cfg.chklen x f with
                  | some d => fmtBytes d | none => "none")
               else "ERR"
      pure (m, s)
  | "tlsh.rt", [b, w, c, f, x] => do
      let cfg ← parseCfg? b w c; let f ← parseBool? f; let x ← parseBytes? x
      let m := fmtOptBytes (do
        match ← Tlsh.tlsh lcapF cfg x f with
        | none => pure none
        | some d => let o ← Tlsh.fromHash cfg d; pure (some (Tlsh.digest o)))
      let s := if cfg.valid then
                 (match Spec.Tlsh.tlsh lcapF cfg.buckets cfg.window cfg.chklen x f with
                  | some d => fmtBytes d | none => "none")
               else "ERR"
      pure (m, s)
  | "tlsh.lcap", [l] => do
      let l ← parseNat? l
      pure (if l = 0 then "ERR" else toString (lcapF l % 256), "-")
  | "tlsh.lcaprange", [lo, hi] => do
      let lo ← parseNat? lo; let hi ← parseNat? hi
      pure (lcapRange lo hi, "-")
  | "tlsh.fromhash", [b, w, c, x] => do
      let cfg ← parseCfg? b w c; let x ← parseBytes? x
      let m := if cfg.valid = false then "ERR" else
        match Tlsh.fromHash cfg x with
        | .error _ => "ERR"
        | .ok o => s!"{fmtBytes (Tlsh.digest o)};ck={fmtBytes o.checksum};L={o.lvalue};q1={o.q1};q2={o.q2};code={fmtBytes o.code}"
      pure (m, "-")
  | "tlsh.dist", [b, w, c, d1, d2, form, lv] => do
      let cfg ← parseCfg? b w c; let d1 ← parseBytes? d1; let d2 ← parseBytes? d2; let lv ← parseBool? lv
      let wellFormed := cfg.valid && d1.length == cfg.chklen + 2 + cfg.codesize && d2.length == cfg.chklen + 2 + cfg.codesize
      if form = "all" then
        let m := "/".intercalate (forms.map fun (n, f1, f2) => n ++ ":" ++ distForm cfg f1 f2 d1 d2 lv)
        let s := if wellFormed then "/".intercalate (forms.map fun (n, _, _) => n ++ ":" ++ specDistForm cfg d1 d2 lv) else "-"
        pure (m, s)
      else
        let (_, f1, f2) ← forms.find? (·.1 = form)
        pure (distForm cfg f1 f2 d1 d2 lv, if wellFormed then specDistForm cfg d1 d2 lv else "-")
  | "tlsh.ddist", [b, w, c, f, m1, m2, lv] => do
      let cfg ← parseCfg? b w c; let f ← parseBool? f; let m1 ← parseBytes? m1; let m2 ← parseBytes? m2
      let lv ← parseBool? lv
      let m :=
        if cfg.valid = false then "ERR" else
        match Tlsh.final lcapF cfg m1 f, Tlsh.final lcapF cfg m2 f with
        | .ok (some o1), .ok (some o2) =>
          let ox : Except Err Tlsh.Operand := .ok (.obj o1)
          let oy : Except Err Tlsh.Operand := .ok (.obj o2)
          let bx : Except Err Tlsh.Operand := .ok (.raw (Tlsh.digest o1))
          let by' : Except Err Tlsh.Operand := .ok (.raw (Tlsh.digest o2))
          ";".intercalate [dist1 ox oy lv, dist1 ox by' lv, dist1 bx oy lv, dist1 bx by' lv, dist1 oy ox lv, dist1 ox ox lv]
        | .ok _, .ok _ => "none"
        | _, _ => "ERR"
      let s :=
        if cfg.valid = false then "ERR" else
        match Spec.Tlsh.tlsh lcapF cfg.buckets cfg.window cfg.chklen m1 f,
              Spec.Tlsh.tlsh lcapF cfg.buckets cfg.window cfg.chklen m2 f with
        | some x, some y =>
          let d := toString (Spec.Tlsh.distance cfg.chklen x y lv)
          ";".intercalate [d, d, d, d, toString (Spec.Tlsh.distance cfg.chklen y x lv),
                           toString (Spec.Tlsh.distance cfg.chklen x x lv)]
        | _, _ => "none"
      pure (m, s)
  | "nilsimsa", [t, x] => do
      let t ← parseNat? t; let x ← parseBytes? x
      pure (fmtBytes (Nilsimsa.nilsimsa t x), fmtBytes (Spec.Nilsimsa.nilsimsa t x))
  | "nilsimsa.tran", [t] => do
      let t ← parseNat? t
      pure (fmtBytes (Nilsimsa.maketran t), fmtBytes (Spec.Nilsimsa.filltran t))
  | "nilsimsa.seq", t :: "|" :: rest => do
      let t ← parseNat? t
      let pieces ← (splitBar rest).mapM fun p => match p with
        | [x] => parseBytes? x
        | _ => none
      pure (fmtBytes (Nilsimsa.nilsimsaSeq t pieces), fmtBytes (Spec.Nilsimsa.nilsimsa t pieces.flatten))
  | "nilsimsa.seqs", ts :: "|" :: rest => do
      let targets ← (ts.splitOn ",").mapM parseNat?
      let steps ← (splitBar rest).mapM (parseNStep? targets.length)
      let trans := targets.map Nilsimsa.maketran
      let m := (Model.Multi.run (nStep trans) (List.replicate targets.length none) steps).2.map (·.2)
      let sp := (Model.Multi.run (nSpec targets) (List.replicate targets.length none) steps).2.map (·.2)
      pure (";".intercalate m, ";".intercalate sp)
  | "nilsimsa.dist", [a, b] => do
      let a ← parseBytes? a; let b ← parseBytes? b
      pure (fmtE toString (Nilsimsa.distance a b),
            if a.length = b.length then toString (Spec.Nilsimsa.hamming a b) else "-")
  | _, _ => none

end Driver.LshD
