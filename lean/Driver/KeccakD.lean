/-
  Driver.KeccakD — line-protocol handlers for Model.Keccak / Model.Sha3 with Spec.Keccak as the second answer (C04).

    keccak <b> <r> <N|L> <msg> <bitlen|None> <d>     sponge output (d bits, packed)        N = NIST last byte, L = native
    keccak <b> <r> <N|L> <msg> <bitlen|None> <d> [setrate=<r1>] [r=<rc>]
                                                      the object is built with rate r, `setrate(r1)` is called on it, then it is
                                                      called with the per-call rate rc:   <result>|<r>,<c> of the object afterwards
    keccak.single <224|256|384|512> <N|L> <msg> <bitlen|None> [r=<rc>]
                                                      the module-level object keccak_<n>, same answer format
    keccak.blocks <r> <N|L> <msg> <bitlen|None>       the blocks `iterblocks` yields         size:ival;…
    keccak.f <w> <25 lanes>   keccak.round <w> <i> <25 lanes>                                l<25 lanes>
    keccak.loaddump <w> b<size>:<ival> <r>            State(w).load(B) lanes ; dump(r)
    sha3 <n> <msg>    shake <128|256> <msg> <dbits>
    keccak.duplex <b> <r> | <msg> <bitlen|None> <outlen|None> | …                             results joined by ;
    keccak.seq <cfg> | <step> | <step> …              ONE object, a history of duplex() and one-shot calls; results joined by ;
        cfg  = keccak <b> <r> <N|L> <d>  (Keccak(b,r,len=d), duplexing = L)  |  sha3 <n>  (SHA3(n))  |  single <n> <N|L>  (keccak_<n>)
        step = duplex <msg> <bitlen|None> <outlen|None>  |  call <msg> <bitlen|None> [r=<rc>]  |  hash <msg>  (SHA3.__call__)
        spec: duplex steps = the reference duplex over the duplex steps of the line; call/hash steps = the reference sponge /
        SHA3-n of THAT step's arguments in the object's configured bit order
  Spec answer `-` = outside the domain of the reference (rate 0 or ≥ b, duplex output longer than the rate …).
-/
import Driver.Wire
import Model.Keccak
import Model.Sha3
import Spec.Keccak
namespace Driver.KeccakD
open Model Driver

def widths : List Nat := [25, 50, 100, 200, 400, 800, 1600]

def fmtBitsList (l : List Bits) : String := ";".intercalate (l.map fmtBits)

def splitBar (toks : List String) : List (List String) :=
  let rec go : List String → List String → List (List String) → List (List String)
    | [], cur, acc => (cur.reverse :: acc).reverse
    | "|" :: ts, cur, acc => go ts [] (cur.reverse :: acc)
    | t :: ts, cur, acc => go ts (t :: cur) acc
  go toks [] []

def parseMode? (s : String) : Option Bool :=
  if s = "N" then some false else if s = "L" then some true else none

/-- the message bits the reference hashes, by mode -/
def specBits (lsb : Bool) (M : List Nat) (bitlen : Option Nat) : List Bool :=
  let L := bitlen.getD (8 * M.length)
  if lsb then Spec.Keccak.msgBitsLSB M L else Spec.Keccak.msgBitsNIST M L

def fmtBoolBits (l : List Bool) : String := s!"{l.length}:{Spec.Keccak.bitsToNat l}"

def lanesOfNats (w : Nat) (l : List Nat) : Spec.Keccak.State w :=
  Vector.ofFn fun i => BitVec.ofNat w (l.getD i.val 0)

def natsOfLanes {w} (A : Spec.Keccak.State w) : List Nat := A.toList.map BitVec.toNat

def sponge (b r : Nat) (lsb : Bool) (M : List Nat) (bitlen : Option Nat) (d : Nat) : String × String :=
  let m := fmtE fmtBytes (do
    let c ← Keccak.mk b r (some d)
    Keccak.call { c with duplexing := lsb } M bitlen)
  let s :=
    if ¬ widths.contains b ∨ r = 0 ∨ r ≥ b ∨ r > 1536 then "-"
    else if bitlen.getD 0 > 8 * M.length then "ERR"
    else fmtBytes (Spec.Keccak.bytesOfBits (Spec.Keccak.keccak (b / 25) r (specBits lsb M bitlen) d))
  (m, s)

/-- options after the six positional tokens: `setrate=<n>` (object level, first) and `r=<n>` (per call) -/
def parseOpts? : List String → Option (Option Nat × Option Nat)
  | [] => some (none, none)
  | t :: ts => do
    let (sr, rc) ← parseOpts? ts
    match t.splitOn "=" with
    | ["setrate", v] => if sr.isSome then none else do let v ← v.toNat?; pure (some v, rc)
    | ["r", v] => if rc.isSome then none else do let v ← v.toNat?; pure (sr, some v)
    | _ => none

/-- result of a call with the hang of a rate 0 handed to `iterblocks` made visible -/
def fmtRes : Except Err (List Nat) → String
  | .ok bs => fmtBytes bs
  | .error e => if e.startsWith "hang" then "HANG" else "ERR"

/-- `r,c` attributes of the object (c = b − r may be negative for a constructed rate beyond b) -/
def fmtAttrs (b r : Nat) : String := s!"{r},{(b : Int) - (r : Int)}"

/-- object `c0` (rate already constructed) → `setrate(sr)` → `__call__(M,bitlen,r=rc)`; answers `result|r,c` -/
def rateCallModel (c0 : Keccak.Cfg) (sr rc : Option Nat) (M : List Nat) (bitlen : Option Nat) : String :=
  let afterSet : Keccak.Cfg × Bool := match sr with
    | none => (c0, true)
    | some r1 => match Keccak.setrate c0 r1 with
      | .ok c => (c, true)
      | .error _ => (c0, false)
  if ¬ afterSet.2 then "ERR|" ++ fmtAttrs c0.b afterSet.1.r else
  let (c', res) := Keccak.callR afterSet.1 M bitlen rc
  fmtRes res ++ "|" ++ fmtAttrs c'.b c'.r

/-- the reference: SPONGE[Keccak-f[b], pad10*1, re](N, d) at the rate in force for THIS call (re = the per-call
    rate, else the rate set by setrate, else the constructed one); afterwards the object holds the rate it was given
    by the constructor / setrate, the per-call rate leaves no trace -/
def rateCallSpec (b r0 : Nat) (sr rc : Option Nat) (lsb : Bool) (M : List Nat) (bitlen : Option Nat) (d : Nat) : String :=
  let robj := sr.getD r0
  let re := rc.getD robj
  if ¬ widths.contains b ∨ r0 > 1536 ∨ robj > 1536 ∨ re = 0 ∨ re ≥ b ∨ re > 1536 then "-"
  else if bitlen.getD 0 > 8 * M.length then "ERR|" ++ fmtAttrs b robj
  else fmtBytes (Spec.Keccak.bytesOfBits (Spec.Keccak.keccak (b / 25) re (specBits lsb M bitlen) d)) ++ "|" ++ fmtAttrs b robj

def spongeOpts (b r : Nat) (lsb : Bool) (M : List Nat) (bitlen : Option Nat) (d : Nat) (sr rc : Option Nat) : String × String :=
  let m := match Keccak.mk b r (some d) with
    | .error _ => "ERR"
    | .ok c => rateCallModel { c with duplexing := lsb } sr rc M bitlen
  (m, rateCallSpec b r sr rc lsb M bitlen d)

/-- `keccak_<n>` of the Keccak submission: Keccak[r = 1600 − 2n, c = 2n] with n output bits -/
def single (n : Nat) (lsb : Bool) (M : List Nat) (bitlen : Option Nat) (rc : Option Nat) : String × String :=
  let m := match Keccak.singleton n with
    | .error _ => "ERR"
    | .ok c => rateCallModel { c with duplexing := lsb } none rc M bitlen
  let s := if [224, 256, 384, 512].contains n then rateCallSpec 1600 (1600 - 2 * n) none rc lsb M bitlen n else "ERR"
  (m, s)

def blocks (r : Nat) (lsb : Bool) (M : List Nat) (bitlen : Option Nat) : String × String :=
  let m := fmtE fmtBitsList (Keccak.iterblocks r lsb M bitlen)
  let s :=
    if r = 0 then "-"
    else if bitlen.getD 0 > 8 * M.length then "ERR"
    else
      let N := specBits lsb M bitlen
      ";".intercalate ((Spec.Keccak.chunksOf r (N ++ Spec.Keccak.pad101 r N.length)).map fmtBoolBits)
  (m, s)

def parseStep? (toks : List String) : Option (List Nat × Option Nat × Option Nat) :=
  match toks with
  | [m, bl, ol] => do
      let m ← parseBytes? m; let bl ← parseOptNat? bl; let ol ← parseOptNat? ol
      pure (m, bl, ol)
  | _ => none

def duplexLine (b r : Nat) (steps : List (List Nat × Option Nat × Option Nat)) : String × String :=
  let m := match Keccak.mk b r none with
    | .error _ => "ERR"
    | .ok c => ";".intercalate ((Keccak.duplexSeq { cfg := c } steps).map (fmtE fmtBytes))
  let s :=
    if ¬ widths.contains b ∨ r = 0 ∨ r ≥ b ∨ r > 1536 then "-"
    else if steps.any (fun st => st.2.2.getD r > r) then "-"
    else
      let w := b / 25
      -- a step whose bit length exceeds the data is no message at all: σ made longer than the rate, so it is refused
      let ins := steps.map fun (st : List Nat × Option Nat × Option Nat) =>
        let σ := if st.2.1.getD 0 > 8 * st.1.length then List.replicate (r + 1) false else specBits true st.1 st.2.1
        (σ, st.2.2.getD r)
      let outs := Spec.Keccak.duplexSeq (Spec.Keccak.fString w) b r (List.replicate b false) ins
      ";".intercalate (outs.map fun o => match o with
        | some z => fmtBytes (Spec.Keccak.bytesOfBits z)
        | none => "ERR")
  (m, s)

/-! ### `keccak.seq`: one object, a history of duplex() and one-shot calls -/

inductive SeqCfg where
  | keccak (b r : Nat) (lsb : Bool) (d : Nat)
  | sha3 (n : Nat)
  | single (n : Nat) (lsb : Bool)

def parseSeqCfg? : List String → Option SeqCfg
  | ["keccak", b, r, mode, d] => do
      let b ← parseNat? b; let r ← parseNat? r; let lsb ← parseMode? mode; let d ← parseNat? d
      pure (.keccak b r lsb d)
  | ["sha3", n] => do let n ← parseNat? n; pure (.sha3 n)
  | ["single", n, mode] => do let n ← parseNat? n; let lsb ← parseMode? mode; pure (.single n lsb)
  | _ => none

def parseSeqStep? : List String → Option Keccak.SeqStep
  | ["duplex", m, bl, ol] => do
      let m ← parseBytes? m; let bl ← parseOptNat? bl; let ol ← parseOptNat? ol
      pure (.duplex m bl ol)
  | "call" :: m :: bl :: opts => do
      let m ← parseBytes? m; let bl ← parseOptNat? bl
      let (sr, rc) ← parseOpts? opts
      if sr.isSome then none else pure (.call m bl rc)
  | ["hash", m] => do let m ← parseBytes? m; pure (.sha3call m)
  | _ => none

def seqCfgModel : SeqCfg → Except Err Keccak.Cfg
  | .keccak b r lsb d => (Keccak.mk b r (some d)).map fun c => { c with duplexing := lsb }
  | .sha3 n => Sha3.sha3Cfg n
  | .single n lsb => (Keccak.singleton n).map fun c => { c with duplexing := lsb }

/-- (b, r, native bit order, output bits) the reference works with; none: no such object -/
def seqCfgSpec : SeqCfg → Option (Nat × Nat × Bool × Nat)
  | .keccak b r lsb d => if widths.contains b ∧ r ≤ 1536 then some (b, r, lsb, d) else none
  | .sha3 n => if [224, 256, 384, 512].contains n then some (1600, 1600 - 2 * n, true, n) else none
  | .single n lsb => if [224, 256, 384, 512].contains n then some (1600, 1600 - 2 * n, lsb, n) else none

def seqLine (cfg : SeqCfg) (steps : List Keccak.SeqStep) : String × String :=
  let m := match seqCfgModel cfg with
    | .error _ => "ERR"
    | .ok c => ";".intercalate ((Keccak.seqRun { cfg := c } steps).map fmtRes)
  let s := match seqCfgSpec cfg with
    | none => "ERR"
    | some (b, r, lsb, d) =>
      let w := b / 25
      let dsteps := steps.filterMap fun
        | .duplex m bl ol => some (m, bl, ol)
        | _ => none
      if r = 0 ∨ r ≥ b ∨ d = 0 ∨ dsteps.any (fun st => st.2.2.getD r > r) then "-" else
      let ins := dsteps.map fun (st : List Nat × Option Nat × Option Nat) =>
        let σ := if st.2.1.getD 0 > 8 * st.1.length then List.replicate (r + 1) false else specBits true st.1 st.2.1
        (σ, st.2.2.getD r)
      let douts := (Spec.Keccak.duplexSeq (Spec.Keccak.fString w) b r (List.replicate b false) ins).map fun o =>
        match o with
        | some z => fmtBytes (Spec.Keccak.bytesOfBits z)
        | none => "ERR"
      let rec go : List Keccak.SeqStep → List String → List (Option String)
        | [], _ => []
        | .duplex .. :: rest, douts => douts.head? :: go rest douts.tail
        | .call M bl rc :: rest, douts =>
          let re := rc.getD r
          (if re = 0 ∨ re ≥ b ∨ re > 1536 then none
           else if bl.getD 0 > 8 * M.length then some "ERR"
           else some (fmtBytes (Spec.Keccak.bytesOfBits (Spec.Keccak.keccak w re (specBits lsb M bl) d)))) :: go rest douts
        | .sha3call M :: rest, douts =>
          (match cfg with
           | .sha3 n => some (fmtBytes (Spec.Keccak.sha3 n M))
           | _ => some (fmtBytes (Spec.Keccak.bytesOfBits (Spec.Keccak.keccak w r
                    (specBits lsb (M ++ [0x02]) (some (8 * M.length + 2))) d)))) :: go rest douts
      let outs := go steps douts
      if outs.any Option.isNone then "-" else ";".intercalate (outs.map (·.getD "-"))
  (m, s)

def handle : Handler := fun op args =>
  match op, args with
  | "keccak.seq", toks => do
      match splitBar toks with
      | cfg :: steps => do
          let cfg ← parseSeqCfg? cfg
          let steps ← steps.mapM parseSeqStep?
          pure (seqLine cfg steps)
      | [] => none
  | "keccak", [b, r, mode, msg, bl, d] => do
      let b ← parseNat? b; let r ← parseNat? r; let lsb ← parseMode? mode
      let msg ← parseBytes? msg; let bl ← parseOptNat? bl; let d ← parseNat? d
      pure (sponge b r lsb msg bl d)
  | "keccak", b :: r :: mode :: msg :: bl :: d :: opts => do
      let b ← parseNat? b; let r ← parseNat? r; let lsb ← parseMode? mode
      let msg ← parseBytes? msg; let bl ← parseOptNat? bl; let d ← parseNat? d
      let (sr, rc) ← parseOpts? opts
      pure (spongeOpts b r lsb msg bl d sr rc)
  | "keccak.single", n :: mode :: msg :: bl :: opts => do
      let n ← parseNat? n; let lsb ← parseMode? mode
      let msg ← parseBytes? msg; let bl ← parseOptNat? bl
      let (sr, rc) ← parseOpts? opts
      if sr.isSome then none else
      pure (single n lsb msg bl rc)
  | "keccak.blocks", [r, mode, msg, bl] => do
      let r ← parseNat? r; let lsb ← parseMode? mode
      let msg ← parseBytes? msg; let bl ← parseOptNat? bl
      pure (blocks r lsb msg bl)
  | "keccak.f", [w, lanes] => do
      let w ← parseNat? w; let l ← parseNatList? lanes
      if l.length ≠ 25 then none else
      let n := (Gen.KeccakG.widths.find? (fun row => row.getD 1 0 == w)).map (·.getD 2 0)
      let n ← n
      let A : Keccak.Lanes := l.map fun v => Bits.ofNatSz v w
      pure (fmtNatList ((Keccak.f w n A).map (·.ival)),
            fmtNatList (natsOfLanes (Spec.Keccak.keccakF w (lanesOfNats w l))))
  | "keccak.round", [w, i, lanes] => do
      let w ← parseNat? w; let i ← parseNat? i; let l ← parseNatList? lanes
      if l.length ≠ 25 ∨ w = 0 then none else
      let A : Keccak.Lanes := l.map fun v => Bits.ofNatSz v w
      pure (fmtNatList ((Keccak.round w A (Keccak.rcLane w i)).map (·.ival)),
            fmtNatList (natsOfLanes (Spec.Keccak.rnd (lanesOfNats w l) i)))
  | "keccak.loaddump", [w, bits, r] => do
      let w ← parseNat? w; let r ← parseNat? r
      let B ← match bits.toList with
        | 'b' :: cs => (match (String.ofList cs).splitOn ":" with
            | [a, v] => do let sz ← a.toNat?; let v ← v.toNat?; pure (Bits.ofNatSz v sz)
            | _ => none)
        | _ => none
      let A := Keccak.load w B
      let m := fmtNatList (A.map (·.ival)) ++ ";" ++ fmtE fmtBits (Keccak.dump w A r)
      let s :=
        if B.size > 25 * w ∨ r > 25 * w then "-" else
        let str := (List.range (25 * w)).map fun i => decide (i < B.size) && B.ival.testBit i
        let S := Spec.Keccak.stateOfString w str
        fmtNatList (natsOfLanes S) ++ ";" ++ fmtBoolBits ((Spec.Keccak.stringOfState S).take r)
      pure (m, s)
  | "sha3", [n, msg] => do
      let n ← parseNat? n; let msg ← parseBytes? msg
      let s := if [224, 256, 384, 512].contains n then fmtBytes (Spec.Keccak.sha3 n msg) else "ERR"
      pure (fmtE fmtBytes (Sha3.sha3 n msg), s)
  | "shake", [n, msg, d] => do
      let n ← parseNat? n; let msg ← parseBytes? msg; let d ← parseNat? d
      if n = 128 then pure (fmtE fmtBytes (Sha3.shake128 msg d), fmtBytes (Spec.Keccak.shake 128 msg d))
      else if n = 256 then pure (fmtE fmtBytes (Sha3.shake256 msg d), fmtBytes (Spec.Keccak.shake 256 msg d))
      else none
  | "keccak.duplex", b :: r :: "|" :: rest => do
      let b ← parseNat? b; let r ← parseNat? r
      let steps ← (splitBar rest).mapM parseStep?
      pure (duplexLine b r steps)
  | _, _ => none

end Driver.KeccakD
