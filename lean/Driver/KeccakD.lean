/-
  Driver.KeccakD — line-protocol handlers for Model.Keccak / Model.Sha3 with Spec.Keccak as the second answer (C04).

    keccak <b> <r> <N|L> <msg> <bitlen|None> <d>     sponge output (d bits, packed)        N = NIST last byte, L = native
    keccak.blocks <r> <N|L> <msg> <bitlen|None>       the blocks `iterblocks` yields         size:ival;…
    keccak.f <w> <25 lanes>   keccak.round <w> <i> <25 lanes>                                l<25 lanes>
    keccak.loaddump <w> b<size>:<ival> <r>            State(w).load(B) lanes ; dump(r)
    sha3 <n> <msg>    shake <128|256> <msg> <dbits>
    keccak.duplex <b> <r> | <msg> <bitlen|None> <outlen|None> | …                             results joined by ;
  Spec answer `-` = outside the domain of the reference (rate 0 or ≥ b, duplex output longer than the rate …).
-/
import Driver.Wire
import Model.Keccak
import Model.Sha3
import Spec.Keccak
namespace Driver.KeccakD
open Model Driver

def widths : List Nat := [25, 50, 100, 200, 400, 800, 1600]

def fmtBitsList (l : List Bits) : String := ";".intercalate (l.map fmtBits)

def splitBar (toks : List String) : List (List String) :=
  let rec go : List String → List String → List (List String) → List (List String)
    | [], cur, acc => (cur.reverse :: acc).reverse
    | "|" :: ts, cur, acc => go ts [] (cur.reverse :: acc)
    | t :: ts, cur, acc => go ts (t :: cur) acc
  go toks [] []

def parseMode? (s : String) : Option Bool :=
  if s = "N" then some false else if s = "L" then some true else none

/-- the message bits the reference hashes, by mode -/
def specBits (lsb : Bool) (M : List Nat) (bitlen : Option Nat) : List Bool :=
  let L := bitlen.getD (8 * M.length)
  if lsb then Spec.Keccak.msgBitsLSB M L else Spec.Keccak.msgBitsNIST M L

def fmtBoolBits (l : List Bool) : String := s!"{l.length}:{Spec.Keccak.bitsToNat l}"

def lanesOfNats (w : Nat) (l : List Nat) : Spec.Keccak.State w :=
  Vector.ofFn fun i => BitVec.ofNat w (l.getD i.val 0)

def natsOfLanes {w} (A : Spec.Keccak.State w) : List Nat := A.toList.map BitVec.toNat

def sponge (b r : Nat) (lsb : Bool) (M : List Nat) (bitlen : Option Nat) (d : Nat) : String × String :=
  let m := fmtE fmtBytes (do
    let c ← Keccak.mk b r (some d)
    Keccak.call { c with duplexing := lsb } M bitlen)
  let s :=
    if ¬ widths.contains b ∨ r = 0 ∨ r ≥ b ∨ r > 1536 then "-"
    else if bitlen.getD 0 > 8 * M.length then "ERR"
    else fmtBytes (Spec.Keccak.bytesOfBits (Spec.Keccak.keccak (b / 25) r (specBits lsb M bitlen) d))
  (m, s)

def blocks (r : Nat) (lsb : Bool) (M : List Nat) (bitlen : Option Nat) : String × String :=
  let m := fmtE fmtBitsList (Keccak.iterblocks r lsb M bitlen)
  let s :=
    if r = 0 then "-"
    else if bitlen.getD 0 > 8 * M.length then "ERR"
    else
      let N := specBits lsb M bitlen
      ";".intercalate ((Spec.Keccak.chunksOf r (N ++ Spec.Keccak.pad101 r N.length)).map fmtBoolBits)
  (m, s)

def parseStep? (toks : List String) : Option (List Nat × Option Nat × Option Nat) :=
  match toks with
  | [m, bl, ol] => do
      let m ← parseBytes? m; let bl ← parseOptNat? bl; let ol ← parseOptNat? ol
      pure (m, bl, ol)
  | _ => none

def duplexLine (b r : Nat) (steps : List (List Nat × Option Nat × Option Nat)) : String × String :=
  let m := match Keccak.mk b r none with
    | .error _ => "ERR"
    | .ok c => ";".intercalate ((Keccak.duplexSeq { cfg := c } steps).map (fmtE fmtBytes))
  let s :=
    if ¬ widths.contains b ∨ r = 0 ∨ r ≥ b ∨ r > 1536 then "-"
    else if steps.any (fun st => st.2.2.getD r > r) then "-"
    else
      let w := b / 25
      -- a step whose bit length exceeds the data is no message at all: σ made longer than the rate, so it is refused
      let ins := steps.map fun (st : List Nat × Option Nat × Option Nat) =>
        let σ := if st.2.1.getD 0 > 8 * st.1.length then List.replicate (r + 1) false else specBits true st.1 st.2.1
        (σ, st.2.2.getD r)
      let outs := Spec.Keccak.duplexSeq (Spec.Keccak.fString w) b r (List.replicate b false) ins
      ";".intercalate (outs.map fun o => match o with
        | some z => fmtBytes (Spec.Keccak.bytesOfBits z)
        | none => "ERR")
  (m, s)

def handle : Handler := fun op args =>
  match op, args with
  | "keccak", [b, r, mode, msg, bl, d] => do
      let b ← parseNat? b; let r ← parseNat? r; let lsb ← parseMode? mode
      let msg ← parseBytes? msg; let bl ← parseOptNat? bl; let d ← parseNat? d
      pure (sponge b r lsb msg bl d)
  | "keccak.blocks", [r, mode, msg, bl] => do
      let r ← parseNat? r; let lsb ← parseMode? mode
      let msg ← parseBytes? msg; let bl ← parseOptNat? bl
      pure (blocks r lsb msg bl)
  | "keccak.f", [w, lanes] => do
      let w ← parseNat? w; let l ← parseNatList? lanes
      if l.length ≠ 25 then none else
      let n := (Gen.KeccakG.widths.find? (fun row => row.getD 1 0 == w)).map (·.getD 2 0)
      let n ← n
      let A : Keccak.Lanes := l.map fun v => Bits.ofNatSz v w
      pure (fmtNatList ((Keccak.f w n A).map (·.ival)),
            fmtNatList (natsOfLanes (Spec.Keccak.keccakF w (lanesOfNats w l))))
  | "keccak.round", [w, i, lanes] => do
      let w ← parseNat? w; let i ← parseNat? i; let l ← parseNatList? lanes
      if l.length ≠ 25 ∨ w = 0 then none else
      let A : Keccak.Lanes := l.map fun v => Bits.ofNatSz v w
      pure (fmtNatList ((Keccak.round w A (Keccak.rcLane w i)).map (·.ival)),
            fmtNatList (natsOfLanes (Spec.Keccak.rnd (lanesOfNats w l) i)))
  | "keccak.loaddump", [w, bits, r] => do
      let w ← parseNat? w; let r ← parseNat? r
      let B ← match bits.toList with
        | 'b' :: cs => (match (String.ofList cs).splitOn ":" with
            | [a, v] => do let sz ← a.toNat?; let v ← v.toNat?; pure (Bits.ofNatSz v sz)
            | _ => none)
        | _ => none
      let A := Keccak.load w B
      let m := fmtNatList (A.map (·.ival)) ++ ";" ++ fmtE fmtBits (Keccak.dump w A r)
      let s :=
        if B.size > 25 * w ∨ r > 25 * w then "-" else
        let str := (List.range (25 * w)).map fun i => decide (i < B.size) && B.ival.testBit i
        let S := Spec.Keccak.stateOfString w str
        fmtNatList (natsOfLanes S) ++ ";" ++ fmtBoolBits ((Spec.Keccak.stringOfState S).take r)
      pure (m, s)
  | "sha3", [n, msg] => do
      let n ← parseNat? n; let msg ← parseBytes? msg
      let s := if [224, 256, 384, 512].contains n then fmtBytes (Spec.Keccak.sha3 n msg) else "ERR"
      pure (fmtE fmtBytes (Sha3.sha3 n msg), s)
  | "shake", [n, msg, d] => do
      let n ← parseNat? n; let msg ← parseBytes? msg; let d ← parseNat? d
      if n = 128 then pure (fmtE fmtBytes (Sha3.shake128 msg d), fmtBytes (Spec.Keccak.shake 128 msg d))
      else if n = 256 then pure (fmtE fmtBytes (Sha3.shake256 msg d), fmtBytes (Spec.Keccak.shake 256 msg d))
      else none
  | "keccak.duplex", b :: r :: "|" :: rest => do
      let b ← parseNat? b; let r ← parseNat? r
      let steps ← (splitBar rest).mapM parseStep?
      pure (duplexLine b r steps)
  | _, _ => none

end Driver.KeccakD
