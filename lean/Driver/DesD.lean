/-
  Driver.DesD — line-protocol handlers for Model.Des / Spec.Des (C02, C03 DES part).
    des.enc|des.dec <xkey> <xblock>
    tdea.enc|tdea.dec <xK1> <xK2|None> <xK3|None> <xblock>
    des.rt.de|des.rt.ed <xkey> <xblock>            dec(enc(B)) / enc(dec(B))
    des.len.enc|des.len.dec, tdea.len.enc|tdea.len.dec  length of the result (C03 length law)
    tdea.rt.de|tdea.rt.ed <xK1> <K2> <K3> <xblock>
    des.IP|IPinv|PC1|PC2|E|P <bits>   des.S n x   des.subkey <bits> r   des.F <bitsR> <bitsk> r
    des.iprt <bits>                                  IPinv(IP(x));IP(IPinv(x))
-/
import Driver.Wire
import Driver.BitsD
import Model.Des
import Spec.Des
namespace Driver.DesD
open Model Driver Driver.BitsD

def parseOptBytes? (s : String) : Option (Option (List Nat)) :=
  if s = "None" then some none else (parseBytes? s).map some

/-- Bits → the standard's bit string (bit 0 of the Bits is the leftmost bit) -/
def bitstr (b : Bits) : Spec.Des.Bitstr := (List.range b.size).map fun i => b.ival.testBit i
def ofBitstr (l : Spec.Des.Bitstr) : Bits :=
  ⟨(l.zipIdx.map fun (x, i) => if x then 2 ^ i else 0).sum, l.length⟩

def fmtO (r : Option (List Nat)) : String := match r with | some b => fmtBytes b | none => "ERR"

/-- the keying option a constructor call `TDEA(K1,K2,K3)` denotes -/
def keyingOfCall (k1 : List Nat) (k2 k3 : Option (List Nat)) : Option Spec.Des.Keying :=
  match k2, k3 with
  | none, none => Spec.Des.keyingOfString k1
  | some k2, none => some (.opt2 k1 k2)
  | some k2, some k3 => some (.opt1 k1 k2 k3)
  | none, some _ => none

def specSubkey (k : Spec.Des.Bitstr) (r : Nat) : Option Spec.Des.Bitstr :=
  if k.length = 56 then (Spec.Des.ksFrom Spec.Des.shifts (k.take 28) (k.drop 28))[r]? else none

def fmtOB (r : Option Spec.Des.Bitstr) : String := match r with | some l => fmtBits (ofBitstr l) | none => "ERR"

def sized (b : Bits) (n : Nat) (tbl : List Nat) : Option Spec.Des.Bitstr :=
  if b.size = n then some (Spec.Des.permute tbl (bitstr b)) else none

def handle : Handler := fun op args =>
  match op, args with
  | "des.enc", [k, m] => do
      let k ← parseBytes? k; let m ← parseBytes? m
      pure (fmtE fmtBytes (Des.enc k m), fmtO (Spec.Des.enc k m))
  | "des.dec", [k, m] => do
      let k ← parseBytes? k; let m ← parseBytes? m
      pure (fmtE fmtBytes (Des.dec k m), fmtO (Spec.Des.dec k m))
  | "des.len.enc", [k, m] => do
      let k ← parseBytes? k; let m ← parseBytes? m
      pure (fmtE (fun b => toString b.length) (Des.enc k m), if k.length = 8 ∧ m.length = 8 then "8" else "ERR")
  | "des.len.dec", [k, m] => do
      let k ← parseBytes? k; let m ← parseBytes? m
      pure (fmtE (fun b => toString b.length) (Des.dec k m), if k.length = 8 ∧ m.length = 8 then "8" else "ERR")
  | "tdea.len.enc", [k1, k2, k3, m] => do
      let k1 ← parseBytes? k1; let k2 ← parseOptBytes? k2; let k3 ← parseOptBytes? k3; let m ← parseBytes? m
      pure (fmtE (fun b => toString b.length) (Des.tdeaEnc k1 k2 k3 m), "-")
  | "tdea.len.dec", [k1, k2, k3, m] => do
      let k1 ← parseBytes? k1; let k2 ← parseOptBytes? k2; let k3 ← parseOptBytes? k3; let m ← parseBytes? m
      pure (fmtE (fun b => toString b.length) (Des.tdeaDec k1 k2 k3 m), "-")
  | "des.rt.de", [k, m] => do
      let k ← parseBytes? k; let m ← parseBytes? m
      pure (fmtE fmtBytes (Des.enc k m >>= Des.dec k), fmtO ((Spec.Des.enc k m).bind (Spec.Des.dec k)))
  | "des.rt.ed", [k, m] => do
      let k ← parseBytes? k; let m ← parseBytes? m
      pure (fmtE fmtBytes (Des.dec k m >>= Des.enc k), fmtO ((Spec.Des.dec k m).bind (Spec.Des.enc k)))
  | "tdea.enc", [k1, k2, k3, m] => do
      let k1 ← parseBytes? k1; let k2 ← parseOptBytes? k2; let k3 ← parseOptBytes? k3; let m ← parseBytes? m
      pure (fmtE fmtBytes (Des.tdeaEnc k1 k2 k3 m), fmtO ((keyingOfCall k1 k2 k3).bind fun ko => Spec.Des.tdeaEnc ko m))
  | "tdea.dec", [k1, k2, k3, m] => do
      let k1 ← parseBytes? k1; let k2 ← parseOptBytes? k2; let k3 ← parseOptBytes? k3; let m ← parseBytes? m
      pure (fmtE fmtBytes (Des.tdeaDec k1 k2 k3 m), fmtO ((keyingOfCall k1 k2 k3).bind fun ko => Spec.Des.tdeaDec ko m))
  | "tdea.rt.de", [k1, k2, k3, m] => do
      let k1 ← parseBytes? k1; let k2 ← parseOptBytes? k2; let k3 ← parseOptBytes? k3; let m ← parseBytes? m
      pure (fmtE fmtBytes (Des.tdeaEnc k1 k2 k3 m >>= Des.tdeaDec k1 k2 k3),
            fmtO ((keyingOfCall k1 k2 k3).bind fun ko => (Spec.Des.tdeaEnc ko m).bind (Spec.Des.tdeaDec ko)))
  | "tdea.rt.ed", [k1, k2, k3, m] => do
      let k1 ← parseBytes? k1; let k2 ← parseOptBytes? k2; let k3 ← parseOptBytes? k3; let m ← parseBytes? m
      pure (fmtE fmtBytes (Des.tdeaDec k1 k2 k3 m >>= Des.tdeaEnc k1 k2 k3),
            fmtO ((keyingOfCall k1 k2 k3).bind fun ko => (Spec.Des.tdeaDec ko m).bind (Spec.Des.tdeaEnc ko)))
  | "des.IP", [b] => do let b ← parseBits? b; pure (fmtE fmtBits (Des.IP b), fmtOB (sized b 64 Spec.Des.IP))
  | "des.IPinv", [b] => do let b ← parseBits? b; pure (fmtE fmtBits (Des.IPinv b), fmtOB (sized b 64 Spec.Des.IPinv))
  | "des.PC1", [b] => do let b ← parseBits? b; pure (fmtBits (Des.PC1 b), if b.size = 64 then fmtOB (sized b 64 Spec.Des.PC1) else "-")
  | "des.PC2", [b] => do let b ← parseBits? b; pure (fmtE fmtBits (Des.PC2 b), fmtOB (sized b 56 Spec.Des.PC2))
  | "des.E", [b] => do let b ← parseBits? b; pure (fmtE fmtBits (Des.E b), fmtOB (sized b 32 Spec.Des.E))
  | "des.P", [b] => do let b ← parseBits? b; pure (fmtE fmtBits (Des.P b), fmtOB (sized b 32 Spec.Des.P))
  | "des.iprt", [b] => do
      let b ← parseBits? b
      let m := fmtE fmtBits (Des.IP b >>= Des.IPinv) ++ ";" ++ fmtE fmtBits (Des.IPinv b >>= Des.IP)
      pure (m, if b.size = 64 then fmtBits b ++ ";" ++ fmtBits b else "ERR;ERR")
  | "des.S", [n, x] => do
      let n ← parseNat? n; let x ← parseNat? x
      let sp := if n < 8 ∧ x < 64 then
          fmtBits (Bits.ofNatSz (((Spec.Des.Sboxes.getD n []).getD (x / 16) []).getD (x % 16) 0) 4) else "ERR"
      pure (fmtE fmtBits (Des.S n x), sp)
  | "des.subkey", [k, r] => do
      let k ← parseBits? k; let r ← parseNat? r
      pure (fmtE fmtBits (Des.subkey k r), if k.size = 56 ∧ r < 16 then fmtOB (specSubkey (bitstr k) r) else "-")
  | "des.F", [R, k, r] => do
      let R ← parseBits? R; let k ← parseBits? k; let r ← parseNat? r
      let sp := if R.size = 32 ∧ k.size = 56 ∧ r < 16 then
          fmtOB ((specSubkey (bitstr k) r).map fun K => Spec.Des.f (bitstr R) K) else "-"
      pure (fmtE fmtBits (Des.F R k r), sp)
  | _, _ => none

end Driver.DesD
