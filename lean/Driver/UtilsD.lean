/-
  Driver.UtilsD — line-protocol handlers for Model.Perms / Model.Knapsack (C20).
    perms.permutk l<ints> <k>            -> `[y1];[y2];…|[list afterwards]`
    perms.nextperm l<ints>               -> `[list afterwards]`
    perms.combink l<ints> <p> <k>        -> `[c1];[c2];…`
    perms.combink.partial l<ints> <p> <k> <m>   first m ≥ 1 yields, generator then abandoned
    ks.exactsum l<ids> l<weights> <s>    -> `F` or `[id:w,…]`
    ks.dynprog[.reuse] l<ids> l<weights> <s>    -> `N` or `[id:w,…]`
    c20.seq <call> | <call> | …          calls executed one after the other in the same process
-/
import Driver.Wire
import Model.Perms
import Model.Knapsack
import Spec.Perms
import Spec.Knapsack
namespace Driver.UtilsD
open Model Driver

def fmtL (l : List Int) : String := "[" ++ ",".intercalate (l.map toString) ++ "]"
def fmtLL (ls : List (List Int)) : String := ";".intercalate (ls.map fmtL)
def fmtItems (c : List Knapsack.Item) : String :=
  "[" ++ ",".intercalate (c.map fun it => s!"{it.1}:{it.2}") ++ "]"

def mkItems (ids ws : List Int) : Option (List Knapsack.Item) :=
  if ids.length = ws.length then some (ids.zip ws) else none

def splitBar (toks : List String) : List (List String) :=
  let rec go : List String → List String → List (List String) → List (List String)
    | [], cur, acc => (cur.reverse :: acc).reverse
    | "|" :: ts, cur, acc => go ts [] (cur.reverse :: acc)
    | t :: ts, cur, acc => go ts (t :: cur) acc
  go toks [] []

def call (op : String) (args : List String) : Option (String × String) :=
  match op, args with
  | "perms.permutk", [l, k] => do
      let l ← parseIntList? l; let k ← parseInt? k
      if k < 0 then pure ("ERR", "-") else
      let k := k.toNat
      let (ys, l') := Perms.permutk l k
      let s := fmtLL ((Spec.Perms.perms (l.drop k)).map (l.take k ++ ·)) ++ "|" ++ fmtL l
      pure (fmtLL ys ++ "|" ++ fmtL l', if k ≤ l.length then s else "-")
  | "perms.nextperm", [l] => do
      let l ← parseIntList? l
      pure (fmtE fmtL (Perms.nextperm l), if l.length ≤ 8 then fmtL (Spec.Perms.nextArr l) else "-")
  | "perms.combink", [l, p, k] => do
      let l ← parseIntList? l; let p ← parseInt? p; let k ← parseInt? k
      if k < 0 ∨ p < 0 then pure ("ERR", "-") else
      let s := if k = 0 ∧ p.toNat ≤ l.length then fmtLL (Spec.Perms.combs p.toNat l) else "-"
      pure (fmtE fmtLL (Perms.combink l p.toNat k.toNat), s)
  | "perms.combink.partial", [l, p, k, m] => do
      let l ← parseIntList? l; let p ← parseInt? p; let k ← parseInt? k; let m ← parseNat? m
      if k < 0 ∨ p < 0 then pure ("ERR", "-") else
      pure (fmtE (fun ys => fmtLL (ys.take m)) (Perms.combink l p.toNat k.toNat), "-")
  | "ks.exactsum", [ids, ws, s] => do
      let ids ← parseIntList? ids; let ws ← parseIntList? ws; let s ← parseInt? s
      let l ← mkItems ids ws
      let f := fun (r : Option (List Knapsack.Item)) => match r with | none => "F" | some c => fmtItems c
      let sp := if ws.all (· > 0) ∧ s ≥ 0 then f ((Spec.Knapsack.firstSolution l s).map List.reverse) else "-"
      pure (f (Knapsack.exactsum l s), sp)
  | "ks.dynprog", [ids, ws, s] | "ks.dynprog.reuse", [ids, ws, s] => do
      let ids ← parseIntList? ids; let ws ← parseIntList? ws; let s ← parseInt? s
      let l ← mkItems ids ws
      let f := fun (r : Option (List Knapsack.Item)) => match r with | none => "N" | some c => fmtItems c
      pure (f (Knapsack.dynprog l s), "-")
  | _, _ => none

def handle : Handler := fun op args =>
  match op with
  | "c20.seq" =>
    let rs := (splitBar args).mapM fun c =>
      match c with
      | o :: a => (call o a).map (fun (r : String × String) => r.1)
      | [] => none
    rs.map fun rs => (" | ".intercalate rs, "-")
  | _ => call op args

end Driver.UtilsD
