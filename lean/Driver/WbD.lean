/-
  Driver.WbD — line-protocol handlers for Model.Wb (C18).
    wb.enc <xkey> <xblock>            WhiteDES(tables(key)).enc(block)            spec: Spec.Des.enc (FIPS 46-3)
    wb.encs <xkey> <xblocks>          the same network on every 8-byte block of <xblocks> (one table generation,
                                      results joined by `,`); a trailing partial block is passed as it is
    wb.tables <xkey>                  digest of the 16 x (12 T-boxes + 8 S-tables) generated for the key      spec: -
    wb.static [<xkey>]                the key-independent tables M1 ; M2 ; m ; M3 ; rbits ; SRLR ; ERLR in full  spec: -
                                      (the optional key only says after which table generation the real code is asked)
    wb.fx <bits>                      __FX(v) with the model-generated M2                                       spec: -
    wb.round <xkey> <r> <bits>        one round (12 T-box substitutions, then __FX) of the network of <key>     spec: -
    wb.seq <xkey1> <xkey2> <xblocks>  two generations in ONE process (`Wb.genSeq`): network 1 for key1, an in-place
    wb.seqg …                         modification of every table object of network 1 (`seqg`: and of every mutable
                                      object the module keeps), then network 2 for key2.  Sections, `|`-separated:
                                        pre=   digests of the key-independent tables generated with network 1
                                        enc1=  network 1 on the blocks, before it is modified
                                        encB=  a second, untouched network for key1 ("bystander"), evaluated afterwards
                                        post=  the key-independent tables generated after the modification, in full
                                        kt=    digests of the 16 x 12 T-boxes of network 2
                                        alias= NONE (the real code: ALIASED:<names> when two networks / two calls
                                               share a mutable table object)
                                        enc2=  network 2 on the blocks
                                      The model is pure: the answer is a function of (key1, key2, blocks) only and
                                      network 2 is `mkWhiteDES key2` (Proofs.C18.gen_seq_key_only).              spec: -
-/
import Driver.Wire
import Driver.BitsD
import Model.Wb
import Spec.Des
namespace Driver.WbD
open Model Driver Driver.BitsD

def fmtO (r : Option (List Nat)) : String := match r with | some b => fmtBytes b | none => "ERR"

/-- `h = (h*257 + e + 1) mod (2^61-1)` over the entries -/
def polyHash (l : List Nat) : Nat := l.foldl (fun h e => (h * 257 + e + 1) % (2 ^ 61 - 1)) 0

/-- `len:max:hash` -/
def digest (l : List Nat) : String := s!"{l.length}:{l.foldl max 0}:{polyHash l}"

def digestTables (t : List (List Nat)) : String := ",".intercalate (t.map digest)

def tablesLine (k : List Nat) : Except Err String := do
  let bK ← Bits.ofBytes k (some 64)
  let rounds ← (List.range 16).mapM fun r => do
    let (rks, rkt) ← Wb.tableRKT r bK
    pure (digestTables rkt ++ "|" ++ digestTables rks)
  pure (";".intercalate rounds)

def fmtTable (t : List (List Nat)) : String := "/".intercalate (t.map fmtNatList)

def staticLine : Except Err String := do
  let m1 ← Wb.tableM1
  let (mat, m) ← Wb.tableM2
  let m3 ← Wb.tableM3
  let rb ← Wb.getrbitsTin
  let (sr, l, r) ← Wb.srlrFormat
  let (er, l', r') ← Wb.erlrFormat
  pure (";".intercalate [fmtNatList m1, fmtNatList mat, fmtTable m, fmtNatList m3, fmtNatList rb,
                         fmtTable [sr, l, r], fmtTable [er, l', r']])

def chunks8 : Nat → List Nat → List (List Nat)
  | 0, _ => []
  | fuel + 1, l => if l.isEmpty then [] else l.take 8 :: chunks8 fuel (l.drop 8)

def encsLine (k ms : List Nat) : String :=
  match Wb.mkWhiteDES k with
  | .error _ => "ERR"
  | .ok w => ",".intercalate ((chunks8 ms.length ms).map fun m => fmtE fmtBytes (w.enc m))

def specEncs (k ms : List Nat) : String :=
  ",".intercalate ((chunks8 ms.length ms).map fun m => fmtO (Spec.Des.enc k m))

/-- only the tables of round r are generated -/
def roundLine (k : List Nat) (r : Nat) (v : Bits) : Except Err Bits := do
  let bK ← Bits.ofBytes k (some 64)
  let t ← Wb.tableRKT r bK
  let m2 ← Wb.tableM2
  let b ← Wb.tboxLoop t.2 (List.range 12) v
  (Wb.WhiteDES.mk [] [] m2.1 []).FX b

def fxLine (v : Bits) : Except Err Bits := do
  let m2 ← Wb.tableM2
  (Wb.WhiteDES.mk [] [] m2.1 []).FX v

/-- digests of the seven key-independent values in the order of `staticLine`
    (a list of lists is flattened with every row preceded by its length) -/
def staticDigests : Except Err String := do
  let m1 ← Wb.tableM1
  let (mat, m) ← Wb.tableM2
  let m3 ← Wb.tableM3
  let rb ← Wb.getrbitsTin
  let (sr, l, r) ← Wb.srlrFormat
  let (er, l', r') ← Wb.erlrFormat
  let flat (t : List (List Nat)) : List Nat := (t.map fun e => e.length :: e).flatten
  pure (",".intercalate [digest m1, digest mat, digest (flat m), digest m3, digest rb,
                         digest (flat [sr, l, r]), digest (flat [er, l', r'])])

def encsOf (w : Except Err Wb.WhiteDES) (ms : List Nat) : String :=
  match w with
  | .error _ => "ERR"
  | .ok w => ",".intercalate ((chunks8 ms.length ms).map fun m => fmtE fmtBytes (w.enc m))

def ktDigests (w : Except Err Wb.WhiteDES) : String :=
  match w with
  | .error _ => "ERR"
  | .ok w => ";".intercalate (w.KT.map digestTables)

/-- the in-place modification is invisible to a pure function: `f = id` -/
def seqLine (k1 k2 ms : List Nat) : String :=
  let p := Wb.genSeq k1 id k2
  let w1 := p.map Prod.fst
  let w2 := p.map Prod.snd
  "|".intercalate ["pre=" ++ fmtE id staticDigests, "enc1=" ++ encsOf w1 ms, "encB=" ++ encsOf w1 ms,
                   "post=" ++ fmtE id staticLine, "kt=" ++ ktDigests w2, "alias=NONE", "enc2=" ++ encsOf w2 ms]

def handle : Handler := fun op args =>
  match op, args with
  | "wb.enc", [k, m] => do
      let k ← parseBytes? k; let m ← parseBytes? m
      pure (fmtE fmtBytes (Wb.wbEnc k m), if k.length = 8 then fmtO (Spec.Des.enc k m) else "-")
  | "wb.encs", [k, ms] => do
      let k ← parseBytes? k; let ms ← parseBytes? ms
      pure (encsLine k ms, if k.length = 8 then specEncs k ms else "-")
  | "wb.tables", [k] => do
      let k ← parseBytes? k
      pure (fmtE id (tablesLine k), "-")
  | "wb.static", [] => some (fmtE id staticLine, "-")
  | "wb.static", [_] => some (fmtE id staticLine, "-")
  | "wb.fx", [v] => do
      let v ← parseBits? v
      pure (fmtE fmtBits (fxLine v), "-")
  | "wb.round", [k, r, v] => do
      let k ← parseBytes? k; let r ← parseNat? r; let v ← parseBits? v
      pure (fmtE fmtBits (roundLine k r v), "-")
  | "wb.seq", [k1, k2, ms] => do
      let k1 ← parseBytes? k1; let k2 ← parseBytes? k2; let ms ← parseBytes? ms
      pure (seqLine k1 k2 ms, "-")
  | "wb.seqg", [k1, k2, ms] => do
      let k1 ← parseBytes? k1; let k2 ← parseBytes? k2; let ms ← parseBytes? ms
      pure (seqLine k1 k2 ms, "-")
  | _, _ => none

end Driver.WbD
