/-
  Driver.ModeD — line-protocol handlers for Model.Mode / Spec.Mode (C05).

    mode <ECB|CBC|CTR|CTS_ECB|CTS_CBC> <toy id> <blockbytes> <key> <iv/counter or -> <padding> <enc|dec|rt|enc2> <msg>
        -> (model, spec)       spec is `-` outside the property's domain
    modert <mode> <cipher name> <blockbytes> <key> <iv or -> <padding> <msg>
        -> the summary `rt-ok len=<n>` the length laws predict for a real cipher of that block length
-/
import Driver.Wire
import Model.Mode
import Model.ToyCipher
import Spec.Mode
namespace Driver.ModeD
open Model Driver

def scheme? (s : String) : Option Scheme :=
  match s with
  | "pkcs7" => some .pkcs7
  | "X923" => some .x923
  | "bitpadding" => some .bit
  | "nopadding" => some .no
  | "Nullpadding" => some .null
  | _ => none

def specScheme? (s : Scheme) : Option Spec.ModePad.Scheme :=
  match s with
  | .pkcs7 => some .pkcs7
  | .x923 => some .x923
  | .bit => some .bit
  | .no => some .none
  | _ => none

def parseIv? (s : String) : Option (Option (List Nat)) :=
  if s = "-" then some none else (parseBytes? s).map some

def fmtR : Except Err (List Nat) → String := fmtE fmtBytes

def modelRun (mode : String) (c : BlockCipher) (iv : Option (List Nat)) (s : Scheme) (verb : String) (m : List Nat) :
    Option String :=
  let encdec? : Option ((List Nat → Except Err (List Nat)) × (List Nat → Except Err (List Nat))) :=
    match mode, iv with
    | "ECB", none => some (Mode.ECB.enc c s, fun x => Mode.ECB.dec c s x)
    | "CTS_ECB", none => some (Mode.CTS_ECB.enc c s, Mode.CTS_ECB.dec c s)
    | "CBC", some iv => some (Mode.CBC.enc c iv s, fun x => Mode.CBC.dec c iv s x)
    | "CTS_CBC", some iv => some (Mode.CTS_CBC.enc c iv s, Mode.CTS_CBC.dec c iv s)
    | "CTR", iv => if s = .no then some (Mode.CTR.enc c iv, Mode.CTR.dec c iv) else none
    | _, _ => none
  match encdec? with
  | none => none
  | some (e, d) =>
    match verb with
    | "enc" | "enc2" => some (fmtR (e m))
    | "dec" => some (fmtR (d m))
    | "rt" => some (fmtR (e m >>= d))
    | _ => none

def allBytes (l : List Nat) : Bool := l.all (· < 256)

/-- the property's right-hand side, where it speaks -/
def specRun (mode : String) (n : Nat) (E D : List Nat → List Nat) (key : List Nat) (iv : Option (List Nat))
    (s : Scheme) (verb : String) (m : List Nat) : String :=
  match specScheme? s with
  | none => "-"
  | some ss =>
    let k : Spec.Mode.Cipher := ⟨n, E, D⟩
    let padded : Bool := ss != .none
    let okCfg : Bool := n > 0 && key.length == n && (!padded || n < 256)
    let ivOk : Bool := match iv with | some v => v.length == n | none => true
    if !(okCfg && ivOk) then "-" else
    let encDom : Bool :=
      match mode with
      | "ECB" | "CBC" => padded || (m.length % n == 0 && m.length > 0)
      | "CTR" => !padded && (iv.isSome || n % 2 == 0)
      | "CTS_ECB" | "CTS_CBC" => !padded && m.length ≥ n
      | _ => false
    let encSpec : Option (List Nat) :=
      match mode, iv with
      | "ECB", none => some (Spec.Mode.ecb k ss m)
      | "CBC", some iv => some (Spec.Mode.cbc k iv ss m)
      | "CTR", iv => some (Spec.Mode.ctr k (iv.getD (List.replicate n 0)) m)
      | "CTS_ECB", none => some (Spec.Mode.ecbCts k m)
      | "CTS_CBC", some iv => some (Spec.Mode.cbcCts k iv m)
      | _, _ => none
    match verb with
    | "enc" | "enc2" => if encDom then (match encSpec with | some r => fmtBytes r | none => "-") else "-"
    | "rt" => if encDom && encSpec.isSome then fmtBytes m else "-"
    | "dec" =>
      let unp (r : Option (List Nat)) (lastBlockZero : Bool) : String :=
        match r with
        | some x => fmtBytes x
        | none => if ss == .bit && !lastBlockZero then "-" else "ERR"
      match mode, iv with
      | "ECB", none =>
        if m.length % n ≠ 0 then "-" else
        let P := Spec.Mode.ecbDecrypt k (Spec.Mode.blocks n m)
        unp (Spec.Mode.ecbInv k ss m) ((P.getLast?.getD []).all (· = 0))
      | "CBC", some _ =>
        if m.length % n ≠ 0 ∨ m.length < n then "-" else
        match Spec.Mode.blocks n m with
        | [] => "-"
        | iv0 :: cs =>
          let P := Spec.Mode.cbcDecrypt k iv0 cs
          unp (Spec.Mode.cbcInv k ss m) ((P.getLast?.getD []).all (· = 0))
      | "CTR", iv => if encDom then fmtBytes (Spec.Mode.ctr k (iv.getD (List.replicate n 0)) m) else "-"
      | _, _ => "-"
    | _ => "-"

/-- ciphertext length predicted by the length laws for a cipher of block length n -/
def lawLen (mode : String) (n : Nat) (s : Scheme) (mlen : Nat) : Option Nat :=
  let padded := s = .pkcs7 ∨ s = .x923 ∨ s = .bit
  match mode with
  | "ECB" => if padded then some ((mlen / n + 1) * n) else if s = .no then some mlen else none
  | "CBC" => if padded then some ((mlen / n + 1) * n + n) else if s = .no then some (mlen + n) else none
  | "CTR" => some mlen
  | "CTS_ECB" => some mlen
  | "CTS_CBC" => some (mlen + n)
  | _ => none

def handle : Handler := fun op args =>
  match op, args with
  | "mode", [mode, toy, n, key, iv, pad, verb, msg] => do
      let n ← parseNat? n
      let key ← parseBytes? key
      let iv ← parseIv? iv
      let s ← scheme? pad
      let m ← parseBytes? msg
      let (E, D) ← Toy.fns? toy key
      let c ← Toy.cipher? toy n key
      let mr ← modelRun mode c iv s verb m
      pure (mr, specRun mode n E D key iv s verb m)
  | "modert", [mode, _cipher, n, _key, _iv, pad, msg] => do
      let n ← parseNat? n
      let s ← scheme? pad
      let m ← parseBytes? msg
      let len ← lawLen mode n s m.length
      pure (s!"rt-ok len={len}", "-")
  | _, _ => none

end Driver.ModeD
