/-
  Driver.ModeD — line-protocol handlers for Model.Mode / Spec.Mode (C05).

    mode <ECB|CBC|CTR|CTS_ECB|CTS_CBC> <cipher> <blockbytes> <key> <iv/counter or -> <padding> <enc|dec|rt|enc2|er|xd> <msg>
        -> (model, spec)       spec is `-` outside the property's domain
      <cipher> = rot | aff            toy ciphers (Model.ToyCipher), key = x<hex> of blockbytes bytes
               = AES | DES | SERPENT   the library's ciphers: Model.Mode over Model.Aes / Model.Des / Model.Serpent (model column),
                                       Spec.Mode over FIPS 197 / FIPS 46-3 / the Serpent submission (spec column); key = x<hex>
               = TDEA                  key = x<K1> | x<K1>,x<K2> | x<K1>,x<K2>,x<K3>   (the calling forms of TDEA(K1,K2,K3))
               = THREEFISH             key = x<key>,x<tweak>   (`Threefish(key,tweak)`), blockbytes = 32 | 64 | 128: Model.Mode over
                                       Model.Threefish (model column), Spec.Mode over Threefish-256/512/1024 of Skein 1.3 (spec column)
      verb er = `enc(M);dec(enc(M))` (one encryption, one decryption with an equally configured object)
      verb dd = `dec(C);dec(C');dec(C)` on ONE object, C' = C with its whole blocks (behind the IV block for CBC / CTS_CBC) reversed
      verb ee = `enc(M);enc(M');enc(M);dec(enc(M))` on ONE object, M' = M with its whole blocks reversed
      verb xd = decryption, with the padding scheme, of the nopadding-encryption of <msg> (= unpad(<msg>): good and damaged paddings)
    ctrseq <cipher> <blockbytes> <key> <counter or -> <step> <step> …
        ONE object `CTR(cipher[,counter])` through a history of public calls (Model.Mode.CTR.Obj.run); the outputs of the steps joined
        by `;` (`ERR` alone when the constructor raises).  Steps:
          e:x<msg>  obj.enc(msg)            d:x<msg>  obj.dec(msg)        b  obj.dec(<result of the latest successful enc step>)
          s:<nonce>:<count>  obj.counter.setup(nonce,count)   (`-` = None)          -> `.`
          a:<iv>    obj.counter = DefaultCounter(obj.len,iv)  (`-` = no iv)          -> `.` or ERR (the object keeps its counter)
          r         obj.counter.reset()  -> `.`               c  obj.counter()       -> the counter block, or `None`
        spec column: SP 800-38A CTR (Spec.Mode.ctrOf) with the counter block IN FORCE at each enc/dec step — nonce ‖ count as the
        latest constructor / setup / assignment left it — over the Spec cipher; `-` when a step is outside the standard's domain
    modert <mode> <cipher name> <blockbytes> <key> <iv or -> <padding> <msg>
        -> the summary `rt-ok len=<n>` the length laws predict for a real cipher of that block length
-/
import Driver.Wire
import Model.Mode
import Model.ToyCipher
import Model.ModeCiphers
import Spec.Mode
import Spec.ModeCiphers
namespace Driver.ModeD
open Model Driver

def scheme? (s : String) : Option Scheme :=
  match s with
  | "pkcs7" => some .pkcs7
  | "X923" => some .x923
  | "bitpadding" => some .bit
  | "nopadding" => some .no
  | "Nullpadding" => some .null
  | _ => none

def specScheme? (s : Scheme) : Option Spec.ModePad.Scheme :=
  match s with
  | .pkcs7 => some .pkcs7
  | .x923 => some .x923
  | .bit => some .bit
  | .no => some .none
  | _ => none

def parseIv? (s : String) : Option (Option (List Nat)) :=
  if s = "-" then some none else (parseBytes? s).map some

def fmtR : Except Err (List Nat) → String := fmtE fmtBytes

/-- enc / dec of a mode object `mode(cipher[,iv],pad=s)` -/
def ops? (mode : String) (c : BlockCipher) (iv : Option (List Nat)) (s : Scheme) :
    Option ((List Nat → Except Err (List Nat)) × (List Nat → Except Err (List Nat))) :=
  match mode, iv with
  | "ECB", none => some (Mode.ECB.enc c s, fun x => Mode.ECB.dec c s x)
  | "CTS_ECB", none => some (Mode.CTS_ECB.enc c s, Mode.CTS_ECB.dec c s)
  | "CBC", some iv => some (Mode.CBC.enc c iv s, fun x => Mode.CBC.dec c iv s x)
  | "CTS_CBC", some iv => some (Mode.CTS_CBC.enc c iv s, Mode.CTS_CBC.dec c iv s)
  | "CTR", iv => if s = .no then some (Mode.CTR.enc c iv, Mode.CTR.dec c iv) else none
  | _, _ => none

/-- X with its whole blocks in reverse order (keep: the first block stays in front; a partial tail stays behind) -/
def revBlocks (n : Nat) (keep : Bool) (X : List Nat) : List Nat :=
  let head := if keep then X.take n else []
  let body := X.drop head.length
  let q := body.length / n
  head ++ ((List.range q).reverse.map fun i => (body.drop (i * n)).take n).flatten ++ body.drop (q * n)

def keepsIv (mode : String) : Bool := mode == "CBC" || mode == "CTS_CBC"

def modelRun (mode : String) (c : BlockCipher) (iv : Option (List Nat)) (s : Scheme) (verb : String) (m : List Nat) :
    Option String :=
  match ops? mode c iv s with
  | none => none
  | some (e, d) =>
    match verb with
    | "xd" =>
      -- encrypt the (already padded) string without padding, decrypt with the scheme
      match ops? mode c iv .no with
      | some (e0, _) => some (fmtR (e0 m >>= d))
      | none => none
    | "enc" | "enc2" => some (fmtR (e m))
    | "dec" => some (fmtR (d m))
    -- one object, several calls: the mode objects keep nothing a later call reads (the paddings of this stream do not read
    -- the padding state in `remove`), so each call is the stateless function
    | "dd" => some (";".intercalate [fmtR (d m), fmtR (d (revBlocks c.len (keepsIv mode) m)), fmtR (d m)])
    | "ee" => some (";".intercalate [fmtR (e m), fmtR (e (revBlocks c.len false m)), fmtR (e m), fmtR (e m >>= d)])
    | "rt" => some (fmtR (e m >>= d))
    | "er" =>
      match e m with
      | .error _ => some "ERR"
      | .ok C =>
        match d C with
        | .error _ => some "ERR"
        | .ok M => some (fmtBytes C ++ ";" ++ fmtBytes M)
    | _ => none

def allBytes (l : List Nat) : Bool := l.all (· < 256)

/-- the property's right-hand side, where it speaks -/
def specRun (mode : String) (k? : Option Spec.Mode.Cipher) (iv : Option (List Nat))
    (s : Scheme) (verb : String) (m : List Nat) : String :=
  match specScheme? s, k? with
  | none, _ => "-"
  | _, none => "-"
  | some ss, some k =>
    let n := k.len
    let padded : Bool := ss != .none
    let okCfg : Bool := n > 0 && (!padded || n < 256)
    let ivOk : Bool := match iv with | some v => v.length == n | none => true
    if !(okCfg && ivOk) then "-" else
    let encDom : Bool :=
      match mode with
      | "ECB" | "CBC" => padded || (m.length % n == 0 && m.length > 0)
      | "CTR" => !padded && (iv.isSome || n % 2 == 0)
      | "CTS_ECB" | "CTS_CBC" => !padded && m.length ≥ n
      | _ => false
    let encSpec : Option (List Nat) :=
      match mode, iv with
      | "ECB", none => some (Spec.Mode.ecb k ss m)
      | "CBC", some iv => some (Spec.Mode.cbc k iv ss m)
      | "CTR", iv => some (Spec.Mode.ctr k (iv.getD (List.replicate n 0)) m)
      | "CTS_ECB", none => some (Spec.Mode.ecbCts k m)
      | "CTS_CBC", some iv => some (Spec.Mode.cbcCts k iv m)
      | _, _ => none
    match verb with
    | "enc" | "enc2" => if encDom then (match encSpec with | some r => fmtBytes r | none => "-") else "-"
    | "rt" => if encDom && encSpec.isSome then fmtBytes m else "-"
    | "er" => if encDom then (match encSpec with | some r => fmtBytes r ++ ";" ++ fmtBytes m | none => "-") else "-"
    | "xd" =>
      -- dec(enc_nopadding(P)) = unpad(P) for a non-empty block multiple P
      if (mode == "ECB" && iv.isNone || mode == "CBC" && iv.isSome) && m.length % n == 0 && m.length > 0 then
        match Spec.ModePad.unpad ss n m with
        | some x => fmtBytes x
        | none => if ss == .bit && !((m.drop (m.length - n)).all (· = 0)) then "-" else "ERR"
      else "-"
    | "dec" =>
      let unp (r : Option (List Nat)) (lastBlockZero : Bool) : String :=
        match r with
        | some x => fmtBytes x
        | none => if ss == .bit && !lastBlockZero then "-" else "ERR"
      match mode, iv with
      | "ECB", none =>
        if m.length % n ≠ 0 then "-" else
        let P := Spec.Mode.ecbDecrypt k (Spec.Mode.blocks n m)
        unp (Spec.Mode.ecbInv k ss m) ((P.getLast?.getD []).all (· = 0))
      | "CBC", some _ =>
        if m.length % n ≠ 0 ∨ m.length < n then "-" else
        match Spec.Mode.blocks n m with
        | [] => "-"
        | iv0 :: cs =>
          let P := Spec.Mode.cbcDecrypt k iv0 cs
          unp (Spec.Mode.cbcInv k ss m) ((P.getLast?.getD []).all (· = 0))
      | "CTR", iv => if encDom then fmtBytes (Spec.Mode.ctr k (iv.getD (List.replicate n 0)) m) else "-"
      | "CTS_ECB", none => if !padded && m.length ≥ n then fmtBytes (Spec.Mode.ecbCtsInv k m) else "-"
      | "CTS_CBC", some _ => if !padded && m.length ≥ 2 * n then fmtBytes (Spec.Mode.cbcCtsInv k m) else "-"
      | _, _ => "-"
    | _ => "-"

/-- ciphertext length predicted by the length laws for a cipher of block length n -/
def lawLen (mode : String) (n : Nat) (s : Scheme) (mlen : Nat) : Option Nat :=
  let padded := s = .pkcs7 ∨ s = .x923 ∨ s = .bit
  match mode with
  | "ECB" => if padded then some ((mlen / n + 1) * n) else if s = .no then some mlen else none
  | "CBC" => if padded then some ((mlen / n + 1) * n + n) else if s = .no then some (mlen + n) else none
  | "CTR" => some mlen
  | "CTS_ECB" => some mlen
  | "CTS_CBC" => some (mlen + n)
  | _ => none

/-- the cipher object (its construction may raise) and the standard's cipher it stands for (none = the standard does
    not define a cipher for this key) -/
def instance? (cid : String) (n : Nat) (keys : List (List Nat)) : Option (Except Err BlockCipher × Option Spec.Mode.Cipher) :=
  let isB (k : List Nat) : Bool := allBytes k
  match cid, keys with
  | "AES", [key] =>
    if n ≠ 16 then none else
    some (Mode.Ciphers.aes? key,
      if (key.length == 16 || key.length == 24 || key.length == 32) && isB key then some (Spec.ModeCiphers.fips197 key) else none)
  | "DES", [key] =>
    if n ≠ 8 then none else
    some (Mode.Ciphers.des? key, if key.length == 8 && isB key then some (Spec.ModeCiphers.fips46 key) else none)
  | "SERPENT", [key] =>
    if n ≠ 16 then none else
    some (Mode.Ciphers.serpent? key, if key.length ≤ 32 && isB key then some (Spec.ModeCiphers.serpentShared key) else none)
  | "TDEA", k1 :: rest =>
    if n ≠ 8 then none else
    let args? : Option (Option (List Nat) × Option (List Nat)) :=
      match rest with
      | [] => some (none, none)
      | [k2] => some (some k2, none)
      | [k2, k3] => some (some k2, some k3)
      | _ => none
    match args? with
    | none => none
    | some (K2, K3) =>
      let ko? := (Spec.ModeCiphers.keyingOfCall k1 K2 K3).bind fun ko =>
        let (a, b, c) := ko.bundle
        if a.length == 8 && b.length == 8 && c.length == 8 && isB a && isB b && isB c then some ko else none
      some (Mode.Ciphers.tdea? k1 K2 K3, ko?.map Spec.ModeCiphers.sp80067)
  | "THREEFISH", [key, tweak] =>
    -- the block length token is the one a well-formed key of that cipher has; a key of another length must be refused
    if ¬ (n = 32 ∨ n = 64 ∨ n = 128) then none else
    if (key.length = 32 ∨ key.length = 64 ∨ key.length = 128) ∧ key.length ≠ n then none else
    some (Mode.Ciphers.threefish? key tweak,
      if key.length == n && tweak.length == 16 && isB key && isB tweak then some (Spec.ModeCiphers.threefish key tweak) else none)
  | _, [key] =>
    match Toy.fns? cid key, Toy.cipher? cid n key with
    | some (E, D), some c => some (.ok c, if key.length == n then some ⟨n, E, D⟩ else none)
    | _, _ => none
  | _, _ => none

/-! ### `ctrseq`: one CTR object, many calls -/
open Model.Mode.CTR in
def parseStep? (s : String) : Option (Step ⊕ Unit) :=       -- `inr ()` = dec of the latest enc result
  match s.splitOn ":" with
  | ["r"] => some (.inl .reset)
  | ["c"] => some (.inl .call)
  | ["b"] => some (.inr ())
  | ["e", m] => (parseBytes? m).map fun m => .inl (.enc m)
  | ["d", m] => (parseBytes? m).map fun m => .inl (.dec m)
  | ["s", a, b] => do
      let a ← parseIv? a
      let b ← parseIv? b
      pure (.inl (.setup a b))
  | ["a", v] => (parseIv? v).map fun v => .inl (.assign v)
  | _ => none

open Model.Mode.CTR in
def fmtOut : Out → String
  | .bytes r => fmtR r
  | .unit (.ok _) => "."
  | .unit (.error _) => "ERR"
  | .block (some b) => fmtBytes b
  | .block none => "None"

open Model.Mode.CTR in
/-- the model column: the object threaded through the steps -/
def seqModel (c : BlockCipher) : Obj → List Nat → List (Step ⊕ Unit) → List String
  | _, _, [] => []
  | o, last, st :: rest =>
    let s : Step := match st with | .inl s => s | .inr _ => .dec last
    let r := o.step c s
    let last' := match s, r.1 with | .enc _, .bytes (.ok C) => C | _, _ => last
    fmtOut r.1 :: seqModel c r.2 last' rest

open Model.Mode.CTR in
/-- the spec column: only the counter block in force (nonce, count) is carried from step to step -/
def seqSpec (k : Spec.Mode.Cipher) : List Nat × List Nat → List Nat → List (Step ⊕ Unit) → Option (List String)
  | _, _, [] => some []
  | (nonce, count), last, st :: rest =>
    let n := k.len
    let zeros := List.replicate (n / 2) 0
    let ctr (M : List Nat) : Option (List Nat) :=
      if nonce.length + count.length == n && count.length > 0 && allBytes nonce && allBytes count then
        some (Spec.Mode.ctrOf k nonce count M) else none
    match st with
    | .inl (.enc M) => do
        let C ← ctr M
        let r ← seqSpec k (nonce, count) C rest
        pure (fmtBytes C :: r)
    | .inl (.dec C) => do
        let P ← ctr C
        let r ← seqSpec k (nonce, count) last rest
        pure (fmtBytes P :: r)
    | .inr _ => do
        let P ← ctr last
        let r ← seqSpec k (nonce, count) last rest
        pure (fmtBytes P :: r)
    | .inl (.setup a b) => (seqSpec k (a.getD zeros, b.getD zeros) last rest).map ("." :: ·)
    | .inl (.assign none) => (seqSpec k (zeros, zeros) last rest).map ("." :: ·)
    | .inl (.assign (some v)) =>
      if v.length == n then (seqSpec k (v.take (n / 2), v.drop (n / 2)) last rest).map ("." :: ·) else none
    | .inl .reset => (seqSpec k (nonce, count) last rest).map ("." :: ·)
    | .inl .call => none

def handle : Handler := fun op args =>
  match op, args with
  | "mode", [mode, cid, n, key, iv, pad, verb, msg] => do
      let n ← parseNat? n
      let keys ← (key.splitOn ",").mapM parseBytes?
      let iv ← parseIv? iv
      let s ← scheme? pad
      let m ← parseBytes? msg
      let (c, k) ← instance? cid n keys
      -- the two columns are independent computations: evaluate the spec column on a second thread
      let joinSpec := fun (l : List String) => if l.any (· == "-") then "-" else ";".intercalate l
      let sp := Task.spawn fun _ =>
        match verb with
        | "dd" => joinSpec [specRun mode k iv s "dec" m, specRun mode k iv s "dec" (revBlocks n (keepsIv mode) m), specRun mode k iv s "dec" m]
        | "ee" => joinSpec [specRun mode k iv s "enc" m, specRun mode k iv s "enc" (revBlocks n false m), specRun mode k iv s "enc" m,
                            specRun mode k iv s "rt" m]
        | _ => specRun mode k iv s verb m
      let mr ← match c with
        | .ok c => modelRun mode c iv s verb m
        | .error _ => (modelRun mode (Toy.rot n []) iv s verb []).map fun _ =>     -- the cipher constructor raised
            if verb == "dd" then "ERR;ERR;ERR" else if verb == "ee" then "ERR;ERR;ERR;ERR" else "ERR"
      pure (mr, sp.get)
  | "ctrseq", cid :: n :: key :: ctor :: steps => do
      let n ← parseNat? n
      let keys ← (key.splitOn ",").mapM parseBytes?
      let ctor ← parseIv? ctor
      let steps ← steps.mapM parseStep?
      let (c, k) ← instance? cid n keys
      let sp := Task.spawn fun _ =>
        match k with
        | none => "-"
        | some k =>
          let start? : Option (List Nat × List Nat) :=
            match ctor with
            | none => some (List.replicate (k.len / 2) 0, List.replicate (k.len / 2) 0)
            | some v => if v.length == k.len then some (v.take (k.len / 2), v.drop (k.len / 2)) else none
          match start?.bind fun st => seqSpec k st [] steps with
          | some outs => ";".intercalate outs
          | none => "-"
      let mr := match c with
        | .error _ => "ERR"
        | .ok c =>
          match Mode.CTR.Obj.new c ctor with
          | .error _ => "ERR"
          | .ok o => ";".intercalate (seqModel c o [] steps)
      pure (mr, sp.get)
  | "modert", [mode, _cipher, n, _key, _iv, pad, msg] => do
      let n ← parseNat? n
      let s ← scheme? pad
      let m ← parseBytes? msg
      let len ← lawLen mode n s m.length
      pure (s!"rt-ok len={len}", "-")
  | _, _ => none

end Driver.ModeD
