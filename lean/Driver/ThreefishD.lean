/-
  Driver.ThreefishD — line-protocol handlers for Model.Threefish / Spec.Threefish (C02, C03 Threefish parts).
    threefish.enc <key> <tweak> <block>      -> bytes | ERR      (model, spec)
    threefish.dec <key> <tweak> <block>      -> bytes | ERR      (model, spec)
    threefish.rt  <key> <tweak> <block>      -> dec(enc(B));enc(dec(B))   (model, -)
    threefish.ks  <key> <tweak> <s>          -> l<words>          (model, spec)
    threefish.mix <nw> <x0> <x1> <d> <j>     -> l<y0,y1>          (model, spec)
    threefish.mixinv <nw> <y0> <y1> <d> <j>  -> l<x0,x1>          (model, spec)
-/
import Driver.Wire
import Model.Threefish
import Spec.Threefish
namespace Driver.ThreefishD
open Model Driver

def fmtO (o : Option (List Nat)) : String := match o with | some b => fmtBytes b | none => "ERR"

def fmtWords (l : List Bits) : String := fmtNatList (l.map (·.ival))
def fmtSWords (l : List Spec.Threefish.W) : String := fmtNatList (l.map (·.toNat))

/-- a probe context of `nw` words with an all-zero key (only the tables matter for mix/mixinv) -/
def probeCtx (nw : Nat) : Except Err Threefish.Ctx :=
  Threefish.init (List.replicate (8 * nw) 0) (List.replicate 16 0)

def handle : Handler := fun op args =>
  match op, args with
  | "threefish.enc", [k, t, b] => do
      let k ← parseBytes? k; let t ← parseBytes? t; let b ← parseBytes? b
      pure (fmtE fmtBytes (Threefish.encrypt k t b), fmtO (Spec.Threefish.enc k t b))
  | "threefish.dec", [k, t, b] => do
      let k ← parseBytes? k; let t ← parseBytes? t; let b ← parseBytes? b
      pure (fmtE fmtBytes (Threefish.decrypt k t b), fmtO (Spec.Threefish.dec k t b))
  | "threefish.rt", [k, t, b] => do
      let k ← parseBytes? k; let t ← parseBytes? t; let b ← parseBytes? b
      let r1 := (Threefish.encrypt k t b) >>= fun c => Threefish.decrypt k t c
      let r2 := (Threefish.decrypt k t b) >>= fun c => Threefish.encrypt k t c
      pure (fmtE fmtBytes r1 ++ ";" ++ fmtE fmtBytes r2, "-")
  | "threefish.ks", [k, t, s] => do
      let k ← parseBytes? k; let t ← parseBytes? t; let s ← parseNat? s
      let m := (Threefish.init k t).map fun c => Threefish.ks c s
      let sp : Option (List Spec.Threefish.W) :=
        if Spec.Threefish.sizesOk k t k then
          some (Spec.Threefish.subkeys (k.length / 8) (Spec.Threefish.keyExt (Spec.Threefish.bytesToWords k))
                  (Spec.Threefish.tweakExt (Spec.Threefish.bytesToWords t)) s)
        else none
      pure (fmtE fmtWords m, match sp with | some l => fmtSWords l | none => "ERR")
  | "threefish.mix", [nw, x0, x1, d, j] => do
      let nw ← parseNat? nw; let x0 ← parseNat? x0; let x1 ← parseNat? x1; let d ← parseNat? d; let j ← parseNat? j
      let m := (probeCtx nw).map fun c => Threefish.mix c ⟨x0, 64⟩ ⟨x1, 64⟩ d j
      let sp := if Spec.Threefish.validNw nw then
          fmtSWords (Spec.Threefish.mix (Spec.Threefish.rot nw d j) (BitVec.ofNat 64 x0) (BitVec.ofNat 64 x1)) else "ERR"
      pure (fmtE fmtWords m, sp)
  | "threefish.mixinv", [nw, y0, y1, d, j] => do
      let nw ← parseNat? nw; let y0 ← parseNat? y0; let y1 ← parseNat? y1; let d ← parseNat? d; let j ← parseNat? j
      let m := (probeCtx nw).map fun c => Threefish.mixinv c ⟨y0, 64⟩ ⟨y1, 64⟩ d j
      let sp := if Spec.Threefish.validNw nw then
          fmtSWords (Spec.Threefish.mixInv (Spec.Threefish.rot nw d j) (BitVec.ofNat 64 y0) (BitVec.ofNat 64 y1)) else "ERR"
      pure (fmtE fmtWords m, sp)
  | _, _ => none

end Driver.ThreefishD
