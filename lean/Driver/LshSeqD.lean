/-
  Driver.LshSeqD — C19: ONE TLSH object (or the module singleton `tlsh`) and ONE Nilsimsa object through a history of calls.

    tlsh.calls <buckets|S> <window> <chklen> <step> <step> …        `S 5 1` = the module singleton `crysp.tlsh.tlsh` = TLSH(128)
        c:<T|F>:x<data>     obj(data,force)                        -> digest | none | ERR
        cl:<T|F>:l<ints>    obj(list of ints,force)                -> the same; ERR when a value > 255 is read (IndexError in b_mapping:
                                                                      every element is read as soon as there is one whole window)
        u:x<data> / ul:l<ints>   obj.update(data), no digest       -> `.` | `!` (raised)
        f:<T|F>:x<data>     obj.final(data,force), no digest       -> `.` (whatever it returned or raised)
        h:x<digest>         obj.from_hash(digest)                  -> `.` | `!` (raised)
      results joined by `;` (`ERR` alone when the constructor refuses the configuration).
    nilsimsa.calls <target> <step> …
        c:x<data> / cl:l<ints>   obj(data)                         -> digest | ERR (a value > 255 at a position 1..len-2 is used as a
                                                                      table index by the next byte's trigrams: IndexError)
        u:x<data> / ul:l<ints>   obj.update(data), no digest       -> `.` | `!`   (never right after a step that raised: the window then holds the value > 255)
    The model column is the ONE-SHOT function of each step's own arguments — `Model.Tlsh.tlsh lcap cfg data force`,
    `Model.Tlsh.fromHash cfg digest`, `Model.Nilsimsa.nilsimsa target data` — : a call starts with `reset()`, so nothing an
    earlier step left in the object can show (Proofs.C19.tlsh_call_ignores_history / tlsh_call_is_oneshot /
    nilsimsa_call_ignores_history prove this for the object models Model.Objects.TlshO / Model.Nilsimsa.stepOp).  Spec column: Spec.Tlsh / Spec.Nilsimsa of each call's data.
    Lists with a value > 255 only where the code does not use it as an index (TLSH: shorter than a window; Nilsimsa: first or
    last position) are not lines of the protocol.
-/
import Driver.LshD
namespace Driver.LshSeqD
open Model Driver Driver.LshD

inductive Step where
  | call (force : Bool) (data : List Nat)
  | update (data : List Nat)
  | final (force : Bool) (data : List Nat)
  | fromHash (d : List Nat)

def parseData? (kind : String) (tok : String) : Option (List Nat) :=
  if kind.endsWith "l" then parseNatList? tok else parseBytes? tok

def parseStep? (s : String) : Option Step :=
  match s.splitOn ":" with
  | [k, f, d] =>
    if k = "c" ∨ k = "cl" then do let f ← parseBool? f; let d ← parseData? k d; pure (.call f d)
    else if k = "f" then do let f ← parseBool? f; let d ← parseBytes? d; pure (.final f d)
    else none
  | [k, d] =>
    if k = "u" ∨ k = "ul" then (parseData? k d).map .update
    else if k = "h" then (parseBytes? d).map .fromHash
    else none
  | _ => none

def hasBig (d : List Nat) : Bool := d.any (· > 255)

/-- `update(data)` raises: some whole window exists, so every element is read -/
def tlshRaises (cfg : Tlsh.Cfg) (d : List Nat) : Bool := hasBig d && decide (cfg.window ≤ d.length)

def tlshModel (cfg : Tlsh.Cfg) : Step → String
  | .call f d => if tlshRaises cfg d then "ERR" else fmtOptBytes (Tlsh.tlsh lcapF cfg d f)
  | .update d => if tlshRaises cfg d then "!" else "."
  | .final _ _ => "."
  | .fromHash d => match Tlsh.fromHash cfg d with | .ok _ => "." | .error _ => "!"

def tlshSpec (cfg : Tlsh.Cfg) : Step → String
  | .call f d =>
    if tlshRaises cfg d then "ERR" else
    match Spec.Tlsh.tlsh lcapF cfg.buckets cfg.window cfg.chklen d f with
    | some x => fmtBytes x
    | none => "none"
  | .update d => if tlshRaises cfg d then "!" else "."
  | .final _ _ => "."
  | .fromHash d => if d.length = cfg.chklen + 2 + cfg.buckets / 4 then "." else "!"

/-- Nilsimsa: the positions at which a value > 255 becomes a table index (`tran[w0]` of the next byte) -/
def nilRaises (d : List Nat) : Bool := hasBig ((d.drop 1).dropLast)

/-- a list the code accepts although it is not a byte string: outside the protocol -/
def nilOutside (d : List Nat) : Bool := hasBig d && !nilRaises d

def nilModel (t : Nat) : Step → Option String
  | .call _ d => if nilOutside d then none else some (if nilRaises d then "ERR" else fmtBytes (Nilsimsa.nilsimsa t d))
  | .update d => if nilOutside d then none else some (if nilRaises d then "!" else ".")
  | _ => none

def nilSpec (t : Nat) : Step → String
  | .call _ d => if nilRaises d then "ERR" else fmtBytes (Spec.Nilsimsa.nilsimsa t d)
  | .update d => if nilRaises d then "!" else "."
  | _ => "-"

def handle : Handler := fun op args =>
  match op, args with
  | "tlsh.calls", b :: w :: c :: steps => do
      let cfg ← if b = "S" then (if w = "5" ∧ c = "1" then some (⟨128, 5, 1⟩ : Tlsh.Cfg) else none) else parseCfg? b w c
      let steps ← steps.mapM parseStep?
      if steps.isEmpty then none
      if cfg.valid = false then pure ("ERR", "ERR") else
      pure (";".intercalate (steps.map (tlshModel cfg)), ";".intercalate (steps.map (tlshSpec cfg)))
  | "nilsimsa.calls", t :: steps => do
      let t ← parseNat? t
      let steps ← steps.mapM fun s => do
        let st ← parseStep? s
        match st with
        | .call false _ => some st        -- `c:F:<data>`: Nilsimsa has no force flag, the token is F
        | .update _ => some st
        | _ => none
      if steps.isEmpty then none
      let m ← steps.mapM (nilModel t)
      pure (";".intercalate m, ";".intercalate (steps.map (nilSpec t)))
  | _, _ => none

end Driver.LshSeqD
