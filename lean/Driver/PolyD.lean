/-
  Driver.PolyD — line-protocol handlers for Model.Poly (C16).
  Operand tokens: `p<size>:<comma separated ints>` a Poly built as `Poly([ints],size)` (`p8:` = empty vector, ints
  may be negative / unreduced: the constructor reduces them), right-hand sides of assignments: `i<int>` an int,
  `b<size>:<ival>` a Bits, `l…` a list, `p…` a Poly, `x…` bytes.
  Results: a Poly prints as `<size>:<comma separated ints>`; observations are joined by `;`.
-/
import Driver.Wire
import Model.Poly
import Spec.Poly
namespace Driver.PolyD
open Model Driver

def parseInts? (b : String) : Option (List Int) :=
  if b = "" then some [] else (b.splitOn ",").mapM (·.toInt?)

/-- the raw (size, ints) of a `p` token -/
def parsePolyRaw? (s : String) : Option (Nat × List Int) :=
  match s.toList with
  | 'p' :: cs =>
    match (String.ofList cs).splitOn ":" with
    | [a, b] => do let sz ← a.toNat?; let l ← parseInts? b; pure (sz, l)
    | _ => none
  | _ => none

def parsePoly? (s : String) : Option Poly := (parsePolyRaw? s).map fun (sz, l) => Poly.ofList l sz

def fmtInts (l : List Int) : String := ",".intercalate (l.map toString)
def fmtPoly (p : Poly) : String := s!"{p.size}:{fmtInts p.ival}"
def fmtSpec (k : Nat) (l : List Int) : String := s!"{k}:{fmtInts l}"

/-- right-hand side of an assignment -/
def parseRVal? (s : String) : Option Poly.RVal :=
  match s.toList with
  | 'i' :: cs => ((String.ofList cs).toInt?).map .int
  | 'b' :: cs =>
    match (String.ofList cs).splitOn ":" with
    | [a, b] => do let sz ← a.toNat?; let v ← b.toNat?; pure (.int (Int.ofNat (v % 2 ^ sz)))
    | _ => none
  | 'l' :: _ => (parseIntList? s).map .list
  | 'p' :: _ => (parsePoly? s).map fun p => .list p.ival
  | 'x' :: _ => (parseBytes? s).map fun bs => .list (bs.map Int.ofNat)
  | _ => none

def parseOp? : String → Option Poly.BinOp
  | "and" => some .and | "or" => some .or | "xor" => some .xor | "add" => some .add | "sub" => some .sub
  | _ => none

/-- one step of a mutating sequence -/
def parseMut? (toks : List String) : Option Poly.MutOp :=
  match toks with
  | ["setint", i, v] => do
      let i ← parseInt? i; let v ← parseRVal? v
      match v with
      | .int x => pure (.setInt i x)
      | .list _ => none
  | ["setslice", s, e, st, v] => do
      let s ← parseOptInt? s; let e ← parseOptInt? e; let st ← parseOptInt? st; let v ← parseRVal? v
      pure (.setSlice s e st v)
  | ["setlist", l, v] => do let l ← parseIntList? l; let v ← parseRVal? v; pure (.setIdx l v)
  | ["setdim", d] => do let d ← parseInt? d; pure (.setDim (if d ≤ 0 then 0 else d.toNat))
  | _ => none

def mutStep (a : Poly) (toks : List String) : Option (Except Err Poly) := (parseMut? toks).map a.applyOp

def runSeq (a : Poly) : List (List String) → List String → Option (List String)
  | [], acc => some acc.reverse
  | st :: rest, acc =>
    match mutStep a st with
    | none => none
    | some (.error _) => some ("ERR" :: acc).reverse
    | some (.ok a') => runSeq a' rest (fmtPoly a' :: acc)

def splitBar (toks : List String) : List (List String) :=
  let rec go : List String → List String → List (List String) → List (List String)
    | [], cur, acc => (cur.reverse :: acc).reverse
    | "|" :: ts, cur, acc => go ts [] (cur.reverse :: acc)
    | t :: ts, cur, acc => go ts (t :: cur) acc
  go toks [] []

def dimArg (d : Int) : Nat := if d > 0 then d.toNat else 0

/-- all vectors of dimension d over Z/2^k, first coordinate slowest (the order of itertools.product) -/
def allVectors (k : Nat) : Nat → List (List Int)
  | 0 => [[]]
  | d+1 => (List.range (2 ^ k)).flatMap fun c => (allVectors k d).map (Int.ofNat c :: ·)

def digestMod : Nat := 2 ^ 61 - 1
/-- rolling digest of a sequence of results (ring, dimension, coefficients of each) -/
def digestStep (h : Nat) (size : Nat) (l : List Int) : Nat :=
  let h1 := (h * 31 + size + 1000 * l.length + 7) % digestMod
  l.foldl (fun acc c => (acc * 31 + c.toNat + 3) % digestMod) h1

/-- `poly.exh op x dy`: x op y for every y of dimension dy over the ring of x, digested -/
def exhModel (o : Poly.BinOp) (x : Poly) (dy : Nat) : Option Nat :=
  (allVectors x.size dy).foldl (fun acc y =>
    match acc, Poly.binop o x ⟨y, x.size⟩ with
    | some h, .ok r => some (digestStep h r.size r.ival)
    | _, _ => none) (some 0)

def exhSpec (o : Poly.BinOp) (x : Poly) (dy : Nat) : Nat :=
  (allVectors x.size dy).foldl (fun h y =>
    let r := match o with
      | .add => Spec.Poly.add x.size x.ival y
      | .sub => Spec.Poly.sub x.size x.ival y
      | .and => Spec.Poly.band x.ival y
      | .or => Spec.Poly.bor x.ival y
      | .xor => Spec.Poly.bxor x.ival y
    digestStep h x.size r) 0

/-- (model, spec) -/
def both (op : String) (args : List String) : Option (String × String) :=
  match op, args with
  | "poly.oflist", [l, sz, d] => do
      let l ← parseIntList? l; let sz ← parseNat? sz; let d ← parseInt? d
      pure (fmtPoly (Poly.ofList l sz (dimArg d)), fmtSpec sz (Spec.Poly.fit (dimArg d) (Spec.Poly.norm sz l)))
  | "poly.ofint", [v, sz, d] => do
      let v ← parseInt? v; let sz ← parseNat? sz; let d ← parseInt? d
      pure (fmtPoly (Poly.ofInt v sz (dimArg d)), fmtSpec sz (Spec.Poly.fit (dimArg d) (Spec.Poly.norm sz [v])))
  | "poly.ofbytes", [x, _sz, d] => do
      let x ← parseBytes? x; let d ← parseInt? d
      pure (fmtPoly (Poly.ofBytes x (dimArg d)), fmtSpec 8 (Spec.Poly.fit (dimArg d) (x.map Int.ofNat)))
  | "poly.ofpoly", [p, _sz, d] => do
      let p ← parsePoly? p; let d ← parseInt? d
      pure (fmtPoly (Poly.ofList p.ival p.size (dimArg d)), fmtSpec p.size (Spec.Poly.fit (dimArg d) p.ival))
  | "poly.setdim", [p, d] => do
      let p ← parsePoly? p; let d ← parseInt? d
      pure (fmtE fmtPoly (if d ≤ 0 then .error "AssertionError" else p.setDim d.toNat),
            if d ≤ 0 then "ERR" else fmtSpec p.size (Spec.Poly.fit d.toNat p.ival))
  | "poly.e", [p, i] => do
      let p ← parsePoly? p; let i ← parseNat? i
      pure (toString (p.e i), toString (Spec.Poly.coeff p.ival i))
  | "poly.len", [p] => do let p ← parsePoly? p; pure (toString p.dim, toString p.ival.length)
  | "poly.iter", [p] => do
      let p ← parsePoly? p
      pure (fmtIntList ((List.range p.dim).map p.e), fmtIntList p.ival)
  | "poly.binop", [o, a, b] => do
      -- a op b ; b op a ; a ; b   (operands printed after the operation)
      let o ← parseOp? o; let a ← parsePoly? a; let b ← parsePoly? b
      let obs := ";" ++ fmtPoly a ++ ";" ++ fmtPoly b
      let m := fmtE fmtPoly (Poly.binop o a b) ++ ";" ++ fmtE fmtPoly (Poly.binop o b a) ++ obs
      let sp (x y : Poly) : String :=
        if x.size ≠ y.size then "ERR" else
        match o with
        | .add => fmtSpec x.size (Spec.Poly.add x.size x.ival y.ival)
        | .sub => fmtSpec x.size (Spec.Poly.sub x.size x.ival y.ival)
        | .and => fmtSpec x.size (Spec.Poly.band x.ival y.ival)
        | .or => fmtSpec x.size (Spec.Poly.bor x.ival y.ival)
        | .xor => fmtSpec x.size (Spec.Poly.bxor x.ival y.ival)
      pure (m, sp a b ++ ";" ++ sp b a ++ obs)
  | "poly.exh", [o, x, dy] => do
      -- the second field of the implementation side is the digest of the plugin's own reference; the model has no
      -- second opinion, it repeats its digest
      let o ← parseOp? o; let x ← parsePoly? x; let dy ← parseNat? dy
      let m := match exhModel o x dy with | some h => s!"{h};{h}" | none => "ERR"
      let sp := exhSpec o x dy
      pure (m, s!"{sp};{sp}")
  | "poly.neg", [a] => do
      let a ← parsePoly? a
      pure (fmtPoly a.neg ++ ";" ++ fmtPoly a, fmtSpec a.size (Spec.Poly.neg a.size a.ival) ++ ";" ++ fmtPoly a)
  | "poly.negadd", [a] => do
      -- a + (-a)
      let a ← parsePoly? a
      pure (fmtE fmtPoly (Poly.binop .add a a.neg), fmtSpec a.size (List.replicate a.ival.length 0))
  | "poly.shl", [a, n] => do
      let a ← parsePoly? a; let n ← parseInt? n
      pure (fmtE fmtPoly (a.shlI n) ++ ";" ++ fmtPoly a,
            (if n < 0 ∧ a.ival ≠ [] then "ERR" else fmtSpec a.size (Spec.Poly.shl a.size a.ival n.toNat)) ++ ";" ++ fmtPoly a)
  | "poly.shr", [a, n] => do
      let a ← parsePoly? a; let n ← parseInt? n
      pure (fmtE fmtPoly (a.shrI n) ++ ";" ++ fmtPoly a,
            (if n < 0 ∧ a.ival ≠ [] then "ERR" else fmtSpec a.size (Spec.Poly.shr a.ival n.toNat)) ++ ";" ++ fmtPoly a)
  | "poly.getint", [a, i] => do
      let a ← parsePoly? a; let i ← parseInt? i
      pure (fmtE fmtPoly (a.getInt i) ++ ";" ++ fmtPoly a, "-")
  | "poly.getslice", [a, s, e, st] => do
      let a ← parsePoly? a; let s ← parseOptInt? s; let e ← parseOptInt? e; let st ← parseOptInt? st
      pure (fmtE fmtPoly (a.getSlice s e st) ++ ";" ++ fmtPoly a, "-")
  | "poly.getlist", [a, l] => do
      let a ← parsePoly? a; let l ← parseIntList? l
      pure (fmtE fmtPoly (a.getList l) ++ ";" ++ fmtPoly a, "-")
  | "poly.getpoly", [a, l] => do
      -- the index sequence is itself a Poly (as in `sboxtable[word]`)
      let a ← parsePoly? a; let l ← parsePoly? l
      pure (fmtE fmtPoly (a.getList l.ival) ++ ";" ++ fmtPoly a, "-")
  | "poly.setint", [a, i, v] => do
      let a ← parsePoly? a; let i ← parseInt? i; let v ← parseRVal? v
      match v with
      | .int x => pure (fmtE fmtPoly (a.setInt i x), "-")
      | .list _ => none
  | "poly.setslice", [a, s, e, st, v] => do
      let a ← parsePoly? a; let s ← parseOptInt? s; let e ← parseOptInt? e; let st ← parseOptInt? st
      let v ← parseRVal? v
      pure (fmtE fmtPoly (a.setSlice s e st v), "-")
  | "poly.setlist", [a, l, v] => do
      let a ← parsePoly? a; let l ← parseIntList? l; let v ← parseRVal? v
      pure (fmtE fmtPoly (a.setIdx l v), "-")
  | "poly.concat", [a, b] => do
      let a ← parsePoly? a; let b ← parsePoly? b
      pure (fmtPoly (a.concat b) ++ ";" ++ fmtPoly a ++ ";" ++ fmtPoly b,
            fmtSpec a.size (a.ival ++ b.ival) ++ ";" ++ fmtPoly a ++ ";" ++ fmtPoly b)
  | "poly.split", [a, k, be] => do
      let a ← parsePoly? a; let k ← parseNat? k; let be ← parseBool? be
      let sp : String :=
        if k = a.size then fmtPoly a
        else if a.ival = [] then fmtSpec k []
        else if a.size = 0 ∨ k = 0 then "ERR"
        else fmtSpec k ((Spec.Poly.rechunk a.size k be (a.ival.map Int.toNat)).map Int.ofNat)
      pure (fmtE fmtPoly (a.split k be) ++ ";" ++ fmtPoly a, sp ++ ";" ++ fmtPoly a)
  | "poly.pack", [a, be] => do
      let a ← parsePoly? a; let be ← parseBool? be
      let sp : String :=
        if a.ival = [] then "x"
        else if a.size = 0 then "ERR"
        else fmtBytes (Spec.Poly.packBytes a.size be (a.ival.map Int.toNat))
      pure (fmtE fmtBytes (a.pack be), sp)
  | "poly.eq", [a, b] => do
      let a ← parsePoly? a; let b ← parsePoly? b
      pure (fmtE fmtBool (a.eq b), "-")
  | "poly.ne", [a, b] => do
      let a ← parsePoly? a; let b ← parsePoly? b
      pure (fmtE fmtBool ((a.eq b).map not), "-")
  | "poly.iszero", [a] => do let a ← parsePoly? a; pure (fmtBool a.isZero, "-")
  | "poly.seq", a :: "|" :: rest => do
      let a ← parsePoly? a
      let r ← runSeq a (splitBar rest) []
      pure (";".intercalate r, "-")
  | _, _ => none

def handle : Handler := both

end Driver.PolyD
