/-
  Driver.Fips202D — the specification column answered from the LITERAL transcription of FIPS 202 (Spec.Fips202, bit
  strings and the state array of bits), evaluated through Spec.Fips202Eval (proved equal: Proofs.C04_Fips202) (C04).

    fips202.sha3 <224|256|384|512> <msg>          model: Model.Sha3.sha3     spec: b2h(SHA3-n(h2b(msg)))
    fips202.shake <128|256> <msg> <dbits>         model: Model.Sha3.shake…   spec: b2h(SHAKEn(h2b(msg), d))
    fips202.f <w> <25 lanes>                      model: Model.Keccak.f       spec: KECCAK-f[25w] on the bit string
  Slow by construction (every bit of every round is a separate evaluation): a handful of short lines per run.
-/
import Driver.Wire
import Model.Keccak
import Model.Sha3
import Spec.Fips202
import Spec.Fips202Eval
namespace Driver.Fips202D
open Model Driver Spec.Fips202

/-- the message as the standard sees it: the bit string h2b(H, 8m) of its hexadecimal writing -/
def msgStr (M : List Nat) : Str := h2b (hexOfBytes M) (8 * M.length)

def outBytes (Z : Str) : String := fmtBytes (bytesOfHex (b2h Z))

def handle : Handler := fun op args =>
  match op, args with
  | "fips202.sha3", [n, msg] => do
      let n ← parseNat? n; let msg ← parseBytes? msg
      let s := if [224, 256, 384, 512].contains n then outBytes (Eval.SHA3_eval n (msgStr msg)) else "ERR"
      pure (fmtE fmtBytes (Sha3.sha3 n msg), s)
  | "fips202.shake", [n, msg, d] => do
      let n ← parseNat? n; let msg ← parseBytes? msg; let d ← parseNat? d
      if n = 128 then pure (fmtE fmtBytes (Sha3.shake128 msg d), outBytes (Eval.SHAKE_eval 128 (msgStr msg) d))
      else if n = 256 then pure (fmtE fmtBytes (Sha3.shake256 msg d), outBytes (Eval.SHAKE_eval 256 (msgStr msg) d))
      else none
  | "fips202.f", [w, lanes] => do
      let w ← parseNat? w; let l ← parseNatList? lanes
      if l.length ≠ 25 then none else
      let n := (Gen.KeccakG.widths.find? (fun row => row.getD 1 0 == w)).map (·.getD 2 0)
      let n ← n
      let A : Keccak.Lanes := l.map fun v => Bits.ofNatSz v w
      -- the state as the string of §3.1.3: lane 5y+x occupies bits w(5y+x) … w(5y+x)+w−1
      let S : Str := l.flatMap fun v => (List.range w).map v.testBit
      let S' := Eval.KECCAK_p_eval (25 * w) (12 + 2 * Nat.log2 w) S
      let out := (List.range 25).map fun i => Eval.natOfStr ((S'.drop (w * i)).take w)
      pure (fmtNatList ((Keccak.f w n A).map (·.ival)), fmtNatList out)
  | _, _ => none

end Driver.Fips202D
