/-
  Driver.BlakeD — line-protocol handlers for Model.Blake / Spec.Blake / Spec.Blake2 (C11, BLAKE part of C14).

  blake <n> <salt> <msg> <bitlen|None>                       digest                      (model, spec)
  blake.s <n> <salt> <msg> <bitlen|None>                     the same on the module singleton blake<n>
  blake2.s <b|s> <outlen|None> <msg>                         module singleton blake2b / blake2s
  blake.pre <n> <salt> <bitcnt> <msg>                        digest with preset counter   (model, spec)
  blake.trace <n> <bitcnt> <msg> <bitlen|None>               per-block counters           (model, spec)
  blake2 <b|s> <outlen|None> <salt> <pers> <fanout> <depth> <leafl> <noffset> <ndepth> <inner> <msg>
  blake2.pre <b|s> <bitcnt> <msg>
  blake2.trace <b|s> <bitcnt> <msg>                          t,f per block (flattened)
  blakeseq <n> <salt> <p1> … <pk>                            pk is the final piece: digest;bitcnt after p1..pk-1
  blakeseq.trace <n> <p1> … <pk>                             counters over all calls
  blake2seq <b|s> <p1> … <pk>
  blake2seq.trace <b|s> <p1> … <pk>
  blakeseq.h <n> <salt> <tok> … <tok>                        a history on ONE object: `init` = h.initstate(salt) again (whatever
                                                             was fed before is abandoned), `<hex>` = a piece, `<hex>/<L>` = a
                                                             piece given with its bit length (the first L bits of the buffer
                                                             count; L = 0: none of them); the last token is the final piece:
                                                             digest;bitcnt after every non-final token (after `init` too)
  blake2seq.h <b|s> <tok> … <tok>                            the same for Blake2 (its update takes no bit length)
  blakeseqs <cls0>,<cls1>,… | <k> <step> | env <name> | …    SEVERAL objects in one line, each with a whole life; cls = 224|256|384|512
                                                             (Blake(n)), b|s (Blake2(512|256)), @224 … @s (the module singletons);
                                                             steps on object k:  new  (construct; no initstate yet)
                                                               init [salt=<n>]                       h.initstate(…)   BLAKE
                                                               init [outlen=<n>] [salt=<hex>] [pers=<hex>] [fanout=…] …   BLAKE2
                                                               upd <hex> [L] / fin <hex> [L]         update(…[,bitlen=L][,padding=True])
                                                               call <hex> [s=<n>] [bitlen=<L>]       h(M,…)            BLAKE
                                                               call <hex> [outlen=<n>] [salt=…] …    h(M,…)            BLAKE2
                                                             `env <name>`: library activity on none of the objects.  Printed per step:
                                                             `-` (new, env), `c<bitcnt>` (init, upd), the digest (fin, call), ERR.
                                                             A keyword that is not given is NOT passed (`init` = h.initstate(): the
                                                             defaults of the method apply, whatever the object did before).
                                                             spec = every object's stream answered from its own steps since its last init
-/
import Driver.Wire
import Model.Blake
import Spec.Blake
import Spec.Blake2
import Model.Multi
namespace Driver.BlakeD
open Model Driver

def parseAll {α} (f : String → Option α) (l : List String) : Option (List α) := l.mapM f

def b2cfg? (s : String) : Option (Blake.Cfg × Spec.Blake2.Variant) :=
  if s = "b" then some (Blake2.blake2b, Spec.Blake2.blake2b)
  else if s = "s" then some (Blake2.blake2s, Spec.Blake2.blake2s) else none

/-! ### BLAKE -/

def specBlake (n : Nat) (done : Nat) (M : List Nat) (bitlen : Option Nat) (salt : Nat) : String :=
  match Spec.Blake.variant? n with
  | none => "ERR"
  | some V =>
    let L := bitlen.getD (8 * M.length)
    if L > 8 * M.length then "ERR" else fmtBytes (Spec.Blake.hashFrom V done M L salt)

def blakeSeqModel (c : Blake.Cfg) (salt : Nat) (pieces : List (List Nat)) : Except Err (List Nat × List Nat) :=
  let rec go (s : Blake.State) (cnts : List Nat) : List (List Nat) → Except Err (List Nat × List Nat)
    | [] => .error "no pieces"
    | [p] => do let d ← (Blake.update c s p none true).2; pure (d, cnts.reverse)
    | p :: rest =>
      let (s', r) := Blake.update c s p none false
      match r with
      | .error e => .error e
      | .ok _ => go s' (s'.pad.bitcnt :: cnts) rest
  go (Blake.initstate c salt) [] pieces

def blakeSeqTrace (c : Blake.Cfg) (pieces : List (List Nat)) : Except Err (List Nat) :=
  let rec go (s : Blake.State) (acc : List Nat) : List (List Nat) → Except Err (List Nat)
    | [] => .ok acc
    | p :: rest =>
      let last := rest.isEmpty
      let tr := (Blake.trace c s p none last).map (·.2)
      let (s', r) := Blake.update c s p none last
      match r with
      | .error e => .error e
      | .ok _ => go s' (acc ++ tr) rest
  go (Blake.initstate c 0) [] pieces

/-- bitcnt after each non-final piece, as the property states it -/
def prefixBits (pieces : List (List Nat)) : List Nat :=
  ((pieces.take (pieces.length - 1)).foldl (fun (acc : List Nat × Nat) p =>
      let t := acc.2 + 8 * p.length; (acc.1 ++ [t], t)) ([], 0)).1

/-- the property's domain: at least one piece, every non-final piece a multiple of the block size -/
def piecesOk (bb : Nat) (pieces : List (List Nat)) : Bool :=
  !pieces.isEmpty && (pieces.take (pieces.length - 1)).all fun p => p.length % bb == 0

def fmtSeq (r : List Nat × List Nat) : String := fmtBytes r.1 ++ ";" ++ fmtNatList r.2

/-! ### histories with explicit bit lengths and re-initialisation (`blakeseq.h`, `blake2seq.h`) -/

inductive Tok
  | init
  | piece (m : List Nat) (bitlen : Option Nat)

def parseTok? (s : String) : Option Tok :=
  if s = "init" then some .init else
  match s.splitOn "/" with
  | [x] => (parseBytes? x).map (.piece · none)
  | [x, l] => do let x ← parseBytes? x; let l ← parseNat? l; pure (.piece x (some l))
  | _ => none

def blakeHistModel (c : Blake.Cfg) (salt : Nat) (toks : List Tok) : Except Err (List Nat × List Nat) :=
  let rec go (s : Blake.State) (cnts : List Nat) : List Tok → Except Err (List Nat × List Nat)
    | [] => .error "no pieces"
    | [.piece p l] => do let d ← (Blake.update c s p l true).2; pure (d, cnts.reverse)
    | .init :: rest =>
      let s' := Blake.initstate c salt
      go s' (s'.pad.bitcnt :: cnts) rest
    | .piece p l :: rest =>
      let (s', r) := Blake.update c s p l false
      match r with
      | .error e => .error e
      | .ok _ => go s' (s'.pad.bitcnt :: cnts) rest
  go (Blake.initstate c salt) [] toks

/-- what the property says about a history, computed on the tokens alone: `none` when some step has to be refused (a
    non-final piece that is not whole blocks, a bit length beyond the buffer, no final piece); else the bytes and the
    number of bits of the message hashed since the last `init` (the first L bits of every piece, concatenated) and the
    bit count after every non-final token (the bits fed since the last `init`) -/
def histSpec (blockBits : Nat) (toks : List Tok) : Option (List Nat × Nat × List Nat) :=
  let rec go (msg : List Nat) (bits : Nat) (cnts : List Nat) : List Tok → Option (List Nat × Nat × List Nat)
    | [] => none
    | [.init] => none
    | [.piece p l] =>
      let L := l.getD (8 * p.length)
      if L > 8 * p.length then none else some (msg ++ p.take ((L + 7) / 8), bits + L, cnts.reverse)
    | .init :: rest => go [] 0 (0 :: cnts) rest
    | .piece p l :: rest =>
      let L := l.getD (8 * p.length)
      if L > 8 * p.length ∨ L % blockBits ≠ 0 then none else go (msg ++ p.take (L / 8)) (bits + L) ((bits + L) :: cnts) rest
  go [] 0 [] toks

def b2HistModel (c : Blake.Cfg) (toks : List Tok) : Except Err (List Nat × List Nat) := do
  let s0 ← Blake2.initstate c {}
  let rec go (s : Blake2.State) (cnts : List Nat) : List Tok → Except Err (List Nat × List Nat)
    | [] => .error "no pieces"
    | [.piece p none] => do let d ← (Blake2.update c s p true).2; pure (d, cnts.reverse)
    | .piece _ (some _) :: _ => .error "TypeError:update() got an unexpected keyword argument 'bitlen'"
    | .init :: rest => do
      let s' ← Blake2.initstate c {}
      go s' (s'.pad.bitcnt :: cnts) rest
    | .piece p none :: rest =>
      let (s', r) := Blake2.update c s p false
      match r with
      | .error e => .error e
      | .ok _ => go s' (s'.pad.bitcnt :: cnts) rest
  go s0 [] toks

/-! ### BLAKE2 -/

def specParams (V : Spec.Blake2.Variant) (p : Blake2.Params) : Spec.Blake2.Params :=
  let l := V.w / 4
  { digestLength := p.outlen.getD V.maxOut, fanout := p.fanout, depth := p.depth, leafLength := p.leafl,
    nodeOffset := p.noffset, nodeDepth := p.ndepth, innerLength := p.inner,
    salt := if p.salt = [] then List.replicate l 0 else p.salt,
    personal := if p.pers = [] then List.replicate l 0 else p.pers }

/-- the spec is defined for parameters in range only -/
def specB2 (V : Spec.Blake2.Variant) (p : Blake2.Params) (done : Nat) (M : List Nat) : String :=
  let sp := specParams V p
  if 1 ≤ sp.digestLength ∧ sp.digestLength ≤ V.maxOut ∧ sp.salt.length = V.w / 4 ∧ sp.personal.length = V.w / 4
  then fmtBytes (Spec.Blake2.hashFrom V sp done M) else "ERR"

def b2SeqModel (c : Blake.Cfg) (pieces : List (List Nat)) : Except Err (List Nat × List Nat) := do
  let s0 ← Blake2.initstate c {}
  let rec go (s : Blake2.State) (cnts : List Nat) : List (List Nat) → Except Err (List Nat × List Nat)
    | [] => .error "no pieces"
    | [p] => do let d ← (Blake2.update c s p true).2; pure (d, cnts.reverse)
    | p :: rest =>
      let (s', r) := Blake2.update c s p false
      match r with
      | .error e => .error e
      | .ok _ => go s' (s'.pad.bitcnt :: cnts) rest
  go s0 [] pieces

def flatTF (tr : List (List Nat × Nat × Bool)) : List Nat := tr.flatMap fun y => [y.2.1, if y.2.2 then 1 else 0]

def b2SeqTrace (c : Blake.Cfg) (pieces : List (List Nat)) : Except Err (List Nat) := do
  let s0 ← Blake2.initstate c {}
  let rec go (s : Blake2.State) (acc : List Nat) : List (List Nat) → Except Err (List Nat)
    | [] => .ok acc
    | p :: rest =>
      let last := rest.isEmpty
      let tr := flatTF (Blake2.trace c s.pad p last)
      let (s', r) := Blake2.update c s p last
      match r with
      | .error e => .error e
      | .ok _ => go s' (acc ++ tr) rest
  go s0 [] pieces

/-! ### several objects, whole lives (`blakeseqs`) -/

def splitBar (toks : List String) : List (List String) :=
  let rec go : List String → List String → List (List String) → List (List String)
    | [], cur, acc => (cur.reverse :: acc).reverse
    | "|" :: ts, cur, acc => go ts [] (cur.reverse :: acc)
    | t :: ts, cur, acc => go ts (t :: cur) acc
  go toks [] []

/-- the class of an object of the line -/
inductive Cls
  | b1 (n : Nat) (c : Blake.Cfg)
  | b2 (c : Blake.Cfg) (V : Spec.Blake2.Variant)

def parseCls? (s : String) : Option Cls :=
  let s := if s.startsWith "@" then (s.drop 1).toString else s     -- a module singleton is an object of its class
  match b2cfg? s with
  | some (c, V) => some (.b2 c V)
  | none => do
    let n ← parseNat? s
    match Blake.mk? n with
    | .ok c => some (.b1 n c)
    | .error _ => none

abbrev KV := List (String × String)

def parseKV? (toks : List String) : Option KV :=
  toks.mapM fun t => match t.splitOn "=" with
    | [k, v] => some (k, v)
    | _ => none

inductive BOp
  | new
  | env
  | init (kv : KV)
  | upd (m : List Nat) (l : Option Nat)
  | fin (m : List Nat) (l : Option Nat)
  | call (m : List Nat) (kv : KV)

def parseBOp? : List String → Option BOp
  | ["new"] => some .new
  | "init" :: kv => (parseKV? kv).map .init
  | ["upd", x] => (parseBytes? x).map (.upd · none)
  | ["upd", x, l] => do let x ← parseBytes? x; let l ← parseNat? l; pure (.upd x (some l))
  | ["fin", x] => (parseBytes? x).map (.fin · none)
  | ["fin", x, l] => do let x ← parseBytes? x; let l ← parseNat? l; pure (.fin x (some l))
  | "call" :: x :: kv => do let x ← parseBytes? x; let kv ← parseKV? kv; pure (.call x kv)
  | _ => none

def parseBStep? (nobj : Nat) : List String → Option (Nat × BOp)
  | ["env", _] => some (nobj, .env)
  | k :: rest => do
      let k ← parseNat? k; let o ← parseBOp? rest
      if k < nobj then pure (k, o) else none
  | _ => none

def kvNat (kv : KV) (k : String) : Option (Option Nat) :=
  match kv.lookup k with
  | none => some none
  | some v => (parseNat? v).map some

def kvBytes (kv : KV) (k : String) : Option (List Nat) :=
  match kv.lookup k with
  | none => some []
  | some v => parseBytes? v

/-- keywords of a BLAKE `initstate` (salt) / `__call__` (s, bitlen): (salt, bitlen); an absent keyword is the method's
    default — salt 0, no bit length — whatever the object was used with before -/
def b1Args (kv : KV) (saltKey : String) : Option (Nat × Option Nat) := do
  let s ← kvNat kv saltKey; let l ← kvNat kv "bitlen"
  if kv.all (fun (k, _) => k = saltKey || k = "bitlen") then pure (s.getD 0, l) else none

/-- keywords of a BLAKE2 `initstate` / `__call__` -/
def b2Args (kv : KV) : Option Blake2.Params := do
  let outlen ← kvNat kv "outlen"; let salt ← kvBytes kv "salt"; let pers ← kvBytes kv "pers"
  let fanout ← kvNat kv "fanout"; let depth ← kvNat kv "depth"; let leafl ← kvNat kv "leafl"
  let noffset ← kvNat kv "noffset"; let ndepth ← kvNat kv "ndepth"; let inner ← kvNat kv "inner"
  if kv.all (fun (k, _) => ["outlen", "salt", "pers", "fanout", "depth", "leafl", "noffset", "ndepth", "inner"].contains k) then
    pure { outlen, salt, pers, fanout := fanout.getD 1, depth := depth.getD 1, leafl := leafl.getD 0,
           noffset := noffset.getD 0, ndepth := ndepth.getD 0, inner := inner.getD 0 }
  else none

/-- the mutable part of an object of the line: nothing before its first initstate / call -/
inductive Slot
  | none
  | s1 (s : Blake.State)
  | s2 (s : Blake2.State)

def fmtCnt (bitcnt : Nat) : Except Err (List Nat) → String
  | .ok _ => s!"c{bitcnt}"
  | .error _ => "ERR"

/-- one step on the model object in slot k.  The slot of `env` has no class: library activity on other objects touches no
    slot (the objects are values).  A refused `initstate` / call of BLAKE2 (digest length out of range) leaves the Python
    object half-initialised; the lines re-initialise such an object before its next use, the model keeps the old value. -/
def stepSlot (clss : List Cls) (k : Nat) (o : Slot) (op : BOp) : Slot × String :=
  match clss[k]?, op with
  | _, .env => (o, "-")
  | none, _ => (o, "?")
  | some _, .new => (.none, "-")
  | some (.b1 _ c), .init kv =>
    match b1Args kv "salt" with
    | some (salt, none) => let s := Blake.initstate c salt; (.s1 s, s!"c{s.pad.bitcnt}")
    | _ => (o, "ERR")                                        -- initstate has no other keyword: TypeError
  | some (.b1 _ c), .upd m l =>
    match o with
    | .s1 s => let (s', r) := Blake.update c s m l false; (.s1 s', fmtCnt s'.pad.bitcnt r)
    | _ => (o, "ERR")                                        -- AttributeError: no padmethod before initstate
  | some (.b1 _ c), .fin m l =>
    match o with
    | .s1 s => let (s', r) := Blake.update c s m l true; (.s1 s', fmtE fmtBytes r)
    | _ => (o, "ERR")
  | some (.b1 _ c), .call m kv =>
    match b1Args kv "s" with
    | some (salt, l) => let (s', r) := Blake.update c (Blake.initstate c salt) m l true; (.s1 s', fmtE fmtBytes r)
    | none => (o, "ERR")
  | some (.b2 c _), .init kv =>
    match (b2Args kv).map (Blake2.initstate c) with
    | some (.ok s) => (.s2 s, s!"c{s.pad.bitcnt}")
    | _ => (o, "ERR")
  | some (.b2 _ _), .upd _ (some _) => (o, "ERR")            -- TypeError: Blake2.update takes no bitlen
  | some (.b2 _ _), .fin _ (some _) => (o, "ERR")
  | some (.b2 c _), .upd m none =>
    match o with
    | .s2 s => let (s', r) := Blake2.update c s m false; (.s2 s', fmtCnt s'.pad.bitcnt r)
    | _ => (o, "ERR")
  | some (.b2 c _), .fin m none =>
    match o with
    | .s2 s => let (s', r) := Blake2.update c s m true; (.s2 s', fmtE fmtBytes r)
    | _ => (o, "ERR")
  | some (.b2 c _), .call m kv =>
    match (b2Args kv).map (Blake2.initstate c) with
    | some (.ok s) => let (s', r) := Blake2.update c s m true; (.s2 s', fmtE fmtBytes r)
    | _ => (o, "ERR")

/-- what the standard knows of an object: the message hashed since its last `init` and the parameters of that `init` -/
inductive SSlot
  | dead
  | l1 (msg : List Nat) (bits : Nat) (salt : Nat)
  | l2 (msg : List Nat) (bits : Nat) (p : Blake2.Params)

/-- the spec side of one step (`none`: the property says nothing — a step on a stream that is not open, BLAKE2's empty
    final piece after data (known finding)).  `init` opens a stream with the keywords given THERE and the defaults for
    the others; nothing of the earlier life of the object enters. -/
def specSlot (clss : List Cls) (k : Nat) (o : SSlot) (op : BOp) : SSlot × Option String :=
  match clss[k]?, op with
  | _, .env => (o, some "-")
  | none, _ => (o, none)
  | some _, .new => (.dead, some "-")
  | some (.b1 _ _), .init kv =>
    match b1Args kv "salt" with
    | some (salt, none) => (.l1 [] 0 salt, some "c0")
    | _ => (.dead, some "ERR")
  | some (.b1 n _), .upd m l =>
    match o, Spec.Blake.variant? n with
    | .l1 msg bits salt, some V =>
      let L := l.getD (8 * m.length)
      if L > 8 * m.length ∨ L % V.block ≠ 0 then (.dead, some "ERR")
      else (.l1 (msg ++ m.take (L / 8)) (bits + L) salt, some s!"c{bits + L}")
    | _, _ => (.dead, none)
  | some (.b1 n _), .fin m l =>
    match o, Spec.Blake.variant? n with
    | .l1 msg bits salt, some V =>
      let L := l.getD (8 * m.length)
      if L > 8 * m.length then (.dead, some "ERR")
      else (.dead, some (fmtBytes (Spec.Blake.hash V (msg ++ m.take ((L + 7) / 8)) (bits + L) salt)))
    | _, _ => (.dead, none)
  | some (.b1 n _), .call m kv =>
    match b1Args kv "s" with
    | some (salt, l) => (.dead, some (specBlake n 0 m l salt))
    | none => (.dead, some "ERR")
  | some (.b2 _ V), .init kv =>
    match b2Args kv with
    | some p => if specB2 V p 0 [] = "ERR" then (.dead, some "ERR") else (.l2 [] 0 p, some "c0")
    | none => (.dead, some "ERR")
  | some (.b2 _ _), .upd _ (some _) => (.dead, some "ERR")
  | some (.b2 _ _), .fin _ (some _) => (.dead, some "ERR")
  | some (.b2 _ V), .upd m none =>
    match o with
    | .l2 msg bits p =>
      if m.length % V.bb ≠ 0 then (.dead, some "ERR")
      else (.l2 (msg ++ m) (bits + 8 * m.length) p, some s!"c{bits + 8 * m.length}")
    | _ => (.dead, none)
  | some (.b2 _ V), .fin m none =>
    match o with
    | .l2 msg _ p => if m.isEmpty ∧ !msg.isEmpty then (.dead, none) else (.dead, some (specB2 V p 0 (msg ++ m)))
    | _ => (.dead, none)
  | some (.b2 _ V), .call m kv =>
    match b2Args kv with
    | some p => (.dead, some (specB2 V p 0 m))
    | none => (.dead, some "ERR")

def handle : Handler := fun op args =>
  match op, args with
  | "blake", [n, salt, msg, bl] => do
      let n ← parseNat? n; let salt ← parseNat? salt; let M ← parseBytes? msg; let bl ← parseOptNat? bl
      let m := fmtE fmtBytes (do let c ← Blake.mk? n; Blake.call c M salt bl)
      pure (m, specBlake n 0 M bl salt)
  | "blake.s", [n, salt, msg, bl] => do
      -- the module-level singletons blake224 … blake512
      let n ← parseNat? n; let salt ← parseNat? salt; let M ← parseBytes? msg; let bl ← parseOptNat? bl
      let c ← (if n = 224 then some Blake.blake224 else if n = 256 then some Blake.blake256
               else if n = 384 then some Blake.blake384 else if n = 512 then some Blake.blake512 else none)
      pure (fmtE fmtBytes (Blake.call c M salt bl), specBlake n 0 M bl salt)
  | "blake.pre", [n, salt, cnt, msg] => do
      let n ← parseNat? n; let salt ← parseNat? salt; let cnt ← parseNat? cnt; let M ← parseBytes? msg
      let m := fmtE fmtBytes (do
        let c ← Blake.mk? n
        let s := Blake.initstate c salt
        (Blake.update c { s with pad := { s.pad with bitcnt := cnt } } M none true).2)
      pure (m, specBlake n cnt M none salt)
  | "blake.trace", [n, cnt, msg, bl] => do
      let n ← parseNat? n; let cnt ← parseNat? cnt; let M ← parseBytes? msg; let bl ← parseOptNat? bl
      let m := fmtE fmtNatList (do
        let c ← Blake.mk? n
        let s := Blake.initstate c 0
        let s := { s with pad := { s.pad with bitcnt := cnt } }
        match (Blake.update c s M bl true).2 with
        | .error e => .error e
        | .ok _ => pure ((Blake.trace c s M bl true).map (·.2)))
      let sp := match Spec.Blake.variant? n with
        | none => "ERR"
        | some V =>
          let L := bl.getD (8 * M.length)
          if L > 8 * M.length then "ERR" else fmtNatList (Spec.Blake.counters V cnt L)
      pure (m, sp)
  | "blake2.s", [v, outlen, msg] => do
      -- the module-level singletons blake2b / blake2s
      let (c, V) ← b2cfg? v
      let outlen ← parseOptNat? outlen; let M ← parseBytes? msg
      let p : Blake2.Params := { outlen }
      pure (fmtE fmtBytes (Blake2.call c M p), specB2 V p 0 M)
  | "blake2", [v, outlen, salt, pers, fanout, depth, leafl, noffset, ndepth, inner, msg] => do
      let (c, V) ← b2cfg? v
      let outlen ← parseOptNat? outlen; let salt ← parseBytes? salt; let pers ← parseBytes? pers
      let fanout ← parseNat? fanout; let depth ← parseNat? depth; let leafl ← parseNat? leafl
      let noffset ← parseNat? noffset; let ndepth ← parseNat? ndepth; let inner ← parseNat? inner
      let M ← parseBytes? msg
      let p : Blake2.Params := { outlen, salt, pers, fanout, depth, leafl, noffset, ndepth, inner }
      pure (fmtE fmtBytes (Blake2.call c M p), specB2 V p 0 M)
  | "blake2.pre", [v, cnt, msg] => do
      let (c, V) ← b2cfg? v
      let cnt ← parseNat? cnt; let M ← parseBytes? msg
      let m := fmtE fmtBytes (do
        let s ← Blake2.initstate c {}
        (Blake2.update c { s with pad := { s.pad with bitcnt := cnt } } M true).2)
      pure (m, specB2 V {} (cnt / 8) M)
  | "blake2.trace", [v, cnt, msg] => do
      let (c, V) ← b2cfg? v
      let cnt ← parseNat? cnt; let M ← parseBytes? msg
      let m := fmtNatList (flatTF (Blake2.trace c { bitcnt := cnt } M true))
      let sp := fmtNatList ((Spec.Blake2.counters V (cnt / 8) M.length).flatMap fun y => [y.1, if y.2 then 1 else 0])
      pure (m, sp)
  | "blakeseq", n :: salt :: pieces => do
      let n ← parseNat? n; let salt ← parseNat? salt; let ps ← parseAll parseBytes? pieces
      let m := fmtE fmtSeq (do let c ← Blake.mk? n; blakeSeqModel c salt ps)
      let sp := match Spec.Blake.variant? n with
        | none => "ERR"
        | some V => if !piecesOk (V.block / 8) ps then "ERR" else
          fmtSeq (Spec.Blake.hash V ps.flatten (8 * ps.flatten.length) salt, prefixBits ps)
      pure (m, sp)
  | "blakeseq.h", n :: salt :: toks => do
      let n ← parseNat? n; let salt ← parseNat? salt; let toks ← parseAll parseTok? toks
      let m := fmtE fmtSeq (do let c ← Blake.mk? n; blakeHistModel c salt toks)
      let sp := match Spec.Blake.variant? n with
        | none => "ERR"
        | some V => match histSpec V.block toks with
          | none => "ERR"
          | some (M, L, cnts) => fmtSeq (Spec.Blake.hash V M L salt, cnts)
      pure (m, sp)
  | "blakeseqs", cs :: "|" :: rest => do
      let clss ← (cs.splitOn ",").mapM parseCls?
      let steps ← (splitBar rest).mapM (parseBStep? clss.length)
      let m := (Model.Multi.run (stepSlot clss) (List.replicate (clss.length + 1) Slot.none) steps).2.map (·.2)
      let sp := (Model.Multi.run (specSlot clss) (List.replicate (clss.length + 1) SSlot.dead) steps).2.map (·.2)
      pure (";".intercalate m, match sp.mapM id with | some l => ";".intercalate l | none => "-")
  | "blake2seq.h", v :: toks => do
      let (c, V) ← b2cfg? v
      let toks ← parseAll parseTok? toks
      let m := fmtE fmtSeq (b2HistModel c toks)
      let noBitlen := toks.all fun | .piece _ (some _) => false | _ => true
      let sp := match histSpec (8 * V.bb) toks with
        | some (M, _, cnts) => if noBitlen then fmtSeq (Spec.Blake2.hash V (specParams V {}) M, cnts) else "ERR"
        | none => "ERR"
      pure (m, sp)
  | "blakeseq.trace", n :: pieces => do
      let n ← parseNat? n; let ps ← parseAll parseBytes? pieces
      let m := fmtE fmtNatList (do let c ← Blake.mk? n; blakeSeqTrace c ps)
      let sp := match Spec.Blake.variant? n with
        | none => "ERR"
        | some V => if !piecesOk (V.block / 8) ps then "ERR" else fmtNatList (Spec.Blake.counters V 0 (8 * ps.flatten.length))
      pure (m, sp)
  | "blake2seq", v :: pieces => do
      let (c, V) ← b2cfg? v
      let ps ← parseAll parseBytes? pieces
      let m := fmtE fmtSeq (b2SeqModel c ps)
      let sp := if !piecesOk V.bb ps then "ERR" else fmtSeq (Spec.Blake2.hash V (specParams V {}) ps.flatten, prefixBits ps)
      pure (m, sp)
  | "blake2seq.trace", v :: pieces => do
      let (c, V) ← b2cfg? v
      let ps ← parseAll parseBytes? pieces
      let m := fmtE fmtNatList (b2SeqTrace c ps)
      let sp := if !piecesOk V.bb ps then "ERR" else
        fmtNatList ((Spec.Blake2.counters V 0 ps.flatten.length).flatMap fun y => [y.1, if y.2 then 1 else 0])
      pure (m, sp)
  | _, _ => none

end Driver.BlakeD
