/-
  Driver.BlakeD — line-protocol handlers for Model.Blake / Spec.Blake / Spec.Blake2 (C11, BLAKE part of C14).

  blake <n> <salt> <msg> <bitlen|None>                       digest                      (model, spec)
  blake.s <n> <salt> <msg> <bitlen|None>                     the same on the module singleton blake<n>
  blake2.s <b|s> <outlen|None> <msg>                         module singleton blake2b / blake2s
  blake.pre <n> <salt> <bitcnt> <msg>                        digest with preset counter   (model, spec)
  blake.trace <n> <bitcnt> <msg> <bitlen|None>               per-block counters           (model, spec)
  blake2 <b|s> <outlen|None> <salt> <pers> <fanout> <depth> <leafl> <noffset> <ndepth> <inner> <msg>
  blake2.pre <b|s> <bitcnt> <msg>
  blake2.trace <b|s> <bitcnt> <msg>                          t,f per block (flattened)
  blakeseq <n> <salt> <p1> … <pk>                            pk is the final piece: digest;bitcnt after p1..pk-1
  blakeseq.trace <n> <p1> … <pk>                             counters over all calls
  blake2seq <b|s> <p1> … <pk>
  blake2seq.trace <b|s> <p1> … <pk>
  blakeseq.h <n> <salt> <tok> … <tok>                        a history on ONE object: `init` = h.initstate(salt) again (whatever
                                                             was fed before is abandoned), `<hex>` = a piece, `<hex>/<L>` = a
                                                             piece given with its bit length (the first L bits of the buffer
                                                             count; L = 0: none of them); the last token is the final piece:
                                                             digest;bitcnt after every non-final token (after `init` too)
  blake2seq.h <b|s> <tok> … <tok>                            the same for Blake2 (its update takes no bit length)
-/
import Driver.Wire
import Model.Blake
import Spec.Blake
import Spec.Blake2
namespace Driver.BlakeD
open Model Driver

def parseAll {α} (f : String → Option α) (l : List String) : Option (List α) := l.mapM f

def b2cfg? (s : String) : Option (Blake.Cfg × Spec.Blake2.Variant) :=
  if s = "b" then some (Blake2.blake2b, Spec.Blake2.blake2b)
  else if s = "s" then some (Blake2.blake2s, Spec.Blake2.blake2s) else none

/-! ### BLAKE -/

def specBlake (n : Nat) (done : Nat) (M : List Nat) (bitlen : Option Nat) (salt : Nat) : String :=
  match Spec.Blake.variant? n with
  | none => "ERR"
  | some V =>
    let L := bitlen.getD (8 * M.length)
    if L > 8 * M.length then "ERR" else fmtBytes (Spec.Blake.hashFrom V done M L salt)

def blakeSeqModel (c : Blake.Cfg) (salt : Nat) (pieces : List (List Nat)) : Except Err (List Nat × List Nat) :=
  let rec go (s : Blake.State) (cnts : List Nat) : List (List Nat) → Except Err (List Nat × List Nat)
    | [] => .error "no pieces"
    | [p] => do let d ← (Blake.update c s p none true).2; pure (d, cnts.reverse)
    | p :: rest =>
      let (s', r) := Blake.update c s p none false
      match r with
      | .error e => .error e
      | .ok _ => go s' (s'.pad.bitcnt :: cnts) rest
  go (Blake.initstate c salt) [] pieces

def blakeSeqTrace (c : Blake.Cfg) (pieces : List (List Nat)) : Except Err (List Nat) :=
  let rec go (s : Blake.State) (acc : List Nat) : List (List Nat) → Except Err (List Nat)
    | [] => .ok acc
    | p :: rest =>
      let last := rest.isEmpty
      let tr := (Blake.trace c s p none last).map (·.2)
      let (s', r) := Blake.update c s p none last
      match r with
      | .error e => .error e
      | .ok _ => go s' (acc ++ tr) rest
  go (Blake.initstate c 0) [] pieces

/-- bitcnt after each non-final piece, as the property states it -/
def prefixBits (pieces : List (List Nat)) : List Nat :=
  ((pieces.take (pieces.length - 1)).foldl (fun (acc : List Nat × Nat) p =>
      let t := acc.2 + 8 * p.length; (acc.1 ++ [t], t)) ([], 0)).1

/-- the property's domain: at least one piece, every non-final piece a multiple of the block size -/
def piecesOk (bb : Nat) (pieces : List (List Nat)) : Bool :=
  !pieces.isEmpty && (pieces.take (pieces.length - 1)).all fun p => p.length % bb == 0

def fmtSeq (r : List Nat × List Nat) : String := fmtBytes r.1 ++ ";" ++ fmtNatList r.2

/-! ### histories with explicit bit lengths and re-initialisation (`blakeseq.h`, `blake2seq.h`) -/

inductive Tok
  | init
  | piece (m : List Nat) (bitlen : Option Nat)

def parseTok? (s : String) : Option Tok :=
  if s = "init" then some .init else
  match s.splitOn "/" with
  | [x] => (parseBytes? x).map (.piece · none)
  | [x, l] => do let x ← parseBytes? x; let l ← parseNat? l; pure (.piece x (some l))
  | _ => none

def blakeHistModel (c : Blake.Cfg) (salt : Nat) (toks : List Tok) : Except Err (List Nat × List Nat) :=
  let rec go (s : Blake.State) (cnts : List Nat) : List Tok → Except Err (List Nat × List Nat)
    | [] => .error "no pieces"
    | [.piece p l] => do let d ← (Blake.update c s p l true).2; pure (d, cnts.reverse)
    | .init :: rest =>
      let s' := Blake.initstate c salt
      go s' (s'.pad.bitcnt :: cnts) rest
    | .piece p l :: rest =>
      let (s', r) := Blake.update c s p l false
      match r with
      | .error e => .error e
      | .ok _ => go s' (s'.pad.bitcnt :: cnts) rest
  go (Blake.initstate c salt) [] toks

/-- what the property says about a history, computed on the tokens alone: `none` when some step has to be refused (a
    non-final piece that is not whole blocks, a bit length beyond the buffer, no final piece); else the bytes and the
    number of bits of the message hashed since the last `init` (the first L bits of every piece, concatenated) and the
    bit count after every non-final token (the bits fed since the last `init`) -/
def histSpec (blockBits : Nat) (toks : List Tok) : Option (List Nat × Nat × List Nat) :=
  let rec go (msg : List Nat) (bits : Nat) (cnts : List Nat) : List Tok → Option (List Nat × Nat × List Nat)
    | [] => none
    | [.init] => none
    | [.piece p l] =>
      let L := l.getD (8 * p.length)
      if L > 8 * p.length then none else some (msg ++ p.take ((L + 7) / 8), bits + L, cnts.reverse)
    | .init :: rest => go [] 0 (0 :: cnts) rest
    | .piece p l :: rest =>
      let L := l.getD (8 * p.length)
      if L > 8 * p.length ∨ L % blockBits ≠ 0 then none else go (msg ++ p.take (L / 8)) (bits + L) ((bits + L) :: cnts) rest
  go [] 0 [] toks

def b2HistModel (c : Blake.Cfg) (toks : List Tok) : Except Err (List Nat × List Nat) := do
  let s0 ← Blake2.initstate c {}
  let rec go (s : Blake2.State) (cnts : List Nat) : List Tok → Except Err (List Nat × List Nat)
    | [] => .error "no pieces"
    | [.piece p none] => do let d ← (Blake2.update c s p true).2; pure (d, cnts.reverse)
    | .piece _ (some _) :: _ => .error "TypeError:update() got an unexpected keyword argument 'bitlen'"
    | .init :: rest => do
      let s' ← Blake2.initstate c {}
      go s' (s'.pad.bitcnt :: cnts) rest
    | .piece p none :: rest =>
      let (s', r) := Blake2.update c s p false
      match r with
      | .error e => .error e
      | .ok _ => go s' (s'.pad.bitcnt :: cnts) rest
  go s0 [] toks

/-! ### BLAKE2 -/

def specParams (V : Spec.Blake2.Variant) (p : Blake2.Params) : Spec.Blake2.Params :=
  let l := V.w / 4
  { digestLength := p.outlen.getD V.maxOut, fanout := p.fanout, depth := p.depth, leafLength := p.leafl,
    nodeOffset := p.noffset, nodeDepth := p.ndepth, innerLength := p.inner,
    salt := if p.salt = [] then List.replicate l 0 else p.salt,
    personal := if p.pers = [] then List.replicate l 0 else p.pers }

/-- the spec is defined for parameters in range only -/
def specB2 (V : Spec.Blake2.Variant) (p : Blake2.Params) (done : Nat) (M : List Nat) : String :=
  let sp := specParams V p
  if 1 ≤ sp.digestLength ∧ sp.digestLength ≤ V.maxOut ∧ sp.salt.length = V.w / 4 ∧ sp.personal.length = V.w / 4
  then fmtBytes (Spec.Blake2.hashFrom V sp done M) else "ERR"

def b2SeqModel (c : Blake.Cfg) (pieces : List (List Nat)) : Except Err (List Nat × List Nat) := do
  let s0 ← Blake2.initstate c {}
  let rec go (s : Blake2.State) (cnts : List Nat) : List (List Nat) → Except Err (List Nat × List Nat)
    | [] => .error "no pieces"
    | [p] => do let d ← (Blake2.update c s p true).2; pure (d, cnts.reverse)
    | p :: rest =>
      let (s', r) := Blake2.update c s p false
      match r with
      | .error e => .error e
      | .ok _ => go s' (s'.pad.bitcnt :: cnts) rest
  go s0 [] pieces

def flatTF (tr : List (List Nat × Nat × Bool)) : List Nat := tr.flatMap fun y => [y.2.1, if y.2.2 then 1 else 0]

def b2SeqTrace (c : Blake.Cfg) (pieces : List (List Nat)) : Except Err (List Nat) := do
  let s0 ← Blake2.initstate c {}
  let rec go (s : Blake2.State) (acc : List Nat) : List (List Nat) → Except Err (List Nat)
    | [] => .ok acc
    | p :: rest =>
      let last := rest.isEmpty
      let tr := flatTF (Blake2.trace c s.pad p last)
      let (s', r) := Blake2.update c s p last
      match r with
      | .error e => .error e
      | .ok _ => go s' (acc ++ tr) rest
  go s0 [] pieces

def handle : Handler := fun op args =>
  match op, args with
  | "blake", [n, salt, msg, bl] => do
      let n ← parseNat? n; let salt ← parseNat? salt; let M ← parseBytes? msg; let bl ← parseOptNat? bl
      let m := fmtE fmtBytes (do let c ← Blake.mk? n; Blake.call c M salt bl)
      pure (m, specBlake n 0 M bl salt)
  | "blake.s", [n, salt, msg, bl] => do
      -- the module-level singletons blake224 … blake512
      let n ← parseNat? n; let salt ← parseNat? salt; let M ← parseBytes? msg; let bl ← parseOptNat? bl
      let c ← (if n = 224 then some Blake.blake224 else if n = 256 then some Blake.blake256
               else if n = 384 then some Blake.blake384 else if n = 512 then some Blake.blake512 else none)
      pure (fmtE fmtBytes (Blake.call c M salt bl), specBlake n 0 M bl salt)
  | "blake.pre", [n, salt, cnt, msg] => do
      let n ← parseNat? n; let salt ← parseNat? salt; let cnt ← parseNat? cnt; let M ← parseBytes? msg
      let m := fmtE fmtBytes (do
        let c ← Blake.mk? n
        let s := Blake.initstate c salt
        (Blake.update c { s with pad := { s.pad with bitcnt := cnt } } M none true).2)
      pure (m, specBlake n cnt M none salt)
  | "blake.trace", [n, cnt, msg, bl] => do
      let n ← parseNat? n; let cnt ← parseNat? cnt; let M ← parseBytes? msg; let bl ← parseOptNat? bl
      let m := fmtE fmtNatList (do
        let c ← Blake.mk? n
        let s := Blake.initstate c 0
        let s := { s with pad := { s.pad with bitcnt := cnt } }
        match (Blake.update c s M bl true).2 with
        | .error e => .error e
        | .ok _ => pure ((Blake.trace c s M bl true).map (·.2)))
      let sp := match Spec.Blake.variant? n with
        | none => "ERR"
        | some V =>
          let L := bl.getD (8 * M.length)
          if L > 8 * M.length then "ERR" else fmtNatList (Spec.Blake.counters V cnt L)
      pure (m, sp)
  | "blake2.s", [v, outlen, msg] => do
      -- the module-level singletons blake2b / blake2s
      let (c, V) ← b2cfg? v
      let outlen ← parseOptNat? outlen; let M ← parseBytes? msg
      let p : Blake2.Params := { outlen }
      pure (fmtE fmtBytes (Blake2.call c M p), specB2 V p 0 M)
  | "blake2", [v, outlen, salt, pers, fanout, depth, leafl, noffset, ndepth, inner, msg] => do
      let (c, V) ← b2cfg? v
      let outlen ← parseOptNat? outlen; let salt ← parseBytes? salt; let pers ← parseBytes? pers
      let fanout ← parseNat? fanout; let depth ← parseNat? depth; let leafl ← parseNat? leafl
      let noffset ← parseNat? noffset; let ndepth ← parseNat? ndepth; let inner ← parseNat? inner
      let M ← parseBytes? msg
      let p : Blake2.Params := { outlen, salt, pers, fanout, depth, leafl, noffset, ndepth, inner }
      pure (fmtE fmtBytes (Blake2.call c M p), specB2 V p 0 M)
  | "blake2.pre", [v, cnt, msg] => do
      let (c, V) ← b2cfg? v
      let cnt ← parseNat? cnt; let M ← parseBytes? msg
      let m := fmtE fmtBytes (do
        let s ← Blake2.initstate c {}
        (Blake2.update c { s with pad := { s.pad with bitcnt := cnt } } M true).2)
      pure (m, specB2 V {} (cnt / 8) M)
  | "blake2.trace", [v, cnt, msg] => do
      let (c, V) ← b2cfg? v
      let cnt ← parseNat? cnt; let M ← parseBytes? msg
      let m := fmtNatList (flatTF (Blake2.trace c { bitcnt := cnt } M true))
      let sp := fmtNatList ((Spec.Blake2.counters V (cnt / 8) M.length).flatMap fun y => [y.1, if y.2 then 1 else 0])
      pure (m, sp)
  | "blakeseq", n :: salt :: pieces => do
      let n ← parseNat? n; let salt ← parseNat? salt; let ps ← parseAll parseBytes? pieces
      let m := fmtE fmtSeq (do let c ← Blake.mk? n; blakeSeqModel c salt ps)
      let sp := match Spec.Blake.variant? n with
        | none => "ERR"
        | some V => if !piecesOk (V.block / 8) ps then "ERR" else
          fmtSeq (Spec.Blake.hash V ps.flatten (8 * ps.flatten.length) salt, prefixBits ps)
      pure (m, sp)
  | "blakeseq.h", n :: salt :: toks => do
      let n ← parseNat? n; let salt ← parseNat? salt; let toks ← parseAll parseTok? toks
      let m := fmtE fmtSeq (do let c ← Blake.mk? n; blakeHistModel c salt toks)
      let sp := match Spec.Blake.variant? n with
        | none => "ERR"
        | some V => match histSpec V.block toks with
          | none => "ERR"
          | some (M, L, cnts) => fmtSeq (Spec.Blake.hash V M L salt, cnts)
      pure (m, sp)
  | "blake2seq.h", v :: toks => do
      let (c, V) ← b2cfg? v
      let toks ← parseAll parseTok? toks
      let m := fmtE fmtSeq (b2HistModel c toks)
      let noBitlen := toks.all fun | .piece _ (some _) => false | _ => true
      let sp := match histSpec (8 * V.bb) toks with
        | some (M, _, cnts) => if noBitlen then fmtSeq (Spec.Blake2.hash V (specParams V {}) M, cnts) else "ERR"
        | none => "ERR"
      pure (m, sp)
  | "blakeseq.trace", n :: pieces => do
      let n ← parseNat? n; let ps ← parseAll parseBytes? pieces
      let m := fmtE fmtNatList (do let c ← Blake.mk? n; blakeSeqTrace c ps)
      let sp := match Spec.Blake.variant? n with
        | none => "ERR"
        | some V => if !piecesOk (V.block / 8) ps then "ERR" else fmtNatList (Spec.Blake.counters V 0 (8 * ps.flatten.length))
      pure (m, sp)
  | "blake2seq", v :: pieces => do
      let (c, V) ← b2cfg? v
      let ps ← parseAll parseBytes? pieces
      let m := fmtE fmtSeq (b2SeqModel c ps)
      let sp := if !piecesOk V.bb ps then "ERR" else fmtSeq (Spec.Blake2.hash V (specParams V {}) ps.flatten, prefixBits ps)
      pure (m, sp)
  | "blake2seq.trace", v :: pieces => do
      let (c, V) ← b2cfg? v
      let ps ← parseAll parseBytes? pieces
      let m := fmtE fmtNatList (b2SeqTrace c ps)
      let sp := if !piecesOk V.bb ps then "ERR" else
        fmtNatList ((Spec.Blake2.counters V 0 ps.flatten.length).flatMap fun y => [y.1, if y.2 then 1 else 0])
      pure (m, sp)
  | _, _ => none

end Driver.BlakeD
