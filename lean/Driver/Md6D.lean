/-
  Driver.Md6D — line-protocol handlers for MD6 (C17).
    md6   <d> <L> <rounds|None> <key x…> <msg x…> <bitlen|None>     digest            (model, spec)
    md6.par <d> <L> <rounds|None> <key> <level> <msg> <bitlen|None>  one PAR level      (model, spec)
    md6.seq <d> <L> <rounds|None> <key> <msg> <bitlen|None>          SEQ (digest)       (model, spec)
    md6.f <rounds> <l w0,…,w88>                                      compression        (model, spec)
    md6.V par|seq <d> <keylen> <z> <L> <r> <p>                       control word       (model, spec)
    md6.U par|seq <level|L> <index>                                  node id            (model, spec)
    md6.rounds <d> <key>                                             default rounds     (model, spec)
  The spec column is `-` outside the domain of the MD6 report (d ∉ 1..512, key > 64 bytes, L > 64,
  r ∉ 1..4095) and `ERR` where the caller claims more bits than the message has.
-/
import Driver.Wire
import Model.Md6
import Spec.Md6
namespace Driver.Md6D
open Model Driver

def specParams? (d L : Nat) (rounds : Option Nat) (key : List Nat) : Option Spec.Md6.Params :=
  let r := rounds.getD (Spec.Md6.defaultRounds d key.length)
  if 1 ≤ d ∧ d ≤ 512 ∧ key.length ≤ 64 ∧ L ≤ 64 ∧ 1 ≤ r ∧ r < 4096 then some ⟨d, key, L, r⟩ else none

/-- message bit count for the spec: `none` = outside the domain, `some (.error)` = refusal expected -/
def specBits? (M : List Nat) (bitlen : Option Nat) : Option (Except Unit Nat) :=
  match bitlen with
  | none => some (.ok (8 * M.length))
  | some b => if b > 8 * M.length then some (.error ()) else some (.ok b)

def withSpec (P? : Option Spec.Md6.Params) (M : List Nat) (bitlen : Option Nat)
    (k : Spec.Md6.Params → Nat → String) : String :=
  match P?, specBits? M bitlen with
  | some P, some (.ok m) => k P m
  | some _, some (.error _) => "ERR"
  | _, _ => "-"

def fmtWords (ws : List Spec.Md6.Word) : String := fmtNatList (ws.map (·.toNat))

def handle : Handler := fun op args =>
  match op, args with
  | "md6", [d, L, r, key, msg, bl] => do
      let d ← parseNat? d; let L ← parseNat? L; let r ← parseOptNat? r
      let key ← parseBytes? key; let msg ← parseBytes? msg; let bl ← parseOptNat? bl
      let o := Md6.new d key L r
      pure (fmtE fmtBytes (Md6.call o msg bl),
            withSpec (specParams? d L r key) msg bl fun P m => fmtBytes (Spec.Md6.md6 P msg m))
  | "md6.par", [d, L, r, key, lvl, msg, bl] => do
      let d ← parseNat? d; let L ← parseNat? L; let r ← parseOptNat? r
      let key ← parseBytes? key; let lvl ← parseNat? lvl; let msg ← parseBytes? msg; let bl ← parseOptNat? bl
      let o := Md6.new d key L r
      pure (fmtE fmtBytes (Md6.PAR o lvl msg bl),
            if lvl > 255 then "-" else
            withSpec (specParams? d L r key) msg bl fun P m => fmtBytes (Spec.Md6.ofWords (Spec.Md6.par P lvl msg m)))
  | "md6.seq", [d, L, r, key, msg, bl] => do
      let d ← parseNat? d; let L ← parseNat? L; let r ← parseOptNat? r
      let key ← parseBytes? key; let msg ← parseBytes? msg; let bl ← parseOptNat? bl
      let o := Md6.new d key L r
      pure (fmtE fmtBytes (Md6.SEQ o msg bl),
            withSpec (specParams? d L r key) msg bl fun P m => fmtBytes (Spec.Md6.chop P.d (Spec.Md6.seq P msg m)))
  | "md6.f", [r, ws] => do
      let r ← parseNat? r; let ws ← parseNatList? ws
      pure (fmtNatList (Md6.f r (ws.map (· % 2 ^ 64))),
            if ws.length = 89 ∧ 1 ≤ r then fmtWords (Spec.Md6.compress r (ws.map (BitVec.ofNat 64))) else "-")
  | "md6.V", [mode, d, keylen, z, L, r, p] => do
      let d ← parseNat? d; let keylen ← parseNat? keylen; let z ← parseNat? z; let L ← parseNat? L
      let r ← parseNat? r; let p ← parseNat? p
      let m : Except Err Bits :=
        if mode = "par" then Md6.setP (Md6.V0 d keylen z L r) p
        else if z = 1 then Md6.setP (Md6.V0 d keylen 0 L r) p >>= Md6.setZ1
        else .ok (Md6.V0 d keylen 0 L r)
      pure (fmtE (fun (b : Bits) => toString b.ival) m,
            if d < 4096 ∧ keylen < 256 ∧ z < 16 ∧ L < 256 ∧ r < 4096 ∧ p < 65536
            then toString (Spec.Md6.V r L z p keylen d).toNat else "-")
  | "md6.U", [mode, lvl, i] => do
      let lvl ← parseNat? lvl; let i ← parseNat? i
      let lvl := if mode = "seq" then lvl + 1 else lvl
      pure (toString (((lvl <<< 56) + i) % 2 ^ 64),
            if lvl < 256 ∧ i < 2 ^ 56 then toString (Spec.Md6.U lvl i).toNat else "-")
  | "md6.rounds", [d, key] => do
      let d ← parseNat? d; let key ← parseBytes? key
      pure (toString (Md6.new d key 0).rounds, toString (Spec.Md6.defaultRounds d key.length))
  | _, _ => none

end Driver.Md6D
