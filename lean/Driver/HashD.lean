/-
  Driver.HashD — line-protocol handlers for C01 / C13 / C14 (MD4, MD5, SHA-0/1, SHA-2, HMAC, streaming).

    hash <alg> <msg hex> <bitlen|None>                         one-shot digest
    hashseq  <alg> | preset <n> | init | upd <hex> [bitlen] | … | fin <hex> [bitlen]
                                                               streaming: `digest,bitcnt` after every upd, `-,bitcnt` after
                                                               init (= h.initstate()), digest after fin; a bit length counts
                                                               the bits of THAT piece (0 = none of it, on a non-empty buffer too)
    hashseqc <alg> | …same steps…                              code<->model only: `digest,padflag,bitcnt,padcnt` after every step
    hashseqs <alg0>,<alg1>,… | <k> new | <k> <step> | env <name> | …
                                                               SEVERAL objects in one line: `<k> new` constructs object k (class
                                                               alg_k), `<k> <step>` is a hashseq step on object k, `env <name>` is
                                                               library activity on none of them (a no-op for the model: its objects
                                                               are values, Model.Multi); printed per step as in hashseq; spec = every
                                                               object's stream answered from ITS OWN steps
    hashcalls <alg> | …same steps, and `call <hex> <bitlen|None>` = h(M,bitlen)…
                                                               ONE object for the whole line: the outcome of every `call` step;
                                                               spec = the standard's digest of each called message alone
    hmac <alg> <key hex> <msg hex>                             HMAC(h,key)(msg)
    hmacseq <alg> <msg hex> <key1 hex> <key2 hex> …            one object, setkey(k_i) then call(msg) for each key
    hmacgen <B> <D> <key hex> <msg hex>                        HMAC over the toy hash of block size B bits, D output bytes
    hmach <alg> | <step> | <step> …                            ONE hash object with a HISTORY handed to HMAC: the steps of `hashcalls`
                                                               and `mac <key hex> <msg hex>` (o = HMAC(h,key); o(msg)), `again <msg hex>`
                                                               (o(msg) once more); printed: the outcome of every call / mac / again step;
                                                               model = Model.HmacObj over the object threaded through the line; spec = the
                                                               digest of its own message for a call, RFC 2104 over the standard hash for a MAC
-/
import Driver.Wire
import Model.Hash
import Model.Hmac
import Model.HmacObj
import Model.Multi
import Spec.Hash
import Spec.Hmac
namespace Driver.HashD
open Model Driver

def parseAlg? : String → Option (Model.Alg × Spec.Alg)
  | "md4" => some (.md4, .md4) | "md5" => some (.md5, .md5)
  | "sha0" => some (.sha0, .sha0) | "sha1" => some (.sha1, .sha1)
  | "sha224" => some (.sha224, .sha224) | "sha256" => some (.sha256, .sha256)
  | "sha384" => some (.sha384, .sha384) | "sha512" => some (.sha512, .sha512)
  | "sha512_224" => some (.sha512_224, .sha512_224) | "sha512_256" => some (.sha512_256, .sha512_256)
  | _ => none

def toSpecBytes (m : List Nat) : List Spec.Byte := m.map (BitVec.ofNat 8)
def ofSpecBytes (m : List Spec.Byte) : List Nat := m.map (·.toNat)
def fmtSpec (m : List Spec.Byte) : String := fmtBytes (ofSpecBytes m)

/-- spec side of a one-shot call -/
def specHash (a : Spec.Alg) (M : List Nat) (L : Option Nat) : String :=
  match L with
  | none => fmtSpec (Spec.hash a (Spec.bytesToBits (toSpecBytes M)))
  | some l =>
    if l > 8 * M.length then "ERR"                       -- the property: refused with an error
    else if l = 0 then (if M.isEmpty then fmtSpec (Spec.hash a []) else "-")   -- L = 0 on data: outside the property
    else fmtSpec (Spec.hash a (Spec.takeBits l (toSpecBytes M)))

/-! streaming -/

inductive Step
  | preset (n : Nat)
  | upd (m : List Nat) (bitlen : Option Nat)
  | init
  | fin (m : List Nat) (bitlen : Option Nat)
  | call (m : List Nat) (bitlen : Option Nat)

def parseStep? : List String → Option Step
  | ["preset", n] => (parseNat? n).map .preset
  | ["upd", x] => (parseBytes? x).map (.upd · none)
  | ["upd", x, l] => do let x ← parseBytes? x; let l ← parseOptNat? l; pure (.upd x l)
  | ["init"] => some .init
  | ["fin", x] => (parseBytes? x).map (.fin · none)
  | ["fin", x, l] => do let x ← parseBytes? x; let l ← parseOptNat? l; pure (.fin x l)
  | ["call", x, l] => do let x ← parseBytes? x; let l ← parseOptNat? l; pure (.call x l)
  | _ => none

def splitBar (toks : List String) : List (List String) :=
  let rec go : List String → List String → List (List String) → List (List String)
    | [], cur, acc => (cur.reverse :: acc).reverse
    | "|" :: ts, cur, acc => go ts [] (cur.reverse :: acc)
    | t :: ts, cur, acc => go ts (t :: cur) acc
  go toks [] []

def fmtState (full : Bool) (r : Except Err (List Nat)) (st : PadState) (isFin : Bool) : String :=
  let d := fmtE fmtBytes r
  if full then s!"{d},{fmtBool st.padflag},{st.bitcnt},{st.padcnt}"
  else if isFin then d else s!"{d},{st.bitcnt}"

/-- one step on the model object: the object afterwards and what the line prints -/
def stepObj (c : HashCore) (full : Bool) (o : HashObj) : Step → HashObj × String
  | .preset n =>
    let o' : HashObj := { o with pad := { o.pad with bitcnt := n } }
    (o', if full then s!"-,{fmtBool o'.pad.padflag},{o'.pad.bitcnt},{o'.pad.padcnt}" else "-")
  | .upd m l =>
    let (o', r) := c.update o m l false
    (o', fmtState full r o'.pad false)
  | .init =>
    let o' := c.initstate
    (o', if full then s!"-,{fmtBool o'.pad.padflag},{o'.pad.bitcnt},{o'.pad.padcnt}" else s!"-,{o'.pad.bitcnt}")
  | .fin m l =>
    let (o', r) := c.update o m l true
    (o', fmtState full r o'.pad true)
  | .call m l =>
    let (o', r) := c.call o m l
    (o', fmtState full r o'.pad true)

/-- the model object driven through the steps -/
def modelSeq (c : HashCore) (full : Bool) : HashObj → List Step → List String → List String
  | _, [], acc => acc.reverse
  | o, st :: rest, acc =>
    let (o', r) := stepObj c full o st
    modelSeq c full o' rest (r :: acc)

/-- `hashcalls`: the model object threaded through the steps, the outcome of every `call` step -/
def modelCalls (c : HashCore) : HashObj → List Step → List String → List String
  | _, [], acc => acc.reverse
  | o, .preset n :: rest, acc => modelCalls c { o with pad := { o.pad with bitcnt := n } } rest acc
  | o, .upd m l :: rest, acc => modelCalls c (c.update o m l false).1 rest acc
  | _, .init :: rest, acc => modelCalls c c.initstate rest acc
  | o, .fin m l :: rest, acc => modelCalls c (c.update o m l true).1 rest acc
  | o, .call m l :: rest, acc =>
    let (o', r) := c.call o m l
    modelCalls c o' rest (fmtE fmtBytes r :: acc)

/-- spec side of a streaming line: defined when the line is `[preset n] (upd | init | fin init | call init)* fin` with
    block-aligned pieces and a block-aligned preset; the intermediate values are the serialised chaining values of the
    standard's iteration.
    A piece given with a bit length L contributes its first L bits (L = 0: nothing, whatever the buffer holds; a
    non-final L must be whole blocks and L ≤ 8|piece|); `init` starts a new message (chaining value and bit count of
    the standard start again, whatever was fed, finished, called or refused before — the standard knows nothing of the
    object's earlier life); a FINAL piece with L > 8|piece| must be refused (C01).  `call` = the digest of its own message.
    `allowOpen`: a stream that is never finished is answered too (the streams of sibling objects in `hashseqs`). -/
def specSeq {σ} (h : Spec.MDHash σ) (steps : List Step) (allowOpen : Bool := false) : Option (List String) :=
  let B := 8 * h.blockLen
  -- the final piece of a message whose whole blocks so far gave `s` after `done` bits
  let finStr (s : σ) (done : Nat) (m : List Nat) (l : Option Nat) : String :=
    match l with
    | none => fmtSpec (h.hashFrom s done (Spec.bytesToBits (toSpecBytes m)))
    | some l =>
      -- an explicit bitlen counts the bits of this piece; more bits than the piece holds: refused, whatever was fed before
      if l ≤ 8 * m.length then fmtSpec (h.hashFrom s done (Spec.takeBits l (toSpecBytes m))) else "ERR"
  let rec go (s : σ) (done : Nat) : List Step → List String → Option (List String)
    | [], acc => if allowOpen then some acc.reverse else none
    | .preset _ :: _, _ => none
    | .init :: rest, acc => go h.init 0 rest ("-,0" :: acc)
    | .upd m l :: rest, acc =>
      let L := l.getD (8 * m.length)
      if L > 8 * m.length ∨ L % B ≠ 0 then none else
      let s' := h.absorb s (Spec.groups h.blockLen (toSpecBytes (m.take (L / 8))))
      go s' (done + L) rest (s!"{fmtSpec (h.out s')},{done + L}" :: acc)
    | [.fin m l], acc => some (finStr s done m l :: acc).reverse
    | .fin m l :: .init :: rest, acc => go h.init 0 rest ("-,0" :: finStr s done m l :: acc)
    | .fin _ _ :: _, _ => none
    | [.call m l], acc => if l = some 0 ∧ !m.isEmpty then none else some (finStr h.init 0 m l :: acc).reverse
    | .call m l :: .init :: rest, acc =>
      if l = some 0 ∧ !m.isEmpty then none else go h.init 0 rest ("-,0" :: finStr h.init 0 m l :: acc)
    | .call _ _ :: _, _ => none
  match steps with
  | .preset n :: rest => if n % B ≠ 0 then none else go h.init n rest ["-"]
  | _ => go h.init 0 steps []

def specSeqAlg (a : Spec.Alg) (steps : List Step) (allowOpen : Bool := false) : Option (List String) :=
  match a with
  | .md4 => specSeq Spec.Md4.md steps allowOpen
  | .md5 => specSeq Spec.Md5.md steps allowOpen
  | .sha0 => specSeq (Spec.Sha1.md 0) steps allowOpen
  | .sha1 => specSeq (Spec.Sha1.md 1) steps allowOpen
  | .sha224 => specSeq (Spec.Sha2.md256 (Spec.Sha2.stateOf Spec.Sha2.iv224) 28) steps allowOpen
  | .sha256 => specSeq (Spec.Sha2.md256 (Spec.Sha2.stateOf Spec.Sha2.iv256) 32) steps allowOpen
  | .sha384 => specSeq (Spec.Sha2.md512 (Spec.Sha2.stateOf Spec.Sha2.iv384) 48) steps allowOpen
  | .sha512 => specSeq (Spec.Sha2.md512 (Spec.Sha2.stateOf Spec.Sha2.iv512) 64) steps allowOpen
  | .sha512_224 => specSeq (Spec.Sha2.md512 (Spec.Sha2.ivT 224) 28) steps allowOpen
  | .sha512_256 => specSeq (Spec.Sha2.md512 (Spec.Sha2.ivT 256) 32) steps allowOpen

/-! several objects in one line (`hashseqs`) -/

inductive MOp
  | new
  | env
  | st (s : Step)

/-- `<k> new` / `<k> <step>` / `env <name>`; `env` is addressed to the extra slot `nobj` (the environment) -/
def parseMStep? (nobj : Nat) : List String → Option (Nat × MOp)
  | ["env", _] => some (nobj, .env)
  | [k, "new"] => do let k ← parseNat? k; if k < nobj then pure (k, .new) else none
  | k :: rest => do
      let k ← parseNat? k; let s ← parseStep? rest
      match s with
      | .preset _ => none
      | _ => if k < nobj then pure (k, .st s) else none
  | _ => none

/-- object slot k: `none` before `<k> new`; the constructors end with `self.initstate()`.  The environment slot (no
    class) ignores everything: library activity on other objects does not touch the values in the other slots. -/
def stepSlot (cores : List HashCore) (k : Nat) (o : Option HashObj) : MOp → Option HashObj × String
  | .env => (o, "-")
  | .new => match cores[k]? with
    | some c => (some c.initstate, s!"-,{c.initstate.pad.bitcnt}")
    | none => (o, "?")
  | .st s => match cores[k]?, o with
    | some c, some o => let (o', r) := stepObj c false o s; (some o', r)
    | _, _ => (o, "?")                                     -- a step before `new`: not a line of the protocol

/-- every object's stream answered by the standard from its own steps (`new` starts a message as `init` does), put back
    in the order of the line -/
def specMulti (algs : List Spec.Alg) (steps : List (Nat × MOp)) : Option (List String) := do
  let per ← (algs.zipIdx).mapM fun (a, j) =>
    specSeqAlg a ((Model.Multi.own j steps).filterMap fun | .new => some .init | .st s => some s | .env => none) true
  let rec weave (per : List (List String)) : List (Nat × MOp) → List String → Option (List String)
    | [], acc => some acc.reverse
    | (_, .env) :: rest, acc => weave per rest ("-" :: acc)
    | (k, _) :: rest, acc =>
      match per[k]? with
      | some (x :: xs) => weave (per.set k xs) rest (x :: acc)
      | _ => none
  weave per steps []

/-! HMAC -/

def modelHashFn (a : Model.Alg) : Hmac.HashFn := fun m => Model.hash a m none
def specHashFn (a : Spec.Alg) : List Nat → List Nat := fun m => ofSpecBytes (Spec.hash a (Spec.bytesToBits (toSpecBytes m)))

/-- `HMAC(h,k1)`, then for each key: `setkey(k)` (the first one by the constructor) and `call(m)` -/
def modelHmacSeq (h : Hmac.HashFn) (blocksize : Nat) (m : List Nat) : Hmac → List (List Nat) → List String → List String
  | _, [], acc => acc.reverse
  | o, k :: ks, acc =>
    match o.setkey h k with
    | .error _ => modelHmacSeq h blocksize m o ks ("ERR" :: acc)
    | .ok o' => modelHmacSeq h blocksize m o' ks (fmtE fmtBytes (o'.call h m) :: acc)

/-- toy hash for the generic HMAC lines: D bytes, byte j = (Σ_i (i+j+1)·m[i] + |m| + 7j) mod 256 -/
def toyHash (D : Nat) (m : List Nat) : List Nat :=
  (List.range D).map fun j =>
    ((m.zipIdx.foldl (fun acc (x, i) => acc + (i + j + 1) * x) 0) + m.length + 7 * j) % 256

/-! ### `hmach`: the hash object has a history -/

inductive HStep
  | hash (st : Step)
  | mac (k m : List Nat)
  | again (m : List Nat)

def parseHStep? : List String → Option HStep
  | ["mac", k, m] => do let k ← parseBytes? k; let m ← parseBytes? m; pure (.mac k m)
  | ["again", m] => do let m ← parseBytes? m; pure (.again m)
  | toks => (parseStep? toks).map .hash

/-- the model hash object and the HMAC object of the last `mac` threaded through the steps; the outcome of every
    call / mac / again step -/
def histModel (c : HashCore) (B : Nat) : HashObj → Option Hmac → List HStep → List String → List String
  | _, _, [], acc => acc.reverse
  | o, hm, .hash (.call m l) :: rest, acc =>
    let (o', r) := c.call o m l
    histModel c B o' hm rest (fmtE fmtBytes r :: acc)
  | o, hm, .hash st :: rest, acc => histModel c B (stepObj c false o st).1 hm rest acc
  | o, hm, .mac k m :: rest, acc =>
    match HmacObj.hmac (fun o x => c.call o x none) B o k m with
    | (o', some hm', r) => histModel c B o' (some hm') rest (fmtE fmtBytes r :: acc)
    | (o', none, r) => histModel c B o' hm rest (fmtE fmtBytes r :: acc)
  | o, hm, .again m :: rest, acc =>
    match hm with
    | none => histModel c B o hm rest ("ERR" :: acc)
    | some h =>
      let (o', r) := HmacObj.call h (fun o x => c.call o x none) o m
      histModel c B o' hm rest (fmtE fmtBytes r :: acc)

def histSpec (sa : Spec.Alg) (B : Nat) : Option (List Nat) → List HStep → List String → List String
  | _, [], acc => acc.reverse
  | key, .hash (.call m l) :: rest, acc => histSpec sa B key rest (specHash sa m l :: acc)
  | key, .hash _ :: rest, acc => histSpec sa B key rest acc
  | _, .mac k m :: rest, acc => histSpec sa B (some k) rest (fmtBytes (Spec.rfc2104 (specHashFn sa) B k m) :: acc)
  | key, .again m :: rest, acc =>
    histSpec sa B key rest ((match key with | some k => fmtBytes (Spec.rfc2104 (specHashFn sa) B k m) | none => "ERR") :: acc)

def handle : Handler := fun op args =>
  match op, args with
  | "hmach", a :: "|" :: rest => do
      let (ma, sa) ← parseAlg? a
      let steps ← (splitBar rest).mapM parseHStep?
      let model := match ma.new with
        | .error _ => "ERR"
        | .ok c => ";".intercalate (histModel c (8 * ma.blocklen) c.initstate none steps [])
      let specs := histSpec sa ma.blocklen none steps []
      pure (model, if specs.contains "-" then "-" else ";".intercalate specs)
  | "hash", [a, m, l] => do
      let (ma, sa) ← parseAlg? a; let m ← parseBytes? m; let l ← parseOptNat? l
      pure (fmtE fmtBytes (Model.hash ma m l), specHash sa m l)
  | "hashseq", a :: "|" :: rest => do
      let (ma, sa) ← parseAlg? a
      let steps ← (splitBar rest).mapM parseStep?
      let model := match ma.new with
        | .error _ => "ERR"
        | .ok c => ";".intercalate (modelSeq c false c.initstate steps [])
      pure (model, match specSeqAlg sa steps with | some l => ";".intercalate l | none => "-")
  | "hashseqs", as :: "|" :: rest => do
      let algs ← (as.splitOn ",").mapM parseAlg?
      let steps ← (splitBar rest).mapM (parseMStep? algs.length)
      let model := match (algs.map (·.1)).mapM (·.new) with
        | .error _ => "ERR"
        | .ok cores =>
          ";".intercalate ((Model.Multi.run (stepSlot cores) (List.replicate (algs.length + 1) none) steps).2.map (·.2))
      pure (model, match specMulti (algs.map (·.2)) steps with | some l => ";".intercalate l | none => "-")
  | "hashseqc", a :: "|" :: rest => do
      let (ma, _) ← parseAlg? a
      let steps ← (splitBar rest).mapM parseStep?
      let model := match ma.new with
        | .error _ => "ERR"
        | .ok c => ";".intercalate (modelSeq c true c.initstate steps [])
      pure (model, "-")
  | "hashcalls", a :: "|" :: rest => do
      let (ma, sa) ← parseAlg? a
      let steps ← (splitBar rest).mapM parseStep?
      let model := match ma.new with
        | .error _ => "ERR"
        | .ok c => ";".intercalate (modelCalls c c.initstate steps [])
      -- the standard knows nothing of objects: every call is the digest of its own message
      let specs := steps.filterMap fun | .call m l => some (specHash sa m l) | _ => none
      pure (model, if specs.contains "-" then "-" else ";".intercalate specs)
  | "hmac", [a, k, m] => do
      let (ma, sa) ← parseAlg? a; let k ← parseBytes? k; let m ← parseBytes? m
      pure (fmtE fmtBytes (Hmac.hmac (modelHashFn ma) (8 * ma.blocklen) k m),
            fmtBytes (Spec.rfc2104 (specHashFn sa) ma.blocklen k m))
  | "hmacseq", a :: m :: keys => do
      let (ma, sa) ← parseAlg? a; let m ← parseBytes? m; let keys ← keys.mapM parseBytes?
      let model := ";".intercalate (modelHmacSeq (modelHashFn ma) (8 * ma.blocklen) m { blocksize := 8 * ma.blocklen } keys [])
      let spec := ";".intercalate (keys.map fun k => fmtBytes (Spec.rfc2104 (specHashFn sa) ma.blocklen k m))
      pure (model, spec)
  | "hmacgen", [b, d, k, m] => do
      let b ← parseNat? b; let d ← parseNat? d; let k ← parseBytes? k; let m ← parseBytes? m
      pure (fmtE fmtBytes (Hmac.hmac (fun x => .ok (toyHash d x)) b k m),
            if d ≤ b / 8 ∧ b / 8 > 0 then fmtBytes (Spec.rfc2104 (toyHash d) (b / 8) k m) else "-")
  | _, _ => none

end Driver.HashD
