/-
  Driver.SerpentD — line-protocol handlers for Model.Serpent / Spec.Serpent (C02, C03 Serpent parts) and
  operators.rol/ror (C03).
  Operand tokens: `x<hex>` bytes (converted like `Bits(bytes,bitorder=1)`), `b<size>:<ival>` a Bits.
  Results: bytes `x<hex>`, Bits `size:ival`, lists joined by `;`, `ERR`.
-/
import Driver.Wire
import Model.Serpent
import Spec.Serpent
namespace Driver.SerpentD
open Model Driver

def parseBits? (s : String) : Option Bits :=
  match s.toList with
  | 'b' :: cs =>
    match (String.ofList cs).splitOn ":" with
    | [a, b] => do let sz ← a.toNat?; let v ← b.toNat?; pure ⟨v, sz⟩
    | _ => none
  | _ => none

/-- `Bits(v,bitorder=1)` of an operand token -/
def parseOperand? (s : String) : Option (Except Err Bits) :=
  match s.toList with
  | 'b' :: _ => (parseBits? s).map .ok
  | 'x' :: _ => (parseBytes? s).map fun bs => Bits.ofBytes bs none 1
  | _ => none

def fmtBitsList (l : List Bits) : String := ";".intercalate (l.map fmtBits)

def specBits (size v : Nat) : String := s!"{size}:{v}"
def specState (s : Spec.Serpent.State) : String := specBits 128 (Spec.Serpent.natOfState s)
def optStr : Option String → String
  | some s => s
  | none => "ERR"

/-- spec of a block operation on operands: defined for key ≤ 256 bits and a 128-bit block -/
def specCipher (f : Nat → Nat → Nat → Nat) (K M : Bits) : String :=
  if K.size ≤ 256 ∧ M.size = 128 then fmtBytes (Spec.Serpent.leBytes 16 (f K.size K.ival M.ival)) else "ERR"

def spec128 (f : Nat → Nat) (X : Bits) : String :=
  if X.size = 128 then specBits 128 (f X.ival) else "ERR"

def specBox (f : Nat → Nat → Nat) (i : Nat) (X : Bits) : String :=
  if i < 8 ∧ X.size = 128 then
    specState (Spec.Serpent.applyBox (f i) (Spec.Serpent.stateOfNat X.ival)) else "ERR"

def bind2 (a b : Except Err Bits) (f : Bits → Bits → Except Err (List Nat)) : Except Err (List Nat) := do
  let a ← a; let b ← b; f a b

def handle : Handler := fun op args =>
  match op, args with
  | "serpent.enc", [k, m] => do
      let k ← parseOperand? k; let m ← parseOperand? m
      let md := fmtE fmtBytes (bind2 k m Serpent.enc)
      let sp := match k, m with
        | .ok K, .ok M => specCipher Spec.Serpent.encNat K M
        | _, _ => "ERR"
      pure (md, sp)
  | "serpent.dec", [k, m] => do
      let k ← parseOperand? k; let m ← parseOperand? m
      let md := fmtE fmtBytes (bind2 k m Serpent.dec)
      let sp := match k, m with
        | .ok K, .ok M => specCipher Spec.Serpent.decNat K M
        | _, _ => "ERR"
      pure (md, sp)
  | "serpent.rt.encdec", [k, m] => do
      let k ← parseOperand? k; let m ← parseOperand? m
      let md := fmtE fmtBytes (bind2 k m fun K M => do
        let c ← Serpent.enc K M
        let C ← Bits.ofBytes c none 1
        Serpent.dec K C)
      pure (md, "-")
  | "serpent.rt.decenc", [k, m] => do
      let k ← parseOperand? k; let m ← parseOperand? m
      let md := fmtE fmtBytes (bind2 k m fun K M => do
        let c ← Serpent.dec K M
        let C ← Bits.ofBytes c none 1
        Serpent.enc K C)
      pure (md, "-")
  | "serpent.len.enc", [k, m] => do
      let k ← parseOperand? k; let m ← parseOperand? m
      pure (fmtE (fun c => toString c.length) (bind2 k m Serpent.enc), "-")
  | "serpent.len.dec", [k, m] => do
      let k ← parseOperand? k; let m ← parseOperand? m
      pure (fmtE (fun c => toString c.length) (bind2 k m Serpent.dec), "-")
  | "serpent.subkeys", [k] => do
      let k ← parseOperand? k
      let md := fmtE fmtBitsList (do let K ← k; let c ← Serpent.init K; pure c.keys)
      let sp := match k with
        | .ok K => if K.size ≤ 256 then ";".intercalate ((Spec.Serpent.roundKeys K.size K.ival).map specState) else "ERR"
        | _ => "ERR"
      pure (md, sp)
  | "serpent.S", [i, x] => do
      let i ← parseNat? i; let x ← parseBits? x
      pure (fmtE fmtBits (Serpent.S i x), specBox Spec.Serpent.sbox i x)
  | "serpent.Sinv", [i, x] => do
      let i ← parseNat? i; let x ← parseBits? x
      pure (fmtE fmtBits (Serpent.Sinv i x), specBox Spec.Serpent.sboxInv i x)
  | "serpent.IP", [x] => do
      let x ← parseBits? x
      pure (fmtE fmtBits (Serpent.IP x), spec128 Spec.Serpent.IP x)
  | "serpent.FP", [x] => do
      let x ← parseBits? x
      pure (fmtE fmtBits (Serpent.FP x), spec128 Spec.Serpent.FP x)
  | "serpent.L", [x] => do
      let x ← parseBits? x
      pure (fmtE fmtBits (Serpent.L x),
            spec128 (fun v => Spec.Serpent.natOfState (Spec.Serpent.lt (Spec.Serpent.stateOfNat v))) x)
  | "serpent.Linv", [x] => do
      let x ← parseBits? x
      pure (fmtE fmtBits (Serpent.Linv x),
            spec128 (fun v => Spec.Serpent.natOfState (Spec.Serpent.ltInv (Spec.Serpent.stateOfNat v))) x)
  | "serpent.rt.S", [i, x] => do
      let i ← parseNat? i; let x ← parseBits? x
      pure (fmtE fmtBits (Serpent.S i x >>= Serpent.Sinv i), "-")
  | "serpent.rt.Sinv", [i, x] => do
      let i ← parseNat? i; let x ← parseBits? x
      pure (fmtE fmtBits (Serpent.Sinv i x >>= Serpent.S i), "-")
  | "serpent.rt.IP", [x] => do
      let x ← parseBits? x
      pure (fmtE fmtBits (Serpent.IP x >>= Serpent.FP), "-")
  | "serpent.rt.FP", [x] => do
      let x ← parseBits? x
      pure (fmtE fmtBits (Serpent.FP x >>= Serpent.IP), "-")
  | "serpent.rt.L", [x] => do
      let x ← parseBits? x
      pure (fmtE fmtBits (Serpent.L x >>= Serpent.Linv), "-")
  | "serpent.rt.Linv", [x] => do
      let x ← parseBits? x
      pure (fmtE fmtBits (Serpent.Linv x >>= Serpent.L), "-")
  | "ops.rol", [x, n] => do
      let x ← parseBits? x; let n ← parseNat? n
      pure (fmtE fmtBits (x.rol n),
            if n ≤ x.size then specBits x.size (Spec.Serpent.rolBits x.size x.ival n) else "ERR")
  | "ops.ror", [x, n] => do
      let x ← parseBits? x; let n ← parseNat? n
      pure (fmtE fmtBits (x.ror n),
            if n ≤ x.size then specBits x.size (Spec.Serpent.rorBits x.size x.ival n) else "ERR")
  | "ops.rt.rol", [x, n] => do
      let x ← parseBits? x; let n ← parseNat? n
      pure (fmtE fmtBits (x.rol n >>= (·.ror n)), "-")
  | "ops.rt.ror", [x, n] => do
      let x ← parseBits? x; let n ← parseNat? n
      pure (fmtE fmtBits (x.ror n >>= (·.rol n)), "-")
  | _, _ => none

end Driver.SerpentD
