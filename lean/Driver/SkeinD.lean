/-
  Driver.SkeinD — line-protocol handlers for Model.Skein / Spec.Skein (C12).
    skein <Nb> <No> <msg> <bitlen|None> <key|-> <prs|-> <pk|-> <kdf|-> <nonce|-> [tree <Yl> <Yf> <Ym>]   -> bytes | ERR
    skein.init <Nb> <No>                                   -> bytes       (the chaining value after the configuration stage)
    skein.ubi <G> <tweak int> <M> <bitlen|None>            -> bytes | ERR (UBI(Threefish,G,Bits(tweak,128))(M,bitlen))
    skein.tweak <tweak int> <field> <value>                -> new tweak int and the six field values after the setter
  Optional byte strings: `-` = None, `x…` = bytes.  spec = `-` where the specification does not define the input
  (bit length beyond the message).
-/
import Driver.Wire
import Model.Skein
import Spec.Skein
namespace Driver.SkeinD
open Model Driver

def parseOptBytes? (s : String) : Option (Option (List Nat)) :=
  if s = "-" then some none else (parseBytes? s).map some

def fmtO (o : Option (List Nat)) : String := match o with | some b => fmtBytes b | none => "ERR"

def skeinOp (nb no : Nat) (m : List Nat) (bl : Option Nat) (key prs pk kdf non : Option (List Nat)) (yl yf ym : Nat) :
    String × String :=
  let model := fmtE fmtBytes (Skein.hash nb no yl yf ym key prs pk kdf non m bl)
  let L := bl.getD (8 * m.length)
  let spec := if L > 8 * m.length then "-" else
    fmtO (Spec.Skein.skein nb no (key.getD []) (prs.getD []) (pk.getD []) (kdf.getD []) (non.getD []) yl yf ym m L)
  (model, spec)

def fieldsOf (t : Bits) : Except Err String := do
  let p ← Skein.getPosition t; let tl ← Skein.getTreeLevel t; let bp ← Skein.getBitPad t
  let ty ← Skein.getField t 120 126; let fi ← Skein.getFirst t; let fn ← Skein.getFinal t
  let rs ← Skein.getField t 96 112
  pure s!"{t.size}:{t.ival};{p},{rs},{tl},{bp},{ty},{fi},{fn}"

def handle : Handler := fun op args =>
  match op, args with
  | "skein", nb :: no :: m :: bl :: key :: prs :: pk :: kdf :: non :: rest => do
      let nb ← parseNat? nb; let no ← parseNat? no; let m ← parseBytes? m; let bl ← parseOptNat? bl
      let key ← parseOptBytes? key; let prs ← parseOptBytes? prs; let pk ← parseOptBytes? pk
      let kdf ← parseOptBytes? kdf; let non ← parseOptBytes? non
      match rest with
      | [] => pure (skeinOp nb no m bl key prs pk kdf non 0 0 0)
      | ["tree", yl, yf, ym] => do
          let yl ← parseNat? yl; let yf ← parseNat? yf; let ym ← parseNat? ym
          pure (skeinOp nb no m bl key prs pk kdf non yl yf ym)
      | _ => none
  | "skein.init", [nb, no] => do
      let nb ← parseNat? nb; let no ← parseNat? no
      let model := fmtE fmtBytes ((Skein.mk nb no 0 0 0 none none none none none) >>= Skein.initstate)
      let spec := if Spec.Skein.paramsOk nb 0 0 0 then
          fmtBytes (Spec.Skein.ubiBytes (List.replicate (nb / 8) 0) (Spec.Skein.cfgString no 0 0 0) (Spec.Skein.Tcfg * 2 ^ 120))
        else "ERR"
      pure (model, spec)
  | "skein.ubi", [g, tw, m, bl] => do
      let g ← parseBytes? g; let tw ← parseNat? tw; let m ← parseBytes? m; let bl ← parseOptNat? bl
      let model := fmtE fmtBytes (Skein.ubi g (Bits.ofNatSz tw 128) m bl)
      let L := bl.getD (8 * m.length)
      let spec :=
        if L > 8 * m.length ∨ tw ≥ 2 ^ 128 then "-"
        else if Spec.Skein.ubiPre m tw ∧ (g.length = 32 ∨ g.length = 64 ∨ g.length = 128) then fmtBytes (Spec.Skein.ubi g m L tw)
        else "ERR"
      pure (model, spec)
  | "skein.tweak", [tw, field, val] => do
      let tw ← parseNat? tw
      let t : Bits := Bits.ofNatSz tw 128
      let r : Except Err Bits ←
        match field with
        | "Position" => (parseNat? val).map (Skein.setPosition t)
        | "TreeLevel" => (parseNat? val).map (Skein.setTreeLevel t)
        | "BitPad" => (parseNat? val).map (Skein.setBitPad t)
        | "First" => (parseNat? val).map (Skein.setFirst t)
        | "Final" => (parseNat? val).map (Skein.setFinal t)
        | "Type" => some (Skein.setType t val)
        | _ => none
      pure (fmtE id (r >>= fieldsOf), "-")
  | _, _ => none

end Driver.SkeinD
