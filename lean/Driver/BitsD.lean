/-
  Driver.BitsD — line-protocol handlers for Model.Bits (C07, C08).
  Operand tokens: `b<size>:<ival>` a Bits, `i<int>` an int, `l…` a list, `x…` bytes.
-/
import Driver.Wire
namespace Driver.BitsD
open Model Driver

def parseBits? (s : String) : Option Bits :=
  match s.toList with
  | 'b' :: cs =>
    match (String.ofList cs).splitOn ":" with
    | [a, b] => do let sz ← a.toNat?; let v ← b.toNat?; pure ⟨v, sz⟩
    | _ => none
  | _ => none

/-- what `Bits(v)` makes of an operand token -/
def parseOperand? (s : String) : Option (Except Err Bits) :=
  match s.toList with
  | 'b' :: _ => (parseBits? s).map .ok
  | 'i' :: cs => ((String.ofList cs).toInt?).map fun v => .ok (Bits.ofInt v none)
  | 'l' :: _ => (parseNatList? s).map fun l => .ok (Bits.ofList l)
  | 'x' :: _ => (parseBytes? s).map fun bs => Bits.ofBytes bs
  | _ => none

def fmtBitsList (l : List Bits) : String := ";".intercalate (l.map fmtBits)

def binop (op : String) (a o : Bits) : Option String :=
  match op with
  | "add" => some (fmtBits (a.add o))
  | "sub" => some (fmtBits (a.sub o))
  | "and" => some (fmtBits (a.and o))
  | "or" => some (fmtBits (a.or o))
  | "xor" => some (fmtBits (a.xor o))
  | "mul" => some (fmtBits (a.mul o.ival))
  | "concat" => some (fmtBits (a.concat o))
  | "hd" => some (fmtE toString (a.hd o))
  | "eq" => some (fmtBool (a.ival == o.ival))
  | _ => none

/-- one step of a mutating sequence, parsed into the model's `MutOp` (`none` = unparsable, `some (error)` = the
    right-hand value could not be converted by `Bits(v)`) -/
def parseMut? (toks : List String) : Option (Except Err Bits.MutOp) :=
  match toks with
  | ["setint", i, v] => do
      let i ← parseInt? i
      -- the right-hand value is an int or a bit vector compared by value (`v in (0,1)`, `v==0`, `v==1` in the code)
      let v ← (match v.toList with
        | 'b' :: _ => (parseBits? v).map (·.ival)
        | _ => parseNat? v)
      pure (.ok (.setInt i v))
  | ["setslice", s, e, st, v] => do
      let s ← parseOptInt? s; let e ← parseOptInt? e; let st ← parseOptInt? st
      let v ← parseOperand? v
      pure (v.map fun v => .setSlice s e st v)
  | ["setlist", l, v] => do
      let l ← parseIntList? l; let v ← parseOperand? v
      pure (v.map fun v => .setList l v)
  | ["size", n] => do let n ← parseNat? n; pure (.ok (.setSize n))
  | ["zext", n] => do let n ← parseNat? n; pure (.ok (.zeroextend n))
  | ["sext", n] => do let n ← parseNat? n; pure (.ok (.signextend n))
  | _ => none

def mutStep (b : Bits) (toks : List String) : Option (Except Err Bits) :=
  (parseMut? toks).map fun op => op >>= b.applyOp

def runSeq (b : Bits) : List (List String) → List String → Option (List String)
  | [], acc => some acc.reverse
  | st :: rest, acc =>
    -- the token `self` denotes the target vector itself as right-hand side (`b[::-1] = b`): Bits(v) copies it first
    match mutStep b (st.map fun t => if t = "self" then "b" ++ fmtBits b else t) with
    | none => none
    | some (.error _) => some ("ERR" :: acc).reverse
    | some (.ok b') => runSeq b' rest (fmtBits b' :: acc)

def splitBar (toks : List String) : List (List String) :=
  let rec go : List String → List String → List (List String) → List (List String)
    | [], cur, acc => (cur.reverse :: acc).reverse
    | "|" :: ts, cur, acc => go ts [] (cur.reverse :: acc)
    | t :: ts, cur, acc => go ts (t :: cur) acc
  go toks [] []

def model (op : String) (args : List String) : Option String :=
  match op, args with
  | "bits.revbyte", [n] => do let n ← parseNat? n; pure (toString (Bits.reverseByte n))
  | "bits.ofint", [v, sz] => do
      let v ← parseInt? v; let sz ← parseOptNat? sz; pure (fmtBits (Bits.ofInt v sz))
  | "bits.oflist", [l, sz] => do
      let l ← parseNatList? l; let sz ← parseOptNat? sz; pure (fmtBits (Bits.ofList l sz))
  | "bits.ofbytes", [x, sz, bo] => do
      let x ← parseBytes? x; let sz ← parseOptNat? sz; let bo ← parseInt? bo
      pure (fmtE fmtBits (Bits.ofBytes x sz bo))
  | "bits.reload", [_b, x, bo] => do
      -- `b.load(s,bitorder)` on an EXISTING vector: what it held before must not matter
      let x ← parseBytes? x; let bo ← parseInt? bo
      pure (fmtE fmtBits (Bits.ofBytes x none bo))
  | "bits.ofbits", [b, sz] => do
      let b ← parseBits? b; let sz ← parseOptNat? sz
      pure (fmtBits (match sz with | none => b | some n => b.setSize n))
  | "bits.bit", [b, i] => do let b ← parseBits? b; let i ← parseInt? i; pure (fmtE toString (b.bit i))
  | "bits.int", [b, s] => do let b ← parseBits? b; let s ← parseInt? s; pure (fmtE toString (b.toInt s))
  | "bits.str", [b] => do let b ← parseBits? b; pure ("s" ++ b.toStr)
  | "bits.dots", [b] => do let b ← parseBits? b; pure ("s" ++ b.todots.replace " " "_")
  | "bits.bytes", [b] => do let b ← parseBits? b; pure (fmtBytes b.toBytes)
  | "bits.hex", [b] => do let b ← parseBits? b; pure (fmtBytes b.toBytes)
  | "bits.bitlist", [b, d] => do let b ← parseBits? b; let d ← parseInt? d; pure (fmtNatList (b.bitlist d))
  | "bits.iter", [b] => do let b ← parseBits? b; pure (fmtNatList b.toBitList)
  | "bits.pack", [b, be] => do let b ← parseBits? b; let be ← parseBool? be; pure (fmtBytes (b.pack be))
  | "bits.unpack", [x, be] => do
      let x ← parseBytes? x; let be ← parseBool? be
      let (v, sz) := Bits.unpack x be; pure s!"{sz}:{v}"
  | "bits.rt.bytes", [b] => do
      let b ← parseBits? b; pure (fmtE fmtBits (Bits.ofBytes b.toBytes (some b.size) (-1)))
  | "bits.rt.pack", [b, be] => do
      let b ← parseBits? b; let be ← parseBool? be
      let (v, sz) := Bits.unpack (b.pack be) be; pure (fmtBits (Bits.ofNatSz v sz))
  | "bits.rt.bitlist", [b] => do let b ← parseBits? b; pure (fmtBits (Bits.ofList (b.bitlist 1)))
  | "bits.rt.str", [b] => do
      let b ← parseBits? b; pure (fmtBits (Bits.ofList (b.toStr.toList.map fun c => if c = '1' then 1 else 0)))
  | "bits.len", [b] => do let b ← parseBits? b; pure (toString b.size)
  -- C08
  | "bits.binop", [op, a, o] => do
      let a ← parseBits? a; let o ← parseOperand? o
      match o with
      | .error _ => pure "ERR"
      | .ok o => binop op a o
  | "bits.rbinop", [op, i, a] => do
      -- int on the left: __radd__ etc. delegate to self op int; __rsub__ is Bits(lvalue)-self
      let i ← parseInt? i; let a ← parseBits? a
      let i := i.natAbs   -- `Bits(lvalue)` takes abs() first
      match op with
      | "sub" => pure (fmtBits (a.rsub i))
      | "add" | "and" | "or" | "xor" => binop op a (Bits.ofNat i)
      | _ => none
  | "bits.unop", [op, a] => do
      let a ← parseBits? a
      match op with
      | "neg" => pure (fmtBits a.neg)
      | "inv" => pure (fmtBits a.inv)
      | "hw" => pure (toString a.hw)
      | _ => none
  | "bits.shl", [a, n] => do let a ← parseBits? a; let n ← parseNat? n; pure (fmtBits (a.shl n))
  | "bits.shr", [a, n] => do let a ← parseBits? a; let n ← parseNat? n; pure (fmtBits (a.shr n))
  | "bits.rol", [a, n] => do let a ← parseBits? a; let n ← parseNat? n; pure (fmtE fmtBits (a.rol n))
  | "bits.ror", [a, n] => do let a ← parseBits? a; let n ← parseNat? n; pure (fmtE fmtBits (a.ror n))
  | "bits.split", [a, k, be] => do
      let a ← parseBits? a; let k ← parseNat? k; let be ← parseBool? be
      pure (fmtE fmtBitsList (a.split k be))
  | "bits.concatlist", [l, be] => do
      let bs ← (l.splitOn ";").mapM parseBits?; let be ← parseBool? be
      pure (fmtE fmtBits (Bits.concatList bs be))
  | "bits.getint", [a, i] => do let a ← parseBits? a; let i ← parseInt? i; pure (fmtE fmtBits (a.getInt i))
  | "bits.getslice", [a, s, e, st] => do
      let a ← parseBits? a; let s ← parseOptInt? s; let e ← parseOptInt? e; let st ← parseOptInt? st
      pure (fmtE fmtBits (a.getSlice s e st))
  | "bits.getlist", [a, l] => do let a ← parseBits? a; let l ← parseIntList? l; pure (fmtE fmtBits (a.getList l))
  | "bits.zext", [a, n] => do let a ← parseBits? a; let n ← parseNat? n; pure (fmtBits (a.zeroextend n))
  | "bits.sext", [a, n] => do let a ← parseBits? a; let n ← parseNat? n; pure (fmtE fmtBits (a.signextend n))
  | "bits.seq", a :: "|" :: rest => do
      let a ← parseBits? a
      let r ← runSeq a (splitBar rest) []
      pure (";".intercalate r)
  -- C08 algebraic laws evaluated on the model (the plugin evaluates the same expression on the real code)
  | "bits.law.addneg", [a] => do let a ← parseBits? a; pure (fmtBits (a.add a.neg))
  | "bits.law.rolror", [a, k] => do
      let a ← parseBits? a; let k ← parseNat? k; pure (fmtE fmtBits (a.ror k >>= fun r => r.rol k))
  | "bits.law.rorrol", [a, k] => do
      let a ← parseBits? a; let k ← parseNat? k; pure (fmtE fmtBits (a.rol k >>= fun r => r.ror k))
  | "bits.law.splitconcat", [a, k, be] => do
      let a ← parseBits? a; let k ← parseNat? k; let be ← parseBool? be
      pure (fmtE fmtBits (a.split k be >>= fun l => Bits.concatList l be))
  | "bits.law.concatsplit", [a, o] => do
      let a ← parseBits? a; let o ← parseBits? o
      pure (fmtE fmtBitsList ((a.concat o).split a.size))
  | "bits.law.concatslices", [a, o] => do
      let a ← parseBits? a; let o ← parseBits? o
      let c := a.concat o
      pure (fmtE fmtBitsList (do
        let x ← c.getSlice none (some a.size) none
        let y ← c.getSlice (some a.size) none none
        pure [x, y]))
  -- Model.Py builtins compared with CPython directly
  | "py.indices", [s, e, st, n] => do
      let s ← parseOptInt? s; let e ← parseOptInt? e; let st ← parseOptInt? st; let n ← parseNat? n
      pure (fmtE (fun (t : Int × Int × Int) => s!"{t.1},{t.2.1},{t.2.2}") (Py.sliceIndices s e st n))
  | "py.range", [a, b, c] => do
      let a ← parseInt? a; let b ← parseInt? b; let c ← parseInt? c
      if c = 0 then pure "ERR" else pure (fmtIntList (Py.range a b c))
  | "py.bitlength", [n] => do let n ← parseNat? n; pure (toString (Py.bitLength n))
  | _, _ => none

def handle : Handler := fun op args => (model op args).map fun m => (m, "-")

end Driver.BitsD
