/-
  Driver.CrcD — line-protocol handlers for Model.Crc / Spec.Crc (C15).
    crc.crc32 x<data>
    crc.crc <P.ival> <P.size> <Xinit> <Xfinal|None> x<data>     table = crc_table(Bits(P.ival,P.size))
    crc.table <P.ival> <P.size>                                   all 256 entries `size:ival;…`
    crc.backtable <P.ival> <P.size>
    crc.backpos <P.ival> <P.size> x<data> <pos> <Xfinal> <c>     table = crc_back_table(P)
    crc.back32 x<data> <pos> <c>
    crc.fix x<data> <target>          crc.fixpos x<data> <pos> <target>
    crc.tab32 <n>                     TABLE32_1[n], TABLE32_1b[n], POLY32_1, POLY32_1i of the live module
-/
import Driver.Wire
import Model.Crc
import Spec.Crc
namespace Driver.CrcD
open Model Driver

def fmtBitsL (l : List Bits) : String := ";".intercalate (l.map fmtBits)
def fmtOptNat : Option Nat → String
  | none => "none"
  | some v => toString v

def mkP (v w : Nat) : Bits := Bits.ofNatSz v w

def handle : Handler := fun op args =>
  match op, args with
  | "crc.crc32", [x] => do
      let x ← parseBytes? x
      pure (fmtE toString (Crc.crc32 x), toString (Spec.Crc.crc32 x))
  | "crc.crc", [pv, pw, xi, xf, x] => do
      let pv ← parseNat? pv; let pw ← parseNat? pw; let xi ← parseInt? xi; let xf ← parseOptInt? xf
      let x ← parseBytes? x
      let P := mkP pv pw
      let m := fmtE toString (Crc.crc x (Crc.crcTable P) xi xf)
      let s := if pw ≥ 8 ∧ xi ≥ 0 ∧ (xf.getD 0) ≥ 0 then toString (Spec.Crc.crc P.ival pw xi.toNat (xf.getD 0).toNat x) else "-"
      pure (m, s)
  | "crc.table", [pv, pw] => do
      let pv ← parseNat? pv; let pw ← parseNat? pw
      let P := mkP pv pw
      let s := if pw ≥ 8 then fmtBitsL ((List.range 256).map fun n => ⟨Spec.Crc.register P.ival n [0], pw⟩) else "-"
      pure (fmtBitsL (Crc.crcTable P), s)
  | "crc.backtable", [pv, pw] => do
      let pv ← parseNat? pv; let pw ← parseNat? pw
      pure (fmtE fmtBitsL (Crc.crcBackTable (mkP pv pw)), "-")
  | "crc.backpos", [pv, pw, x, pos, xf, c] => do
      let pv ← parseNat? pv; let pw ← parseNat? pw; let x ← parseBytes? x
      let pos ← parseInt? pos; let xf ← parseInt? xf; let c ← parseInt? c
      let r : Except Err (Option Nat) := do
        let t ← Crc.crcBackTable (mkP pv pw)
        Crc.crcBackPos x pos t xf c
      pure (fmtE fmtOptNat r, "-")
  | "crc.back32", [x, pos, c] => do
      let x ← parseBytes? x; let pos ← parseInt? pos; let c ← parseInt? c
      pure (fmtE fmtOptNat (Crc.crc32BackPos x pos c), "-")
  | "crc.fix", [x, t] => do
      let x ← parseBytes? x; let t ← parseNat? t
      pure (fmtE fmtBytes (Crc.crc32Fix x t), "-")
  | "crc.fixpos", [x, pos, t] => do
      let x ← parseBytes? x; let pos ← parseNat? pos; let t ← parseNat? t
      pure (fmtE fmtBytes (Crc.crc32FixPos x pos t), "-")
  | "crc.tab32", [n] => do
      let n ← parseNat? n
      let f := fun (t : List Bits) => fmtE fmtBits (Crc.lookup t n)
      pure (s!"{f Crc.TABLE32_1} {f Crc.TABLE32_1b} {fmtBits Crc.POLY32_1} {fmtBits Crc.POLY32_1i}", "-")
  | _, _ => none

end Driver.CrcD
