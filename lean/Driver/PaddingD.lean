/-
  Driver.PaddingD — line-protocol handlers for Model.Padding / Spec.Padding (C09).

    pad.iter   <scheme> <B> [w|h] | <step> | …     history of steps on one object (Model.Padder.runSteps); a step is
          x<msg> <bitlen|None> <T|F>   an iterblocks call:  `x<block>:<bitcnt>,<padcnt>,<padflag>;…=<final state>`
                                       (`!` before `=` when the call raised)
          reset  |  new                obj.reset() / obj.new:  `R=<state>`
          remove [x<bytes>]            obj.remove(c), c defaulting to the concatenation of the blocks emitted since the
                                       last reset:  `Mx<bytes>=<state>` or `M!=<state>` when it raised
        results joined by `|`; `ERR` when the constructor refuses
    pad.cat    <scheme> <B> [w|h] x<msg> <bitlen|None>      concatenation of one padded call    spec: Spec pad
    pad.rt     <scheme> <B> [w|h] x<msg> <bitlen|None>      remove(concat) on the same object   spec: the message
    pad.remove <scheme> <B> [w|h] x<bytes>                  remove on a fresh object            spec: PKCS#7/X9.23 unpad
-/
import Driver.Wire
import Model.Padding
import Spec.Padding
namespace Driver.PaddingD
open Model Driver

def splitBar (toks : List String) : List (List String) :=
  let rec go : List String → List String → List (List String) → List (List String)
    | [], cur, acc => (cur.reverse :: acc).reverse
    | "|" :: ts, cur, acc => go ts [] (cur.reverse :: acc)
    | t :: ts, cur, acc => go ts (t :: cur) acc
  go toks [] []

/-- scheme name + parameter -> (model constructor result, spec scheme, spec block size) -/
def parseScheme? (name : String) (B : Nat) (w : Nat) : Option (Except Err Padder × Spec.Padding.Scheme) :=
  match name with
  | "no" => some (Padder.mk? .no B, .no)
  | "null" => some (Padder.mk? .null B, .zero)
  | "bit" => some (Padder.mk? .bit B, .bit)
  | "pkcs7" => some (Padder.mk? .pkcs7 B, .pkcs7)
  | "x923" => some (Padder.mk? .x923 B, .x923)
  | "md" => some (Padder.mk? (.md w) B, .md w)
  | "sha" => some (Padder.mk? (.sha w) B, .sha w)
  | "blake" => some (.ok (Padder.blakeP w), .blake w)
  | _ => none

def parseHeader? (toks : List String) : Option (Except Err Padder × Spec.Padding.Scheme × Nat) :=
  match toks with
  | [s, b] => do
      let b ← parseNat? b
      let (p, sp) ← parseScheme? s b 0
      pure (p, sp, b)
  | [s, b, w] => do
      let b ← parseNat? b; let w ← parseNat? w
      let (p, sp) ← parseScheme? s b w
      pure (p, sp, b)
  | _ => none

def fmtState (st : PadState) : String := s!"{st.bitcnt},{st.padcnt},{fmtBool st.padflag}"

def fmtIter (r : IterResult) : String :=
  ";".intercalate (r.yields.map fun (b, st) => fmtBytes b ++ ":" ++ fmtState st)
    ++ (if r.err.isSome then "!" else "") ++ "=" ++ fmtState r.final

def parseSteps? : List (List String) → Option (List PadStep)
  | [] => some []
  | c :: rest => do
    let st ← (match c with
      | [m, l, f] => do
          let m ← parseBytes? m; let l ← parseOptNat? l; let f ← parseBool? f
          pure (PadStep.call m l f)
      | ["reset"] | ["new"] => some .reset
      | ["remove"] => some (.remove none)
      | ["remove", c] => do let c ← parseBytes? c; pure (.remove (some c))
      | _ => none)
    let rest ← parseSteps? rest
    pure (st :: rest)

def fmtStep : PadStepResult → String
  | .iter r => fmtIter r
  | .state st => "R=" ++ fmtState st
  | .removed (.ok b) st => "M" ++ fmtBytes b ++ "=" ++ fmtState st
  | .removed (.error _) st => "M!=" ++ fmtState st

/-- is the bit length meaningful for the scheme (byte-granular schemes ignore or misuse it: no spec then) -/
def bitGranular : Spec.Padding.Scheme → Bool
  | .no | .pkcs7 | .x923 => false
  | _ => true

def specDefined (sp : Spec.Padding.Scheme) (B : Nat) (l : Option Nat) : Bool :=
  B % 8 == 0 && B > 0 && (bitGranular sp || l.isNone) &&
    (match sp with | .pkcs7 | .x923 => decide (B / 8 < 256) | _ => true)

def model (op : String) (args : List String) : Option (String × String) :=
  match op with
  | "pad.iter" =>
    match splitBar args with
    | hd :: calls => do
        let (p, _, _) ← parseHeader? hd
        match p with
        | .error _ => pure ("ERR", "-")
        | .ok p => do
            let steps ← parseSteps? calls
            pure ("|".intercalate ((p.runSteps {} [] steps).map fmtStep), "-")
    | [] => none
  | "pad.cat" | "pad.rt" =>
    match args.reverse with
    | l :: m :: hdr => do
        let (p, sp, B) ← parseHeader? hdr.reverse
        let m ← parseBytes? m; let l ← parseOptNat? l
        let B := sp.blockBits B
        let L := l.getD (8 * m.length)
        let spec : String :=
          if !specDefined sp B l then "-"
          else if L > 8 * m.length then "ERR"
          else if op = "pad.cat" then fmtBytes (Spec.Padding.padBytes sp B m L)
          else fmtBytes (Spec.Padding.msgBytes m L)
        match p with
        | .error _ => pure ("ERR", "-")
        | .ok p =>
          let r := p.iterblocks {} m l true
          if r.err.isSome then pure ("ERR", spec) else
          let c := (r.yields.map (·.1)).flatten
          if op = "pad.cat" then pure (fmtBytes c, spec)
          else pure (fmtE fmtBytes (p.remove r.final c), spec)
    | _ => none
  | "pad.remove" =>
    match args.reverse with
    | c :: hdr => do
        let (p, sp, B) ← parseHeader? hdr.reverse
        let c ← parseBytes? c
        let spec : String :=
          if B % 8 ≠ 0 ∨ B = 0 ∨ B / 8 ≥ 256 then "-" else
          match sp with
          | .pkcs7 => (match Spec.Padding.pkcs7Unpad (B / 8) c with | some r => fmtBytes r | none => "ERR")
          | .x923 => (match Spec.Padding.x923Unpad (B / 8) c with | some r => fmtBytes r | none => "ERR")
          | _ => "-"
        match p with
        | .error _ => pure ("ERR", "-")
        | .ok p => pure (fmtE fmtBytes (p.remove {} c), spec)
    | _ => none
  | _ => none

def handle : Handler := fun op args => model op args

end Driver.PaddingD
