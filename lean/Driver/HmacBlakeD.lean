/-
  Driver.HmacBlakeD — line-protocol handlers for HMAC over the BLAKE objects (C13, BLAKE part).

  bhmac <n> <key hex> <msg hex>                  HMAC(Blake(n),key)(msg)          (Model.Hmac over Model.Blake, RFC 2104 over Spec.Blake)
  bhmac.s <n> <key hex> <msg hex>                the same over the module singleton blake<n>
  bhmacseq <n> <msg hex> <key1 hex> <key2 hex> … one HMAC object: setkey(k_i) then call(msg), for each key
-/
import Driver.Wire
import Model.Blake
import Model.Hmac
import Spec.Blake
import Spec.Hmac
namespace Driver.HmacBlakeD
open Model Driver

/-- `self.h(x)` for `h = Blake(n)`: salt and bit length at their defaults -/
def modelFn (c : Blake.Cfg) : Hmac.HashFn := fun m => Blake.call c m 0 none

/-- BLAKE-n of a byte string, zero salt (the submission) -/
def specFn (V : Spec.Blake.Variant) : List Nat → List Nat := fun m => Spec.Blake.hash V m (8 * m.length) 0

def modelSeq (h : Hmac.HashFn) (m : List Nat) : Hmac → List (List Nat) → List String → List String
  | _, [], acc => acc.reverse
  | o, k :: ks, acc =>
    match o.setkey h k with
    | .error _ => modelSeq h m o ks ("ERR" :: acc)
    | .ok o' => modelSeq h m o' ks (fmtE fmtBytes (o'.call h m) :: acc)

def singleton? (n : Nat) : Option Blake.Cfg :=
  if n = 224 then some Blake.blake224 else if n = 256 then some Blake.blake256
  else if n = 384 then some Blake.blake384 else if n = 512 then some Blake.blake512 else none

def specHmac (n : Nat) (k m : List Nat) : String :=
  match Spec.Blake.variant? n with
  | none => "ERR"
  | some V => fmtBytes (Spec.rfc2104 (specFn V) (V.block / 8) k m)

def handle : Handler := fun op args =>
  match op, args with
  | "bhmac", [n, k, m] => do
      let n ← parseNat? n; let k ← parseBytes? k; let m ← parseBytes? m
      let model := match Blake.mk? n with
        | .error _ => "ERR"
        | .ok c => fmtE fmtBytes (Hmac.hmac (modelFn c) c.blocksize k m)
      pure (model, specHmac n k m)
  | "bhmac.s", [n, k, m] => do
      let n ← parseNat? n; let k ← parseBytes? k; let m ← parseBytes? m
      let c ← singleton? n
      pure (fmtE fmtBytes (Hmac.hmac (modelFn c) c.blocksize k m), specHmac n k m)
  | "bhmacseq", n :: m :: keys => do
      let n ← parseNat? n; let m ← parseBytes? m; let keys ← keys.mapM parseBytes?
      let model := match Blake.mk? n with
        | .error _ => "ERR"
        | .ok c => ";".intercalate (modelSeq (modelFn c) m { blocksize := c.blocksize } keys [])
      let spec := match Spec.Blake.variant? n with
        | none => "ERR"
        | some V => ";".intercalate (keys.map fun k => fmtBytes (Spec.rfc2104 (specFn V) (V.block / 8) k m))
      pure (model, spec)
  | _, _ => none

end Driver.HmacBlakeD
