/-
  Driver.HmacBlakeD — line-protocol handlers for HMAC over the BLAKE objects (C13, BLAKE part).

  bhmac <n> <key hex> <msg hex>                  HMAC(Blake(n),key)(msg)          (Model.Hmac over Model.Blake, RFC 2104 over Spec.Blake)
  bhmac.s <n> <key hex> <msg hex>                the same over the module singleton blake<n>
  bhmacseq <n> <msg hex> <key1 hex> <key2 hex> … one HMAC object: setkey(k_i) then call(msg), for each key
  bhmach <n|@n> | <step> | <step> …              ONE Blake(n) object (or the module singleton) with a HISTORY, handed to HMAC:
                                                 steps of `blakeseqs` on it (new | init [salt=<n>] | upd <hex> [L] | fin <hex> [L] |
                                                 call <hex> [s=<n>] [bitlen=<L>]) and
                                                   mac <key hex> <msg hex>     o = HMAC(h,key); o(msg)
                                                   again <msg hex>             o(msg) on the HMAC object of the last `mac`
                                                 printed per step as in `blakeseqs`; the MAC for mac / again.
                                                 model = Model.HmacObj over the Blake object threaded through the line;
                                                 spec = RFC 2104 over Spec.Blake with zero salt for mac / again (the standard knows
                                                 nothing of the object's earlier life), the `blakeseqs` spec for the other steps
-/
import Driver.Wire
import Driver.BlakeD
import Model.HmacObj
import Model.Blake
import Model.Hmac
import Spec.Blake
import Spec.Hmac
namespace Driver.HmacBlakeD
open Model Driver

/-- `self.h(x)` for `h = Blake(n)`: salt and bit length at their defaults -/
def modelFn (c : Blake.Cfg) : Hmac.HashFn := fun m => Blake.call c m 0 none

/-- BLAKE-n of a byte string, zero salt (the submission) -/
def specFn (V : Spec.Blake.Variant) : List Nat → List Nat := fun m => Spec.Blake.hash V m (8 * m.length) 0

def modelSeq (h : Hmac.HashFn) (m : List Nat) : Hmac → List (List Nat) → List String → List String
  | _, [], acc => acc.reverse
  | o, k :: ks, acc =>
    match o.setkey h k with
    | .error _ => modelSeq h m o ks ("ERR" :: acc)
    | .ok o' => modelSeq h m o' ks (fmtE fmtBytes (o'.call h m) :: acc)

def singleton? (n : Nat) : Option Blake.Cfg :=
  if n = 224 then some Blake.blake224 else if n = 256 then some Blake.blake256
  else if n = 384 then some Blake.blake384 else if n = 512 then some Blake.blake512 else none

def specHmac (n : Nat) (k m : List Nat) : String :=
  match Spec.Blake.variant? n with
  | none => "ERR"
  | some V => fmtBytes (Spec.rfc2104 (specFn V) (V.block / 8) k m)

/-! ### `bhmach`: the hash object has a history -/

inductive HStep
  | hash (op : BlakeD.BOp)
  | mac (k m : List Nat)
  | again (m : List Nat)

def parseHStep? : List String → Option HStep
  | ["mac", k, m] => do let k ← parseBytes? k; let m ← parseBytes? m; pure (.mac k m)
  | ["again", m] => do let m ← parseBytes? m; pure (.again m)
  | toks => (BlakeD.parseBOp? toks).map .hash

/-- `self.h(x)` on the Blake object of the line: `initstate(salt=0)` + `update(x,padding=True)`, whatever slot it finds -/
def hashS (c : Blake.Cfg) : HmacObj.HashS BlakeD.Slot := fun _ x =>
  let (s', r) := Blake.update c (Blake.initstate c 0) x none true
  (.s1 s', r)

def histModel (cls : BlakeD.Cls) (c : Blake.Cfg) : BlakeD.Slot → Option Hmac → List HStep → List String → List String
  | _, _, [], acc => acc.reverse
  | o, hm, .hash op :: rest, acc =>
    let (o', r) := BlakeD.stepSlot [cls] 0 o op
    histModel cls c o' hm rest (r :: acc)
  | o, hm, .mac k m :: rest, acc =>
    match HmacObj.hmac (hashS c) c.blocksize o k m with
    | (o', some hm', r) => histModel cls c o' (some hm') rest (fmtE fmtBytes r :: acc)
    | (o', none, r) => histModel cls c o' hm rest (fmtE fmtBytes r :: acc)
  | o, hm, .again m :: rest, acc =>
    match hm with
    | none => histModel cls c o hm rest ("ERR" :: acc)
    | some h =>
      let (o', r) := HmacObj.call h (hashS c) o m
      histModel cls c o' hm rest (fmtE fmtBytes r :: acc)

def histSpec (cls : BlakeD.Cls) (n : Nat) : BlakeD.SSlot → Option (List Nat) → List HStep → List (Option String) → List (Option String)
  | _, _, [], acc => acc.reverse
  | o, key, .hash op :: rest, acc =>
    let (o', r) := BlakeD.specSlot [cls] 0 o op
    histSpec cls n o' key rest (r :: acc)
  | _, _, .mac k m :: rest, acc => histSpec cls n .dead (some k) rest (some (specHmac n k m) :: acc)
  | _, key, .again m :: rest, acc =>
    histSpec cls n .dead key rest ((match key with | some k => some (specHmac n k m) | none => some "ERR") :: acc)

def histLine (cs : String) (steps : List HStep) : Option (String × String) := do
  let cls ← BlakeD.parseCls? cs
  match cls with
  | .b1 n c =>
    let model := ";".intercalate (histModel cls c .none none steps [])
    let sp := histSpec cls n .dead none steps []
    pure (model, if sp.any Option.isNone then "-" else ";".intercalate (sp.map (·.getD "-")))
  | _ => none

def handle : Handler := fun op args =>
  match op, args with
  | "bhmach", cs :: "|" :: rest => do
      let steps ← (BlakeD.splitBar rest).mapM parseHStep?
      histLine cs steps
  | "bhmac", [n, k, m] => do
      let n ← parseNat? n; let k ← parseBytes? k; let m ← parseBytes? m
      let model := match Blake.mk? n with
        | .error _ => "ERR"
        | .ok c => fmtE fmtBytes (Hmac.hmac (modelFn c) c.blocksize k m)
      pure (model, specHmac n k m)
  | "bhmac.s", [n, k, m] => do
      let n ← parseNat? n; let k ← parseBytes? k; let m ← parseBytes? m
      let c ← singleton? n
      pure (fmtE fmtBytes (Hmac.hmac (modelFn c) c.blocksize k m), specHmac n k m)
  | "bhmacseq", n :: m :: keys => do
      let n ← parseNat? n; let m ← parseBytes? m; let keys ← keys.mapM parseBytes?
      let model := match Blake.mk? n with
        | .error _ => "ERR"
        | .ok c => ";".intercalate (modelSeq (modelFn c) m { blocksize := c.blocksize } keys [])
      let spec := match Spec.Blake.variant? n with
        | none => "ERR"
        | some V => ";".intercalate (keys.map fun k => fmtBytes (Spec.rfc2104 (specFn V) (V.block / 8) k m))
      pure (model, spec)
  | _, _ => none

end Driver.HmacBlakeD
