/-
  Driver.ModeSeqD — ONE object of ECB / CBC / CTS_ECB / CTS_CBC through a history of calls (C05).

    modeseq <ECB|CBC|CTS_ECB|CTS_CBC> <cipher> <blockbytes> <key> <iv or -> <padding> <step> <step> …
        cipher / key / iv / padding tokens as in `mode` lines (Driver.ModeD).  Steps (numbered from 1):
          e:x<msg>   obj.enc(msg)
          d:x<ct>    obj.dec(ct)
          d:#<k>     obj.dec(<what step k returned>)     (the empty string when step k raised or does not exist yet)
        -> the outputs of the steps joined by `;` (`ERR` alone when a constructor raises)
        model column: Model.Mode.Seq.Obj threaded through the steps (the state of `self.pad` is the object);
        spec column: SP 800-38A per step — every step as the standard defines it for the configuration and THAT step's
        argument (`#k` = what the standard gives for step k); `-` when a step is outside the standard's domain
-/
import Driver.ModeD
import Model.ModeObj
namespace Driver.ModeSeqD
open Model Driver Driver.ModeD

inductive Tok where
  | enc (m : List Nat)
  | dec (c : List Nat)
  | decRef (k : Nat)

def parseTok? (s : String) : Option Tok :=
  match s.splitOn ":" with
  | ["e", m] => (parseBytes? m).map .enc
  | ["d", x] =>
    match x.toList with
    | '#' :: ds => (String.ofList ds).toNat?.map .decRef
    | _ => (parseBytes? x).map .dec
  | _ => none

def kind? (mode : String) : Option Mode.Kind :=
  match mode with
  | "ECB" => some .ecb
  | "CBC" => some .cbc
  | "CTS_ECB" => some .ctsEcb
  | "CTS_CBC" => some .ctsCbc
  | _ => none

/-- what step k (1-based) returned, as the argument of a later `d:#k` -/
def refOf (outs : List (Except Err (List Nat))) (k : Nat) : List Nat :=
  if k = 0 then [] else
  match outs[k - 1]? with
  | some (.ok b) => b
  | _ => []

/-- the model column: the object threaded through the steps; `outs` = the results so far -/
def seqModel (cfg : Mode.Cfg) (c : BlockCipher) : Mode.Seq.Obj → List (Except Err (List Nat)) → List Tok → List (Except Err (List Nat))
  | _, outs, [] => outs
  | o, outs, t :: rest =>
    let s : Mode.Seq.Step := match t with
      | .enc m => .enc m
      | .dec x => .dec x
      | .decRef k => .dec (refOf outs k)
    let r := o.step cfg c s
    seqModel cfg c r.2 (outs ++ [r.1]) rest

/-- the spec column, step by step; none = outside the standard's domain -/
def seqSpec (mode : String) (k : Option Spec.Mode.Cipher) (iv : Option (List Nat)) (s : Scheme) :
    List String → List Tok → Option (List String)
  | outs, [] => some outs
  | outs, t :: rest =>
    let arg? : Option (String × List Nat) :=
      match t with
      | .enc m => some ("enc", m)
      | .dec x => some ("dec", x)
      | .decRef j => if j = 0 then none else (outs[j - 1]?.bind parseBytes?).map fun b => ("dec", b)
    match arg? with
    | none => none
    | some (verb, x) =>
      let r := specRun mode k iv s verb x
      if r == "-" then none else seqSpec mode k iv s (outs ++ [r]) rest

def handle : Handler := fun op args =>
  match op, args with
  | "modeseq", mode :: cid :: n :: key :: iv :: pad :: steps => do
      let n ← parseNat? n
      let keys ← (key.splitOn ",").mapM parseBytes?
      let iv ← parseIv? iv
      let s ← scheme? pad
      let kind ← kind? mode
      let toks ← steps.mapM parseTok?
      if toks.isEmpty then none
      let (c, k) ← instance? cid n keys
      -- the iv token must be there exactly for the chained modes (a fresh `mode` line has the same rule, see ops?)
      let cfg? : Option Mode.Cfg :=
        match kind, iv with
        | .ecb, none => some ⟨.ecb, [], s⟩
        | .ctsEcb, none => some ⟨.ctsEcb, [], s⟩
        | .cbc, some v => some ⟨.cbc, v, s⟩
        | .ctsCbc, some v => some ⟨.ctsCbc, v, s⟩
        | _, _ => none
      let cfg ← cfg?
      let sp := Task.spawn fun _ =>
        match seqSpec mode k iv s [] toks with
        | some outs => ";".intercalate outs
        | none => "-"
      let mr := match c with
        | .error _ => "ERR"
        | .ok c =>
          match Mode.Seq.Obj.new cfg c with
          | .error _ => "ERR"
          | .ok o => ";".intercalate ((seqModel cfg c o [] toks).map fmtR)
      pure (mr, sp.get)
  | _, _ => none

end Driver.ModeSeqD
