/-
  Driver.Wire — token parsing / canonical printing for the line protocol.
  Tokens: ints decimal (`-3`), `None`, bytes as `x<hex>` (`x` = empty), int lists as `l1,2,3` (`l` = empty),
  booleans `T`/`F`.  Results: `ERR` for any exception.
-/
import Model.Bits
namespace Driver
open Model

def parseNat? (s : String) : Option Nat := s.toNat?
def parseInt? (s : String) : Option Int := s.toInt?
def parseOptInt? (s : String) : Option (Option Int) :=
  if s = "None" then some none else (s.toInt?).map some
def parseOptNat? (s : String) : Option (Option Nat) :=
  if s = "None" then some none else (s.toNat?).map some
def parseBool? (s : String) : Option Bool :=
  if s = "T" then some true else if s = "F" then some false else none

def hexVal (c : Char) : Option Nat :=
  if '0' ≤ c ∧ c ≤ '9' then some (c.toNat - '0'.toNat)
  else if 'a' ≤ c ∧ c ≤ 'f' then some (c.toNat - 'a'.toNat + 10)
  else if 'A' ≤ c ∧ c ≤ 'F' then some (c.toNat - 'A'.toNat + 10)
  else none

def parseHexChars : List Char → Option (List Nat)
  | [] => some []
  | a :: b :: rest => do
      let h ← hexVal a; let l ← hexVal b; let r ← parseHexChars rest
      pure ((h * 16 + l) :: r)
  | _ => none

/-- `x<hex>` -/
def parseBytes? (s : String) : Option (List Nat) :=
  match s.toList with
  | 'x' :: cs => parseHexChars cs
  | _ => none

/-- `l1,2,-3` -/
def parseIntList? (s : String) : Option (List Int) :=
  match s.toList with
  | 'l' :: cs =>
    let body := String.ofList cs
    if body = "" then some [] else (body.splitOn ",").mapM (·.toInt?)
  | _ => none

def parseNatList? (s : String) : Option (List Nat) :=
  match s.toList with
  | 'l' :: cs =>
    let body := String.ofList cs
    if body = "" then some [] else (body.splitOn ",").mapM (·.toNat?)
  | _ => none

def hexDigit (n : Nat) : Char := if n < 10 then Char.ofNat (48 + n) else Char.ofNat (87 + n)
def fmtBytes (bs : List Nat) : String :=
  "x" ++ String.ofList (bs.flatMap fun b => [hexDigit ((b / 16) % 16), hexDigit (b % 16)])
def fmtNatList (l : List Nat) : String := "l" ++ ",".intercalate (l.map toString)
def fmtIntList (l : List Int) : String := "l" ++ ",".intercalate (l.map toString)
def fmtBits (b : Bits) : String := s!"{b.size}:{b.ival}"
def fmtBool (b : Bool) : String := if b then "T" else "F"

def fmtE {α} (f : α → String) : Except Err α → String
  | .ok a => f a
  | .error _ => "ERR"

/-- a handler maps (op, args) to `some (model result, spec result)`; `-` when there is no spec for the op -/
abbrev Handler := String → List String → Option (String × String)

end Driver
