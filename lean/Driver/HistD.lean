/-
  Driver.HistD — line-protocol handler for property C10 (histories over the object machines of Model.Objects).

    hist  <Kind> <cfg…> | <op> <args…> | … | PROBE <op> <args…>
    histp <Kind> <cfg…> | …                                         predicate-only lines: constant answer `same`
    histo <Kind> <cfg…> | … | PROBE <streaming op>                   observation lines: model column only (spec `-`)

  model column = result of the probe after running the history on ONE model object (`Machine.after`);
  spec column  = result of the probe on a fresh, equally configured model object (`Machine.fresh`: only the explicit
                 re-configuration steps of the history are applied to the configuration).
  An optional argument written `~` is omitted in the real call (the Python default applies).
  Steps prefixed `sib.` act on a sibling instance, `sing.` on a module-level singleton, `e1.`/`e2.` on the DES objects
  a TDEA owns (machines composed with `Machine.pair`); `h.` / `c.` act on the object an HMAC / a mode shares.

  Kinds: Hash <alg> | Keccak <b> <r> <len> <N|L> | SHA3 <n> | keccak_224..512 | MD6 <d> <key> <L> | Blake <n> | blake224..512
         Blake2 <n> | blake2b | blake2s | HMAC <alg> <key|-> | TLSH <buckets> <window> <chklen> | tlsh | Nilsimsa <target|None>
         AES <key> | DES <key> | TDEA <k1> <k2|-> <k3|-> | Serpent <key>
         ECB|CTS_ECB <cipher> <n> <key> <pad> | CBC|CTS_CBC <cipher> <n> <key> <iv> <pad> | CTR <cipher> <n> <key> <iv|->
         Salsa20 <key> <rounds> | Chacha <key> <rounds>
         Skein <Nb> <No> <key|-> <prs|-> <nonce|-> l<Yl>,<Yf>,<Ym> | Threefish <key> <tweak>
-/
import Driver.Wire
import Driver.HashD
import Driver.LshD
import Model.Objects
namespace Driver.HistD
open Model Model.Objects Driver

def fmtRes : Res → String
  | .ok (.bytes b) => fmtBytes b
  | .ok .none => "none"
  | .ok (.nat n) => toString n
  | .ok .obj => "obj"
  | .error _ => "ERR"

def splitBar (toks : List String) : List (List String) :=
  let rec go : List String → List String → List (List String) → List (List String)
    | [], cur, acc => (cur.reverse :: acc).reverse
    | "|" :: ts, cur, acc => go ts [] (cur.reverse :: acc)
    | t :: ts, cur, acc => go ts (t :: cur) acc
  go toks [] []

/-- `some (prefix-stripped op)` when the op token carries the prefix `pre` -/
def stripPre (pre : String) (toks : List String) : Option (List String) :=
  match toks with
  | t :: rest => if t.startsWith pre then some ((t.drop pre.length).toString :: rest) else none
  | [] => none

def answer (M : Machine) (c : M.Cfg) (parseOp : List String → Option M.Op) (steps : List (List String))
    (probe : List String) : Option (String × String) := do
  let ops ← steps.mapM parseOp
  let p ← parseOp probe
  pure (fmtRes (M.after c ops p), fmtRes (M.fresh c ops p))

/-- ops of the main object, or (with one of the prefixes) of the bystander -/
def parsePair {A B : Type} (pa : List String → Option A) (pb : List String → Option B) (pres : List String)
    (toks : List String) : Option (A ⊕ B) :=
  match pres.findSome? (fun pre => stripPre pre toks) with
  | some t => (pb t).map .inr
  | none => (pa toks).map .inl

/-- optional arguments: the token `~` means "argument omitted", i.e. the Python default (None / 0 / False) -/
def optNat? (s : String) : Option (Option Nat) := if s = "~" then some none else parseOptNat? s
def natD? (s : String) : Option Nat := if s = "~" then some 0 else parseNat? s
def boolD? (s : String) : Option Bool := if s = "~" then some false else parseBool? s

def parseOptBytes? (s : String) : Option (Option (List Nat)) :=
  if s = "-" then some none else (parseBytes? s).map some

/-! ### per-kind op parsers -/

def hashOp : List String → Option HashO.Op
  | ["call", m, bl] => do pure (.call (← parseBytes? m) (← optNat? bl))
  | ["update", m, bl, p] => do pure (.update (← parseBytes? m) (← optNat? bl) (← boolD? p))
  | ["initstate"] => some .initstate
  | _ => none

def keccakOp : List String → Option KeccakO.Op
  | ["call", m] => do pure (.sha3call (← parseBytes? m))
  | ["call", m, bl, r] => do pure (.call (← parseBytes? m) (← optNat? bl) (← optNat? r))
  | ["duplex", m, bl, ol] => do pure (.duplex (← parseBytes? m) (← optNat? bl) (← optNat? ol))
  | ["setrate", r] => do pure (.setrate (← parseNat? r))
  | _ => none

def md6Op : List String → Option Md6O.Op
  | ["call", m, bl] => do pure (.call (← parseBytes? m) (← optNat? bl))
  | _ => none

def blakeOp : List String → Option BlakeO.Op
  | ["call", m, s, bl] => do pure (.call (← parseBytes? m) (← natD? s) (← optNat? bl))
  | ["update", m, bl, p] => do pure (.update (← parseBytes? m) (← optNat? bl) (← boolD? p))
  | ["initstate", s] => do pure (.initstate (← natD? s))
  | _ => none

/-- `k=v,k=v` keyword list of a Blake2 call; returns the parameters and `keylen` -/
def b2params (tok : String) : Option (Blake2.Params × Nat) :=
  if tok = "-" then some ({}, 0) else
  (tok.splitOn ",").foldlM (fun (acc : Blake2.Params × Nat) kv =>
    match kv.splitOn "=" with
    | [k, v] =>
      let p := acc.1
      if k = "outlen" then (parseNat? v).map fun n => ({ p with outlen := some n }, acc.2)
      else if k = "salt" then (parseBytes? v).map fun b => ({ p with salt := b }, acc.2)
      else if k = "pers" then (parseBytes? v).map fun b => ({ p with pers := b }, acc.2)
      else if k = "fanout" then (parseNat? v).map fun n => ({ p with fanout := n }, acc.2)
      else if k = "depth" then (parseNat? v).map fun n => ({ p with depth := n }, acc.2)
      else if k = "leafl" then (parseNat? v).map fun n => ({ p with leafl := n }, acc.2)
      else if k = "noffset" then (parseNat? v).map fun n => ({ p with noffset := n }, acc.2)
      else if k = "ndepth" then (parseNat? v).map fun n => ({ p with ndepth := n }, acc.2)
      else if k = "inner" then (parseNat? v).map fun n => ({ p with inner := n }, acc.2)
      else if k = "keylen" then (parseNat? v).map fun n => (p, n)
      else none
    | _ => none) ({}, 0)

def blake2Op : List String → Option Blake2O.Op
  | ["call", m, kw] => do let pk ← b2params kw; pure (.call (← parseBytes? m) pk.1 pk.2)
  | ["update", m, p] => do pure (.update (← parseBytes? m) (← boolD? p))
  | ["initstate", kw] => do let pk ← b2params kw; pure (.initstate pk.1 pk.2)
  | _ => none

def sibKey : List Nat := "another key sharing the hash object".toUTF8.toList.map (·.toNat)

def hmacOp (core : HashCore) (bs : Nat) : List String → Option HmacO.Op
  | ["call", m] => do pure (.call (← parseBytes? m))
  | ["setkey", k] => if k = "None" then some (.setkey none) else do pure (.setkey (some (← parseBytes? k)))
  | ["h.call", m, bl] => do pure (.hcall (← parseBytes? m) (← optNat? bl))
  | ["h.update", m, bl, p] => do pure (.hupdate (← parseBytes? m) (← optNat? bl) (← boolD? p))
  | ["sib.call", m] => do
      let k ← (HmacO.keyOf core bs sibKey).toOption
      pure (.sibcall k (← parseBytes? m))
  | _ => none

def tlshOp : List String → Option TlshO.Op
  | ["call", d, f] => do pure (.call (← parseBytes? d) (← boolD? f))
  | ["update", d] => do pure (.update (← parseBytes? d))
  | ["final", d, f] => do pure (.final (← parseBytes? d) (← boolD? f))
  | ["digest"] => some .digest
  | ["from_hash", d] => do pure (.from_hash (← parseBytes? d))
  | ["reset"] => some .reset
  | _ => none

def nilsimsaOp : List String → Option NilsimsaO.Op
  | ["call", d] => do pure (.call (← parseBytes? d))
  | ["update", d] => do pure (.update (← parseBytes? d))
  | ["digest"] => some .digest
  | ["reset"] => some .reset
  | _ => none

def aesOp : List String → Option AesO.Op
  | ["enc", b] => do pure (.enc (← parseBytes? b))
  | ["dec", b] => do pure (.dec (← parseBytes? b))
  | ["keyschedule"] => some .keyschedule
  | _ => none

def pureOp : List String → Option PureCipher.Op
  | ["enc", b] => do pure (.enc (← parseBytes? b))
  | ["dec", b] => do pure (.dec (← parseBytes? b))
  | _ => none

def skeinOp : List String → Option SkeinO.Op
  | ["call", m, bl] => do pure (.call (← parseBytes? m) (← optNat? bl))
  | ["update", m] => do pure (.update (← parseBytes? m))
  | ["initstate"] => some .initstate
  | _ => none

def threefishOp : List String → Option ThreefishO.Op
  | ["enc", b] => do pure (.enc (← parseBytes? b))
  | ["dec", b] => do pure (.dec (← parseBytes? b))
  | _ => none

def modeOp : List String → Option ModeO.Op
  | ["enc", m] => do pure (.enc (← parseBytes? m))
  | ["dec", m] => do pure (.dec (← parseBytes? m))
  | ["c.enc", m] => do pure (.cenc (← parseBytes? m))
  | ["c.dec", m] => do pure (.cdec (← parseBytes? m))
  | ["sib.enc", m] => do pure (.sibenc (← parseBytes? m))
  | ["sib.dec", m] => do pure (.sibdec (← parseBytes? m))
  | _ => none

def leBits (b : List Nat) : Option Bits := (Bits.ofBytes b none 1).toOption

def streamOp : List String → Option StreamO.Op
  | ["enc", v, m] => do pure (.enc (← leBits (← parseBytes? v)) (← parseBytes? m))
  | ["dec", v, m] => do pure (.dec (← leBits (← parseBytes? v)) (← parseBytes? m))
  | ["keystream", v, n] => do pure (.keystream (← leBits (← parseBytes? v)) (← parseNat? n))
  | ["hash", m] => do pure (.hash (← parseBytes? m))
  | _ => none

/-! ### constructors -/

/-- the sibling key of tools/props/C10.py: `bytes(x ^ 0x5a for x in reversed(k))` -/
def otherKey (k : List Nat) : List Nat := k.reverse.map (· ^^^ 0x5a)

def mkKeccak (b r : Nat) (len : Option Nat) (lsb : Bool) : Option Keccak.Cfg :=
  match Keccak.mk b r len with
  | .ok c => some { c with duplexing := lsb }
  | .error _ => none

def keccakSingleton (name : String) : Option Keccak.Cfg :=
  if name = "keccak_224" then mkKeccak 1600 (1600 - 448) (some 224) false
  else if name = "keccak_256" then mkKeccak 1600 (1600 - 512) (some 256) false
  else if name = "keccak_384" then mkKeccak 1600 (1600 - 768) (some 384) false
  else if name = "keccak_512" then mkKeccak 1600 (1600 - 1024) (some 512) false
  else none

def desCipher (K : List Nat) : Option BlockCipher :=
  match Des.DES.new K with
  | .ok d => some ⟨8, d.enc, d.dec⟩
  | .error _ => none

def tdeaCipher (k1 : List Nat) (k2 k3 : Option (List Nat)) : Option BlockCipher :=
  match Des.TDEA.new k1 k2 k3 with
  | .ok t => some ⟨8, t.enc, t.dec⟩
  | .error _ => none

def serpentCipher (K : List Nat) : Option BlockCipher := do
  let kb ← leBits K
  let c ← (Serpent.init kb).toOption
  pure ⟨16,
    fun M => do let R ← Bits.ofBytes M none 1; let C ← Serpent.encBits c R; pure (Bits.pack C),
    fun C => do let R ← Bits.ofBytes C none 1; let M ← Serpent.decBits c R; pure (Bits.pack M)⟩

def cipherCfg (cid : String) (n : Nat) (key : List Nat) : Option ModeO.CipherCfg :=
  if cid = "AES" then (match Aes.init key with | .ok _ => some (.aes key) | .error _ => none)
  else if cid = "DES" then (desCipher key).map .pure
  else if cid = "TDEA" then (tdeaCipher key none none).map .pure
  else if cid = "Serpent" then (serpentCipher key).map .pure
  else if cid = "Threefish" then
    -- tools/props/C10.py builds the Threefish under a mode with the tweak bytes(range(16))
    (match Threefish.init key (List.range 16) with | .ok c => some (.pure ⟨c.K.size / 8, Threefish.enc c, Threefish.dec c⟩) | .error _ => none)
  else (Toy.cipher? cid n key).map .pure

def scheme? (pad : String) : Option Scheme :=
  if pad = "pkcs7" then some .pkcs7 else if pad = "X923" then some .x923 else if pad = "bitpadding" then some .bit
  else if pad = "nopadding" then some .no else if pad = "Nullpadding" then some .null else none

def streamCfg (chacha : Bool) (key : List Nat) (rounds : Int) : Option StreamO.Cfg := do
  let K ← leBits key
  let st ← ((if chacha then Chacha.init (some K) rounds else Salsa.init (some K) rounds)).toOption
  pure { chacha := chacha, K := st.K, dround := st.dround, p0 := st.p }

/-! ### the handler -/

def withSib (M : Machine) := Machine.pair M M

def hist (kind : String) (cfg : List String) (steps : List (List String)) (probe : List String) : Option (String × String) :=
  let sibPres := ["sib.", "sing.", "e1.", "e2."]
  match kind, cfg with
  | "Hash", [alg] => do
      let a ← HashD.parseAlg? alg
      let core ← a.1.new.toOption
      answer (withSib HashO.machine) (core, core) (parsePair hashOp hashOp sibPres) steps probe
  | "Keccak", [b, r, len, mode] => do
      let c ← mkKeccak (← parseNat? b) (← parseNat? r) (← parseOptNat? len) (mode == "L")
      let sing ← keccakSingleton "keccak_256"
      answer (Machine.pair (withSib KeccakO.machine) KeccakO.machine) ((c, c), sing)
        (parsePair (parsePair keccakOp keccakOp ["sib."]) keccakOp ["sing."]) steps probe
  | "SHA3", [n] => do
      let c ← (Sha3.sha3Cfg (← parseNat? n)).toOption
      let sing ← keccakSingleton "keccak_256"
      answer (Machine.pair (withSib KeccakO.machine) KeccakO.machine) ((c, c), sing)
        (parsePair (parsePair keccakOp keccakOp ["sib."]) keccakOp ["sing."]) steps probe
  | "MD6", [d, key, L] => do
      let o := Md6.new (← parseNat? d) (← parseBytes? key) (← parseNat? L)
      answer (withSib Md6O.machine) (o, o) (parsePair md6Op md6Op sibPres) steps probe
  | "Blake", [n] => do
      let c ← (Blake.mk? (← parseNat? n)).toOption
      answer (withSib BlakeO.machine) (c, c) (parsePair blakeOp blakeOp sibPres) steps probe
  | "Blake2", [n] => do
      let c ← (Blake2.mk? (← parseNat? n)).toOption
      answer (withSib Blake2O.machine) (c, c) (parsePair blake2Op blake2Op sibPres) steps probe
  | "blake2b", [] => answer (withSib Blake2O.machine) (Blake2.blake2b, Blake2.blake2b) (parsePair blake2Op blake2Op sibPres) steps probe
  | "blake2s", [] => answer (withSib Blake2O.machine) (Blake2.blake2s, Blake2.blake2s) (parsePair blake2Op blake2Op sibPres) steps probe
  | "HMAC", [alg, key] => do
      let a ← HashD.parseAlg? alg
      let core ← a.1.new.toOption
      let bs := 8 * a.1.blocklen
      let k ← parseOptBytes? key
      let c0 : HmacO.Cfg := { core := core, blocksize := bs, K := none }
      -- `HMAC(h,k)` is `HMAC(h)` followed by `setkey(k)` (which may already use the shared hash object)
      let steps := match key with
        | "-" => steps
        | _ => ["setkey", key] :: steps
      let _ := k
      answer HmacO.machine c0 (hmacOp core bs) steps probe
  | "TLSH", [b, w, c] => do
      let cfg : Tlsh.Cfg := ⟨← parseNat? b, ← parseNat? w, ← parseNat? c⟩
      if cfg.valid = false then some ("ERR", "ERR") else
      answer (withSib (TlshO.machine LshD.lcapF)) (cfg, cfg) (parsePair tlshOp tlshOp sibPres) steps probe
  | "tlsh", [] =>
      let cfg : Tlsh.Cfg := ⟨128, 5, 1⟩
      answer (withSib (TlshO.machine LshD.lcapF)) (cfg, cfg) (parsePair tlshOp tlshOp sibPres) steps probe
  | "Nilsimsa", [t] => do
      let t ← parseOptNat? t
      let tran := Nilsimsa.maketran (t.getD 53)
      answer (withSib NilsimsaO.machine) (tran, tran) (parsePair nilsimsaOp nilsimsaOp sibPres) steps probe
  | "AES", [key] => do
      let K ← parseBytes? key
      match Aes.init K with
      | .error _ => some ("ERR", "ERR")
      | .ok _ => answer (withSib AesO.machine) (K, otherKey K) (parsePair aesOp aesOp sibPres) steps probe
  | "DES", [key] => do
      let K ← parseBytes? key
      answer (withSib PureCipher.machine) (← desCipher K, ← desCipher (otherKey K)) (parsePair pureOp pureOp sibPres) steps probe
  | "TDEA", [k1, k2, k3] => do
      let k1 ← parseBytes? k1; let k2 ← parseOptBytes? k2; let k3 ← parseOptBytes? k3
      let t ← tdeaCipher k1 k2 k3
      answer (withSib PureCipher.machine) (t, ← desCipher (k1.take 8)) (parsePair pureOp pureOp sibPres) steps probe
  | "Serpent", [key] => do
      let K ← parseBytes? key
      answer (withSib PureCipher.machine) (← serpentCipher K, ← serpentCipher (otherKey K)) (parsePair pureOp pureOp sibPres) steps probe
  | "Skein", [nb, no, key, prs, non, y] => do
      let Y ← parseNatList? y
      match Y with
      | [yl, yf, ym] =>
        match Skein.mk (← parseNat? nb) (← parseNat? no) yl yf ym (← parseOptBytes? key) (← parseOptBytes? prs) none none
                (← parseOptBytes? non) with
        | .error _ => some ("ERR", "ERR")
        | .ok c => answer (withSib SkeinO.machine) (c, c) (parsePair skeinOp skeinOp sibPres) steps probe
      | _ => none
  | "Threefish", [key, tweak] => do
      let K ← parseBytes? key; let T ← parseBytes? tweak
      match Threefish.init K T, Threefish.init (otherKey K) T with
      | .ok c, .ok d => answer (withSib ThreefishO.machine) (c, d) (parsePair threefishOp threefishOp sibPres) steps probe
      | _, _ => some ("ERR", "ERR")
  | "Salsa20", [key, rounds] => do
      let K ← parseBytes? key; let r ← parseInt? rounds
      answer (withSib StreamO.machine) (← streamCfg false K r, ← streamCfg false (otherKey K) r) (parsePair streamOp streamOp sibPres) steps probe
  | "Chacha", [key, rounds] => do
      let K ← parseBytes? key; let r ← parseInt? rounds
      answer (withSib StreamO.machine) (← streamCfg true K r, ← streamCfg true (otherKey K) r) (parsePair streamOp streamOp sibPres) steps probe
  | _, _ =>
    if kind.startsWith "keccak_" ∧ cfg.isEmpty then do
      let c ← keccakSingleton kind
      let sib ← keccakSingleton "keccak_256"
      let sing ← keccakSingleton (if kind = "keccak_512" then "keccak_224" else "keccak_512")
      answer (Machine.pair (Machine.pair KeccakO.machine KeccakO.machine) KeccakO.machine) ((c, sib), sing)
        (parsePair (parsePair keccakOp keccakOp ["sib."]) keccakOp ["sing."]) steps probe
    else if kind.startsWith "blake" ∧ cfg.isEmpty then do
      let c ← (Blake.mk? (← parseNat? (kind.drop 5).toString)).toOption
      answer (withSib BlakeO.machine) (c, c) (parsePair blakeOp blakeOp sibPres) steps probe
    else
      -- the modes
      let mk (k : ModeO.Kind) (cid n key : String) (iv : Option (List Nat)) (pad : String) : Option (String × String) := do
        let cc ← cipherCfg cid (← parseNat? n) (← parseBytes? key)
        let c : ModeO.Cfg := { kind := k, cipher := cc, iv := iv, scheme := ← scheme? pad }
        answer ModeO.machine c modeOp steps probe
      match kind, cfg with
      | "ECB", [cid, n, key, pad] => mk .ecb cid n key none pad
      | "CTS_ECB", [cid, n, key, pad] => mk .cts_ecb cid n key none pad
      | "CBC", [cid, n, key, iv, pad] => do mk .cbc cid n key (some (← parseBytes? iv)) pad
      | "CTS_CBC", [cid, n, key, iv, pad] => do mk .cts_cbc cid n key (some (← parseBytes? iv)) pad
      | "CTR", [cid, n, key, iv] => do mk .ctr cid n key (← parseOptBytes? iv) "nopadding"
      | _, _ => none

def handle : Handler := fun op args =>
  match op, args with
  | "histp", _ => some ("same", "same")
  | "histo", kind :: rest =>
    -- observation lines: the last operation is not a one-shot call; model column only
    match (splitBar rest).reverse with
    | ("PROBE" :: probe) :: stepsRev =>
      match stepsRev.reverse with
      | cfg :: steps => (hist kind cfg steps probe).map fun r => (r.1, "-")
      | [] => none
    | _ => none
  | "hist", kind :: rest =>
    match (splitBar rest).reverse with
    | ("PROBE" :: probe) :: stepsRev =>
      match stepsRev.reverse with
      | cfg :: steps => hist kind cfg steps probe
      | [] => none
    | _ => none
  | _, _ => none

end Driver.HistD
