/-
  Driver.AesD — line-protocol handlers for crysp/aes.py (C02, C03): answers (model, spec).
    aes.enc x<key> x<block>          aes.dec x<key> x<block>          -> x<hex> | ERR
    aes.rt  x<key> x<block>          -> enc;dec(enc);dec;enc(dec);enc (round trips and the repeated call; model only — the property is the
    aes.rtd x<key> x<block>          -> enc;dec(enc);dec;enc(dec);dec  plugin's predicate; the real code runs the chain on ONE object, rt
                                        starting with enc, rtd with dec; the model is a pure function of (key, block))
    aes.gmul a b                     -> decimal | ERR
    aes.gmulc a b                    -> gmul(a,b);gmul(b,a)           (commutativity)
    aes.keyschedule x<key>           -> all Nb(Nr+1) words, concatenated
    aes.sbox / aes.sboxinv x<state>  (module functions Sbox / Sbox_inv)
    aes.subbytes / aes.invsubbytes / aes.shiftrows / aes.invshiftrows / aes.mixcolumns / aes.invmixcolumns x<state>
    aes.addroundkey x<state> x<roundkey>
    aes.rtc <pair> x<state>          -> f(s);finv(f(s));finv(s);f(finv(s)) for pair ∈ sbox|shiftrows|mixcolumns
  The spec column is FIPS 197 (Spec.Aes), defined for 16/24/32-byte keys and 16-byte blocks/states; `ERR` elsewhere
  (the standard defines no other size, the property demands rejection).
-/
import Driver.Wire
import Model.Aes
import Spec.Aes
namespace Driver.AesD
open Driver Model

def isBytes (l : List Nat) : Bool := l.all (· < 256)
def keyOk (k : List Nat) : Bool := k.length == 16 || k.length == 24 || k.length == 32

def specEnc (k b : List Nat) : String :=
  if keyOk k && b.length == 16 then fmtBytes (Spec.Aes.cipher k b) else "ERR"
def specDec (k b : List Nat) : String :=
  if keyOk k && b.length == 16 then fmtBytes (Spec.Aes.invCipher k b) else "ERR"

def fmtEB (r : Except Err (List Nat)) : String := fmtE fmtBytes r

def join4 (a b c d : String) : String := a ++ ";" ++ b ++ ";" ++ c ++ ";" ++ d
def join5 (a b c d e : String) : String := join4 a b c d ++ ";" ++ e

/-- model side of a component op on a state -/
def compModel (op : String) (s : List Nat) : Option (Except Err (List Nat)) :=
  match op with
  | "sbox" => some (Aes.SboxE s)
  | "sboxinv" => some (Aes.SboxInvE s)
  | "subbytes" => some (do let v ← Aes.SboxE s; pure (Aes.assignAll s v))
  | "invsubbytes" => some (do let v ← Aes.SboxInvE s; pure (Aes.assignAll s v))
  | "shiftrows" => some (Aes.ShiftRowsE s)
  | "invshiftrows" => some (Aes.InvShiftRowsE s)
  | "mixcolumns" => some (Aes.MixColumnsE s)
  | "invmixcolumns" => some (Aes.InvMixColumnsE s)
  | _ => none

/-- spec side: FIPS 197 transformation of a 16-byte state (SubBytes is byte-wise, so any length) -/
def compSpec (op : String) (s : List Nat) : String :=
  match op with
  | "sbox" | "subbytes" => fmtBytes (Spec.Aes.subBytes s)
  | "sboxinv" | "invsubbytes" => fmtBytes (Spec.Aes.invSubBytes s)
  | "shiftrows" => if s.length == 16 then fmtBytes (Spec.Aes.shiftRows s) else "-"
  | "invshiftrows" => if s.length == 16 then fmtBytes (Spec.Aes.invShiftRows s) else "-"
  | "mixcolumns" => if s.length == 16 then fmtBytes (Spec.Aes.mixColumns s) else "-"
  | "invmixcolumns" => if s.length == 16 then fmtBytes (Spec.Aes.invMixColumns s) else "-"
  | _ => "-"

def pairOps (p : String) : Option (String × String) :=
  match p with
  | "sbox" => some ("sbox", "sboxinv")
  | "subbytes" => some ("subbytes", "invsubbytes")
  | "shiftrows" => some ("shiftrows", "invshiftrows")
  | "mixcolumns" => some ("mixcolumns", "invmixcolumns")
  | _ => none

def thenE (r : Except Err (List Nat)) (f : List Nat → Option (Except Err (List Nat))) : Option (Except Err (List Nat)) :=
  match r with
  | .error e => some (.error e)
  | .ok v => f v

def handle : Handler := fun op args =>
  match op, args with
  | "aes.enc", [k, b] => do
      let k ← parseBytes? k; let b ← parseBytes? b
      pure (fmtEB (Aes.enc k b), specEnc k b)
  | "aes.dec", [k, b] => do
      let k ← parseBytes? k; let b ← parseBytes? b
      pure (fmtEB (Aes.dec k b), specDec k b)
  | "aes.rt", [k, b] => do
      let k ← parseBytes? k; let b ← parseBytes? b
      let e := Aes.enc k b
      let de := e >>= Aes.dec k
      let d := Aes.dec k b
      let ed := d >>= Aes.enc k
      -- no spec column: C03's property on this line is the round trip itself, evaluated on the implementation by the plugin
      pure (join5 (fmtEB e) (fmtEB de) (fmtEB d) (fmtEB ed) (fmtEB e), "-")
  | "aes.rtd", [k, b] => do
      let k ← parseBytes? k; let b ← parseBytes? b
      let e := Aes.enc k b
      let de := e >>= Aes.dec k
      let d := Aes.dec k b
      let ed := d >>= Aes.enc k
      pure (join5 (fmtEB e) (fmtEB de) (fmtEB d) (fmtEB ed) (fmtEB d), "-")
  | "aes.gmul", [a, b] => do
      let a ← parseNat? a; let b ← parseNat? b
      pure (fmtE toString (Aes.gmul a b), if a < 256 && b < 256 then toString (Spec.Aes.gfmul a b) else "-")
  | "aes.gmulc", [a, b] => do
      let a ← parseNat? a; let b ← parseNat? b
      pure (fmtE toString (Aes.gmul a b) ++ ";" ++ fmtE toString (Aes.gmul b a),
            if a < 256 && b < 256 then toString (Spec.Aes.gfmul a b) ++ ";" ++ toString (Spec.Aes.gfmul b a) else "-")
  | "aes.keyschedule", [k] => do
      let k ← parseBytes? k
      pure (fmtE (fun w => fmtBytes w.flatten) (Aes.keyscheduleE k),
            if keyOk k then fmtBytes (Spec.Aes.keyExpansion k).flatten else "ERR")
  | "aes.addroundkey", [s, rk] => do
      let s ← parseBytes? s; let rk ← parseBytes? rk
      pure (fmtBytes (Aes.addRoundKey s rk),
            if s.length == 16 && rk.length == 16 then fmtBytes (Spec.Aes.xorBytes s rk) else "-")
  | "aes.rtc", [p, s] => do
      let (f, g) ← pairOps p
      let s ← parseBytes? s
      let fs ← compModel f s
      let gfs ← thenE fs (compModel g)
      let gs ← compModel g s
      let fgs ← thenE gs (compModel f)
      pure (join4 (fmtEB fs) (fmtEB gfs) (fmtEB gs) (fmtEB fgs), "-")
  | _, [s] =>
    if op.startsWith "aes." then do
      let name := (op.drop 4).toString
      let s ← parseBytes? s
      let m ← compModel name s
      pure (fmtEB m, compSpec name s)
    else none
  | _, _ => none

end Driver.AesD
