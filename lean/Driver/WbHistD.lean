/-
  Driver.WbHistD — C18: the white-box network against a DES object WITH A HISTORY (and a network with a history against DES).
    wb.hist <xkey> <xblocks> <step> <step> …
        ONE object D = DES(key) and ONE object W = WhiteDES(tables(key)) go through the steps
          e:x<b>  D.enc(b)      d:x<b>  D.dec(b)      w:x<b>  W.enc(b)      v:x<b>  W.dec(b)  (not implemented: always raises)
        (operands of any length: a wrong-size operand is refused), then every 8-byte block B of <xblocks> is evaluated on the
        two USED objects:  W.enc(B) : D.enc(B) : D.dec(D.enc(B)).
        Result: `<step results joined by ,>|<wb:des:back joined by ,>`.
        The model is pure — DES objects and table networks are values there, every call is a function of (key, operand):
        Model.Des.enc / Model.Des.dec / WhiteDES.enc of `mkWhiteDES key`; spec: Spec.Des (FIPS 46-3) for 8-byte keys
-/
import Driver.WbD
namespace Driver.WbHistD
open Model Driver Driver.WbD

inductive Step where
  | desEnc (b : List Nat)
  | desDec (b : List Nat)
  | wbEnc (b : List Nat)
  | wbDec (b : List Nat)

def parseStep? (s : String) : Option Step :=
  match s.splitOn ":" with
  | ["e", b] => (parseBytes? b).map .desEnc
  | ["d", b] => (parseBytes? b).map .desDec
  | ["w", b] => (parseBytes? b).map .wbEnc
  | ["v", b] => (parseBytes? b).map .wbDec
  | _ => none

def fmtR : Except Err (List Nat) → String := fmtE fmtBytes

def modelLine (k : List Nat) (ms : List Nat) (steps : List Step) : String :=
  let w := Wb.mkWhiteDES k
  let wenc (b : List Nat) : Except Err (List Nat) := match w with | .error e => .error e | .ok w => w.enc b
  let hist := steps.map fun
    | .desEnc b => fmtR (Des.enc k b)
    | .desDec b => fmtR (Des.dec k b)
    | .wbEnc b => fmtR (wenc b)
    | .wbDec _ => "ERR"
  let cmp := (chunks8 ms.length ms).map fun B =>
    let de := Des.enc k B
    fmtR (wenc B) ++ ":" ++ fmtR de ++ ":" ++ fmtR (de >>= Des.dec k)
  ",".intercalate hist ++ "|" ++ ",".intercalate cmp

def specLine (k : List Nat) (ms : List Nat) (steps : List Step) : String :=
  let hist := steps.map fun
    | .desEnc b => fmtO (Spec.Des.enc k b)
    | .desDec b => fmtO (Spec.Des.dec k b)
    | .wbEnc b => fmtO (Spec.Des.enc k b)
    | .wbDec _ => "ERR"
  let cmp := (chunks8 ms.length ms).map fun B =>
    let de := Spec.Des.enc k B
    fmtO de ++ ":" ++ fmtO de ++ ":" ++ fmtO (de.bind (Spec.Des.dec k))
  ",".intercalate hist ++ "|" ++ ",".intercalate cmp

def handle : Handler := fun op args =>
  match op, args with
  | "wb.hist", k :: ms :: steps => do
      let k ← parseBytes? k; let ms ← parseBytes? ms
      let steps ← steps.mapM parseStep?
      pure (modelLine k ms steps, if k.length = 8 then specLine k ms steps else "-")
  | _, _ => none

end Driver.WbHistD
