/-
  Model.Mode — crysp/mode.py (after the `fix:` commits: CTS_ECB/CTS_CBC enc take the partial block from the
  message, CTS_ECB.dec `mlast`, CTS_CBC.dec does not re-prepend the IV, CTR.dec returns enc(C), the default
  counter is always set up, every enc starts with `self.pad.reset()`).

  The modes accept ANY object with `.blocksize`, `.enc(block)`, `.dec(block)`: the model is written over an
  abstract block cipher.  `len` is `blocksize//8` (every cipher of the library has a byte-multiple block size).
  Since every `enc` resets the padding iterator first, its result is a function of the configuration and the
  message only; `dec` reads the padding state (only `Nullpadding.remove` looks at it).
-/
import Model.Padding
namespace Model
open Py

structure BlockCipher where
  len : Nat
  enc : List Nat → Except Err (List Nat)
  dec : List Nat → Except Err (List Nat)

namespace Mode

/-- `Mode.xorstr`: `bytes([x^y for (x,y) in zip(a,b)])` (over the shorter length) -/
def xorstr (a b : List Nat) : List Nat := List.zipWith (· ^^^ ·) a b

/-- `Mode.__init__`: `self.pad = pad(l=cipher.blocksize)` -/
def mkPad (c : BlockCipher) (s : Scheme) : Except Err Padder := Padder.mk? s (8 * c.len)

/-- `for b in …: out.append(f(b))` with exceptions -/
def mapE {α β} (f : α → Except Err β) : List α → Except Err (List β)
  | [] => .ok []
  | a :: as =>
    match f a with
    | .error e => .error e
    | .ok b =>
      match mapE f as with
      | .error e => .error e
      | .ok bs => .ok (b :: bs)

/-- `self.iterblocks(M)` right after `self.pad.reset()`: the yielded blocks and the exception (if any) that ends
    the generator -/
def iter (p : Padder) (M : List Nat) : List (List Nat) × Option Err :=
  let r := p.iterblocks {} M
  (r.yields.map (·.1), r.err)

/-- `P = BytesIO(C); for b in range(n): P.read(l)` -/
def readBlocks (l : Nat) : Nat → List Nat → List (List Nat)
  | 0, _ => []
  | n+1, C => C.take l :: readBlocks l n (C.drop l)

/-- `b''.join(L)` -/
abbrev join (L : List (List Nat)) : List Nat := L.flatten

/-- consume a block generator through `f`, then surface the generator's own exception -/
def forBlocks (it : List (List Nat) × Option Err) (f : List (List Nat) → Except Err (List (List Nat))) :
    Except Err (List (List Nat)) :=
  match f it.1 with
  | .error e => .error e
  | .ok C => match it.2 with
    | some e => .error e
    | none => .ok C

/-! ### ECB -/
namespace ECB
def enc (c : BlockCipher) (s : Scheme) (M : List Nat) : Except Err (List Nat) :=
  match mkPad c s with
  | .error e => .error e
  | .ok p =>
    match forBlocks (iter p M) (mapE c.enc) with
    | .error e => .error e
    | .ok C => .ok (join C)

def dec (c : BlockCipher) (s : Scheme) (C : List Nat) (st : PadState := {}) : Except Err (List Nat) :=
  match mkPad c s with
  | .error e => .error e
  | .ok p =>
    if C.length % c.len ≠ 0 then .error "AssertionError" else
    match mapE c.dec (readBlocks c.len (C.length / c.len) C) with
    | .error e => .error e
    | .ok M => p.remove st (join M)
end ECB

/-! ### ECB with ciphertext stealing -/
namespace CTS_ECB
def enc (c : BlockCipher) (s : Scheme) (M : List Nat) : Except Err (List Nat) :=
  match mkPad c s with
  | .error e => .error e
  | .ok pd =>
    let l := c.len
    let n := M.length / l
    let p := M.length % l
    match forBlocks (iter pd (M.take (n * l))) (mapE c.enc) with
    | .error e => .error e
    | .ok C =>
      if p > 0 then
        match C.getLast? with
        | none => .error "IndexError"        -- `C.pop()` of an empty list
        | some clast =>
          let b := M.drop (n * l)
          match c.enc (b ++ clast.drop p) with
          | .error e => .error e
          | .ok y => .ok (join (C.dropLast ++ [y, clast.take p]))
      else .ok (join C)

def dec (c : BlockCipher) (s : Scheme) (C : List Nat) : Except Err (List Nat) :=
  match mkPad c s with
  | .error e => .error e
  | .ok _ =>
    let l := c.len
    let n := C.length / l
    let p := C.length % l
    match mapE c.dec (readBlocks l n C) with
    | .error e => .error e
    | .ok M =>
      if p > 0 then
        match M.getLast? with
        | none => .error "IndexError"
        | some mlast =>
          match c.dec ((C.drop (n * l)).take p ++ mlast.drop p) with
          | .error e => .error e
          | .ok y => .ok (join (M.dropLast ++ [y, mlast.take p]))
      else .ok (join M)
end CTS_ECB

/-! ### CBC -/
/-- `for b in blocks: x = xorstr(b,C[-1]); C.append(enc(x))` — the blocks appended after `prev` -/
def cbcChain (c : BlockCipher) : List Nat → List (List Nat) → Except Err (List (List Nat))
  | _, [] => .ok []
  | prev, b :: bs =>
    match c.enc (xorstr b prev) with
    | .error e => .error e
    | .ok y =>
      match cbcChain c y bs with
      | .error e => .error e
      | .ok r => .ok (y :: r)

/-- the right-to-left loop `while len(C)>l: c = C[-l:]; C = C[:-l]; M.insert(0,xorstr(C[-l:],dec(c)))`;
    `fuel` ≥ the number of iterations (`len(C)` is enough when l > 0) -/
def cbcUnchain (c : BlockCipher) (l : Nat) : Nat → List Nat → List (List Nat) → Except Err (List (List Nat))
  | 0, _, M => .ok M
  | fuel+1, C, M =>
    if C.length > l then
      let cb := C.drop (C.length - l)
      let C' := C.take (C.length - l)
      match c.dec cb with
      | .error e => .error e
      | .ok d => cbcUnchain c l fuel C' (xorstr (C'.drop (C'.length - l)) d :: M)
    else .ok M

namespace CBC
def enc (c : BlockCipher) (iv : List Nat) (s : Scheme) (M : List Nat) : Except Err (List Nat) :=
  match mkPad c s with
  | .error e => .error e
  | .ok p =>
    if iv.length ≠ c.len then .error "AssertionError" else
    match forBlocks (iter p M) (cbcChain c iv) with
    | .error e => .error e
    | .ok C => .ok (join (iv :: C))

def dec (c : BlockCipher) (iv : List Nat) (s : Scheme) (C : List Nat) (st : PadState := {}) : Except Err (List Nat) :=
  match mkPad c s with
  | .error e => .error e
  | .ok p =>
    if iv.length ≠ c.len then .error "AssertionError" else
    if C.length % c.len ≠ 0 then .error "AssertionError" else
    match cbcUnchain c c.len C.length C [] with
    | .error e => .error e
    | .ok M => p.remove st (join M)
end CBC

/-! ### CBC with ciphertext stealing -/
namespace CTS_CBC
def enc (c : BlockCipher) (iv : List Nat) (s : Scheme) (M : List Nat) : Except Err (List Nat) :=
  match mkPad c s with
  | .error e => .error e
  | .ok pd =>
    if iv.length ≠ c.len then .error "AssertionError" else
    let l := c.len
    let n := M.length / l
    let p := M.length % l
    match forBlocks (iter pd (M.take (n * l))) (cbcChain c iv) with
    | .error e => .error e
    | .ok C0 =>
      let C := iv :: C0
      if p > 0 then
        -- `clast = C.pop()` (C holds at least the IV)
        let clast := C.getLast (List.cons_ne_nil iv C0)
        let b := M.drop (n * l) ++ List.replicate (l - (M.drop (n * l)).length) 0      -- `.ljust(l,b'\0')`
        match c.enc (xorstr b clast) with
        | .error e => .error e
        | .ok y => .ok (join (C.dropLast ++ [y, clast.take p]))
      else .ok (join C)

def dec (c : BlockCipher) (iv : List Nat) (s : Scheme) (C : List Nat) : Except Err (List Nat) :=
  match mkPad c s with
  | .error e => .error e
  | .ok _ =>
    if iv.length ≠ c.len then .error "AssertionError" else
    let l := c.len
    let p := C.length % l
    if p > 0 then
      let clast := C.drop (C.length - p)
      let C1 := C.take (C.length - p)
      let cend := C1.drop (C1.length - l)
      let C2 := C1.take (C1.length - l)
      match c.dec cend with
      | .error e => .error e
      | .ok mend =>
        match c.dec (clast ++ mend.drop p) with
        | .error e => .error e
        | .ok mprev =>
          let M := [xorstr (C2.drop (C2.length - l)) mprev, xorstr clast (mend.take p)]
          match cbcUnchain c l C2.length C2 M with
          | .error e => .error e
          | .ok M => .ok (join M)
    else
      match cbcUnchain c l C.length C [] with
      | .error e => .error e
      | .ok M => .ok (join M)
end CTS_CBC

/-! ### CTR with the default counter -/
structure DefaultCounter where
  bytesize : Nat
  nonce : List Nat
  count0 : List Nat
deriving Repr, DecidableEq

namespace DefaultCounter
/-- `DefaultCounter(bytesize, iv)`; `iv = None` sets up the zero nonce and count (halves of `bytesize//2`) -/
def new (bytesize : Nat) (iv : Option (List Nat)) : Except Err DefaultCounter :=
  match iv with
  | none => .ok ⟨bytesize, List.replicate (bytesize / 2) 0, List.replicate (bytesize / 2) 0⟩
  | some iv =>
    if iv.length ≠ bytesize then .error "AssertionError"
    else .ok ⟨bytesize, iv.take (bytesize / 2), iv.drop (bytesize / 2)⟩

/-- `reset`: `self.count = Bits(*unpack(self.count0,'>L'))` (the truthy `'>L'` selects big-endian) -/
def reset (d : DefaultCounter) : Bits :=
  let (v, sz) := Bits.unpack d.count0 true
  Bits.ofNatSz v sz

/-- `__call__`: `res = pack(self.count,'>L'); self.count += 1; return self.nonce+res` -/
def call (d : DefaultCounter) (count : Bits) : List Nat × Bits :=
  (d.nonce ++ count.pack true, count.add (Bits.ofNat 1))
end DefaultCounter

/-- `for b in blocks: c = counter(); k = enc(c); C.append(xorstr(b,k))` -/
def ctrBlocks (c : BlockCipher) (d : DefaultCounter) : Bits → List (List Nat) → Except Err (List (List Nat))
  | _, [] => .ok []
  | cnt, b :: bs =>
    match c.enc (d.call cnt).1 with
    | .error e => .error e
    | .ok k =>
      match ctrBlocks c d (d.call cnt).2 bs with
      | .error e => .error e
      | .ok r => .ok (xorstr b k :: r)

namespace CTR
/-- `CTR(cipher,counter)` with `counter` None or bytes; padding is always `nopadding` -/
def enc (c : BlockCipher) (counter : Option (List Nat)) (M : List Nat) : Except Err (List Nat) :=
  match mkPad c .no with
  | .error e => .error e
  | .ok p =>
    match DefaultCounter.new c.len counter with
    | .error e => .error e
    | .ok d =>
      match forBlocks (iter p M) (ctrBlocks c d d.reset) with
      | .error e => .error e
      | .ok C => .ok (join C)

/-- `P = self.enc(C); assert len(P)==len(C); return P` -/
def dec (c : BlockCipher) (counter : Option (List Nat)) (C : List Nat) : Except Err (List Nat) :=
  match enc c counter C with
  | .error e => .error e
  | .ok P => if P.length ≠ C.length then .error "AssertionError" else .ok P
end CTR

/-! ### one CTR object through a sequence of calls

  What a `CTR(cipher,counter)` object keeps between calls, as far as its methods read or write it: the counter object in
  `self.counter` (`bytesize`, `nonce`, `count0`) and that object's running `count` attribute, which exists only after the
  first `reset()`.  Every `enc` starts with `self.counter.reset()` and `self.pad.reset()`; no key stream, counter block or
  message block survives a call.  The public routes that change the counter in force: `obj.counter.setup(nonce,count)`,
  `obj.counter = DefaultCounter(obj.len[,iv])`, and (without effect on the next `enc`) `obj.counter.reset()` / `obj.counter()`. -/

/-- `DefaultCounter.setup(nonce=None,count=None)`: zero halves of `bytesize//2` bytes for absent arguments; `count` is not touched -/
def DefaultCounter.setup (d : DefaultCounter) (nonce count : Option (List Nat)) : DefaultCounter :=
  { d with nonce := nonce.getD (List.replicate (d.bytesize / 2) 0), count0 := count.getD (List.replicate (d.bytesize / 2) 0) }

/-- the loop of `ctrBlocks` together with the counter's `count` attribute when the loop ends (normally, or by an exception of
    the cipher right after the counter was called) -/
def ctrRun (c : BlockCipher) (d : DefaultCounter) : Bits → List (List Nat) → Except Err (List (List Nat)) × Bits
  | cnt, [] => (.ok [], cnt)
  | cnt, b :: bs =>
    match c.enc (d.call cnt).1 with
    | .error e => (.error e, (d.call cnt).2)
    | .ok k =>
      match ctrRun c d (d.call cnt).2 bs with
      | (.error e, cnt') => (.error e, cnt')
      | (.ok r, cnt') => (.ok (xorstr b k :: r), cnt')

namespace CTR

/-- `self.counter` and its `count` attribute (`none`: no `reset()` yet) -/
structure Obj where
  counter : DefaultCounter
  count : Option Bits := none
deriving Repr, DecidableEq

/-- `CTR(cipher,counter)` with `counter` None or bytes -/
def Obj.new (c : BlockCipher) (counter : Option (List Nat)) : Except Err Obj :=
  match mkPad c .no with
  | .error e => .error e
  | .ok _ =>
    match DefaultCounter.new c.len counter with
    | .error e => .error e
    | .ok d => .ok ⟨d, none⟩

/-- `obj.enc(M)`: the result (or exception) and the object afterwards -/
def Obj.enc (c : BlockCipher) (o : Obj) (M : List Nat) : Except Err (List Nat) × Obj :=
  match mkPad c .no with
  | .error e => (.error e, o)
  | .ok p =>
    let it := iter p M
    let r := ctrRun c o.counter o.counter.reset it.1
    let o' : Obj := { o with count := some r.2 }
    match r.1 with
    | .error e => (.error e, o')
    | .ok C =>
      match it.2 with
      | some e => (.error e, o')
      | none => (.ok (join C), o')

/-- `obj.dec(C)`: `self.counter.reset(); self.pad.reset(); P = self.enc(C); assert len(P)==len(C)` -/
def Obj.dec (c : BlockCipher) (o : Obj) (C : List Nat) : Except Err (List Nat) × Obj :=
  let r := o.enc c C
  match r.1 with
  | .error e => (.error e, r.2)
  | .ok P => if P.length ≠ C.length then (.error "AssertionError", r.2) else (.ok P, r.2)

/-- one public call on the object -/
inductive Step where
  | enc (M : List Nat)
  | dec (C : List Nat)
  | setup (nonce count : Option (List Nat))      -- `obj.counter.setup(nonce,count)`
  | assign (iv : Option (List Nat))              -- `obj.counter = DefaultCounter(obj.len,iv)`
  | reset                                        -- `obj.counter.reset()`
  | call                                         -- `obj.counter()`
deriving Repr

/-- what the call returns: bytes (or an exception), nothing (or an exception), a counter block or None -/
inductive Out where
  | bytes (r : Except Err (List Nat))
  | unit (r : Except Err Unit)
  | block (r : Option (List Nat))

def Obj.step (c : BlockCipher) (o : Obj) : Step → Out × Obj
  | .enc M => let r := o.enc c M; (.bytes r.1, r.2)
  | .dec C => let r := o.dec c C; (.bytes r.1, r.2)
  | .setup nonce count => (.unit (.ok ()), { o with counter := o.counter.setup nonce count })
  | .assign iv =>
    match DefaultCounter.new c.len iv with
    | .error e => (.unit (.error e), o)
    | .ok d => (.unit (.ok ()), ⟨d, none⟩)
  | .reset => (.unit (.ok ()), { o with count := some o.counter.reset })
  | .call =>
    match o.count with
    | none => (.block none, o)                   -- AttributeError caught inside `__call__`: a message is printed, None returned
    | some cnt => (.block (some (o.counter.call cnt).1), { o with count := some (o.counter.call cnt).2 })

/-- a history of calls: the outputs and the object afterwards -/
def Obj.run (c : BlockCipher) : Obj → List Step → List Out × Obj
  | o, [] => ([], o)
  | o, s :: ss =>
    let r := o.step c s
    let rest := Obj.run c r.2 ss
    (r.1 :: rest.1, rest.2)

end CTR

end Mode
end Model
