/-
  Model.Md6 — crysp/md.py, class MD6, as total Lean functions, AFTER the three `fix:` commits
  (the message bit length is applied to tree level 1 only; SEQ keeps the key words; SEQ left-aligns the digest
  exactly as the tree mode does).

  Conventions: bytes are `List Nat` (each < 256, as in Model.Bits); a Python list that the code mutates in place
  (`A.ival` inside `f`) is an `Array Nat`; the 89-word compression input `W` is the `ival` list of the Poly.
  Literal constants (Q, shift tables, taps, S0, the S mask) come from `Model.Gen.Md6`, regenerated from the
  current source on every run.
-/
import Model.Bits
import Model.Poly
import Model.Padding
import Model.Gen.Md6
namespace Model.Md6
open Model Model.Py

/-- the object state set by `MD6.__init__` (+ the public attribute `rounds`, which callers overwrite) -/
structure MD6 where
  size : Nat          -- d
  keylen : Nat        -- len(Key) BEFORE truncation to 64 bytes
  K : List Nat        -- `Poly(struct.unpack('>8Q',Key[:64].ljust(64,b'\0')),64).ival`
  rounds : Nat
  L : Nat
deriving Repr, DecidableEq, Inhabited

/-- `struct.unpack('>nQ',X)`: big-endian 64-bit items; the byte count must be exactly 8n -/
def unpackQ (n : Nat) (X : List Nat) : Except Err (List Nat) :=
  if X.length ≠ 8 * n then .error "struct.error" else .ok ((chunks 8 X).map beInt)

/-- `Key[:64].ljust(64,b'\0')` -/
def keyBytes (key : List Nat) : List Nat := (key.take 64) ++ List.replicate (64 - (key.take 64).length) 0

/-- the default round count: `r = 40+(d//4); if Key: r = max(80,r)` -/
def defaultRounds (d : Nat) (keyed : Bool) : Nat := if keyed then max 80 (40 + d / 4) else 40 + d / 4

/-- `MD6(d,Key,L)`; `rounds?` = a value assigned to `.rounds` afterwards (`none`: the default is kept) -/
def new (d : Nat) (key : List Nat) (L : Nat) (rounds? : Option Nat := none) : MD6 :=
  { size := d, keylen := key.length,
    K := (chunks 8 (keyBytes key)).map beInt,
    rounds := rounds?.getD (defaultRounds d (key.length != 0)), L := L }

/-! ### the compression function `MD6.f` -/

/-- `A.e(k)` on a ring-2^64 Poly: `Bits(v,size=64)`, 0 beyond the dimension -/
def e (A : Array Nat) (k : Nat) : Bits := Bits.ofNatSz (A.getD k 0) 64

/-- loop state of `f`: the coefficient list of `A`, the round constant `S`, the step counter `j` -/
structure FState where
  A : Array Nat
  S : Bits
  j : Nat

/-- the loop body up to the assignment: the value `x^(x<<lin[j])` stored into `A[i]` -/
def fVal (n : Nat) (A : Array Nat) (S : Bits) (j i : Nat) : Bits :=
  let x := (S.xor (e A (i - n))).xor (e A (i - Gen.Md6.t0))
  let x := (x.xor ((e A (i - Gen.Md6.t1)).and (e A (i - Gen.Md6.t2)))).xor
              ((e A (i - Gen.Md6.t3)).and (e A (i - Gen.Md6.t4)))
  let x := x.xor (x.shr (Gen.Md6.rin.getD j 0))
  x.xor (x.shl (Gen.Md6.lin.getD j 0))

/-- one iteration of `for i in range(n,n+t)` (n = `N.dim`) -/
def fStep (n : Nat) (st : FState) (i : Nat) : FState :=
  match st with
  | ⟨A, S, j⟩ =>
    let v := fVal n A S j i
    let A := A.setIfInBounds i (v.ival % 2 ^ 64)                  -- `A[i] = v` stores `v.int() & mask`
    let j := j + 1
    if j = Gen.Md6.jWrap then
      ⟨A, (S.rol! Gen.Md6.Srot).xor (S.and (Bits.ofNat Gen.Md6.Smask)), 0⟩
    else ⟨A, S, j⟩

/-- `MD6.f(N)` with `self.rounds = rounds`; N = the 64-bit coefficients of the Poly (n ≥ 67 in every call) -/
def f (rounds : Nat) (N : List Nat) : List Nat :=
  let n := N.length
  let t := Gen.Md6.stepsPerRound * rounds
  -- `N//Poly(0,64,dim=t)`; `Poly(0,64,dim=0)` is `[0]` (dim = 0 means "not given"), which only matters for rounds = 0
  let A0 : Array Nat := (N ++ (if t = 0 then [0] else List.replicate t 0)).toArray
  let st := (List.range t).foldl (fun st s => fStep n st (n + s)) ⟨A0, Bits.ofNatSz Gen.Md6.S0 64, 0⟩
  st.A.toList.drop (st.A.size - Gen.Md6.cWords)                      -- `A[-16:]`

/-! ### control word, node id, the 89-word input -/

/-- `V = Bits(d,12)//Bits(keylen,8)//Bits(0,16)//Bits(z,4)//Bits(L,8)//Bits(r,12)//Bits(0,4)` -/
def V0 (d keylen z L r : Nat) : Bits :=
  ((((((Bits.ofNatSz d 12).concat (Bits.ofNatSz keylen 8)).concat (Bits.ofNatSz 0 16)).concat
    (Bits.ofNatSz z 4)).concat (Bits.ofNatSz L 8)).concat (Bits.ofNatSz r 12)).concat (Bits.ofNatSz 0 4)

/-- `V[20:36] = pad.padcnt` (the int goes through `Bits(v)`: size = bit_length) -/
def setP (V : Bits) (p : Nat) : Except Err Bits := V.setSlice (some 20) (some 36) none (Bits.ofNat p)
/-- `V[36:40] = Bits(1,4)` -/
def setZ1 (V : Bits) : Except Err Bits := V.setSlice (some 36) (some 40) none (Bits.ofNatSz 1 4)

/-- `W = Poly(Q,64)//Poly(self.K,64); W.dim = 89`: Q ‖ K ‖ zeros -/
def W0 (o : MD6) : List Nat :=
  let l := Gen.Md6.Q.map (· % 2 ^ 64) ++ o.K.map (· % 2 ^ 64)
  (l ++ List.replicate (89 - l.length) 0).take 89

/-- `W[i] = v` for an int index inside the list -/
def setW (W : List Nat) (i : Nat) (v : Nat) : List Nat := W.set i (v % 2 ^ 64)
/-- `W[a:b] = vs` with `len(vs) = b-a` and b ≤ dim: `for j,b in zip(r,v): self[j] = b` -/
def setWs (W : List Nat) (a : Nat) : List Nat → List Nat
  | [] => W
  | v :: vs => setWs (setW W a v) (a + 1) vs

/-- `pack(c,'>L')` for each `c` of a ring-2^64 Poly, joined -/
def packWords (C : List Nat) : List Nat := C.flatMap fun v => (Bits.ofNatSz v 64).pack true

/-- the blocks of `pad.iterblocks(M,bitlen=bitlen)` for `Nullpadding(blocksize)` and the final `pad.padcnt`
    (the list comprehension consumes the generator completely; an exception inside it propagates) -/
def nullBlocks (blocksize : Nat) (M : List Nat) (bitlen : Option Nat) : Except Err (List (List Nat) × Nat) :=
  let r := Padder.iterblocks ⟨.null, blocksize⟩ {} M bitlen true
  match r.err with
  | some err => .error err
  | none => .ok (r.yields.map (·.1), r.final.padcnt)

/-! ### PAR -/

/-- one iteration of the PAR loop; returns `f(W)` (W itself persists only through slots that are overwritten
    in every iteration, except `W[24]`, which is handled by the caller) -/
def parNode (o : MD6) (l : Nat) (V : Bits) (i : Nat) (B : List Nat) : List Nat :=
  let W := setW (W0 o) 24 V.ival
  let W := setW W 23 ((l <<< 56) + i)
  let W := setWs W 25 B
  f o.rounds W

/-- `MD6.PAR(l,M,bitlen)` -/
def PAR (o : MD6) (l : Nat) (M : List Nat) (bitlen : Option Nat) : Except Err (List Nat) := do
  let (X, padcnt) ← nullBlocks 4096 M bitlen
  let B ← X.mapM (unpackQ 64)
  let j := B.length
  let z := if j = 1 then 1 else 0
  let V := V0 o.size o.keylen z o.L o.rounds
  let Vlast ← setP V padcnt
  let C := (List.range j).map fun i =>
    parNode o l (if i = j - 1 then Vlast else V) i (B.getD i [])
  match C with
  | [] => .error "TypeError:reduce of empty sequence"
  | _ => pure (packWords C.flatten)

/-! ### SEQ -/

/-- one iteration of the SEQ loop: the chaining value `C` enters at `W[25:41]` -/
def seqNode (o : MD6) (V : Bits) (i : Nat) (C B : List Nat) : List Nat :=
  let W := setW (W0 o) 24 V.ival
  let W := setW W 23 (((o.L + 1) <<< 56) + i)
  let W := setWs W 25 C
  let W := setWs W 41 B
  f o.rounds W

/-- the last `size` bits of the 128-byte chaining value, left-aligned:
    `h = Bits(M)>>(1024-size); h.size = size; h.bytes()` (a negative shift count raises) -/
def chop (size : Nat) (M : List Nat) : Except Err (List Nat) := do
  let h ← Bits.ofBytes M none (-1)
  if size > 1024 then .error "ValueError:negative shift count" else
  pure ((h.shr (1024 - size)).setSize size).toBytes

/-- `MD6.SEQ(M,bitlen)` -/
def SEQ (o : MD6) (M : List Nat) (bitlen : Option Nat) : Except Err (List Nat) := do
  let (X, padcnt) ← nullBlocks 3072 M bitlen
  let B ← X.mapM (unpackQ 48)
  let j := B.length
  let V := V0 o.size o.keylen 0 o.L o.rounds
  let V1 ← setP V padcnt
  let Vlast ← setZ1 V1
  let C := (List.range j).foldl (fun C i =>
    seqNode o (if i = j - 1 then Vlast else V) i C (B.getD i [])) (List.replicate 16 0)
  chop o.size (packWords C)

/-! ### `__call__`: the level loop -/

/-- `while 1: l += 1; …` — `fuel` bounds the number of iterations (`M.length + 1` always suffices, see
    `Proofs.C17.md6_refines`: the call returns a value); entering with `l` = the value BEFORE the increment -/
def levelLoop (o : MD6) : Nat → Nat → List Nat → Option Nat → Except Err (List Nat)
  | 0, _, _, _ => .error "hang:level loop"
  | fuel + 1, l, M, bitlen =>
    let l := l + 1
    if l = o.L + 1 then SEQ o M bitlen else do
      let M' ← PAR o l M bitlen
      if M'.length = 128 then chop o.size M' else levelLoop o fuel l M' none

/-- `MD6.__call__(M,bitlen)` -/
def call (o : MD6) (M : List Nat) (bitlen : Option Nat := none) : Except Err (List Nat) :=
  levelLoop o (M.length + 1) 0 M bitlen

end Model.Md6
