/-
  Model.Multi — several objects alive at the same time (the `hashseqs` / `blakeseqs` / `nilsimsa.seqs` lines).

  The models are immutable values: the objects of a line live in a list, an operation on object k reads entry k and
  rewrites entry k, nothing else.  So in the model two objects cannot share a counter, a padding object, a window or a
  salt BY CONSTRUCTION (`Proofs.C14.run_proj`: the run of interleaved steps, projected on object j, is the run of the
  steps of object j alone).  Whether the Python objects are as independent is what the correspondence lines test.
-/
namespace Model.Multi

/-- `step k o op` = what operation `op` does to object number k in state `o`: (new state, what the line prints).
    Steps are (object index, operation); a step on an index outside the store is skipped (the drivers reject such lines). -/
def run {σ ω ρ : Type} (step : Nat → σ → ω → σ × ρ) : List σ → List (Nat × ω) → List σ × List (Nat × ρ)
  | objs, [] => (objs, [])
  | objs, (k, op) :: rest =>
    match objs[k]? with
    | none => run step objs rest
    | some o =>
      let r := step k o op
      let t := run step (objs.set k r.1) rest
      (t.1, (k, r.2) :: t.2)

/-- one object alone -/
def runOne {σ ω ρ : Type} (step : σ → ω → σ × ρ) : σ → List ω → σ × List ρ
  | o, [] => (o, [])
  | o, op :: rest =>
    let r := step o op
    let t := runOne step r.1 rest
    (t.1, r.2 :: t.2)

/-- the operations of a line that address object j, in order -/
def own {ω : Type} (j : Nat) (steps : List (Nat × ω)) : List ω := (steps.filter (·.1 == j)).map (·.2)

end Model.Multi
