/-
  Model.HmacObj — crysp/hmac.py over a hash OBJECT with a life of its own: `HMAC(h,k)` keeps a reference to `h`, and
  `setkey` / `__call__` call `self.h(x)` on it — two or three complete one-shot calls on whatever state the earlier
  users of `h` left behind (a salted call, a streamed run finished or abandoned, a refused call, an earlier MAC), and
  they leave `h` in the state of their own last call.

  `HashS σ` is `h(x)` on an object whose mutable part is `σ`: the object afterwards and the digest (or the exception).
  The functions below are `Model.Hmac.setkey / call / hmac` with that object threaded through; `Proofs.C13` proves that
  their results are those of the pure `Model.Hmac` whenever the digest `h(x)` returns does not depend on the state it
  finds (`history_free`), which holds for every hash class of the library: `__call__` starts with `initstate`.
-/
import Model.Hmac
namespace Model.HmacObj
open Model

abbrev HashS (σ : Type) := σ → List Nat → σ × Except Err (List Nat)

/-- `setkey(k)`: `if len(k)>sz: k = self.h(k)` is the only use of the hash object -/
def setkey {σ} (o : Hmac) (h : HashS σ) (s : σ) (k : List Nat) : σ × Except Err Hmac :=
  let sz := o.blocksize / 8
  let pad := fun (k : List Nat) => if k.length < sz then k ++ List.replicate (sz - k.length) 0 else k
  if k.length > sz then
    match h s k with
    | (s', .ok d) => (s', .ok { o with K := some (pad d) })
    | (s', .error e) => (s', .error e)
  else (s, .ok { o with K := some (pad k) })

/-- `__call__(m)`: `h1 = self.h(ipad+m); return self.h(opad+h1)` -/
def call {σ} (o : Hmac) (h : HashS σ) (s : σ) (m : List Nat) : σ × Except Err (List Nat) :=
  match o.K with
  | none => (s, .error "AttributeError:K")
  | some a =>
    if a.isEmpty then (s, .error "AssertionError") else
    let n := o.blocksize / 8
    let opad := Hmac.xorBytes a (List.replicate n 0x5c)
    let ipad := Hmac.xorBytes a (List.replicate n 0x36)
    match h s (ipad ++ m) with
    | (s1, .error e) => (s1, .error e)
    | (s1, .ok h1) => h s1 (opad ++ h1)

/-- `o = HMAC(h,k); o(m)` on the hash object in state `s`: the hash object afterwards, the HMAC object (when `setkey`
    returned) and the MAC -/
def hmac {σ} (h : HashS σ) (blocksize : Nat) (s : σ) (k m : List Nat) : σ × Option Hmac × Except Err (List Nat) :=
  match setkey { blocksize := blocksize } h s k with
  | (s', .error e) => (s', none, .error e)
  | (s', .ok o) => let (s'', r) := call o h s' m; (s'', some o, r)

end Model.HmacObj
