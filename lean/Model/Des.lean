/-
  Model.Des — crysp/des.py (DES, TDEA and the exposed internals IP, IPinv, PC1, PC2, E, P, S, subkey, F) as total
  Lean functions on `Model.Bits`, after the `fix:` commit that splits a 24-byte TDEA key string as 8+8+8.

  Bit numbering is the code's: `Bits(bytes)` loads a *bitstream* (bit 0 of the Bits = most significant bit of the
  first byte), so Bits index i is FIPS 46-3 bit i+1 and the code's 0-based tables are the standard's minus one.
  `C>>s | C<<(28-s)` moves bit i+s to bit i, which in that numbering is the standard's LEFT rotation by s.

  All tables come from `Model.Gen.Des` (probed from the current source on every run).
-/
import Model.Bits
import Model.Gen.Des
namespace Model
open Py

namespace Bits

/-- `b[idx]` for a list (tuple, range) of non-negative ints:
    `v=0; for x in reversed(idx): v=(v<<1)|((ival>>x)&1); return Bits(v,len(idx))` -/
def pick (b : Bits) (idx : List Nat) : Bits :=
  ofNatSz (listVal (idx.map fun x => (b.ival >>> x) &&& 1)) idx.length

/-- `b[s:e] = v` on the fast path of `__setitem__` (step 1, 0 ≤ s < e ≤ size), `v` already converted by `Bits(v)`:
    `mask = self.mask^((1<<e)-1)^((1<<s)-1); ival = (ival&mask)|(v.ival<<s)` -/
def putSlice (b : Bits) (s e : Nat) (v : Bits) : Bits :=
  ⟨(b.ival &&& (b.mask ^^^ (2 ^ e - 1) ^^^ (2 ^ s - 1))) ||| (v.ival <<< s), b.size⟩

end Bits

namespace Des
open Bits

def assertErr : Err := "AssertionError"

def IP (m : Bits) : Except Err Bits := if m.size ≠ 64 then .error assertErr else .ok (m.pick Gen.Des.ip)
def IPinv (m : Bits) : Except Err Bits := if m.size ≠ 64 then .error assertErr else .ok (m.pick Gen.Des.ipinv)
/-- `PC1` has no assertion -/
def PC1 (k : Bits) : Bits := k.pick Gen.Des.pc1
def PC2 (k : Bits) : Except Err Bits := if k.size ≠ 56 then .error assertErr else .ok (k.pick Gen.Des.pc2)
def E (l : Bits) : Except Err Bits := if l.size ≠ 32 then .error assertErr else .ok (l.pick Gen.Des.e)
def P (s : Bits) : Except Err Bits := if s.size ≠ 32 then .error assertErr else .ok (s.pick Gen.Des.p)

/-- `S(n,x)`: `assert 0<=n<8; assert 0<=x<64; Bits(boxes[n][x],4)` -/
def S (n x : Nat) : Except Err Bits :=
  if n < 8 ∧ x < 64 then .ok (ofNatSz ((Gen.Des.sbox.getD n []).getD x 0) 4) else .error assertErr

/-- `sum(shifts[:r+1])` -/
def cumShift (r : Nat) : Nat := (Gen.Des.shifts.take (r + 1)).sum

/-- `subkey(k,r)`, r ≥ 0.  For `len(k) < 56` the two halves are shorter than 28+28 and `PC2` asserts. -/
def subkey (k : Bits) (r : Nat) : Except Err Bits :=
  if k.size < 56 then .error assertErr else
  let C := k.sliceFast 0 28
  let D := k.sliceFast 28 56
  let s := cumShift r
  if s > 28 then .error "ValueError:negative shift count" else
  let C := (C.shr s).or (C.shl (28 - s))
  let D := (D.shr s).or (D.shl (28 - s))
  PC2 (C.concat D)

/-- one pass of the S-box loop of `F`:
    `x=s[ri:ri+6]; i=x[(5,0)].ival; j=x[(4,3,2,1)].ival; Z[ro:ro+4]=Bits(S(n,(i<<4)+j),4)[::-1].ival` -/
def sboxStep (s Z : Bits) (n : Nat) : Except Err Bits := do
  let x := s.sliceFast (6 * n) (6 * n + 6)
  let i := (x.pick [5, 0]).ival
  let j := (x.pick [4, 3, 2, 1]).ival
  let v ← S n ((i <<< 4) + j)
  let w := ((ofNatSz v.ival 4).pick [3, 2, 1, 0]).ival
  pure (Z.putSlice (4 * n) (4 * n + 4) (ofNat w))

def sboxLoop (s : Bits) : List Nat → Bits → Except Err Bits
  | [], Z => .ok Z
  | n :: ns, Z => do let Z' ← sboxStep s Z n; sboxLoop s ns Z'

/-- `F(R,k,r)` -/
def F (R k : Bits) (r : Nat) : Except Err Bits := do
  let RE ← E R
  let fk ← subkey k r
  let s := RE.xor fk
  let Z ← sboxLoop s (List.range 8) (ofNatSz 0 32)
  P Z

/-- the Feistel loop `for r in order: fout=F(R,k,r); L=L^fout; L,R=R,L` -/
def rounds (k : Bits) : List Nat → Bits → Bits → Except Err (Bits × Bits)
  | [], L, R => .ok (L, R)
  | r :: rs, L, R => do
      let fout ← F R k r
      rounds k rs R (L.xor fout)

/-- the object: `self.K = Bits(K,64)` -/
structure DES where
  K : Bits
deriving Repr, DecidableEq

/-- `DES(K)`: `assert len(K)==8` -/
def DES.new (K : List Nat) : Except Err DES :=
  if K.length ≠ 8 then .error assertErr else do
    let b ← ofBytes K (some 64)
    pure ⟨b⟩

/-- common body of `enc` (order = range(16)) and `dec` (order = reversed(range(16))) -/
def DES.crypt (d : DES) (order : List Nat) (M : List Nat) : Except Err (List Nat) := do
  let Mb ← ofBytes M
  if Mb.size ≠ 64 then throw assertErr
  let k := PC1 d.K
  let blk ← IP Mb
  let L := blk.sliceFast 0 32
  let R := blk.sliceFast 32 64
  let (L, R) ← rounds k order L R
  let (L, R) := (R, L)
  let C := ofNatSz 0 64
  let C := C.putSlice 0 32 L
  let C := C.putSlice 32 64 R
  let out ← IPinv C
  pure out.toBytes

def encOrder : List Nat := List.range 16
def decOrder : List Nat := (List.range 16).reverse

def DES.enc (d : DES) (M : List Nat) : Except Err (List Nat) := d.crypt encOrder M
def DES.dec (d : DES) (C : List Nat) : Except Err (List Nat) := d.crypt decOrder C

/-- `DES(K).enc(M)` -/
def enc (K M : List Nat) : Except Err (List Nat) := do let d ← DES.new K; d.enc M
def dec (K C : List Nat) : Except Err (List Nat) := do let d ← DES.new K; d.dec C

/-! ### TDEA -/

structure TDEA where
  E1 : DES
  E2 : DES
  E3 : DES
deriving Repr, DecidableEq

/-- `TDEA(K1,K2=None,K3=None)` (after the fix: `K1[:8],K1[8:16],K1[16:]`) -/
def TDEA.new (K1 : List Nat) (K2 K3 : Option (List Nat) := none) : Except Err TDEA := do
  let (K1, K2, K3) ←
    if K1.length > 8 then
      if K2.isSome ∨ K3.isSome then throw assertErr
      else
        let k1 := K1.take 8
        let k3 := K1.drop 16
        pure (k1, some ((K1.drop 8).take 8), some (if k3.isEmpty then k1 else k3))
    else pure (K1, K2, K3)
  let K2 ← match K2 with
    | none => if K3.isSome then throw assertErr else pure K1
    | some k => pure k
  let K3 := K3.getD K1
  let e1 ← DES.new K1
  let e2 ← DES.new K2
  let e3 ← DES.new K3
  pure ⟨e1, e2, e3⟩

def TDEA.enc (t : TDEA) (M : List Nat) : Except Err (List Nat) := do
  let a ← t.E1.enc M
  let b ← t.E2.dec a
  t.E3.enc b

def TDEA.dec (t : TDEA) (C : List Nat) : Except Err (List Nat) := do
  let a ← t.E3.dec C
  let b ← t.E2.enc a
  t.E1.dec b

def tdeaEnc (K1 : List Nat) (K2 K3 : Option (List Nat)) (M : List Nat) : Except Err (List Nat) := do
  let t ← TDEA.new K1 K2 K3; t.enc M
def tdeaDec (K1 : List Nat) (K2 K3 : Option (List Nat)) (C : List Nat) : Except Err (List Nat) := do
  let t ← TDEA.new K1 K2 K3; t.dec C

end Des
end Model
