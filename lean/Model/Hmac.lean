/-
  Model.Hmac — crysp/hmac.py, generic in the hash object: `h` is anything with a `blocksize` (bits) that maps bytes
  to bytes when called (a call may raise).  After the `fix:` of setkey (a hashed long key is zero-padded to the block
  like a short one).
-/
import Model.Py
namespace Model

structure Hmac where
  /-- `self.h.blocksize` (bits) -/
  blocksize : Nat
  /-- `self.K`; `none` until `setkey` ran (attribute missing) -/
  K : Option (List Nat) := none
deriving Repr, Inhabited

namespace Hmac

abbrev HashFn := List Nat → Except Err (List Nat)

/-- `setkey(k)`:
      sz = self.h.blocksize//8
      if len(k)>sz: k = self.h(k)
      if len(k)<sz: k += b'\0'*(sz-len(k))
      self.K = bytes(k) -/
def setkey (o : Hmac) (h : HashFn) (k : List Nat) : Except Err Hmac := do
  let sz := o.blocksize / 8
  let k ← if k.length > sz then h k else pure k
  let k := if k.length < sz then k ++ List.replicate (sz - k.length) 0 else k
  pure { o with K := some k }

/-- `bytes([x^y for (x,y) in zip(a,b)])` -/
def xorBytes (a b : List Nat) : List Nat := (a.zip b).map fun (x, y) => x ^^^ y

/-- `__call__(m)` -/
def call (o : Hmac) (h : HashFn) (m : List Nat) : Except Err (List Nat) :=
  match o.K with
  | none => .error "AttributeError:K"
  | some a =>
    if a.isEmpty then .error "AssertionError" else do
    let n := o.blocksize / 8
    let opad := xorBytes a (List.replicate n 0x5c)
    let ipad := xorBytes a (List.replicate n 0x36)
    let h1 ← h (ipad ++ m)
    h (opad ++ h1)

/-- `HMAC(h,k)(m)` -/
def hmac (h : HashFn) (blocksize : Nat) (k m : List Nat) : Except Err (List Nat) := do
  let o ← setkey { blocksize := blocksize } h k
  o.call h m

end Hmac
end Model
