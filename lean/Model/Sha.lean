/-
  Model.Sha — crysp/sha.py classes SHA1 (version 0 = SHA-0, 1 = SHA-1) and SHA2(size,t) as the code has them:
  words are `Bits` of `wsize` bits, `+` is `Bits.__add__` (dynamic width, `Bits + int` through `Bits(int)`),
  schedules are built by `W.append`, the chaining value by `self.H[i] += a`.
  Every constant, table and bit-expression lambda comes from Model.Gen.Hashes (regenerated from the source).

  Indexing: `W[t-3]`, `self.K[r]`, `self.ft[r]` are Python list accesses.  The lists are checked to be long enough
  up front (`assert len(W)==16`, table-length guards = the IndexError Python would raise), after which every index
  of the loops is in range; `getD` is used for the accesses and its default is dead code.
-/
import Model.HashObj
import Model.Gen.Hashes
namespace Model.Sha
open Model Model.Py Model.Gen.Hashes

/-- dead default of guarded list accesses -/
def dflt (wsize : Nat) : Bits := ⟨0, wsize⟩

/-- `W = struct.unpack('>16L' | '>16Q', B)`; `[Bits(w,wsize) for w in W]` -/
def parseBE (wsize : Nat) (B : List Nat) : Except Err (List Bits) :=
  let wb := wsize / 8
  if B.length ≠ 16 * wb then .error "struct.error:unpack requires a buffer of 16 words" else
  .ok ((List.range 16).map fun i => Bits.ofNatSz (beInt ((B.drop (i * wb)).take wb)) wsize)

/-- `b''.join([pack(h,'>L') for h in self.H])` -/
def joinBE (H : List Bits) : List Nat := (H.map fun h => h.pack true).flatten

/-! ### SHA1 -/

def sha1K (version : Nat) : List Nat := if version = 0 then sha1K_v0 else sha1K_v1
def sha1ftCode (version : Nat) : List Nat := if version = 0 then sha1ftCode_v0 else sha1ftCode_v1
def sha1IV (version : Nat) : List Nat := if version = 0 then sha1H_v0 else sha1H_v1

/-- `self.ft[r]` -/
def sha1ft (version r : Nat) : Bits → Bits → Bits → Bits :=
  sha1ftFun.getD ((sha1ftCode version).getD r 0) (fun _ _ z => z)

/-- `for t in range(16,80): w = rol(W[t-3]^W[t-8]^W[t-14]^W[t-16],self.version); W.append(w)` -/
def sha1Expand (version : Nat) (W : List Bits) : List Bits :=
  (List.range 64).foldl (fun W i =>
    let t := 16 + i
    let g := fun j => W.getD (t - j) (dflt 32)
    W ++ [rol ((((g 3).xor (g 8)).xor (g 14)).xor (g 16)) version]) W

abbrev St5 := Bits × Bits × Bits × Bits × Bits

/-- one pass of `for r in range(80)` -/
def sha1Round (version : Nat) (W : List Bits) (s : St5) (r : Nat) : St5 :=
  let (a, b, c, d, e) := s
  let T := ((((rol a 5).add (sha1ft version r b c d)).add e).add (Bits.ofNat ((sha1K version).getD r 0))).add
            (W.getD r (dflt 32))
  (T, a, rol b 30, c, d)

/-- loop body of `SHA1.update` on the parsed block -/
def sha1Block (version : Nat) (H : List Bits) (W : List Bits) : Except Err (List Bits) :=
  match H with
  | [h0, h1, h2, h3, h4] =>
    if W.length ≠ 16 then .error "AssertionError" else
    if (sha1K version).length < 80 ∨ (sha1ftCode version).length < 80
        ∨ (sha1ftCode version).any (· ≥ sha1ftFun.length) then .error "IndexError" else
    let W := sha1Expand version W
    let (a, b, c, d, e) := (List.range 80).foldl (sha1Round version W) (h0, h1, h2, h3, h4)
    .ok [h0.add a, h1.add b, h2.add c, h3.add d, h4.add e]
  | _ => .error "ValueError:unpack H"

def sha1Compress (version : Nat) (H : List Bits) (B : List Nat) : Except Err (List Bits) := do
  let W ← parseBE 32 B
  sha1Block version H W

/-- the class as a `HashCore` (blocksize 512, wsize 32 are literals of `SHA1.__init__`) -/
def sha1Core (version : Nat) : HashCore where
  padder := ⟨.sha 32, 512⟩
  iv := (sha1IV version).map fun v => Bits.ofNatSz v 32
  compress := sha1Compress version
  digest := joinBE

/-- `SHA1(version)`: `assert version in (0,1)` -/
def sha1New (version : Nat) : Except Err HashCore :=
  if version = 0 ∨ version = 1 then .ok (sha1Core version) else .error "AssertionError"

/-! ### SHA2 -/

/-- configuration fields set by `SHA2.__init__` -/
structure Sha2Cfg where
  size : Nat
  outlen : Nat
  blocksize : Nat
  wsize : Nat
deriving Repr, DecidableEq

/-- `SHA2.__init__(size,t)` with its asserts -/
def sha2Cfg (size : Nat) (t : Nat := 0) : Except Err Sha2Cfg :=
  if ¬ (size = 224 ∨ size = 256 ∨ size = 384 ∨ size = 512) then .error "AssertionError" else
  if t > 0 ∧ size ≠ 512 then .error "AssertionError" else
  if t > 0 ∧ ¬ (t = 224 ∨ t = 256) then .error "AssertionError" else
  let outlen := if t > 0 then t / 8 else size / 8
  if size = 224 ∨ size = 256 then .ok ⟨size, outlen, 512, 32⟩ else .ok ⟨size, outlen, 1024, 64⟩

def sha2K (c : Sha2Cfg) : List Nat := if c.wsize = 32 then sha2K32 else sha2K64
def Sigma_0 (c : Sha2Cfg) : Bits → Bits := if c.wsize = 32 then Sigma_0_32 else Sigma_0_64
def Sigma_1 (c : Sha2Cfg) : Bits → Bits := if c.wsize = 32 then Sigma_1_32 else Sigma_1_64
def sigma_0 (c : Sha2Cfg) : Bits → Bits := if c.wsize = 32 then sigma_0_32 else sigma_0_64
def sigma_1 (c : Sha2Cfg) : Bits → Bits := if c.wsize = 32 then sigma_1_32 else sigma_1_64

/-- the `if t==224 … elif t==256 …` chain of `SHA2.initstate` (t = outlen*8) -/
def sha2IV (c : Sha2Cfg) : Except Err (List Nat) :=
  let t := c.outlen * 8
  if t = 224 then .ok (if c.size = t then sha2H_224_0 else sha2H_512_224)
  else if t = 256 then .ok (if c.size = t then sha2H_256_0 else sha2H_512_256)
  else if t = 384 then .ok sha2H_384_0
  else if t = 512 then .ok sha2H_512_0
  else .error "UnboundLocalError:H"

/-- `N = 80 if self.size>256 else 64` -/
def sha2N (c : Sha2Cfg) : Nat := if c.size > 256 then 80 else 64

/-- `for t in range(16,N): w = sigma_1(W[t-2])+W[t-7]+sigma_0(W[t-15])+W[t-16]; W.append(w)` -/
def sha2Expand (c : Sha2Cfg) (W : List Bits) : List Bits :=
  (List.range (sha2N c - 16)).foldl (fun W i =>
    let t := 16 + i
    let g := fun j => W.getD (t - j) (dflt c.wsize)
    W ++ [(((sigma_1 c (g 2)).add (g 7)).add (sigma_0 c (g 15))).add (g 16)]) W

abbrev St8 := Bits × Bits × Bits × Bits × Bits × Bits × Bits × Bits

/-- one pass of `for r in range(N)` -/
def sha2Round (c : Sha2Cfg) (W : List Bits) (s : St8) (r : Nat) : St8 :=
  let (a, b, cc, d, e, f, g, h) := s
  let T1 := ((((h.add (Sigma_1 c e)).add (Ch e f g)).add (Bits.ofNat ((sha2K c).getD r 0))).add (W.getD r (dflt c.wsize)))
  let T2 := (Sigma_0 c a).add (Maj a b cc)
  (T1.add T2, a, b, cc, d.add T1, e, f, g)

def sha2Block (c : Sha2Cfg) (H : List Bits) (W : List Bits) : Except Err (List Bits) :=
  match H with
  | [h0, h1, h2, h3, h4, h5, h6, h7] =>
    if W.length ≠ 16 then .error "AssertionError" else
    if (sha2K c).length < sha2N c then .error "IndexError" else
    let W := sha2Expand c W
    let (a, b, cc, d, e, f, g, h) := (List.range (sha2N c)).foldl (sha2Round c W) (h0, h1, h2, h3, h4, h5, h6, h7)
    .ok [h0.add a, h1.add b, h2.add cc, h3.add d, h4.add e, h5.add f, h6.add g, h7.add h]
  | _ => .error "ValueError:unpack H"

def sha2Compress (c : Sha2Cfg) (H : List Bits) (B : List Nat) : Except Err (List Bits) := do
  let W ← parseBE c.wsize B
  sha2Block c H W

/-- `X = b''.join(pack(h,'>L') for h in self.H); return X[:self.outlen]` -/
def sha2Digest (c : Sha2Cfg) (H : List Bits) : List Nat := (joinBE H).take c.outlen

def sha2Core (c : Sha2Cfg) (iv : List Nat) : HashCore where
  padder := ⟨.sha c.wsize, c.blocksize⟩
  iv := iv.map fun v => Bits.ofNatSz v c.wsize
  compress := sha2Compress c
  digest := sha2Digest c

/-- `SHA2(size,t)` -/
def sha2New (size : Nat) (t : Nat := 0) : Except Err HashCore := do
  let c ← sha2Cfg size t
  let iv ← sha2IV c
  pure (sha2Core c iv)

end Model.Sha
