/-
  Model.Hash — the ten hash objects C01 quantifies over, by name, as `HashCore`s built the way the code builds them
  (`MD4()`, `MD5()`, `SHA1(0)`, `SHA1(1)`, `SHA2(size,t)`).
-/
import Model.Md
import Model.Sha
namespace Model

inductive Alg
  | md4 | md5 | sha0 | sha1 | sha224 | sha256 | sha384 | sha512 | sha512_224 | sha512_256
deriving Repr, DecidableEq, Inhabited

namespace Alg

def all : List Alg := [md4, md5, sha0, sha1, sha224, sha256, sha384, sha512, sha512_224, sha512_256]

/-- constructor call of the library for this algorithm -/
def new : Alg → Except Err HashCore
  | md4 => .ok Md.md4Core
  | md5 => .ok Md.md5Core
  | sha0 => Sha.sha1New 0
  | sha1 => Sha.sha1New 1
  | sha224 => Sha.sha2New 224
  | sha256 => Sha.sha2New 256
  | sha384 => Sha.sha2New 384
  | sha512 => Sha.sha2New 512
  | sha512_224 => Sha.sha2New 512 224
  | sha512_256 => Sha.sha2New 512 256

/-- advertised digest length in bytes (`size//8`, `outlen`) -/
def outlen : Alg → Nat
  | md4 | md5 => 16
  | sha0 | sha1 => 20
  | sha224 | sha512_224 => 28
  | sha256 | sha512_256 => 32
  | sha384 => 48
  | sha512 => 64

/-- block size in bytes -/
def blocklen : Alg → Nat
  | md4 | md5 | sha0 | sha1 | sha224 | sha256 => 64
  | _ => 128

end Alg

/-- `h = <constructor>(); h(M,bitlen)` -/
def hash (alg : Alg) (M : List Nat) (bitlen : Option Nat := none) : Except Err (List Nat) := do
  let c ← alg.new
  c.hash M bitlen

end Model
