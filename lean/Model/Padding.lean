/-
  Model.Padding — crysp/padding.py as an explicit state machine (after the `fix:` commits: empty non-final
  piece yields nothing; MD/SHA/Blake `remove` work on bytes; X9.23 rejects pad length 0; explicit `bitlen=0`;
  absolute bit length handed to `lastblock`; padding-only tail reports `bitcnt = 0`).

  A generator is modelled by the list of its yields, each paired with the object state a consumer can observe
  *at that yield* (BLAKE reads `bitcnt` there), the state left behind, and the exception (if any) that ended it.
-/
import Model.Bits
namespace Model
open Py

structure PadState where
  padflag : Bool := false
  bitcnt : Nat := 0
  padcnt : Nat := 0
deriving Repr, DecidableEq, Inhabited

inductive Scheme
  | no | null | bit | pkcs7 | x923
  | md (wsize : Nat) | sha (wsize : Nat) | blake (hsize : Nat)
deriving Repr, DecidableEq, Inhabited

structure Padder where
  scheme : Scheme
  blocksize : Nat
deriving Repr, DecidableEq, Inhabited

structure IterResult where
  yields : List (List Nat × PadState)
  final : PadState
  err : Option Err := none
deriving Repr, Inhabited

namespace Padder

def blocklen (p : Padder) : Nat := p.blocksize / 8

/-- constructor check: `n,r = divmod(l,8); if r!=0: raise PaddingError` (a zero block size makes `iterblocks`
    loop forever: out of domain, refused here) -/
def mk? (scheme : Scheme) (l : Nat) : Except Err Padder :=
  if l % 8 ≠ 0 then .error "PaddingError:invalid block size"
  else if l = 0 then .error "hang:blocksize 0"
  else .ok ⟨scheme, l⟩

/-- `Blakepadding(size)` -/
def blakeP (hsize : Nat) : Padder := ⟨.blake hsize, if hsize > 256 then 1024 else 512⟩
def blakeW (hsize : Nat) : Nat := if hsize > 256 then 64 else 32

/-- `Bits(m,size=n)` for bytes m (bitstream order), as the code builds it -/
def bitsOfBytes (m : List Nat) (n : Nat) : Bits :=
  match Bits.ofBytes m (some n) (-1) with
  | .ok b => b
  | .error _ => ⟨0, n⟩   -- unreachable: bitorder -1 always divides

/-- the length-strengthening tail shared by MD / SHA / BLAKE `lastblock` -/
def mdLike (p : Padder) (st : PadState) (m : List Nat) (bitlenKw : Option Nat)
    (wsize : Nat) (extra : Nat) (flag : Option Nat) (bigend : Bool) : Except Err (List Nat × PadState) :=
  let bitlen := match bitlenKw with
    | none => st.bitcnt + 8 * m.length
    | some b => b
  if st.bitcnt > bitlen then .error "AssertionError" else
  let needed := bitlen - st.bitcnt
  let mb := bitsOfBytes m needed
  let cs := wsize * 2
  let n0 : Int := (p.blocksize : Int) - extra - cs - needed
  let n1 : Int := if n0 < 0 then n0 + p.blocksize else n0
  if n1 < 0 then .error "ValueError:negative size" else
  let pad0 := (mb.concat (Bits.ofNatSz 1 1)).concat (Bits.ofNatSz 0 n1.toNat)
  let pad := match flag with
    | none => pad0
    | some v => pad0.concat (Bits.ofNatSz v 1)
  .ok (pad.toBytes ++ (Bits.ofNatSz bitlen cs).pack bigend,
       { st with padflag := true, bitcnt := st.bitcnt + needed })

/-- `lastblock(m,**kargs)`: returns the padded tail (one or two blocks) and the new state.
    `bitlenKw` is the raw keyword argument (`None` or a value, possibly 0). -/
def lastblock (p : Padder) (st : PadState) (m : List Nat) (bitlenKw : Option Nat) :
    Except Err (List Nat × PadState) :=
  match p.scheme with
  | .no => .ok (m, { st with padflag := true, bitcnt := st.bitcnt + 8 * m.length })
  | .null =>
    let bl? : Option Nat := match bitlenKw with
      | none => some (8 * m.length)
      | some b => if b < st.bitcnt then none else some (b - st.bitcnt)
    match bl? with
    | none => .error "ValueError:negative size"
    | some bl =>
      if bl > p.blocksize then .error "ValueError:negative size" else
      let q := p.blocksize - bl
      let b := ((bitsOfBytes m bl).concat (Bits.ofNatSz 0 q)).toBytes
      if b.length ≠ p.blocklen then .error "AssertionError" else
      .ok (b, { padflag := true, bitcnt := st.bitcnt + bl, padcnt := q })
  | .bit =>
    let bl? : Option Nat := match bitlenKw with
      | none => some (8 * m.length)
      | some b => if b < st.bitcnt then none else some (b - st.bitcnt)
    match bl? with
    | none => .error "ValueError:negative size"
    | some bl =>
      if bl > p.blocksize then .error "ValueError:negative size" else
      let q := if p.blocksize - bl = 0 then p.blocksize else p.blocksize - bl
      let b := ((bitsOfBytes m bl).concat (Bits.ofNatSz 1 q)).toBytes
      .ok (b, { padflag := true, bitcnt := st.bitcnt + bl, padcnt := q })
  | .pkcs7 =>
    let pl := m.length
    let q := if p.blocklen - pl = 0 then p.blocklen else p.blocklen - pl
    if q ≥ 256 then .error "ValueError:bytes must be in range(0, 256)" else
    .ok (m ++ List.replicate q q, { padflag := true, bitcnt := st.bitcnt + 8 * pl, padcnt := 8 * q })
  | .x923 =>
    if p.blocklen ≥ 256 then .error "AssertionError" else
    let pl := m.length
    let q := if p.blocklen - pl = 0 then p.blocklen else p.blocklen - pl
    .ok (m ++ List.replicate (q - 1) 0 ++ [q], { padflag := true, bitcnt := st.bitcnt + 8 * pl, padcnt := 8 * q })
  | .md w => mdLike p st m bitlenKw w 1 none false
  | .sha w => mdLike p st m bitlenKw w 1 none true
  | .blake h =>
    mdLike p st m bitlenKw (blakeW h) 2 (some (if h = 256 ∨ h = 512 then 1 else 0)) true

/-- state left behind when `lastblock` raises: only `pkcs7` mutates the object before the failing statement
    (`bytes([q])` with q ≥ 256) -/
def lastblockErrState (p : Padder) (st : PadState) (m : List Nat) : PadState :=
  match p.scheme with
  | .pkcs7 =>
    let q := if p.blocklen - m.length = 0 then p.blocklen else p.blocklen - m.length
    { padflag := true, bitcnt := st.bitcnt + 8 * m.length, padcnt := 8 * q }
  | _ => st

/-- number of blocks the `while` loop of `iterblocks` yields: those i with (i+1)·B < bitlen -/
def loopCount (p : Padder) (bitlen : Nat) : Nat := if bitlen = 0 then 0 else (bitlen - 1) / p.blocksize

/-- i-th block of the byte string -/
def blockAt (p : Padder) (m : List Nat) (i : Nat) : List Nat := (m.drop (i * p.blocklen)).take p.blocklen

/-- the yields of the `while` loop -/
def loopYields (p : Padder) (st : PadState) (m : List Nat) (k : Nat) : List (List Nat × PadState) :=
  (List.range k).map fun i => (p.blockAt m i, { st with bitcnt := st.bitcnt + (i + 1) * p.blocksize })

/-- the end of a padded `iterblocks` call: the one or two blocks cut from what `lastblock` returned (or its
    exception), the counter reset for padding-only blocks -/
def finishTail (p : Padder) (ys : List (List Nat × PadState)) (st1 : PadState) (pi : List Nat) :
    Except Err (List Nat × PadState) → IterResult
  | .error e => ⟨ys, p.lastblockErrState st1 pi, some e⟩
  | .ok (npi, st2) =>
    let st2 : PadState := if st2.bitcnt = st1.bitcnt then { st2 with bitcnt := 0 } else st2
    let b := npi.take p.blocklen
    let lastb := npi.drop p.blocklen
    if lastb.length > 0 then
      let st3 := { st2 with bitcnt := 0 }
      ⟨ys ++ [(b, st2), (lastb, st3)], st3, none⟩
    else ⟨ys ++ [(b, st2)], st2, none⟩

/-- `iterblocks(m, bitlen=…, padding=…)` (after the `fix:` commits: an explicit `bitlen=0` is 0; `lastblock`
    receives the absolute bit length `start+bitlen`; a tail without message bits reports `bitcnt = 0`) -/
def iterblocks (p : Padder) (st : PadState) (m : List Nat) (bitlenKw : Option Nat := none)
    (padding : Bool := true) : IterResult :=
  if st.padflag then ⟨[], st, some "PaddingError:padding already added"⟩ else
  let mlen := 8 * m.length
  let bitlen := bitlenKw.getD mlen
  if bitlen > mlen then ⟨[], st, some "PaddingError:input bitlen mismatch"⟩ else
  if !padding ∧ bitlen % p.blocksize > 0 then ⟨[], st, some "PaddingError:input not a multiple of block size"⟩ else
  if !padding ∧ bitlen = 0 then ⟨[], st, none⟩ else
  let k := p.loopCount bitlen
  let ys := p.loopYields st m k
  let st1 : PadState := { st with bitcnt := st.bitcnt + k * p.blocksize }
  let pi := p.blockAt m k
  if padding then
    p.finishTail ys st1 pi (p.lastblock st1 pi (bitlenKw.map (st.bitcnt + ·)))
  else
    let st2 := { st1 with bitcnt := st.bitcnt + (k + 1) * p.blocksize }
    ⟨ys ++ [(pi, st2)], st2, none⟩

/-- index of the last '1' of `str(b)` -/
def rfind1 (b : Bits) : Option Nat := if b.ival = 0 then none else some (bitLength b.ival - 1)

/-- tail shared by bit / MD / SHA / BLAKE `remove`: cut the last byte of `c` just before its last 1 bit -/
def cutLastOne (c : List Nat) : Except Err (List Nat) :=
  let lastB := bitsOfBytes (c.drop (c.length - 1)) (8 * (c.drop (c.length - 1)).length)
  match rfind1 lastB with
  | none => .error "ValueError:negative size"
  | some n => .ok (c.take (c.length - 1) ++ (lastB.setSize n).toBytes)

def rstrip0 (c : List Nat) : List Nat := (c.reverse.dropWhile (· = 0)).reverse

/-- `remove(c)`: strip the padding from the concatenation of the emitted blocks -/
def remove (p : Padder) (st : PadState) (c : List Nat) : Except Err (List Nat) :=
  let bl := p.blocklen
  match p.scheme with
  | .no => .ok c
  | .null =>
    let tail := c.drop (c.length - bl)
    let b := bitsOfBytes tail (8 * tail.length)
    if st.padcnt > b.size then .error "ValueError:negative size" else
    .ok (c.take (c.length - bl) ++ (b.setSize (b.size - st.padcnt)).toBytes)
  | .bit =>
    let tail := c.drop (c.length - bl)
    let b := bitsOfBytes tail (8 * tail.length)
    match rfind1 b with
    | none => .error "ValueError:negative size"
    | some n => .ok (c.take (c.length - bl) ++ (b.setSize n).toBytes)
  | .pkcs7 =>
    match c.getLast? with
    | none => .error "IndexError"
    | some q =>
      -- `c[-q:]` for q = 0 is the whole string
      let tail := if q = 0 then c else c.drop (c.length - q)
      if q > bl ∨ tail ≠ List.replicate q q then .error "PaddingError"
      else .ok (c.take (c.length - q))
  | .x923 =>
    match c.getLast? with
    | none => .error "IndexError"
    | some q =>
      if q = 0 ∨ q > bl then .error "PaddingError" else
      let tail := (c.drop (c.length - q)).take ((min q c.length) - 1)
      if tail ≠ List.replicate (q - 1) 0 then .error "PaddingError"
      else .ok (c.take (c.length - q))
  | .md w | .sha w =>
    let clen := w / 4
    let c1 := rstrip0 (c.take (c.length - clen))
    if c1.length = 0 then .error "PaddingError" else cutLastOne c1
  | .blake h =>
    let clen := blakeW h / 4
    let c0 := c.take (c.length - clen)
    match c0.getLast? with
    | none => .error "IndexError"
    | some lastByte =>
      let flagged := h = 256 ∨ h = 512
      if flagged ∧ lastByte % 2 ≠ 1 then .error "AssertionError" else
      let lb := if flagged then lastByte - 1 else lastByte
      let c1 := rstrip0 (c0.take (c0.length - 1) ++ [lb])
      if c1.length = 0 then .error "PaddingError" else cutLastOne c1

/-- `reset()` (and the `.new` property, which calls it and returns the object): padflag, bitcnt and padcnt go
    back to the values `__init__` gives them, whatever they were -/
def reset (_p : Padder) (_st : PadState) : PadState := {}

end Padder

/-- one step of a history on ONE padding object -/
inductive PadStep
  /-- `iterblocks(m, bitlen=…, padding=…)`, run to exhaustion -/
  | call (m : List Nat) (bitlen : Option Nat) (padding : Bool)
  /-- `obj.reset()` / `obj.new` -/
  | reset
  /-- `obj.remove(c)`; `none`: c = the concatenation of the blocks emitted since the last reset -/
  | remove (c : Option (List Nat))
deriving Repr, Inhabited

/-- what a step lets the caller observe -/
inductive PadStepResult
  | iter (r : IterResult)
  /-- the object state right after a reset -/
  | state (st : PadState)
  /-- result of `remove` and the (unchanged) object state -/
  | removed (r : Except Err (List Nat)) (st : PadState)
deriving Repr, Inhabited

namespace Padder

/-- a history of steps on one object in state `st` that has emitted the bytes `em` since its last reset -/
def runSteps (p : Padder) : PadState → List Nat → List PadStep → List PadStepResult
  | _, _, [] => []
  | st, em, .call m l f :: rest =>
    let r := p.iterblocks st m l f
    .iter r :: runSteps p r.final (em ++ (r.yields.map (·.1)).flatten) rest
  | st, _, .reset :: rest => .state (p.reset st) :: runSteps p (p.reset st) [] rest
  | st, em, .remove c :: rest => .removed (p.remove st (c.getD em)) st :: runSteps p st em rest

end Padder
end Model
