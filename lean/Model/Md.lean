/-
  Model.Md — crysp/md.py classes MD4 and MD5 (MD5 subclasses MD4 and replaces ft, K, st and `update`).
  Block parsing is `Bits(B,bitorder=1).split(32)`, the message schedule is built by two/three
  `W.extend([W[i] for i in (…)])`, words are 32-bit `Bits`, `+` is `Bits.__add__`.
  Constants, shift tuples, index tuples and the round lambdas come from Model.Gen.Hashes.
  (List accesses: see the note in Model.Sha — guarded up front, `getD` defaults are dead.)
-/
import Model.HashObj
import Model.Gen.Hashes
namespace Model.Md
open Model Model.Py Model.Gen.Hashes

def dflt : Bits := ⟨0, 32⟩

/-- `W = Bits(B,bitorder=1); yield W.split(self.wsize)` -/
def parseLE (B : List Nat) : Except Err (List Bits) := do
  let W ← Bits.ofBytes B none 1
  W.split 32

/-- `b''.join([pack(h) for h in self.H])` -/
def joinLE (H : List Bits) : List Nat := (H.map fun h => h.pack false).flatten

/-- `W.extend([W[i] for i in idx])`, once per tuple, each reading the list as extended so far -/
def extend (W : List Bits) (idx : List (List Nat)) : List Bits :=
  idx.foldl (fun W t => W ++ t.map fun i => W.getD i dflt) W

abbrev St4 := Bits × Bits × Bits × Bits

/-- `self.st[r][i%4]` -/
def shiftOf (st : List (List Nat)) (i : Nat) : Nat := (st.getD (i / 16) []).getD (i % 4) 0

/-- MD4: `T = rol(a+self.ft[r](b,c,d)+W[i]+self.K[r],self.st[r][i%4]); a=d; d=c; c=b; b=T` with r = i//16 -/
def md4Round (W : List Bits) (s : St4) (i : Nat) : St4 :=
  let (a, b, c, d) := s
  let r := i / 16
  let f := md4ft.getD r (fun _ _ z => z)
  let T := rol (((a.add (f b c d)).add (W.getD i dflt)).add (Bits.ofNat (md4K.getD r 0))) (shiftOf md4st i)
  (d, T, b, c)

/-- MD5: `T = b+rol(a+self.ft[r](b,c,d)+W[i]+self.K[i],self.st[r][i%4])` -/
def md5Round (W : List Bits) (s : St4) (i : Nat) : St4 :=
  let (a, b, c, d) := s
  let r := i / 16
  let f := md5ft.getD r (fun _ _ z => z)
  let T := b.add (rol (((a.add (f b c d)).add (W.getD i dflt)).add (Bits.ofNat (md5K.getD i 0))) (shiftOf md5st i))
  (d, T, b, c)

/-- shape of the tables the loop indexes (an IndexError of Python otherwise) -/
def tablesOk (nr : Nat) (ftLen : Nat) (K : List Nat) (kLen : Nat) (st idx : List (List Nat)) : Bool :=
  ftLen ≥ nr && K.length ≥ kLen && st.length ≥ nr && st.all (·.length ≥ 4)
    && idx.length + 1 = nr && idx.all (fun t => t.length = 16 && t.all (· < 16))

def md4Block (H : List Bits) (W : List Bits) : Except Err (List Bits) :=
  match H with
  | [h0, h1, h2, h3] =>
    if W.length ≠ 16 then .error "AssertionError" else
    if !tablesOk 3 md4ft.length md4K 3 md4st md4Idx then .error "IndexError" else
    let W := extend W md4Idx
    let (a, b, c, d) := (List.range (3 * 16)).foldl (md4Round W) (h0, h1, h2, h3)
    .ok [h0.add a, h1.add b, h2.add c, h3.add d]
  | _ => .error "ValueError:unpack H"

def md5Block (H : List Bits) (W : List Bits) : Except Err (List Bits) :=
  match H with
  | [h0, h1, h2, h3] =>
    if W.length ≠ 16 then .error "AssertionError" else
    if !tablesOk 4 md5ft.length md5K 64 md5st md5Idx then .error "IndexError" else
    let W := extend W md5Idx
    let (a, b, c, d) := (List.range (4 * 16)).foldl (md5Round W) (h0, h1, h2, h3)
    .ok [h0.add a, h1.add b, h2.add c, h3.add d]
  | _ => .error "ValueError:unpack H"

def md4Compress (H : List Bits) (B : List Nat) : Except Err (List Bits) := do
  let W ← parseLE B
  md4Block H W

def md5Compress (H : List Bits) (B : List Nat) : Except Err (List Bits) := do
  let W ← parseLE B
  md5Block H W

def md4Core : HashCore where
  padder := ⟨.md 32, 512⟩
  iv := md4H.map fun v => Bits.ofNatSz v 32
  compress := md4Compress
  digest := joinLE

def md5Core : HashCore where
  padder := ⟨.md 32, 512⟩
  iv := md5H.map fun v => Bits.ofNatSz v 32
  compress := md5Compress
  digest := joinLE

end Model.Md
