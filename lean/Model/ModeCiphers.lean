/-
  Model.ModeCiphers — the block ciphers of the library as `Model.BlockCipher` objects for the modes of operation:
  what `ECB(AES(key))`, `CBC(DES(key),iv)`, `CTR(TDEA(k1,k2,k3))`, `CTS_ECB(Serpent(key))` … hand to crysp/mode.py.

  The mode code only reads `cipher.blocksize` and calls `cipher.enc(block)` / `cipher.dec(block)` with `bytes`
  blocks; these are exactly the byte-string entry points of the cipher models (Model.Aes.enc, Model.Des.enc,
  Model.Des.tdeaEnc, Model.Serpent.encBytes) with the key fixed.  The constructors of the real objects raise for
  keys they do not accept *before* any mode object exists: `…?` runs the constructor's checks first.

  `Threefish(key,tweak)`: `blocksize` is the property `K.size` (= 8·|key| bits: 32/64/128-byte blocks), `enc`/`dec` are
  Model.Threefish.encrypt/decrypt with key and tweak fixed.  Nothing else in the C05 development depends on the list of
  ciphers: one constructor of `Proofs.Lemmas.ModeInst.LibCipher` and one `…_implements` proof per cipher.
-/
import Model.Mode
import Model.Aes
import Model.Des
import Model.Serpent
import Model.Threefish
namespace Model.Mode.Ciphers
open Model

/-- `AES(key)`: blocksize 128 -/
def aes (key : List Nat) : BlockCipher := ⟨16, Aes.enc key, Aes.dec key⟩

/-- `DES(key)`: blocksize 64 -/
def des (key : List Nat) : BlockCipher := ⟨8, Des.enc key, Des.dec key⟩

/-- `TDEA(K1,K2,K3)` in each of its calling forms (one string of 8/16/24 bytes, two strings, three strings): blocksize 64 -/
def tdea (K1 : List Nat) (K2 K3 : Option (List Nat)) : BlockCipher := ⟨8, Des.tdeaEnc K1 K2 K3, Des.tdeaDec K1 K2 K3⟩

/-- `Serpent(key)`: blocksize 128, keys of 0..32 bytes -/
def serpent (key : List Nat) : BlockCipher := ⟨16, Serpent.encBytes key, Serpent.decBytes key⟩

/-- `Threefish(key,tweak)`: blocksize = `K.size` = 8·|key| (256/512/1024 bits), 16-byte tweak -/
def threefish (key tweak : List Nat) : BlockCipher :=
  ⟨key.length, Threefish.encrypt key tweak, Threefish.decrypt key tweak⟩

/-! ### with the constructor's own checks (an unacceptable key raises when the cipher object is built) -/

def aes? (key : List Nat) : Except Err BlockCipher :=
  match Aes.init key with
  | .error e => .error e
  | .ok _ => .ok (aes key)

def des? (key : List Nat) : Except Err BlockCipher :=
  match Des.DES.new key with
  | .error e => .error e
  | .ok _ => .ok (des key)

def tdea? (K1 : List Nat) (K2 K3 : Option (List Nat)) : Except Err BlockCipher :=
  match Des.TDEA.new K1 K2 K3 with
  | .error e => .error e
  | .ok _ => .ok (tdea K1 K2 K3)

/-- the Serpent object proper: the 33 round keys are computed once by the constructor, `enc`/`dec` convert the block
    with `Bits(block,bitorder=1)` and use them (`Serpent.encBytes key` = the constructor followed by this `enc`) -/
def serpentObj (c : Serpent.Cipher) : BlockCipher :=
  ⟨16, fun b => do let M ← Bits.ofBytes b none 1; let C ← Serpent.encBits c M; pure (Bits.pack C),
       fun b => do let C ← Bits.ofBytes b none 1; let M ← Serpent.decBits c C; pure (Bits.pack M)⟩

def serpent? (key : List Nat) : Except Err BlockCipher :=
  match (Bits.ofBytes key none 1 >>= Serpent.init) with
  | .error e => .error e
  | .ok c => .ok (serpentObj c)

/-- the Threefish object proper: the extended key / tweak word lists `__k`, `__t` are computed once by the constructor,
    `blocksize` reads `self.K.size` (`Threefish.encrypt key tweak` = the constructor followed by this `enc`) -/
def threefishObj (c : Threefish.Ctx) : BlockCipher := ⟨c.K.size / 8, Threefish.enc c, Threefish.dec c⟩

def threefish? (key tweak : List Nat) : Except Err BlockCipher :=
  match Threefish.init key tweak with
  | .error e => .error e
  | .ok c => .ok (threefishObj c)

end Model.Mode.Ciphers
