/-
  Model.Blake — crysp/blake.py (classes Blake and Blake2, the module singletons) as total Lean functions,
  after the `fix:` commits (Blake2 byte counter read before the look-ahead; final flag only when the update pads;
  per-call `outlen`).

  Words are `Model.Bits` of the object's word size (what `Poly.e(i)` hands to the arithmetic); a `Poly` of words is
  the list of its coefficients.  Tables, constants, IVs, round counts, rotation amounts and the G call schedule
  come from `Model.Gen.BlakeG` (regenerated from the source on every run).  Blocks come from `Model.Padding`
  (`iterblocks`, with the pad state observed at each yield: BLAKE reads `bitcnt` there).
  Plumbing modelled by its meaning (validated by the correspondence stream): `struct.unpack('>16L'/'>16Q')`,
  `Bits(blk,bitorder=1).split(w)` (= little-endian words), `pack(h,'>L')`/`pack(h)`, `Poly(salt,4w).split(w)`.
-/
import Model.Padding
import Model.Gen.BlakeG
namespace Model
namespace Blake
open Py
open Model.Gen

/-- a word of `w` bits: `Bits(v,w)` -/
def wd (w v : Nat) : Bits := Bits.ofNatSz v w

def getW (l : List Bits) (i : Nat) : Bits := l.getD i default

/-- `Blake(size)`: the constructor keeps `size` only (blocksize, wsize, outlen are functions of it) -/
structure Cfg where
  size : Nat
deriving Repr, DecidableEq, Inhabited

/-- `assert size in (224,256,384,512)` -/
def mk? (size : Nat) : Except Err Cfg :=
  if size = 224 ∨ size = 256 ∨ size = 384 ∨ size = 512 then .ok ⟨size⟩ else .error "AssertionError"

def Cfg.wsize (c : Cfg) : Nat := if c.size > 256 then 64 else 32
def Cfg.blocksize (c : Cfg) : Nat := if c.size > 256 then 1024 else 512
def Cfg.outlen (c : Cfg) : Nat := c.size / 8

/-- `self.c` as `initstate` builds it -/
def Cfg.consts (c : Cfg) : List Nat :=
  if c.size = 224 then BlakeG.c224 else if c.size = 256 then BlakeG.c256
  else if c.size = 384 then BlakeG.c384 else BlakeG.c512
/-- `self.IV` (from `SHA2(size).H`) -/
def Cfg.iv (c : Cfg) : List Nat :=
  if c.size = 224 then BlakeG.iv224 else if c.size = 256 then BlakeG.iv256
  else if c.size = 384 then BlakeG.iv384 else BlakeG.iv512
def Cfg.rounds (c : Cfg) : Nat :=
  if c.size = 224 then BlakeG.rounds224 else if c.size = 256 then BlakeG.rounds256
  else if c.size = 384 then BlakeG.rounds384 else BlakeG.rounds512
/-- `xx = (32,25,16,11) if self.size>256 else (16,12,8,7)` -/
def Cfg.rot (c : Cfg) : List Nat := if c.size > 256 then BlakeG.rot64 else BlakeG.rot32

/-- the eight assignments of `G` on the four selected words; `x`, `y` are the two injected words -/
def gmix (rot : List Nat) (x y a b c d : Bits) : Bits × Bits × Bits × Bits :=
  let a := (a.add b).add x
  let d := (d.xor a).ror! (rot.getD 0 0)
  let c := c.add d
  let b := (b.xor c).ror! (rot.getD 1 0)
  let a := (a.add b).add y
  let d := (d.xor a).ror! (rot.getD 2 0)
  let c := c.add d
  let b := (b.xor c).ror! (rot.getD 3 0)
  (a, b, c, d)

/-- `a,b,c,d = v[ja,jb,jc,jd]; …; v[ja,jb,jc,jd] = a,b,c,d` -/
def gapply (rot : List Nat) (x y : Bits) (v : List Bits) (ja jb jc jd : Nat) : List Bits :=
  let (a, b, c, d) := gmix rot x y (getW v ja) (getW v jb) (getW v jc) (getW v jd)
  (((v.set ja a).set jb b).set jc c).set jd d

/-- `p,q = sigma[r%10][2i:2i+2]` -/
def sigmaPQ (md r i : Nat) : Nat × Nat :=
  let row := BlakeG.sigma.getD (r % md) []
  (row.getD (2 * i) 0, row.getD (2 * i + 1) 0)

/-- one call `G(W,r,i,v,ja,jb,jc,jd)` of Blake.update; `g = [i,ja,jb,jc,jd]` is an entry of the schedule -/
def gstep (c : Cfg) (W : List Bits) (r : Nat) (v : List Bits) (g : List Nat) : List Bits :=
  let (p, q) := sigmaPQ BlakeG.sigmaMod r (g.getD 0 0)
  let w := c.wsize
  let x := (getW W p).xor (wd w (c.consts.getD q 0))
  let y := (getW W q).xor (wd w (c.consts.getD p 0))
  gapply c.rot x y v (g.getD 1 0) (g.getD 2 0) (g.getD 3 0) (g.getD 4 0)

def round (c : Cfg) (W : List Bits) (v : List Bits) (r : Nat) : List Bits :=
  BlakeG.gsched.foldl (gstep c W r) v

/-- element-wise `^` of two word lists of equal length (`Poly.__xor__` on equal dimensions) -/
def xorL (a b : List Bits) : List Bits := List.zipWith Bits.xor a b

/-- body of the `for W in self.iterblocks(…)` loop: new `self.H` -/
def compress (c : Cfg) (H salt W : List Bits) (cnt : Nat) : List Bits :=
  let w := c.wsize
  let cs := c.consts.map (wd w)
  -- `t0,t1 = Bits(cnt,2w).split(w)`
  let t0 := wd w (cnt % 2 ^ (2 * w))
  let t1 := wd w ((cnt % 2 ^ (2 * w)) >>> w)
  let v0 := H ++ xorL salt (cs.take 4) ++ xorL [t0, t0, t1, t1] ((cs.drop 4).take 4)
  let v := (List.range c.rounds).foldl (round c W) v0
  -- `H[0:4] ^= s^v[0:4]^v[8:12]; H[4:8] ^= s^v[4:8]^v[12:16]`
  xorL (H.take 4) (xorL (xorL salt (v.take 4)) ((v.drop 8).take 4))
    ++ xorL ((H.drop 4).take 4) (xorL (xorL salt ((v.drop 4).take 4)) ((v.drop 12).take 4))

/-- `struct.unpack('>16L'|'>16Q',B)` then `Bits(w,wsize)` -/
def wordsBE (w : Nat) (B : List Nat) : List Bits := (chunks (w / 8) B).map fun g => wd w (beInt g)

/-- `Poly(salt,4w).split(w)` reversed: most significant word first -/
def saltWords (w salt : Nat) : List Bits := [3, 2, 1, 0].map fun j => wd w ((salt % 2 ^ (4 * w)) >>> (w * j))

/-- the mutable part of a Blake object after `initstate` -/
structure State where
  H : List Bits
  salt : List Bits
  pad : PadState
deriving Repr, DecidableEq, Inhabited

def initstate (c : Cfg) (salt : Nat := 0) : State :=
  { H := c.iv.map (wd c.wsize), salt := saltWords c.wsize salt, pad := {} }

/-- `b''.join([pack(h,'>L') for h in self.H])[:self.outlen]` -/
def digest (c : Cfg) (H : List Bits) : List Nat :=
  (H.flatMap fun h => h.pack true).take c.outlen

/-- per-block observables of an update: (block bytes, counter = the pad state's `bitcnt` at that yield) -/
def trace (c : Cfg) (s : State) (M : List Nat) (bitlen : Option Nat) (padding : Bool) : List (List Nat × Nat) :=
  ((Padder.blakeP c.size).iterblocks s.pad M bitlen padding).yields.map fun (B, st) => (B, st.bitcnt)

/-- `update(M,bitlen,padding)`: new state and the returned digest (or the exception that ended the generator,
    after the blocks yielded before it were absorbed) -/
def update (c : Cfg) (s : State) (M : List Nat) (bitlen : Option Nat := none) (padding : Bool := false) :
    State × Except Err (List Nat) :=
  let it := (Padder.blakeP c.size).iterblocks s.pad M bitlen padding
  let H := it.yields.foldl (fun H (y : List Nat × PadState) =>
    compress c H s.salt (wordsBE c.wsize y.1) y.2.bitcnt) s.H
  let s' := { s with H := H, pad := it.final }
  match it.err with
  | some e => (s', .error e)
  | none => (s', .ok (digest c H))

/-- `for p in pieces: h.update(p)` (non-final updates; the returned intermediate digests are dropped) -/
def feed (c : Cfg) (s : State) (pieces : List (List Nat)) : State :=
  pieces.foldl (fun s p => (update c s p none false).1) s

/-- `__call__(M,s,bitlen)` -/
def call (c : Cfg) (M : List Nat) (salt : Nat := 0) (bitlen : Option Nat := none) : Except Err (List Nat) :=
  (update c (initstate c salt) M bitlen true).2

/-- module-level singletons: plain configured objects (every call re-initialises the state) -/
def blake224 : Cfg := ⟨224⟩
def blake256 : Cfg := ⟨256⟩
def blake384 : Cfg := ⟨384⟩
def blake512 : Cfg := ⟨512⟩

end Blake

/-! ## Blake2 -/
namespace Blake2
open Py
open Model.Gen
open Model.Blake (wd getW gapply sigmaPQ xorL Cfg)

/-- `Blake2(size)` goes through `Blake.__init__`: same size check, same geometry -/
def mk? (size : Nat) : Except Err Cfg := Blake.mk? size

def iv (c : Cfg) : List Nat := if c.size > 256 then BlakeG.b2iv512 else BlakeG.b2iv256
def rounds (c : Cfg) : Nat := if c.size > 256 then BlakeG.b2rounds512 else BlakeG.b2rounds256
def rot (c : Cfg) : List Nat := if c.size > 256 then BlakeG.b2rot64 else BlakeG.b2rot32

/-- keyword arguments of `__call__`/`initstate` (keylen is always left at 0: the library has no keyed mode) -/
structure Params where
  outlen : Option Nat := none
  salt : List Nat := []
  pers : List Nat := []
  fanout : Nat := 1
  depth : Nat := 1
  leafl : Nat := 0
  noffset : Nat := 0
  ndepth : Nat := 0
  inner : Nat := 0
deriving Repr, DecidableEq, Inhabited

/-- `Bits(blk,bitorder=1).split(w)`: little-endian words -/
def wordsLE (w : Nat) (B : List Nat) : List Bits := (chunks (w / 8) B).map fun g => wd w (leInt g)

/-- `paramblock`: the bytes P -/
def paramBytes (c : Cfg) (outlen : Nat) (p : Params) (salt pers : List Nat) : List Nat :=
  [outlen % 256, 0, p.fanout % 256, p.depth % 256]
    ++ leBytes 4 (p.leafl % 2 ^ 32)
    ++ (if c.size = 512 then leBytes 8 (p.noffset % 2 ^ 64) else leBytes 6 (p.noffset % 2 ^ 48))
    ++ [p.ndepth % 256, p.inner % 256]
    ++ (if c.size = 512 then List.replicate 14 0 else [])
    ++ salt ++ pers

structure State where
  H : List Bits
  pad : PadState
  outlen : Nat
  /-- `self.t`: byte counter of the block being compressed -/
  t : Nat := 0
deriving Repr, DecidableEq, Inhabited

/-- `initstate(**kargs)`.  Salt / personalisation are documented as empty or exactly `wsize/4` bytes; other lengths
    make `IV ^ P` a vector of the wrong dimension (out of domain: refused here). -/
def initstate (c : Cfg) (p : Params) : Except Err State :=
  let w := c.wsize
  let l := w / 4
  let outlen := p.outlen.getD (c.size / 8)
  let salt := if p.salt = [] then List.replicate l 0 else p.salt
  let pers := if p.pers = [] then List.replicate l 0 else p.pers
  if ¬ (0 < outlen ∧ outlen ≤ w) then .error "AssertionError" else
  if salt.length ≠ l ∨ pers.length ≠ l then .error "domain:salt/pers length" else
  let P := wordsLE w (paramBytes c outlen p salt pers)
  .ok { H := xorL ((iv c).map (wd w)) P, pad := {}, outlen := outlen }

/-- one call `G(W,r,i,v,ja,jb,jc,jd)` of Blake2.update -/
def gstep (c : Cfg) (W : List Bits) (r : Nat) (v : List Bits) (g : List Nat) : List Bits :=
  let (p, q) := sigmaPQ BlakeG.b2sigmaMod r (g.getD 0 0)
  gapply (rot c) (getW W p) (getW W q) v (g.getD 1 0) (g.getD 2 0) (g.getD 3 0) (g.getD 4 0)

def round (c : Cfg) (W : List Bits) (v : List Bits) (r : Nat) : List Bits :=
  BlakeG.b2gsched.foldl (gstep c W r) v

/-- loop body of `Blake2.update`: `t` byte counter, `fin` = finalization flag f0 set -/
def compress (c : Cfg) (H W : List Bits) (t : Nat) (fin : Bool) : List Bits :=
  let w := c.wsize
  let ivw := (iv c).map (wd w)
  let tw := [wd w (t % 2 ^ (2 * w)), wd w ((t % 2 ^ (2 * w)) >>> w)]
  let f := [wd w (if fin then 2 ^ w - 1 else 0), wd w 0]
  let v0 := H ++ ivw.take 4 ++ xorL tw ((ivw.drop 4).take 2) ++ xorL f ((ivw.drop 6).take 2)
  let v := (List.range (rounds c)).foldl (round c W) v0
  xorL H (xorL (v.take 8) (v.drop 8))

/-- what `Blake2.iterblocks` hands to the loop for each block: (bytes, byte counter `self.t`, final flag).
    The look-ahead sets the flag on the last block of the call, and (after the fix) only when the call pads. -/
def trace (c : Cfg) (pad : PadState) (M : List Nat) (padding : Bool) : List (List Nat × Nat × Bool) :=
  let ys := ((Padder.mk .null c.blocksize).iterblocks pad M none padding).yields
  ys.zipIdx.map fun ((B, st), i) => (B, st.bitcnt / 8, padding && i + 1 == ys.length)

/-- `b''.join([pack(h) for h in self.H])[:self.outlen]` -/
def digest (outlen : Nat) (H : List Bits) : List Nat := (H.flatMap fun h => h.pack false).take outlen

/-- `update(M,padding)` -/
def update (c : Cfg) (s : State) (M : List Nat) (padding : Bool := false) : State × Except Err (List Nat) :=
  let it := (Padder.mk .null c.blocksize).iterblocks s.pad M none padding
  let tr := trace c s.pad M padding
  let H := tr.foldl (fun H (y : List Nat × Nat × Bool) => compress c H (wordsLE c.wsize y.1) y.2.1 y.2.2) s.H
  let t := match tr.getLast? with
    | some y => y.2.1
    | none => s.t
  let s' := { s with H := H, pad := it.final, t := t }
  match it.err with
  | some e => (s', .error e)
  | none => (s', .ok (digest s.outlen H))

/-- `for p in pieces: h.update(p)` (non-final updates) -/
def feed (c : Cfg) (s : State) (pieces : List (List Nat)) : State :=
  pieces.foldl (fun s p => (update c s p false).1) s

/-- `__call__(M,**kargs)` -/
def call (c : Cfg) (M : List Nat) (p : Params := {}) : Except Err (List Nat) := do
  let s ← initstate c p
  (update c s M true).2

def blake2b : Cfg := ⟨512⟩
def blake2s : Cfg := ⟨256⟩

end Blake2
end Model
