/-
  Model.Chacha — crysp/chacha.py (class Chacha(Salsa20)): own quarterround (in-place `a += b; d ^= a; d = rol(d,16)` …
  on dim-1 Polys), own index maps (rowround = diagonals, columnround through cM = salsa20.rMinv), constants in
  words 0..3, key in 4..11, counter in 12..13, nonce in 14..15.  doubleround/core/enc/dec/hash are inherited.
-/
import Model.Salsa
namespace Model
namespace Chacha
open Py Salsa

def rot (i : Nat) : Nat := Gen.Streams.chachaRot.getD i 0

/-- `Chacha.quarterround` -/
def quarterround (y : Poly) : Except Err Poly := do
  let a ← y.getInt 0
  let b ← y.getInt 1
  let c ← y.getInt 2
  let d ← y.getInt 3
  let a ← Poly.binop .add a b; let d ← Poly.binop .xor d a; let d ← rol d (rot 0)
  let c ← Poly.binop .add c d; let b ← Poly.binop .xor b c; let b ← rol b (rot 1)
  let a ← Poly.binop .add a b; let d ← Poly.binop .xor d a; let d ← rol d (rot 2)
  let c ← Poly.binop .add c d; let b ← Poly.binop .xor b c; let b ← rol b (rot 3)
  concatP [a, b, c, d]

def chacha : Variant where
  qr := quarterround
  rM := Gen.Streams.chachaRM
  rMinv := Gen.Streams.chachaRMinv
  cM := Gen.Streams.chachaCM
  cMinv := Gen.Streams.chachaCMinv
  nonceAt := 14
  ctrAt := 12

/-- `Chacha.__init__(K,rounds)`: the Salsa20 constructor first (asserts, key split, constants chosen there), then
    the state is rebuilt in ChaCha order from `self.p[0,5,10,15]` and `self.K` -/
def init (K : Option Bits) (rounds : Int) : Except Err State := do
  let s ← Salsa.init K rounds
  match s.K with
  | none => pure s
  | some ks => do
    let consts ← s.p.getList [0, 5, 10, 15]
    let p := Poly.ofInt 0 32 16
    let p ← p.setSlice (some 0) (some 4) none (.list consts.ival)
    let k0 ← bitsInts (← (ks.getD 0 default).split 32)
    let p ← p.setSlice (some 4) (some 8) none (.list k0)
    let k1 ← bitsInts (← (ks.getD 1 default).split 32)
    let p ← p.setSlice (some 8) (some 12) none (.list k1)
    pure { s with p := p }

end Chacha
end Model
