/-
  Model.Crc — crysp/crc.py as total Lean functions over Model.Bits.
  Byte strings are `List Nat` (each < 256, as the wire format delivers them).  The module-level objects
  POLY32_1, POLY32_1i, TABLE32_1, TABLE32_1b are the values read from the live module (Model.Gen.Crc).
  `struct.pack('I',·)` is the 4-byte little-endian encoding (native order of the hosts in scope) and raises
  for arguments ≥ 2^32.  Non-`bytes` data (the functions print a message and return None) is out of the wire domain.
-/
import Model.Bits
import Model.Gen.Crc
namespace Model.Crc
open Model Model.Py

/-- `c[0] != 0`: `c[0]` is `Bits(c.bit(0),1)`, and `bit(0)` is `ival&1` for size > 0 and `(ival>>0)&1` for size 0 -/
def lsb (c : Bits) : Nat := c.ival &&& 1

/-- one iteration of the inner loop of `crc_table`: `if c[0]!=0: c = P^(c>>1) else: c = c>>1` -/
def tableStep (P c : Bits) : Bits := if lsb c ≠ 0 then P.xor (c.shr 1) else c.shr 1

/-- `table[n]` of `crc_table(P)`: `c=Bits(n,P.size)` then eight steps -/
def tableEntry (P : Bits) (n : Nat) : Bits := Nat.repeat (tableStep P) 8 (Bits.ofNatSz n P.size)

/-- `crc_table(P)` (the loop reads `table[n]` before overwriting it, so this is a map over range(256)) -/
def crcTable (P : Bits) : List Bits := (List.range 256).map (tableEntry P)

/-- `c[-1]` for size ≥ 1 (`bit(-1)` = `(ival>>(size-1))&1`) -/
def msb (c : Bits) : Nat := (c.ival >>> (c.size - 1)) &&& 1

/-- one iteration of the inner loop of `crc_back_table`: `if c[-1]!=0: c = ((c^P)<<1)|1 else: c = c<<1` -/
def backStep (P c : Bits) : Bits := if msb c ≠ 0 then (((c.xor P).shl 1).or (Bits.ofNat 1)) else c.shl 1

def backEntry (P : Bits) (n : Nat) : Bits := Nat.repeat (backStep P) 8 (Bits.ofNatSz (n <<< (P.size - 8)) P.size)

/-- `crc_back_table(P)`: a dict 0..255 (held as the list of its values in key order);
    `n<<(P.size-8)` is a negative shift for sizes below 8 -/
def crcBackTable (P : Bits) : Except Err (List Bits) :=
  if P.size < 8 then .error "ValueError:negative shift count" else .ok ((List.range 256).map (backEntry P))

/-- `table[i]` for a list or a 0..255 dict -/
def lookup (table : List Bits) (i : Nat) : Except Err Bits :=
  match table[i]? with
  | some b => .ok b
  | none => .error "IndexError/KeyError"

/-- the forward loop of `crc`: `p = table[(r.ival^b)&0xff]; r = (r>>8)^p` -/
def fwdLoop (table : List Bits) : Bits → List Nat → Except Err Bits
  | r, [] => .ok r
  | r, b :: bs => do
      let p ← lookup table ((r.ival ^^^ b) &&& 0xff)
      fwdLoop table ((r.shr 8).xor p) bs

/-- `crc(data,table,Xinit=0,Xfinal=None)` -/
def crc (data : List Nat) (table : List Bits) (xinit : Int := 0) (xfinal : Option Int := none) : Except Err Nat := do
  let t0 ← lookup table 0
  let r ← fwdLoop table (Bits.ofInt xinit (some t0.size)) data
  match xfinal with
  | none => pure r.ival
  | some f => if f = 0 then pure r.ival else pure (r.xor (Bits.ofInt f none)).ival

/-- the backward loop of `crc_back_pos` over the bytes in the order given (already reversed by the caller):
    `p = table[r.ival>>(N-8)]^b; r = (r<<8)^p` -/
def backLoop (table : List Bits) (N : Nat) : Bits → List Nat → Except Err Bits
  | r, [] => .ok r
  | r, b :: bs => do
      if N < 8 then throw "ValueError:negative shift count"
      let e ← lookup table (r.ival >>> (N - 8))
      backLoop table N ((r.shl 8).xor (e.xor (Bits.ofNat b))) bs

/-- `crc_back_pos(data,pos,table,Xfinal,c)`; `none` = the printed "pos error" / None result -/
def crcBackPos (data : List Nat) (pos : Int) (table : List Bits) (xfinal : Int) (c : Int) : Except Err (Option Nat) := do
  if ¬ (0 ≤ pos ∧ pos < data.length) then return none
  let t0 ← lookup table 0
  let N := t0.size
  let r := (Bits.ofInt xfinal (some N)).xor (Bits.ofInt c none)
  let r ← backLoop table N r (data.drop pos.toNat).reverse
  pure (some r.ival)

def POLY32_1 : Bits := ⟨Gen.Crc.POLY32_1_ival, Gen.Crc.POLY32_1_size⟩
def POLY32_1i : Bits := ⟨Gen.Crc.POLY32_1i_ival, Gen.Crc.POLY32_1i_size⟩
def TABLE32_1 : List Bits := List.zipWith Bits.mk Gen.Crc.TABLE32_1_ival Gen.Crc.TABLE32_1_size
def TABLE32_1b : List Bits := List.zipWith Bits.mk Gen.Crc.TABLE32_1b_ival Gen.Crc.TABLE32_1b_size

/-- `crc32(data)`: `crc(data,TABLE32_1,0xffffffff)^0xffffffff` -/
def crc32 (data : List Nat) : Except Err Nat := do
  let r ← crc data TABLE32_1 0xffffffff
  pure (r ^^^ 0xffffffff)

/-- `crc32_back_pos(data,pos,c)` -/
def crc32BackPos (data : List Nat) (pos : Int) (c : Int) : Except Err (Option Nat) :=
  crcBackPos data pos TABLE32_1b 0xffffffff c

/-- `struct.pack('I',a)` -/
def packI (a : Nat) : Except Err (List Nat) :=
  if a < 2 ^ 32 then .ok (leBytes 4 a) else .error "struct.error"

/-- the 32-iteration loop of `crc32_fix` (`a = t*inv(x^32) mod POLY32_1`):
    `if a&1: a=(a>>1)^P else a=a>>1; if t&1: a=a^Pi; t=t>>1` -/
def fixLoop (P Pi : Nat) : Nat → Nat → Nat → Nat
  | 0, a, _ => a
  | n+1, a, t =>
    let a1 := if a &&& 1 ≠ 0 then (a >>> 1) ^^^ P else a >>> 1
    let a2 := if t &&& 1 ≠ 0 then a1 ^^^ Pi else a1
    fixLoop P Pi n a2 (t >>> 1)

/-- `data[:-4]` -/
def dropLast4 (data : List Nat) : List Nat := data.take (data.length - 4)

/-- `crc32_fix(data,target)` for an int target ≥ 0 -/
def crc32Fix (data : List Nat) (target : Nat) : Except Err (List Nat) := do
  let t := target ^^^ 0xffffffff
  let a := fixLoop POLY32_1.ival POLY32_1i.ival 32 0 t
  let c ← crc (dropLast4 data) TABLE32_1 0xffffffff
  let w ← packI (a ^^^ c)
  pure (dropLast4 data ++ w)

/-- `crc32_fix_pos(data,pos,target)` for pos ≥ 0, target ≥ 0 -/
def crc32FixPos (data : List Nat) (pos : Nat) (target : Nat) : Except Err (List Nat) := do
  let cfw ← crc (data.take pos) TABLE32_1 0xffffffff
  let w ← packI cfw
  let cbw ← crc32BackPos (w ++ data.drop (pos + 4)) 0 target
  match cbw with
  | none => throw "struct.error:None"      -- unreachable: the packed prefix makes the string non-empty
  | some v =>
    let w' ← packI v
    pure (data.take pos ++ w' ++ data.drop (pos + 4))

end Model.Crc
