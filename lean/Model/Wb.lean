/-
  Model.Wb — crysp/wb.py (the "bare naked" white-box DES: key-dependent T-boxes, the key-independent input map M1,
  mixing matrix M2, output map M3, and `WhiteDES.enc`) as total Lean functions on `Model.Bits` / `Model.Poly`.

  The generators mirror the Python statement by statement: Python lists are Lean lists (`pySlice`, `pySetSlice`,
  `pyRemove`), the `Poly` plumbing goes through `Model.Poly` (ring Z: size 0, coefficients `Int`), the DES
  permutations applied to a `Poly` (`E(Poly(...))`: duck typing, `L[table]` on a Poly) use the same probed tables
  `Model.Gen.Des.*` and the same assertion as `Model.Des`.  Every loop is a structural recursion over an explicit
  index list, so the closed (key-independent) terms evaluate inside `decide +kernel`.

  An entry of the list `m` of `table_M2` is an int or a 2-tuple of ints in Python (the `try: for x in l … except
  TypeError` distinguishes them); here every entry is the list of its ints (`[x]` / `[a,b]`).

  `set(range(32))` with removals, then `list(sr)`: CPython iterates a set of small non-negative ints in ascending
  order (hash(i) = i, table larger than every element); the set is modelled as an ascending list.
-/
import Model.Bits
import Model.Poly
import Model.Des
import Model.Gen.Des
namespace Model
open Py

namespace Wb
open Bits

/-! ### Python list plumbing -/

/-- `l[a:b]` for `0 ≤ a`, `0 ≤ b` -/
def pySlice {α} (l : List α) (a b : Nat) : List α := (l.take b).drop a

/-- `l[a:b] = v` for `0 ≤ a`, `0 ≤ b` (bounds clamped to the length, `b < a` treated as `b = a`; the list may change length) -/
def pySetSlice {α} (l : List α) (a b : Nat) (v : List α) : List α :=
  let a' := min a l.length
  let b' := max a' (min b l.length)
  l.take a' ++ v ++ l.drop b'

/-- `l.remove(x)`: first occurrence, `ValueError` when absent (also `set.remove`: `KeyError`) -/
def pyRemove {α} [DecidableEq α] (l : List α) (x : α) : Except Err (List α) :=
  if x ∈ l then .ok (l.erase x) else .error "ValueError:x not in list"

/-- `l[i]` for `i ≥ 0` -/
def pyIdx {α} (l : List α) (i : Nat) : Except Err α :=
  match l[i]? with
  | some x => .ok x
  | none => .error "IndexError"

def natIdx (t : List Nat) : List Int := t.map Int.ofNat
def toNats (l : List Int) : List Nat := l.map Int.toNat

/-- `Poly(list(range(a,b)))` -/
def identPoly (a b : Nat) : Poly := Poly.ofList (natIdx ((List.range (b - a)).map (· + a)))

/-! ### des.py permutations on a Poly operand (`assert len(x)==n; return x[table]`) -/

def permP (n : Nat) (tbl : List Nat) (p : Poly) : Except Err Poly :=
  if p.dim ≠ n then .error Des.assertErr else p.getList (natIdx tbl)

def EP : Poly → Except Err Poly := permP 32 Gen.Des.e
def PP : Poly → Except Err Poly := permP 32 Gen.Des.p
def IPP : Poly → Except Err Poly := permP 64 Gen.Des.ip
def IPinvP : Poly → Except Err Poly := permP 64 Gen.Des.ipinv

/-! ### getrbits_T_in -/

/-- `for i in range(8): sr.remove(r[0]); sr.remove(r[5]); rbits += [r[0],r[5]]; r = r[6:]` -/
def rbitsLoop : List Nat → List Int → List Int → List Int → Except Err (List Int × List Int)
  | [], _, sr, rbits => .ok (sr, rbits)
  | _ :: is, r, sr, rbits => do
      let r0 ← pyIdx r 0
      let sr ← pyRemove sr r0
      let r5 ← pyIdx r 5
      let sr ← pyRemove sr r5
      rbitsLoop is (r.drop 6) sr (rbits ++ [r0, r5])

/-- `getrbits_T_in()` as the Python list of ints -/
def getrbitsTinZ : Except Err (List Int) := do
  let r := (← EP (identPoly 0 32)).ival
  let sr := natIdx (List.range 32)
  let (sr, rbits) ← rbitsLoop (List.range 8) r sr []
  pure (rbits ++ sr)

def getrbitsTin : Except Err (List Nat) := do pure (toNats (← getrbitsTinZ))

/-! ### table_M1 -/

structure M1State where
  blk : List (List Int)
  re : List Int
  rbits : List Int
  l : List Int

/-- one pass of `for b in range(12)` (the row `blk[b]` is built, then appended) -/
def m1Step (s : M1State) (b : Nat) : Except Err M1State :=
  let row : List Int := List.replicate 8 0
  if b < 8 then do
    let row := pySetSlice row 0 6 (pySlice s.re 0 6)
    let re0 ← pyIdx s.re 0
    let rb ← pyRemove s.rbits re0
    let re5 ← pyIdx s.re 5
    let rb ← pyRemove rb re5
    let re := s.re.drop 6
    let row := pySetSlice row 6 8 (pySlice s.l 0 2)
    pure ⟨s.blk ++ [row], re, rb, s.l.drop 2⟩
  else
    let row := pySetSlice row 0 4 (pySlice s.l 0 4)
    let row := pySetSlice row 4 8 (pySlice s.rbits 0 4)
    pure ⟨s.blk ++ [row], s.re, s.rbits.drop 4, s.l.drop 4⟩

def m1Loop : List Nat → M1State → Except Err M1State
  | [], s => .ok s
  | b :: bs, s => do let s' ← m1Step s b; m1Loop bs s'

/-- `table_M1()` -/
def tableM1 : Except Err (List Nat) := do
  let l := natIdx (List.range 32)
  let r := identPoly 32 64
  let re := (← EP r).ival
  let rbits := r.ival
  let s ← m1Loop (List.range 12) ⟨[], re, rbits, l⟩
  if s.rbits.length ≠ 0 then throw Des.assertErr
  if s.l.length ≠ 0 then throw Des.assertErr
  let table := s.blk.flatten
  let M := identPoly 0 64
  let q ← IPP M
  let t ← q.getList table
  pure (toNats t.ival)

/-! ### SRLRformat / ERLRformat -/

structure FmtState where
  A : Poly        -- SR (32) or ER (48)
  L : Poly
  R : Poly
  rbits : List Int

/-- `s = I[8*i:8*i+8].ival` -/
def byteIdx (I : Poly) (i : Nat) : Except Err (List Int) := do
  let p ← I.getSlice (some (8 * i : Nat)) (some (8 * i + 8 : Nat)) none
  pure p.ival

/-- SRLR, `for i in range(0,8)`: `SR[4*i:4*i+4]=s[:4]; R[rbits[:2]]=s[4:6]; L[2*i:2*i+2]=s[6:8]; rbits=rbits[2:]` -/
def srlrStepA (I : Poly) (st : FmtState) (i : Nat) : Except Err FmtState := do
  let s ← byteIdx I i
  let SR ← st.A.setSlice (some (4 * i : Nat)) (some (4 * i + 4 : Nat)) none (.list (pySlice s 0 4))
  let R ← st.R.setIdx (pySlice st.rbits 0 2) (.list (pySlice s 4 6))
  let L ← st.L.setSlice (some (2 * i : Nat)) (some (2 * i + 2 : Nat)) none (.list (pySlice s 6 8))
  pure ⟨SR, L, R, st.rbits.drop 2⟩

/-- ERLR, `for i in range(0,8)`: `ER[6*i:6*i+6]=s[:6]; R[rbits[:2]]=[s[0],s[5]]; L[2*i:2*i+2]=s[6:8]; rbits=rbits[2:]` -/
def erlrStepA (I : Poly) (st : FmtState) (i : Nat) : Except Err FmtState := do
  let s ← byteIdx I i
  let ER ← st.A.setSlice (some (6 * i : Nat)) (some (6 * i + 6 : Nat)) none (.list (pySlice s 0 6))
  let s0 ← pyIdx s 0
  let s5 ← pyIdx s 5
  let R ← st.R.setIdx (pySlice st.rbits 0 2) (.list [s0, s5])
  let L ← st.L.setSlice (some (2 * i : Nat)) (some (2 * i + 2 : Nat)) none (.list (pySlice s 6 8))
  pure ⟨ER, L, R, st.rbits.drop 2⟩

/-- both, `for i in range(8,12)`: `L[4*i-16:4*i-12]=s[:4]; R[rbits[:4]]=s[4:]; rbits=rbits[4:]` -/
def fmtStepB (I : Poly) (st : FmtState) (i : Nat) : Except Err FmtState := do
  let s ← byteIdx I i
  let L ← st.L.setSlice (some ((4 * i : Nat) - 16 : Int)) (some ((4 * i : Nat) - 12 : Int)) none (.list (pySlice s 0 4))
  let R ← st.R.setIdx (pySlice st.rbits 0 4) (.list (s.drop 4))
  pure ⟨st.A, L, R, st.rbits.drop 4⟩

def fmtLoop (step : FmtState → Nat → Except Err FmtState) : List Nat → FmtState → Except Err FmtState
  | [], s => .ok s
  | i :: is, s => do let s' ← step s i; fmtLoop step is s'

def zerosZ (n : Nat) : Poly := Poly.ofList (List.replicate n 0)

/-- `SRLRformat()` → (SR, L, R) -/
def srlrFormatP : Except Err (Poly × Poly × Poly) := do
  let I := identPoly 0 96
  let rbits ← getrbitsTinZ
  let st ← fmtLoop (srlrStepA I) [0, 1, 2, 3, 4, 5, 6, 7] ⟨zerosZ 32, zerosZ 32, zerosZ 32, rbits⟩
  let st ← fmtLoop (fmtStepB I) [8, 9, 10, 11] st
  pure (st.A, st.L, st.R)

/-- `ERLRformat()` → (ER, L, R) -/
def erlrFormatP : Except Err (Poly × Poly × Poly) := do
  let I := identPoly 0 96
  let rbits ← getrbitsTinZ
  let st ← fmtLoop (erlrStepA I) [0, 1, 2, 3, 4, 5, 6, 7] ⟨zerosZ 48, zerosZ 32, zerosZ 32, rbits⟩
  let st ← fmtLoop (fmtStepB I) [8, 9, 10, 11] st
  pure (st.A, st.L, st.R)

def srlrFormat : Except Err (List Nat × List Nat × List Nat) := do
  let (a, l, r) ← srlrFormatP; pure (toNats a.ival, toNats l.ival, toNats r.ival)
def erlrFormat : Except Err (List Nat × List Nat × List Nat) := do
  let (a, l, r) ← erlrFormatP; pure (toNats a.ival, toNats l.ival, toNats r.ival)

/-! ### table_M2 -/

structure M2State where
  m : List (List Int)
  RE : List (List Int)
  newL : List Int
  rbits : List Int

/-- `for r in range(8): m += RE[0:6]+newL[0:2]; RE = RE[6:]; newL = newL[2:]` -/
def m2LoopA : List Nat → M2State → M2State
  | [], s => s
  | _ :: rs, s =>
      m2LoopA rs ⟨s.m ++ (pySlice s.RE 0 6 ++ (pySlice s.newL 0 2).map fun x => [x]), s.RE.drop 6, s.newL.drop 2, s.rbits⟩

/-- `for b in rbits[:4]: m += [newR[b]]` -/
def m2Inner (newR : List (List Int)) : List Int → List (List Int) → Except Err (List (List Int))
  | [], m => .ok m
  | b :: bs, m =>
      match normIndex b newR.length with
      | some j => m2Inner newR bs (m ++ [newR.getD j []])
      | none => .error "IndexError"

/-- `for r in range(4): m += newL[0:4]; (inner); newL = newL[4:]; rbits = rbits[4:]` -/
def m2LoopB (newR : List (List Int)) : List Nat → M2State → Except Err M2State
  | [], s => .ok s
  | _ :: rs, s => do
      let m := s.m ++ (pySlice s.newL 0 4).map fun x => [x]
      let m ← m2Inner newR (pySlice s.rbits 0 4) m
      m2LoopB newR rs ⟨m, s.RE, s.newL.drop 4, s.rbits.drop 4⟩

/-- `for x in l: Mat[v][x]=1` (or `Mat[v][l]=1` for an int entry), then `.ival` -/
def m2Row (l : List Int) : Except Err Nat := do
  let b ← l.foldlM (fun (acc : Bits) x => acc.setInt x 1) (ofNatSz 0 96)
  pure b.ival

/-- `table_M2()` → (Mat, m) -/
def tableM2 : Except Err (List Nat × List (List Nat)) := do
  let (SR, L, R) ← srlrFormatP
  let newL := R.ival
  let psr ← PP SR
  -- list(zip(P(SR),L)): iteration of a Poly over Z yields its coefficients
  let newR : List (List Int) := (List.zip psr.ival L.ival).map fun (a, b) => [a, b]
  let e ← EP (identPoly 0 L.dim)
  let RE ← e.ival.mapM fun i =>
    match normIndex i newR.length with
    | some j => Except.ok (newR.getD j [])
    | none => Except.error "IndexError"
  let s := m2LoopA (List.range 8) ⟨[], RE, newL, []⟩
  let rb ← getrbitsTinZ
  let s ← m2LoopB newR (List.range 4) { s with rbits := rb.drop 16 }
  if s.m.length ≠ 96 then throw Des.assertErr
  let Mat ← s.m.mapM m2Row
  pure (Mat, s.m.map toNats)

/-! ### table_M3 -/

/-- `table_M3()` -/
def tableM3 : Except Err (List Nat) := do
  let (_, L, R) ← erlrFormatP
  let C := Poly.ofList (R.ival ++ L.ival)
  let o ← IPinvP C
  pure (toNats o.ival)

/-! ### key-dependent T-boxes -/

/-- `i=x[(5,0)].ival; j=x[(4,3,2,1)].ival; Bits(S(n,(i<<4)+j),4)[::-1].ival` (the expression shared with `des.F`) -/
def sboxOut (n : Nat) (x : Bits) : Except Err Nat := do
  let i := (x.pick [5, 0]).ival
  let j := (x.pick [4, 3, 2, 1]).ival
  let v ← Des.S n ((i <<< 4) + j)
  pure ((ofNatSz v.ival 4).pick [3, 2, 1, 0]).ival

/-- `t[n][v] = w` (indices in range by construction) -/
def set2 (t : List (List Nat)) (n v w : Nat) : List (List Nat) := t.set n ((t.getD n []).set v w)

/-- the inner loop shared by `table_rKS` and `table_rKT`: `for n in ns: t[n][idx] = entry(n)` -/
def tabInner (entry : Nat → Except Err Nat) (idx : Nat) : List Nat → List (List Nat) → Except Err (List (List Nat))
  | [], t => .ok t
  | n :: ns, t => do
      let w ← entry n
      tabInner entry idx ns (set2 t n idx w)

/-- the outer loop: `for v in vs: re = Bits(v,w); for n in range(8): t[n][re] = entry(v,n)` (`idx v` = `re.__index__()`) -/
def tabOuter (entry : Nat → Nat → Except Err Nat) (idx : Nat → Nat) : List Nat → List (List Nat) → Except Err (List (List Nat))
  | [], t => .ok t
  | v :: vs, t => do
      let t' ← tabInner (entry v) (idx v) (List.range 8) t
      tabOuter entry idx vs t'

/-- `re = Bits(v,6); x = re^nfk[n]; …; rks[n][re] = Bits(S(n,(i<<4)+j),4)[::-1].ival` -/
def rksEntry (nfk : List Bits) (v n : Nat) : Except Err Nat := do
  let k ← pyIdx nfk n
  sboxOut n ((ofNatSz v 6).xor k)

/-- `table_rKS(r,K)` -/
def tableRKS (r : Nat) (K : Bits) : Except Err (List (List Nat)) := do
  let fk ← Des.subkey (Des.PC1 K) r
  let nfk ← fk.split 6
  tabOuter (rksEntry nfk) (fun v => (ofNatSz v 6).ival) (List.range 64) (List.replicate 8 (List.replicate 64 0))

/-- `re = Bits(v,8); x = Bits(rks[n][re[0:6].ival],4)//re[(0,5,6,7)]; rkt[n][re.ival] = x.ival` -/
def rktEntry (rks : List (List Nat)) (v n : Nat) : Except Err Nat := do
  let re := ofNatSz v 8
  let row ← pyIdx rks n
  let s ← pyIdx row (re.sliceFast 0 6).ival
  pure ((ofNatSz s 4).concat (re.pick [0, 5, 6, 7])).ival

/-- `table_rKT(r,K)` → (rks, rkt) -/
def tableRKT (r : Nat) (K : Bits) : Except Err (List (List Nat) × List (List Nat)) := do
  let rks ← tableRKS r K
  let rkt ← tabOuter (rktEntry rks) (fun v => (ofNatSz v 8).ival) (List.range 256) (List.replicate 12 (List.range 256))
  pure (rks, rkt)

/-- `KT = [table_rKT(r,K)[1] for r in range(16)]` (tests/test_des.py) -/
def KT (K : Bits) : Except Err (List (List (List Nat))) :=
  (List.range 16).mapM fun r => do let t ← tableRKT r K; pure t.2

/-! ### WhiteDES -/

structure WhiteDES where
  KT : List (List (List Nat))
  tM1 : List Nat
  tM2 : List Nat
  tM3 : List Nat
deriving Repr

/-- `for b in range(96): res[b] = (v&self.tM2[b]).hw()%2` -/
def fxLoop (tM2 : List Nat) (v : Bits) : List Nat → Bits → Except Err Bits
  | [], res => .ok res
  | b :: bs, res => do
      let t ← pyIdx tM2 b
      let res' ← res.setInt b ((v.and (ofNat t)).hw % 2)
      fxLoop tM2 v bs res'

/-- `__FX(v)` -/
def WhiteDES.FX (w : WhiteDES) (v : Bits) : Except Err Bits :=
  fxLoop w.tM2 v (List.range 96) (ofNatSz 0 96)

/-- `for n in range(12): nt=t+8; blk[t:nt] = self.KT[r][n][blk[t:nt]]; t=nt`  (t = 8n) -/
def tboxLoop (kr : List (List Nat)) : List Nat → Bits → Except Err Bits
  | [], blk => .ok blk
  | n :: ns, blk => do
      let x ← blk.getSlice (some (8 * n : Nat)) (some (8 * n + 8 : Nat)) none
      let row ← pyIdx kr n
      let y ← pyIdx row (x.ival &&& x.mask)            -- tuple[Bits] goes through `__index__` = `int()`
      let blk' ← blk.setSlice (some (8 * n : Nat)) (some (8 * n + 8 : Nat)) none (ofNat y)
      tboxLoop kr ns blk'

/-- `for r in range(16): (tbox loop); blk = self.__FX(blk)` -/
def encLoop (w : WhiteDES) : List Nat → Bits → Except Err Bits
  | [], blk => .ok blk
  | r :: rs, blk => do
      let kr ← pyIdx w.KT r
      let blk' ← tboxLoop kr (List.range 12) blk
      let blk'' ← w.FX blk'
      encLoop w rs blk''

/-- `WhiteDES.enc(M)` -/
def WhiteDES.enc (w : WhiteDES) (M : List Nat) : Except Err (List Nat) := do
  if M.length ≠ 8 then throw Des.assertErr
  let Mb ← ofBytes M
  let blk := Mb.pick w.tM1
  let blk ← encLoop w (List.range 16) blk
  pure (blk.pick w.tM3).toBytes

/-- the tables for a key given as bytes: `bK = Bits(K,64)`, `KT`, `table_M1()`, `table_M2()[0]`, `table_M3()` -/
def mkWhiteDES (K : List Nat) : Except Err WhiteDES := do
  let bK ← ofBytes K (some 64)
  let kt ← KT bK
  let m1 ← tableM1
  let m2 ← tableM2
  let m3 ← tableM3
  pure ⟨kt, m1, m2.1, m3⟩

/-- build everything for key bytes K and encrypt M -/
def wbEnc (K M : List Nat) : Except Err (List Nat) := do
  let w ← mkWhiteDES K
  w.enc M

/-! ### several generations in one process

The generators take no state: there is no module-level cache, no default argument, no object kept between two calls,
so in the model a table is a value.  `genSeq` is the program the `wb.seq` lines run on the real code: the network of
`K1` is generated, the caller then modifies that network's tables in place (`f`, arbitrary: a fault-injection
experiment on that one instance), then the network of `K2` is generated.  In Lean `f` produces a new first network and
cannot reach anything the second generation reads; whether that also holds for the Python *objects* (no list shared
between two calls of a generator or between two `WhiteDES` instances) is not expressible here and is decided by the
correspondence stream (`wb.seq`: object identity and modify-then-generate on the real code). -/
def genSeq (K1 : List Nat) (f : WhiteDES → WhiteDES) (K2 : List Nat) : Except Err (WhiteDES × WhiteDES) := do
  let w1 ← mkWhiteDES K1
  let w1' := f w1
  let w2 ← mkWhiteDES K2
  pure (w1', w2)

end Wb
end Model
