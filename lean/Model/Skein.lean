/-
  Model.Skein — crysp/skein.py (classes Tweak, UBI, Skein) as total Lean functions, after the `fix:` commits
  (byte-aligned explicit bit lengths are not bit-padded; an empty key is no key; every output block uses a fresh
  tweak; the empty message has one empty leaf in tree mode; tree mode honours the bit length).

  * `Tweak` is a 128-bit `Bits`; its properties are `Bits` slice reads (`self[a:b].int()`) and slice assignments
    (`self[a:b] = val`, which ORs `val << a` into the cleared field WITHOUT masking `val` — an overflowing value spills
    into the neighbouring fields; `UBI.__call__` guards the position with an assert).
  * `UBI.iterblocks` is a generator that mutates `self.Ts` between yields and yields `pack(Ts)`; the model returns the
    list of (tweak bytes, block) pairs in yield order, which is what `UBI.__call__` consumes.
  * byte strings are `List Nat`; `None` arguments are `Option`.
-/
import Model.Bits
import Model.Threefish
namespace Model.Skein
open Model

/-! ### class Tweak(Bits) -/

/-- `self[a:b].int()` -/
def getField (t : Bits) (a b : Nat) : Except Err Nat := do
  let s ← t.getSlice (some (a : Int)) (some (b : Int)) none
  pure (s.ival &&& s.mask)

/-- `self[a:b] = val` for a non-negative int `val` -/
def setField (t : Bits) (a b : Nat) (val : Nat) : Except Err Bits :=
  t.setSlice (some (a : Int)) (some (b : Int)) none (Bits.ofNat val)

/-- the dictionary of the `Type` setter -/
def typeCode (ty : String) : Except Err Nat :=
  match ty with
  | "key" => .ok 0 | "cfg" => .ok 4 | "prs" => .ok 8 | "PK" => .ok 12 | "kdf" => .ok 16
  | "non" => .ok 20 | "msg" => .ok 48 | "out" => .ok 63
  | _ => .error "KeyError"

def getPosition (t : Bits) := getField t 0 96
def setPosition (t : Bits) (v : Nat) := setField t 0 96 v
def getTreeLevel (t : Bits) := getField t 112 119
def setTreeLevel (t : Bits) (v : Nat) := setField t 112 119 v
def getBitPad (t : Bits) := getField t 119 120
def setBitPad (t : Bits) (v : Nat) := setField t 119 120 v
def setType (t : Bits) (ty : String) : Except Err Bits := do let c ← typeCode ty; setField t 120 126 c
def getFirst (t : Bits) := getField t 126 127
def setFirst (t : Bits) (v : Nat) := setField t 126 127 v
def getFinal (t : Bits) := getField t 127 128
def setFinal (t : Bits) (v : Nat) := setField t 127 128 v

/-- `Tweak(Type=ty)` -/
def tweakOfType (ty : String) : Except Err Bits := setType ⟨0, 128⟩ ty
/-- `Tweak(TreeLevel=lv,Type=ty)` (keyword order: TreeLevel, then Type) -/
def tweakOfLevelType (lv : Nat) (ty : String) : Except Err Bits := do
  let t ← setTreeLevel ⟨0, 128⟩ lv
  setType t ty

/-! ### class UBI(Chain) -/

/-- `Chain.xorstr`: zip, so the shorter operand decides the length -/
def xorstr (a b : List Nat) : List Nat := List.zipWith (· ^^^ ·) a b

/-- the padded message and the BitPad flag (first lines of `iterblocks`) -/
def bitPadded (M : List Nat) (bitlen : Option Nat) : Except Err (List Nat × Nat) :=
  match bitlen with
  | none => pure (M, 0)
  | some L => do
    let b ← Bits.ofBytes M (some L) (-1)
    let b := if L % 8 ≠ 0 then b.concat (Bits.ofNatSz 1 1) else b
    pure (b.toBytes, if L % 8 ≠ 0 then 1 else 0)

/-- the `for b in range(nb-1)` loop: yields (pack(Ts), block) after advancing the position, then clears First -/
def midBlocks (lb : Nat) : Nat → Bits → List Nat → Except Err (Bits × List Nat × List (List Nat × List Nat))
  | 0, ts, P => pure (ts, P, [])
  | n + 1, ts, P => do
    let m := P.take lb
    let pos ← getPosition ts
    let ts ← setPosition ts (pos + lb)
    let y := (ts.pack, m)
    let ts ← setFirst ts 0
    let (ts', P', ys) ← midBlocks lb n ts (P.drop lb)
    pure (ts', P', y :: ys)

/-- `UBI.iterblocks(M,bitlen)` as the list of yielded pairs; `lb = len(self.G)` -/
def iterblocks (lb : Nat) (ts : Bits) (M : List Nat) (bitlen : Option Nat) : Except Err (List (List Nat × List Nat)) := do
  let (M1, B) ← bitPadded M bitlen
  let l := M1.length
  if lb = 0 then .error "ZeroDivisionError" else
  let rb := l % lb
  let pad : Bool := l = 0 || rb > 0
  let lp := if pad then lb - rb else 0
  let M2 := if pad then M1 ++ List.replicate lp 0 else M1
  let nb := if pad then l / lb + 1 else l / lb
  let ts ← setFirst ts 1
  let (ts, P, ys) ← midBlocks lb (nb - 1) ts M2
  let ts ← setFinal ts 1
  let ts ← setBitPad ts B
  let m := P.take lb
  let pos ← getPosition ts
  let ts ← setPosition ts (pos + (lb - lp))
  pure (ys ++ [(ts.pack, m)])

/-- `UBI(Threefish,G,Ts)(M,bitlen)`: constructor asserts, position assert, then the chaining loop -/
def ubi (G : List Nat) (ts : Bits) (M : List Nat) (bitlen : Option Nat) : Except Err (List Nat) := do
  -- a tweak that does not have 128 bits makes every Threefish construction assert (there is always a block)
  if ts.size ≠ 128 then .error "AssertionError:T.size" else
  if (← getBitPad ts) ≠ 0 then .error "AssertionError:BitPad" else
  if (← getFirst ts) ≠ 0 then .error "AssertionError:First" else
  if (← getFinal ts) ≠ 0 then .error "AssertionError:Final" else
  let pos ← getPosition ts
  if ¬ (pos + M.length < 2 ^ 96) then .error "AssertionError:Position" else
  let blocks ← iterblocks G.length ts M bitlen
  blocks.foldlM (fun H (tm : List Nat × List Nat) => do
    let X ← Threefish.encrypt H tm.1 tm.2
    pure (xorstr X tm.2)) G

/-! ### class Skein -/

structure Cfg where
  Nb : Nat              -- bytes
  No : Nat
  C : List Nat
  Yl : Nat
  Yf : Nat
  Ym : Nat
  key : Option (List Nat)
  prs : Option (List Nat)
  PK : Option (List Nat)
  kdf : Option (List Nat)
  non : Option (List Nat)
deriving Repr

/-- Python truthiness of an optional byte string: `if self.x:` -/
def truthy (o : Option (List Nat)) : Bool := match o with | some (_ :: _) => true | _ => false

/-- `Skein(Nb,No,Yl=,Yf=,Ym=,key=,prs=,PK=,kdf=,nonce=)` (schema b"SHA3", version 1) -/
def mk (Nb No Yl Yf Ym : Nat) (key prs PK kdf non : Option (List Nat)) : Except Err Cfg :=
  if ¬ (Nb = 256 ∨ Nb = 512 ∨ Nb = 1024) then .error "AssertionError:Nb" else
  let hdr := ((Bits.ofNatSz 1 16).concat (Bits.ofNatSz 0 16)).concat (Bits.ofNatSz No 64)
  -- `bytes([Yl,Yf,Ym])`
  if Yl > 255 ∨ Yf > 255 ∨ Ym > 255 then .error "ValueError:bytes must be in range(0, 256)" else
  .ok { Nb := Nb / 8, No := No,
        C := [0x53, 0x48, 0x41, 0x33] ++ hdr.pack ++ [Yl, Yf, Ym] ++ List.replicate 13 0,
        Yl := Yl, Yf := Yf, Ym := Ym, key := key, prs := prs, PK := PK, kdf := kdf, non := non }

/-- `self.update(M,T)` for a non-message stage -/
def stage (G : List Nat) (M : List Nat) (ty : String) : Except Err (List Nat) := do
  let t ← tweakOfType ty
  ubi G t M none

def optStage (G : List Nat) (o : Option (List Nat)) (ty : String) : Except Err (List Nat) :=
  if truthy o then stage G (o.getD []) ty else pure G

/-- `_initstate()` -/
def initstate (c : Cfg) : Except Err (List Nat) := do
  let G := List.replicate c.Nb 0
  let G ← optStage G c.key "key"
  let G ← stage G c.C "cfg"
  let G ← optStage G c.prs "prs"
  let G ← optStage G c.PK "PK"
  let G ← optStage G c.kdf "kdf"
  optStage G c.non "non"

/-- `lm = None if (bitlen is None or i+Nl<len(M)) else bitlen-8*i`: the bit length handed to the UBI of the piece at offset i -/
def leafBits (M : List Nat) (step i : Nat) (bitlen : Option Nat) : Option Nat :=
  match bitlen with
  | none => none
  | some L => if i + step < M.length then none else some (L - 8 * i)

/-- one level of the tree: `for i in range(0,total,step): Mi.append(UBI(G,Ts)(M[i:i+step],lm)); Ts.Position += step`.
    `cnt` pieces remain, `i` is the current offset; `bitlen` only for the leaf level. -/
def level (G : List Nat) (step : Nat) (M : List Nat) (bitlen : Option Nat) :
    Nat → Nat → Bits → Except Err (Bits × List Nat)
  | 0, _, ts => pure (ts, [])
  | cnt + 1, i, ts => do
    let m := (M.drop i).take step
    let h ← ubi G ts m (leafBits M step i bitlen)
    let pos ← getPosition ts
    let ts ← setPosition ts (pos + step)
    let (ts', rest) ← level G step M bitlen cnt (i + step) ts
    pure (ts', h ++ rest)

/-- `len(range(0,total,step))` for step ≥ 1 -/
def pieces (total step : Nat) : Nat := (total + step - 1) / step

/-- the `while len(M)>self.Nb` loop; `fuel` bounds the number of levels (the level counter reaches Ym first) -/
def nodeLevels (c : Cfg) (G : List Nat) (Nn : Nat) : Nat → Bits → List Nat → Except Err (List Nat)
  | 0, _, _ => .error "fuel:tree levels"
  | fuel + 1, ts, M =>
    if M.length > c.Nb then do
      let lv ← getTreeLevel ts
      let ts ← setTreeLevel ts (lv + 1)
      let ts ← setPosition ts 0
      let lv ← getTreeLevel ts
      if lv = c.Ym then ubi G ts M none
      else do
        let (ts, M') ← level G Nn M none (pieces M.length Nn) 0 ts
        nodeLevels c G Nn fuel ts M'
    else if M.length = c.Nb then pure M
    else .error "ValueError"

/-- `if bitlen is not None: M = M[:(bitlen+7)//8]` -/
def cutMsg (M : List Nat) (bitlen : Option Nat) : List Nat :=
  match bitlen with
  | none => M
  | some L => M.take ((L + 7) / 8)

/-- `_treehash(M,bitlen)`: returns the new `self.G` -/
def treehash (c : Cfg) (G : List Nat) (M : List Nat) (bitlen : Option Nat) : Except Err (List Nat) := do
  if ¬ (c.Yl ≥ 1) then .error "AssertionError:Yl" else
  if ¬ (c.Yf ≥ 1) then .error "AssertionError:Yf" else
  if ¬ (c.Ym ≥ 2) then .error "AssertionError:Ym" else
  let Nl := c.Nb <<< c.Yl
  let Nn := c.Nb <<< c.Yf
  let ts ← tweakOfLevelType 1 "msg"
  let M := cutMsg M bitlen
  let total := if M.length = 0 then 1 else M.length
  let (ts, M1) ← level G Nl M bitlen (pieces total Nl) 0 ts
  nodeLevels c G Nn 256 ts M1

/-- `update(M,'msg',bitlen)` -/
def updateMsg (c : Cfg) (G : List Nat) (M : List Nat) (bitlen : Option Nat) : Except Err (List Nat) :=
  if ¬ (c.Yl = c.Yf ∧ c.Yf = c.Ym ∧ c.Ym = 0) then treehash c G M bitlen
  else do
    let t ← tweakOfType "msg"
    ubi G t M bitlen

/-- `output(G)` -/
def output (c : Cfg) (G : List Nat) : Except Err (List Nat) := do
  let lq := (c.No + 7) / 8
  let t ← tweakOfType "out"
  -- `while l<lq`: every block has len(G) bytes; a zero-length block would loop forever (cannot happen: len(G) = Nb)
  if G.length = 0 ∧ lq > 0 then .error "hang:output" else
  let n := if G.length = 0 then 0 else (lq + G.length - 1) / G.length
  let O ← (List.range n).mapM fun i => ubi G t (Bits.ofNatSz i 64).pack none
  pure ((O.flatMap id).take lq)

/-- `Skein(...)(M,bitlen)` -/
def call (c : Cfg) (M : List Nat) (bitlen : Option Nat) : Except Err (List Nat) := do
  let G ← initstate c
  let G ← updateMsg c G M bitlen
  output c G

/-- constructor + call -/
def hash (Nb No Yl Yf Ym : Nat) (key prs PK kdf non : Option (List Nat)) (M : List Nat) (bitlen : Option Nat) :
    Except Err (List Nat) := do
  let c ← mk Nb No Yl Yf Ym key prs PK kdf non
  call c M bitlen

end Model.Skein
