/-
  Model.ToyCipher — two toy block "ciphers" (keyed permutations of n-byte blocks) used to drive crysp/mode.py and
  Model.Mode side by side.  They are test scaffolding, mirrored line by line by the classes `ToyRot`/`ToyAff` in
  tools/props/C05.py; nothing here is part of crysp.

    rot:  enc(b) = rotate-left-by-one-byte of (b xor key)
    aff:  enc(b) = reverse of [ (5·x + k) mod 256 ]           (non-linear over GF(2); 5·205 ≡ 1 mod 256)
  Both refuse a block whose length is not n (ValueError).
-/
import Model.Mode
namespace Model.Toy
open Model

def xorKey (key b : List Nat) : List Nat := List.zipWith (· ^^^ ·) b key

def rotEncF (key b : List Nat) : List Nat := let x := xorKey key b; x.drop 1 ++ x.take 1
def rotDecF (key y : List Nat) : List Nat := xorKey key (y.drop (y.length - 1) ++ y.take (y.length - 1))

def affEncF (key b : List Nat) : List Nat := (List.zipWith (fun x k => (5 * x + k) % 256) b key).reverse
def affDecF (key y : List Nat) : List Nat :=
  List.zipWith (fun x k => (205 * (x + 256 - k % 256)) % 256) y.reverse key

def guardLen (n : Nat) (f : List Nat → List Nat) (b : List Nat) : Except Err (List Nat) :=
  if b.length ≠ n then .error "ValueError:block length" else .ok (f b)

def rot (n : Nat) (key : List Nat) : BlockCipher := ⟨n, guardLen n (rotEncF key), guardLen n (rotDecF key)⟩
def aff (n : Nat) (key : List Nat) : BlockCipher := ⟨n, guardLen n (affEncF key), guardLen n (affDecF key)⟩

/-- the pure block functions (E, D) of toy `id` -/
def fns? (id : String) (key : List Nat) : Option ((List Nat → List Nat) × (List Nat → List Nat)) :=
  if id = "rot" then some (rotEncF key, rotDecF key)
  else if id = "aff" then some (affEncF key, affDecF key)
  else none

def cipher? (id : String) (n : Nat) (key : List Nat) : Option BlockCipher :=
  (fns? id key).map fun (e, d) => ⟨n, guardLen n e, guardLen n d⟩

end Model.Toy
