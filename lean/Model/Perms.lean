/-
  Model.Perms — crysp/utils/perms.py (after the `fix:` commits) as total Lean functions.
  The in-place algorithms keep the list as explicit state: every function returns the list as the Python code leaves
  it.  Generators are the list of their yields.  Element assignments `l[j] = v` are `List.set`; an index that Python
  would reject (IndexError) is unreachable in `permutk` (all indices come from `range(k,len(l))`) and is an
  `Except` error elsewhere.
-/
import Model.Py
namespace Model.Perms
open Model Model.Py

variable {α : Type}

/-! ### permutk -/

/-- `for j in range(i,k,-1): l[j] = l[j-1]` with d = i-k iterations (j = k+d, …, k+1) -/
def shiftUp (l : List α) (k : Nat) : Nat → List α
  | 0 => l
  | d+1 =>
    match l[k+d]? with
    | some x => shiftUp (l.set (k+d+1) x) k d
    | none => l

/-- `for j in range(k,i): l[j] = l[j+1]` with d = i-k iterations (j = k, …, i-1) -/
def shiftDown (l : List α) (k : Nat) : Nat → List α
  | 0 => l
  | d+1 =>
    match l[k+1]? with
    | some x => shiftDown (l.set k x) (k+1) d
    | none => l

/-- one iteration of the `for i in range(k,len(l))` loop, given the recursive generator -/
def permutkStep (rec : List α → List (List α) × List α) (k : Nat) (acc : List (List α) × List α) (i : Nat) :
    List (List α) × List α :=
  match acc.2[i]? with
  | none => acc
  | some tmp =>
    let l1 := (shiftUp acc.2 k (i - k)).set k tmp          -- rotate l[k..i] right, l[k] = tmp
    let r := rec l1                                         -- for p in permutk(l,k+1): yield p
    let l3 := (shiftDown r.2 k (i - k)).set i tmp           -- rotate back, l[i] = tmp
    (acc.1 ++ r.1, l3)

/-- `permutk(l,k)`: (yields, list afterwards); `fuel` bounds the recursion depth (len(l)-k+1 levels) -/
def permutkAux : Nat → List α → Nat → List (List α) × List α
  | 0, l, _ => ([], l)
  | fuel+1, l, k =>
    let ys0 : List (List α) := if k ≥ l.length then [l] else []          -- `if k>=len(l): yield l[:]`
    (List.range' k (l.length - k)).foldl (permutkStep (fun l1 => permutkAux fuel l1 (k+1)) k) (ys0, l)

def permutk (l : List α) (k : Nat) : List (List α) × List α := permutkAux (l.length - k + 1) l k

/-! ### nextperm (lists of ints) -/

/-- `k = len(l)-2; while (k>=0 and l[k]>=l[k+1]): k -= 1`.  The argument is k+1; `none` = the loop ended with k<0 -/
def findK (l : List Int) : Nat → Option Nat
  | 0 => none
  | k+1 =>
    match l[k]?, l[k+1]? with
    | some a, some b => if a ≥ b then findK l k else some k
    | _, _ => none

/-- `l[i],l[j] = l[j],l[i]` -/
def swap (l : List Int) (i j : Nat) : List Int :=
  match l[i]?, l[j]? with
  | some a, some b => (l.set i b).set j a
  | _, _ => l

/-- `while lpos<rpos: l[lpos],l[rpos] = l[rpos],l[lpos]; lpos += 1; rpos -= 1` -/
def revLoop : Nat → List Int → Nat → Nat → List Int
  | 0, l, _, _ => l
  | fuel+1, l, lpos, rpos => if lpos < rpos then revLoop fuel (swap l lpos rpos) (lpos+1) (rpos-1) else l

/-- `while (l[i]<=l[k]): i+=1` (pivot = l[k]); `none` = ran off the end (IndexError) -/
def findI (l : List Int) (pivot : Int) : Nat → Nat → Option Nat
  | 0, _ => none
  | fuel+1, i =>
    match l[i]? with
    | some x => if x ≤ pivot then findI l pivot fuel (i+1) else some i
    | none => none

/-- `nextperm(l)`: the list after the in-place update (also the return value) -/
def nextperm (l : List Int) : Except Err (List Int) :=
  let n := l.length
  match findK l (n - 1) with
  | none => .ok (revLoop n l 0 (n - 1))                     -- k<0: the whole list is reversed, `return l`
  | some k =>
    let l1 := revLoop n l (k+1) (n - 1)
    match l1[k]? with
    | none => .error "IndexError"
    | some a =>
      match findI l1 a n (k+1) with
      | none => .error "IndexError"
      | some i => .ok (swap l1 i k)

/-! ### combink -/

/-- Python `seq[i]` with negative indices -/
def pyGet (l : List α) (i : Int) : Except Err α :=
  match normIndex i l.length with
  | some j => match l[j]? with
    | some x => .ok x
    | none => .error "IndexError"
  | none => .error "IndexError"

/-- one iteration of `for i in range(r[k-1]+1, n-p+k+1)`: `r[k]=i; for x in combink(l,p,k+1,r): yield x` -/
def combinkStep (rec : List Int → Except Err (List (List α) × List Int)) (k : Nat)
    (acc : List (List α) × List Int) (i : Int) : Except Err (List (List α) × List Int) :=
  if k ≥ acc.2.length then .error "IndexError" else do
    let r ← rec (acc.2.set k i)
    pure (acc.1 ++ r.1, r.2)

/-- `combink(l,p,k,r)`: (yields, index list afterwards) -/
def combinkAux : Nat → List α → Nat → Nat → List Int → Except Err (List (List α) × List Int)
  | 0, _, _, _, r => .ok ([], r)
  | fuel+1, l, p, k, r =>
    let n := l.length
    if p > n then .error "AssertionError" else
    if k < p then do
      let start ← pyGet r ((k : Int) - 1)
      (Py.range (start + 1) ((n - p + k + 1 : Nat) : Int) 1).foldlM
        (combinkStep (fun r1 => combinkAux fuel l p (k+1) r1) k) ([], r)
    else do
      let c ← (r.take p).mapM (pyGet l)                      -- `[l[i] for i in r[:p]]`
      pure ([c], r)

/-- `list(combink(l,p,k))` with the default `r = list(range(n))+[-1]` -/
def combink (l : List α) (p k : Nat) : Except Err (List (List α)) := do
  let r0 : List Int := (List.range l.length).map (fun (i : Nat) => (i : Int)) ++ [-1]
  let res ← combinkAux (p - k + 1) l p k r0
  pure res.1

end Model.Perms
