/-
  Model.Keccak — crysp/keccak.py as total Lean functions over `Model.Bits` (after the four `fix:` commits:
  pad10*1 spills into an extra block; the NIST re-alignment reads the byte holding bit `bitlen`; rates below 8
  read one byte per step and drain the buffer with a `while`; `bitlen=0` is a bit length, not `None`).

  A `State` object is its list of 25 lanes (`Bits` of size w, index 5*y+x); the in-place updates of `Round`
  are folds of `List.set` in the loop order of the code.  The generator `iterblocks` is the list of its yields.
  Literal tables (RC, the rho-offset dict, the width/round-count table) come from `Model.Gen.KeccakG`.
-/
import Model.Bits
import Model.Gen.KeccakG
namespace Model.Keccak
open Model Model.Py

abbrev Lanes := List Bits

/-- `State(w)`: 25 lanes `Bits(0,w)` -/
def zero (w : Nat) : Lanes := List.replicate 25 ⟨0, w⟩

/-- `State.__getitem__((x,y))`: `lanes[5*(y%5)+(x%5)]` -/
def get (A : Lanes) (x y : Nat) : Bits := A.getD (5 * (y % 5) + x % 5) ⟨0, 0⟩
/-- `State.__setitem__((x,y),v)` -/
def put (A : Lanes) (x y : Nat) (v : Bits) : Lanes := A.set (5 * (y % 5) + x % 5) v

/-- `B[i:j]` for 0 ≤ i ≤ j (the slice is clipped to the size by `slice.indices`, then the fast path) -/
def sliceClip (b : Bits) (i j : Nat) : Bits := b.sliceFast (min i b.size) (min j b.size)

/-- `State.load(B)`: `for l in range(25): bl = B[i:i+w]; bl.size = w; lanes[l] = bl; i += w` -/
def load (w : Nat) (B : Bits) : Lanes :=
  (List.range 25).map fun l => (sliceClip B (l * w) (l * w + w)).setSize w

/-- `State.dump(r)`: `while i<25 and len(z)<=r: z = z//lanes[i]` then `z.size = r`; `assert r<=25*w` -/
def dump (w : Nat) (A : Lanes) (r : Nat) : Except Err Bits :=
  if r > 25 * w then .error "AssertionError" else
  .ok ((A.foldl (fun (z : Bits) lane => if z.size ≤ r then z.concat lane else z) (⟨0, 0⟩ : Bits)).setSize r)

/-- `State.__xor__` -/
def xorState (A B : Lanes) : Lanes := List.zipWith Bits.xor A B

/-- `rot(l,n)`: `w=len(l); sl=n%w; sr=w-sl; (l<<sl)|(l>>sr)` -/
def rot (l : Bits) (n : Nat) : Bits :=
  let sl := n % l.size
  (l.shl sl).or (l.shr (l.size - sl))

/-- the function-local dict `r` of `Round`, index 5*y+x (from Gen) -/
def offset (x y : Nat) : Nat := Gen.KeccakG.rhoOffsets.getD (5 * y + x) 0

/-- loop order `for x in range(5): for y in range(5)` -/
def xy25 : List (Nat × Nat) :=
  [(0,0),(0,1),(0,2),(0,3),(0,4),(1,0),(1,1),(1,2),(1,3),(1,4),(2,0),(2,1),(2,2),(2,3),(2,4),
   (3,0),(3,1),(3,2),(3,3),(3,4),(4,0),(4,1),(4,2),(4,3),(4,4)]

def thetaC (A : Lanes) : List Bits :=
  (List.range 5).map fun x => ((((get A x 0).xor (get A x 1)).xor (get A x 2)).xor (get A x 3)).xor (get A x 4)
def thetaD (C : List Bits) : List Bits :=
  (List.range 5).map fun x => (C.getD ((x + 4) % 5) ⟨0, 0⟩).xor (rot (C.getD ((x + 1) % 5) ⟨0, 0⟩) 1)
/-- θ: `A[x,y] = A[x,y]^D[x]` in place -/
def theta (A : Lanes) : Lanes :=
  let D := thetaD (thetaC A)
  xy25.foldl (fun A p => put A p.1 p.2 ((get A p.1 p.2).xor (D.getD p.1 ⟨0, 0⟩))) A
/-- ρ and π: `B = State(w); B[y,2*x+3*y] = rot(A[x,y], r[x,y])` -/
def rhoPi (w : Nat) (A : Lanes) : Lanes :=
  xy25.foldl (fun B p => put B p.2 (2 * p.1 + 3 * p.2) (rot (get A p.1 p.2) (offset p.1 p.2))) (zero w)
/-- χ: `A[x,y] = B[x,y] ^ ((~B[x+1,y]) & B[x+2,y])` written into A in place -/
def chi (A B : Lanes) : Lanes :=
  xy25.foldl (fun A p => put A p.1 p.2 ((get B p.1 p.2).xor ((get B (p.1 + 1) p.2).inv.and (get B (p.1 + 2) p.2)))) A
/-- ι: `A[0,0] = A[0,0] ^ RCi` -/
def iota (A : Lanes) (rci : Bits) : Lanes := put A 0 0 ((get A 0 0).xor rci)

/-- `Round(A,RCi)` -/
def round (w : Nat) (A : Lanes) (rci : Bits) : Lanes :=
  let A1 := theta A
  let B := rhoPi w A1
  iota (chi A1 B) rci

/-- `RC[i][:w]` (RC[i] is a 64-bit `Bits`) -/
def rcLane (w i : Nat) : Bits := sliceClip ⟨Gen.KeccakG.RC.getD i 0, 64⟩ 0 w

/-- `Keccak.f`: `for i in range(n): A = Round(A,RC[i][:w])` -/
def f (w n : Nat) (A : Lanes) : Lanes :=
  (List.range n).foldl (fun A i => round w A (rcLane w i)) A

/-- object configuration after `Keccak(b=…,r=…,len=…)` (c = b−r) -/
structure Cfg where
  b : Nat
  w : Nat
  n : Nat
  r : Nat
  outlen : Option Nat
  duplexing : Bool := false
deriving Repr, DecidableEq, Inhabited

/-- `Keccak.__init__` with keywords b, r, len: `assert b in (25,…,1600)`, w = b//25, n = 12+2l from the dict,
    `setrate`: `assert r<=1536`.  The (b,w,n) rows are read from live objects (Gen). -/
def mk (b r : Nat) (outlen : Option Nat) : Except Err Cfg :=
  match Gen.KeccakG.widths.find? (fun row => row.getD 0 0 == b) with
  | none => .error "AssertionError"
  | some row =>
    if r > 1536 then .error "AssertionError" else
    .ok { b := b, w := row.getD 1 0, n := row.getD 2 0, r := r, outlen := outlen }

/-- the NIST last-byte re-alignment: `Bits(M[n//8:n//8+1],size=n%8)[::-1].ival` -/
def realign (M : List Nat) (needed : Nat) : Except Err Nat := do
  let b ← Bits.ofBytes ((M.drop (needed / 8)).take 1) (some (needed % 8)) (-1)
  let rb ← b.getSlice none none (some (-1))
  pure rb.ival

/-- inner `while len(Pb)>=r: yield Pb[:r]; needed -= r; Pb = Pb[r:]` (fuel = len(Pb), r ≥ 1) -/
def drain (r : Nat) : Nat → Bits → Nat → List Bits → Bits × Nat × List Bits
  | 0, Pb, needed, out => (Pb, needed, out)
  | fuel + 1, Pb, needed, out =>
    if Pb.size ≥ r then
      drain r fuel (sliceClip Pb r Pb.size) (needed - r) (out ++ [sliceClip Pb 0 r])
    else (Pb, needed, out)

/-- `Bits(Pi,bitorder=1)` -/
def bitsLE (Pi : List Nat) : Bits :=
  match Bits.load Pi 1 with
  | .ok b => b
  | .error _ => ⟨0, 0⟩   -- unreachable: bitorder 1 always divides the length

structure Loop where
  Pb : Bits := ⟨0, 0⟩
  needed : Nat
  out : List Bits := []
  consumed : Bool := false     -- `P.read()` was called: the stream is exhausted
deriving Repr, Inhabited

/-- one turn of `while len(Pi)>0` for the chunk `Pi` just read -/
def loopStep (r : Nat) (st : Loop) (Pi : List Nat) : Loop :=
  if st.consumed then st else
  let Pb := st.Pb.concat (bitsLE Pi)                          -- `Pb//Bits(Pi,bitorder=1)`
  let (Pb, consumed) := if Pb.size ≥ st.needed then (Pb.setSize st.needed, true) else (Pb, false)
  let (Pb, needed, out) := drain r Pb.size Pb st.needed st.out
  { Pb := Pb, needed := needed, out := out, consumed := consumed }

/-- the closing `pad10*1` statements -/
def padTail (r : Nat) (Pb : Bits) : List Bits :=
  let Pb := Pb.concat (Bits.ofNat 1)
  let (pre, Pb) := if Pb.size = r then ([Pb], (⟨0, 0⟩ : Bits)) else ([], Pb)
  pre ++ [(Pb.concat (Bits.ofNatSz 0 (r - Pb.size - 1))).concat (Bits.ofNat 1)]

/-- `Keccak.iterblocks(M,bitlen,r)` as the list of its yields.  r = 0 is out of domain: with data to read the inner
    `while len(Pb)>=r` yields empty blocks for ever (`hang:rate 0`); with nothing to read `Bits(0,size=r-len(Pb)-1)`
    raises (negative size).  Either comes after the `assert bitlen<=needed`. -/
def iterblocks (r : Nat) (duplexing : Bool) (M : List Nat) (bitlen : Option Nat) : Except Err (List Bits) := do
  let (M, needed) ← match bitlen with
    | none => pure (M, 8 * M.length)
    | some L =>
      if L > 8 * M.length then throw "AssertionError"
      else if duplexing then pure (M, L)
      else do
        let v ← realign M L
        pure (M.take (L / 8) ++ [v], L)
  if r = 0 then throw (if M.isEmpty then "ValueError" else "hang:rate 0")
  let br := if r / 8 = 0 then 1 else r / 8
  let st := (chunks br M).foldl (loopStep r) { needed := needed }
  pure (st.out ++ padTail r st.Pb)

/-- absorbing phase: `for Pi in iterblocks: S = f(S ^ State(w).load(Pi))` -/
def absorb (c : Cfg) (S : Lanes) (blocks : List Bits) : Lanes :=
  blocks.foldl (fun S Pi => f c.w c.n (xorState S (load c.w Pi))) S

/-- `while len(Z)<outlen: S=f(S); Z=Z//S.dump(r)` (fuel = outlen; every turn adds r ≥ 1 bits) -/
def squeezeLoop (c : Cfg) (r outlen : Nat) : Nat → Lanes → Bits → Except Err Bits
  | 0, _, Z => .ok Z
  | fuel + 1, S, Z =>
    if Z.size < outlen then do
      let S := f c.w c.n S
      let z ← dump c.w S r
      squeezeLoop c r outlen fuel S (Z.concat z)
    else .ok Z

/-- `Keccak.setrate(r)`: `assert r<=1536; self.r = r; self.c = self.b-self.r` (c = b−r is not stored in `Cfg`) -/
def setrate (c : Cfg) (r : Nat) : Except Err Cfg :=
  if r > 1536 then .error "AssertionError" else .ok { c with r := r }

/-- the body of `Keccak.__call__` once its local `r` is settled: the SAME `r` is handed to `iterblocks(M,bitlen,r)`
    (absorbing and pad10*1) and used by both `S.dump(r)` sites (squeezing); the object's own `self.r` is not read
    any more, the capacity is whatever `b − r` leaves (`State.load` fills the 25 lanes, `dump` asserts r ≤ 25w). -/
def callAt (c : Cfg) (r : Nat) (M : List Nat) (bitlen : Option Nat) : Except Err (List Nat) := do
  let blocks ← iterblocks r c.duplexing M bitlen
  let S := absorb c (zero c.w) blocks
  let Z ← dump c.w S r
  match c.outlen with
  | none => throw "TypeError"
  | some d =>
    let Z ← squeezeLoop c r d d S Z
    pure (sliceClip Z 0 d).pack

/-- `Keccak.__call__(M,bitlen)` (r=None): `assert self.r; r = self.r` -/
def call (c : Cfg) (M : List Nat) (bitlen : Option Nat) : Except Err (List Nat) := do
  if c.r = 0 then throw "AssertionError"
  callAt c c.r M bitlen

/-- the local `r` of `__call__`: `r=None` → `assert self.r; r = self.r`; a given rate → `assert r<=1536` (a given
    rate 0 passes this check and then never terminates in `iterblocks`: `hang:rate 0`) -/
def callRate (c : Cfg) : Option Nat → Except Err Nat
  | none => if c.r = 0 then .error "AssertionError" else .ok c.r
  | some r => if r > 1536 then .error "AssertionError" else .ok r

/-- `Keccak.__call__(M,bitlen,r)` with the optional per-call rate: the object afterwards and the result.  A rate
    given to the call applies to this call's absorbing, padding and squeezing only — nothing is assigned to the
    object, whether the call returns or raises. -/
def callR (c : Cfg) (M : List Nat) (bitlen : Option Nat) (r : Option Nat := none) : Cfg × Except Err (List Nat) :=
  (c, (callRate c r).bind fun r => callAt c r M bitlen)

/-- the module-level objects `keccak_224 … keccak_512` (`Keccak(b=1600,c=…,len=n)`); the (n,b,r,c,outlen,duplexing)
    rows are read from the live objects (Gen) -/
def singleton (n : Nat) : Except Err Cfg :=
  match Gen.KeccakG.singletons.find? (fun row => row.getD 0 0 == n) with
  | none => .error "AttributeError"
  | some row =>
    (mk (row.getD 1 0) (row.getD 2 0) (some (row.getD 4 0))).map fun c => { c with duplexing := row.getD 5 0 != 0 }

/-- the duplex object: configuration + the persistent `_S` (absent before the first call) -/
structure Duplex where
  cfg : Cfg
  S : Option Lanes := none
deriving Repr, Inhabited

/-- `Keccak.duplex(m,bitlen,outlen)`: returns the object afterwards and the result.  `_S` is assigned before the
    final `dump`, so an `outlen > 25w` leaves the new state behind and raises. -/
def duplex (o : Duplex) (m : List Nat) (bitlen : Option Nat) (outlen : Option Nat) : Duplex × Except Err (List Nat) :=
  let o : Duplex := { o with cfg := { o.cfg with duplexing := true } }
  match iterblocks o.cfg.r true m bitlen with
  | .error e => (o, .error e)
  | .ok L =>
    match L with
    | [P] =>
      let ol := outlen.getD o.cfg.r
      let S0 := o.S.getD (zero o.cfg.w)
      let S := f o.cfg.w o.cfg.n (xorState S0 (load o.cfg.w P))
      ({ o with S := some S }, (dump o.cfg.w S ol).map Bits.pack)
    | _ => (o, .error "AssertionError")

/-- a sequence of duplex calls on one object: the list of results -/
def duplexSeq (o : Duplex) : List (List Nat × Option Nat × Option Nat) → List (Except Err (List Nat))
  | [] => []
  | (m, bl, ol) :: rest =>
    let (o', res) := duplex o m bl ol
    res :: duplexSeq o' rest

/-! ### one object, a history of `duplex()` and one-shot calls (the code after `fix: Keccak.duplex() selects the
    native bit order for its own call only`) -/

/-- `Keccak.duplex(m,bitlen,outlen)` on the object: `duplexing,self.duplexing = self.duplexing,True` … `finally:
    self.duplexing = duplexing` — the flag is the caller's again when the call returns or raises; `_S` and the result
    are those of `duplex`. -/
def duplexObj (o : Duplex) (m : List Nat) (bitlen : Option Nat) (outlen : Option Nat) : Duplex × Except Err (List Nat) :=
  let saved := o.cfg.duplexing
  let (o', res) := duplex o m bitlen outlen
  ({ o' with cfg := { o'.cfg with duplexing := saved } }, res)

/-- the public operations of a Keccak / SHA3 object that meet in one history -/
inductive SeqStep where
  | duplex (m : List Nat) (bitlen : Option Nat) (outlen : Option Nat)
  | call (M : List Nat) (bitlen : Option Nat) (r : Option Nat)      -- `k(M,bitlen,r)`
  | sha3call (M : List Nat)                                          -- `SHA3.__call__(M)` = `Keccak.__call__(self,M+b'\x02',8|M|+2)`
deriving Repr, Inhabited

/-- one operation: the object afterwards and what it returns -/
def seqStep (o : Duplex) : SeqStep → Duplex × Except Err (List Nat)
  | .duplex m bl ol => duplexObj o m bl ol
  | .call M bl r => (o, (callR o.cfg M bl r).2)
  | .sha3call M => (o, call o.cfg (M ++ [0x02]) (some (8 * M.length + 2)))

/-- the object after a history -/
def seqObj (o : Duplex) (steps : List SeqStep) : Duplex := steps.foldl (fun o st => (seqStep o st).1) o

/-- the results of a history, one per operation -/
def seqRun (o : Duplex) : List SeqStep → List (Except Err (List Nat))
  | [] => []
  | st :: rest => (seqStep o st).2 :: seqRun (seqStep o st).1 rest

end Model.Keccak
