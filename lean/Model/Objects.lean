/-
  Model.Objects — the object kinds of property C10 as state machines: WHICH state a Python object keeps between
  calls and which operations reset or overwrite it.

  Every kind is a `Machine`:
    * `State` is a structure whose field `cfg` is the configuration (what the constructor — or an explicit
      re-configuration method such as `HMAC.setkey` / `Keccak.setrate` — stores) and whose other fields are the
      *scratch* attributes, named exactly like the Python attributes some method assigns (`H`, `padmethod`, `_S`,
      `outlen`, `_AES__w`, `count`/`dacc`/`seen`, `p`, …).  `tools/gen_items/objects.py` extracts the assigned
      attributes from the AST of the live source and `Proofs.C10` proves that inventory equal to these field lists.
    * `next : State → Op → State` / `out : State → Op → Res` are one public operation (the object afterwards — also
      when it raises: the state is then the partially updated one — and what it returns); per kind they are the two
      components of a function `step`, with a separately written, provably equal `next` where the result need not be
      evaluated to know the object afterwards (Keccak, AES, the modes: the driver runs long histories through them);
      `probe` tells the one-shot operations (`__call__`, `enc`, `dec`) apart from the streaming / re-configuration
      operations of the alphabet.
    * `reconf` is what an operation does to the configuration (identity for everything but `setkey`/`setrate`).
    * the theorems of Proofs.C10 quantify over ALL scratch states, reachable or not, for every kind but the two that keep
      a cache by design (the AES key schedule `_AES__w`, also inside a mode; the key/constant words of the Salsa20/ChaCha
      input block `p`): there they assume the invariants `AesO.Coherent` / `ModeO.Coherent` / "`p` differs from the
      constructor's block only in the nonce and counter words", which every operation is shown to preserve.

  The results reuse the functional models (Model.HashObj/Hash, Keccak, Sha3, Md6, Blake, Hmac, Tlsh, Nilsimsa, Aes,
  Des, Serpent, Mode, ToyCipher, Salsa, Chacha).  Sibling instances and module-level singletons are composed with
  `Machine.pair`; objects that an instance shares with others (the hash object of an HMAC, the cipher object of a
  mode) are fields of the owning machine's state.

  Skein / Threefish (`SkeinO`, `ThreefishO` at the end): a Skein object keeps the chaining value `G` between calls
  (`__call__` = `_initstate` + `update` + `output`; every UBI / Tweak object lives inside one call); a Threefish object
  assigns nothing outside `__init__` — its extended key / tweak word lists `__k`, `__t` and tables are configuration.
-/
import Model.Hash
import Model.Hmac
import Model.Keccak
import Model.Sha3
import Model.Md6
import Model.Blake
import Model.Tlsh
import Model.Nilsimsa
import Model.Aes
import Model.Des
import Model.Serpent
import Model.Mode
import Model.ToyCipher
import Model.Salsa
import Model.Chacha
import Model.Skein
import Model.Threefish
namespace Model.Objects
open Model

/-- canonical value an operation returns -/
inductive Val
  | bytes (b : List Nat)
  | none
  | nat (n : Nat)
  | obj
deriving Repr, DecidableEq, Inhabited

abbrev Res := Except Err Val

def bytesRes (r : Except Err (List Nat)) : Res := r.map Val.bytes

structure Machine where
  State : Type
  Cfg : Type
  Op : Type
  cfg : State → Cfg
  init : Cfg → State
  /-- the object after the operation (also when it raises: the partially updated object) -/
  next : State → Op → State
  /-- what the operation returns (or the exception) -/
  out : State → Op → Res
  reconf : Cfg → Op → Cfg
  probe : Op → Bool

namespace Machine

/-- one operation: the object afterwards and the result -/
def step (M : Machine) (s : M.State) (op : M.Op) : M.State × Res := (M.next s op, M.out s op)

/-- the object after a history -/
def run (M : Machine) (s : M.State) (ops : List M.Op) : M.State := ops.foldl M.next s
/-- the configuration after the explicit re-configuration steps of a history -/
def reconfAll (M : Machine) (c : M.Cfg) (ops : List M.Op) : M.Cfg := ops.foldl M.reconf c
/-- result of `p` after the history `ops` on one object constructed with `c` (model column of the driver) -/
def after (M : Machine) (c : M.Cfg) (ops : List M.Op) (p : M.Op) : Res := M.out (M.run (M.init c) ops) p
/-- result of `p` on a fresh, equally configured object (spec column of the driver) -/
def fresh (M : Machine) (c : M.Cfg) (ops : List M.Op) (p : M.Op) : Res := M.out (M.init (M.reconfAll c ops)) p

/-- two objects side by side (an instance and a sibling instance / a module-level singleton): operations of either
    may be interleaved freely -/
def pair (M N : Machine) : Machine where
  State := M.State × N.State
  Cfg := M.Cfg × N.Cfg
  Op := M.Op ⊕ N.Op
  cfg s := (M.cfg s.1, N.cfg s.2)
  init c := (M.init c.1, N.init c.2)
  next s
    | .inl op => (M.next s.1 op, s.2)
    | .inr op => (s.1, N.next s.2 op)
  out s
    | .inl op => M.out s.1 op
    | .inr op => N.out s.2 op
  reconf c
    | .inl op => (M.reconf c.1 op, c.2)
    | .inr op => (c.1, N.reconf c.2 op)
  probe
    | .inl op => M.probe op
    | .inr op => N.probe op

end Machine

/-! ## MD4 / MD5 / SHA-0 / SHA-1 / SHA-2 (md.py, sha.py): `H`, `padmethod` are re-created by `initstate` -/
namespace HashO

structure State where
  cfg : HashCore
  H : List Bits
  padmethod : PadState

inductive Op
  | call (M : List Nat) (bitlen : Option Nat)
  | update (M : List Nat) (bitlen : Option Nat) (padding : Bool)
  | initstate

def obj (s : State) : HashObj := ⟨s.H, s.padmethod⟩
def put (s : State) (o : HashObj) : State := { s with H := o.H, padmethod := o.pad }

/-- the constructors end with `self.initstate()` -/
def init (c : HashCore) : State := { cfg := c, H := c.initstate.H, padmethod := c.initstate.pad }

def step (s : State) : Op → State × Res
  | .call M bl => (put s (s.cfg.call (obj s) M bl).1, bytesRes (s.cfg.call (obj s) M bl).2)
  | .update M bl p => (put s (s.cfg.update (obj s) M bl p).1, bytesRes (s.cfg.update (obj s) M bl p).2)
  | .initstate => (put s s.cfg.initstate, .ok .none)

def isProbe : Op → Bool
  | .call .. => true
  | _ => false

def machine : Machine where
  State := State
  Cfg := HashCore
  Op := Op
  cfg := State.cfg
  init := init
  next s op := (step s op).1
  out s op := (step s op).2
  reconf c _ := c
  probe := isProbe

end HashO

/-! ## Keccak / SHA3 (keccak.py, sha.py): configuration `b,w,n,r,c,outlen,duplexing`; scratch `_S` (duplex state).
    After the two `fix:` commits a per-call `r` is passed down instead of stored, and `duplex()` restores
    `duplexing`. -/
namespace KeccakO

structure State where
  cfg : Keccak.Cfg
  _S : Option Keccak.Lanes

inductive Op
  | call (M : List Nat) (bitlen : Option Nat) (r : Option Nat)
  | sha3call (M : List Nat)
  | duplex (m : List Nat) (bitlen : Option Nat) (outlen : Option Nat)
  | setrate (r : Nat)

/-- `Keccak.__call__(M,bitlen,r)`: `r=None` uses `self.r` (`assert self.r`); a given `r` is checked like `setrate`
    does (`assert r<=1536`) and used for this call only -/
def callR (c : Keccak.Cfg) (M : List Nat) (bitlen : Option Nat) (r : Option Nat) : Except Err (List Nat) :=
  (Keccak.callR c M bitlen r).2

/-- `SHA3.__call__(M)` = `Keccak.__call__(self,M+b'\x02',bitlen=8|M|+2)` -/
def sha3call (c : Keccak.Cfg) (M : List Nat) : Except Err (List Nat) :=
  Keccak.call c (M ++ [0x02]) (some (8 * M.length + 2))

/-- `setrate(r)`: `assert r<=1536; self.r = r; self.c = self.b-self.r` -/
def setrateCfg (c : Keccak.Cfg) (r : Nat) : Keccak.Cfg := if r > 1536 then c else { c with r := r }

def init (c : Keccak.Cfg) : State := { cfg := c, _S := none }

def step (s : State) : Op → State × Res
  | .call M bl r => (s, bytesRes (callR s.cfg M bl r))
  | .sha3call M => (s, bytesRes (sha3call s.cfg M))
  | .duplex m bl ol =>
    -- `duplexing` is switched on for the block iterator only and restored in a `finally`
    ({ s with _S := (Keccak.duplex ⟨s.cfg, s._S⟩ m bl ol).1.S }, bytesRes (Keccak.duplex ⟨s.cfg, s._S⟩ m bl ol).2)
  | .setrate r => ({ s with cfg := setrateCfg s.cfg r }, if r > 1536 then .error "AssertionError" else .ok .none)

/-- the object afterwards, without evaluating the result (`= (step s op).1`) -/
def next (s : State) : Op → State
  | .call .. => s
  | .sha3call .. => s
  | .duplex m bl ol => { s with _S := (Keccak.duplex ⟨s.cfg, s._S⟩ m bl ol).1.S }
  | .setrate r => { s with cfg := setrateCfg s.cfg r }

def isProbe : Op → Bool
  | .call .. => true
  | .sha3call .. => true
  | _ => false

def reconf (c : Keccak.Cfg) : Op → Keccak.Cfg
  | .setrate r => setrateCfg c r
  | _ => c

def machine : Machine where
  State := State
  Cfg := Keccak.Cfg
  Op := Op
  cfg := State.cfg
  init := init
  next := next
  out s op := (step s op).2
  reconf := reconf
  probe := isProbe

end KeccakO

/-! ## MD6 (md.py): no attribute is assigned outside `__init__`; the padding objects are local to SEQ/PAR -/
namespace Md6O

structure State where
  cfg : Md6.MD6

inductive Op
  | call (M : List Nat) (bitlen : Option Nat)

def step (s : State) : Op → State × Res
  | .call M bl => (s, bytesRes (Md6.call s.cfg M bl))

def machine : Machine where
  State := State
  Cfg := Md6.MD6
  Op := Op
  cfg := State.cfg
  init c := ⟨c⟩
  next s _ := s
  out s op := (step s op).2
  reconf c _ := c
  probe _ := true

end Md6O

/-! ## Blake (blake.py): `initstate` assigns `c, rounds, IV, padmethod, salt, H`; the constructor does NOT call it,
    so `update` on a new object raises AttributeError (`padmethod = none`). -/
namespace BlakeO

structure State where
  cfg : Blake.Cfg
  c : List Nat
  rounds : Nat
  IV : List Nat
  padmethod : Option PadState
  salt : List Bits
  H : List Bits

inductive Op
  | call (M : List Nat) (salt : Nat) (bitlen : Option Nat)
  | update (M : List Nat) (bitlen : Option Nat) (padding : Bool)
  | initstate (salt : Nat)

def init (c : Blake.Cfg) : State := { cfg := c, c := [], rounds := 0, IV := [], padmethod := none, salt := [], H := [] }

def doInit (s : State) (salt : Nat) : State :=
  { s with c := s.cfg.consts, rounds := s.cfg.rounds, IV := s.cfg.iv,
           padmethod := some (Blake.initstate s.cfg salt).pad, salt := (Blake.initstate s.cfg salt).salt,
           H := (Blake.initstate s.cfg salt).H }

def doUpdate (s : State) (M : List Nat) (bitlen : Option Nat) (padding : Bool) : State × Res :=
  match s.padmethod with
  | none => (s, .error "AttributeError:padmethod")
  | some pd =>
    ({ s with H := (Blake.update s.cfg ⟨s.H, s.salt, pd⟩ M bitlen padding).1.H,
              padmethod := some (Blake.update s.cfg ⟨s.H, s.salt, pd⟩ M bitlen padding).1.pad },
     bytesRes (Blake.update s.cfg ⟨s.H, s.salt, pd⟩ M bitlen padding).2)

def step (s : State) : Op → State × Res
  | .call M salt bl => doUpdate (doInit s salt) M bl true
  | .update M bl p => doUpdate s M bl p
  | .initstate salt => (doInit s salt, .ok .none)

def isProbe : Op → Bool
  | .call .. => true
  | _ => false

def machine : Machine where
  State := State
  Cfg := Blake.Cfg
  Op := Op
  cfg := State.cfg
  init := init
  next s op := (step s op).1
  out s op := (step s op).2
  reconf c _ := c
  probe := isProbe

end BlakeO

/-! ## Blake2 (blake.py): on top of Blake's attributes `initstate` assigns `outlen, keylen, fanout, depth, leafl,
    noffset, ndepth, inner, P`, `iterblocks` assigns `t` and `f[0]`, `update` assigns `f` and `H`.  After the `fix:`
    `outlen` is re-derived from the keyword (default size//8) by every `initstate`. -/
namespace Blake2O
open Model.Blake (wd xorL)

structure State where
  cfg : Blake.Cfg
  c : List Nat
  rounds : Nat
  IV : List Nat
  padmethod : Option PadState
  salt : List Bits
  H : List Bits
  outlen : Nat
  keylen : Nat
  fanout : Nat
  depth : Nat
  leafl : Nat
  noffset : Nat
  ndepth : Nat
  inner : Nat
  P : List Bits
  t : Nat
  f : Bool

inductive Op
  | call (M : List Nat) (p : Blake2.Params) (keylen : Nat)
  | update (M : List Nat) (padding : Bool)
  | initstate (p : Blake2.Params) (keylen : Nat)

/-- `Blake2(size)` runs `Blake.__init__`: `outlen = size//8`, nothing else -/
def init (c : Blake.Cfg) : State :=
  { cfg := c, c := [], rounds := 0, IV := [], padmethod := none, salt := [], H := [], outlen := c.size / 8, keylen := 0,
    fanout := 0, depth := 0, leafl := 0, noffset := 0, ndepth := 0, inner := 0, P := [], t := 0, f := false }

def ivWords (c : Blake.Cfg) : List Bits := (Blake2.iv c).map (wd c.wsize)

/-- the key-length byte of the parameter block (byte 1 of word 0); the functional model has no keyed mode -/
def patchKeylen (H : List Bits) (keylen : Nat) : List Bits :=
  match H with
  | [] => []
  | h :: rest => h.xor (wd h.size ((keylen % 256) <<< 8)) :: rest

/-- `initstate(**kargs)`: the state it leaves (also when one of its asserts fails half-way) and the exception -/
def doInit (s : State) (p : Blake2.Params) (keylen : Nat) : State × Option Err :=
  let base : State :=
    { s with c := s.cfg.consts, rounds := Blake2.rounds s.cfg, IV := Blake2.iv s.cfg, padmethod := some {},
             salt := Blake.saltWords s.cfg.wsize 0, H := ivWords s.cfg,
             outlen := p.outlen.getD (s.cfg.size / 8), keylen := keylen }
  if keylen > s.cfg.wsize then (base, some "AssertionError") else
  match Blake2.initstate s.cfg p with
  | .error e => (base, some e)
  | .ok st =>
    ({ base with fanout := p.fanout, depth := p.depth, leafl := p.leafl, noffset := p.noffset, ndepth := p.ndepth,
                 inner := p.inner, H := patchKeylen st.H keylen, P := xorL (ivWords s.cfg) (patchKeylen st.H keylen) }, none)

def doUpdate (s : State) (M : List Nat) (padding : Bool) : State × Res :=
  match s.padmethod with
  | none => (s, .error "AttributeError:padmethod")
  | some pd =>
    ({ s with H := (Blake2.update s.cfg ⟨s.H, pd, s.outlen, s.t⟩ M padding).1.H,
              padmethod := some (Blake2.update s.cfg ⟨s.H, pd, s.outlen, s.t⟩ M padding).1.pad,
              t := (Blake2.update s.cfg ⟨s.H, pd, s.outlen, s.t⟩ M padding).1.t,
              f := padding && !(Blake2.trace s.cfg pd M padding).isEmpty },
     bytesRes (Blake2.update s.cfg ⟨s.H, pd, s.outlen, s.t⟩ M padding).2)

def step (s : State) : Op → State × Res
  | .call M p k =>
    match (doInit s p k).2 with
    | some e => ((doInit s p k).1, .error e)
    | none => doUpdate (doInit s p k).1 M true
  | .update M p => doUpdate s M p
  | .initstate p k =>
    match (doInit s p k).2 with
    | some e => ((doInit s p k).1, .error e)
    | none => ((doInit s p k).1, .ok .none)

def isProbe : Op → Bool
  | .call .. => true
  | _ => false

def machine : Machine where
  State := State
  Cfg := Blake.Cfg
  Op := Op
  cfg := State.cfg
  init := init
  next s op := (step s op).1
  out s op := (step s op).2
  reconf c _ := c
  probe := isProbe

end Blake2O

/-! ## HMAC (hmac.py): configuration `h` (a hash object, shared with whoever else holds it) and `K` (set by the
    constructor or by `setkey`); the scratch state is the one of the hash object. -/
namespace HmacO

structure Cfg where
  core : HashCore
  blocksize : Nat
  K : Option (List Nat)

structure State where
  cfg : Cfg
  /-- scratch of the shared hash object `self.h` (its `H` and `padmethod`) -/
  h : HashObj

inductive Op
  | call (m : List Nat)
  | setkey (k : Option (List Nat))                 -- `none`: `setkey(None)` (TypeError)
  | hcall (M : List Nat) (bitlen : Option Nat)       -- `h(M,bitlen)` on the shared hash object
  | hupdate (M : List Nat) (bitlen : Option Nat) (padding : Bool)
  | sibcall (K' : List Nat) (m : List Nat)          -- a sibling `HMAC(h,k')` sharing the hash object

def pads (bs : Nat) (a : List Nat) : List Nat × List Nat :=
  (Hmac.xorBytes a (List.replicate (bs / 8) 0x36), Hmac.xorBytes a (List.replicate (bs / 8) 0x5c))

/-- `HMAC.__call__(m)` with key bytes `K`, threading the hash object -/
def hmacCall (core : HashCore) (bs : Nat) (K : Option (List Nat)) (h : HashObj) (m : List Nat) : HashObj × Res :=
  match K with
  | none => (h, .error "AttributeError:K")
  | some a =>
    if a.isEmpty then (h, .error "AssertionError") else
    match (core.call h ((pads bs a).1 ++ m)).2 with
    | .error e => ((core.call h ((pads bs a).1 ++ m)).1, .error e)
    | .ok h1 =>
      ((core.call (core.call h ((pads bs a).1 ++ m)).1 ((pads bs a).2 ++ h1)).1,
       bytesRes (core.call (core.call h ((pads bs a).1 ++ m)).1 ((pads bs a).2 ++ h1)).2)

/-- the key `setkey(k)` stores: hashed when longer than a block, zero-padded to the block -/
def keyOf (core : HashCore) (bs : Nat) (k : List Nat) : Except Err (List Nat) :=
  let sz := bs / 8
  match (if k.length > sz then core.hash k else .ok k) with
  | .error e => .error e
  | .ok k => .ok (if k.length < sz then k ++ List.replicate (sz - k.length) 0 else k)

def setkeyCfg (c : Cfg) : Option (List Nat) → Cfg
  | none => c
  | some k => match keyOf c.core c.blocksize k with
    | .ok k' => { c with K := some k' }
    | .error _ => c

def init (c : Cfg) : State := { cfg := c, h := c.core.initstate }

def step (s : State) : Op → State × Res
  | .call m => ({ s with h := (hmacCall s.cfg.core s.cfg.blocksize s.cfg.K s.h m).1 },
                (hmacCall s.cfg.core s.cfg.blocksize s.cfg.K s.h m).2)
  | .setkey none => (s, .error "TypeError")
  | .setkey (some k) =>
    ({ cfg := setkeyCfg s.cfg (some k),
       h := if k.length > s.cfg.blocksize / 8 then (s.cfg.core.call s.h k).1 else s.h },
     match keyOf s.cfg.core s.cfg.blocksize k with
     | .ok _ => .ok .none
     | .error e => .error e)
  | .hcall M bl => ({ s with h := (s.cfg.core.call s.h M bl).1 }, bytesRes (s.cfg.core.call s.h M bl).2)
  | .hupdate M bl p => ({ s with h := (s.cfg.core.update s.h M bl p).1 }, bytesRes (s.cfg.core.update s.h M bl p).2)
  | .sibcall K' m => ({ s with h := (hmacCall s.cfg.core s.cfg.blocksize (some K') s.h m).1 },
                      (hmacCall s.cfg.core s.cfg.blocksize (some K') s.h m).2)

def isProbe : Op → Bool
  | .call .. => true
  | _ => false

def reconf (c : Cfg) : Op → Cfg
  | .setkey k => setkeyCfg c k
  | _ => c

def machine : Machine where
  State := State
  Cfg := Cfg
  Op := Op
  cfg := State.cfg
  init := init
  next s op := (step s op).1
  out s op := (step s op).2
  reconf := reconf
  probe := isProbe

end HmacO

/-! ## TLSH (tlsh.py): `reset()` assigns every accumulator; `__call__` starts with `reset()` -/
namespace TlshO
open Model.Gen.Lsh

structure State where
  cfg : Tlsh.Cfg
  a_bucket : Option (List Nat)
  slide_window : List Nat
  data_len : Nat
  checksum : List Nat
  Lvalue : Nat
  q1_ratio : Option Nat
  q2_ratio : Option Nat
  tmp_code : List Nat
  lsh_code : Option (List Nat)
  lsh_code_valid : Bool

inductive Op
  | call (data : List Nat) (force : Bool)
  | update (data : List Nat)
  | final (data : List Nat) (force : Bool)
  | digest
  | from_hash (data : List Nat)
  | reset

def reset (s : State) : State :=
  { s with a_bucket := none, slide_window := List.replicate s.cfg.window 0, data_len := 0,
           checksum := List.replicate s.cfg.chklen 0, Lvalue := 0, q1_ratio := none, q2_ratio := none,
           tmp_code := List.replicate s.cfg.codesize 0, lsh_code := none, lsh_code_valid := false }

def init (c : Tlsh.Cfg) : State :=
  reset { cfg := c, a_bucket := none, slide_window := [], data_len := 0, checksum := [], Lvalue := 0, q1_ratio := none,
          q2_ratio := none, tmp_code := [], lsh_code := none, lsh_code_valid := false }

/-- `update(data)`: a finished digest is discarded first; the buckets restart from zero on EVERY call while the
    checksum and `data_len` carry on -/
def update (s : State) (data : List Nat) : State :=
  let s := if s.lsh_code_valid then reset s else s
  let st := (Tlsh.windows s.cfg.window data).foldl Tlsh.stepWindow ⟨s.checksum, List.replicate 256 0⟩
  { s with a_bucket := some st.bucket, checksum := st.checksum, data_len := s.data_len + data.length }

/-- `for bi in range(l): … self.tmp_code[i] += code<<(j*2)` on whatever `tmp_code` holds: the bytearray after the loop
    and the exception that stopped it (IndexError: `tmp_code` too short, ValueError: a byte would exceed 255 — both only
    possible after a `from_hash` of a digest of the wrong length or a second `final` without `reset`) -/
def codeLoop (c : Tlsh.Cfg) (q1 q2 q3 : Nat) (bucket tmp : List Nat) : List Nat × Option Err :=
  (List.range c.buckets).foldl (fun (acc : List Nat × Option Err) bi =>
    match acc.2 with
    | some _ => acc
    | none =>
      if Tlsh.quart q1 q2 q3 (bucket.getD bi 0) = 0 then acc else
      match acc.1[bi / 4]? with
      | none => (acc.1, some "IndexError")
      | some x =>
        if x + (Tlsh.quart q1 q2 q3 (bucket.getD bi 0) <<< (2 * (bi % 4))) > 255 then (acc.1, some "ValueError")
        else (acc.1.set (bi / 4) (x + (Tlsh.quart q1 q2 q3 (bucket.getD bi 0) <<< (2 * (bi % 4)))), none)) (tmp, none)

/-- the tail of `final` once the data has been absorbed: length gates, quartiles, code, header -/
def finish (lcap : Nat → Nat) (s : State) (force : Bool) : State × Res :=
  if s.data_len < minLen ∨ (force = false ∧ s.data_len < minLenNoForce) then (s, .ok .none) else
  match s.a_bucket with
  | none => (s, .error "TypeError:a_bucket")
  | some bucket =>
    if Tlsh.tooFew s.cfg.buckets (Tlsh.nonzero s.cfg bucket) then (s, .ok .none) else
    match (codeLoop s.cfg (Tlsh.quartiles s.cfg bucket).1 (Tlsh.quartiles s.cfg bucket).2.1 (Tlsh.quartiles s.cfg bucket).2.2
            bucket s.tmp_code).2 with
    | some e =>
      ({ s with tmp_code := (codeLoop s.cfg (Tlsh.quartiles s.cfg bucket).1 (Tlsh.quartiles s.cfg bucket).2.1
                              (Tlsh.quartiles s.cfg bucket).2.2 bucket s.tmp_code).1 }, .error e)
    | none =>
      if (Tlsh.quartiles s.cfg bucket).2.2 = 0 then
        ({ s with tmp_code := (codeLoop s.cfg (Tlsh.quartiles s.cfg bucket).1 (Tlsh.quartiles s.cfg bucket).2.1
                                (Tlsh.quartiles s.cfg bucket).2.2 bucket s.tmp_code).1,
                  Lvalue := lcap s.data_len % 256 }, .error "ZeroDivisionError")
      else
        ({ s with tmp_code := (codeLoop s.cfg (Tlsh.quartiles s.cfg bucket).1 (Tlsh.quartiles s.cfg bucket).2.1
                                (Tlsh.quartiles s.cfg bucket).2.2 bucket s.tmp_code).1,
                  Lvalue := lcap s.data_len % 256,
                  q1_ratio := some ((Tlsh.quartiles s.cfg bucket).1 * 100 / (Tlsh.quartiles s.cfg bucket).2.2 % 16),
                  q2_ratio := some ((Tlsh.quartiles s.cfg bucket).2.1 * 100 / (Tlsh.quartiles s.cfg bucket).2.2 % 16),
                  lsh_code_valid := true }, .ok .obj)

/-- `final(data,force)`: `.ok .none` = Python `None`, `.ok .obj` = `self` -/
def final (lcap : Nat → Nat) (s : State) (data : List Nat) (force : Bool) : State × Res :=
  if s.lsh_code_valid then (s, .ok .obj) else
  finish lcap (if data.isEmpty then s else update s data) force

def tobj (s : State) : Tlsh.TObj :=
  { chklen := s.cfg.chklen, checksum := s.checksum, lvalue := s.Lvalue, q1 := s.q1_ratio.getD 0, q2 := s.q2_ratio.getD 0,
    code := s.tmp_code }

def digest (s : State) : State :=
  if s.lsh_code_valid then { s with lsh_code := some (Tlsh.digest (tobj s)) } else s

def lshRes : Option (List Nat) → Res
  | some b => .ok (.bytes b)
  | none => .ok .none

def fromHash (s : State) (data : List Nat) : State × Res :=
  let s := reset s
  let s := { s with checksum := (data.take s.cfg.chklen).map Tlsh.swp8 }
  match data.drop s.cfg.chklen with
  | [] => (s, .error "IndexError")
  | [lv] => ({ s with Lvalue := Tlsh.swp8 lv }, .error "IndexError")
  | lv :: qb :: body =>
    let s := digest { s with Lvalue := Tlsh.swp8 lv, q1_ratio := some (qb >>> 4), q2_ratio := some (qb &&& 0xf),
                             tmp_code := body.reverse, lsh_code_valid := decide (body.length = s.cfg.codesize) }
    if s.lsh_code = some data then (s, .ok .obj) else (s, .error "AssertionError")

def step (lcap : Nat → Nat) (s : State) : Op → State × Res
  | .call data force =>
    match (final lcap (reset s) data force).2 with
    | .ok .obj => (digest (final lcap (reset s) data force).1, lshRes (digest (final lcap (reset s) data force).1).lsh_code)
    | r => ((final lcap (reset s) data force).1, r)
  | .update data => (update s data, .ok .obj)
  | .final data force => final lcap s data force
  | .digest => (digest s, .ok .obj)
  | .from_hash data => fromHash s data
  | .reset => (reset s, .ok .none)

def isProbe : Op → Bool
  | .call .. => true
  | _ => false

def machine (lcap : Nat → Nat) : Machine where
  State := State
  Cfg := Tlsh.Cfg
  Op := Op
  cfg := State.cfg
  init := init
  next s op := (step lcap s op).1
  out s op := (step lcap s op).2
  reconf c _ := c
  probe := isProbe

end TlshO

/-! ## Nilsimsa (nilsimsa.py): configuration `tran`; `reset()` assigns `count, dacc, seen`; after the `fix:`
    `__call__` starts with `reset()` -/
namespace NilsimsaO

structure State where
  /-- the table `self.tran` = `maketran(target)` -/
  cfg : List Nat
  count : Nat
  dacc : List Nat
  /-- the last four entries of the list `self.seen` (most recent first) -/
  seen : Option Nat × Option Nat × Option Nat × Option Nat

inductive Op
  | call (data : List Nat)
  | update (data : List Nat)
  | digest
  | reset

def st (s : State) : Nilsimsa.St := ⟨s.count, s.dacc, s.seen.1, s.seen.2.1, s.seen.2.2.1, s.seen.2.2.2⟩
def put (s : State) (t : Nilsimsa.St) : State := { s with count := t.count, dacc := t.dacc, seen := (t.w0, t.w1, t.w2, t.w3) }
def reset (s : State) : State := put s Nilsimsa.St.init
def init (tran : List Nat) : State := reset { cfg := tran, count := 0, dacc := [], seen := (none, none, none, none) }

def step (s : State) : Op → State × Res
  | .call data => (reset s, .ok (.bytes (Nilsimsa.digest (Nilsimsa.update s.cfg Nilsimsa.St.init data))))
  | .update data => (put s (Nilsimsa.update s.cfg (st s) data), .ok .obj)
  | .digest => (reset s, .ok (.bytes (Nilsimsa.digest (st s))))
  | .reset => (reset s, .ok .none)

def isProbe : Op → Bool
  | .call .. => true
  | _ => false

def machine : Machine where
  State := State
  Cfg := List Nat
  Op := Op
  cfg := State.cfg
  init := init
  next s op := (step s op).1
  out s op := (step s op).2
  reconf c _ := c
  probe := isProbe

end NilsimsaO

/-! ## AES (aes.py): configuration `K` (and `Nb,Nk,Nr,blocksize` derived from it); scratch `_AES__w`, the key
    schedule cached by the first `keyschedule()`.  This is call-to-call state BY DESIGN (a memo): the results do not
    depend on it as long as the cache is coherent, which is the invariant `Coherent`. -/
namespace AesO

structure State where
  cfg : List Nat
  _AES__w : Option (List (List Nat))

inductive Op
  | enc (M : List Nat)
  | dec (C : List Nat)
  | keyschedule

def init (K : List Nat) : State := { cfg := K, _AES__w := none }

/-- `keyschedule()`: `if self.__w is not None: return self.__w` -/
def sched (s : State) : List (List Nat) := s._AES__w.getD (Aes.keySchedule s.cfg)

def step (s : State) : Op → State × Res
  | .enc M =>
    match Aes.init s.cfg with
    | .error e => (s, .error e)
    | .ok kn =>
      if M.length ≠ 16 then (s, .error "AssertionError") else
      ({ s with _AES__w := some (sched s) }, .ok (.bytes (Aes.encW (sched s) kn.2 M)))
  | .dec C =>
    match Aes.init s.cfg with
    | .error e => (s, .error e)
    | .ok kn =>
      if C.length ≠ 16 then (s, .error "AssertionError") else
      ({ s with _AES__w := some (sched s) }, .ok (.bytes (Aes.decW (sched s) kn.2 C)))
  | .keyschedule =>
    match Aes.init s.cfg with
    | .error e => (s, .error e)
    | .ok _ => ({ s with _AES__w := some (sched s) }, .ok (.nat (sched s).length))

/-- the object afterwards, without evaluating the result (`= (step s op).1`) -/
def next (s : State) (op : Op) : State :=
  match Aes.init s.cfg with
  | .error _ => s
  | .ok _ =>
    match op with
    | .enc M => if M.length ≠ 16 then s else { s with _AES__w := some (sched s) }
    | .dec C => if C.length ≠ 16 then s else { s with _AES__w := some (sched s) }
    | .keyschedule => { s with _AES__w := some (sched s) }

def isProbe : Op → Bool
  | .keyschedule => false
  | _ => true

def Coherent (s : State) : Prop := s._AES__w = none ∨ s._AES__w = some (Aes.keySchedule s.cfg)

def machine : Machine where
  State := State
  Cfg := List Nat
  Op := Op
  cfg := State.cfg
  init := init
  next := next
  out s op := (step s op).2
  reconf c _ := c
  probe := isProbe

end AesO

/-! ## DES, TDEA, Serpent (des.py, serpent.py): no attribute is assigned outside `__init__` (TDEA owns three DES
    objects, which have none either): the object IS its configuration. -/
namespace PureCipher

structure State where
  cfg : BlockCipher

inductive Op
  | enc (M : List Nat)
  | dec (C : List Nat)

def step (s : State) : Op → State × Res
  | .enc M => (s, bytesRes (s.cfg.enc M))
  | .dec C => (s, bytesRes (s.cfg.dec C))

def machine : Machine where
  State := State
  Cfg := BlockCipher
  Op := Op
  cfg := State.cfg
  init c := ⟨c⟩
  next s _ := s
  out s op := (step s op).2
  reconf c _ := c
  probe _ := true

end PureCipher

/-! ## ECB / CBC / CTR / CTS_ECB / CTS_CBC (mode.py): configuration `_cipher, pad (class), IV, counter.nonce/count0`;
    scratch: the padding iterator `pad` (`padflag, bitcnt, padcnt`), the counter value `counter.count`, and the scratch
    of the shared cipher object (the AES key-schedule cache).  Every `enc` starts with `pad.reset()`
    (and `counter.reset()`); `dec` reads the padding state only through `Nullpadding.remove`. -/
namespace ModeO

inductive Kind
  | ecb | cbc | ctr | cts_ecb | cts_cbc
deriving Repr, DecidableEq, Inhabited

/-- the cipher object a mode holds: an AES object (with its cache) or a cipher without scratch state -/
inductive CipherCfg
  | aes (K : List Nat)
  | pure (bc : BlockCipher)

structure Cfg where
  kind : Kind
  cipher : CipherCfg
  iv : Option (List Nat)
  scheme : Scheme

structure State where
  cfg : Cfg
  /-- `self.pad` (owned padding iterator) -/
  pad : PadState
  /-- `self.counter.count` (absent before the first `reset()`) -/
  count : Option Bits
  /-- scratch of the shared `_cipher` object: `_AES__w` -/
  _cipher : Option (List (List Nat))

inductive Op
  | enc (M : List Nat)
  | dec (C : List Nat)
  | cenc (b : List Nat)      -- `_cipher.enc(b)` called directly on the shared cipher object
  | cdec (b : List Nat)
  | sibenc (M : List Nat)    -- another mode object built over the same cipher object
  | sibdec (C : List Nat)

/-- the block cipher as the mode sees it, given the cipher object's scratch -/
def cipherOf : CipherCfg → Option (List (List Nat)) → BlockCipher
  | .pure bc, _ => bc
  | .aes K, w =>
    { len := 16,
      enc := fun M => (AesO.step ⟨K, w⟩ (.enc M)).2.bind fun v => match v with
        | .bytes b => .ok b
        | _ => .error "TypeError"
      dec := fun C => (AesO.step ⟨K, w⟩ (.dec C)).2.bind fun v => match v with
        | .bytes b => .ok b
        | _ => .error "TypeError" }

/-- the cipher object's scratch after it has been used -/
def touched : CipherCfg → Option (List (List Nat)) → Option (List (List Nat))
  | .pure _, w => w
  | .aes K, w => match Aes.init K with
    | .ok _ => some (w.getD (Aes.keySchedule K))
    | .error _ => w

def init (c : Cfg) : State := { cfg := c, pad := {}, count := none, _cipher := none }

def encRes (c : Cfg) (bc : BlockCipher) (M : List Nat) : Except Err (List Nat) :=
  match c.kind with
  | .ecb => Mode.ECB.enc bc c.scheme M
  | .cts_ecb => Mode.CTS_ECB.enc bc c.scheme M
  | .cbc => Mode.CBC.enc bc (c.iv.getD []) c.scheme M
  | .cts_cbc => Mode.CTS_CBC.enc bc (c.iv.getD []) c.scheme M
  | .ctr => Mode.CTR.enc bc c.iv M

def decRes (c : Cfg) (bc : BlockCipher) (pad : PadState) (C : List Nat) : Except Err (List Nat) :=
  match c.kind with
  | .ecb => Mode.ECB.dec bc c.scheme C pad
  | .cts_ecb => Mode.CTS_ECB.dec bc c.scheme C
  | .cbc => Mode.CBC.dec bc (c.iv.getD []) c.scheme C pad
  | .cts_cbc => Mode.CTS_CBC.dec bc (c.iv.getD []) c.scheme C
  | .ctr => Mode.CTR.dec bc c.iv C

/-- the message the padding iterator of this `enc` is run on -/
def padInput (c : Cfg) (bc : BlockCipher) (M : List Nat) : List Nat :=
  match c.kind with
  | .cts_ecb | .cts_cbc => M.take (M.length / bc.len * bc.len)
  | _ => M

/-- padding state an `enc` leaves behind (`pad.reset()`, then the iterator ran to its end or to its exception) -/
def padAfter (c : Cfg) (bc : BlockCipher) (M : List Nat) : PadState :=
  match Mode.mkPad bc c.scheme with
  | .error _ => {}
  | .ok p => (p.iterblocks {} (padInput c bc M)).final

/-- the counter after an `enc` of n blocks -/
def countAfter (c : Cfg) (bc : BlockCipher) (M : List Nat) : Option Bits :=
  match Mode.DefaultCounter.new bc.len c.iv with
  | .error _ => none
  | .ok d => some ((List.range ((M.length + bc.len - 1) / bc.len)).foldl (fun cnt _ => (d.call cnt).2) d.reset)

def step (s : State) : Op → State × Res
  | .enc M =>
    let bc := cipherOf s.cfg.cipher s._cipher
    ({ s with pad := padAfter s.cfg bc M,
              count := if s.cfg.kind = .ctr then countAfter s.cfg bc M else s.count,
              _cipher := touched s.cfg.cipher s._cipher },
     bytesRes (encRes s.cfg bc M))
  | .dec C =>
    let bc := cipherOf s.cfg.cipher s._cipher
    ({ s with pad := if s.cfg.kind = .ctr then padAfter s.cfg bc C else s.pad,
              count := if s.cfg.kind = .ctr then countAfter s.cfg bc C else s.count,
              _cipher := touched s.cfg.cipher s._cipher },
     bytesRes (decRes s.cfg bc s.pad C))
  | .cenc b => ({ s with _cipher := touched s.cfg.cipher s._cipher }, bytesRes ((cipherOf s.cfg.cipher s._cipher).enc b))
  | .cdec b => ({ s with _cipher := touched s.cfg.cipher s._cipher }, bytesRes ((cipherOf s.cfg.cipher s._cipher).dec b))
  | .sibenc _ => ({ s with _cipher := touched s.cfg.cipher s._cipher }, .ok .obj)
  | .sibdec _ => ({ s with _cipher := touched s.cfg.cipher s._cipher }, .ok .obj)

/-- the object afterwards, without evaluating the result (`= (step s op).1`) -/
def next (s : State) : Op → State
  | .enc M =>
    { s with pad := padAfter s.cfg (cipherOf s.cfg.cipher s._cipher) M,
             count := if s.cfg.kind = .ctr then countAfter s.cfg (cipherOf s.cfg.cipher s._cipher) M else s.count,
             _cipher := touched s.cfg.cipher s._cipher }
  | .dec C =>
    { s with pad := if s.cfg.kind = .ctr then padAfter s.cfg (cipherOf s.cfg.cipher s._cipher) C else s.pad,
             count := if s.cfg.kind = .ctr then countAfter s.cfg (cipherOf s.cfg.cipher s._cipher) C else s.count,
             _cipher := touched s.cfg.cipher s._cipher }
  | _ => { s with _cipher := touched s.cfg.cipher s._cipher }

def isProbe : Op → Bool
  | .enc .. => true
  | .dec .. => true
  | _ => false

def Coherent (s : State) : Prop :=
  match s.cfg.cipher with
  | .pure _ => True
  | .aes K => s._cipher = none ∨ s._cipher = some (Aes.keySchedule K)

def machine : Machine where
  State := State
  Cfg := Cfg
  Op := Op
  cfg := State.cfg
  init := init
  next := next
  out s op := (step s op).2
  reconf c _ := c
  probe := isProbe

end ModeO

/-! ## Salsa20 / Chacha (salsa20.py, chacha.py): configuration `K, dround` and the constant/key words of the input
    block `p`; `keystream(v)` overwrites the nonce words and, per block, the counter words of `p` IN PLACE, so `p`
    is part configuration, part scratch. -/
namespace StreamO
open Model.Salsa (Variant)

structure Cfg where
  chacha : Bool
  K : Option (List Bits)
  dround : Nat
  /-- `self.p` as the constructor leaves it -/
  p0 : Poly

structure State where
  cfg : Cfg
  p : Poly

inductive Op
  | enc (v : Bits) (m : List Nat)
  | dec (v : Bits) (c : List Nat)
  | keystream (v : Bits) (n : Nat)    -- `g = keystream(v)`, n × `next(g)`, generator abandoned
  | hash (m : List Nat)

def variant (c : Cfg) : Variant := if c.chacha then Chacha.chacha else Salsa.salsa

def obj (s : State) : Salsa.State := { K := s.cfg.K, p := s.p, dround := s.cfg.dround }

def init (c : Cfg) : State := { cfg := c, p := c.p0 }

/-- n turns of the generator loop -/
def blocks (V : Variant) : Nat → Nat → Salsa.State → Except Err Salsa.State
  | 0, _, s => .ok s
  | n + 1, i, s =>
    match Salsa.block V s i with
    | .error e => .error e
    | .ok r => blocks V n (i + 1) r.2

def step (s : State) : Op → State × Res
  | .enc v m =>
    match Salsa.enc (variant s.cfg) (obj s) v m with
    | .error e => (s, .error e)
    | .ok r => ({ s with p := r.2.p }, .ok (.bytes r.1))
  | .dec v c =>
    match Salsa.dec (variant s.cfg) (obj s) v c with
    | .error e => (s, .error e)
    | .ok r => ({ s with p := r.2.p }, .ok (.bytes r.1))
  | .keystream v n =>
    match Salsa.setNonce (variant s.cfg) (obj s) v with
    | .error e => (s, .error e)
    | .ok s1 =>
      match blocks (variant s.cfg) n 0 s1 with
      | .error e => ({ s with p := s1.p }, .error e)
      | .ok s2 => ({ s with p := s2.p }, .ok (.nat n))
  | .hash m => (s, bytesRes (Salsa.hash (variant s.cfg) m))

def isProbe : Op → Bool
  | .keystream .. => false
  | _ => true

def machine : Machine where
  State := State
  Cfg := Cfg
  Op := Op
  cfg := State.cfg
  init := init
  next s op := (step s op).1
  out s op := (step s op).2
  reconf c _ := c
  probe := isProbe

end StreamO

/-! ## Skein (skein.py): configuration `Nb, No, C` (the 32-byte configuration string built once by the constructor), the
    tree parameters `Yl, Yf, Ym` and the optional stage inputs `key, prs, PK, kdf, non`; scratch `G`, the chaining value.
    `_initstate()` assigns `G` afresh (zeros, then one UBI per configured stage), `update` chains one more UBI (or tree)
    from the current `G`, `__call__` = `_initstate` + `update(M,'msg',bitlen)` + `output(G)`.  The `UBI` objects (with their
    copy of the tweak `Ts`) and the `Tweak` objects are created inside one call and dropped at its end; a new object has
    no `G` at all (`update` before the first `_initstate` raises AttributeError). -/
namespace SkeinO

structure State where
  cfg : Skein.Cfg
  /-- `self.G` (absent before the first `_initstate()`) -/
  G : Option (List Nat)

inductive Op
  | call (M : List Nat) (bitlen : Option Nat)
  | update (M : List Nat)                           -- `update(M)`: T='msg', bitlen=None
  | initstate                                       -- `_initstate()`, returns `self.G`

def init (c : Skein.Cfg) : State := { cfg := c, G := none }

/-- one `if self.x: self.update(self.x,ty)` line of `_initstate` on (the `G` assigned so far, the exception that stopped
    the method): an UBI that raises leaves `self.G` at the value of the previous stage -/
def runStage (acc : List Nat × Option Err) (go : Bool) (M : List Nat) (ty : String) : List Nat × Option Err :=
  match acc.2 with
  | some _ => acc
  | none =>
    if go then
      match Skein.stage acc.1 M ty with
      | .ok G => (G, none)
      | .error e => (acc.1, some e)
    else acc

/-- `_initstate()`: the `G` it leaves behind (also when a stage raises half-way) and the exception -/
def doInit (c : Skein.Cfg) : List Nat × Option Err :=
  let a := (List.replicate c.Nb 0, none)
  let a := runStage a (Skein.truthy c.key) (c.key.getD []) "key"
  let a := runStage a true c.C "cfg"
  let a := runStage a (Skein.truthy c.prs) (c.prs.getD []) "prs"
  let a := runStage a (Skein.truthy c.PK) (c.PK.getD []) "PK"
  let a := runStage a (Skein.truthy c.kdf) (c.kdf.getD []) "kdf"
  runStage a (Skein.truthy c.non) (c.non.getD []) "non"

/-- `update(M,'msg',bitlen)` on the current `G`: `self.G` is assigned only when the UBI / the tree hash returns -/
def doUpdate (s : State) (M : List Nat) (bitlen : Option Nat) : State × Res :=
  match s.G with
  | none => (s, .error "AttributeError:G")
  | some G =>
    match Skein.updateMsg s.cfg G M bitlen with
    | .ok G' => ({ s with G := some G' }, .ok .none)
    | .error e => (s, .error e)

def step (s : State) : Op → State × Res
  | .call M bl =>
    match (doInit s.cfg).2 with
    | some e => ({ s with G := some (doInit s.cfg).1 }, .error e)
    | none =>
      match Skein.updateMsg s.cfg (doInit s.cfg).1 M bl with
      | .error e => ({ s with G := some (doInit s.cfg).1 }, .error e)
      | .ok G' => ({ s with G := some G' }, bytesRes (Skein.output s.cfg G'))
  | .update M => doUpdate s M none
  | .initstate =>
    ({ s with G := some (doInit s.cfg).1 },
     match (doInit s.cfg).2 with
     | some e => .error e
     | none => .ok (.bytes (doInit s.cfg).1))

def isProbe : Op → Bool
  | .call .. => true
  | _ => false

def machine : Machine where
  State := State
  Cfg := Skein.Cfg
  Op := Op
  cfg := State.cfg
  init := init
  next s op := (step s op).1
  out s op := (step s op).2
  reconf c _ := c
  probe := isProbe

end SkeinO

/-! ## Threefish (threefish.py): every attribute is assigned by `__init__` only — `K`, `T`, `Nw`, `Nr`, the tables
    `__pi`, `__piinv`, `__R` and the extended key / tweak word lists `__k` (Nw+1 words) and `__t` (3 words), i.e. the
    fields of `Model.Threefish.Ctx`; `enc`/`dec`/`__ks` build new lists and new `Bits` words on every call and never
    store into `__k`/`__t`.  The object IS its configuration: no scratch field. -/
namespace ThreefishO

structure State where
  cfg : Threefish.Ctx

inductive Op
  | enc (M : List Nat)
  | dec (C : List Nat)

def step (s : State) : Op → State × Res
  | .enc M => (s, bytesRes (Threefish.enc s.cfg M))
  | .dec C => (s, bytesRes (Threefish.dec s.cfg C))

def machine : Machine where
  State := State
  Cfg := Threefish.Ctx
  Op := Op
  cfg := State.cfg
  init c := ⟨c⟩
  next s _ := s
  out s op := (step s op).2
  reconf c _ := c
  probe _ := true

end ThreefishO

end Model.Objects
