/-
  Model.Tlsh — crysp/tlsh.py as total Lean functions (after the `fix:` commits: `__call__` returns None
  when `final` does; the 48-bucket population gate is `nonzero < 18`).

  Bytes are `Nat`s < 256 (the driver only produces such), byte strings are `List Nat`.
  Floating point (stated in TRUSTED/ASSUMPTIONS of tools/props/C19.py):
   * `l_capturing` (three `log` branches) is the parameter `lcap : Nat → Nat` of `final`/`tlsh`; only
     `lcap len % 256` is used (`int(i)&0xff`).  The driver instantiates it with `Float.log`.
   * `int(q*100./q3) % 16` is modelled as `q*100/q3 % 16` in ℕ.  Exactness: q ≤ q3, so the real quotient
     x = 100q/q3 ≤ 100 < 128; the IEEE double quotient is the correctly rounded x (q*100. is exact below 2^53).
     If x is an integer it is returned exactly.  Otherwise x = n + r/q3 with 1 ≤ r < q3, i.e. x is at least
     1/q3 below n+1 and at least 1/q3 above n; both n and n+1 are doubles and rounding is monotone, so the
     rounded quotient lies in [n, n+1] and can be n+1 only if n+1-x ≤ half an ulp = 2^-47 (binade of 64..128).
     1/q3 > 2^-47 for every bucket count q3 < 2^47, hence int() of the double is n = ⌊x⌋.  (This is an
     argument about THIS order of operations: `q/q3*100` rounds twice and is one too small e.g. for 29/50.)  The
     correspondence stream compares the two header nibbles with the real code on every hashed input AND — hashed data
     rarely produces the critical quartile pairs — on explicit object state (`finalOf`, ops tlsh.final / tlsh.qscan:
     all pairs q ≤ q3 ≤ 200, thorough ≤ 1000 and all triples ≤ 160, sampled counts up to 2^46); tlsh.qexact
     enumerates the source expression itself over all float pairs q ≤ q3 < 1024 (thorough 4096).
  `q3 = 0` (a ZeroDivisionError in Python) is an explicit error branch; `Proofs.C19.tlsh_never_errors` shows
  it is unreachable behind the population gate.
-/
import Model.Py
import Model.Gen.Lsh
namespace Model.Tlsh
open Model.Gen.Lsh

/-- constructor arguments `TLSH(buckets, wndsize, chklen)` -/
structure Cfg where
  buckets : Nat
  window : Nat
  chklen : Nat
deriving Repr, DecidableEq, Inhabited

/-- the three `assert`s of `__init__` -/
def Cfg.valid (c : Cfg) : Bool :=
  (c.buckets == 256 || c.buckets == 128 || c.buckets == 48)
  && (c.window == 4 || c.window == 5 || c.window == 6 || c.window == 7 || c.window == 8)
  && (c.chklen == 1 || c.chklen == 3)

def Cfg.codesize (c : Cfg) : Nat := c.buckets / 4

/-- `PEARSON_T[x]`; every index the model produces is < 256 (`x ^^^ y` of two bytes) -/
def pearson (x : Nat) : Nat := pearsonT.getD x 0

/-- `b_mapping(c) = reduce(lambda x,y: PEARSON_T[x^y], c, 0)` -/
def bMapping (c : List Nat) : Nat := c.foldl (fun x y => pearson (x ^^^ y)) 0

/-- `data[-k]` on the reversed window `r` (k ≥ 1); `none` = IndexError -/
def lag (r : List Nat) (k : Nat) : Option Nat := if k = 0 then none else r[k - 1]?

def tripletOf (r : List Nat) : List Nat → Option (List Nat)
  | [s, a, b, c] => do
      let x ← lag r a; let y ← lag r b; let z ← lag r c
      pure [s, x, y, z]
  | _ => none

/-- the generator `triplet(data)`: yields the table entries in order until the first IndexError -/
def tripletsOf (r : List Nat) : List (List Nat) → List (List Nat)
  | [] => []
  | t :: ts =>
    match tripletOf r t with
    | some v => v :: tripletsOf r ts
    | none => []

/-- `checksum[0] = b_mapping((0,d0,d1,checksum[0]))`, `checksum[k] = b_mapping((checksum[k-1],d0,d1,checksum[k]))`
    (the already updated predecessor); `s` is the salt for the head of the list -/
def ckStep (d0 d1 : Nat) : Nat → List Nat → List Nat
  | _, [] => []
  | s, c :: cs => let c' := bMapping [s, d0, d1, c]; c' :: ckStep d0 d1 c' cs

/-- `a_bucket[bi] += 1` -/
def bump (b : List Nat) (i : Nat) : List Nat := b.modify i (· + 1)

/-- the part of the object that `update` writes -/
structure St where
  checksum : List Nat
  bucket : List Nat
deriving Repr, DecidableEq

/-- `reset()` followed by `a_bucket = [0]*256` -/
def St.init (c : Cfg) : St := ⟨List.replicate c.chklen 0, List.replicate 256 0⟩

/-- one iteration of `for ew in range(wsz,len(data)+1)`, `win = data[ew-wsz:ew]` -/
def stepWindow (st : St) (win : List Nat) : St :=
  let r := win.reverse
  let d0 := r.getD 0 0
  let d1 := r.getD 1 0
  ⟨ckStep d0 d1 0 st.checksum,
   (tripletsOf r triplets).foldl (fun b c => bump b (bMapping c)) st.bucket⟩

def windowsAux (w : Nat) : Nat → List Nat → List (List Nat)
  | 0, _ => []
  | n + 1, l => l.take w :: windowsAux w n l.tail

/-- `[data[ew-w:ew] for ew in range(w, len(data)+1)]` -/
def windows (w : Nat) (data : List Nat) : List (List Nat) := windowsAux w (data.length + 1 - w) data

/-- `update(data)` on a fresh object -/
def update (c : Cfg) (data : List Nat) : St := (windows c.window data).foldl stepWindow (St.init c)

/-- insertion sort: the meaning of `sorted()` on ints -/
def insertSorted (x : Nat) : List Nat → List Nat
  | [] => [x]
  | y :: ys => if x ≤ y then x :: y :: ys else y :: insertSorted x ys

def isort : List Nat → List Nat
  | [] => []
  | x :: xs => insertSorted x (isort xs)

/-- `find_quartiles()`: `sorted(a_bucket[:bktlen])[codesize-1 | 2codesize-1 | 3codesize-1]` -/
def quartiles (c : Cfg) (bucket : List Nat) : Nat × Nat × Nat :=
  let bkt := isort (bucket.take c.buckets)
  let l := c.codesize
  (bkt.getD (l - 1) 0, bkt.getD (2 * l - 1) 0, bkt.getD (3 * l - 1) 0)

/-- `len(list(filter(None, a_bucket[:l])))` -/
def nonzero (c : Cfg) (bucket : List Nat) : Nat := ((bucket.take c.buckets).filter (· ≠ 0)).length

/-- the population gate (after the `fix:`) -/
def tooFew (buckets nz : Nat) : Bool := (buckets == 48 && decide (nz < 18)) || (buckets != 48 && decide (nz ≤ buckets / 2))

/-- the 2-bit code of one bucket -/
def quart (q1 q2 q3 bv : Nat) : Nat := if q3 < bv then 3 else if q2 < bv then 2 else if q1 < bv then 1 else 0

/-- `tmp_code[i] += code << (j*2)` for the four buckets 4i..4i+3 -/
def codeByte (q1 q2 q3 : Nat) (bucket : List Nat) (i : Nat) : Nat :=
  quart q1 q2 q3 (bucket.getD (4 * i) 0) + (quart q1 q2 q3 (bucket.getD (4 * i + 1) 0) <<< 2)
  + (quart q1 q2 q3 (bucket.getD (4 * i + 2) 0) <<< 4) + (quart q1 q2 q3 (bucket.getD (4 * i + 3) 0) <<< 6)

def bodyCode (c : Cfg) (q1 q2 q3 : Nat) (bucket : List Nat) : List Nat :=
  (List.range c.codesize).map (codeByte q1 q2 q3 bucket)

/-- the digest fields of a TLSH object with `lsh_code_valid` (what `digest`, `from_hash` and `distance` read) -/
structure TObj where
  chklen : Nat
  checksum : List Nat
  lvalue : Nat
  q1 : Nat
  q2 : Nat
  code : List Nat
deriving Repr, DecidableEq, Inhabited

/-- `reset(); final(data,force)`; `.ok none` = the Python `None` -/
def final (lcap : Nat → Nat) (c : Cfg) (data : List Nat) (force : Bool) : Except Err (Option TObj) :=
  let len := data.length
  if len < minLen ∨ (force = false ∧ len < minLenNoForce) then .ok none else
  let st := update c data
  let (q1, q2, q3) := quartiles c st.bucket
  if tooFew c.buckets (nonzero c st.bucket) then .ok none else
  if q3 = 0 then .error "ZeroDivisionError" else
  .ok (some { chklen := c.chklen, checksum := st.checksum, lvalue := lcap len % 256,
              q1 := q1 * 100 / q3 % 16, q2 := q2 * 100 / q3 % 16,
              code := bodyCode c q1 q2 q3 st.bucket })

/-- `final(b'',force)` on an object whose state was set directly (`a_bucket := bucket`, `checksum := ck`,
    `data_len := len`, everything else as `reset()` left it): the finalisation phase alone, for ANY bucket array.
    `find_quartiles` indexes `sorted(a_bucket[:bktlen])[3*codesize-1]` and the code loop indexes `a_bucket[bi]` for
    `bi < bktlen`: both are IndexErrors on arrays that are too short (never the case after `update`, which always
    leaves 256 buckets: `Proofs.C19.final_is_finalOf`). -/
def finalOf (lcap : Nat → Nat) (c : Cfg) (st : St) (len : Nat) (force : Bool) : Except Err (Option TObj) :=
  if len < minLen ∨ (force = false ∧ len < minLenNoForce) then .ok none else
  if (st.bucket.take c.buckets).length ≤ 3 * c.codesize - 1 then .error "IndexError" else
  let (q1, q2, q3) := quartiles c st.bucket
  if tooFew c.buckets (nonzero c st.bucket) then .ok none else
  if st.bucket.length < c.buckets then .error "IndexError" else
  if q3 = 0 then .error "ZeroDivisionError" else
  .ok (some { chklen := c.chklen, checksum := st.checksum, lvalue := lcap len % 256,
              q1 := q1 * 100 / q3 % 16, q2 := q2 * 100 / q3 % 16,
              code := bodyCode c q1 q2 q3 st.bucket })

/-- `swp8 = lambda x: (x&0xf)<<4 | x>>4` -/
def swp8 (x : Nat) : Nat := ((x &&& 0xf) <<< 4) ||| (x >>> 4)

/-- `digest()`: checksum (nibble-swapped) ‖ Lvalue (swapped) ‖ q1<<4|q2 ‖ reversed code -/
def digest (o : TObj) : List Nat :=
  o.checksum.map swp8 ++ [swp8 o.lvalue, (o.q1 <<< 4) ||| o.q2] ++ o.code.reverse

/-- `TLSH(cfg)(data, force)` -/
def tlsh (lcap : Nat → Nat) (c : Cfg) (data : List Nat) (force : Bool) : Except Err (Option (List Nat)) :=
  if c.valid = false then .error "AssertionError" else
  (final lcap c data force).map (·.map digest)

/-- `from_hash(data)` including its closing `assert self.lsh_code == bytearray(data)` -/
def fromHash (c : Cfg) (data : List Nat) : Except Err TObj :=
  match data.drop c.chklen with
  | lv :: qb :: body =>
    let o : TObj := { chklen := c.chklen, checksum := (data.take c.chklen).map swp8, lvalue := swp8 lv,
                      q1 := qb >>> 4, q2 := qb &&& 0xf, code := body.reverse }
    if body.length ≠ c.codesize then .error "AssertionError"      -- lsh_code stays None
    else if digest o ≠ data then .error "AssertionError"
    else .ok o
  | _ => .error "IndexError"

/-- an argument of `distance`: a TLSH object or raw digest bytes -/
inductive Operand where
  | obj (o : TObj)
  | raw (b : List Nat)
deriving Repr

/-- the `isinstance(h,bytes)` prologue of `distance`; `.ok none` = `th = None` -/
def resolve : Operand → Except Err (Option TObj)
  | .obj o => .ok (some o)
  | .raw b =>
    let l := b.length
    let mk (buckets chk : Nat) : Except Err (Option TObj) :=
      let c : Cfg := ⟨buckets, 5, chk⟩
      if c.valid = false then .error "AssertionError" else (fromHash c b).map some
    if l > 66 then mk 256 (l - 66)
    else if l > 34 then mk 128 (l - 34)
    else if l > 14 then mk 48 (l - 14)
    else .ok none

def absDiff (a b : Nat) : Nat := if a ≤ b then b - a else a - b

def diffmod (x y n : Nat) : Nat :=
  let d0 := absDiff (x % n) (y % n)
  min d0 (n - d0)

def pairDiff (a b : Nat) : Nat := (bitPairDiff.getD a []).getD b 0

/-- the inner `for t in range(4)` over one pair of code bytes -/
def byteDiff (tx ty : Nat) : Nat :=
  pairDiff (tx % 4) (ty % 4) + pairDiff (tx / 4 % 4) (ty / 4 % 4)
  + pairDiff (tx / 16 % 4) (ty / 16 % 4) + pairDiff (tx / 64 % 4) (ty / 64 % 4)

def bodyDiff (c1 c0 : List Nat) : Nat := (List.zipWith byteDiff c1 c0).sum

def headerDiff (t0 t1 : TObj) (lvalue : Bool) : Nat :=
  (if t1.checksum ≠ t0.checksum then 1 else 0)
  + (if lvalue then (let d := diffmod t1.lvalue t0.lvalue 256; if d ≤ 1 then d else d * 12) else 0)
  + (let d := diffmod t1.q1 t0.q1 16; if d ≤ 1 then d else (d - 1) * 12)
  + (let d := diffmod t1.q2 t0.q2 16; if d ≤ 1 then d else (d - 1) * 12)

/-- `distance(h0,h1,lvalue)`; `.ok none` = falls off the end (an operand too short to be a digest) -/
def distance (h0 h1 : Operand) (lvalue : Bool := true) : Except Err (Option Nat) := do
  let th0 ← resolve h0
  let th1 ← resolve h1
  match th0, th1 with
  | some t0, some t1 =>
    if t0.chklen ≠ t1.chklen then .error "AssertionError" else
    pure (some (headerDiff t0 t1 lvalue + bodyDiff t1.code t0.code))
  | _, _ => pure none

end Model.Tlsh
