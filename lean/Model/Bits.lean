/-
  Model.Bits — crysp/bits.py and crysp/utils/operators.py as total Lean functions.
  A `Bits` is the pair (ival,size) the Python object holds; `mask` is always 2^size-1 there
  (only the `size` setter writes it), so it is not a field.
  Mutating methods return the new value.  Exceptions are `Except Err`.
-/
import Model.Py
namespace Model
open Py

structure Bits where
  ival : Nat
  size : Nat
deriving Repr, DecidableEq, Inhabited

namespace Bits

/-- invariant of every value the library hands out -/
def WF (b : Bits) : Prop := b.ival < 2 ^ b.size
instance (b : Bits) : Decidable b.WF := by unfold WF; infer_instance

def mask (b : Bits) : Nat := 2 ^ b.size - 1

/-- bits.py `reverse_byte` (the multiplication trick, literally) -/
def reverseByte (b : Nat) : Nat := (b * 0x0202020202 &&& 0x010884422010) % 1023

/-- the `size` setter: `self.__sz=v; mask=(1<<v)-1; ival&=mask` -/
def setSize (b : Bits) (n : Nat) : Bits := ⟨b.ival % 2 ^ n, n⟩

/-- `Bits(v)` for a non-negative int: size = bit_length -/
def ofNat (v : Nat) : Bits := ⟨v, bitLength v⟩
/-- `Bits(v,size)` for a non-negative int -/
def ofNatSz (v size : Nat) : Bits := ⟨v % 2 ^ size, size⟩
/-- `Bits(v,size=None|n)` for any int: `abs(v)` first -/
def ofInt (v : Int) (size : Option Nat) : Bits :=
  match size with
  | none => ofNat v.natAbs
  | some n => ofNatSz v.natAbs n

/-- `for x in reversed(v): ival = (ival<<1)|(x&1)` -/
def listVal : List Nat → Nat
  | [] => 0
  | x :: xs => (listVal xs <<< 1) ||| (x &&& 1)

/-- `Bits(list)` / `Bits(list,size)` -/
def ofList (l : List Nat) (size : Option Nat := none) : Bits :=
  let b : Bits := ⟨listVal l, l.length⟩
  match size with
  | none => b
  | some n => b.setSize n

/-- big-endian value of one group with the per-byte map f: `x = (x<<8)|f(b)` -/
def groupVal (f : Nat → Nat) (e : List Nat) : Nat := e.foldl (fun x b => (x <<< 8) ||| f b) 0

/-- `for i in reversed(range(0,l,k)): v = (v<<elsz)|x_i` -/
def groupsVal (f : Nat → Nat) (k : Nat) : List (List Nat) → Nat
  | [] => 0
  | e :: es => (groupsVal f k es <<< (8 * k)) ||| groupVal f e

/-- `Bits.load(v,bitorder)` (after the `fix:` that lets bitorder=0 load b''): size = 8·len -/
def load (s : List Nat) (bitorder : Int) : Except Err Bits :=
  let l := s.length
  let f : Nat → Nat := if bitorder < 0 then reverseByte else id
  let k : Nat := if bitorder = 0 then (if l = 0 then 1 else l) else bitorder.natAbs
  if l % k ≠ 0 then .error "ValueError:v length must be a multiple of bitorder" else
  .ok ⟨groupsVal f k (chunks k s), 8 * l⟩

/-- `Bits(bytes,size,bitorder)` -/
def ofBytes (s : List Nat) (size : Option Nat := none) (bitorder : Int := -1) : Except Err Bits := do
  let b ← load s bitorder
  match size with
  | none => pure b
  | some n => pure (b.setSize n)

/-- `Bits.bit(i)` (after the `fix:` that makes index 0 of an empty vector an IndexError) -/
def bit (b : Bits) (i : Int) : Except Err Nat :=
  if 0 ≤ i ∧ i < b.size then .ok ((b.ival >>> i.toNat) &&& 1)
  else if 0 < -i ∧ -i ≤ b.size then .ok ((b.ival >>> (b.size + i).toNat) &&& 1)
  else .error "IndexError"

/-- `Bits.int(sign)` -/
def toInt (b : Bits) (sign : Int := 1) : Except Err Int :=
  if sign = -1 then do
    let top ← b.bit (-1)
    if top = 1 then pure (-((b.ival ^^^ b.mask : Nat) : Int) - 1)
    else pure ((b.ival &&& b.mask : Nat) : Int)
  else pure ((b.ival &&& b.mask : Nat) : Int)

/-- `list(self)` = `bitlist(1)` -/
def toBitList (b : Bits) : List Nat := (List.range b.size).map fun i => (b.ival >>> i) &&& 1

def bitlist (b : Bits) (dir : Int := 1) : List Nat :=
  if dir = -1 then b.toBitList.reverse else b.toBitList

/-- `str(self)`: the hex-table rendering, modelled by its meaning (char i = bit i) -/
def toStr (b : Bits) : String := String.ofList (b.toBitList.map fun x => if x = 1 then '1' else '0')

def todots (b : Bits) : String :=
  "|" ++ String.ofList (b.toBitList.map fun x => if x = 1 then '.' else ' ') ++ "|"

/-- `__bytes__`: `while i<sz: s.append(reverse_byte(v&0xff)); v>>=8; i+=8` -/
def toBytes (b : Bits) : List Nat :=
  (List.range ((b.size + 7) / 8)).map fun k => reverseByte (((b.ival &&& b.mask) >>> (8 * k)) &&& 0xff)

/-- `b[start:stop]` fast path of `__getitem__` for 0 ≤ start ≤ stop ≤ size -/
def sliceFast (b : Bits) (start stop : Nat) : Bits :=
  ofNatSz ((b.ival &&& (2 ^ stop - 1)) >>> start) (stop - start)

/-- `b[list]` path: `for x in reversed(i): v=(v<<1)|((ival>>x)&1)`; negative index = negative shift = ValueError -/
def getList (b : Bits) (idx : List Int) : Except Err Bits :=
  if idx.any (· < 0) then .error "ValueError:negative shift count" else
  .ok (ofNatSz (listVal (idx.map fun x => (b.ival >>> x.toNat) &&& 1)) idx.length)

/-- `b[start:stop:step]` -/
def getSlice (b : Bits) (start stop step : Option Int) : Except Err Bits := do
  let (s, e, st) ← sliceIndices start stop step b.size
  if st = 1 ∧ e ≥ s then pure (b.sliceFast s.toNat e.toNat)
  else b.getList (Py.range s e st)

/-- `b[i]` for an int -/
def getInt (b : Bits) (i : Int) : Except Err Bits := do
  let v ← b.bit i
  pure (ofNatSz v 1)

/-- `split(subsize,bigend)`; subsize ≥ 1 (0 loops forever in Python: out of domain, `Err` here) -/
def split (b : Bits) (subsize : Nat) (bigend : Bool := false) : Except Err (List Bits) :=
  if subsize = 0 then .error "hang:split(0)" else
  let n := (b.size + subsize - 1) / subsize
  let l := (List.range n).map fun j => b.sliceFast (j * subsize) (min (j * subsize + subsize) b.size)
  .ok (if bigend then l.reverse else l)

/-- unary minus after the `fix:` (modulo mask+1) -/
def neg (b : Bits) : Bits := ofNatSz ((2 ^ b.size - b.ival % 2 ^ b.size) % 2 ^ b.size) b.size

/-- `b[i] = v` for int i: `assert v in (0,1)` -/
def setInt (b : Bits) (i : Int) (v : Nat) : Except Err Bits :=
  if v ≠ 0 ∧ v ≠ 1 then .error "AssertionError" else
  let p? : Option Nat :=
    if 0 ≤ i ∧ i < b.size then some i.toNat
    else if 0 < -i ∧ -i < (b.size : Int) + 1 then some (b.size + i).toNat
    else none
  match p? with
  | none => .error "IndexError"
  | some p =>
    if v = 0 then .ok ⟨b.ival &&& (b.mask ^^^ (1 <<< p)), b.size⟩
    else .ok ⟨b.ival ||| (1 <<< p), b.size⟩

/-- `for j,b in zip(r,v): self[j]=b` -/
def setBits (b : Bits) : List Int → List Nat → Except Err Bits
  | j :: js, x :: xs => do let b' ← b.setInt j x; setBits b' js xs
  | _, _ => .ok b

/-- `b[list] = v` (v already converted by `Bits(v)`) -/
def setList (b : Bits) (idx : List Int) (v : Bits) : Except Err Bits :=
  if idx.length ≠ v.size then .error "AssertionError" else b.setBits idx v.toBitList

/-- `b[start:stop:step] = v` (v already converted by `Bits(v)`) -/
def setSlice (b : Bits) (start stop step : Option Int) (v : Bits) : Except Err Bits := do
  let (s, e, st) ← sliceIndices start stop step b.size
  if st = 1 ∧ e > s then
    let m := b.mask ^^^ (2 ^ e.toNat - 1) ^^^ (2 ^ s.toNat - 1)
    pure ⟨(b.ival &&& m) ||| (v.ival <<< s.toNat), b.size⟩
  else b.setList (Py.range s e st) v

def shl (b : Bits) (i : Nat) : Bits := ⟨(b.ival <<< i) &&& b.mask, b.size⟩
def shr (b : Bits) (i : Nat) : Bits := ⟨(b.ival >>> i) &&& b.mask, b.size⟩
def inv (b : Bits) : Bits := ⟨b.ival ^^^ b.mask, b.size⟩

def zeroextend (b : Bits) (size : Nat) : Bits := if size > b.size then b.setSize size else b

def signextend (b : Bits) (size : Nat) : Except Err Bits :=
  if size > b.size then do
    let s ← b.bit (-1)
    let b' := b.setSize size
    if s = 1 then pure ⟨b'.ival ||| (b.mask ^^^ b'.mask), size⟩ else pure b'
  else pure b

/-- width rule shared by & | ^ + -: `res = Bits(self) if self.size > obj.size else Bits(obj)` -/
def wsize (a o : Bits) : Nat := if a.size > o.size then a.size else o.size

def and (a o : Bits) : Bits := ⟨a.ival &&& o.ival, wsize a o⟩
def or  (a o : Bits) : Bits := ⟨a.ival ||| o.ival, wsize a o⟩
def xor (a o : Bits) : Bits := ⟨a.ival ^^^ o.ival, wsize a o⟩
def add (a o : Bits) : Bits := ⟨(a.ival + o.ival) % 2 ^ wsize a o, wsize a o⟩
def sub (a o : Bits) : Bits :=
  let w := wsize a o
  ⟨(a.ival + (2 ^ w - o.ival % 2 ^ w)) % 2 ^ w, w⟩
/-- `self*rvalue` after the `fix:`: any Bits or int multiplier, result in self's size -/
def mul (a : Bits) (m : Nat) : Bits := ofNatSz (a.ival * m) a.size
/-- `lvalue - self` after the `fix:` -/
def rsub (a : Bits) (lvalue : Nat) : Bits := sub (ofNat lvalue) a

/-- `a // b` -/
def concat (a o : Bits) : Bits := ofNatSz (a.ival ||| (o.ival <<< a.size)) (a.size + o.size)

/-- the mutating API as data: one step of a history of a single vector
    (`b[i]=v`, `b[s:e:k]=v`, `b[list]=v`, `b.size=n`, `b.zeroextend(n)`, `b.signextend(n)`);
    right-hand values are already converted by `Bits(v)` -/
inductive MutOp where
  | setInt (i : Int) (v : Nat)
  | setSlice (start stop step : Option Int) (v : Bits)
  | setList (idx : List Int) (v : Bits)
  | setSize (n : Nat)
  | zeroextend (n : Nat)
  | signextend (n : Nat)
deriving Repr

def applyOp (b : Bits) : MutOp → Except Err Bits
  | .setInt i v => b.setInt i v
  | .setSlice s e st v => b.setSlice s e st v
  | .setList idx v => b.setList idx v
  | .setSize n => .ok (b.setSize n)
  | .zeroextend n => .ok (b.zeroextend n)
  | .signextend n => b.signextend n

/-- a history: the ops applied in order, stopping at the first exception -/
def runOps (b : Bits) : List MutOp → Except Err Bits
  | [] => .ok b
  | op :: ops => do let b' ← b.applyOp op; runOps b' ops

def hw (b : Bits) : Nat := (b.toBitList.filter (· = 1)).length
def hd (a o : Bits) : Except Err Nat := if a.size ≠ o.size then .error "ValueError" else .ok (a.xor o).hw

/-- operators.py `rol`: `(x<<n | x>>(x.size-n))`; n > size is a negative shift count -/
def rol (x : Bits) (n : Nat) : Except Err Bits :=
  if n > x.size then .error "ValueError:negative shift count" else .ok ((x.shl n).or (x.shr (x.size - n)))
def ror (x : Bits) (n : Nat) : Except Err Bits :=
  if n > x.size then .error "ValueError:negative shift count" else .ok ((x.shr n).or (x.shl (x.size - n)))

/-- total rotation used inside fixed-width primitives (0 ≤ n ≤ size there) -/
def rol! (x : Bits) (n : Nat) : Bits := (x.shl n).or (x.shr (x.size - n))
def ror! (x : Bits) (n : Nat) : Bits := (x.shr n).or (x.shl (x.size - n))

/-- operators.py `concat(L,bigend)` -/
def concatList (l : List Bits) (bigend : Bool := false) : Except Err Bits :=
  match (if bigend ∧ l.length ≠ 1 then l.reverse else l) with
  | [] => .error "TypeError:reduce of empty sequence"
  | x :: xs => .ok (xs.foldl concat x)

/-- bits.py `pack(obj,fmt)` -/
def pack (b : Bits) (bigend : Bool := false) : List Nat :=
  let n := (b.size + 7) / 8
  let s := (List.range n).map fun j => (b.sliceFast (j * 8) (min (j * 8 + 8) b.size)).ival &&& 0xff
  if bigend then s.reverse else s

/-- one `(q,f)` stage of `unpack` after the `fix:` (big-endian shifts by the item length) -/
def unpackStage (bigend : Bool) (q : Nat) (acc : Nat × Nat) (s : List Nat) : Nat × Nat :=
  (chunks q s).foldl (fun (st : Nat × Nat) g =>
      let (b, i) := st
      if bigend then ((b <<< (8 * q)) ||| beInt g, i + 8 * q)
      else (b ||| (leInt g <<< i), i + 8 * q)) acc

/-- bits.py `unpack(istr,bigend)`: greedy Q/L/H/B decomposition -/
def unpack (istr : List Nat) (bigend : Bool := false) : Nat × Nat :=
  let size := 8 * istr.length
  let step := fun (st : (Nat × Nat) × List Nat) (q : Nat) =>
    let (acc, rest) := st
    let n := rest.length / q
    (unpackStage bigend q acc (rest.take (n * q)), rest.drop (n * q))
  let (acc, _) := [8, 4, 2, 1].foldl step ((0, 0), istr)
  (acc.1, size)

end Bits
end Model
