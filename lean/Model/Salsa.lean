/-
  Model.Salsa — crysp/salsa20.py (class Salsa20) on Model.Poly / Model.Bits, as the code computes it:
  every word operation is a dim-1 `Poly` operation of the ring 2^32 (`y[1]^rol(y[0]+y[3],7)`), rounds permute the
  16-vector with the index maps (`y[rM] … z[rMinv]`), the block counter is written as two words, the last
  keystream block is truncated with the `dim` setter.  The subclass Chacha (Model.Chacha) overrides the
  quarterround, the index maps and the positions of key/nonce/counter; everything else is inherited, which is
  what `Variant` expresses.  Index maps, constants and rotation amounts come from Model.Gen.Streams.
-/
import Model.Poly
import Model.Gen.Streams
namespace Model
namespace Salsa
open Py

def ints (l : List Nat) : List Int := l.map Int.ofNat

/-- operators.py `rol` applied to a Poly: `(x<<n | x>>(x.size-n))` -/
def rol (x : Poly) (n : Nat) : Except Err Poly :=
  if n > x.size then .error "ValueError:negative shift count"
  else Poly.binop .or (x.shl n) (x.shr (x.size - n))

/-- operators.py `concat(L)` on Polys: `L[0]` for one element, else `reduce(lambda x,y: x//y, L)` -/
def concatP : List Poly → Except Err Poly
  | [] => .error "TypeError:reduce() of empty sequence"
  | x :: xs => .ok (xs.foldl Poly.concat x)

/-- what a subclass of Salsa20 overrides -/
structure Variant where
  qr : Poly → Except Err Poly
  rM : List Nat
  rMinv : List Nat
  cM : List Nat
  cMinv : List Nat
  /-- `self.p[nonceAt:nonceAt+2] = v.split(32)` -/
  nonceAt : Nat
  /-- `self.p[ctrAt:ctrAt+2] = (i&0xffffffff,i>>32)` -/
  ctrAt : Nat

def rot (i : Nat) : Nat := Gen.Streams.salsaRot.getD i 0

/-- `Salsa20.quarterround` -/
def quarterround (y : Poly) : Except Err Poly := do
  let y0 ← y.getInt 0
  let y1 ← y.getInt 1
  let y2 ← y.getInt 2
  let y3 ← y.getInt 3
  let z1 ← Poly.binop .xor y1 (← rol (← Poly.binop .add y0 y3) (rot 0))
  let z2 ← Poly.binop .xor y2 (← rol (← Poly.binop .add z1 y0) (rot 1))
  let z3 ← Poly.binop .xor y3 (← rol (← Poly.binop .add z2 z1) (rot 2))
  let z0 ← Poly.binop .xor y0 (← rol (← Poly.binop .add z3 z2) (rot 3))
  concatP [z0, z1, z2, z3]

def salsa : Variant where
  qr := quarterround
  rM := Gen.Streams.salsaRM
  rMinv := Gen.Streams.salsaRMinv
  cM := Gen.Streams.salsaCM
  cMinv := Gen.Streams.salsaCMinv
  nonceAt := 6
  ctrAt := 8

/-- `rowround`: `yM = y[rM]; z = concat([quarterround(yM[i:i+4]) for i in range(0,16,4)]); z[rMinv]` -/
def rowround (V : Variant) (y : Poly) : Except Err Poly := do
  let yM ← y.getList (ints V.rM)
  let qs ← (Py.range 0 16 4).mapM fun i => do
    let s ← yM.getSlice (some i) (some (i + 4)) none
    V.qr s
  let z ← concatP qs
  z.getList (ints V.rMinv)

/-- `columnround`: `rowround(x[cM])[cMinv]` -/
def columnround (V : Variant) (x : Poly) : Except Err Poly := do
  let xc ← x.getList (ints V.cM)
  let r ← rowround V xc
  r.getList (ints V.cMinv)

def doubleround (V : Variant) (x : Poly) : Except Err Poly := do
  let c ← columnround V x
  rowround V c

/-- `for n in range(k): z = f(z)` -/
def iter {α} (f : α → Except Err α) : Nat → α → Except Err α
  | 0, z => .ok z
  | n + 1, z => do let z' ← f z; iter f n z'

/-- `core(X,dround)`: `Z = X; dround × doubleround; return X+Z` -/
def core (V : Variant) (X : Poly) (dround : Nat := 10) : Except Err Poly := do
  let Z ← iter (doubleround V) dround X
  Poly.binop .add X Z

/-- the object: `self.K` (None or the two 128-bit halves), `self.p`, `self.dround` -/
structure State where
  K : Option (List Bits)
  p : Poly
  dround : Nat
deriving Repr, DecidableEq

/-- the ints a list of Bits stores through `self[j] = b` (`v.int()`) -/
def bitsInts (l : List Bits) : Except Err (List Int) := l.mapM fun b => b.toInt

/-- `Salsa20.__init__(K,rounds)`; `K = none` is Python's `None` -/
def init (K : Option Bits) (rounds : Int) : Except Err State := do
  let p0 := Poly.ofInt 0 32 16
  let (K', p) ← (match K with
    | none => pure (none, p0)
    | some K => do
      if K.size ≠ 128 ∧ K.size ≠ 256 then throw "AssertionError"
      let ks ← K.split 128
      let (ks, consts) :=
        if ks.length = 1 then (ks ++ [ks.getD 0 default], Gen.Streams.tau) else (ks, Gen.Streams.sigma)
      let p ← p0.setIdx [0, 5, 10, 15] (.list (ints consts))
      let k0 ← bitsInts (← (ks.getD 0 default).split 32)
      let p ← p.setSlice (some 1) (some 5) none (.list k0)
      let k1 ← bitsInts (← (ks.getD 1 default).split 32)
      let p ← p.setSlice (some 11) (some 15) none (.list k1)
      pure (some ks, p) : Except Err (Option (List Bits) × Poly))
  if ¬ (rounds > 0 ∧ rounds % 2 = 0) then throw "AssertionError"
  pure { K := K', p := p, dround := (rounds / 2).toNat }

/-- head of `keystream(v)`: the two asserts and `self.p[a:a+2] = v.split(32)` -/
def setNonce (V : Variant) (s : State) (v : Bits) : Except Err State := do
  if s.K.isNone then throw "AssertionError"
  if v.size ≠ 64 then throw "AssertionError"
  let n ← bitsInts (← v.split 32)
  let p ← s.p.setSlice (some V.nonceAt) (some (V.nonceAt + 2)) none (.list n)
  pure { s with p := p }

/-- one turn of the generator loop for counter value `i`: `self.p[c:c+2] = (i&0xffffffff,i>>32)` and the block
    `core(self.p,dround)` that is yielded -/
def block (V : Variant) (s : State) (i : Nat) : Except Err (Poly × State) := do
  let p ← s.p.setSlice (some V.ctrAt) (some (V.ctrAt + 2)) none
            (.list [Int.ofNat (i % 2 ^ 32), Int.ofNat (i / 2 ^ 32)])
  let s := { s with p := p }
  let ks ← core V s.p s.dround
  pure (ks, s)

/-- `bytes(c.ival)` -/
def toBytes (l : List Int) : Except Err (List Nat) :=
  if l.all fun x => 0 ≤ x ∧ x < 256 then .ok (l.map Int.toNat) else .error "ValueError:bytes must be in range(0, 256)"

/-- the `for x in self.keystream(v)` loop of `enc` over the 64-byte pieces of the message, counter at `i`.
    The generator is advanced (counter written, block computed) *before* `len(b)==0` is tested, and it is
    exhausted when `i` reaches 2^64 (`while i<maxlen`): the loop then ends with what has been produced. -/
def encLoop (V : Variant) (s : State) : Nat → List (List Nat) → Except Err (List Nat × State)
  | i, [] =>
    if i < 2 ^ 64 then do let (_, s) ← block V s i; pure ([], s) else pure ([], s)
  | i, b :: bs =>
    if i < 2 ^ 64 then do
      let (ks, s) ← block V s i
      let x ← ks.split 8
      let x ← x.setDim b.length
      let c ← Poly.binop .xor x (Poly.ofBytes b)
      let cb ← toBytes c.ival
      let (rest, s) ← encLoop V s (i + 1) bs
      pure (cb ++ rest, s)
    else pure ([], s)

/-- `enc(v,m)` with the generator's counter starting at `block0` (0 in the library; the guarded verification hook
    `_verif_block0` sets another start) — returns the ciphertext and the object afterwards -/
def encFrom (V : Variant) (s : State) (v : Bits) (block0 : Nat) (m : List Nat) : Except Err (List Nat × State) := do
  let s ← setNonce V s v
  encLoop V s block0 (Py.chunks 64 m)

def enc (V : Variant) (s : State) (v : Bits) (m : List Nat) : Except Err (List Nat × State) := encFrom V s v 0 m
def dec (V : Variant) (s : State) (v : Bits) (c : List Nat) : Except Err (List Nat × State) := enc V s v c

/-- `hash(m)`: `Bits(m,bitorder=1).split(32)`, `Poly([x.int() …],size=32)`, `core(X)` with the *default* dround=10
    (not `self.dround`), every coefficient packed as a 32-bit little-endian `Bits` -/
def hash (V : Variant) (m : List Nat) : Except Err (List Nat) := do
  let L ← (← Bits.ofBytes m none 1).split 32
  let X := Poly.ofList (← bitsInts L) 32
  let Z ← core V X
  pure ((Z.ival.map fun z => (Bits.ofInt z (some 32)).pack).flatten)

end Salsa
end Model
