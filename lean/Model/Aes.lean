/-
  Model.Aes — crysp/aes.py as total Lean functions (after the two `fix:` commits: `gmul(a,0) = 0`, and
  `enc`/`dec` assert that the state has 4·Nb = 16 coefficients).

  Representation.  Every `Poly` the module manipulates lives in the ring of bytes (`Poly(M)` for a bytes `M`
  forces mask 0xff; `sboxtable`/`sboxinvtable` are `Poly(…,size=8)`; key words are `Poly(k.split(8),size=8)`), so a
  state / a key word is modelled by its coefficient list `ival : List Nat` (entries < 256).  The Poly operations the
  module uses are rendered on those lists:
    `P[list]`            → gather (`Poly.__getitem__` with a list/tuple: `[self.ival[j] for j in i]`, IndexError when out of range)
    `a ^ b`              → coefficient-wise xor, zero-extended to the longer operand
    `state[:] = v`       → `v` zero-extended / truncated to `len(state)` (SubPoly.__setitem__ through `Poly(v,size,len(r))`)
    `x // y`, `concat`   → list append
    `pack(state)`        → `bytes(state.ival)` (split(8) of a ring-8 Poly is the identity)
  All tables come from `Model.Gen.Aes` (regenerated from the current source on every run).

  Two layers:  * pure cores (`subBytes`, `shiftRows`, `mixColumns`, `addRoundKey`, `keySchedule`, `encCore`, `decCore`,
                 `gmulB`) — the computation on well-sized inputs, used by the theorems;
               * the exposed operations with the code's failure behaviour (`gmul`, `enc`, `dec`, `…E`) used by the
                 driver; on well-sized inputs they are `.ok (core …)` (theorems `*_ok` in Proofs/Lemmas/AesBasic).
-/
import Model.Py
import Model.Gen.Aes
namespace Model.Aes
open Model Model.Gen.Aes

/-! ### gmul (module level): `Exp[(Log[a]+Log[n])%0xff]` when both are positive, else 0 -/

/-- `Log[a]` for a non-negative int: IndexError beyond the table, `None` entry ⇒ TypeError in the addition -/
def logAt (a : Nat) : Except Err Nat :=
  match logTable[a]? with
  | some (some v) => .ok v
  | some none => .error "TypeError:NoneType + int"
  | none => .error "IndexError"

def expAt (i : Nat) : Except Err Nat :=
  match expTable[i]? with
  | some v => .ok v
  | none => .error "IndexError"

/-- `gmul(a,n)` of the module, for non-negative ints -/
def gmul (a n : Nat) : Except Err Nat :=
  if a > 0 ∧ n > 0 then do
    let la ← logAt a
    let ln ← logAt n
    expAt ((la + ln) % 0xff)
  else .ok 0

/-- pure core of `gmul` on bytes (table look-ups with a default that is never reached for a,n < 256) -/
def logD (a : Nat) : Nat := (logTable.getD a none).getD 0
def gmulB (a n : Nat) : Nat :=
  if a > 0 ∧ n > 0 then expTable.getD ((logD a + logD n) % 0xff) 0 else 0

/-! ### S-boxes: `AES.sboxtable[state.ival]` -/

def sbox (b : Nat) : Nat := sboxtable.getD b 0
def sboxInv (b : Nat) : Nat := sboxinvtable.getD b 0

/-- `Sbox(state)` / `SubBytes` core -/
def subBytes (s : List Nat) : List Nat := s.map sbox
def invSubBytes (s : List Nat) : List Nat := s.map sboxInv

/-- `table[idx]` with Python's IndexError -/
def gatherE (tbl idx : List Nat) : Except Err (List Nat) :=
  idx.mapM fun j => match tbl[j]? with
    | some v => .ok v
    | none => .error "IndexError"

/-- `Sbox(state)`, `Sbox_inv(state)` as exposed (any length; a coefficient ≥ 256 would be an IndexError) -/
def SboxE (s : List Nat) : Except Err (List Nat) := gatherE sboxtable s
def SboxInvE (s : List Nat) : Except Err (List Nat) := gatherE sboxinvtable s

/-! ### ShiftRows / InvShiftRows: `state[:] = state[0,5,10,15,…]` -/

def gather (idx s : List Nat) : List Nat := idx.map fun j => s.getD j 0

def shiftRows (s : List Nat) : List Nat := gather shiftRowsIdx s
def invShiftRows (s : List Nat) : List Nat := gather invShiftRowsIdx s

/-- `state[:] = v`: v zero-extended / truncated to the length of the state -/
def assignAll (s v : List Nat) : List Nat := (v ++ List.replicate (s.length - v.length) 0).take s.length

def ShiftRowsE (s : List Nat) : Except Err (List Nat) := do
  let v ← gatherE s shiftRowsIdx
  pure (assignAll s v)
def InvShiftRowsE (s : List Nat) : Except Err (List Nat) := do
  let v ← gatherE s invShiftRowsIdx
  pure (assignAll s v)

/-! ### MixColumns / InvMixColumns (coefficients are literals of the method bodies) -/

def mixColumn : List Nat → List Nat
  | [a, b, c, d] =>
    [gmulB a 2 ^^^ gmulB b 3 ^^^ c ^^^ d,
     a ^^^ gmulB b 2 ^^^ gmulB c 3 ^^^ d,
     a ^^^ b ^^^ gmulB c 2 ^^^ gmulB d 3,
     gmulB a 3 ^^^ b ^^^ c ^^^ gmulB d 2]
  | w => w

def invMixColumn : List Nat → List Nat
  | [a, b, c, d] =>
    [gmulB a 0xe ^^^ gmulB b 0xb ^^^ gmulB c 0xd ^^^ gmulB d 0x9,
     gmulB a 0x9 ^^^ gmulB b 0xe ^^^ gmulB c 0xb ^^^ gmulB d 0xd,
     gmulB a 0xd ^^^ gmulB b 0x9 ^^^ gmulB c 0xe ^^^ gmulB d 0xb,
     gmulB a 0xb ^^^ gmulB b 0xd ^^^ gmulB c 0x9 ^^^ gmulB d 0xe]
  | w => w

/-- `W = state[0:4],state[4:8],state[8:12],state[12:16]` -/
def column (s : List Nat) (i : Nat) : List Nat := (s.drop (4 * i)).take 4

def mixColumns (s : List Nat) : List Nat :=
  mixColumn (column s 0) ++ mixColumn (column s 1) ++ mixColumn (column s 2) ++ mixColumn (column s 3)
def invMixColumns (s : List Nat) : List Nat :=
  invMixColumn (column s 0) ++ invMixColumn (column s 1) ++ invMixColumn (column s 2) ++ invMixColumn (column s 3)

/-- exposed: needs 16 coefficients (`state.ival[i+3] = …` raises IndexError otherwise), leaves any further ones untouched -/
def MixColumnsE (s : List Nat) : Except Err (List Nat) :=
  if s.length < 16 then .error "IndexError" else .ok (mixColumns s ++ s.drop 16)
def InvMixColumnsE (s : List Nat) : Except Err (List Nat) :=
  if s.length < 16 then .error "IndexError" else .ok (invMixColumns s ++ s.drop 16)

/-! ### AddRoundKey: `state[:] = state ^ concat(w)` -/

/-- coefficient-wise xor of the state with the round key, the key zero-extended / truncated to the state -/
def addRoundKey (s rk : List Nat) : List Nat :=
  List.zipWith (· ^^^ ·) s (rk ++ List.replicate (s.length - rk.length) 0)

/-! ### key schedule -/

/-- `Nr = {4:10,6:12,8:14}[Nk]` -/
def nrOf : Nat → Option Nat
  | 4 => some 10
  | 6 => some 12
  | 8 => some 14
  | _ => none

/-- `rotw` -/
def rotw : List Nat → List Nat
  | [a0, a1, a2, a3] => [a1, a2, a3, a0]
  | w => w

/-- `a ^ b` for two 4-coefficient words -/
def xorW (a b : List Nat) : List Nat := List.zipWith (· ^^^ ·) a b

/-- `[Poly(k.split(8),size=8) for k in self.K.split(32)]` for `K = Bits(sK,bitorder=1)`: word j = bytes 4j..4j+3 -/
def keyWords (K : List Nat) : List (List Nat) :=
  (List.range (K.length / 4)).map fun j => (K.drop (4 * j)).take 4

/-- one iteration of the `while` loop at index i (`len(w) = i`) -/
def ksStep (Nk : Nat) (w : List (List Nat)) (i : Nat) : List (List Nat) :=
  let tmp := w.getD (i - 1) []
  let tmp :=
    if i % Nk = 0 then xorW (subBytes (rotw tmp)) [rcon.getD (i / Nk) 0 % 256, 0, 0, 0]
    else if Nk > 6 ∧ i % Nk = 4 then subBytes tmp
    else tmp
  w ++ [xorW (w.getD (i - Nk) []) tmp]

/-- `keyschedule()` for a key of 4·Nk bytes: Nb·(Nr+1) words -/
def keySchedule (K : List Nat) : List (List Nat) :=
  let Nk := K.length / 4
  let Nr := Nk + 6
  (List.range' Nk (4 * (Nr + 1) - Nk)).foldl (ksStep Nk) (keyWords K)

/-- `concat(w[r*Nb:(r+1)*Nb])` -/
def roundKey (w : List (List Nat)) (r : Nat) : List Nat := ((w.drop (4 * r)).take 4).flatten

/-! ### enc / dec -/

def encRound (w : List (List Nat)) (s : List Nat) (r : Nat) : List Nat :=
  addRoundKey (mixColumns (shiftRows (subBytes s))) (roundKey w r)

def decRound (w : List (List Nat)) (s : List Nat) (r : Nat) : List Nat :=
  invMixColumns (addRoundKey (invSubBytes (invShiftRows s)) (roundKey w r))

/-- `enc` on a 16-byte state with the expanded key `w` and `Nr` rounds -/
def encW (w : List (List Nat)) (Nr : Nat) (M : List Nat) : List Nat :=
  let s := addRoundKey M (roundKey w 0)
  let s := (List.range' 1 (Nr - 1)).foldl (encRound w) s
  addRoundKey (shiftRows (subBytes s)) (roundKey w Nr)

/-- `dec`: `for r in reversed(range(1,Nr))` -/
def decW (w : List (List Nat)) (Nr : Nat) (C : List Nat) : List Nat :=
  let s := addRoundKey C (roundKey w Nr)
  let s := (List.range' 1 (Nr - 1)).reverse.foldl (decRound w) s
  addRoundKey (invSubBytes (invShiftRows s)) (roundKey w 0)

def encCore (K M : List Nat) : List Nat := encW (keySchedule K) (K.length / 4 + 6) M
def decCore (K C : List Nat) : List Nat := decW (keySchedule K) (K.length / 4 + 6) C

/-- `AES(sK)`: `assert K.size in (128,192,256)`; yields (Nk, Nr) -/
def init (K : List Nat) : Except Err (Nat × Nat) :=
  let size := 8 * K.length
  if size = 128 ∨ size = 192 ∨ size = 256 then
    match nrOf (size / 32) with
    | some nr => .ok (size / 32, nr)
    | none => .error "KeyError"
  else .error "AssertionError"

/-- `AES(K).keyschedule()` -/
def keyscheduleE (K : List Nat) : Except Err (List (List Nat)) := do
  let _ ← init K
  pure (keySchedule K)

/-- `AES(K).enc(M)` for bytes K, M -/
def enc (K M : List Nat) : Except Err (List Nat) := do
  let (_, nr) ← init K
  if M.length ≠ 16 then .error "AssertionError" else
  pure (encW (keySchedule K) nr M)

/-- `AES(K).dec(C)` -/
def dec (K C : List Nat) : Except Err (List Nat) := do
  let (_, nr) ← init K
  if C.length ≠ 16 then .error "AssertionError" else
  pure (decW (keySchedule K) nr C)

end Model.Aes
