/-
  Model.Serpent — crysp/serpent.py as total Lean functions over Model.Bits.

  The code works in *bitslice* representation: the 128-bit block is a `Bits` of size 128 whose 32-bit words
  X0..X3 are bits 0..31, 32..63, ...; an S-box layer is done by `_IP` (gather the 32 columns into 32 nibbles),
  a table lookup per nibble, and `_FP` (scatter back).  `_L/_Linv` work on the four words.
  All tables and literal constants come from Model.Gen.Serpent (probed from the current source on every run).
  Exceptions (`assert`, IndexError, negative shift count, the `fix:` ValueError for over-long keys) are `Except Err`.
-/
import Model.Bits
import Model.Gen.Serpent
namespace Model.Serpent
open Model Model.Bits

/-- `assert X.size==128` -/
def chkSize (X : Bits) : Except Err Unit :=
  if X.size = Gen.Serpent.blocksize then .ok () else .error "AssertionError"

/-- `_IP(X)`: `X[table]` -/
def IP (X : Bits) : Except Err Bits := do
  chkSize X
  X.getList (Gen.Serpent.ipTable.map Int.ofNat)

/-- `_FP(X)`: `X[table]` -/
def FP (X : Bits) : Except Err Bits := do
  chkSize X
  X.getList (Gen.Serpent.fpTable.map Int.ofNat)

/-- `[Bits(boxes[i][x],4) for x in …]`: `x` is used as a list index through `__index__` (= `ival & mask`) -/
def lookups (row : List Nat) : List Bits → Except Err (List Bits)
  | [] => .ok []
  | x :: xs =>
    match row[x.ival &&& x.mask]? with
    | none => .error "IndexError"
    | some v =>
      match lookups row xs with
      | .error e => .error e
      | .ok r => .ok (Bits.ofNatSz v 4 :: r)

/-- common body of `_S` and `_Sinv` (they differ in the literal `boxes` only) -/
def subst (boxes : List (List Nat)) (i : Nat) (X : Bits) : Except Err Bits := do
  if ¬ i < 8 then throw "AssertionError"
  chkSize X
  let y ← IP X
  let ns ← y.split 4
  let sx ← lookups (boxes.getD i []) ns
  let c ← Bits.concatList sx
  FP c

def S (i : Nat) (X : Bits) : Except Err Bits := subst Gen.Serpent.sbox i X
def Sinv (i : Nat) (X : Bits) : Except Err Bits := subst Gen.Serpent.sboxInv i X

/-- literal rotation / shift amounts of `_L` (in order of appearance) -/
def lr (k : Nat) : Nat := Gen.Serpent.lRot.getD k 0
def ls (k : Nat) : Nat := Gen.Serpent.lShift.getD k 0
def ir (k : Nat) : Nat := Gen.Serpent.linvRot.getD k 0
def is (k : Nat) : Nat := Gen.Serpent.linvShift.getD k 0

/-- `_L(X)` -/
def L (X : Bits) : Except Err Bits := do
  chkSize X
  match ← X.split 32 with
  | [x0, x1, x2, x3] => do
    let x0 ← x0.rol (lr 0)
    let x2 ← x2.rol (lr 1)
    let x1 := (x1.xor x0).xor x2
    let x3 := (x3.xor x2).xor (x0.shl (ls 0))
    let x1 ← x1.rol (lr 2)
    let x3 ← x3.rol (lr 3)
    let x0 := (x0.xor x1).xor x3
    let x2 := (x2.xor x3).xor (x1.shl (ls 1))
    let x0 ← x0.rol (lr 4)
    let x2 ← x2.rol (lr 5)
    Bits.concatList [x0, x1, x2, x3]
  | _ => throw "IndexError"

/-- `_Linv(X)` -/
def Linv (X : Bits) : Except Err Bits := do
  chkSize X
  match ← X.split 32 with
  | [x0, x1, x2, x3] => do
    let x2 ← x2.ror (ir 0)
    let x0 ← x0.ror (ir 1)
    let x2 := (x2.xor x3).xor (x1.shl (is 0))
    let x0 := (x0.xor x1).xor x3
    let x3 ← x3.ror (ir 2)
    let x1 ← x1.ror (ir 3)
    let x3 := (x3.xor x2).xor (x0.shl (is 1))
    let x1 := (x1.xor x0).xor x2
    let x2 ← x2.ror (ir 4)
    let x0 ← x0.ror (ir 5)
    Bits.concatList [x0, x1, x2, x3]
  | _ => throw "IndexError"

/-- `prekey[-k]` on a Python list -/
def back (l : List Bits) (k : Nat) : Except Err Bits :=
  if k = 0 ∨ k > l.length then .error "IndexError" else
  match l[l.length - k]? with
  | some x => .ok x
  | none => .error "IndexError"

def off (k : Nat) : Nat := (Gen.Serpent.prekeyOffsets.getD k 0).natAbs
def phi : Bits := Bits.ofNatSz Gen.Serpent.phi Gen.Serpent.phiSize

/-- one turn of `for i in range(132)`: `prekey.append(rol(prekey[-8]^prekey[-5]^prekey[-3]^prekey[-1]^phi^i,11))` -/
def prekeyStep (l : List Bits) (i : Nat) : Except Err (List Bits) := do
  let a ← back l (off 0)
  let b ← back l (off 1)
  let c ← back l (off 2)
  let d ← back l (off 3)
  let x := ((((a.xor b).xor c).xor d).xor phi).xor (Bits.ofNat i)
  let w ← x.rol Gen.Serpent.prekeyRot
  pure (l ++ [w])

/-- the `prekey` loop, by recursion on the list of loop indices -/
def prekeyLoop : List Nat → List Bits → Except Err (List Bits)
  | [], l => .ok l
  | i :: is, l =>
    match prekeyStep l i with
    | .error e => .error e
    | .ok l' => prekeyLoop is l'

/-- `_keysched`: `for r in range(35,2,-1): Kr = concat(prekey[k:k+4]); k+=4; keys.append(_S(r%8,Kr))` -/
def keyschedGo (prekey : List Bits) : List Int → Nat → Except Err (List Bits)
  | [], _ => .ok []
  | r :: rs, k => do
    let Kr ← Bits.concatList ((prekey.drop k).take 4)
    let key ← S (Py.floorMod r 8).toNat Kr
    let rest ← keyschedGo prekey rs (k + 4)
    pure (key :: rest)

/-- `range(35,2,-1)` -/
def keyschedRs : List Int :=
  match Gen.Serpent.keyschedRange with
  | [a, b, c] => Py.range a b c
  | _ => []

def keysched (prekey : List Bits) : Except Err (List Bits) := do
  let keys ← keyschedGo prekey keyschedRs 8
  if keys.length ≠ 33 then throw "AssertionError"
  pure keys

/-- the padded 256-bit key: after the `fix:` an over-long key is refused; a short key gets a 1 bit then zeros -/
def padKey (K : Bits) : Except Err Bits :=
  if K.size > 256 then .error "ValueError:key too long" else
  let K1 := if K.size < 256 then K.concat (Bits.ofNatSz 1 1) else K
  .ok (K1.setSize 256)

/-- the object state: the 33 round keys -/
structure Cipher where
  keys : List Bits
deriving Repr

def keyWords (K : Bits) : List Bits :=
  match Gen.Serpent.keyWordsRange with
  | [a, b, c] => (Py.range a b c).map fun p => K.sliceFast p.toNat (p.toNat + c)
  | _ => []

/-- the bound of `for i in range(132)` -/
def prekeyCount : Nat :=
  match Gen.Serpent.prekeyRange with
  | [n] => n
  | _ => 0

/-- `Serpent.__init__` for `K` already converted by `Bits(K,bitorder=1)` -/
def init (K : Bits) : Except Err Cipher := do
  let K2 ← padKey K
  let prekey ← prekeyLoop (List.range prekeyCount) (keyWords K2)
  let keys ← keysched prekey
  pure ⟨keys⟩

def key (c : Cipher) (i : Nat) : Except Err Bits :=
  match c.keys[i]? with
  | some k => .ok k
  | none => .error "IndexError"

/-- `for i in range(31): B = _L(_S(i%8,B^self.keys[i]))` -/
def encRounds (c : Cipher) : List Nat → Bits → Except Err Bits
  | [], B => .ok B
  | i :: is, B => do
    let k ← key c i
    let s ← S (i % 8) (B.xor k)
    let B' ← L s
    encRounds c is B'

/-- `Serpent.enc` for `R = Bits(M,bitorder=1)`; result = `pack(C)` -/
def encBits (c : Cipher) (R : Bits) : Except Err Bits := do
  chkSize R
  let B ← encRounds c (List.range 31) R
  let k31 ← key c 31
  let k32 ← key c 32
  let s ← S (31 % 8) (B.xor k31)
  pure (s.xor k32)

/-- `for i in range(30,-1,-1): B = _Sinv(i%8,_Linv(B))^self.keys[i]` -/
def decRounds (c : Cipher) : List Nat → Bits → Except Err Bits
  | [], B => .ok B
  | i :: is, B => do
    let k ← key c i
    let l ← Linv B
    let s ← Sinv (i % 8) l
    decRounds c is (s.xor k)

def decRoundList : List Nat := (List.range 31).reverse

def decBits (c : Cipher) (R : Bits) : Except Err Bits := do
  chkSize R
  let k31 ← key c 31
  let k32 ← key c 32
  let s ← Sinv (31 % 8) (R.xor k32)
  decRounds c decRoundList (s.xor k31)

/-- `Serpent(K).enc(M)` with `K`, `M` any operands `Bits(·,bitorder=1)` accepts (already converted) -/
def enc (K M : Bits) : Except Err (List Nat) := do
  let c ← init K
  let C ← encBits c M
  pure (Bits.pack C)

def dec (K C : Bits) : Except Err (List Nat) := do
  let c ← init K
  let M ← decBits c C
  pure (Bits.pack M)

/-- byte-string key and block: `Bits(bytes,bitorder=1)` -/
def encBytes (key block : List Nat) : Except Err (List Nat) := do
  let K ← Bits.ofBytes key none 1
  let M ← Bits.ofBytes block none 1
  enc K M

def decBytes (key block : List Nat) : Except Err (List Nat) := do
  let K ← Bits.ofBytes key none 1
  let C ← Bits.ofBytes block none 1
  dec K C

end Model.Serpent
