/-
  Model.Sha3 — the SHA-3 / SHAKE wrappers of crysp/sha.py (class SHA3, functions SHAKE128, SHAKE256).
  They build a Keccak object with b=1600 and the capacity of the instance, switch it to the native LSB-first
  bit order (`duplexing=True`) and append the domain-separation bits as one more byte with an explicit bit length.
-/
import Model.Keccak
namespace Model.Sha3
open Model Model.Keccak

/-- `SHA3.__init__(size)`: `Keccak.__init__(self,b=1600,c=…,len=size)`, then `self.duplexing=True` -/
def sha3Cfg (size : Nat) : Except Err Cfg :=
  let c? : Option Nat :=
    if size = 224 then some 448 else if size = 256 then some 512
    else if size = 384 then some 768 else if size = 512 then some 1024 else none
  match c? with
  | none => .error "ValueError"
  | some c => do
    let k ← Keccak.mk 1600 (1600 - c) (some size)
    pure { k with duplexing := true }

/-- `SHA3(size)(M)`: `Keccak.__call__(self,M+b'\x02',bitlen=L+2)` -/
def sha3 (size : Nat) (M : List Nat) : Except Err (List Nat) := do
  let k ← sha3Cfg size
  Keccak.call k (M ++ [0x02]) (some (8 * M.length + 2))

/-- `SHAKE128(M,d)` / `SHAKE256(M,d)`: `h = Keccak(b=1600,c=…,len=d); h.duplexing=True; h(M+b'\x0f',bitlen=L+4)` -/
def shake (c : Nat) (M : List Nat) (d : Nat) : Except Err (List Nat) := do
  let k ← Keccak.mk 1600 (1600 - c) (some d)
  Keccak.call { k with duplexing := true } (M ++ [0x0f]) (some (8 * M.length + 4))

def shake128 (M : List Nat) (d : Nat) := shake 256 M d
def shake256 (M : List Nat) (d : Nat) := shake 512 M d

end Model.Sha3
