/-
  Model.HashObj — the object skeleton shared by crysp's MD4/MD5/SHA1/SHA2 classes (md.py, sha.py):

      def initstate(self):  self.H = [Bits(v,wsize) for v in IV];  self.padmethod = XXpadding(blocksize,wsize)
      def iterblocks(self,M,bitlen,padding):  for B in self.padmethod.iterblocks(...): yield parse(B)
      def __call__(self,M,bitlen=None):  self.initstate(); return self.update(M,bitlen=bitlen,padding=True)
      def update(self,M,bitlen=None,padding=False):
          for W in self.iterblocks(M,bitlen=bitlen,padding=padding):  <compression: self.H[i] += …>
          return serialise(self.H)

  The four classes differ only in IV, padding scheme, block parsing + compression body and serialisation, which
  is what a `HashCore` holds.  The generator is consumed lazily by the `for` loop: the compression of block i runs
  while the padding iterator is suspended at its i-th yield, and an exception (of the iterator or of the loop body)
  leaves `H` with the blocks absorbed so far.
-/
import Model.Padding
namespace Model

structure HashCore where
  padder : Padder
  /-- the words `initstate` loads -/
  iv : List Bits
  /-- one pass of the loop body of `update` on a yielded block (parsing included) -/
  compress : List Bits → List Nat → Except Err (List Bits)
  /-- the `return` expression of `update` -/
  digest : List Bits → List Nat

/-- the mutable part of a hash object -/
structure HashObj where
  H : List Bits
  pad : PadState
deriving Repr, Inhabited

namespace HashCore

def initstate (c : HashCore) : HashObj := ⟨c.iv, {}⟩

/-- the `for` loop over the yields: returns H, the padding state the object is left in when the loop body raised
    (the iterator is then suspended at that yield), and the exception -/
def absorb (c : HashCore) : List Bits → List (List Nat × PadState) → List Bits × Option (PadState × Err)
  | H, [] => (H, none)
  | H, (B, st) :: rest =>
    match c.compress H B with
    | .error e => (H, some (st, e))
    | .ok H' => absorb c H' rest

/-- `update(M,bitlen,padding)`: new object state and the returned bytes (or the exception) -/
def update (c : HashCore) (o : HashObj) (M : List Nat) (bitlen : Option Nat := none) (padding : Bool := false) :
    HashObj × Except Err (List Nat) :=
  let r := c.padder.iterblocks o.pad M bitlen padding
  match c.absorb o.H r.yields with
  | (H, some (st, e)) => (⟨H, st⟩, .error e)
  | (H, none) =>
    match r.err with
    | some e => (⟨H, r.final⟩, .error e)
    | none => (⟨H, r.final⟩, .ok (c.digest H))

/-- `__call__(M,bitlen)` -/
def call (c : HashCore) (_o : HashObj) (M : List Nat) (bitlen : Option Nat := none) : HashObj × Except Err (List Nat) :=
  c.update c.initstate M bitlen true

/-- the value of a one-shot call (what C01 is about) -/
def hash (c : HashCore) (M : List Nat) (bitlen : Option Nat := none) : Except Err (List Nat) :=
  (c.call c.initstate M bitlen).2

end HashCore
end Model
