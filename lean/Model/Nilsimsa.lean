/-
  Model.Nilsimsa — crysp/nilsimsa.py as total Lean functions (after the `fix:` that makes `__call__` start
  from `reset()`).  Bytes are `Nat`s < 256, byte strings `List Nat`.
  Object state between calls: `count`, `dacc` (256 counters), the last four entries of `seen`
  (`w0` = most recent; `none` = the Python `None` filler), and the constant `tran`.
-/
import Model.Bits
namespace Model.Nilsimsa

/-- fuel for the `while k<i` collision scan of `maketran`: every restart costs < 256 steps and increments `j`;
    the real loop terminated within this bound for every target 0..255 (correspondence stream) -/
def scanFuel : Nat := 256 * 257

/-- `k=0; while k<i: (if T[k]==j: j=(j+1)&255; k=0); k+=1` — note that after a collision the scan resumes at
    k = 1 (as in nilsimsa 0.2.4's `for` loop).  `T` holds the entries assigned so far (`i = T.length`);
    the third argument is `T[k:]`, the part of the table still to be compared in this pass. -/
def scan (T : List Nat) : Nat → Nat → List Nat → Nat
  | 0, j, _ => j
  | _ + 1, j, [] => j
  | fuel + 1, j, x :: rest => if x = j then scan T fuel ((j + 1) &&& 255) (T.drop 1) else scan T fuel j rest

def maketranAux (target : Nat) : Nat → Nat → List Nat → List Nat
  | 0, _, T => T
  | n + 1, j, T =>
    let j1 := (j * target + 1) &&& 255
    let j2 := j1 + j1
    let j3 := if j2 > 255 then j2 - 255 else j2
    let j4 := scan T scanFuel j3 T
    maketranAux target n j4 (T ++ [j4])

/-- `maketran(target)` -/
def maketran (target : Nat) : List Nat := maketranAux target 256 0 []

/-- `tran3(a,b,c,n)`; all indices are < 256 for byte arguments and n < 8 -/
def tran3 (tran : List Nat) (a b c n : Nat) : Nat :=
  ((tran.getD ((a + n) &&& 255) 0 ^^^ (tran.getD b 0 * (n + n + 1))) + tran.getD (c ^^^ tran.getD n 0) 0) &&& 255

structure St where
  count : Nat
  dacc : List Nat
  w0 : Option Nat
  w1 : Option Nat
  w2 : Option Nat
  w3 : Option Nat
deriving Repr, DecidableEq

/-- `reset()` -/
def St.init : St := ⟨0, List.replicate 256 0, none, none, none, none⟩

def bump (d : List Nat) (i : Nat) : List Nat := d.modify i (· + 1)

/-- body of `for b in data` (the code tests only the older entry of each pair against None; entries are
    appended in order, so the more recent ones are never None when the older one is not) -/
def step (tran : List Nat) (s : St) (b : Nat) : St :=
  let d := s.dacc
  let d := match s.w0, s.w1 with
    | some w0, some w1 => bump d (tran3 tran b w0 w1 0)
    | _, _ => d
  let d := match s.w0, s.w1, s.w2 with
    | some w0, some w1, some w2 => bump (bump d (tran3 tran b w0 w2 1)) (tran3 tran b w1 w2 2)
    | _, _, _ => d
  let d := match s.w0, s.w1, s.w2, s.w3 with
    | some w0, some w1, some w2, some w3 =>
      bump (bump (bump (bump (bump d (tran3 tran b w0 w3 3)) (tran3 tran b w1 w3 4)) (tran3 tran b w2 w3 5))
        (tran3 tran w3 w0 b 6)) (tran3 tran w3 w2 b 7)
    | _, _, _, _ => d
  ⟨s.count + 1, d, some b, s.w0, s.w1, s.w2⟩

/-- `update(data)` -/
def update (tran : List Nat) (s : St) (data : List Nat) : St := data.foldl (step tran) s

def total (count : Nat) : Nat :=
  if count = 3 then 1 else if count = 4 then 4 else if count > 4 then 8 * count - 28 else 0

/-- `code[k]` = Σ 2^(i&7) over the i with i>>3 = k and dacc[i] > thres -/
def codeByte (dacc : List Nat) (thres k : Nat) : Nat :=
  (List.range 8).foldl (fun acc b => if dacc.getD (8 * k + b) 0 > thres then acc + (1 <<< b) else acc) 0

/-- `digest()`: the 32 bytes (the object is reset afterwards: `St.init`) -/
def digest (s : St) : List Nat :=
  let thres := total s.count / 256
  ((List.range 32).map (codeByte s.dacc thres)).reverse

/-- `Nilsimsa(target)(data)` -/
def nilsimsa (target : Nat) (data : List Nat) : List Nat :=
  digest (update (maketran target) St.init data)

/-- `Nilsimsa(target).update(a).update(b).digest()` -/
def nilsimsaSeq (target : Nat) (pieces : List (List Nat)) : List Nat :=
  digest (pieces.foldl (update (maketran target)) St.init)

/-! ### the object across several messages (`digest()` ends with `self.reset()`) -/

/-- `digest()` as a method of the object: the 32 bytes and the object afterwards — `reset()` clears the counter, the
    accumulators AND the four-byte window -/
def digestObj (s : St) : List Nat × St := (digest s, St.init)

/-- `__call__(data)`: `reset()`, `update(data)`, `digest()` — on an object in any state -/
def callObj (tran : List Nat) (_s : St) (data : List Nat) : List Nat × St := digestObj (update tran St.init data)

/-- operations on a Nilsimsa object as the `nilsimsa.seqs` lines write them -/
inductive Op
  | new
  | u (data : List Nat)
  | d
  | r
  | c (data : List Nat)

/-- one operation: the object afterwards and what it returned (`u`: nothing; the line observes `count`) -/
def stepOp (tran : List Nat) (s : St) : Op → St × Option (List Nat)
  | .new => (St.init, none)
  | .u data => (update tran s data, none)
  | .d => ((digestObj s).2, some (digestObj s).1)
  | .r => (St.init, none)
  | .c data => ((callObj tran s data).2, some (callObj tran s data).1)

/-- messages hashed one after the other on ONE object, each fed piecewise and finished by `digest()`: the digests and
    the object afterwards -/
def runMsgs (tran : List Nat) : St → List (List (List Nat)) → List (List Nat) × St
  | s, [] => ([], s)
  | s, pieces :: rest =>
    let r := digestObj (pieces.foldl (update tran) s)
    let t := runMsgs tran r.2 rest
    (r.1 :: t.1, t.2)

/-- `distance(h1,h2) = Bits(h1).hd(h2)` -/
def distance (h1 h2 : List Nat) : Except Err Nat := do
  let a ← Bits.ofBytes h1
  let b ← Bits.ofBytes h2
  a.hd b

end Model.Nilsimsa
