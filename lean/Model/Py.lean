/-
  Model.Py — the CPython builtins the crysp code leans on, as total Lean functions.
  MODELLED, not verified: the only tie to CPython is the correspondence stream (C07/C08/C16
  plugins enumerate these on small domains against the real interpreter).
  Imports nothing outside core Lean.
-/
namespace Model

/-- every Python exception is an `Err`; the payload is only a diagnostic tag -/
abbrev Err := String

namespace Py

/-- `int.bit_length()` for a non-negative int -/
def bitLength (n : Nat) : Nat := if n = 0 then 0 else Nat.log2 n + 1

/-- Python `//` on ints (floor division); divisor assumed non-zero by callers -/
def floorDiv (a b : Int) : Int := Int.fdiv a b
/-- Python `%` on ints (sign of the divisor) -/
def floorMod (a b : Int) : Int := Int.fmod a b

/-- `len(range(start,stop,step))`, step ≠ 0 -/
def rangeLen (start stop step : Int) : Nat :=
  if step > 0 then
    if start < stop then ((stop - start - 1) / step + 1).toNat else 0
  else
    if stop < start then ((start - stop - 1) / (-step) + 1).toNat else 0

/-- `list(range(start,stop,step))`, step ≠ 0 -/
def range (start stop step : Int) : List Int :=
  (List.range (rangeLen start stop step)).map fun (i : Nat) => start + step * (i : Int)

/-- `slice(start,stop,step).indices(len)` — CPython's PySlice_Unpack + PySlice_AdjustIndices.
    `none` = the Python `None`. step = 0 raises ValueError. -/
def sliceIndices (start stop step : Option Int) (len : Nat) : Except Err (Int × Int × Int) :=
  let n : Int := len
  let st : Int := step.getD 1
  if st = 0 then .error "ValueError:slice step cannot be zero" else
  let lower : Int := if st < 0 then -1 else 0
  let upper : Int := if st < 0 then n - 1 else n
  let adj (v : Int) : Int :=
    if v < 0 then (if v + n < lower then lower else v + n)
    else (if v > upper then upper else v)
  let s : Int := match start with
    | none => if st < 0 then upper else lower
    | some v => adj v
  let e : Int := match stop with
    | none => if st < 0 then lower else upper
    | some v => adj v
  .ok (s, e, st)

/-- little-endian integer of a byte list (`struct.unpack('<…')` of one item) -/
def leInt : List Nat → Nat
  | [] => 0
  | b :: bs => b + 256 * leInt bs

/-- big-endian integer of a byte list (`struct.unpack('>…')` of one item) -/
def beInt (bs : List Nat) : Nat := bs.foldl (fun acc b => acc * 256 + b) 0

/-- `n.to_bytes(k,'little')` truncated to k bytes -/
def leBytes : Nat → Nat → List Nat
  | 0, _ => []
  | k+1, n => (n % 256) :: leBytes k (n / 256)

def beBytes (k n : Nat) : List Nat := (leBytes k n).reverse

/-- consecutive chunks of `k` elements (last one may be shorter); k = 0 gives `[]` -/
def chunks {α} (k : Nat) (l : List α) : List (List α) :=
  if k = 0 then [] else go k l l.length
where
  go (k : Nat) (l : List α) : Nat → List (List α)
    | 0 => []
    | fuel+1 => if l.isEmpty then [] else l.take k :: go k (l.drop k) fuel

/-- Python sequence index normalisation: `l[i]` with negative indices -/
def normIndex (i : Int) (len : Nat) : Option Nat :=
  if 0 ≤ i ∧ i < len then some i.toNat
  else if i < 0 ∧ -i ≤ len then some (i + len).toNat
  else none

end Py
end Model
