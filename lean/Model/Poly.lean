/-
  Model.Poly — crysp/poly.py (class Poly ⊂ SubPoly) as total Lean functions, after the three `fix:` commits
  (operators cover the longer operand, empty∘empty = empty, unary minus stays in the ring).
  Coefficients are `Int` because the ring Z (size = 0) admits negatives; for size k > 0 every stored
  coefficient is reduced into [0, 2^k).
-/
import Model.Bits
namespace Model
open Py

structure Poly where
  ival : List Int
  size : Nat
deriving Repr, DecidableEq, Inhabited

namespace Poly

/-- `v & mask` with mask = 2^k-1, or -1 when k = 0 -/
def red (k : Nat) (x : Int) : Int := if k = 0 then x else x % (2 ^ k : Int)

def WF (p : Poly) : Prop := p.size = 0 ∨ ∀ x ∈ p.ival, 0 ≤ x ∧ x < (2 ^ p.size : Int)

def dim (p : Poly) : Nat := p.ival.length

/-- `e(i)` for i ≥ 0: coefficient or 0 beyond the dimension -/
def e (p : Poly) (i : Nat) : Int := p.ival.getD i 0

/-- the `dim` setter (asserts dim > 0) -/
def setDim (p : Poly) (d : Nat) : Except Err Poly :=
  if d = 0 then .error "AssertionError" else
  .ok { p with ival := (p.ival ++ List.replicate (d - p.ival.length) 0).take d }

/-- `Poly(list,size,dim)` -/
def ofList (l : List Int) (size : Nat := 0) (d : Nat := 0) : Poly :=
  let p : Poly := ⟨l.map (red size), size⟩
  if d = 0 then p else { p with ival := (p.ival ++ List.replicate (d - p.ival.length) 0).take d }

/-- `Poly(int,size,dim)` -/
def ofInt (v : Int) (size : Nat := 0) (d : Nat := 0) : Poly := ofList [v] size d

/-- `Poly(bytes)`: mask forced to 0xff -/
def ofBytes (s : List Nat) (d : Nat := 0) : Poly := ofList (s.map Int.ofNat) 8 d

/-- `_zeros(dim)` after the fix: dim zeros, empty when dim = 0 -/
def zeros (size d : Nat) : Poly := ⟨List.replicate d 0, size⟩

/-- two's-complement lift of a bitwise Nat operation to Python ints (ring Z only) -/
def intBitOp (f : Nat → Nat → Nat) (a b : Int) : Int :=
  let n := max (bitLength a.natAbs) (bitLength b.natAbs) + 1
  let m : Int := 2 ^ n
  let r : Int := f (a % m).toNat (b % m).toNat
  if r ≥ m / 2 then r - m else r

inductive BinOp | and | or | xor | add | sub
deriving DecidableEq, Repr

/-- one coefficient of `self.e(j) op rvalue.e(j)`, stored through `res[j] = … & mask` -/
def coeffOp (op : BinOp) (k : Nat) (a b : Int) : Int :=
  match op with
  | .add => red k (a + b)
  | .sub => red k (a - b)
  | .and => if k = 0 then intBitOp (· &&& ·) a b else Int.ofNat (a.toNat &&& b.toNat)
  | .or  => if k = 0 then intBitOp (· ||| ·) a b else Int.ofNat (a.toNat ||| b.toNat)
  | .xor => if k = 0 then intBitOp (· ^^^ ·) a b else Int.ofNat (a.toNat ^^^ b.toNat)

/-- `a op b`: `assert self.size==rvalue.size`, result has the longer dimension -/
def binop (op : BinOp) (a b : Poly) : Except Err Poly :=
  if a.size ≠ b.size then .error "AssertionError" else
  .ok ⟨(List.range (max a.dim b.dim)).map fun j => coeffOp op a.size (a.e j) (b.e j), a.size⟩

def neg (a : Poly) : Poly := ⟨a.ival.map fun x => red a.size (-x), a.size⟩

/-- `a << n`: per coefficient, `Bits(v,k)<<n` when k > 0, Python int shift when k = 0 -/
def shl (a : Poly) (n : Nat) : Poly := ⟨a.ival.map fun (x : Int) => red a.size (x * (2 ^ n : Int)), a.size⟩
def shr (a : Poly) (n : Nat) : Poly := ⟨a.ival.map fun (x : Int) => red a.size (Int.shiftRight x n), a.size⟩
/-- `a << n` for any Python int n: a negative count raises as soon as one coefficient is shifted -/
def shlI (a : Poly) (n : Int) : Except Err Poly :=
  if n < 0 ∧ a.ival ≠ [] then .error "ValueError:negative shift count" else .ok (a.shl n.toNat)
def shrI (a : Poly) (n : Int) : Except Err Poly :=
  if n < 0 ∧ a.ival ≠ [] then .error "ValueError:negative shift count" else .ok (a.shr n.toNat)

/-- Python list indexing `l[i]` -/
def pyGet (l : List Int) (i : Int) : Except Err Int :=
  match normIndex i l.length with
  | some j => .ok (l.getD j 0)
  | none => .error "IndexError"

def getInt (a : Poly) (i : Int) : Except Err Poly := do
  let v ← pyGet a.ival i
  pure (ofList [v] a.size)

/-- `indices(s)`: slice.indices, negative step refused, an explicit stop beyond the end is kept -/
def indices (a : Poly) (start stop step : Option Int) : Except Err (List Int) := do
  let (sta, sto, st) ← sliceIndices start stop step a.ival.length
  if st < 0 then .error "ValueError" else
  let sto' := match stop with
    | some s => if s ≠ 0 ∧ s > sto then s else sto
    | none => sto
  pure (Py.range sta sto' st)

def getSlice (a : Poly) (start stop step : Option Int) : Except Err Poly := do
  let r ← a.indices start stop step
  pure (ofList (r.map fun i => a.e i.toNat) a.size)

def getList (a : Poly) (idx : List Int) : Except Err Poly := do
  let vs ← idx.mapM (pyGet a.ival)
  pure (ofList vs a.size)

/-- `self.ival[i] = v & mask` -/
def setInt (a : Poly) (i : Int) (v : Int) : Except Err Poly :=
  match normIndex i a.ival.length with
  | some j => .ok { a with ival := a.ival.set j (red a.size v) }
  | none => .error "IndexError"

def setMany (a : Poly) : List Int → List Int → Except Err Poly
  | j :: js, v :: vs => do let a' ← a.setInt j v; setMany a' js vs
  | _, _ => .ok a

/-- right-hand sides of `a[idx] = v` -/
inductive RVal | int (v : Int) | list (l : List Int)

/-- `a[r] = v` for an index list r (from a slice or given): equal lengths assign pairwise, otherwise (or for a
    scalar) the value is first turned into `Poly(v,size,len(r))` (zero-extended / truncated) -/
def setIdx (a : Poly) (r : List Int) (v : RVal) : Except Err Poly :=
  match v with
  | .list l =>
    if r.length = l.length then a.setMany r l
    else a.setMany r (ofList l a.size r.length).ival
  | .int x => a.setMany r (ofList [x] a.size r.length).ival

def setSlice (a : Poly) (start stop step : Option Int) (v : RVal) : Except Err Poly := do
  let r ← a.indices start stop step
  a.setIdx r v

/-- the mutating API as data: `a[i]=v`, `a[list]=v`, `a[s:e:st]=v`, `a.dim=d` -/
inductive MutOp
  | setInt (i : Int) (v : Int)
  | setIdx (idx : List Int) (v : RVal)
  | setSlice (start stop step : Option Int) (v : RVal)
  | setDim (d : Nat)

def applyOp (a : Poly) : MutOp → Except Err Poly
  | .setInt i v => a.setInt i v
  | .setIdx idx v => a.setIdx idx v
  | .setSlice s e st v => a.setSlice s e st v
  | .setDim d => a.setDim d

/-- a history of mutations of one object; the first refused one ends it -/
def applyOps (a : Poly) : List MutOp → Except Err Poly
  | [] => .ok a
  | o :: os => do let a' ← a.applyOp o; applyOps a' os

/-- `a // b` -/
def concat (a b : Poly) : Poly := ⟨a.ival ++ b.ival, a.size⟩

/-- `a.split(newsize,bigend)` -/
def split (a : Poly) (newsize : Nat) (bigend : Bool := false) : Except Err Poly :=
  if newsize = a.size then .ok a
  else do
    -- `for x in self: l.extend(x.split(newsize,bigend))`: over Z the elements are ints (no `split`), so only the
    -- empty vector gets through
    let parts ← a.ival.mapM fun x =>
      if a.size = 0 then (.error "AttributeError:int has no split" : Except Err (List Bits))
      else (Bits.ofNatSz x.toNat a.size).split newsize bigend
    pure ⟨(parts.flatten.map fun b => red newsize (Int.ofNat b.ival)), newsize⟩

/-- `pack(poly,fmt)` of bits.py applied to a Poly -/
def pack (a : Poly) (bigend : Bool := false) : Except Err (List Nat) := do
  let p ← a.split 8
  let s := p.ival.map fun x => x.toNat &&& 0xff
  pure (if bigend then s.reverse else s)

def isZero (a : Poly) : Bool := a.ival.all (· == 0)

/-- `a == b` -/
def eq (a b : Poly) : Except Err Bool :=
  if a.dim = b.dim then .ok ((List.zip a.ival b.ival).all fun (x, y) => x - y == 0)
  else do let d ← binop .sub a b; pure d.isZero

end Poly
end Model
