/-
  Model.Rc4 — crysp/rc4.py: the object holds `K` (a byte Poly), the permutation `S` (a Poly of ring 2^8 that
  `keystream` mutates in place), and the indices `i`, `j`, all persisting across calls.
  `S[i,j] = S[j,i]` is the gather `Poly.__getitem__((j,i))` followed by the two element stores of `__setitem__`.
-/
import Model.Poly
namespace Model
namespace Rc4
open Py

structure State where
  K : Poly
  S : Poly
  i : Int
  j : Int
deriving Repr, DecidableEq

/-- `S[i,j] = S[j,i]` -/
def swap (S : Poly) (i j : Int) : Except Err Poly := do
  let v ← S.getList [j, i]
  S.setIdx [i, j] (.list v.ival)

/-- one turn of the KSA loop: `j = (j+S.ival[i]+K.ival[i%K.dim])&0xff; S[i,j] = S[j,i]` -/
def ksaStep (K : Poly) (st : Poly × Int) (i : Nat) : Except Err (Poly × Int) := do
  let (S, j) := st
  let si ← Poly.pyGet S.ival i
  let ki ← Poly.pyGet K.ival (Int.ofNat (i % K.dim))
  let j := (j + si + ki) % 256
  let S ← swap S i j
  pure (S, j)

def ksaLoop (K : Poly) : List Nat → Poly × Int → Except Err (Poly × Int)
  | [], st => .ok st
  | i :: is, st => do let st' ← ksaStep K st i; ksaLoop K is st'

/-- `RC4.__init__(K)` for a bytes key: `Poly(K)`, the two asserts, `ksa()` -/
def init (key : List Nat) : Except Err State := do
  let K := Poly.ofBytes key
  if K.dim = 0 then throw "AssertionError"
  if K.dim > 256 then throw "AssertionError"
  let S0 := Poly.ofList ((List.range 256).map Int.ofNat) 8
  let (S, _) ← ksaLoop K (List.range 256) (S0, 0)
  pure { K := K, S := S, i := 0, j := 0 }

/-- one turn of the PRGA loop; returns the appended keystream byte -/
def prgaStep (S : Poly) (i j : Int) : Except Err (Int × Poly × Int × Int) := do
  let i := (i + 1) % 256
  let si ← Poly.pyGet S.ival i
  let j := (j + si) % 256
  let S ← swap S i j
  let a ← Poly.pyGet S.ival i
  let b ← Poly.pyGet S.ival j
  let k ← Poly.pyGet S.ival ((a + b) % 256)
  pure (k, S, i, j)

/-- `keystream(l)`: `while len(ks)<l` -/
def prga : Nat → Poly → Int → Int → Except Err (List Int × Poly × Int × Int)
  | 0, S, i, j => .ok ([], S, i, j)
  | n + 1, S, i, j => do
    let (k, S, i, j) ← prgaStep S i j
    let (ks, S, i, j) ← prga n S i j
    pure (k :: ks, S, i, j)

def keystream (st : State) (l : Nat) : Except Err (Poly × State) := do
  let (ks, S, i, j) ← prga l st.S st.i st.j
  pure (Poly.ofList ks 8, { st with S := S, i := i, j := j })

/-- `enc(m)`: `pack(Poly(m)^self.keystream(len(m)))` -/
def enc (st : State) (m : List Nat) : Except Err (List Nat × State) := do
  let (ks, st) ← keystream st m.length
  let c ← Poly.binop .xor (Poly.ofBytes m) ks
  let out ← c.pack
  pure (out, st)

def dec (st : State) (c : List Nat) : Except Err (List Nat × State) := enc st c

/-- successive `enc` calls on one object -/
def encSeq : State → List (List Nat) → Except Err (List (List Nat) × State)
  | st, [] => .ok ([], st)
  | st, m :: ms => do
    let (c, st) ← enc st m
    let (cs, st) ← encSeq st ms
    pure (c :: cs, st)

end Rc4
end Model
