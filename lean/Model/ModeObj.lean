/-
  Model.ModeObj — ONE object of crysp/mode.py's ECB / CBC / CTS_ECB / CTS_CBC through a history of `enc` / `dec` calls
  (CTR has its own machine, Model.Mode.CTR.Obj).

  What such an object keeps between calls, as far as its methods read or write it: the padding object `self.pad`
  (padflag / bitcnt / padcnt).  Every `enc` starts with `self.pad.reset()` and then drives `self.pad.iterblocks`, which leaves
  the padding state of THAT message behind (when the cipher raises in the loop the generator stays suspended at the block it
  had just yielded); `dec` of ECB / CBC ends with `self.pad.remove(...)`, which is handed that state — `Nullpadding.remove`
  reads `padcnt`, the other schemes look at the bytes only; the stealing modes never call `remove`.  `dec` changes nothing.
-/
import Model.Mode
namespace Model.Mode

/-- the class of crysp/mode.py -/
inductive Kind
  | ecb | cbc | ctsEcb | ctsCbc
deriving Repr, DecidableEq, Inhabited

/-- the constructor arguments besides the cipher: `ECB(cipher,pad=s)`, `CBC(cipher,iv,pad=s)`, … (`iv` unused by ECB / CTS_ECB) -/
structure Cfg where
  kind : Kind
  iv : List Nat := []
  scheme : Scheme
deriving Repr, Inhabited

namespace Cfg

def chained (cfg : Cfg) : Bool := cfg.kind == .cbc || cfg.kind == .ctsCbc
def stealing (cfg : Cfg) : Bool := cfg.kind == .ctsEcb || cfg.kind == .ctsCbc

/-- `obj.enc(M)` as a function of the configuration and the message (it begins with `self.pad.reset()`) -/
def enc (cfg : Cfg) (c : BlockCipher) (M : List Nat) : Except Err (List Nat) :=
  match cfg.kind with
  | .ecb => ECB.enc c cfg.scheme M
  | .cbc => CBC.enc c cfg.iv cfg.scheme M
  | .ctsEcb => CTS_ECB.enc c cfg.scheme M
  | .ctsCbc => CTS_CBC.enc c cfg.iv cfg.scheme M

/-- `obj.dec(C)` on an object whose padding object is in state `st` -/
def dec (cfg : Cfg) (c : BlockCipher) (C : List Nat) (st : PadState) : Except Err (List Nat) :=
  match cfg.kind with
  | .ecb => ECB.dec c cfg.scheme C st
  | .cbc => CBC.dec c cfg.iv cfg.scheme C st
  | .ctsEcb => CTS_ECB.dec c cfg.scheme C
  | .ctsCbc => CTS_CBC.dec c cfg.iv cfg.scheme C

end Cfg

/-- number of leading blocks `f` accepts: the index of the yield at which `for b in …: C.append(f(b))` stops -/
def okCount {α β} (f : α → Except Err β) : List α → Nat
  | [] => 0
  | a :: as =>
    match f a with
    | .error _ => 0
    | .ok _ => okCount f as + 1

/-- the same for the chained loop `x = xorstr(b,C[-1]); C.append(enc(x))` -/
def chainCount (c : BlockCipher) : List Nat → List (List Nat) → Nat
  | _, [] => 0
  | prev, b :: bs =>
    match c.enc (xorstr b prev) with
    | .error _ => 0
    | .ok y => chainCount c y bs + 1

/-- the padding state when the consumer stopped at yield `k` (the generator is suspended there), or ran it to its end -/
def padAfter (r : IterResult) (k : Nat) : PadState :=
  match r.yields[k]? with
  | some y => y.2
  | none => r.final

/-- the state of `self.pad` when `obj.enc(M)` returns or raises (the stealing modes feed the whole blocks `M[:n*l]`) -/
def Cfg.encPad (cfg : Cfg) (c : BlockCipher) (M : List Nat) : PadState :=
  match mkPad c cfg.scheme with
  | .error _ => {}
  | .ok p =>
    let X := if cfg.stealing then M.take (M.length / c.len * c.len) else M
    let r := p.iterblocks {} X
    let blocks := r.yields.map (·.1)
    padAfter r (if cfg.chained then chainCount c cfg.iv blocks else okCount c.enc blocks)

namespace Seq

/-- the object: the state of `self.pad` -/
structure Obj where
  pad : PadState := {}
deriving Repr, DecidableEq, Inhabited

/-- the constructor: `self.pad = pad(l=cipher.blocksize)`, `assert len(IV)==self.len` -/
def Obj.new (cfg : Cfg) (c : BlockCipher) : Except Err Obj :=
  match mkPad c cfg.scheme with
  | .error e => .error e
  | .ok _ => if cfg.chained && cfg.iv.length ≠ c.len then .error "AssertionError" else .ok {}

inductive Step where
  | enc (M : List Nat)
  | dec (C : List Nat)
deriving Repr, Inhabited

/-- one public call: what it returns (or raises) and the object afterwards -/
def Obj.step (cfg : Cfg) (c : BlockCipher) (o : Obj) : Step → Except Err (List Nat) × Obj
  | .enc M => (cfg.enc c M, ⟨cfg.encPad c M⟩)
  | .dec C => (cfg.dec c C o.pad, o)

/-- a history of calls: the outputs and the object afterwards -/
def Obj.run (cfg : Cfg) (c : BlockCipher) : Obj → List Step → List (Except Err (List Nat)) × Obj
  | o, [] => ([], o)
  | o, s :: ss =>
    let r := o.step cfg c s
    let rest := Obj.run cfg c r.2 ss
    (r.1 :: rest.1, rest.2)

/-- the call judged as if it were the first one on a new object -/
def Step.alone (cfg : Cfg) (c : BlockCipher) : Step → Except Err (List Nat)
  | .enc M => cfg.enc c M
  | .dec C => cfg.dec c C {}

end Seq
end Model.Mode
