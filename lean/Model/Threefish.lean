/-
  Model.Threefish — crysp/threefish.py as total Lean functions on Model.Bits.

  The Python object keeps `K`, `T` (Bits loaded with bitorder=1, i.e. little-endian), `Nw`, `Nr`, the
  name-mangled tables `__pi`, `__piinv`, `__R` (all from Model.Gen.Threefish, i.e. read from the live object on every
  run) and the extended key / tweak word lists `__k` (Nw+1 words, the last one the C240 parity word) and `__t`
  (3 words).  Every word is a 64-bit `Bits`; `+`/`-`/`^` are the dynamic-width Bits operators (both operands have
  64 bits here, the integer round number `s` is converted by `Bits(s)` and has `bit_length(s)` bits).

  List indexing: all indices the code uses are in range by construction (`% p` on a list of p words, `pi`/`piinv`
  entries below Nw, j < Nw); the model uses `getD` with the 64-bit zero word — a wrong index in the code would be an
  IndexError there and is caught by the correspondence stream, not by the theorems.
-/
import Model.Bits
import Model.Gen.Threefish
namespace Model.Threefish
open Model

/-- the 64-bit zero word: default of the (never taken) out-of-range list accesses -/
def z64 : Bits := ⟨0, 64⟩

structure Ctx where
  K : Bits
  T : Bits
  Nw : Nat
  Nr : Nat
  pi : List Nat
  piinv : List Nat
  R : List (List Nat)
  k : List Bits
  t : List Bits
deriving Repr

/-- `[B[i:i+64] for i in range(0,B.size,64)]` (sizes are multiples of 64 wherever this is reached) -/
def words (b : Bits) : List Bits :=
  (List.range (b.size / 64)).map fun j => b.sliceFast (64 * j) (64 * j + 64)

/-- the three dictionaries indexed by `self.Nw` -/
def piOf (nw : Nat) : List Nat :=
  if nw = 4 then Gen.Threefish.pi4 else if nw = 8 then Gen.Threefish.pi8 else Gen.Threefish.pi16
def piinvOf (nw : Nat) : List Nat :=
  if nw = 4 then Gen.Threefish.piinv4 else if nw = 8 then Gen.Threefish.piinv8 else Gen.Threefish.piinv16
def rotOf (nw : Nat) : List (List Nat) :=
  if nw = 4 then Gen.Threefish.rot4 else if nw = 8 then Gen.Threefish.rot8 else Gen.Threefish.rot16
def c240Of (nw : Nat) : Nat :=
  if nw = 4 then Gen.Threefish.c240_4 else if nw = 8 then Gen.Threefish.c240_8 else Gen.Threefish.c240_16
def nrOf (nw : Nat) : Nat :=
  if nw = 4 then Gen.Threefish.nr4 else if nw = 8 then Gen.Threefish.nr8 else Gen.Threefish.nr16

/-- `Bits(s,bitorder=1)` for a byte string: never raises (every length is a multiple of 1) -/
def loadLE (s : List Nat) : Except Err Bits := Bits.ofBytes s none 1

/-- the context built from already loaded `K`, `T` (the part of `__init__` after the two `Bits(...)` calls) -/
def mkCtx (K T : Bits) : Except Err Ctx :=
  if ¬ (K.size = 256 ∨ K.size = 512 ∨ K.size = 1024) then .error "AssertionError:K.size" else
  if T.size ≠ 128 then .error "AssertionError:T.size" else
  let nw := K.size / 64
  let k := words K
  -- `reduce(lambda x,y: x^y, k, C240)`
  let kNw := k.foldl Bits.xor ⟨c240Of nw, 64⟩
  let t0 := T.sliceFast 0 64
  let t1 := T.sliceFast 64 128
  .ok { K := K, T := T, Nw := nw, Nr := nrOf nw, pi := piOf nw, piinv := piinvOf nw, R := rotOf nw,
        k := k ++ [kNw], t := [t0, t1, t0.xor t1] }

/-- `Threefish(sK,sT)` for byte strings -/
def init (sK sT : List Nat) : Except Err Ctx := do
  let K ← loadLE sK
  let T ← loadLE sT
  mkCtx K T

/-- `self.__ks(s)` -/
def ks (c : Ctx) (s : Nat) : List Bits :=
  let p := c.Nw + 1
  ((List.range (c.Nw - 3)).map fun i => c.k.getD ((s + i) % p) z64) ++
  [ (c.k.getD ((s + c.Nw - 3) % p) z64).add (c.t.getD (s % 3) z64),
    (c.k.getD ((s + c.Nw - 2) % p) z64).add (c.t.getD ((s + 1) % 3) z64),
    (c.k.getD ((s + c.Nw - 1) % p) z64).add (Bits.ofNat s) ]

/-- `self.__R[d%8][j]` -/
def rotc (c : Ctx) (d j : Nat) : Nat := (c.R.getD (d % 8) []).getD j 0

/-- `self.__MIX(x0,x1,d,j)` -/
def mix (c : Ctx) (x0 x1 : Bits) (d j : Nat) : List Bits :=
  let y0 := x0.add x1
  let y1 := (x1.rol! (rotc c d j)).xor y0
  [y0, y1]

/-- `self.__MIXinv(y0,y1,d,j)` -/
def mixinv (c : Ctx) (y0 y1 : Bits) (d j : Nat) : List Bits :=
  let rr := y0.xor y1
  let x1 := rr.ror! (rotc c d j)
  [y0.sub x1, x1]

/-- `[v[i]+k[i] for i in range(Nw)]` -/
def addKey (c : Ctx) (v k : List Bits) : List Bits :=
  (List.range c.Nw).map fun i => (v.getD i z64).add (k.getD i z64)
/-- `[v[i]-k[i] for i in range(Nw)]` -/
def subKey (c : Ctx) (v k : List Bits) : List Bits :=
  (List.range c.Nw).map fun i => (v.getD i z64).sub (k.getD i z64)

/-- `for j in range(0,Nw,2): f.extend(MIX(e[j],e[j+1],d,j//2))` -/
def mixLayer (c : Ctx) (e : List Bits) (d : Nat) : List Bits :=
  (List.range (c.Nw / 2)).flatMap fun j => mix c (e.getD (2 * j) z64) (e.getD (2 * j + 1) z64) d j
def mixinvLayer (c : Ctx) (f : List Bits) (d : Nat) : List Bits :=
  (List.range (c.Nw / 2)).flatMap fun j => mixinv c (f.getD (2 * j) z64) (f.getD (2 * j + 1) z64) d j

/-- one iteration of the `for d in range(Nr)` loop of `enc` -/
def encRound (c : Ctx) (v : List Bits) (d : Nat) : List Bits :=
  let e := if d % 4 = 0 then addKey c v (ks c (d / 4)) else v
  let f := mixLayer c e d
  (List.range c.Nw).map fun i => f.getD (c.pi.getD i 0) z64

/-- one iteration of the `for d in reversed(range(Nr))` loop of `dec` -/
def decRound (c : Ctx) (v : List Bits) (d : Nat) : List Bits :=
  let f := (List.range c.Nw).map fun i => v.getD (c.piinv.getD i 0) z64
  let e := mixinvLayer c f d
  if d % 4 = 0 then subKey c e (ks c (d / 4)) else e

/-- the word-level body of `enc` -/
def encWords (c : Ctx) (v : List Bits) : List Bits :=
  let v := (List.range c.Nr).foldl (encRound c) v
  addKey c v (ks c (c.Nr / 4))

/-- the word-level body of `dec` -/
def decWords (c : Ctx) (cw : List Bits) : List Bits :=
  let v := subKey c cw (ks c (c.Nr / 4))
  (List.range c.Nr).reverse.foldl (decRound c) v

/-- `b''.join([pack(x) for x in c])` -/
def join (ws : List Bits) : List Nat := ws.flatMap fun x => x.pack

/-- `enc(M)` for a byte string -/
def enc (c : Ctx) (M : List Nat) : Except Err (List Nat) := do
  let m ← loadLE M
  if m.size ≠ c.K.size then .error "AssertionError:M.size" else
  pure (join (encWords c (words m)))

/-- `dec(C)` for a byte string -/
def dec (c : Ctx) (C : List Nat) : Except Err (List Nat) := do
  let m ← loadLE C
  if m.size ≠ c.K.size then .error "AssertionError:C.size" else
  pure (join (decWords c (words m)))

/-- `Threefish(key,tweak).enc(block)` -/
def encrypt (key tweak block : List Nat) : Except Err (List Nat) := do
  let c ← init key tweak
  enc c block

/-- `Threefish(key,tweak).dec(block)` -/
def decrypt (key tweak block : List Nat) : Except Err (List Nat) := do
  let c ← init key tweak
  dec c block

end Model.Threefish
