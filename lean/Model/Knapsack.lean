/-
  Model.Knapsack — crysp/utils/knapsack.py (after the `fix:` commits) as total Lean functions.
  An item is a couple (object, weight); objects are ints on the wire.
-/
import Model.Py
namespace Model.Knapsack
open Model Model.Py

abbrev Item := Int × Int
def weight (it : Item) : Int := it.2
def wsum (c : List Item) : Int := (c.map weight).sum

/-- `exactsum(l,s,i,r)`: `none` = False, `some r` = the accumulator list returned on success.
    `fuel` bounds the recursion depth (len(l)-i+1 levels). -/
def exactsumAux (l : List Item) : Nat → Int → Nat → List Item → Option (List Item)
  | 0, _, _, _ => none
  | fuel+1, s, i, r =>
    if s = 0 then some r
    else if s < 0 ∨ i = l.length then none
    else match l[i]? with
      | none => none
      | some it =>
        match exactsumAux l fuel (s - weight it) (i+1) r with
        | some r' => some (r' ++ [it])                       -- `r.append(l[i]); return r`
        | none => exactsumAux l fuel s (i+1) r

/-- `exactsum(l,s)` -/
def exactsum (l : List Item) (s : Int) : Option (List Item) := exactsumAux l (l.length + 1) s 0 []

/-- the dict `p`: entry x is `[m, item_1, …, item_m]` held as (m, items); `none` = key absent.
    A table holds the entries of keys 0..len-1 (the loop only ever writes key x after keys 0..x-1). -/
abbrev Entry := Nat × List Item
abbrev Table := List (Option Entry)

/-- `u>=0 and (u in p)`: the entry of key u -/
def tget (p : Table) (u : Int) : Option Entry := if u < 0 then none else (p[u.toNat]?).join

/-- the inner loop `for i in range(n)`: best (m, im) so far -/
def dpScan (p : Table) (x : Nat) (best : Option (Nat × Nat)) (iw : Nat × Item) : Option (Nat × Nat) :=
  match tget p ((x : Int) - weight iw.2) with
  | none => best
  | some e =>
    match best with
    | none => some (e.1, iw.1)                               -- `m is None`
    | some (m, im) => if e.1 < m then some (e.1, iw.1) else some (m, im)

def enum (l : List Item) : List (Nat × Item) := (List.range l.length).zip l

/-- the value assigned to `p[x]` (or `none` when the key stays absent) -/
def dpEntry (l : List Item) (p : Table) (x : Nat) : Option Entry :=
  match (enum l).foldl (dpScan p x) none with
  | none => none
  | some (m, im) =>
    match l[im]? with
    | none => none
    | some it =>
      match tget p ((x : Int) - weight it) with
      | none => none
      | some src => some (m + 1, src.2.take m ++ [it])       -- `[m+1] + src[1..m] + [l[im]]`

/-- the dict after the loop `for x in range(1,s+1)`, as the list of entries 0..s -/
def dpTable (l : List Item) : Nat → Table
  | 0 => [some (0, [])]
  | x+1 => let p := dpTable l x; p ++ [dpEntry l p (x+1)]

/-- `dynprog(l,s)`: `none` = None -/
def dynprog (l : List Item) (s : Int) : Option (List Item) :=
  if s < 0 then none else ((dpTable l s.toNat)[s.toNat]?).join.map (·.2)

end Model.Knapsack
