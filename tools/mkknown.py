#!/usr/bin/env python3
"""Consolidate known/*.json fragments into known_findings.json (maintainer action, never at check run time):
   - every `fixed` entry's commit is re-resolved to the hash on /repo main (builders' branch hashes differ after cherry-pick):
     the subject line of the recorded hash is looked up on main;
   - the `log` lines `fixed: property=<id> <commit> <what failed>` are regenerated;
   - fragments are kept (runcheck reads both) but get the re-resolved hashes too."""
import os, json, glob, subprocess
ROOT = os.path.dirname(os.path.dirname(os.path.abspath(__file__)))
REPO = '/repo'

def git(*a):
    return subprocess.run(['git', '-C', REPO] + list(a), stdout=subprocess.PIPE, stderr=subprocess.DEVNULL, text=True).stdout.strip()

def main():
    main_log = {}
    for l in git('log', '--format=%h\t%s', 'main').splitlines():
        h, s = l.split('\t', 1); main_log.setdefault(s, h)
    def resolve(h):
        if not h: return h
        out = []
        for one in str(h).replace(',', ' ').split():
            if git('merge-base', '--is-ancestor', one, 'main') == '' and subprocess.run(['git', '-C', REPO, 'merge-base', '--is-ancestor', one, 'main']).returncode == 0:
                out.append(git('rev-parse', '--short', one)); continue
            subj = git('log', '-1', '--format=%s', one)
            out.append(main_log.get(subj, one + '(not on main)') if subj else one + '(unknown)')
        return ' '.join(out)
    allf, seen = [], set()
    base = json.load(open(os.path.join(ROOT, 'known_findings.json')))
    srcs = [('known_findings.json', base.get('findings', []))]
    for p in sorted(glob.glob(os.path.join(ROOT, 'known', '*.json'))):
        d = json.load(open(p))
        for e in d.get('findings', []):
            if e.get('status') == 'fixed' and e.get('commit'): e['commit'] = resolve(e['commit'])
        json.dump(d, open(p, 'w'), indent=1)
        srcs.append((os.path.relpath(p, ROOT), d.get('findings', [])))
    for src, fs in srcs:
        for e in fs:
            if e.get('status') == 'fixed' and e.get('commit'): e['commit'] = resolve(e['commit'])
            key = (e.get('property'), e.get('id'))
            if key in seen: continue
            seen.add(key); allf.append(e)
    allf.sort(key=lambda e: (e.get('property', ''), e.get('status', ''), e.get('id', '')))
    log = ['%s: property=%s %s %s' % (e['status'], e.get('property'), e.get('commit', '-') if e['status'] == 'fixed' else e.get('id'), e.get('what', ''))
           for e in allf]
    base['log'] = log
    base['findings'] = [e for e in allf]
    json.dump(base, open(os.path.join(ROOT, 'known_findings.json'), 'w'), indent=1)
    print('%d findings (%d known, %d fixed)' % (len(allf), sum(e['status'] == 'known' for e in allf), sum(e['status'] == 'fixed' for e in allf)))
    bad = [e for e in allf if e['status'] == 'fixed' and ('not on main' in str(e.get('commit')) or 'unknown' in str(e.get('commit')))]
    for e in bad: print('UNRESOLVED', e['property'], e['id'], e['commit'])

if __name__ == '__main__':
    main()
