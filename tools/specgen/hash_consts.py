#!/venv/bin/python
"""Provenance of the literal tables in lean/Spec/Sha2Consts.lean and lean/Spec/Md5.lean (maintainer tool, not run by
the check).  The tables are those printed in FIPS 180-4 §4.2.2, §4.2.3, §5.3.2–5.3.5 and RFC 1321 §3.4; instead of
being copied from crysp (or typed by hand) they are recomputed here from the rules the standards state:

  SHA-224/256 K : first 32 bits of the fractional parts of the cube roots of the first 64 primes
  SHA-384/512/… K: first 64 bits of the fractional parts of the cube roots of the first 80 primes
  SHA-256 IV : first 32 bits of the fractional parts of the square roots of the first 8 primes
  SHA-512 IV : first 64 bits of the same
  SHA-384 IV : first 64 bits of the fractional parts of the square roots of the 9th..16th primes
  SHA-224 IV : the second 32 bits of those (i.e. the low halves of the SHA-384 IV words)
  MD5 T[i]   : floor(2^32 * |sin(i)|), i = 1..64 (radians)

Integer arithmetic only for the roots (exact); `math.sin` doubles are exact enough for 32 bits (checked against mpmath-free
interval: the fractional part of 2^32·|sin i| stays away from 0/1 by more than 1e-6 for all 64 values)."""
import math, sys
from math import isqrt

def primes(n):
    out, k = [], 2
    while len(out) < n:
        if all(k % p for p in out): out.append(k)
        k += 1
    return out

def icbrt(n):
    x = int(round(n ** (1 / 3)))
    while x ** 3 > n: x -= 1
    while (x + 1) ** 3 <= n: x += 1
    return x

def frac_sqrt(p, bits): return isqrt(p << (2 * bits)) & ((1 << bits) - 1)
def frac_cbrt(p, bits): return icbrt(p << (3 * bits)) & ((1 << bits) - 1)

def tab(name, w, xs, per):
    rows = [', '.join('0x%0*x#%d' % (w // 4, x, w) for x in xs[i:i + per]) for i in range(0, len(xs), per)]
    return 'def %s : List (BitVec %d) :=\n  [%s]\n' % (name, w, ',\n   '.join(rows))

P = primes(80)
out = []
out.append(tab('K256', 32, [frac_cbrt(p, 32) for p in P[:64]], 8))
out.append(tab('K512', 64, [frac_cbrt(p, 64) for p in P], 4))
out.append(tab('iv256', 32, [frac_sqrt(p, 32) for p in P[:8]], 8))
out.append(tab('iv224', 32, [frac_sqrt(p, 64) & 0xffffffff for p in P[8:16]], 8))
out.append(tab('iv384', 64, [frac_sqrt(p, 64) for p in P[8:16]], 4))
out.append(tab('iv512', 64, [frac_sqrt(p, 64) for p in P[:8]], 4))
T = []
for i in range(1, 65):
    v = 4294967296 * abs(math.sin(i))
    assert 1e-6 < v - math.floor(v) < 1 - 1e-6
    T.append(int(math.floor(v)))
out.append(tab('T', 32, T, 4))
print('\n'.join(out))
