"""Gen item `ObjectsG` (property C10, DESIGN.md 4.1): the state-field inventory of the object kinds.

From the AST of the live source, for every class of the library that C10 talks about (and the helper classes those own):
  * `ctorOnly`  — attributes `self.X` that only `__init__` methods (of the class or a base) assign,
  * `assigned`  — attributes `self.X` that some OTHER method assigns: plain / augmented / annotated assignment, `for`/`with`
                  targets, `del`, stores THROUGH the attribute (`self.X[i] = …`, `self.X.ival[a:b] = …`, `self.X.size = …`) and
                  calls of in-place methods on it (`self.X.append(…)`, `self.X.ival.reverse()` …); name-mangled (`__w` ->
                  `_AES__w`); inherited methods included; `<self>` = the object assigns into itself (`self[a:b] = …`),
  * `classAttrs` — names bound in the class body to non-callables (shared by all instances),
and for the modules: the module-level instances of library classes (singletons), the module-level names some function
stores into (`global` rebinding or item assignment), and every parameter whose default value is a mutable object.
A newly introduced piece of persistent state changes one of these lists, which breaks an obligation of Proofs.C10."""
import ast, os, importlib, inspect
from extract import header, footer

MODULES = ['sha', 'md', 'keccak', 'blake', 'skein', 'hmac', 'tlsh', 'nilsimsa', 'aes', 'des', 'serpent', 'threefish', 'mode',
           'salsa20', 'chacha', 'padding', 'rc4', 'crc', 'utils.knapsack', 'utils.perms']
SKIP_CLASSES = {'Bits', 'Poly', 'SubPoly', 'PaddingError'}
INPLACE = {'append', 'extend', 'insert', 'pop', 'reverse', 'sort', 'clear', 'add', 'discard', 'setdefault',
           'popitem', 'close', 'write', 'truncate'}
MUTABLE_CALLS = {'list', 'dict', 'set', 'bytearray', 'Poly', 'Bits', 'deque', 'defaultdict'}


def mangle(cls, name):
    if name.startswith('__') and not name.endswith('__'): return '_%s%s' % (cls.lstrip('_'), name)
    return name


def base_attr(node, selfname):
    """X if `node` is self.X, self.X[…], self.X.y…, …; '<self>' if it is self[…]; else None"""
    cur, depth = node, 0
    while True:
        if isinstance(cur, ast.Attribute):
            if isinstance(cur.value, ast.Name) and cur.value.id == selfname: return cur.attr
            cur = cur.value; depth += 1
        elif isinstance(cur, ast.Subscript):
            if isinstance(cur.value, ast.Name) and cur.value.id == selfname: return '<self>'
            cur = cur.value; depth += 1
        else:
            return None


def targets_of(stmt):
    if isinstance(stmt, ast.Assign):
        for t in stmt.targets: yield from flat(t)
    elif isinstance(stmt, (ast.AugAssign, ast.AnnAssign)): yield from flat(stmt.target)
    elif isinstance(stmt, (ast.For, ast.AsyncFor)): yield from flat(stmt.target)
    elif isinstance(stmt, (ast.With, ast.AsyncWith)):
        for it in stmt.items:
            if it.optional_vars is not None: yield from flat(it.optional_vars)
    elif isinstance(stmt, ast.Delete):
        for t in stmt.targets: yield from flat(t)
    elif isinstance(stmt, ast.NamedExpr): yield from flat(stmt.target)


def flat(t):
    if isinstance(t, (ast.Tuple, ast.List)):
        for e in t.elts: yield from flat(e)
    elif isinstance(t, ast.Starred): yield from flat(t.value)
    else: yield t


def method_stores(fn, clsname):
    """attributes of `self` the function stores into"""
    if not fn.args.args: return set()
    selfname = fn.args.args[0].arg
    out = set()
    for node in ast.walk(fn):
        for t in targets_of(node):
            a = base_attr(t, selfname)
            if a is not None: out.add(mangle(clsname, a))
        if isinstance(node, ast.Call) and isinstance(node.func, ast.Attribute) and node.func.attr in INPLACE:
            a = base_attr(node.func.value, selfname)
            if a is not None: out.add(mangle(clsname, a))
    return out


def class_tables(repo):
    trees, classes = {}, {}
    for m in MODULES:
        path = os.path.join(repo, 'crysp', *m.split('.')) + '.py'
        tree = ast.parse(open(path).read(), path)
        trees[m] = tree
        for node in tree.body:
            if isinstance(node, ast.ClassDef) and node.name not in SKIP_CLASSES:
                classes[node.name] = (m, node)
    def bases(name, seen=()):
        if name not in classes or name in seen: return []
        out = [name]
        for b in classes[name][1].bases:
            bn = b.id if isinstance(b, ast.Name) else (b.attr if isinstance(b, ast.Attribute) else None)
            if bn: out += bases(bn, seen + (name,))
        return out
    rows = []
    for name in sorted(classes):
        ctor, meth, cattrs = set(), set(), set()
        for c in bases(name):
            for node in classes[c][1].body:
                if isinstance(node, (ast.FunctionDef, ast.AsyncFunctionDef)):
                    st = method_stores(node, c)
                    if node.name == '__init__': ctor |= st
                    else: meth |= st
                elif isinstance(node, (ast.Assign, ast.AnnAssign, ast.AugAssign)):
                    for t in targets_of(node):
                        if isinstance(t, ast.Name): cattrs.add(t.id)
        rows.append((name, sorted(ctor - meth), sorted(meth), sorted(cattrs)))
    return trees, classes, rows


def module_facts(repo, trees, classes):
    singles, gmut, mdef = [], [], []
    for m, tree in trees.items():
        modnames = set()
        for node in tree.body:
            for t in targets_of(node):
                if isinstance(t, ast.Name): modnames.add(t.id)
        # module-level instances of library classes (runtime view of the same module)
        mod = importlib.import_module('crysp.' + m)
        for n, v in sorted(vars(mod).items()):
            tn = type(v).__name__
            if tn in classes and getattr(type(v), '__module__', '').startswith('crysp') and not n.startswith('__'):
                if getattr(v, '__module__', None) is None or not inspect.isclass(v):
                    if n in modnames: singles.append('%s.%s:%s' % (m, n, tn))
        for fn in ast.walk(tree):
            if not isinstance(fn, (ast.FunctionDef, ast.AsyncFunctionDef, ast.Lambda)): continue
            fname = getattr(fn, 'name', '<lambda>')
            # mutable defaults
            a = fn.args
            pos = a.posonlyargs + a.args
            for arg, d in list(zip(pos[len(pos) - len(a.defaults):], a.defaults)) + [(x, y) for x, y in zip(a.kwonlyargs, a.kw_defaults) if y is not None]:
                mut = isinstance(d, (ast.List, ast.Dict, ast.Set, ast.ListComp, ast.DictComp, ast.SetComp)) or \
                      (isinstance(d, ast.Call) and isinstance(d.func, ast.Name) and d.func.id in MUTABLE_CALLS)
                if mut: mdef.append('%s.%s.%s' % (m, fname, arg.arg))
            if isinstance(fn, ast.Lambda): continue
            local = {x.arg for x in pos + a.kwonlyargs} | ({a.vararg.arg} if a.vararg else set()) | ({a.kwarg.arg} if a.kwarg else set())
            declared_global = set()
            for node in ast.walk(fn):
                if isinstance(node, ast.Global): declared_global |= set(node.names)
            for node in ast.walk(fn):
                for t in targets_of(node):
                    if isinstance(t, ast.Name):
                        if t.id in declared_global: gmut.append('%s.%s:%s' % (m, fname, t.id))
                        else: local.add(t.id)
            for node in ast.walk(fn):
                for t in targets_of(node):
                    if isinstance(t, (ast.Subscript, ast.Attribute)):
                        cur = t
                        while isinstance(cur, (ast.Subscript, ast.Attribute)): cur = cur.value
                        if isinstance(cur, ast.Name) and cur.id in modnames and cur.id not in local:
                            gmut.append('%s.%s:%s' % (m, fname, cur.id))
                if isinstance(node, ast.Call) and isinstance(node.func, ast.Attribute) and node.func.attr in INPLACE:
                    cur = node.func.value
                    while isinstance(cur, (ast.Subscript, ast.Attribute)): cur = cur.value
                    if isinstance(cur, ast.Name) and cur.id in modnames and cur.id not in local:
                        gmut.append('%s.%s:%s' % (m, fname, cur.id))
                # function attributes used as static storage: f.x = …
                for t in targets_of(node):
                    if isinstance(t, ast.Attribute) and isinstance(t.value, ast.Name) and t.value.id == fname:
                        gmut.append('%s.%s:%s.%s' % (m, fname, fname, t.attr))
    return sorted(set(singles)), sorted(set(gmut)), sorted(set(mdef))


def q(s): return '"%s"' % s
def slist(xs): return '[' + ', '.join(q(x) for x in xs) + ']'


def objectsg(repo):
    trees, classes, rows = class_tables(repo)
    singles, gmut, mdef = module_facts(repo, trees, classes)
    srcs = ['crysp/%s.py' % m.replace('.', '/') for m in MODULES]
    out = header('ObjectsG', srcs)
    out += '/-- (class, attributes only `__init__` assigns, attributes some other method assigns, class-level data attributes) -/\n'
    out += 'def classes : List (String × List String × List String × List String) :=\n  ['
    out += ',\n   '.join('(%s, %s, %s, %s)' % (q(n), slist(c), slist(m), slist(ca)) for n, c, m, ca in rows) + ']\n\n'
    out += 'def row (cls : String) : List String × List String × List String :=\n  ((classes.find? (·.1 == cls)).map (·.2)).getD (["?missing"], ["?missing"], ["?missing"])\n'
    out += '/-- attributes that only constructors assign -/\ndef ctorOnly (cls : String) : List String := (row cls).1\n'
    out += '/-- attributes that a method other than `__init__` assigns (directly, through an item/attribute store or an in-place call) -/\n'
    out += 'def assigned (cls : String) : List String := (row cls).2.1\n'
    out += 'def classAttrs (cls : String) : List String := (row cls).2.2\n\n'
    out += '/-- module-level instances of library classes: `module.name:Class` -/\n'
    out += 'def singletons : List String :=\n  %s\n\n' % slist(singles)
    out += '/-- module-level names some function stores into (`module.function:name`) -/\n'
    out += 'def globalsMutated : List String :=\n  %s\n\n' % slist(gmut)
    out += '/-- parameters with a mutable default value (`module.function.parameter`) -/\n'
    out += 'def mutableDefaults : List String :=\n  %s\n' % slist(mdef)
    return out + footer('ObjectsG')


ITEMS = {'ObjectsG': objectsg}
