"""Gen item `Hashes` (C01/C13/C14): everything the MD4/MD5/SHA-0/SHA-1/SHA-2 models read from the live code.

E1 (runtime values): SHA2(n).K for both word sizes, H after initstate() and (wsize, blocksize, outlen) for the six
    (size,t) pairs, SHA1 K / IV / round-function order for both versions, MD4/MD5 IV, K, shift tuples.
E3 (AST translation): the bit-expression lambdas the live objects actually call (located through their code objects:
    `SHA1().ft[r]`, `SHA2(n).Sigma_0` …, `MD4().ft[i]`, the module global `Ch`/`Maj` used by SHA2.update, `rol`/`ror`)
    are printed as Lean terms over Model.Bits operators; the MD4/MD5 message-index tuples of `update` are read from
    the AST of the `W.extend([W[i] for i in (…)])` statements.

Closed grammar of E3: ^ & | + - ~ << >>, names, int literals, `.size`, calls of functions that are themselves
translatable (lambda or one-line `def`).  Anything else raises Untranslatable(<name>: <reason>) = extraction failure.
"""
import ast, inspect, os, textwrap

from extract import lean_nat_list, lean_nat_table, footer


class Untranslatable(Exception):
    pass


# ---------------------------------------------------------------------------------------------------------------
# E3: function object -> Lean definition
# ---------------------------------------------------------------------------------------------------------------
class Translator:
    def __init__(self):
        self.done = {}       # id(code object) -> (lean name, param types)
        self.defs = []       # lean source of the definitions, in dependency order
        self.trees = {}      # filename -> ast
        self.names = set()

    def tree(self, filename):
        if filename not in self.trees:
            self.trees[filename] = ast.parse(open(filename).read(), filename)
        return self.trees[filename]

    def locate(self, fn, want):
        """AST node (Lambda or one-line FunctionDef) of the live function object `fn`"""
        code = fn.__code__
        tree = self.tree(code.co_filename)
        line = code.co_firstlineno
        args = list(code.co_varnames[:code.co_argcount])
        cands = []
        for node in ast.walk(tree):
            if isinstance(node, ast.Lambda) and node.lineno == line and code.co_name == '<lambda>':
                if [a.arg for a in node.args.args] == args: cands.append(node)
            if isinstance(node, ast.FunctionDef) and node.lineno == line and node.name == code.co_name:
                cands.append(node)
        if len(cands) != 1:
            raise Untranslatable('%s: %d candidate definitions at %s:%d' % (want, len(cands), os.path.basename(code.co_filename), line))
        node = cands[0]
        a = node.args
        if a.vararg or a.kwarg or a.kwonlyargs or a.defaults or a.posonlyargs:
            raise Untranslatable('%s: only plain positional parameters are supported' % want)
        if isinstance(node, ast.FunctionDef):
            body = [s for s in node.body if not (isinstance(s, ast.Expr) and isinstance(s.value, ast.Constant) and isinstance(s.value.value, str))]
            if len(body) != 1 or not isinstance(body[0], ast.Return) or body[0].value is None:
                raise Untranslatable('%s: body is not a single return statement' % want)
            return args, body[0].value
        return args, node.body

    def resolve(self, fn, name, want):
        code = fn.__code__
        if name in code.co_freevars:
            return fn.__closure__[code.co_freevars.index(name)].cell_contents
        if name in fn.__globals__:
            return fn.__globals__[name]
        raise Untranslatable('%s: cannot resolve callee %s' % (want, name))

    def function(self, fn, leanname):
        """translate `fn` (once); returns (lean name, param types)"""
        if not inspect.isfunction(fn):
            raise Untranslatable('%s: not a Python function' % leanname)
        key = id(fn.__code__)
        if key in self.done: return self.done[key]
        if leanname in self.names:
            raise Untranslatable('%s: name clash' % leanname)
        args, body = self.locate(fn, leanname)
        # parameter types by usage: 'nat' if used as a shift amount / inside integer arithmetic, else 'bits'
        ptypes = {a: None for a in args}
        term, typ = self.expr(fn, body, ptypes, leanname, expect='bits')
        if typ != 'bits':
            raise Untranslatable('%s: result is not a Bits expression' % leanname)
        for a in args:
            if ptypes[a] is None: ptypes[a] = 'bits'
        sig = ' '.join('(%s : %s)' % (a, 'Bits' if ptypes[a] == 'bits' else 'Nat') for a in args)
        src = textwrap.dedent(ast.get_source_segment(open(fn.__code__.co_filename).read(), body) or '').replace('\n', ' ')
        self.defs.append('/-- %s:%d  `%s` -/\ndef %s %s : Bits :=\n  %s\n'
                         % (os.path.basename(fn.__code__.co_filename), fn.__code__.co_firstlineno, src, leanname, sig, term))
        self.names.add(leanname)
        self.done[key] = (leanname, [ptypes[a] for a in args])
        return self.done[key]

    def setvar(self, ptypes, name, typ, want):
        if name not in ptypes:
            raise Untranslatable('%s: free name %s' % (want, name))
        if ptypes[name] is None: ptypes[name] = typ
        elif ptypes[name] != typ:
            raise Untranslatable('%s: parameter %s used both as Bits and as int' % (want, name))

    BITOPS = {ast.BitXor: 'Bits.xor', ast.BitAnd: 'Bits.and', ast.BitOr: 'Bits.or', ast.Add: 'Bits.add', ast.Sub: 'Bits.sub'}
    NATOPS = {ast.Add: '+', ast.Sub: '-', ast.Mult: '*'}

    def expr(self, fn, e, ptypes, want, expect):
        """returns (lean term, 'bits'|'nat'); `expect` is the type the context needs"""
        if isinstance(e, ast.Constant) and isinstance(e.value, int) and not isinstance(e.value, bool) and e.value >= 0:
            # an int literal as a Bits operand is `Bits(v)`: size = bit_length
            return ('(Bits.ofNat %d)' % e.value, 'bits') if expect == 'bits' else (str(e.value), 'nat')
        if isinstance(e, ast.Name):
            self.setvar(ptypes, e.id, expect, want)
            return e.id, expect
        if isinstance(e, ast.Attribute) and e.attr == 'size' and isinstance(e.value, ast.Name):
            if expect != 'nat': raise Untranslatable('%s: .size used as a Bits value' % want)
            self.setvar(ptypes, e.value.id, 'bits', want)
            return '%s.size' % e.value.id, 'nat'
        if isinstance(e, ast.UnaryOp) and isinstance(e.op, ast.Invert) and expect == 'bits':
            t, _ = self.expr(fn, e.operand, ptypes, want, 'bits')
            return '(Bits.inv %s)' % t, 'bits'
        if isinstance(e, ast.BinOp):
            if isinstance(e.op, (ast.LShift, ast.RShift)) and expect == 'bits':
                l, _ = self.expr(fn, e.left, ptypes, want, 'bits')
                r, _ = self.expr(fn, e.right, ptypes, want, 'nat')
                return '(%s %s %s)' % ('Bits.shl' if isinstance(e.op, ast.LShift) else 'Bits.shr', l, r), 'bits'
            if expect == 'bits' and type(e.op) in self.BITOPS:
                if isinstance(e.left, ast.Constant):
                    raise Untranslatable('%s: int literal as left operand' % want)
                l, _ = self.expr(fn, e.left, ptypes, want, 'bits')
                r, _ = self.expr(fn, e.right, ptypes, want, 'bits')
                return '(%s %s %s)' % (self.BITOPS[type(e.op)], l, r), 'bits'
            if expect == 'nat' and type(e.op) in self.NATOPS:
                # Python ints; `-` is only ever used as `x.size-n` with n ≤ size (a negative shift count raises in Python;
                # Lean's truncated subtraction is reached only outside the domain of every caller)
                l, _ = self.expr(fn, e.left, ptypes, want, 'nat')
                r, _ = self.expr(fn, e.right, ptypes, want, 'nat')
                return '(%s %s %s)' % (l, self.NATOPS[type(e.op)], r), 'nat'
        if isinstance(e, ast.Call) and isinstance(e.func, ast.Name) and not e.keywords and expect == 'bits':
            callee = self.resolve(fn, e.func.id, want)
            cname, ctypes = self.function(callee, self.fresh(want, e.func.id, callee))
            if len(ctypes) != len(e.args):
                raise Untranslatable('%s: arity of call to %s' % (want, e.func.id))
            ts = [self.expr(fn, a, ptypes, want, t)[0] for a, t in zip(e.args, ctypes)]
            return '(%s %s)' % (cname, ' '.join(ts)), 'bits'
        raise Untranslatable('%s: construct outside the grammar: %s' % (want, ast.dump(e)[:80]))

    def fresh(self, want, pyname, callee):
        key = id(callee.__code__) if inspect.isfunction(callee) else None
        if key in self.done: return self.done[key][0]
        if inspect.isfunction(callee) and callee.__code__.co_name != '<lambda>':
            return pyname                       # a `def`: keep its own name (rol, ror)
        return '%s_%s' % (want.split('_')[0], pyname)   # a sibling lambda reached through a closure (MD5 g -> f)


# ---------------------------------------------------------------------------------------------------------------
def index_tuples(cls, want):
    """the tuples of `W.extend([W[i] for i in (…)])` statements of cls.update, in order"""
    src = textwrap.dedent(inspect.getsource(cls.update))
    fn = ast.parse(src).body[0]
    out = []
    for node in ast.walk(fn):
        if (isinstance(node, ast.Expr) and isinstance(node.value, ast.Call) and isinstance(node.value.func, ast.Attribute)
                and node.value.func.attr == 'extend' and isinstance(node.value.func.value, ast.Name)):
            wname = node.value.func.value.id
            if len(node.value.args) != 1 or not isinstance(node.value.args[0], ast.ListComp):
                raise Untranslatable('%s: extend() argument is not a list comprehension' % want)
            lc = node.value.args[0]
            ok = (len(lc.generators) == 1 and not lc.generators[0].ifs and isinstance(lc.generators[0].target, ast.Name)
                  and isinstance(lc.elt, ast.Subscript) and isinstance(lc.elt.value, ast.Name) and lc.elt.value.id == wname
                  and isinstance(lc.elt.slice, ast.Name) and lc.elt.slice.id == lc.generators[0].target.id
                  )
            it = lc.generators[0].iter if ok else None
            if ok and isinstance(it, (ast.Tuple, ast.List)) and all(isinstance(c, ast.Constant) and isinstance(c.value, int) and c.value >= 0 for c in it.elts):
                vals = [c.value for c in it.elts]
            elif ok and isinstance(it, ast.Name) and isinstance(cls.update.__globals__.get(it.id), (tuple, list)) \
                    and all(type(v) is int and v >= 0 for v in cls.update.__globals__[it.id]):
                vals = list(cls.update.__globals__[it.id])      # a module-level table: the runtime value the loop reads (E1)
            else:
                raise Untranslatable('%s: extend() statement outside the grammar' % want)
            out.append((node.lineno, vals))
    out.sort()
    flat = [v for _, t in out for v in t]
    if len(flat) % 16: raise Untranslatable('%s: %d message-word indices (not a multiple of 16)' % (want, len(flat)))
    return [flat[i:i + 16] for i in range(0, len(flat), 16)]     # one row of 16 per round after the first


def fun_list(name, fnames, arity=3):
    typ = ' → '.join(['Bits'] * (arity + 1))
    return 'def %s : List (%s) :=\n  [%s]\n' % (name, typ, ', '.join(fnames))


def hashes(repo):
    from crysp import sha, md
    from crysp.utils import operators
    from crysp.bits import Bits
    T = Translator()
    out = []

    def ivals(l, w, what):
        for b in l:
            if not isinstance(b, Bits) or b.size != w: raise Untranslatable('%s: state word is not a Bits of %d bits' % (what, w))
        return [b.ival for b in l]

    def ints(l, what, bound=None):
        l = list(l)
        for v in l:
            if type(v) is not int or v < 0 or (bound is not None and v >= bound): raise Untranslatable('%s: not a table of non-negative ints' % what)
        return l

    # ---- operators.py
    T.function(operators.rol, 'rol'); T.function(operators.ror, 'ror')

    # ---- SHA-1 / SHA-0
    tabs = []
    s1 = {v: sha.SHA1(v) for v in (0, 1)}
    ftobjs = []
    for v in (0, 1):
        o = s1[v]
        if (o.size, o.blocksize, o.wsize) != (160, 512, 32): raise Untranslatable('SHA1(%d): size/blocksize/wsize changed' % v)
        for f in o.ft:
            if not any(f is g for g in ftobjs): ftobjs.append(f)
    ftnames = []
    for f in ftobjs:
        gname = [n for n, g in vars(sha).items() if g is f]
        nm = gname[0] if gname else 'sha1_ft%d' % len(ftnames)
        ftnames.append(T.function(f, nm)[0])
    for v in (0, 1):
        o = s1[v]
        o.initstate()
        tabs.append(lean_nat_list('sha1K_v%d' % v, ints(o.K, 'SHA1.K', 1 << 32)))
        tabs.append(lean_nat_list('sha1ftCode_v%d' % v, [[i for i, g in enumerate(ftobjs) if g is f][0] for f in o.ft], per_line=20))
        tabs.append(lean_nat_list('sha1H_v%d' % v, ivals(o.H, 32, 'SHA1.H')))
    tabs.append('/-- the distinct round functions of `SHA1().ft`, indexed by the codes of `sha1ftCode_*` -/\n' + fun_list('sha1ftFun', ftnames))

    # ---- SHA-2
    pairs = [(224, 0), (256, 0), (384, 0), (512, 0), (512, 224), (512, 256)]
    Ks = {}
    rows = []
    for size, t in pairs:
        o = sha.SHA2(size, t)
        o.initstate()
        w = o.wsize
        if w not in (32, 64): raise Untranslatable('SHA2(%d,%d): word size %r' % (size, t, w))
        K = ints(o.K, 'SHA2.K', 1 << w)
        if Ks.setdefault(w, K) != K: raise Untranslatable('SHA2: sizes with the same word size no longer share K')
        tabs.append(lean_nat_list('sha2H_%d_%d' % (size, t), ivals(o.H, w, 'SHA2.H'), per_line=4))
        rows.append([size, t, w, o.blocksize, o.outlen])
        for nm in ('Sigma_0', 'Sigma_1', 'sigma_0', 'sigma_1'):
            T.function(getattr(o, nm), '%s_%d' % (nm, w))
    # the round functions SHA2.update calls by their global names
    for nm in ('Ch', 'Maj'):
        g = sha.SHA2.update.__globals__.get(nm)
        if g is None: raise Untranslatable('SHA2.update: global %s missing' % nm)
        if T.function(g, nm)[0] != nm: raise Untranslatable('SHA2.update: global %s is an alias' % nm)
    for w in (32, 64):
        tabs.append(lean_nat_list('sha2K%d' % w, Ks[w], per_line=8 if w == 32 else 4))
    tabs.append('/-- (size, t, wsize, blocksize, outlen) of the live SHA2(size,t) objects -/\n' + lean_nat_table('sha2Params', rows))

    # ---- MD4 / MD5
    for cls, nm, nft in ((md.MD4, 'md4', 3), (md.MD5, 'md5', 4)):
        o = cls()
        o.initstate()
        if (o.size, o.blocksize, o.wsize) != (128, 512, 32): raise Untranslatable('%s: size/blocksize/wsize changed' % nm)
        if len(o.ft) != nft: raise Untranslatable('%s: number of round functions' % nm)
        names = []
        for i, f in enumerate(o.ft):
            # name after the local variable when it can be recovered from the AST (`self.ft = [f,g,h]`), else by position
            names.append(T.function(f, '%s_%s' % (nm, 'fghi'[i]))[0])
        tabs.append(fun_list('%sft' % nm, names))
        tabs.append(lean_nat_list('%sK' % nm, ints(o.K, nm + '.K', 1 << 32), per_line=4))
        st = [ints(r, nm + '.st', 33) for r in o.st]
        tabs.append(lean_nat_table('%sst' % nm, st))
        tabs.append(lean_nat_list('%sH' % nm, ivals(o.H, 32, nm + '.H')))
        idx = index_tuples(cls, nm + '.update')
        if len(idx) != nft - 1: raise Untranslatable('%s.update: %d extend() statements' % (nm, len(idx)))
        tabs.append(lean_nat_table('%sIdx' % nm, idx))

    hdr = ('-- GENERATED by tools/extract.py from crysp/sha.py, crysp/md.py, crysp/utils/operators.py — do not edit; regenerated on every check run\n'
           'import Model.Bits\nnamespace Model.Gen.Hashes\nopen Model\n\n')
    return hdr + '\n'.join(T.defs) + '\n' + '\n'.join(tabs) + footer('Hashes')


ITEMS = {'Hashes': hashes}
