"""Gen item `Aes`: what crysp/aes.py holds at run time (E1) and the complete index behaviour of the row shifts (E2).

E1  AES.sboxtable / AES.sboxinvtable (Poly objects: `.ival` is the list of ints the code indexes, `.size` the ring),
    module-level Exp, Log (Log[0] is `None` in the source: emitted as `Option Nat`), Rcon.
E2  AES.ShiftRows / AES.InvShiftRows applied to the identity state Poly(bytes(range(16))): the resulting coefficient
    list IS the index permutation the code applies (complete behaviour on 16-byte states, both are pure gathers).
The MixColumns coefficients are not a table in the source (they are literals inside the method bodies), so they are
part of the hand-written model and tied by the correspondence stream.
"""
from extract import header, footer, lean_nat_list


def lean_opt_list(name, xs, per_line=12):
    toks = ['none' if x is None else 'some %d' % int(x) for x in xs]
    rows = [', '.join(toks[i:i + per_line]) for i in range(0, len(toks), per_line)]
    return 'def %s : List (Option Nat) :=\n  [%s]\n' % (name, ',\n   '.join(rows))


def aes(repo):
    from crysp import aes as A
    from crysp.poly import Poly
    sb, sbi = A.AES.sboxtable, A.AES.sboxinvtable
    assert sb.size == 8 and sbi.size == 8
    obj = A.AES(bytes(16))
    ident = bytes(range(16))
    st = Poly(ident); obj.ShiftRows(st); sr = list(st.ival)
    st = Poly(ident); obj.InvShiftRows(st); isr = list(st.ival)
    assert len(sr) == 16 and len(isr) == 16
    # both must be gathers: probing with a second, independent labelling of the positions gives the same index map
    lab2 = bytes((7 * i + 3) % 251 for i in range(16))
    st = Poly(lab2); obj.ShiftRows(st); assert list(st.ival) == [lab2[i] for i in sr]
    st = Poly(lab2); obj.InvShiftRows(st); assert list(st.ival) == [lab2[i] for i in isr]
    return (header('Aes', ['crysp/aes.py'])
            + lean_nat_list('sboxtable', sb.ival)
            + lean_nat_list('sboxinvtable', sbi.ival)
            + 'def sboxRing : Nat := %d\n' % sb.size
            + lean_nat_list('expTable', A.Exp)
            + lean_opt_list('logTable', A.Log)
            + lean_nat_list('rcon', A.Rcon)
            + lean_nat_list('shiftRowsIdx', sr)
            + lean_nat_list('invShiftRowsIdx', isr)
            + 'def blockBits : Nat := %d\n' % obj.blocksize
            + footer('Aes'))


ITEMS = {'Aes': aes}
