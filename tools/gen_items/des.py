"""Gen item `Des`: complete behaviour of the function-local tables of crysp/des.py (E2 exhaustive probing).

 * IP, IPinv, PC1, PC2, E, P are probed with the identity vector Poly(range(n)) exactly as crysp/wb.py itself does
   (`M[table]` on a Poly returns the table applied to the identity), and re-probed on every Bits unit vector so that
   the table is known to be the behaviour on Bits operands too.
 * S(n,x) for all 8x64 arguments.
 * the key-rotation schedule: `subkey(k,r)` is probed on the 56 unit vectors for r = 0..15; every output bit must
   depend on exactly one input bit (`subkeySel[r][j]`), which must be PC2 applied after rotating both halves by the
   same amount s_r; `shifts[r] = (s_r - s_{r-1}) mod 28`.  The function-local `shifts` literal, when reachable through
   the AST, must agree.  A few random vectors check that subkey is the bit selection the unit vectors describe.
"""
import ast, inspect, random
from extract import header, footer, lean_nat_list, lean_nat_table


def _probe_perm(f, n, Bits, Poly):
    t = list(f(Poly(list(range(n)))).ival)
    m = len(t)
    # the same function on Bits unit vectors: out bit j set iff t[j] == p
    for p in range(n):
        o = f(Bits(1 << p, n))
        assert o.size == m
        assert [j for j in range(m) if (o.ival >> j) & 1] == [j for j in range(m) if t[j] == p], (f.__name__, p)
    assert f(Bits(0, n)).ival == 0
    return t


def des(repo):
    from crysp import des as D
    from crysp.bits import Bits
    from crysp.poly import Poly
    ip = _probe_perm(D.IP, 64, Bits, Poly)
    ipinv = _probe_perm(D.IPinv, 64, Bits, Poly)
    pc1 = _probe_perm(D.PC1, 64, Bits, Poly)
    pc2 = _probe_perm(D.PC2, 56, Bits, Poly)
    e = _probe_perm(D.E, 32, Bits, Poly)
    p = _probe_perm(D.P, 32, Bits, Poly)
    assert (len(ip), len(ipinv), len(pc1), len(pc2), len(e), len(p)) == (64, 64, 56, 48, 48, 32)
    sbox = []
    for n in range(8):
        row = []
        for x in range(64):
            v = D.S(n, x)
            assert v.size == 4
            row.append(v.ival)
        sbox.append(row)
    # rotation schedule
    sel, cum = [], []
    for r in range(16):
        outs = [D.subkey(Bits(1 << q, 56), r) for q in range(56)]
        assert all(o.size == 48 for o in outs) and D.subkey(Bits(0, 56), r).ival == 0
        row = []
        for j in range(48):
            src = [q for q in range(56) if (outs[q].ival >> j) & 1]
            assert len(src) == 1, ('subkey bit depends on %d inputs' % len(src))
            row.append(src[0])
        sel.append(row)
        cand = [s for s in range(28)
                if all(row[j] == ((pc2[j] + s) % 28 if pc2[j] < 28 else 28 + (pc2[j] - 28 + s) % 28) for j in range(48))]
        assert len(cand) == 1, 'subkey(.,%d) is not PC2 after one rotation of both halves' % r
        cum.append(cand[0])
    shifts = [(cum[r] - (cum[r - 1] if r else 0)) % 28 for r in range(16)]
    assert sum(shifts) == 28 and all(sum(shifts[:r + 1]) % 28 == cum[r] for r in range(16))
    rnd = random.Random(46)
    for _ in range(64):
        k = rnd.getrandbits(56); r = rnd.randrange(16)
        o = D.subkey(Bits(k, 56), r)
        assert o.ival == sum(((k >> sel[r][j]) & 1) << j for j in range(48))
    # the literal in the source, when it is still there
    try:
        tree = ast.parse(inspect.getsource(D.subkey).lstrip())
        lits = [ast.literal_eval(n.value) for n in ast.walk(tree)
                if isinstance(n, ast.Assign) and any(isinstance(t, ast.Name) and t.id == 'shifts' for t in n.targets)]
    except Exception:
        lits = []
    for l in lits:
        assert list(l) == shifts, 'shifts literal %r disagrees with the probed schedule %r' % (l, shifts)
    return (header('Des', ['crysp/des.py'])
            + lean_nat_list('ip', ip) + lean_nat_list('ipinv', ipinv)
            + lean_nat_list('pc1', pc1) + lean_nat_list('pc2', pc2)
            + lean_nat_list('e', e) + lean_nat_list('p', p)
            + lean_nat_table('sbox', sbox)
            + lean_nat_list('shifts', shifts)
            + lean_nat_table('subkeySel', sel)
            + footer('Des'))


ITEMS = {'Des': des}
