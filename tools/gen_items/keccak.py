"""Gen item `KeccakG` (crysp/keccak.py):
  RC            E1  the 24 round constants the code reads at run time (keccak.RC[i].ival, sizes checked = 64)
  rhoOffsets    E3+E2  the function-local dict `r` of Round(), read from the AST of the running module as a literal,
                index 5*y+x, and cross-checked behaviourally: Round() is run once on a tagged state with keccak.rot
                replaced by a recorder; the 25 rho/pi calls must use exactly these amounts in loop order x,y
  piDest        E2  destination lane index 5*y'+x' written by the rho/pi loop for source lane 5*y+x, recorded
                from State.__setitem__ during that same traced call
  widths        E1  (b, w, nrounds) of a live Keccak object for each of the seven permutation widths
  sha3Params / shakeParams  E1  (n, r, c, outlen) of live SHA3(n) objects; SHAKE capacities read from the
                objects the wrappers build (traced through Keccak.__init__)
  singletons    E1  (n, b, r, c, outlen, duplexing) of the module-level objects keccak_224 … keccak_512
"""
import ast, inspect
from extract import header, footer, lean_nat_list, lean_nat_table


def keccakg(repo):
    from crysp import keccak as K
    from crysp import sha as S
    from crysp.bits import Bits
    rc = []
    assert len(K.RC) == 24
    for c in K.RC:
        assert isinstance(c, Bits) and c.size == 64 and 0 <= c.ival < 1 << 64
        rc.append(c.ival)
    # --- the offset dict, as a literal of the source being executed
    tree = ast.parse(inspect.getsource(K.Round))
    dicts = [n for n in ast.walk(tree) if isinstance(n, ast.Assign) and isinstance(n.value, ast.Dict)
             and len(n.targets) == 1 and isinstance(n.targets[0], ast.Name) and n.targets[0].id == 'r']
    # (when the literal is not inside Round() any more — e.g. hoisted to module level — the offsets are taken from the
    #  behavioural trace below alone: the amounts the 25 rho/pi calls of a live Round() actually use, in loop order x,y)
    table = None
    if len(dicts) == 1:
        table = ast.literal_eval(dicts[0].value)
        assert sorted(table) == [(x, y) for x in range(5) for y in range(5)]
    # --- behavioural cross-check: trace rot() and State.__setitem__ during one Round call
    calls, sets = [], []
    orig_rot, orig_set = K.rot, K.State.__setitem__
    def rot_rec(l, n):
        calls.append(n); return orig_rot(l, n)
    def set_rec(self, xy, v):
        sets.append((id(self), xy[0] % 5, xy[1] % 5)); return orig_set(self, xy, v)
    A = K.State(64)
    for i in range(25): A.lanes[i] = Bits(i + 1, 64)
    K.rot, K.State.__setitem__ = rot_rec, set_rec
    try:
        K.Round(A, Bits(0, 64))
    finally:
        K.rot, K.State.__setitem__ = orig_rot, orig_set
    assert len(calls) == 30 and calls[:5] == [1] * 5, 'Round(): unexpected rot() call pattern'
    if table is None:
        table = {(x, y): calls[5 + k] for k, (x, y) in enumerate((x, y) for x in range(5) for y in range(5))}
    assert calls[5:] == [table[(x, y)] for x in range(5) for y in range(5)], 'rho offsets used differ from the dict literal'
    offs = [table[(i % 5, i // 5)] for i in range(25)]
    # sets: 25 theta writes on A, 25 rho/pi writes on B, 25 chi writes on A, 1 iota write
    assert len(sets) == 76, 'Round(): unexpected number of lane writes'
    bid = sets[25][0]
    assert all(s[0] == bid for s in sets[25:50]) and bid != sets[0][0]
    pidest = [None] * 25
    for k, (x, y) in enumerate((x, y) for x in range(5) for y in range(5)):
        _, dx, dy = sets[25 + k]
        pidest[5 * y + x] = 5 * dy + dx
    assert sorted(pidest) == list(range(25))
    widths = []
    for b in (25, 50, 100, 200, 400, 800, 1600):
        k = K.Keccak(b=b, r=b - 1 if b <= 1536 else 1536)
        widths.append([k.b, k.w, k.n])
    sha3 = []
    for n in (224, 256, 384, 512):
        h = S.SHA3(n)
        assert h.duplexing is True
        sha3.append([n, h.r, h.c, h.outlen])
    # SHAKE wrappers build their object inside the call: record the constructor arguments
    shake = []
    orig_call = K.Keccak.__call__
    def call_rec(self, M, bitlen=None, r=None):
        shake.append([self.r, self.c, self.outlen, int(bool(self.duplexing)), M[-1], bitlen - 8 * (len(M) - 1)])
        return b''
    K.Keccak.__call__ = call_rec
    try:
        S.SHAKE128(b'', 8); S.SHAKE256(b'', 8)
        S.SHA3.__call__(S.SHA3(256), b'')
    finally:
        K.Keccak.__call__ = orig_call
    single = []
    for n in (224, 256, 384, 512):
        k = getattr(K, 'keccak_%d' % n)
        assert type(k) is K.Keccak and k.c >= 0
        single.append([n, k.b, k.r, k.c, k.outlen, int(bool(k.duplexing))])
    # shake rows: [r, c, outlen, duplexing, suffix byte, suffix bit count]; last row = SHA3 suffix
    assert len(shake) == 3
    return (header('KeccakG', ['crysp/keccak.py', 'crysp/sha.py'])
            + lean_nat_list('RC', rc, per_line=4)
            + lean_nat_list('rhoOffsets', offs, per_line=5)
            + lean_nat_list('piDest', pidest, per_line=5)
            + lean_nat_table('widths', widths)
            + lean_nat_table('sha3Params', sha3)
            + lean_nat_table('suffixProbe', shake)
            + lean_nat_table('singletons', single)
            + footer('KeccakG'))


ITEMS = {'KeccakG': keccakg}
