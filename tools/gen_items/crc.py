"""Gen item `Crc` (E1): the module-level objects crysp/crc.py reads at run time — POLY32_1, POLY32_1i (Bits),
TABLE32_1 (list of 256 Bits), TABLE32_1b (dict 0..255 -> Bits).  Each Bits is emitted as (ival, size)."""
from extract import header, footer, lean_nat_list


def crcg(repo):
    from crysp import crc
    from crysp.bits import Bits
    def pair(b):
        if not isinstance(b, Bits): raise TypeError('not a Bits: %r' % (b,))
        return int(b.ival), int(b.size)
    t = crc.TABLE32_1
    if not isinstance(t, list) or len(t) != 256: raise ValueError('TABLE32_1 is not a 256-entry list')
    tb = crc.TABLE32_1b
    if sorted(tb.keys()) != list(range(256)): raise ValueError('TABLE32_1b keys are not 0..255')
    fw = [pair(x) for x in t]
    bw = [pair(tb[n]) for n in range(256)]
    p, pi = pair(crc.POLY32_1), pair(crc.POLY32_1i)
    return (header('Crc', ['crysp/crc.py'])
            + 'def POLY32_1_ival : Nat := %d\ndef POLY32_1_size : Nat := %d\n' % p
            + 'def POLY32_1i_ival : Nat := %d\ndef POLY32_1i_size : Nat := %d\n' % pi
            + lean_nat_list('TABLE32_1_ival', [v for v, _ in fw], per_line=8)
            + lean_nat_list('TABLE32_1_size', [s for _, s in fw], per_line=32)
            + lean_nat_list('TABLE32_1b_ival', [v for v, _ in bw], per_line=8)
            + lean_nat_list('TABLE32_1b_size', [s for _, s in bw], per_line=32)
            + footer('Crc'))


ITEMS = {'Crc': crcg}
