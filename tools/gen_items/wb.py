"""Gen item `Wb`: E1 runtime values of the key-independent tables crysp/wb.py builds.

 * rbits  = getrbits_T_in()                       32 ints
 * m1     = table_M1()                            96 ints (indices into the 64-bit block)
 * m2mat  = table_M2()[0]                         96 ints < 2^96 (rows of the mixing matrix)
 * m2m    = table_M2()[1]                         96 entries, each an int or a pair of ints; every entry as a list
 * m3     = table_M3()                            64 ints
 * srlrSR/srlrL/srlrR, erlrER/erlrL/erlrR         the Poly triples of SRLRformat()/ERLRformat() (their .ival lists)

The values are what the code returns when called; nothing is recomputed here.  Shape facts the Lean side relies on
(lengths, ranges, "an m entry is an int or a 2-tuple") are asserted so that a change of shape is an extraction
failure rather than a silently different table.
"""
from extract import header, footer, lean_nat_list, lean_nat_table


def _ints(l, n, bound):
    l = list(l)
    assert len(l) == n, (len(l), n)
    for x in l:
        assert isinstance(x, int) and not isinstance(x, bool) and 0 <= x < bound, x
    return l


def wb(repo):
    from crysp import wb as W
    rbits = _ints(W.getrbits_T_in(), 32, 32)
    m1 = _ints(W.table_M1(), 96, 64)
    Mat, m = W.table_M2()
    mat = _ints(Mat, 96, 1 << 96)
    assert len(m) == 96
    mm = []
    for e in m:
        if isinstance(e, tuple):
            assert len(e) == 2
            mm.append(_ints(e, 2, 96))
        else:
            mm.append(_ints([e], 1, 96))
    m3 = _ints(W.table_M3(), 64, 96)
    SR, L, R = W.SRLRformat()
    ER, L2, R2 = W.ERLRformat()
    assert (SR.size, L.size, R.size, ER.size, L2.size, R2.size) == (0,) * 6
    return (header('Wb', ['crysp/wb.py'])
            + lean_nat_list('rbits', rbits)
            + lean_nat_list('m1', m1)
            + lean_nat_list('m2mat', mat, per_line=4)
            + lean_nat_table('m2m', mm)
            + lean_nat_list('m3', m3)
            + lean_nat_list('srlrSR', _ints(SR.ival, 32, 96))
            + lean_nat_list('srlrL', _ints(L.ival, 32, 96))
            + lean_nat_list('srlrR', _ints(R.ival, 32, 96))
            + lean_nat_list('erlrER', _ints(ER.ival, 48, 96))
            + lean_nat_list('erlrL', _ints(L2.ival, 32, 96))
            + lean_nat_list('erlrR', _ints(R2.ival, 32, 96))
            + footer('Wb'))


ITEMS = {'Wb': wb}
