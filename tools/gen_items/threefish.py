"""Gen item `Threefish`: what crysp/threefish.py itself reads at run time.

E1  the name-mangled instance attributes `_Threefish__pi`, `_Threefish__piinv`, `_Threefish__R` of a probe object of each
    of the three sizes, `Nr`, and the constant C240 (local to __init__: read back as the parity word of an all-zero key).
E2  the index structure of the key schedule `__ks(s)`: the probe object's key/tweak word lists are replaced by one-hot
    tag words, `__ks(s)` is called for every s the cipher uses (0..Nr/4) and every returned word is decoded into
    [key word index, tweak word index (3 = none), integer added].  This is the complete index behaviour of `__ks` on
    the rounds that exist; Proofs.C02_Threefish ties it to the hand-written index expressions of Model.Threefish.ks."""
from extract import header, footer, lean_nat_list, lean_nat_table


def _table3(name, t):
    body = ',\n   '.join('[' + ', '.join('[%d, %d, %d]' % tuple(e) for e in row) + ']' for row in t)
    return 'def %s : List (List (List Nat)) :=\n  [%s]\n' % (name, body)


def _probe_ks(T, Bits, nbytes):
    """one-hot tags: key word j -> bit 25+2j (25..57), tweak words -> bits 60,61,62; the added integer (<= 20) stays below bit 5."""
    o = T(b'\0' * nbytes, b'\0' * 16)
    nw = o.Nw
    o._Threefish__k = [Bits(1 << (25 + 2 * j), 64) for j in range(nw + 1)]
    o._Threefish__t = [Bits(1 << 60, 64), Bits(1 << 61, 64), Bits(1 << 62, 64)]
    rows = []
    for s in range(o.Nr // 4 + 1):
        ks = o._Threefish__ks(s)
        if len(ks) != nw: raise ValueError('ks length')
        row = []
        for w in ks:
            if w.size != 64: raise ValueError('ks word size')
            v = w.ival
            kj = [j for j in range(nw + 1) if (v >> (25 + 2 * j)) & 1]
            tj = [j for j in range(3) if (v >> (60 + j)) & 1]
            low = v & ((1 << 25) - 1)
            if len(kj) != 1 or len(tj) > 1: raise ValueError('ks probe not one-hot')
            if v != (1 << (25 + 2 * kj[0])) + (1 << (60 + tj[0]) if tj else 0) + low: raise ValueError('ks probe residue')
            row.append((kj[0], tj[0] if tj else 3, low))
        rows.append(row)
    return rows


def threefish(repo):
    from crysp.threefish import Threefish as T
    from crysp.bits import Bits
    out = header('Threefish', ['crysp/threefish.py'])
    for nbits in (256, 512, 1024):
        o = T(b'\0' * (nbits // 8), b'\0' * 16)
        nw = o.Nw
        assert nw == nbits // 64
        out += 'def nr%d : Nat := %d\n' % (nw, o.Nr)
        out += lean_nat_list('pi%d' % nw, o._Threefish__pi)
        out += lean_nat_list('piinv%d' % nw, o._Threefish__piinv)
        out += lean_nat_table('rot%d' % nw, o._Threefish__R)
        c240 = o._Threefish__k[-1]
        assert c240.size == 64
        out += 'def c240_%d : Nat := %d\n' % (nw, c240.ival)
        out += _table3('ksProbe%d' % nw, _probe_ks(T, Bits, nbits // 8))
        out += '\n'
    out += footer('Threefish')
    return out


ITEMS = {'Threefish': threefish}
