"""Gen item `BitsG`: the complete behaviour of bits.reverse_byte on 0..255 (E2) and hextab_r (E1)."""
from extract import header, footer, lean_nat_list

def bitsg(repo):
    from crysp import bits
    t = [bits.reverse_byte(b) for b in range(256)]
    hexr = [int(s[::-1], 2) for s in bits.hextab_r]      # hextab_r[d] read as bits lsb-first must be d
    return (header('BitsG', ['crysp/bits.py'])
            + lean_nat_list('reverseByteTable', t)
            + lean_nat_list('hextabVal', hexr)
            + footer('BitsG'))

ITEMS = {'BitsG': bitsg}
