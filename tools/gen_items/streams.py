"""Gen item `Streams`: what salsa20.py / chacha.py hold at run time (E1) — the index maps rM/rMinv/cM/cMinv of both
modules, the sigma/tau constants as the ints that `p[0,5,10,15] = consts` stores — and the rotation amounts of the two
quarterround bodies, read from the source in order of appearance (E3: the second argument of every `rol(…, n)` call)."""
import ast, inspect, textwrap
from extract import header, footer, lean_nat_list


def _rol_amounts(fn):
    tree = ast.parse(textwrap.dedent(inspect.getsource(fn)))
    out = []

    class V(ast.NodeVisitor):
        def visit_Call(self, node):
            # arguments are evaluated before the call: visit them first so nested rol() calls come out in execution order
            self.generic_visit(node)
            if isinstance(node.func, ast.Name) and node.func.id == 'rol':
                if len(node.args) != 2 or not isinstance(node.args[1], ast.Constant) or not isinstance(node.args[1].value, int):
                    raise ValueError('rol() call outside the translated grammar: ' + ast.dump(node))
                out.append(node.args[1].value)
    V().visit(tree)
    return out


def _perm(name, xs):
    xs = [int(x) for x in xs]
    if len(xs) != 16: raise ValueError('%s has %d entries' % (name, len(xs)))
    return lean_nat_list(name, xs)


def streams(repo):
    from crysp import salsa20, chacha
    srot = _rol_amounts(salsa20.Salsa20.quarterround)
    crot = _rol_amounts(chacha.Chacha.quarterround)
    if len(srot) != 4 or len(crot) != 4: raise ValueError('expected four rotations per quarterround')
    for nm in ('ror',):
        for fn in (salsa20.Salsa20.quarterround, chacha.Chacha.quarterround):
            if nm + '(' in inspect.getsource(fn): raise ValueError('quarterround uses %s: outside the translated grammar' % nm)
    consts = lambda L: [int(x.int()) for x in L]
    sizes = lambda L: [int(x.size) for x in L]
    return (header('Streams', ['crysp/salsa20.py', 'crysp/chacha.py'])
            + _perm('salsaRM', salsa20.rM) + _perm('salsaRMinv', salsa20.rMinv)
            + _perm('salsaCM', salsa20.cM) + _perm('salsaCMinv', salsa20.cMinv)
            + _perm('chachaRM', chacha.rM) + _perm('chachaRMinv', chacha.rMinv)
            + _perm('chachaCM', chacha.cM) + _perm('chachaCMinv', chacha.cMinv)
            + lean_nat_list('sigma', consts(salsa20.sigma)) + lean_nat_list('sigmaSizes', sizes(salsa20.sigma))
            + lean_nat_list('tau', consts(salsa20.tau)) + lean_nat_list('tauSizes', sizes(salsa20.tau))
            + lean_nat_list('salsaRot', srot) + lean_nat_list('chachaRot', crot)
            + footer('Streams'))


ITEMS = {'Streams': streams}
