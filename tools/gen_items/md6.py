"""Gen item `Md6`: the constants crysp/md.py's MD6 reads at run time.

 E1  md.Q (15 words), md.rin / md.lin (the two 16-entry shift tables)
 E3  from the AST of MD6.f: the tap tuple `t0,t1,t2,t3,t4 = …`, the initial `S = Bits(<S0>,64)`, the mask in
     `S = rol(S,<rot>)^(S&<mask>)`, the step count per round (`t = 16*self.rounds`, `if j==16`), the chaining size
     (`return A[-16:]`); anything that does not have exactly this shape is an extraction failure
 E2  the default round count for EVERY d in 0..512, without and with a key (complete behaviour of the constructor
     on the property's domain, not a sample)
"""
import ast, inspect, textwrap
from extract import header, footer, lean_nat_list


def _const(node):
    if isinstance(node, ast.Constant) and isinstance(node.value, int): return node.value
    raise ValueError('integer literal expected, got ' + ast.dump(node)[:80])


def md6(repo):
    from crysp import md
    Q = list(md.Q); rin = list(md.rin); lin = list(md.lin)
    assert len(Q) == 15 and len(rin) == 16 and len(lin) == 16
    src = textwrap.dedent(inspect.getsource(md.MD6.f))
    fn = ast.parse(src).body[0]
    taps = s0 = smask = srot = steps = jwrap = csize = None
    for node in ast.walk(fn):
        if isinstance(node, ast.Assign) and isinstance(node.targets[0], ast.Tuple):
            names = [t.id for t in node.targets[0].elts]
            if names == ['t0', 't1', 't2', 't3', 't4']:
                taps = [_const(v) for v in node.value.elts]
        if isinstance(node, ast.Assign) and isinstance(node.targets[0], ast.Name):
            tgt, v = node.targets[0].id, node.value
            if tgt == 'S' and isinstance(v, ast.Call) and getattr(v.func, 'id', '') == 'Bits':
                s0 = _const(v.args[0]); assert _const(v.args[1]) == 64
            if tgt == 'S' and isinstance(v, ast.BinOp) and isinstance(v.op, ast.BitXor):
                l, r = v.left, v.right
                assert isinstance(l, ast.Call) and l.func.id == 'rol' and l.args[0].id == 'S'
                srot = _const(l.args[1])
                assert isinstance(r, ast.BinOp) and isinstance(r.op, ast.BitAnd) and r.left.id == 'S'
                smask = _const(r.right)
            if tgt == 't' and isinstance(v, ast.BinOp) and isinstance(v.op, ast.Mult):
                steps = _const(v.left)
        if isinstance(node, ast.If) and isinstance(node.test, ast.Compare) and getattr(node.test.left, 'id', '') == 'j':
            jwrap = _const(node.test.comparators[0])
        if isinstance(node, ast.Return):
            sl = node.value.slice
            assert isinstance(sl, ast.Slice) and sl.upper is None and isinstance(sl.lower, ast.UnaryOp)
            csize = _const(sl.lower.operand)
    if None in (taps, s0, smask, srot, steps, jwrap, csize):
        raise ValueError('MD6.f no longer has the expected shape')
    nokey = [md.MD6(d).rounds for d in range(513)]
    keyed = [md.MD6(d, Key=b'k').rounds for d in range(513)]
    return (header('Md6', ['crysp/md.py'])
            + lean_nat_list('Q', Q, per_line=3)
            + lean_nat_list('rin', rin)
            + lean_nat_list('lin', lin)
            + lean_nat_list('taps', taps)
            + 'def t0 : Nat := %d\ndef t1 : Nat := %d\ndef t2 : Nat := %d\ndef t3 : Nat := %d\ndef t4 : Nat := %d\n' % tuple(taps)
            + 'def S0 : Nat := %d\ndef Smask : Nat := %d\ndef Srot : Nat := %d\n' % (s0, smask, srot)
            + 'def stepsPerRound : Nat := %d\ndef jWrap : Nat := %d\ndef cWords : Nat := %d\n' % (steps, jwrap, csize)
            + lean_nat_list('defaultRounds', nokey)
            + lean_nat_list('defaultRoundsKeyed', keyed)
            + footer('Md6'))


ITEMS = {'Md6': md6}
