"""Gen item `BlakeG`: everything crysp/blake.py reads as data.

E1 (runtime values of the live objects): the module tables `sigma` and `PI`; per BLAKE size the round constants
`c` as `initstate` builds them (re-chunked/pair-swapped for the 32-bit family), the IV borrowed from SHA2(size).H,
the round count, block/word/output sizes; for BLAKE2b/2s the IV and round count after `initstate()`.
E3 (AST of the nested `G` closures, which cannot be reached at run time): the rotation-amount tuples `xx`, the
sigma row rule `r%10`, and the eight `G(W,r,i,v,ja,jb,jc,jd)` calls of a round in source order."""
import ast, inspect
from extract import header, footer, lean_nat_list, lean_nat_table


def _g_facts(cls):
    """rotation tuples (wide, narrow) and the G call schedule of cls.update, from the source"""
    src = inspect.getsource(cls.update)
    tree = ast.parse('class _X:\n' + src if src.startswith('    ') else src)
    upd = [n for n in ast.walk(tree) if isinstance(n, ast.FunctionDef) and n.name == 'update'][0]
    g = [n for n in upd.body if isinstance(n, ast.FunctionDef) and n.name == 'G'][0]
    assert [a.arg for a in g.args.args] == ['W', 'r', 'i', 'v', 'ja', 'jb', 'jc', 'jd']
    rot = None
    sigmod = None
    for n in ast.walk(g):
        if isinstance(n, ast.Assign) and len(n.targets) == 1 and isinstance(n.targets[0], ast.Name) and n.targets[0].id == 'xx':
            v = n.value
            assert isinstance(v, ast.IfExp) and ast.unparse(v.test) == 'self.size > 256'
            rot = ([int(e.value) for e in v.body.elts], [int(e.value) for e in v.orelse.elts])
        if isinstance(n, ast.Subscript) and isinstance(n.value, ast.Subscript) and ast.unparse(n.value.value) == 'sigma':
            idx = n.value.slice
            assert isinstance(idx, ast.BinOp) and isinstance(idx.op, ast.Mod) and ast.unparse(idx.left) == 'r'
            sigmod = int(idx.right.value)
            assert ast.unparse(n.slice) == 'ii:ii + 2'
    assert rot and len(rot[0]) == 4 and len(rot[1]) == 4 and sigmod
    # the order in which G uses the four rotation amounts
    rors = [ast.unparse(n.args[1]) for n in ast.walk(g)
            if isinstance(n, ast.Call) and getattr(n.func, 'id', None) == 'ror']
    assert sorted(rors) == ['xx[0]', 'xx[1]', 'xx[2]', 'xx[3]']
    loop = [n for n in ast.walk(upd) if isinstance(n, ast.For) and ast.unparse(n.iter) == 'range(self.rounds)'][0]
    sched = []
    for st in loop.body:
        c = st.value
        assert isinstance(st, ast.Expr) and isinstance(c, ast.Call) and c.func.id == 'G'
        a = c.args
        assert [ast.unparse(x) for x in a[:2]] == ['W', 'r'] and ast.unparse(a[3]) == 'v'
        sched.append([int(a[2].value)] + [int(x.value) for x in a[4:8]])
    assert len(sched) == 8
    return rot, sigmod, sched


def blakeg(repo):
    from crysp import blake
    out = header('BlakeG', ['crysp/blake.py', 'crysp/sha.py'])
    out += lean_nat_table('sigma', blake.sigma)
    out += lean_nat_list('pi64', blake.PI, per_line=4)
    for n in (224, 256, 384, 512):
        h = blake.Blake(n)
        h.initstate(0)
        assert h.c.size == h.wsize and h.IV.size == h.wsize
        out += lean_nat_list('c%d' % n, h.c.ival, per_line=4)
        out += lean_nat_list('iv%d' % n, h.IV.ival, per_line=4)
        out += 'def rounds%d : Nat := %d\n' % (n, h.rounds)
        out += 'def geom%d : List Nat := [%d, %d, %d]\n' % (n, h.blocksize, h.wsize, h.outlen)
    for n in (256, 512):
        h = blake.Blake2(n)
        h.initstate()
        assert h.IV.size == h.wsize
        out += lean_nat_list('b2iv%d' % n, h.IV.ival, per_line=4)
        out += 'def b2rounds%d : Nat := %d\n' % (n, h.rounds)
        out += 'def b2geom%d : List Nat := [%d, %d, %d]\n' % (n, h.blocksize, h.wsize, h.outlen)
    (r64, r32), m1, s1 = _g_facts(blake.Blake)
    (q64, q32), m2, s2 = _g_facts(blake.Blake2)
    out += lean_nat_list('rot32', r32) + lean_nat_list('rot64', r64)
    out += lean_nat_list('b2rot32', q32) + lean_nat_list('b2rot64', q64)
    out += 'def sigmaMod : Nat := %d\ndef b2sigmaMod : Nat := %d\n' % (m1, m2)
    out += lean_nat_table('gsched', s1) + lean_nat_table('b2gsched', s2)
    return out + footer('BlakeG')


ITEMS = {'BlakeG': blakeg}
