"""Gen item `Serpent`: the complete behaviour of the table-driven components of crysp/serpent.py.

  E2  `_IP` / `_FP` probed with the identity vector: an object with `.size == 128` whose `__getitem__(table)` returns the
      requested indices, so the result IS the index table the code uses (128 entries each); cross-checked on the 128 unit
      vectors through real `Bits` (output bit j = input bit table[j]).
  E2  `_S(i,.)` / `_Sinv(i,.)` for the 8 boxes on all 16 nibble values, probed through the real bitslice interface: the
      128-bit word whose 32 columns all hold the nibble v (and one mixed word whose column k holds k mod 16); the value is
      read back from every column and all columns must agree, so the table is the complete behaviour of the box at every
      bit position.
  E3  the literal rotation / shift amounts of `_L` and `_Linv` (order of appearance), the word indices they act on,
      phi, the prekey recurrence offsets, the rotation amount 11, the loop bounds of the key schedule, `_keysched`'s range.
"""
import ast, inspect
from extract import header, footer, lean_nat_list, lean_nat_table, lean_int_list


class _Identity(object):
    """X with X[table] == table (the identity vector 0..127)"""
    size = 128
    def __getitem__(self, t):
        return [int(x) for x in t]


def _col_word(nibs):
    """128-bit bitslice word whose column k holds nibble nibs[k] (bit m of the nibble in 32-bit word m)"""
    v = 0
    for k, n in enumerate(nibs):
        for m in range(4):
            if (n >> m) & 1: v |= 1 << (32 * m + k)
    return v


def _cols(v):
    return [sum(((v >> (32 * m + k)) & 1) << m for m in range(4)) for k in range(32)]


def _probe_perm(f, Bits):
    t = f(_Identity())
    if sorted(t) != list(range(128)): raise ValueError('not a permutation of 0..127')
    for p in range(128):
        y = f(Bits(1 << p, 128))
        if y.size != 128 or y.ival != (1 << t.index(p)): raise ValueError('unit vector %d disagrees with the table' % p)
    return t


def _probe_box(f, i, Bits):
    row = []
    for v in range(16):
        y = f(i, Bits(_col_word([v] * 32), 128))
        c = _cols(y.ival)
        if y.size != 128 or len(set(c)) != 1: raise ValueError('box %d value %d: columns disagree' % (i, v))
        row.append(c[0])
    mixed = [(k * 7 + i) % 16 for k in range(32)]
    y = f(i, Bits(_col_word(mixed), 128))
    if _cols(y.ival) != [row[n] for n in mixed]: raise ValueError('box %d: mixed columns disagree' % i)
    return row


def _fn(mod, name):
    src = inspect.getsource(getattr(mod, name))
    import textwrap
    return ast.parse(textwrap.dedent(src)).body[0]


def _lin_consts(fn, rname):
    """(rotation amounts, word indices rotated, shift amounts, word indices shifted) in order of appearance"""
    rots, ridx, shs, sidx = [], [], [], []
    for st in fn.body:
        for n in ast.walk(st):
            if isinstance(n, ast.Call) and isinstance(n.func, ast.Name) and n.func.id in ('rol', 'ror'):
                if n.func.id != rname: raise ValueError('unexpected %s in %s' % (n.func.id, fn.name))
                rots.append(ast.literal_eval(n.args[1])); ridx.append(ast.literal_eval(n.args[0].slice))
            if isinstance(n, ast.BinOp) and isinstance(n.op, ast.LShift):
                shs.append(ast.literal_eval(n.right)); sidx.append(ast.literal_eval(n.left.slice))
            if isinstance(n, ast.BinOp) and isinstance(n.op, ast.RShift): raise ValueError('unexpected >>')
    return rots, ridx, shs, sidx


def _keysched_consts(mod):
    init = None
    for n in ast.walk(ast.parse(inspect.getsource(mod))):
        if isinstance(n, ast.ClassDef) and n.name == 'Serpent':
            init = [f for f in n.body if isinstance(f, ast.FunctionDef) and f.name == '__init__'][0]
    phi = None; offs = []; rot = None; loops = []
    for n in ast.walk(init):
        if isinstance(n, ast.Assign) and isinstance(n.targets[0], ast.Name) and n.targets[0].id == 'phi':
            phi = (ast.literal_eval(n.value.args[0]), ast.literal_eval(n.value.args[1]))
        if isinstance(n, ast.Call) and isinstance(n.func, ast.Name) and n.func.id == 'rol':
            rot = ast.literal_eval(n.args[1])
            for s in ast.walk(n.args[0]):
                if isinstance(s, ast.Subscript) and isinstance(s.value, ast.Name) and s.value.id == 'prekey':
                    offs.append(ast.literal_eval(s.slice))
        if isinstance(n, ast.For):
            loops.append([ast.literal_eval(a) for a in n.iter.args])
    ks = _fn(mod, '_keysched')
    kr = [[ast.literal_eval(a) for a in n.iter.args] for n in ast.walk(ks) if isinstance(n, ast.For)]
    return phi, sorted(offs), rot, loops, kr


def serpent(repo):
    from crysp import serpent as sp
    from crysp.bits import Bits
    ip = _probe_perm(sp._IP, Bits)
    fp = _probe_perm(sp._FP, Bits)
    sb = [_probe_box(sp._S, i, Bits) for i in range(8)]
    si = [_probe_box(sp._Sinv, i, Bits) for i in range(8)]
    lrot, lridx, lsh, lsidx = _lin_consts(_fn(sp, '_L'), 'rol')
    irot, iridx, ish, isidx = _lin_consts(_fn(sp, '_Linv'), 'ror')
    phi, offs, rot, loops, kr = _keysched_consts(sp)
    if phi is None or rot is None or len(offs) != 4 or len(loops) != 2 or len(kr) != 1: raise ValueError('key schedule shape')
    return (header('Serpent', ['crysp/serpent.py'])
            + lean_nat_list('ipTable', ip) + lean_nat_list('fpTable', fp)
            + lean_nat_table('sbox', sb) + lean_nat_table('sboxInv', si)
            + lean_nat_list('lRot', lrot) + lean_nat_list('lRotIdx', lridx)
            + lean_nat_list('lShift', lsh) + lean_nat_list('lShiftIdx', lsidx)
            + lean_nat_list('linvRot', irot) + lean_nat_list('linvRotIdx', iridx)
            + lean_nat_list('linvShift', ish) + lean_nat_list('linvShiftIdx', isidx)
            + 'def phi : Nat := %d\ndef phiSize : Nat := %d\n' % phi
            + lean_int_list('prekeyOffsets', offs)
            + 'def prekeyRot : Nat := %d\n' % rot
            + lean_nat_list('keyWordsRange', loops[0]) + lean_nat_list('prekeyRange', loops[1])
            + lean_int_list('keyschedRange', kr[0])
            + 'def blocksize : Nat := %d\n' % sp.Serpent.blocksize
            + footer('Serpent'))


ITEMS = {'Serpent': serpent}
