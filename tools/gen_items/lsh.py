"""Gen item `Lsh`: data of crysp/tlsh.py and crysp/nilsimsa.py read from the live code.

  E1  tlsh.PEARSON_T, TLSH.MIN_DATA_LENGTH, Nilsimsa().tran (default target 53)
  E2  TLSH.triplet probed on an 8-byte identity window: the complete list of (salt, lag, lag, lag) the generator
      can yield (lag k = `data[-k]`); per window size 4..8 how many of them are yielded before the IndexError
  E2  the body scoring of tlsh.distance probed on all 4x4 pairs of 2-bit codes (digests differing in one code byte)
"""
from extract import header, footer, lean_nat_list, lean_nat_table


def lsh(repo):
    from crysp import tlsh, nilsimsa
    T = list(tlsh.PEARSON_T)
    assert len(T) == 256
    # triplets: window bytes 8,7,...,1 so that data[-k] == k
    ident = bytes(range(8, 0, -1))
    trip = [list(t) for t in tlsh.TLSH(128, 8).triplet(ident)]
    counts = []
    for w in (4, 5, 6, 7, 8):
        tw = [list(t) for t in tlsh.TLSH(128, w).triplet(ident[8 - w:])]
        assert tw == trip[:len(tw)]
        counts.append(len(tw))
    # body scoring table: 15-byte digests (48 buckets, 1 checksum byte) that differ in the last byte only
    base = bytes(14)
    pair = [[tlsh.distance(base + bytes([a]), base + bytes([b])) for b in range(4)] for a in range(4)]
    m1, m2 = tlsh.TLSH(128).MIN_DATA_LENGTH
    tran = list(nilsimsa.Nilsimsa().tran)
    assert len(tran) == 256
    return (header('Lsh', ['crysp/tlsh.py', 'crysp/nilsimsa.py'])
            + lean_nat_list('pearsonT', T)
            + '\n/-- TLSH.triplet probed on the identity window: (salt, lag a, lag b, lag c), lag k = data[-k] -/\n'
            + lean_nat_table('triplets', trip)
            + '\n/-- number of triplets yielded for window sizes 4,5,6,7,8 -/\n'
            + lean_nat_list('tripletCounts', counts)
            + '\n/-- tlsh.distance on two digests whose only difference is one 2-bit code a vs b -/\n'
            + lean_nat_table('bitPairDiff', pair)
            + '\ndef minLen : Nat := %d\ndef minLenNoForce : Nat := %d\n' % (m1, m2)
            + '\n/-- Nilsimsa().tran (default target 53) -/\n'
            + lean_nat_list('tran53', tran)
            + footer('Lsh'))


ITEMS = {'Lsh': lsh}
