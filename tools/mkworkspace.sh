#!/bin/bash
# tools/mkworkspace.sh <name> — private workspace for one builder: worktrees of /verif and /repo under /tmp/w/<name>
set -e
n="$1"; W=/tmp/w/$n
mkdir -p /tmp/w
git -C /verif worktree add -q -B ws-$n $W/verif HEAD
git -C /repo worktree add -q -B ws-$n $W/repo HEAD
cp -r /verif/lean/.lake $W/verif/lean/.lake 2>/dev/null || true
echo "W=$W"
