#!/bin/bash
# tools/mutant_test.sh <patch.diff> <Cxx> [tier]: apply a seeded change to /repo, run the check, undo. Prints the verdict.
p="$1"; c="$2"; t="${3:-quick}"
cd /verif
git -C /repo apply "$p" || { echo "PATCH DOES NOT APPLY: $p"; exit 3; }
out=$(./check $c $t 2>&1); rc=$?
git -C /repo checkout -- .; git -C /verif checkout -- evidence/$c.json 2>/dev/null
echo "$out" | grep -E "VIOLATION|KNOWN|INFRA|obligations" | cut -c1-400
echo "mutant=$p check=$c tier=$t rc=$rc"
