#!/bin/bash
# tools/integrate.sh <name>: merge a builder's branches (ws-<name>) into /verif main and /repo main
n="$1"
cd /repo || exit 1
for c in $(git cherry main ws-$n | grep '^+' | cut -c3-); do
  if git cherry-pick $c >/tmp/cp.out 2>&1; then echo "repo: picked $(git log --oneline -1 $c)"; 
  elif grep -q "nothing to commit\|previous cherry-pick is now empty" /tmp/cp.out; then git cherry-pick --skip; echo "repo: skipped (already applied) $(git log --oneline -1 $c)";
  else echo "repo: CONFLICT on $c"; cat /tmp/cp.out; exit 1; fi
done
cd /verif || exit 1
git checkout -- evidence 2>/dev/null
if ! git merge -q --no-edit ws-$n >/tmp/mg.out 2>&1; then
  for f in $(git diff --name-only --diff-filter=U); do
    case $f in evidence/*) git checkout --ours $f 2>/dev/null || git rm -q --cached $f; git add $f 2>/dev/null;; *) echo "verif: CONFLICT $f";; esac
  done
  if [ -z "$(git diff --name-only --diff-filter=U)" ]; then git commit -qm "merge ws-$n" || { cat /tmp/mg.out; exit 1; }; else cat /tmp/mg.out; exit 1; fi
fi
echo "verif: merged ws-$n -> $(git log --oneline -1)"
