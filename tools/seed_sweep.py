#!/venv/bin/python
"""seed_sweep.py [ids…] — run every seeded change (seeded/<id>/patch.diff) against its property's registered quick check
and record the verdict in seeded/<id>/meta.json (`detected`, `verdict`, `check_rc`, `swept_at`).
The patch is applied to the repo named by VERIF_REPO (default /repo) and undone straight afterwards; nothing else may use
that working tree meanwhile.  Run it from a private pair of worktrees (tools/mkworkspace.sh sweep) to keep /repo untouched."""
import os, sys, json, glob, subprocess, re, time
ROOT = os.path.dirname(os.path.dirname(os.path.abspath(__file__)))
REPO = os.environ.get('VERIF_REPO', '/repo')

def sh(cmd, **kw):
    return subprocess.run(cmd, stdout=subprocess.PIPE, stderr=subprocess.STDOUT, text=True, **kw)

def main():
    ids = [a for a in sys.argv[1:] if not a.startswith('--')] or sorted(os.path.basename(d) for d in glob.glob(os.path.join(ROOT, 'seeded', '*')))
    head = sh(['git', '-C', ROOT, 'rev-parse', '--short', 'HEAD']).stdout.strip()
    for i in ids:
        d = os.path.join(ROOT, 'seeded', i)
        prop = i.split('-')[0]
        meta = json.load(open(os.path.join(d, 'meta.json')))
        if sh(['git', '-C', REPO, 'status', '--porcelain', '--untracked-files=no']).stdout.strip():
            print('repo not clean, abort'); sys.exit(3)
        a = sh(['git', '-C', REPO, 'apply', os.path.join(d, 'patch.diff')])
        if a.returncode != 0:
            meta.update(detected=None, verdict='patch no longer applies to the current /repo (later fix: commits touched the same lines)', check_rc=None)
        else:
            t = time.time()
            try:
                r = sh([os.path.join(ROOT, 'check'), prop, 'quick'], env=dict(os.environ, VERIF_REPO=REPO), timeout=3600)
                out, rc = r.stdout, r.returncode
            except subprocess.TimeoutExpired:
                out, rc = 'TIMEOUT', 2
            finally:
                sh(['git', '-C', REPO, 'checkout', '--', '.'])
            v = [l for l in out.splitlines() if l.startswith('VIOLATION')]
            line = ''
            if v:
                m = re.search(r'replay=(\S+)', v[0])
                try:
                    rp = json.load(open(os.path.join(ROOT, m.group(1))))
                    line = rp.get('line') or ('; '.join(rp.get('broken_obligations', []) + rp.get('tie_broken', [])))
                except Exception:
                    pass
            if rc == 1 and v:
                nf = 'no-failing-input-found' in v[0]
                verdict = ('detected by ./check %s quick: VIOLATION%s; replay input: %s' % (prop, ' (no-failing-input-found)' if nf else ' with a failing input', line[:200]))
                meta.update(detected=True, verdict=verdict, check_rc=rc)
            else:
                meta.update(detected=False, verdict='NOT detected by ./check %s quick (exit %s)' % (prop, rc), check_rc=rc)
                # does the check of another property anchored in the same files report it?
                files = set(re.findall(r'^\+\+\+ b/(\S+)', open(os.path.join(d, 'patch.diff')).read(), re.M))
                others = [json.loads(l) for l in open(os.path.join(ROOT, 'properties.jsonl'))]
                cands = [o['id'] for o in others if o['id'] != prop and (files & set(o['anchors']['files']) or o['id'] == 'C10')
                         and os.path.exists(os.path.join(ROOT, 'tools', 'props', o['id'] + '.py'))]
                pref = ['C10', 'C09', 'C01', 'C08', 'C07', 'C16']
                cands.sort(key=lambda c: (pref.index(c) if c in pref else 99, c))
                for oc in cands[:6] if '--others' in sys.argv else []:
                    sh(['git', '-C', REPO, 'apply', os.path.join(d, 'patch.diff')])
                    try:
                        r2 = sh([os.path.join(ROOT, 'check'), oc, 'quick'], env=dict(os.environ, VERIF_REPO=REPO), timeout=3600)
                    finally:
                        sh(['git', '-C', REPO, 'checkout', '--', '.'])
                    v2 = [l for l in r2.stdout.splitlines() if l.startswith('VIOLATION')]
                    if r2.returncode == 1 and v2:
                        meta['verdict'] += '; but detected by ./check %s quick (%s)' % (oc, 'no-failing-input-found' if 'no-failing-input-found' in v2[0] else 'failing input')
                        meta['detected_by_other'] = oc
                        break
            meta['sweep_wall_s'] = round(time.time() - t, 1)
        meta['swept_at'] = head
        json.dump(meta, open(os.path.join(d, 'meta.json'), 'w'), indent=1)
        print(i, meta.get('detected'), meta.get('verdict', '')[:150], flush=True)

if __name__ == '__main__':
    main()
