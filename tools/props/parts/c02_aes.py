"""C02, AES part — AES-128/192/256 encrypt/decrypt exactly as FIPS 197; undefined sizes are rejected; the exposed
gmul equals multiplication in GF(2^8) = GF(2)[x]/(x^8+x^4+x^3+x+1) for every pair of bytes.

run_impl executes the op line on the real crysp.aes.  check_impl is the property's own predicate: an independent
FIPS-197 reference (parts/aes_common.py, sharing nothing with crysp or the Lean files) evaluated on the same input;
wrong sizes must be refused."""
from props.common import *
from props.parts import aes_common as C
from props.parts.aes_common import run_impl, shrink

PREFIX = ('aes.',)
# the property theorems; then the modules whose kernel enumerations they rest on (each `rows` = 4096 gmul pairs), so that the
# thorough tier's leanchecker re-checks those too
LEAN_PROOFS = ['Proofs.C02_Aes', 'Proofs.C02_Aes.SpecFacts'] + ['Proofs.C02_Aes.Gmul%02d' % i for i in range(16)]
GEN_ITEMS = ['Aes']
RULE = ('AES: op lines = (operation, key, block/state) — FIPS 197 App. B/C and SP 800-38A vectors, all-zero/all-one/identity keys and '
        'blocks, single-bit keys and blocks, keys with zero/all-one words, seeded random per key size, every wrong key/block size; '
        'gmul on all 65 536 byte pairs (thorough) or all pairs with a 0/1 operand + a seeded sample (quick); component '
        'transformations on structured, byte-sweep and random states; distinct lines; non-trivial = the implementation returned a value')
TRUSTED = ['Spec.Aes is trusted as a rendering of FIPS 197 (validated against FIPS 197 App. B/C and SP 800-38A F.1 known answers in the kernel, '
           'and against the independent Python reference of tools/props/parts/aes_common.py on every correspondence line)',
           'Model.Aes represents byte-ring Poly objects by their coefficient lists (Poly plumbing of aes.py rendered on lists; validated by the correspondence stream)']
ASSUMPTIONS = ['AES keys, blocks and states are passed as bytes objects; gmul operands are non-negative ints',
               'python -O (asserts stripped) is out of scope']


def check_impl(line, res):
    t = line.split(); op, a = t[0], t[1:]
    bad = lambda why: '%s: %s' % (op, why)
    if op in ('aes.enc', 'aes.dec'):
        k, b = unhx(a[0]), unhx(a[1])
        if len(k) not in C.KEYLENS or len(b) != 16:
            return None if res == 'ERR' else bad('a %d-byte key with a %d-byte block must be rejected, got %s' % (len(k), len(b), res[:40]))
        exp = hx(C.ref_enc(k, b) if op == 'aes.enc' else C.ref_dec(k, b))
        return None if res == exp else bad('FIPS 197 gives %s' % exp)
    if op == 'aes.gmul':
        x, y = int(a[0]), int(a[1])
        if x < 256 and y < 256:
            exp = C.ref_mul(x, y)
            if res != str(exp): return bad('%d*%d in GF(2^8) is %d, got %s' % (x, y, exp, res))
            if y == 1 and res != str(x): return bad('gmul(a,1) != a')
            if x == 1 and res != str(y): return bad('gmul(1,b) != b')
            if (x == 0 or y == 0) and res != '0': return bad('product with 0 is not 0')
        return None
    if op == 'aes.gmulc':
        x, y = int(a[0]), int(a[1])
        if x < 256 and y < 256:
            l, r = res.split(';')
            if l != r: return bad('gmul(%d,%d) = %s but gmul(%d,%d) = %s' % (x, y, l, y, x, r))
            if l != str(C.ref_mul(x, y)): return bad('%d*%d in GF(2^8) is %d, got %s' % (x, y, C.ref_mul(x, y), l))
        return None
    if op == 'aes.keyschedule':
        k = unhx(a[0])
        if len(k) not in C.KEYLENS: return None if res == 'ERR' else bad('key size must be rejected')
        exp = hx(b''.join(C.ref_expand(k)))
        return None if res == exp else bad('FIPS 197 key expansion differs')
    if op == 'aes.addroundkey':
        s, rk = unhx(a[0]), unhx(a[1])
        if len(s) == 16 and len(rk) == 16:
            return None if res == hx(C.xorb(s, rk)) else bad('not the xor with the round key')
        return None
    if op.startswith('aes.') and op[4:] in C.COMP:
        name = op[4:]; s = unhx(a[0])
        if len(s) == 16 or name in C.BYTEWISE:
            exp = hx(C.REF_COMP[name](s))
            return None if res == exp else bad('FIPS 197 gives %s' % exp)
        return None
    return None


def block_lines(tier, rng):
    for k, b, tag in C.cipher_cases(('enc', 'dec'), tier, rng):
        yield 'aes.enc %s %s' % (hx(k), hx(b)), 'aes.enc/' + tag
        yield 'aes.dec %s %s' % (hx(k), hx(b)), 'aes.dec/' + tag
    for k, b, tag in C.size_cases(rng):
        yield 'aes.enc %s %s' % (hx(k), hx(b)), 'aes.enc/' + tag
        yield 'aes.dec %s %s' % (hx(k), hx(b)), 'aes.dec/' + tag


def gmul_lines(tier, rng):
    if tier == 'thorough':
        for x in range(256):
            for y in range(256): yield 'aes.gmul %d %d' % (x, y), 'aes.gmul/all-pairs'
    else:
        for x in range(256):
            for y in (0, 1):
                yield 'aes.gmul %d %d' % (x, y), 'aes.gmul/zero-one'
                yield 'aes.gmul %d %d' % (y, x), 'aes.gmul/zero-one'
            for y in (2, 3, 9, 11, 13, 14): yield 'aes.gmul %d %d' % (x, y), 'aes.gmul/mixcolumns-coefficients'
        for _ in range(3000): yield 'aes.gmul %d %d' % (rng.randrange(256), rng.randrange(256)), 'aes.gmul/sample'
    for x, y in ((256, 1), (1, 256), (300, 0), (0, 300), (255, 255), (1000, 1000)):
        yield 'aes.gmul %d %d' % (x, y), 'aes.gmul/out-of-range'
    for _ in range(1000 if tier == 'quick' else 8000):
        yield 'aes.gmulc %d %d' % (rng.randrange(256), rng.randrange(256)), 'aes.gmulc/commutativity-sample'
    for x in (0, 1, 2, 255): yield 'aes.gmulc %d %d' % (x, 255 - x), 'aes.gmulc/commutativity-sample'


def comp_lines(tier, rng):
    for s, tag in C.states(tier, rng):
        for name in C.COMP: yield 'aes.%s %s' % (name, hx(s)), 'aes.component/' + tag
        yield 'aes.addroundkey %s %s' % (hx(s), hx(C.rb(rng, 16))), 'aes.addroundkey/' + tag
    allb = bytes(range(256))
    for name in C.BYTEWISE: yield 'aes.%s %s' % (name, hx(allb)), 'aes.component/all-256-bytes'
    for n in (0, 1, 4, 15, 17, 20, 32):          # malformed states: code vs model only (the standard defines 16 bytes)
        s = C.rb(rng, n)
        for name in C.COMP: yield 'aes.%s %s' % (name, hx(s)), 'aes.component/malformed-length'
        yield 'aes.addroundkey %s %s' % (hx(s), hx(C.rb(rng, 16))), 'aes.addroundkey/malformed-length'
        yield 'aes.addroundkey %s %s' % (hx(C.rb(rng, 16)), hx(s)), 'aes.addroundkey/malformed-length'


def ks_lines(tier, rng):
    for n in C.KEYLENS:
        for key in (bytes(n), b'\xff' * n, bytes(range(n))): yield 'aes.keyschedule ' + hx(key), 'aes.keyschedule/structured'
        for _ in range(20 if tier == 'quick' else 400): yield 'aes.keyschedule ' + hx(C.rb(rng, n)), 'aes.keyschedule/random-%d' % (8 * n)
    for k, _, _ in C.FIPS: yield 'aes.keyschedule x' + k, 'aes.keyschedule/fips'
    for n in C.BAD_KEYLENS: yield 'aes.keyschedule ' + hx(C.rb(rng, n)), 'aes.keyschedule/bad-key-size'


def cases(tier, rng):
    if tier == 'search':
        while True:
            n = rng.choice(C.KEYLENS)
            k, b = C.rb(rng, n), C.rb(rng, 16)
            yield 'aes.enc %s %s' % (hx(k), hx(b)), 'search'
            yield 'aes.dec %s %s' % (hx(k), hx(b)), 'search'
            yield 'aes.keyschedule ' + hx(k), 'search'
            yield 'aes.gmul %d %d' % (rng.randrange(256), rng.randrange(256)), 'search'
            yield 'aes.gmulc %d %d' % (rng.randrange(256), rng.randrange(256)), 'search'
            yield 'aes.%s %s' % (rng.choice(C.COMP), hx(b)), 'search'
            if rng.random() < 0.1:
                yield 'aes.enc %s %s' % (hx(C.rb(rng, rng.choice(C.BAD_KEYLENS))), hx(b)), 'search'
                yield 'aes.enc %s %s' % (hx(k), hx(C.rb(rng, rng.choice(C.BAD_BLOCKLENS)))), 'search'
        return
    yield from block_lines(tier, rng)
    yield from gmul_lines(tier, rng)
    yield from comp_lines(tier, rng)
    yield from ks_lines(tier, rng)
