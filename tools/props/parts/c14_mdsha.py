"""C14 part — piecewise hashing of MD4/MD5/SHA-0/SHA-1/SHA-2 objects equals the one-shot call.
`hashseq` lines carry a spec column (the standard digest of the concatenation, the serialised chaining value and the
bit count after every block-aligned piece); `hashseqc` lines compare the complete padding state code<->model after every
step, including refused steps.  check_impl: the final result equals the one-shot call of a fresh object on the
concatenation, and bitcnt after every non-final piece is the number of bits fed so far.  Pieces may carry their bit
length (`upd <hex> <L>`, `fin <hex> <L>`: the first L bits of the buffer count, L = 0 on a non-empty buffer included) and
a line may re-initialise the object (`init` = h.initstate()) after an abandoned / finished / refused stream: the run after
the last `init` is compared with the one-shot call of a FRESH object, the bit counter right after `init` must be 0.
`hashseqs <alg0>,<alg1>,… | <k> new | <k> <step> | env <name> | …` lines keep SEVERAL objects alive (hashcommon.run_multi): the
steps of object k, taken alone, must satisfy the same predicate whatever the other objects and the library do in between.  In
Lean the objects are values in a list (Model.Multi): there siblings cannot interfere by construction."""
import itertools
from props.common import *
from props import hashcommon as HC

PREFIX = ('hashseq',)
LEAN_PROOFS = ['Proofs.C14']
GEN_ITEMS = ['Hashes']
TRUSTED = []
RULE = ('`hashseq` pieces with explicit bit lengths: a message streamed through one reused buffer of 1-2 blocks (every piece = the whole '
        'buffer + its valid bits; 0 bits of a non-empty buffer at the end / on an empty read), L = 0 on data and L = 8n of a longer '
        'buffer on final and non-final pieces; histories `… | init | upd* fin` after 1..3 abandoned blocks, a finished or a refused '
        'stream (bit counter observed after init), or a complete earlier life of the object (one-shot calls plain / with the optional bit '
        'length / refused, a finished stream, a step refused after the final one, several in a row); `hashseqs <algs> | <k> new | <k> step | '
        'env <name>`: SEVERAL objects alive in one line — a second object of the same class or of another class with the same block '
        'geometry (SHA-1/SHA-256/SHA-224/SHA-0, SHA-512/SHA-384/SHA-512-t, MD4/MD5, MD5/SHA-1) constructed, initialised, fed, called, '
        'finished, refused or re-initialised BETWEEN two pieces, two and three complete streams interleaved piece by piece (fixed and '
        'random interleavings), library activity on no object of the line (other hash objects, HMAC, Blake/Blake2 objects and singletons) '
        'between two pieces; every stream compared with its own one-shot call on a fresh object and the standard digest of its own pieces. '
        'The Lean objects are values in a list (Model.Multi; Proofs.C14.siblings_do_not_interfere): siblings cannot interfere there by '
        'construction, the lines test that the Python objects share no counter / padding object')
ASSUMPTIONS = ['padmethod.bitcnt after the FINAL piece is 0 when the padding spilled into an extra block (C09: zero for a pad-only block): compared code<->model only']

run_impl = HC.run_impl


def parse(line):
    steps = HC.split_bar(line.split()[1:])
    return steps[0][0], steps[1:]


def piece_of(st):
    """(buffer, bit length or None) of an upd / fin step"""
    return unhx(st[1]), (unoi(st[2]) if len(st) > 2 else None)


def check_steps(op, alg, steps, outs, who=''):
    """the predicate on the steps of ONE object and what was printed after each of them"""
    kinds = [s[0] for s in steps]
    # the property's shape: [anything … init] upd* fin — what was done to the object before the last `init` (an abandoned or
    # a finished stream, complete one-shot calls with or without a bit length, refused steps) must not matter; every piece may
    # carry its bit length: the first L bits of the buffer count (L = 0: nothing, whatever the buffer holds); non-final pieces
    # are whole blocks
    inits = [i for i, k in enumerate(kinds) if k in ('init', 'new')]           # `new` (hashseqs): the constructor ends with initstate()
    start = inits[-1] + 1 if inits else 0
    run = steps[start:]
    if not (run and run[-1][0] == 'fin' and all(s[0] == 'upd' for s in run[:-1])): return None
    B = HC.blocklen(alg)
    pieces = [piece_of(s) for s in run]
    eff = [8 * len(p) if L is None else L for p, L in pieces]
    if any(L > 8 * len(p) for (p, _), L in zip(pieces, eff)): return None          # refusals: C01 / the hashseqc lines
    if any(L % (8 * B) for L in eff[:-1]): return None
    bad = lambda why: '%s %s%s pieces(bits) %s%s: %s' % (op, alg, who, ['%d/%d' % (8 * len(p), L) for (p, _), L in zip(pieces, eff)],
                                                        ' after the steps (%s) on the object' % ' '.join(kinds[:start]) if start else '', why)
    if len(outs) != len(steps): return bad('%d results for %d steps' % (len(outs), len(steps)))
    cnt_of = lambda o: int(o.split(',')[2 if op == 'hashseqc' else 1])
    if start and cnt_of(outs[start - 1]) != 0: return bad('bitcnt %d right after initstate()' % cnt_of(outs[start - 1]))
    if any(o.startswith('ERR') for o in outs[start:]): return bad('a step was refused')
    fed = 0
    for L, o in zip(eff[:-1], outs[start:-1]):
        fed += L
        if cnt_of(o) != fed: return bad('bitcnt %d after %d bits' % (cnt_of(o), fed))
    # one-shot on a fresh object, on the concatenation of the first L bits of every piece (no bit length when whole bytes)
    M = b''.join(p[:L // 8] for (p, _), L in zip(pieces[:-1], eff[:-1])) + pieces[-1][0][:(eff[-1] + 7) // 8]
    total = fed + eff[-1]
    one = HC.run_hash([alg, hx(M), 'None' if total % 8 == 0 else str(total)])
    if outs[-1].split(',')[0] != one: return bad('differs from the one-shot digest %s of the %d-bit concatenation' % (one, total))
    # a complete one-shot call in the earlier life of the object is the call of a fresh object too
    for s, o in zip(steps[:start], outs[:start]):
        if s[0] == 'call' and (s[2] == 'None' or 0 < int(s[2]) <= 8 * len(unhx(s[1]))) and o.split(',')[0] != HC.run_hash([alg, s[1], s[2]]):
            return bad('an earlier call on the object differs from the same call on a fresh object')
    return None


def parse_multi(line):
    """hashseqs line -> (algs, [(k | None for env, step tokens)])"""
    steps = HC.split_bar(line.split()[1:])
    return steps[0][0].split(','), [(None, st) if st[0] == 'env' else (int(st[0]), st[1:]) for st in steps[1:]]


def check_impl(line, res):
    op = line.split()[0]
    outs = res.split(';')
    if op == 'hashseqs':
        # SEVERAL objects alive in one line: every object's stream, taken alone, must satisfy the predicate — whatever the
        # other objects (same class, another class with the same block geometry, the environment) do between its steps
        algs, steps = parse_multi(line)
        if len(outs) != len(steps): return 'hashseqs: %d results for %d steps' % (len(outs), len(steps))
        for j, alg in enumerate(algs):
            own = [(st, o) for (k, st), o in zip(steps, outs) if k == j]
            f = check_steps(op, alg, [st for st, _ in own], [o for _, o in own],
                            ' (object %d of %s; interleaved as %s)' % (j, ','.join(algs), ' '.join('e' if k is None else str(k) for k, _ in steps)))
            if f: return f
        return None
    alg, steps = parse(line)
    return check_steps(op, alg, steps, outs)


def rnd(rng, n): return bytes(rng.getrandbits(8) for _ in range(n))


def cut_sets(nb):
    """all sorted tuples of cut points (in blocks) from {0..nb}, plus each with one repeated point (an empty piece)"""
    pts = list(range(nb + 1))
    out = []
    for r in range(len(pts) + 1):
        for c in itertools.combinations(pts, r):
            out.append(c)
            if c: out.append(tuple(sorted(c + (c[len(c) // 2],))))
    return out


def seq_line(op, alg, m, cuts_bytes):
    ps, prev = [], 0
    for c in cuts_bytes:
        ps.append(m[prev:c]); prev = c
    last = m[prev:]
    return '%s %s | %s' % (op, alg, ' | '.join(['upd ' + hx(p) for p in ps] + ['fin ' + hx(last)]))


def readinto_line(op, alg, M, bufblocks, stall, rng):
    """the message streamed through ONE reused buffer of bufblocks blocks (readinto style): every piece is the whole buffer
    with the number of valid bits; a short read is the final piece (0 bits of a non-empty buffer at the end of a message of
    whole buffers); read number `stall` returns nothing yet (bitlen 0, not the end)"""
    B = HC.blocklen(alg)
    buf = bytearray(rnd(rng, bufblocks * B))            # stale content
    steps, pos, reads = [], 0, 0
    while True:
        if reads == stall: n, last = 0, False
        else:
            chunk = M[pos:pos + len(buf)]; n = len(chunk); buf[:n] = chunk; pos += n
            last = n < len(buf)
        reads += 1
        steps.append('%s %s %d' % ('fin' if last else 'upd', hx(buf), 8 * n))
        if last: return '%s %s | %s' % (op, alg, ' | '.join(steps))


def bitlen_cases(alg, rng, thorough):
    """pieces given with their bit length"""
    B, c = HC.blocklen(alg), HC.cntlen(alg)
    lens = (0, 1, B - c, B - 1, B, B + 5, 2 * B, 3 * B - 1, 4 * B) if thorough else (0, B - 1, B, B + 5, 2 * B)
    for n in lens:
        M = rnd(rng, n)
        for bufblocks in (1, 2):
            for stall in (None, 0, 1):
                yield readinto_line('hashseq', alg, M, bufblocks, stall, rng), 'bitlen:readinto buffer'
    yield readinto_line('hashseqc', alg, rnd(rng, 2 * B), 1, 1, rng), 'bitlen:readinto buffer'
    yield readinto_line('hashseqc', alg, rnd(rng, B + 3), 2, 0, rng), 'bitlen:readinto buffer'
    # single shapes: L = 0 on a non-empty buffer / L = 8n of a longer buffer, on non-final and final pieces, mixed with plain pieces
    b1, b2, junk, t = rnd(rng, B), rnd(rng, 2 * B), rnd(rng, 5), rnd(rng, 7)
    U = lambda m, L=None: 'upd %s' % hx(m) + ('' if L is None else ' %d' % L)
    F = lambda m, L=None: 'fin %s' % hx(m) + ('' if L is None else ' %d' % L)
    S = lambda *st: ('hashseq %s | ' % alg) + ' | '.join(st)
    yield S(F(t, 0)), 'bitlen:0 on data'
    yield S(F(b1 + junk, 0)), 'bitlen:0 on data'
    yield S(U(b1, 0), F(t)), 'bitlen:0 on data'
    yield S(U(b1), F(t, 0)), 'bitlen:0 on data'
    yield S(U(b1), U(b2, 0), F(t, 0)), 'bitlen:0 on data'
    yield S(U(b1, 0), U(b2, 0), F(b'')), 'bitlen:0 on data'
    yield S(U(b1), U(junk, 0), U(b2), F(b1, 0)), 'bitlen:0 on data'
    yield S(U(b1 + junk, 8 * B), F(t)), 'bitlen:8n of a longer buffer'
    yield S(U(b2 + b1, 8 * B), U(b2, 16 * B), F(t)), 'bitlen:8n of a longer buffer'
    yield S(U(b2, 8 * B), U(b1 + junk, 8 * B), F(b2 + t, 8 * B)), 'bitlen:8n of a longer buffer'
    yield S(U(b1, 8 * B), F(b2, 8 * B + 8 * (B - c))), 'bitlen:8n of a longer buffer'
    yield S(U(b1), F(b2 + junk, 16 * B)), 'bitlen:8n of a longer buffer'
    yield S(U(b2, 16 * B), F(b1, 8 * (B - c) - 3)), 'bitlen:8n of a longer buffer'
    # refused (code<->model; C01 has the predicate): a non-final L that is not whole blocks, L beyond the buffer
    yield 'hashseqc %s | %s | %s' % (alg, U(b1, 8), F(t)), 'error:unaligned piece'
    yield 'hashseqc %s | %s | %s' % (alg, U(b1, 8 * B + 8), F(t)), 'error:bitlen>piece'


def history_cases(alg, rng, thorough):
    """ONE object: a stream that is abandoned (blocks fed, never finalised), finished or refused, then initstate() and a
    complete piecewise run; the bit counter is observed right after initstate()"""
    B, c = HC.blocklen(alg), HC.cntlen(alg)
    for k in (1, 2, 3):
        befores = [['upd ' + hx(rnd(rng, k * B))], ['upd ' + hx(rnd(rng, B)) for _ in range(k)]]
        if thorough or k == 1:
            befores += [['upd ' + hx(rnd(rng, k * B)), 'fin ' + hx(rnd(rng, 3))], ['upd ' + hx(rnd(rng, k * B)), 'upd ' + hx(rnd(rng, 3))],
                        ['upd ' + hx(rnd(rng, k * B)), 'fin %s 25' % hx(rnd(rng, 3))], ['upd ' + hx(rnd(rng, k * B)), 'init', 'upd ' + hx(rnd(rng, B))]]
        for bi, before in enumerate(befores):
            full = thorough or bi == 0
            for tl in ((0, 11, B - c) if thorough else (0, 11) if full else (11,)):
                m = rnd(rng, (2 if full else 1) * B + tl)
                for cs in (((), (1,), (2,), (1, 2), (0, 1, 1)) if thorough else ((), (1,), (1, 2), (0, 1, 1)) if full else ((), (1,))):
                    run = seq_line('hashseq', alg, m, [x * B for x in cs]).split(' | ', 1)[1]
                    yield 'hashseq %s | %s | init | %s' % (alg, ' | '.join(before), run), 'history:abandoned stream, init, stream'
        m = rnd(rng, B + 11)
        yield 'hashseqc %s | upd %s | init | upd %s | fin %s' % (alg, hx(rnd(rng, k * B)), hx(m[:B]), hx(m[B:])), 'history:abandoned stream, init, stream'
    yield 'hashseq %s | init | init | fin %s' % (alg, hx(rnd(rng, 3))), 'history:abandoned stream, init, stream'
    # a complete earlier life of the object: one-shot calls (plain, with the optional bit length, refused), a finished stream,
    # a step refused after the final one, several of them in a row — then initstate() and the piecewise run
    m0, t0 = rnd(rng, B + 9), rnd(rng, 3)
    call = lambda m, L=None: 'call %s %s' % (hx(m), 'None' if L is None else L)
    lives = [[call(m0)], [call(m0, 8 * B + 13)], [call(m0, 8 * len(m0) + 8)], ['upd ' + hx(rnd(rng, B)), 'fin ' + hx(t0)],
             ['fin ' + hx(t0), 'upd ' + hx(rnd(rng, B))], [call(m0), 'fin ' + hx(t0)],
             [call(t0, 17), 'init', 'upd ' + hx(rnd(rng, 2 * B)), 'fin %s 9' % hx(t0), call(m0, 8 * len(m0) + 1)]]
    for li, life in enumerate(lives):
        for cs in ((), (1,), (0, 1, 1), (1, 2)) if thorough else ((), (1,), (0, 1, 1)) if li in (0, 1, 3) else ((1,),):
            m = rnd(rng, 2 * B + (11 if li % 2 else B - c))
            run = seq_line('hashseq', alg, m, [x * B for x in cs]).split(' | ', 1)[1]
            yield 'hashseq %s | %s | init | %s' % (alg, ' | '.join(life), run), 'history:complete life (calls, finished, refused), init, stream'
    yield 'hashseqc %s | %s | init | upd %s | fin %s' % (alg, ' | '.join(lives[-1]), hx(rnd(rng, B)), hx(t0)), 'history:complete life (calls, finished, refused), init, stream'


# ---- several objects alive at the same time --------------------------------------------------------------------------------------
# same class / another class with the same block geometry (and, for the padding class, md5 vs sha1)
PAIRS = [('sha256', 'sha256'), ('sha1', 'sha256'), ('sha256', 'sha224'), ('sha1', 'sha0'), ('sha1', 'sha1'), ('sha512', 'sha384'),
         ('sha512', 'sha512'), ('sha512_256', 'sha512'), ('sha384', 'sha512_224'), ('md4', 'md5'), ('md5', 'md5'), ('md4', 'md4'), ('md5', 'sha1')]
ENVS = lambda alg: (['new:' + alg, 'hash:' + alg, 'feed:' + alg, 'done:' + alg, 'hmac:' + alg]
                    + (['blake:256', 'blake:224', 'blake2:256', 'blake.s:256'] if HC.blocklen(alg) == 64 else ['blake:512', 'blake:384', 'blake2:512', 'blake.s:512']))


def stream_steps(alg, rng, nb, tail, extra=None):
    """a complete stream on one object as step token strings: nb one-block pieces (one of them possibly empty / double) and
    the final piece"""
    B = HC.blocklen(alg)
    m = rnd(rng, nb * B + tail)
    cuts = list(range(1, nb + 1))
    if extra == 'empty' and cuts: cuts.insert(rng.randrange(len(cuts)), cuts[rng.randrange(len(cuts))]); cuts.sort()
    if extra == 'double' and len(cuts) > 1: del cuts[rng.randrange(len(cuts) - 1)]
    return seq_line('hashseqs', alg, m, [x * B for x in cuts]).split(' | ')[1:]


def weave(rng, lists):
    """a random interleaving of the step lists (the order within each list is kept) -> [(k, step)]"""
    pos = [0] * len(lists); out = []
    while True:
        live = [k for k, l in enumerate(lists) if pos[k] < len(l)]
        if not live: return out
        k = rng.choice(live); out.append((k, lists[k][pos[k]])); pos[k] += 1


def mline(algs, steps):
    return 'hashseqs %s | %s' % (','.join(algs), ' | '.join(st if k is None else '%d %s' % (k, st) for k, st in steps))


def sibling_cases(rng, thorough):
    """a SECOND object (same class; another class of the same block geometry) is constructed / initialised / fed / called /
    finished / refused BETWEEN two pieces of a stream; two and three complete streams interleaved piece by piece; library
    activity on no object of the line between two pieces.  Every stream is compared with its own one-shot call."""
    for A, Bn in PAIRS:
        algs = [A, Bn]; BA, BB = HC.blocklen(A), HC.blocklen(Bn)
        for tail in ((3, BA - HC.cntlen(A)) if thorough else (3,)):
            a = stream_steps(A, rng, 2, tail); b = stream_steps(Bn, rng, 2, 5)
            mB = hx(rnd(rng, BB + 7))
            yield mline(algs, [(0, 'new'), (0, a[0]), (1, 'new'), (0, a[1]), (0, a[2])]), 'siblings:constructed between two pieces'
            yield mline(algs, [(0, 'new'), (1, 'new'), (0, a[0]), (1, b[0]), (0, a[1]), (1, b[1]), (0, a[2]), (1, b[2])]), 'siblings:two streams piece by piece'
            yield mline(algs, [(0, 'new'), (0, a[0]), (1, 'new'), (1, 'init'), (1, b[0]), (0, a[1]), (1, b[1]), (1, b[2]), (0, a[2])]), 'siblings:constructed, initialised, fed between two pieces'
            yield mline(algs, [(0, 'new'), (0, a[0]), (1, 'new'), (1, 'call %s None' % mB), (0, a[1]), (1, 'call %s %d' % (mB, 8 * BB + 3)), (0, a[2])]), 'siblings:called between two pieces'
            yield mline(algs, [(0, 'new'), (1, 'new'), (0, a[0]), (1, 'fin ' + mB), (0, a[1]), (0, a[2])]), 'siblings:finished between two pieces'
            yield mline(algs, [(0, 'new'), (1, 'new'), (1, b[0]), (0, a[0]), (1, 'upd x0102'), (0, a[1]), (1, 'init'), (0, a[2]), (1, b[0]), (1, b[1]), (1, b[2])]), 'siblings:refused / re-initialised between two pieces'
        for _ in range(12 if thorough else 2):
            la = ['new'] + stream_steps(A, rng, rng.randrange(1, 4), rng.randrange(0, BA), rng.choice([None, 'empty', 'double']))
            lb = ['new'] + rng.choice([[], ['init'], stream_steps(Bn, rng, 1, 2) + ['init']]) + stream_steps(Bn, rng, rng.randrange(1, 4), rng.randrange(0, BB))
            yield mline(algs, weave(rng, [la, lb])), 'siblings:two streams, random interleaving'
    for algs in ([('sha1', 'sha256', 'sha224'), ('sha512', 'sha384', 'sha512'), ('md4', 'md5', 'sha0'), ('sha256', 'sha512', 'md5')]
                 + ([tuple(rng.choice(HC.NAMES) for _ in range(3)) for _ in range(20)] if thorough else [])):
        ls = [['new'] + stream_steps(x, rng, rng.randrange(1, 3), rng.randrange(0, 9)) for x in algs]
        yield mline(algs, weave(rng, ls)), 'siblings:three streams, random interleaving'
    for alg in HC.NAMES:
        a = stream_steps(alg, rng, 2, 3)
        for e in ENVS(alg) if thorough else rng.sample(ENVS(alg), 3) + ['blake:%d' % (256 if HC.blocklen(alg) == 64 else 512)]:
            yield mline([alg], [(0, 'new'), (0, a[0]), (None, 'env ' + e), (0, a[1]), (0, a[2])]), 'siblings:library activity between two pieces'


def cases(tier, rng):
    if tier == 'search':
        while True:
            alg = rng.choice(HC.NAMES); B = HC.blocklen(alg)
            k = rng.randrange(5)
            if k == 4:
                algs = [alg] + [rng.choice([x for x in HC.NAMES if HC.blocklen(x) == B] + [alg]) for _ in range(rng.randrange(1, 3))]
                ls = [['new'] + rng.choice([[], ['init'], ['call x6162 None', 'init']]) + stream_steps(x, rng, rng.randrange(0, 4), rng.randrange(0, B)) for x in algs]
                steps = weave(rng, ls)
                if rng.randrange(3) == 0: steps.insert(rng.randrange(1, len(steps)), (None, 'env ' + rng.choice(ENVS(alg))))
                yield mline(algs, steps), 'search'
                continue
            if k == 0:
                yield readinto_line('hashseq', alg, rnd(rng, rng.choice([0, 1, B, 2 * B, rng.randrange(0, 4 * B)])), rng.choice([1, 2]),
                                    rng.choice([None, 0, 1, 2]), rng), 'search'
                continue
            if k == 1:
                m = rnd(rng, rng.randrange(0, 3) * B + rng.randrange(0, B))
                cuts = sorted(rng.randrange(0, len(m) // B + 1) * B for _ in range(rng.randrange(0, 3)))
                before = ['upd ' + hx(rnd(rng, B)) for _ in range(rng.randrange(1, 4))] + rng.choice([[], ['fin x00'], ['upd x00']])
                yield 'hashseq %s | %s | init | %s' % (alg, ' | '.join(before), seq_line('hashseq', alg, m, cuts).split(' | ', 1)[1]), 'search'
                continue
            nb = rng.randrange(0, 7); m = rnd(rng, nb * B + rng.randrange(0, B + 2))
            cuts = sorted(rng.randrange(0, nb + 1) * B for _ in range(rng.randrange(0, 5)))
            yield seq_line('hashseq', alg, m, cuts), 'search'
        return
    thorough = tier == 'thorough'
    for alg in HC.NAMES:
        B, c = HC.blocklen(alg), HC.cntlen(alg)
        tails = (0, 1, B - c - 1, B - c, B - 1) if thorough else (0, B - c, B - 1)
        for nb in range(0, 5):
            for tl in tails:
                m = rnd(rng, nb * B + tl)
                for cs in cut_sets(nb):
                    if not thorough and nb == 4 and len(cs) > 3 and tl != 0: continue
                    yield seq_line('hashseq', alg, m, [x * B for x in cs]), 'cuts:<=4 blocks'
        # complete padding state after every step (code<->model), a sample of the same shapes
        for nb, tl in ((0, 0), (1, 0), (2, 1), (3, B - c), (2, B - 1)):
            m = rnd(rng, nb * B + tl)
            for cs in cut_sets(nb)[::3]:
                yield seq_line('hashseqc', alg, m, [x * B for x in cs]), 'state:after every step'
        # longer messages, sampled
        for _ in range(3 if not thorough else 30):
            nb = rng.randrange(5, 9 if not thorough else 17)
            m = rnd(rng, nb * B + rng.randrange(0, B))
            cuts = sorted(rng.randrange(0, nb + 1) * B for _ in range(rng.randrange(1, 5)))
            yield seq_line('hashseq', alg, m, cuts), 'cuts:sampled'
        # refused steps: unaligned non-final piece, anything after the final piece, bitlen beyond the piece
        p1, p2 = rnd(rng, B), rnd(rng, 5)
        yield 'hashseqc %s | upd %s | fin %s' % (alg, hx(p2), hx(p1)), 'error:unaligned piece'
        yield 'hashseqc %s | upd %s | upd %s | fin %s' % (alg, hx(p1), hx(p1 + p2), hx(p2)), 'error:unaligned piece'
        yield 'hashseqc %s | fin %s | upd %s' % (alg, hx(p2), hx(p1)), 'error:after final'
        yield 'hashseqc %s | upd %s | fin %s | fin %s' % (alg, hx(p1), hx(p2), hx(p2)), 'error:after final'
        yield 'hashseqc %s | upd %s | fin %s 41' % (alg, hx(p1), hx(p2)), 'error:bitlen>piece'
        # explicit bit length on the final piece (counts the bits of that piece)
        for L in (1, 7, 8 * 5 - 3):
            yield 'hashseq %s | fin %s %d' % (alg, hx(p2), L), 'bitlen on final'
            yield 'hashseq %s | upd %s | fin %s %d' % (alg, hx(p1), hx(p2), L), 'bitlen on final'
            yield 'hashseq %s | upd %s | fin %s %d' % (alg, hx(p1), hx(p1 + p2), 8 * B + L), 'bitlen on final'
        yield from bitlen_cases(alg, rng, thorough)
        yield from history_cases(alg, rng, thorough)
    yield from sibling_cases(rng, thorough)


def shrink(line):
    op = line.split()[0]
    if op == 'hashseqs':
        algs, steps = parse_multi(line)
        for i in range(len(steps)):
            if steps[i][1] != ['new']:
                yield mline(algs, [(k, ' '.join(st)) for k, st in steps[:i] + steps[i + 1:]])
        return
    alg, steps = parse(line)
    if len(steps) > 1:
        for i in range(len(steps) - 1):
            yield '%s %s | %s' % (op, alg, ' | '.join(' '.join(s) for s in steps[:i] + steps[i + 1:]))
