"""C14 part — piecewise hashing of MD4/MD5/SHA-0/SHA-1/SHA-2 objects equals the one-shot call.
`hashseq` lines carry a spec column (the standard digest of the concatenation, the serialised chaining value and the
bit count after every block-aligned piece); `hashseqc` lines compare the complete padding state code<->model after every
step, including refused steps.  check_impl: the final result equals the one-shot call of a fresh object on the
concatenation, and bitcnt after every non-final piece is the number of bits fed so far."""
import itertools
from props.common import *
from props import hashcommon as HC

PREFIX = ('hashseq',)
LEAN_PROOFS = ['Proofs.C14']
GEN_ITEMS = ['Hashes']
TRUSTED = []
ASSUMPTIONS = ['padmethod.bitcnt after the FINAL piece is 0 when the padding spilled into an extra block (C09: zero for a pad-only block): compared code<->model only']

run_impl = HC.run_impl


def parse(line):
    steps = HC.split_bar(line.split()[1:])
    return steps[0][0], steps[1:]


def check_impl(line, res):
    op = line.split()[0]
    alg, steps = parse(line)
    kinds = [s[0] for s in steps]
    # the property's shape: upd* fin, block-aligned upd pieces, no bitlen, no preset
    if not (kinds and kinds[-1] == 'fin' and all(k == 'upd' for k in kinds[:-1]) and len(steps[-1]) == 2): return None
    pieces = [unhx(s[1]) for s in steps]
    B = HC.blocklen(alg)
    if any(len(p) % B for p in pieces[:-1]): return None
    outs = res.split(';')
    bad = lambda why: '%s %s pieces %s: %s' % (op, alg, [len(p) for p in pieces], why)
    if len(outs) != len(steps) or any(o.startswith('ERR') for o in outs): return bad('a step was refused')
    fed = 0
    for p, o in zip(pieces[:-1], outs[:-1]):
        fed += 8 * len(p)
        f = o.split(',')
        cnt = int(f[1]) if op == 'hashseq' else int(f[2])
        if cnt != fed: return bad('bitcnt %d after %d bits' % (cnt, fed))
    one = HC.run_hash([alg, hx(b''.join(pieces)), 'None'])
    if outs[-1].split(',')[0] != one: return bad('differs from the one-shot digest %s' % one)
    return None


def rnd(rng, n): return bytes(rng.getrandbits(8) for _ in range(n))


def cut_sets(nb):
    """all sorted tuples of cut points (in blocks) from {0..nb}, plus each with one repeated point (an empty piece)"""
    pts = list(range(nb + 1))
    out = []
    for r in range(len(pts) + 1):
        for c in itertools.combinations(pts, r):
            out.append(c)
            if c: out.append(tuple(sorted(c + (c[len(c) // 2],))))
    return out


def seq_line(op, alg, m, cuts_bytes):
    ps, prev = [], 0
    for c in cuts_bytes:
        ps.append(m[prev:c]); prev = c
    last = m[prev:]
    return '%s %s | %s' % (op, alg, ' | '.join(['upd ' + hx(p) for p in ps] + ['fin ' + hx(last)]))


def cases(tier, rng):
    if tier == 'search':
        while True:
            alg = rng.choice(HC.NAMES); B = HC.blocklen(alg)
            nb = rng.randrange(0, 7); m = rnd(rng, nb * B + rng.randrange(0, B + 2))
            cuts = sorted(rng.randrange(0, nb + 1) * B for _ in range(rng.randrange(0, 5)))
            yield seq_line('hashseq', alg, m, cuts), 'search'
        return
    thorough = tier == 'thorough'
    for alg in HC.NAMES:
        B, c = HC.blocklen(alg), HC.cntlen(alg)
        tails = (0, 1, B - c - 1, B - c, B - 1) if thorough else (0, B - c, B - 1)
        for nb in range(0, 5):
            for tl in tails:
                m = rnd(rng, nb * B + tl)
                for cs in cut_sets(nb):
                    if not thorough and nb == 4 and len(cs) > 3 and tl != 0: continue
                    yield seq_line('hashseq', alg, m, [x * B for x in cs]), 'cuts:<=4 blocks'
        # complete padding state after every step (code<->model), a sample of the same shapes
        for nb, tl in ((0, 0), (1, 0), (2, 1), (3, B - c), (2, B - 1)):
            m = rnd(rng, nb * B + tl)
            for cs in cut_sets(nb)[::3]:
                yield seq_line('hashseqc', alg, m, [x * B for x in cs]), 'state:after every step'
        # longer messages, sampled
        for _ in range(3 if not thorough else 30):
            nb = rng.randrange(5, 9 if not thorough else 17)
            m = rnd(rng, nb * B + rng.randrange(0, B))
            cuts = sorted(rng.randrange(0, nb + 1) * B for _ in range(rng.randrange(1, 5)))
            yield seq_line('hashseq', alg, m, cuts), 'cuts:sampled'
        # refused steps: unaligned non-final piece, anything after the final piece, bitlen beyond the piece
        p1, p2 = rnd(rng, B), rnd(rng, 5)
        yield 'hashseqc %s | upd %s | fin %s' % (alg, hx(p2), hx(p1)), 'error:unaligned piece'
        yield 'hashseqc %s | upd %s | upd %s | fin %s' % (alg, hx(p1), hx(p1 + p2), hx(p2)), 'error:unaligned piece'
        yield 'hashseqc %s | fin %s | upd %s' % (alg, hx(p2), hx(p1)), 'error:after final'
        yield 'hashseqc %s | upd %s | fin %s | fin %s' % (alg, hx(p1), hx(p2), hx(p2)), 'error:after final'
        yield 'hashseqc %s | upd %s | fin %s 41' % (alg, hx(p1), hx(p2)), 'error:bitlen>piece'
        # explicit bit length on the final piece (counts the bits of that piece)
        for L in (1, 7, 8 * 5 - 3):
            yield 'hashseq %s | fin %s %d' % (alg, hx(p2), L), 'bitlen on final'
            yield 'hashseq %s | upd %s | fin %s %d' % (alg, hx(p1), hx(p2), L), 'bitlen on final'
            yield 'hashseq %s | upd %s | fin %s %d' % (alg, hx(p1), hx(p1 + p2), 8 * B + L), 'bitlen on final'


def shrink(line):
    alg, steps = parse(line)
    op = line.split()[0]
    if len(steps) > 1:
        for i in range(len(steps) - 1):
            yield '%s %s | %s' % (op, alg, ' | '.join(' '.join(s) for s in steps[:i] + steps[i + 1:]))
