"""C03 (DES / TDEA part) — DES and triple-DES are permutations: dec inverts enc and enc inverts dec for every key and
block, the result has the block length, and IP / IPinv are mutual inverses on their entire domain.

check_impl evaluates the round trips and the length law on the implementation's own outputs."""
from props.common import *
from props.parts import desref as R
from props.parts import c02_des as C2

PREFIX = ('des.', 'tdea.')
LEAN_PROOFS = ['Proofs.C03_Des']
GEN_ITEMS = ['Des']
TRUSTED = []
ASSUMPTIONS = ['DES/TDEA keys and blocks are bytes objects']

run_impl = C2.run_impl


def check_impl(line, res):
    t = line.split(); op, a = t[0], t[1:]
    bad = lambda why: '%s: %s' % (op, why)
    if op in ('des.rt.de', 'des.rt.ed', 'tdea.rt.de', 'tdea.rt.ed', 'des.iprt'):
        return C2.check_impl(line, res)
    if op in ('des.len.enc', 'des.len.dec', 'tdea.len.enc', 'tdea.len.dec'):
        m = unhx(a[-1])
        if op.startswith('des.'): ok_sizes = len(unhx(a[0])) == 8
        else:
            bd = R.bundle_of_call(unhx(a[0]), C2.ob(a[1]), C2.ob(a[2]))
            ok_sizes = bd is not None and all(len(k) == 8 for k in bd)
        ok_sizes = ok_sizes and len(m) == 8
        if res == 'ERR': return bad('defined sizes rejected') if ok_sizes else None
        if not ok_sizes: return bad('a size the algorithm does not define was processed')
        return None if int(res) == len(m) else bad('|result| = %s, |block| = %d' % (res, len(m)))
    return None


def cases(tier, rng):
    q = tier == 'quick'
    if tier == 'search':
        while True:
            k = C2.rb(rng, 8); m = C2.rb(rng, 8)
            yield 'des.rt.de %s %s' % (hx(k), hx(m)), 'search'
            yield 'des.rt.ed %s %s' % (hx(k), hx(m)), 'search'
            ks = (C2.rb(rng, 8), C2.rb(rng, 8), C2.rb(rng, 8))
            for form, tag in C2.tdea_forms(*ks):
                yield C2.tline('tdea.rt.de', form, m), 'search'
                yield C2.tline('tdea.rt.ed', form, m), 'search'
            yield 'des.iprt %s' % bt(64, rng.getrandbits(64)), 'search'
        return
    yield from C2.des_core_cases(tier, rng, ops=('des.rt.de', 'des.rt.ed'))
    yield from C2.size_cases(rng, ('des.rt.de', 'des.rt.ed', 'des.len.enc', 'des.len.dec'))
    yield from C2.tdea_cases(tier, rng, ops=('tdea.rt.de', 'tdea.rt.ed'))
    # length law on plain enc/dec
    for _ in range(40 if q else 400):
        k = C2.rb(rng, 8); m = C2.rb(rng, 8)
        yield 'des.len.enc %s %s' % (hx(k), hx(m)), 'des.length'
        yield 'des.len.dec %s %s' % (hx(k), hx(m)), 'des.length'
        ks = (k, C2.rb(rng, 8), C2.rb(rng, 8))
        yield C2.tline('tdea.len.enc', ks, m), 'tdea.length'
        yield C2.tline('tdea.len.dec', (ks[0] + ks[1] + ks[2], None, None), m), 'tdea.length'
    # IP / IPinv on the entire unit basis, extremes, random
    for i in range(64): yield 'des.iprt %s' % bt(64, 1 << i), 'des.iprt.unit'
    for v in (0, (1 << 64) - 1, 0x0123456789abcdef): yield 'des.iprt %s' % bt(64, v), 'des.iprt'
    for _ in range(100 if q else 2000): yield 'des.iprt %s' % bt(64, rng.getrandbits(64)), 'des.iprt.random'
    for n in (63, 65, 0, 32): yield 'des.iprt %s' % bt(n, rng.getrandbits(n) if n else 0), 'des.iprt.size'

shrink = C2.shrink
