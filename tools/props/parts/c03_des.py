"""C03 (DES / TDEA part) — DES and triple-DES are permutations: dec inverts enc and enc inverts dec for every key and
block, the result has the block length, and IP / IPinv are mutual inverses on their entire domain.

check_impl evaluates the round trips and the length law on the implementation's own outputs.  Every round-trip line is
executed by ONE cipher object, which performs both orders and repeats its calls (props/parts/one_object.py)."""
from props.common import *
from props.parts import desref as R
from props.parts import c02_des as C2
from props.parts import one_object as OO

PREFIX = ('des.', 'tdea.')
LEAN_PROOFS = ['Proofs.C03_Des']
GEN_ITEMS = ['Des']
RULE = ('DES/TDEA: round-trip lines des.rt.de/ed, tdea.rt.de/ed over the C02 key/block families and every TDEA calling form — ONE cipher '
        'object per line performs f;finv(f);finv;f(finv);f again —, length law lines, IP/IPinv on the unit basis, extremes, random; '
        'wrong sizes; distinct lines; non-trivial = a value was returned')
TRUSTED = []
ASSUMPTIONS = ['DES/TDEA keys and blocks are bytes objects']

RT = ('des.rt.de', 'des.rt.ed', 'tdea.rt.de', 'tdea.rt.ed')

def run_impl(line):
    """the round-trip lines: ONE DES / TDEA object per line performs the whole chain of props.parts.one_object (both
    orders and the repeated calls); its value is the round trip of the line, annotated when the chain is inconsistent"""
    t = line.split(); op, a = t[0], t[1:]
    if op not in RT: return C2.run_impl(line)
    from crysp import des as D
    def go():
        if op.startswith('des.'):
            o = D.DES(unhx(a[0]))
        else:
            k1, k2, k3 = unhx(a[0]), C2.ob(a[1]), C2.ob(a[2])
            # the calling form is part of the input: omitted arguments are really omitted
            if k2 is None and k3 is None: o = D.TDEA(k1)
            elif k3 is None: o = D.TDEA(k1, k2)
            else: o = D.TDEA(k1, k2, k3)
        m = unhx(a[-1])
        return OO.chain(o, lambda: m, 'enc' if op.endswith('.de') else 'dec')
    return guarded(go)


def check_impl(line, res):
    t = line.split(); op, a = t[0], t[1:]
    bad = lambda why: '%s: %s' % (op, why)
    if op in RT and OO.notes_of(res): return bad(OO.notes_of(res))
    if op in ('des.rt.de', 'des.rt.ed', 'tdea.rt.de', 'tdea.rt.ed', 'des.iprt'):
        return C2.check_impl(line, res)
    if op in ('des.len.enc', 'des.len.dec', 'tdea.len.enc', 'tdea.len.dec'):
        m = unhx(a[-1])
        if op.startswith('des.'): ok_sizes = len(unhx(a[0])) == 8
        else:
            bd = R.bundle_of_call(unhx(a[0]), C2.ob(a[1]), C2.ob(a[2]))
            ok_sizes = bd is not None and all(len(k) == 8 for k in bd)
        ok_sizes = ok_sizes and len(m) == 8
        if res == 'ERR': return bad('defined sizes rejected') if ok_sizes else None
        if not ok_sizes: return bad('a size the algorithm does not define was processed')
        return None if int(res) == len(m) else bad('|result| = %s, |block| = %d' % (res, len(m)))
    return None


def cases(tier, rng):
    q = tier == 'quick'
    if tier == 'search':
        while True:
            k = C2.rb(rng, 8); m = C2.rb(rng, 8)
            yield 'des.rt.de %s %s' % (hx(k), hx(m)), 'search'
            yield 'des.rt.ed %s %s' % (hx(k), hx(m)), 'search'
            ks = (C2.rb(rng, 8), C2.rb(rng, 8), C2.rb(rng, 8))
            for form, tag in C2.tdea_forms(*ks):
                yield C2.tline('tdea.rt.de', form, m), 'search'
                yield C2.tline('tdea.rt.ed', form, m), 'search'
            yield 'des.iprt %s' % bt(64, rng.getrandbits(64)), 'search'
        return
    yield from C2.des_core_cases(tier, rng, ops=('des.rt.de', 'des.rt.ed'))
    yield from C2.size_cases(rng, ('des.rt.de', 'des.rt.ed', 'des.len.enc', 'des.len.dec'))
    yield from C2.tdea_cases(tier, rng, ops=('tdea.rt.de', 'tdea.rt.ed'))
    # length law on plain enc/dec
    for _ in range(40 if q else 400):
        k = C2.rb(rng, 8); m = C2.rb(rng, 8)
        yield 'des.len.enc %s %s' % (hx(k), hx(m)), 'des.length'
        yield 'des.len.dec %s %s' % (hx(k), hx(m)), 'des.length'
        ks = (k, C2.rb(rng, 8), C2.rb(rng, 8))
        yield C2.tline('tdea.len.enc', ks, m), 'tdea.length'
        yield C2.tline('tdea.len.dec', (ks[0] + ks[1] + ks[2], None, None), m), 'tdea.length'
    # IP / IPinv on the entire unit basis, extremes, random
    for i in range(64): yield 'des.iprt %s' % bt(64, 1 << i), 'des.iprt.unit'
    for v in (0, (1 << 64) - 1, 0x0123456789abcdef): yield 'des.iprt %s' % bt(64, v), 'des.iprt'
    for _ in range(100 if q else 2000): yield 'des.iprt %s' % bt(64, rng.getrandbits(64)), 'des.iprt.random'
    for n in (63, 65, 0, 32): yield 'des.iprt %s' % bt(n, rng.getrandbits(n) if n else 0), 'des.iprt.size'

shrink = C2.shrink
