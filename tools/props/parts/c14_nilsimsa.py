"""C14 (Nilsimsa part) — update(a).update(b)….digest() == Nilsimsa()(a|b|…) for every byte cut.

op   nilsimsa.seq <target> | <piece> | <piece> …      pieces are byte strings (may be empty)
run_impl feeds the pieces to ONE object and finishes with digest(); check_impl compares with an independent positional
reference of nilsimsa 0.2.4 on the concatenation (tools/props/parts/lsh_ref.py).

op   nilsimsa.seqs <t0>,<t1>,… | <k> new | <k> u <hex> | <k> d | <k> r | <k> c <hex> | …
SEVERAL objects (object k = Nilsimsa(t_k)), each REUSED for several messages: u = update(piece), d = digest() (which the API
defines to leave the object ready for the next message), r = reset(), c = __call__(data).  Printed per step: `-` (new, r),
n<count> (u), the digest (d, c).  check_impl: every digest is the reference digest of the bytes fed to THAT object since its
last new / d / r / c, the byte counter after a piece is their number.  In the Lean model the objects are values in a list
(Model.Multi) and digest() returns the initial state (Model.Nilsimsa.digestObj): siblings cannot interfere and nothing
survives a digest there by construction; the lines test whether the Python objects behave so."""
from props.common import *
from props.parts import lsh_ref

PREFIX = ('nilsimsa.seq',)
ID = 'C14'
LEAN_PROOFS = ['Proofs.C14_Nilsimsa']
GEN_ITEMS = ['Lsh']
RULE = ('`nilsimsa.seq`: every single and double byte cut of short inputs, bytewise feeding, empty pieces, sampled cuts of long inputs; '
        '`nilsimsa.seqs <targets> | <k> new|u|d|r|c`: ONE object reused for several messages in a row (digest() between them, reset() after an '
        'abandoned stream, __call__ in between), every byte cut of the second message after first messages of 0..5 and 40 bytes, bytewise '
        'on a reused object, two and three objects (same / different target) interleaved; every digest compared with the reference digest '
        'of the bytes fed to that object since its last new / digest / reset / call')
TRUSTED = ['Nilsimsa part: the scan loop of maketran is modelled with a fuel bound (256*257 iterations) that the real loop '
           'never reached for any target 0..255 (C19 correspondence stream, op nilsimsa.tran)']
ASSUMPTIONS = ['Nilsimsa part: inputs are bytes objects (str input, `map(ord,…)`, is a Python-2 leftover and not modelled)']


def pieces_of(line):
    t = line.split()
    assert t[0] == 'nilsimsa.seq' and t[2] == '|'
    return int(t[1]), [unhx(x) for x in t[3:] if x != '|']


def parse_multi(line):
    t = line.split()
    assert t[0] == 'nilsimsa.seqs' and t[2] == '|'
    steps, cur = [], []
    for x in t[3:] + ['|']:
        if x == '|': steps.append((int(cur[0]), cur[1:])); cur = []
        else: cur.append(x)
    return [int(x) for x in t[1].split(',')], steps


def run_multi(line):
    from crysp.nilsimsa import Nilsimsa
    targets, steps = parse_multi(line)
    objs, out = {}, []
    for k, st in steps:
        if st[0] == 'new':
            objs[k] = Nilsimsa(targets[k]); out.append('-'); continue
        h = objs[k]
        def upd():
            h.update(unhx(st[1])); return 'n%d' % h.count
        def rst():
            h.reset(); return '-'
        out.append(guarded({'u': upd, 'd': lambda: hx(h.digest()), 'r': rst, 'c': lambda: hx(h(unhx(st[1])))}[st[0]]))
    return ';'.join(out)


def check_multi(line, res):
    targets, steps = parse_multi(line)
    outs = res.split(';')
    if len(outs) != len(steps): return 'nilsimsa.seqs: %d results for %d steps' % (len(outs), len(steps))
    fed, hist = {}, {}
    for (k, st), o in zip(steps, outs):
        hist.setdefault(k, []).append(st[0] + ('(%d)' % len(unhx(st[1])) if len(st) > 1 else ''))
        bad = lambda why: 'nilsimsa.seqs object %d (target %d), its steps %s; interleaved as %s: %s' % (
            k, targets[k], ' '.join(hist[k]), ' '.join(str(j) for j, _ in steps), why)
        if st[0] in ('new', 'r'): fed[k] = b''; exp = '-'
        elif st[0] == 'u': fed[k] += unhx(st[1]); exp = 'n%d' % len(fed[k])
        elif st[0] == 'd': exp = hx(lsh_ref.nilsimsa(targets[k], fed[k])); fed[k] = b''
        else: exp = hx(lsh_ref.nilsimsa(targets[k], unhx(st[1]))); fed[k] = b''
        if o != exp:
            return bad('the counter after the piece is %s, %s expected' % (o, exp) if st[0] == 'u' else
                       'the digest differs from the one-shot reference digest %s of the bytes fed to this object since its last new/digest/reset/call' % exp if st[0] in 'dc' else 'refused')
    return None


def run_impl(line):
    from crysp.nilsimsa import Nilsimsa
    if line.startswith('nilsimsa.seqs '): return run_multi(line)
    target, ps = pieces_of(line)
    def go():
        h = Nilsimsa(target)
        for p in ps: h.update(p)
        return hx(h.digest())
    return guarded(go)


def check_impl(line, res):
    if line.startswith('nilsimsa.seqs '): return check_multi(line, res)
    target, ps = pieces_of(line)
    exp = hx(lsh_ref.nilsimsa(target, b''.join(ps)))
    return None if res == exp else 'nilsimsa.seq: piecewise digest differs from the one-shot reference digest of the concatenation (%s)' % exp


def mm(targets, steps): return 'nilsimsa.seqs %s | %s' % (','.join(str(t) for t in targets), ' | '.join('%d %s' % ks for ks in steps))


def cuts_of(rng, d, k):
    cuts = sorted(rng.randrange(0, len(d) + 1) for _ in range(k))
    return [d[a:b] for a, b in zip([0] + cuts, cuts + [len(d)])]


def weave(rng, lists):
    pos = [0] * len(lists); out = []
    while True:
        live = [k for k, l in enumerate(lists) if pos[k] < len(l)]
        if not live: return out
        k = rng.choice(live); out.append((k, lists[k][pos[k]])); pos[k] += 1


def reuse_cases(tier, rng):
    """one object for several messages in a row; every byte cut of a message hashed on an object that already produced a
    digest; reset() and __call__ between streams; sibling objects between two pieces"""
    quick = tier == 'quick'
    rb = lambda n: bytes(rng.getrandbits(8) for _ in range(n))
    U = lambda p: 'u ' + hx(p)
    # every byte cut of the second message, after first messages of 0..5 bytes (window empty / partly / completely filled) and a long one
    for n1 in (0, 1, 2, 3, 4, 5, 40):
        m1 = rb(n1)
        for n in ((3, 5, 9) if quick else (0, 1, 2, 3, 4, 5, 6, 9, 14)):
            d = rb(n)
            for a in range(n + 1):
                if quick and n1 in (1, 2, 5) and a not in (0, 1, n): continue
                for t in (53,) if quick else (53, rng.randrange(256)):
                    yield mm([t], [(0, 'new'), (0, U(m1)), (0, 'd'), (0, U(d[:a])), (0, U(d[a:])), (0, 'd')]), 'reuse:every cut after a digest'
    d = rb(70); m1 = rb(33)
    for a in range(0, 71, 7 if quick else 1):
        yield mm([53], [(0, 'new'), (0, U(m1[:9])), (0, U(m1[9:])), (0, 'd'), (0, U(d[:a])), (0, U(d[a:])), (0, 'd')]), 'reuse:every cut after a digest'
    # several messages in a row, finished by digest() / separated by reset() / by a call; an abandoned stream before reset / call
    for _ in range(12 if quick else 120):
        t = rng.choice([53, rng.randrange(256)]); steps = [(0, 'new')]
        for _ in range(rng.randrange(2, 6)):
            d = rb(rng.choice([rng.randrange(0, 7), rng.randrange(0, 60), rng.randrange(60, 400)]))
            kind = rng.randrange(6)
            if kind == 0: steps.append((0, 'c ' + hx(d)))
            elif kind == 1: steps += [(0, U(p)) for p in cuts_of(rng, d, 1)] + [(0, 'r')]           # abandoned, reset
            else: steps += [(0, U(p)) for p in cuts_of(rng, d, rng.randrange(0, 4))] + [(0, 'd')]
        d = rb(rng.randrange(1, 50))
        steps += [(0, U(p)) for p in cuts_of(rng, d, 2)] + [(0, 'd')]
        yield mm([t], steps), 'reuse:several messages in a row'
    # bytewise on a reused object
    d = rb(12)
    yield mm([53], [(0, 'new'), (0, 'c ' + hx(rb(30)))] + [(0, U(d[i:i + 1])) for i in range(12)] + [(0, 'd'), (0, U(b'')), (0, 'd')]), 'reuse:several messages in a row'
    # siblings: same target / another target, constructed / fed / digested / called between two pieces
    for ts in ((53, 53), (53, 7), (53, 53, 200)):
        for _ in range(4 if quick else 40):
            ls = []
            for k in range(len(ts)):
                l = ['new']
                for _ in range(rng.randrange(1, 4)):
                    d = rb(rng.choice([rng.randrange(0, 7), rng.randrange(0, 80)]))
                    l += [U(p) for p in cuts_of(rng, d, rng.randrange(1, 3))] + [rng.choice(['d', 'd', 'd', 'r', 'c ' + hx(rb(5))])]
                ls.append(l)
            yield mm(ts, weave(rng, ls)), 'siblings:interleaved objects'
        d = rb(20); e = rb(9)
        yield mm(ts[:2], [(0, 'new'), (0, U(d[:8])), (1, 'new'), (1, U(e)), (0, U(d[8:])), (1, 'd'), (0, 'd')]), 'siblings:constructed and fed between two pieces'


def mk(target, ps): return 'nilsimsa.seq %d | %s' % (target, ' | '.join(hx(p) for p in ps))


def cases(tier, rng):
    rb = lambda n: bytes(rng.getrandbits(8) for _ in range(n))
    if tier == 'search':
        while True:
            d = rb(rng.choice([rng.randrange(0, 12), rng.randrange(0, 80), rng.randrange(0, 600)]))
            k = rng.randrange(1, 5)
            cuts = sorted(rng.randrange(0, len(d) + 1) for _ in range(k))
            ps = [d[a:b] for a, b in zip([0] + cuts, cuts + [len(d)])]
            yield mk(rng.choice([53, 53, rng.randrange(256)]), ps), 'seq.search'
            yield rng.choice(list(reuse_cases('quick', rng))[-40:])[0], 'seq.search'
        return
    # every single cut and every pair of cuts of short inputs (the window fills during the first 4 bytes; thresholds at 3,4,5)
    top = 9 if tier == 'quick' else 14
    for n in range(0, top + 1):
        d = rb(n)
        for t in (53, rng.randrange(256)):
            for a in range(n + 1):
                yield mk(t, [d[:a], d[a:]]), 'seq.cut1'
                for b in range(a, n + 1):
                    if n <= (7 if tier == 'quick' else 10): yield mk(t, [d[:a], d[a:b], d[b:]]), 'seq.cut2'
    # bytewise feeding, empty pieces in every position
    for n in (5, 8, 40):
        d = rb(n)
        yield mk(53, [d[i:i + 1] for i in range(n)]), 'seq.bytewise'
        yield mk(53, [b'', d, b'']), 'seq.empty-pieces'
        yield mk(53, [b'', b'', d[:2], b'', d[2:]]), 'seq.empty-pieces'
    # longer inputs (threshold total/256 >= 1 from 36 bytes, >= 2 from 68): every cut of one, sampled cuts of others
    d = rb(70)
    for a in range(0, 71, 1 if tier != 'quick' else 3): yield mk(53, [d[:a], d[a:]]), 'seq.long.cut1'
    for _ in range(30 if tier == 'quick' else 300):
        n = rng.choice([rng.randrange(30, 80), rng.randrange(80, 700), rng.randrange(700, 3000)])
        d = rb(n) if rng.random() < .5 else bytes(rng.choice(b'etaoin shrdlu,.\n') for _ in range(n))
        k = rng.randrange(1, 6)
        cuts = sorted(rng.randrange(0, n + 1) for _ in range(k))
        ps = [d[a:b] for a, b in zip([0] + cuts, cuts + [n])]
        yield mk(rng.choice([53, rng.randrange(256)]), ps), 'seq.random'
    yield from reuse_cases(tier, rng)


def shrink(line):
    if line.startswith('nilsimsa.seqs '):
        targets, steps = parse_multi(line)
        for i, (k, st) in enumerate(steps):
            if st[0] != 'new': yield mm(targets, [(j, ' '.join(x)) for j, x in steps[:i] + steps[i + 1:]])
            if len(st) > 1 and len(st[1]) > 3:
                yield mm(targets, [(j, ' '.join(x if n != i else [x[0], x[1][:-2]])) for n, (j, x) in enumerate(steps)])
        return
    target, ps = pieces_of(line)
    for i, p in enumerate(ps):
        if p:
            yield mk(target, ps[:i] + [p[1:]] + ps[i + 1:])
            yield mk(target, ps[:i] + [p[:-1]] + ps[i + 1:])
    if len(ps) > 2:
        for i in range(len(ps) - 1): yield mk(target, ps[:i] + [ps[i] + ps[i + 1]] + ps[i + 2:])
