"""C14 (Nilsimsa part) — update(a).update(b)….digest() == Nilsimsa()(a|b|…) for every byte cut.

op   nilsimsa.seq <target> | <piece> | <piece> …      pieces are byte strings (may be empty)
run_impl feeds the pieces to ONE object and finishes with digest(); check_impl compares with an independent positional
reference of nilsimsa 0.2.4 on the concatenation (tools/props/parts/lsh_ref.py)."""
from props.common import *
from props.parts import lsh_ref

PREFIX = ('nilsimsa.seq',)
ID = 'C14'
LEAN_PROOFS = ['Proofs.C14_Nilsimsa']
GEN_ITEMS = ['Lsh']
TRUSTED = ['Nilsimsa part: the scan loop of maketran is modelled with a fuel bound (256*257 iterations) that the real loop '
           'never reached for any target 0..255 (C19 correspondence stream, op nilsimsa.tran)']
ASSUMPTIONS = ['Nilsimsa part: inputs are bytes objects (str input, `map(ord,…)`, is a Python-2 leftover and not modelled)']


def pieces_of(line):
    t = line.split()
    assert t[0] == 'nilsimsa.seq' and t[2] == '|'
    return int(t[1]), [unhx(x) for x in t[3:] if x != '|']


def run_impl(line):
    from crysp.nilsimsa import Nilsimsa
    target, ps = pieces_of(line)
    def go():
        h = Nilsimsa(target)
        for p in ps: h.update(p)
        return hx(h.digest())
    return guarded(go)


def check_impl(line, res):
    target, ps = pieces_of(line)
    exp = hx(lsh_ref.nilsimsa(target, b''.join(ps)))
    return None if res == exp else 'nilsimsa.seq: piecewise digest differs from the one-shot reference digest of the concatenation (%s)' % exp


def mk(target, ps): return 'nilsimsa.seq %d | %s' % (target, ' | '.join(hx(p) for p in ps))


def cases(tier, rng):
    rb = lambda n: bytes(rng.getrandbits(8) for _ in range(n))
    if tier == 'search':
        while True:
            d = rb(rng.choice([rng.randrange(0, 12), rng.randrange(0, 80), rng.randrange(0, 600)]))
            k = rng.randrange(1, 5)
            cuts = sorted(rng.randrange(0, len(d) + 1) for _ in range(k))
            ps = [d[a:b] for a, b in zip([0] + cuts, cuts + [len(d)])]
            yield mk(rng.choice([53, 53, rng.randrange(256)]), ps), 'seq.search'
        return
    # every single cut and every pair of cuts of short inputs (the window fills during the first 4 bytes; thresholds at 3,4,5)
    top = 9 if tier == 'quick' else 14
    for n in range(0, top + 1):
        d = rb(n)
        for t in (53, rng.randrange(256)):
            for a in range(n + 1):
                yield mk(t, [d[:a], d[a:]]), 'seq.cut1'
                for b in range(a, n + 1):
                    if n <= (7 if tier == 'quick' else 10): yield mk(t, [d[:a], d[a:b], d[b:]]), 'seq.cut2'
    # bytewise feeding, empty pieces in every position
    for n in (5, 8, 40):
        d = rb(n)
        yield mk(53, [d[i:i + 1] for i in range(n)]), 'seq.bytewise'
        yield mk(53, [b'', d, b'']), 'seq.empty-pieces'
        yield mk(53, [b'', b'', d[:2], b'', d[2:]]), 'seq.empty-pieces'
    # longer inputs (threshold total/256 >= 1 from 36 bytes, >= 2 from 68): every cut of one, sampled cuts of others
    d = rb(70)
    for a in range(0, 71, 1 if tier != 'quick' else 3): yield mk(53, [d[:a], d[a:]]), 'seq.long.cut1'
    for _ in range(30 if tier == 'quick' else 300):
        n = rng.choice([rng.randrange(30, 80), rng.randrange(80, 700), rng.randrange(700, 3000)])
        d = rb(n) if rng.random() < .5 else bytes(rng.choice(b'etaoin shrdlu,.\n') for _ in range(n))
        k = rng.randrange(1, 6)
        cuts = sorted(rng.randrange(0, n + 1) for _ in range(k))
        ps = [d[a:b] for a, b in zip([0] + cuts, cuts + [n])]
        yield mk(rng.choice([53, rng.randrange(256)]), ps), 'seq.random'


def shrink(line):
    target, ps = pieces_of(line)
    for i, p in enumerate(ps):
        if p:
            yield mk(target, ps[:i] + [p[1:]] + ps[i + 1:])
            yield mk(target, ps[:i] + [p[:-1]] + ps[i + 1:])
    if len(ps) > 2:
        for i in range(len(ps) - 1): yield mk(target, ps[:i] + [ps[i] + ps[i + 1]] + ps[i + 2:])
