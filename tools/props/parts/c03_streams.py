"""C03 part — the Salsa20 / ChaCha index maps and their inverses (rM/rMinv, cM/cMinv of crysp.salsa20 and crysp.chacha)
are mutual inverses on their whole domain 0..15, as index functions and as the gathers `y[rM][rMinv]` the round
functions perform on a 16-vector Poly.

ops (prefix `idx.`):
  idx.map <salsa|chacha> <rM|rMinv|cM|cMinv>        the list the module holds       (spec: the specification's position rule)
  idx.inv <salsa|chacha> <r|c> <i>                  inv[map[i]],map[inv[i]]         (must be i,i for 0 <= i < 16)
  idx.gather <salsa|chacha> <r|c> l<16 words>       y[map][inv]|y[inv][map]         (must be y|y)
"""
from props.common import *

PREFIX = ('idx.',)
ID = 'C03'
LEAN_PROOFS = ['Proofs.C03_Streams']
GEN_ITEMS = ['Streams']
RULE = 'idx.*: all 8 maps, idx.inv for every i in -17..17 x 2 modules x 2 pairs (complete domain 0..15 plus out-of-range), gathers on boundary/random vectors'
TRUSTED = []
ASSUMPTIONS = []
M32 = 0xffffffff


def _mod(name):
    from crysp import salsa20, chacha
    return {'salsa': salsa20, 'chacha': chacha}[name]


def _pair(mod, w):
    m = _mod(mod)
    return (m.rM, m.rMinv) if w == 'r' else (m.cM, m.cMinv)


def run_impl(line):
    t = line.split(); op, a = t[0], t[1:]
    def go():
        from crysp.poly import Poly
        if op == 'idx.map':
            if a[1] not in ('rM', 'rMinv', 'cM', 'cMinv'): raise RuntimeError('unknown map')
            return il(getattr(_mod(a[0]), a[1]))
        if op == 'idx.inv':
            f, g = _pair(a[0], a[1]); i = int(a[2])
            return '%d,%d' % (g[f[i]], f[g[i]])
        if op == 'idx.gather':
            f, g = _pair(a[0], a[1])
            y = Poly(unil(a[2]), 32)
            return il(y[f][g].ival) + '|' + il(y[g][f].ival)
        raise RuntimeError('unknown op ' + op)
    return guarded(go)


# the position rules of the two specifications, written independently of the code and of the Lean files
def rule_map(mod, name):
    row = [4 * (p // 4) + (p // 4 + p % 4) % 4 for p in range(16)]          # Salsa20 rowround groups
    tr = [4 * (p % 4) + p // 4 for p in range(16)]                           # transposition (columnround)
    diag = [4 * (p % 4) + (p // 4 + p % 4) % 4 for p in range(16)]           # ChaCha diagonals
    inv = lambda l: [l.index(x) for x in range(16)]
    t = {('salsa', 'rM'): row, ('salsa', 'rMinv'): inv(row), ('salsa', 'cM'): tr, ('salsa', 'cMinv'): inv(tr),
         ('chacha', 'rM'): diag, ('chacha', 'rMinv'): inv(diag), ('chacha', 'cM'): inv(row), ('chacha', 'cMinv'): row}
    return t[(mod, name)]


def check_impl(line, res):
    t = line.split(); op, a = t[0], t[1:]
    bad = lambda why: '%s: %s' % (op, why)
    if op == 'idx.map':
        exp = il(rule_map(a[0], a[1]))
        return None if res == exp else bad('expected %s' % exp)
    if op == 'idx.inv':
        i = int(a[2])
        if 0 <= i < 16: return None if res == '%d,%d' % (i, i) else bad('not mutual inverses at %d: %s' % (i, res))
        return None
    if op == 'idx.gather':
        y = unil(a[2])
        if len(y) == 16 and all(0 <= v <= M32 for v in y):
            exp = il(y) + '|' + il(y)
            return None if res == exp else bad('gather by map then inverse is not the identity')
        return None
    return None


def _vectors(rng, n):
    yield list(range(16))
    yield [M32] * 16
    yield [0] * 16
    yield [(1 << 31) + i for i in range(16)]
    for _ in range(n): yield [rng.getrandbits(32) for _ in range(16)]


def cases(tier, rng):
    mods, ws = ('salsa', 'chacha'), ('r', 'c')
    if tier == 'search':
        while True:
            m, w = rng.choice(mods), rng.choice(ws)
            yield 'idx.inv %s %s %d' % (m, w, rng.randrange(16)), 'idx.inv'
            yield 'idx.gather %s %s %s' % (m, w, il([rng.getrandbits(32) for _ in range(16)])), 'idx.gather'
            yield 'idx.map %s %s' % (m, rng.choice(('rM', 'rMinv', 'cM', 'cMinv'))), 'idx.map'
        return
    for m in mods:
        for n in ('rM', 'rMinv', 'cM', 'cMinv'): yield 'idx.map %s %s' % (m, n), 'idx.map'
        for w in ws:
            for i in range(-17, 18): yield 'idx.inv %s %s %d' % (m, w, i), 'idx.inv' if 0 <= i < 16 else 'idx.inv.outofrange'
            for y in _vectors(rng, 6 if tier == 'quick' else 120):
                yield 'idx.gather %s %s %s' % (m, w, il(y)), 'idx.gather'
            # malformed: short / long vectors
            yield 'idx.gather %s %s %s' % (m, w, il(range(15))), 'idx.gather.short'
            yield 'idx.gather %s %s %s' % (m, w, il(range(17))), 'idx.gather.long'


def shrink(line):
    return []


LEVEL_TEXT = ('Lean 4 theorems: the eight index maps regenerated from salsa20.py/chacha.py are permutations of 0..15, each pair '
              '(rM,rMinv), (cM,cMinv) is mutually inverse on the whole domain (kernel enumeration) and the gathers y[map][inv] = y '
              'for every 16-vector Poly; tied to the source by the translator and an exhaustive correspondence stream.')
LEVEL_NOTE = 'Trusted: Lean kernel; extract.py (runtime values of the module-level lists); runcheck.py.'
TECHNIQUE = 'Lean 4 proof (kernel enumeration of the complete index domain + list lemma) + correspondence check'
